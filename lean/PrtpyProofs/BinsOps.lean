/-
  PrtpyProofs.BinsOps — C16 (bins-manager operations keep sums and contents consistent and have
  exactly their documented effect; sorting permutes sums and contents together into non-decreasing
  sum order) and C06 (every sums-only output equals what one computes from the full partition output).

  Model notes (pure model vs. Python):
  * `Bins.add v b x i` / `Bins.combine b1 i1 b2 i2` with an index out of range are the identity in the
    model (`add_out_of_range`, `combine_out_of_range`); Python raises `IndexError` there.  (Negative
    Python indices are not modelled except `-1`, which is `Bins.addLast`.)
  * `Bins.addLast` on an empty bins-array is the identity; Python raises `IndexError`.
  * `Bins.removeLast b n` with `n > numbins` gives the empty bins-array (natural subtraction); Python
    would slice with a negative stop.  The effect lemmas assume `n ≤ numbins`.
  * `Bins.combine` returns the new `b1`; `b2` is an argument of a pure function and therefore
    trivially unchanged (Python mutates `bins1` in place and leaves `bins2` alone).
  * `Out.largestSum`/`Out.smallestSum` of an empty bins-array are `0`; Python `max([])` raises.
-/
import PrtpyProofs.Part
open Prtpy

namespace Prtpy.BinsOps

variable {α : Type}

instance (v : α → Nat) (b : Bins α) : Decidable (b.Consistent v) :=
  inferInstanceAs (Decidable (b.sums = b.lists.map (binSum v)))

/-! ## Generic list helpers -/

theorem getElem?_modify_self {β : Type} (l : List β) (i : Nat) (f : β → β) (h : i < l.length) :
    (l.modify i f)[i]? = some (f l[i]) := by
  rw [List.getElem?_modify_eq, List.getElem?_eq_getElem h]; rfl

theorem getElem?_modify_other {β : Type} (l : List β) (i j : Nat) (f : β → β) (h : j ≠ i) :
    (l.modify i f)[j]? = l[j]? :=
  List.getElem?_modify_ne f l (fun e => h e.symm)

theorem zip_map_fst_snd {β γ : Type} (z : List (β × γ)) : (z.map (·.1)).zip (z.map (·.2)) = z := by
  induction z with
  | nil => rfl
  | cons p z ih => simp only [List.map_cons, List.zip_cons_cons, ih]

theorem map_binSum_modify_append (v : α → Nat) (ls : List (List α)) (i : Nat) (l : List α) :
    (ls.modify i (· ++ l)).map (binSum v) = (ls.map (binSum v)).modify i (· + binSum v l) := by
  induction ls generalizing i with
  | nil => simp
  | cons l' ls ih =>
    cases i with
    | zero => simp [List.modify_cons, Part.binSum_append]
    | succ i => simp [ih]

theorem map_modify_comm {β γ : Type} (g : β → γ) (h : β → β) (h' : γ → γ)
    (hc : ∀ a, g (h a) = h' (g a)) (l : List β) (i : Nat) :
    (l.modify i h).map g = (l.map g).modify i h' := by
  induction l generalizing i with
  | nil => simp
  | cons a l ih =>
    cases i with
    | zero => simp [List.modify_cons, hc]
    | succ i => simp [ih]

theorem getD_map_binSum (v : α → Nat) (ls : List (List α)) (i : Nat) :
    (ls.map (binSum v)).getD i 0 = binSum v (ls.getD i []) := by
  simp only [List.getD_eq_getElem?_getD, List.getElem?_map]
  cases ls[i]? <;> rfl

/-! ## Sorting helpers: `sortAsc` commutes with maps that respect the key, is the identity on sorted
input, and is stable. -/

theorem map_insertAsc {β γ : Type} (f : β → γ) (key : γ → Nat) (x : β) (l : List β) :
    (insertAsc (fun a => key (f a)) x l).map f = insertAsc key (f x) (l.map f) := by
  induction l with
  | nil => rfl
  | cons y ys ih =>
    simp only [insertAsc, List.map_cons]
    split
    · rfl
    · simp only [List.map_cons, ih]

theorem map_sortAsc {β γ : Type} (f : β → γ) (key : γ → Nat) (l : List β) :
    (sortAsc (fun a => key (f a)) l).map f = sortAsc key (l.map f) := by
  induction l with
  | nil => rfl
  | cons x xs ih => simp only [sortAsc, List.map_cons, map_insertAsc, ih]

theorem insertAsc_of_le {β : Type} (key : β → Nat) (x : β) (l : List β)
    (h : ∀ y ∈ l, key x ≤ key y) : insertAsc key x l = x :: l := by
  cases l with
  | nil => rfl
  | cons y ys => simp only [insertAsc, h y (List.mem_cons_self ..), if_true]

/-- A stable sort is the identity on an already sorted list. -/
theorem sortAsc_of_sorted {β : Type} (key : β → Nat) (l : List β)
    (h : l.Pairwise (fun a b => key a ≤ key b)) : sortAsc key l = l := by
  induction l with
  | nil => rfl
  | cons x xs ih =>
    rw [List.pairwise_cons] at h
    simp only [sortAsc, ih h.2]
    exact insertAsc_of_le key x xs h.1

theorem filter_insertAsc {β : Type} (key : β → Nat) (c : Nat) (x : β) (l : List β) :
    (insertAsc key x l).filter (fun a => key a == c) = (x :: l).filter (fun a => key a == c) := by
  induction l with
  | nil => rfl
  | cons y ys ih =>
    simp only [insertAsc]
    split
    · rfl
    · rename_i hxy
      rw [List.filter_cons, ih]
      simp only [List.filter_cons]
      by_cases hx : key x = c <;> by_cases hy : key y = c <;> simp [hx, hy]
      omega

/-- Stability proper: for every key value `c`, the sub-list of the elements with key `c` is the same
    (same elements, same order) before and after sorting. -/
theorem filter_sortAsc {β : Type} (key : β → Nat) (c : Nat) (l : List β) :
    (sortAsc key l).filter (fun a => key a == c) = l.filter (fun a => key a == c) := by
  induction l with
  | nil => rfl
  | cons x xs ih =>
    simp only [sortAsc]
    rw [filter_insertAsc, List.filter_cons, List.filter_cons, ih]

/-! ## 1. Every operation preserves consistency and has exactly its documented effect -/

section Ops
variable (v : α → Nat)

/-- Consistent bins-arrays have as many sums as lists. -/
theorem consistent_length {b : Bins α} (h : b.Consistent v) : b.sums.length = b.lists.length :=
  Part.consistent_length v h

/-- Under consistency each recorded sum is the value of the corresponding recorded list. -/
theorem consistent_getElem {b : Bins α} (h : b.Consistent v) (i : Nat) (hi : i < b.lists.length) :
    b.sums[i]? = some (binSum v b.lists[i]) := by
  unfold Bins.Consistent at h
  rw [h, List.getElem?_map, List.getElem?_eq_getElem hi]; rfl

/-! ### `new_bins` -/

theorem new_numbins (k : Nat) :
    (Bins.new k : Bins α).sums = List.replicate k 0 ∧ (Bins.new k : Bins α).lists = List.replicate k [] :=
  ⟨rfl, rfl⟩

theorem new_numbins_eq (k : Nat) : (Bins.new k : Bins α).numbins = k := by
  simp [Bins.numbins, Bins.new]

theorem new_consistent (k : Nat) : (Bins.new k : Bins α).Consistent v := Part.new_consistent v k

example : (Bins.new 3 : Bins Nat).sums = [0, 0, 0] ∧ (Bins.new 3 : Bins Nat).lists = [[], [], []] :=
  new_numbins 3

/-! ### `add_item_to_bin` -/

theorem add_consistent (b : Bins α) (x : α) (i : Nat) (h : b.Consistent v) :
    (b.add v x i).Consistent v := Part.add_consistent v b x i h

/-- Exact effect of `add_item_to_bin(bins, x, i)` for a valid index: the number of bins is unchanged,
    sum `i` grows by `v x`, list `i` gets `x` appended, every other sum and list is unchanged. -/
theorem add_effect (b : Bins α) (x : α) (i : Nat) (hi : i < b.sums.length) (hl : i < b.lists.length) :
    (b.add v x i).sums.length = b.sums.length ∧
    (b.add v x i).lists.length = b.lists.length ∧
    (b.add v x i).sums[i]? = some (b.sums[i] + v x) ∧
    (b.add v x i).lists[i]? = some (b.lists[i] ++ [x]) ∧
    (∀ j, j ≠ i → (b.add v x i).sums[j]? = b.sums[j]?) ∧
    (∀ j, j ≠ i → (b.add v x i).lists[j]? = b.lists[j]?) := by
  refine ⟨by simp, by simp, ?_, ?_, ?_, ?_⟩
  · exact getElem?_modify_self b.sums i _ hi
  · exact getElem?_modify_self b.lists i _ hl
  · intro j hj; exact getElem?_modify_other b.sums i j _ hj
  · intro j hj; exact getElem?_modify_other b.lists i j _ hj

/-- The same with `getElem` (bounds discharged by the length facts). -/
theorem add_effect_getElem (b : Bins α) (x : α) (i : Nat) (hi : i < b.sums.length)
    (hl : i < b.lists.length) :
    (b.add v x i).sums[i]'(by simpa using hi) = b.sums[i] + v x ∧
    (b.add v x i).lists[i]'(by simpa using hl) = b.lists[i] ++ [x] := by
  constructor
  · simp
  · simp

/-- In the model an out-of-range index leaves the bins-array unchanged
    (Python raises `IndexError` here; the models never call `add` out of range). -/
theorem add_out_of_range (b : Bins α) (x : α) (i : Nat) (hi : b.sums.length ≤ i)
    (hl : b.lists.length ≤ i) : b.add v x i = b := by
  cases b with
  | mk s l =>
    simp only [Bins.add, Bins.mk.injEq]
    exact ⟨List.modify_eq_self hi, List.modify_eq_self hl⟩

example : ((⟨[3, 4, 0], [[3], [4], []]⟩ : Bins Nat).add id 5 1).sums = [3, 9, 0] ∧
    ((⟨[3, 4, 0], [[3], [4], []]⟩ : Bins Nat).add id 5 1).lists = [[3], [4, 5], []] := by decide

example := add_effect id (⟨[3, 4, 0], [[3], [4], []]⟩ : Bins Nat) 5 1 (by decide) (by decide)

/-! ### `add_item_to_bin(bins, x, -1)` -/

theorem addLast_eq_add (b : Bins α) (x : α) : b.addLast v x = b.add v x (b.sums.length - 1) := rfl

theorem addLast_consistent (b : Bins α) (x : α) (h : b.Consistent v) : (b.addLast v x).Consistent v :=
  add_consistent v b x _ h

/-- For a non-empty consistent bins-array, `addLast` adds to the last bin and only to it. -/
theorem addLast_effect (b : Bins α) (x : α) (hne : b.sums ≠ []) (hlen : b.sums.length = b.lists.length) :
    (b.addLast v x).sums = b.sums.dropLast ++ [b.sums.getLast hne + v x] ∧
    (b.addLast v x).lists = b.lists.dropLast ++
      [b.lists.getLast (by intro e; rw [e] at hlen; exact hne (List.eq_nil_of_length_eq_zero hlen)) ++ [x]] := by
  have key : ∀ {β : Type} (l : List β) (f : β → β) (hn : l ≠ []),
      l.modify (l.length - 1) f = l.dropLast ++ [f (l.getLast hn)] := by
    intro β l f hn
    conv => lhs; rw [← List.dropLast_concat_getLast hn]
    have : l.length - 1 = l.dropLast.length := by simp
    rw [List.length_append, List.length_singleton, Nat.add_sub_cancel, Part.modify_length_append]
  constructor
  · exact key b.sums _ hne
  · show b.lists.modify (b.sums.length - 1) _ = _
    have e : b.sums.length - 1 = b.lists.length - 1 := by rw [hlen]
    rw [e]; exact key b.lists _ _

example : ((⟨[3, 4], [[3], [4]]⟩ : Bins Nat).addLast id 5).sums = [3, 9] ∧
    ((⟨[3, 4], [[3], [4]]⟩ : Bins Nat).addLast id 5).lists = [[3], [4, 5]] := by decide

/-! ### `concatenate_bins`, `add_empty_bins`, `remove_bins` -/

theorem concat_effect (b1 b2 : Bins α) :
    (b1.concat b2).sums = b1.sums ++ b2.sums ∧ (b1.concat b2).lists = b1.lists ++ b2.lists := ⟨rfl, rfl⟩

theorem concat_consistent (b1 b2 : Bins α) (h1 : b1.Consistent v) (h2 : b2.Consistent v) :
    (b1.concat b2).Consistent v := by
  unfold Bins.Consistent at *
  simp only [Bins.concat, List.map_append, h1, h2]

example : ((⟨[3], [[3]]⟩ : Bins Nat).concat ⟨[1, 2], [[1], [2]]⟩).sums = [3, 1, 2] := by decide

/-- `add_empty_bins(bins, n)`: `n` new empty bins with sum 0 at the end. -/
theorem addEmpty_effect (b : Bins α) (n : Nat) :
    (b.addEmpty n).sums = b.sums ++ List.replicate n 0 ∧
    (b.addEmpty n).lists = b.lists ++ List.replicate n [] ∧
    (b.addEmpty n).numbins = b.numbins + n ∧
    (b.addEmpty n).sums.take b.sums.length = b.sums ∧
    (b.addEmpty n).lists.take b.lists.length = b.lists := by
  refine ⟨rfl, rfl, ?_, ?_, ?_⟩
  · simp [Bins.numbins, Bins.addEmpty, Bins.concat, Bins.new]
  · simp [Bins.addEmpty, Bins.concat]
  · simp [Bins.addEmpty, Bins.concat]

theorem addEmpty_consistent (b : Bins α) (n : Nat) (h : b.Consistent v) : (b.addEmpty n).Consistent v :=
  concat_consistent v b _ h (new_consistent v n)

example : ((⟨[3], [[3]]⟩ : Bins Nat).addEmpty 2).sums = [3, 0, 0] ∧
    ((⟨[3], [[3]]⟩ : Bins Nat).addEmpty 2).lists = [[3], [], []] := by decide

theorem removeLast_consistent (b : Bins α) (n : Nat) (h : b.Consistent v) :
    (b.removeLast n).Consistent v := by
  have hl := consistent_length v h
  unfold Bins.Consistent at *
  simp only [Bins.removeLast, List.map_take, hl, ← h]

/-- `remove_bins(bins, n)` for `n ≤ numbins`: exactly the first `numbins − n` bins survive, unchanged. -/
theorem removeLast_effect (b : Bins α) (n : Nat) :
    (b.removeLast n).sums = b.sums.take (b.sums.length - n) ∧
    (b.removeLast n).lists = b.lists.take (b.lists.length - n) ∧
    (b.removeLast n).numbins = b.numbins - n ∧
    (∀ j, j < b.sums.length - n → (b.removeLast n).sums[j]? = b.sums[j]?) ∧
    (∀ j, j < b.lists.length - n → (b.removeLast n).lists[j]? = b.lists[j]?) := by
  refine ⟨rfl, rfl, ?_, ?_, ?_⟩
  · simp only [Bins.numbins, Bins.removeLast, List.length_take]; omega
  · intro j hj; simp only [Bins.removeLast, List.getElem?_take, hj, if_true]
  · intro j hj; simp only [Bins.removeLast, List.getElem?_take, hj, if_true]

/-- `remove_bins` undoes `add_empty_bins`. -/
theorem removeLast_addEmpty (b : Bins α) (n : Nat) : (b.addEmpty n).removeLast n = b := by
  cases b with
  | mk s l => simp [Bins.addEmpty, Bins.concat, Bins.new, Bins.removeLast]

/-- `remove_bins` undoes `concatenate_bins` (lengths of the two components of `b2` agree). -/
theorem removeLast_concat (b1 b2 : Bins α) (h : b2.sums.length = b2.lists.length) :
    (b1.concat b2).removeLast b2.sums.length = b1 := by
  cases b1 with
  | mk s l =>
    simp only [Bins.concat, Bins.removeLast, List.length_append, Nat.add_sub_cancel, Bins.mk.injEq]
    constructor
    · simp
    · rw [h]; simp

example : ((⟨[0, 3, 9], [[], [3], [4, 5]]⟩ : Bins Nat).removeLast 1).sums = [0, 3] ∧
    ((⟨[0, 3, 9], [[], [3], [4, 5]]⟩ : Bins Nat).removeLast 1).lists = [[], [3]] := by decide

/-! ### `combine_bins` -/

/-- `combine_bins` preserves consistency (no index hypothesis needed: out-of-range indices are no-ops
    or add an empty bin).  `b2` is an argument of a pure function, hence trivially unchanged. -/
theorem combine_consistent (b1 b2 : Bins α) (i1 i2 : Nat) (h1 : b1.Consistent v) (h2 : b2.Consistent v) :
    (b1.combine i1 b2 i2).Consistent v := by
  unfold Bins.Consistent at *
  simp only [Bins.combine, map_binSum_modify_append, h1, h2, getD_map_binSum]

/-- Exact effect of `combine_bins(b1, i1, b2, i2)` for valid indices: sum `i1` of `b1` grows by sum `i2`
    of `b2`, list `i1` is extended by list `i2` of `b2`, every other bin of `b1` is unchanged and the
    number of bins is unchanged. -/
theorem combine_effect (b1 b2 : Bins α) (i1 i2 : Nat)
    (hs1 : i1 < b1.sums.length) (hl1 : i1 < b1.lists.length)
    (hs2 : i2 < b2.sums.length) (hl2 : i2 < b2.lists.length) :
    (b1.combine i1 b2 i2).sums.length = b1.sums.length ∧
    (b1.combine i1 b2 i2).lists.length = b1.lists.length ∧
    (b1.combine i1 b2 i2).sums[i1]? = some (b1.sums[i1] + b2.sums[i2]) ∧
    (b1.combine i1 b2 i2).lists[i1]? = some (b1.lists[i1] ++ b2.lists[i2]) ∧
    (∀ j, j ≠ i1 → (b1.combine i1 b2 i2).sums[j]? = b1.sums[j]?) ∧
    (∀ j, j ≠ i1 → (b1.combine i1 b2 i2).lists[j]? = b1.lists[j]?) := by
  have e1 : b2.sums.getD i2 0 = b2.sums[i2] := by
    simp [List.getD_eq_getElem?_getD, List.getElem?_eq_getElem hs2]
  have e2 : b2.lists.getD i2 [] = b2.lists[i2] := by
    simp [List.getD_eq_getElem?_getD, List.getElem?_eq_getElem hl2]
  refine ⟨by simp [Bins.combine], by simp [Bins.combine], ?_, ?_, ?_, ?_⟩
  · simp only [Bins.combine, e1]; exact getElem?_modify_self b1.sums i1 _ hs1
  · simp only [Bins.combine, e2]; exact getElem?_modify_self b1.lists i1 _ hl1
  · intro j hj; exact getElem?_modify_other b1.sums i1 j _ hj
  · intro j hj; exact getElem?_modify_other b1.lists i1 j _ hj

/-- Model-only: a target index out of range is a no-op (Python raises `IndexError`). -/
theorem combine_out_of_range (b1 b2 : Bins α) (i1 i2 : Nat) (hs : b1.sums.length ≤ i1)
    (hl : b1.lists.length ≤ i1) : b1.combine i1 b2 i2 = b1 := by
  cases b1 with
  | mk s l =>
    simp only [Bins.combine, Bins.mk.injEq]
    exact ⟨List.modify_eq_self hs, List.modify_eq_self hl⟩

example : ((⟨[1, 20], [[1], [20]]⟩ : Bins Nat).combine 0 ⟨[4, 50], [[1, 3], [4, 46]]⟩ 1).sums = [51, 20] ∧
    ((⟨[1, 20], [[1], [20]]⟩ : Bins Nat).combine 0 ⟨[4, 50], [[1, 3], [4, 46]]⟩ 1).lists
      = [[1, 4, 46], [20]] := by decide

example : ((⟨[1, 20], [[1], [20]]⟩ : Bins Nat).combine 0 ⟨[4, 50], [[1, 3], [4, 46]]⟩ 1).Consistent id :=
  combine_consistent id _ _ 0 1 (by decide) (by decide)

/-- Summary of C16 part 1: every bins-manager operation preserves the consistency invariant. -/
theorem op_consistent :
    (∀ k, (Bins.new k : Bins α).Consistent v) ∧
    (∀ (b : Bins α) x i, b.Consistent v → (b.add v x i).Consistent v) ∧
    (∀ (b : Bins α) x, b.Consistent v → (b.addLast v x).Consistent v) ∧
    (∀ (b1 b2 : Bins α), b1.Consistent v → b2.Consistent v → (b1.concat b2).Consistent v) ∧
    (∀ (b : Bins α) n, b.Consistent v → (b.addEmpty n).Consistent v) ∧
    (∀ (b : Bins α) n, b.Consistent v → (b.removeLast n).Consistent v) ∧
    (∀ (b1 b2 : Bins α) i1 i2, b1.Consistent v → b2.Consistent v → (b1.combine i1 b2 i2).Consistent v) ∧
    (∀ (b : Bins α), b.Consistent v → b.sortAsc.Consistent v) :=
  ⟨new_consistent v, add_consistent v, addLast_consistent v, concat_consistent v, addEmpty_consistent v,
   removeLast_consistent v, combine_consistent v, fun b h => Part.sortAsc_consistent v b h⟩

end Ops

/-! ## 2. Sorting -/

section Sorting
variable (v : α → Nat)

/-- The two components of the sorted bins-array are the two projections of *one* sorted list of
    (sum, list) pairs — this holds by definition, with no hypothesis. -/
theorem sortAsc_zip (b : Bins α) :
    b.sortAsc.sums.zip b.sortAsc.lists = Prtpy.sortAsc (fun p => p.1) (b.sums.zip b.lists) := by
  simp only [Bins.sortAsc]; exact zip_map_fst_snd _

/-- C16: sorting puts the sums into non-decreasing order and applies one and the same permutation to
    sums and contents (so every sum still travels with its own list); in particular sums and lists are
    each permuted, and nothing is lost when the two components have the same length. -/
theorem sortAsc_sorted_perm (b : Bins α) (h : b.sums.length = b.lists.length) :
    b.sortAsc.sums.Pairwise (· ≤ ·) ∧
    (b.sortAsc.sums.zip b.sortAsc.lists).Perm (b.sums.zip b.lists) ∧
    b.sortAsc.sums.Perm b.sums ∧ b.sortAsc.lists.Perm b.lists ∧
    b.sortAsc.sums.length = b.sortAsc.lists.length := by
  refine ⟨Part.sortAsc_sums_sorted b, ?_, Part.sortAsc_sums_perm b h, Part.sortAsc_lists_perm b h, ?_⟩
  · rw [sortAsc_zip]; exact Part.sortAsc_perm _ _
  · simp [Bins.sortAsc]

theorem sortAsc_consistent (b : Bins α) (h : b.Consistent v) : b.sortAsc.Consistent v :=
  Part.sortAsc_consistent v b h

/-- Stability, form 1: an already sorted bins-array is left untouched. -/
theorem sortAsc_stable (b : Bins α) (h : b.sums.length = b.lists.length)
    (hs : b.sums.Pairwise (· ≤ ·)) : b.sortAsc = b := by
  have hz : (b.sums.zip b.lists).Pairwise (fun p q : Nat × List α => p.1 ≤ q.1) := by
    have : ((b.sums.zip b.lists).map Prod.fst).Pairwise (· ≤ ·) := by
      rw [List.map_fst_zip (by omega)]; exact hs
    exact List.pairwise_map.1 this
  cases b with
  | mk s l =>
    simp only [Bins.sortAsc, sortAsc_of_sorted _ _ hz, Bins.mk.injEq]
    exact ⟨List.map_fst_zip (by simpa using Nat.le_of_eq h), List.map_snd_zip (by simpa using Nat.le_of_eq h.symm)⟩

/-- Stability, form 2 (the general statement): for every value `c`, the bins whose sum is `c` appear in
    the sorted bins-array in exactly the same relative order as before. -/
theorem sortAsc_stable_filter (b : Bins α) (c : Nat) :
    (b.sortAsc.sums.zip b.sortAsc.lists).filter (fun p => p.1 == c)
      = (b.sums.zip b.lists).filter (fun p => p.1 == c) := by
  rw [sortAsc_zip]; exact filter_sortAsc _ c _

/-- Sorting is idempotent. -/
theorem sortAsc_idem (b : Bins α) : b.sortAsc.sortAsc = b.sortAsc :=
  sortAsc_stable _ (by simp [Bins.sortAsc]) (Part.sortAsc_sums_sorted b)

example : (⟨[9, 3, 0, 3], [[4, 5], [3], [], [1, 2]]⟩ : Bins Nat).sortAsc.sums = [0, 3, 3, 9] ∧
    (⟨[9, 3, 0, 3], [[4, 5], [3], [], [1, 2]]⟩ : Bins Nat).sortAsc.lists = [[], [3], [1, 2], [4, 5]] := by
  decide

example := sortAsc_sorted_perm (⟨[9, 3, 0, 3], [[4, 5], [3], [], [1, 2]]⟩ : Bins Nat) rfl

example : (⟨[0, 3, 3], [[], [3], [1, 2]]⟩ : Bins Nat).sortAsc.lists = [[], [3], [1, 2]] :=
  congrArg Bins.lists (sortAsc_stable _ rfl (by decide))

end Sorting

/-! ## 3. The sums-only manager is the `sums` projection: every operation's effect on `sums` depends only
on the sums (and the value of the added item). -/

section Forget
variable (v : α → Nat)

theorem forget_new (k : Nat) : (Bins.new k : Bins α).sums = List.replicate k 0 := rfl

theorem forget_add (b : Bins α) (x : α) (i : Nat) : (b.add v x i).sums = b.sums.modify i (· + v x) := rfl

theorem forget_addLast (b : Bins α) (x : α) :
    (b.addLast v x).sums = b.sums.modify (b.sums.length - 1) (· + v x) := rfl

theorem forget_concat (b1 b2 : Bins α) : (b1.concat b2).sums = b1.sums ++ b2.sums := rfl

theorem forget_addEmpty (b : Bins α) (n : Nat) : (b.addEmpty n).sums = b.sums ++ List.replicate n 0 := rfl

theorem forget_removeLast (b : Bins α) (n : Nat) :
    (b.removeLast n).sums = b.sums.take (b.sums.length - n) := rfl

theorem forget_combine (b1 b2 : Bins α) (i1 i2 : Nat) :
    (b1.combine i1 b2 i2).sums = b1.sums.modify i1 (· + b2.sums.getD i2 0) := rfl

/-- The only non-trivial one: sorting (sum, list) pairs by sum and then forgetting the lists is the same
    as sorting the sums alone (`numpy.ndarray.sort` in `BinnerKeepingSums`).
    Only `sums.length ≤ lists.length` is needed. -/
theorem forget_sortAsc (b : Bins α) (h : b.sums.length ≤ b.lists.length) :
    b.sortAsc.sums = Prtpy.sortAsc id b.sums := by
  have := map_sortAsc (Prod.fst : Nat × List α → Nat) id (b.sums.zip b.lists)
  rw [List.map_fst_zip h] at this
  exact this

theorem forget_numbins (b : Bins α) : b.numbins = b.sums.length := rfl

/-- Without the length hypothesis the statement is false (the zip truncates): -/
example : (⟨[2, 1], [[2]]⟩ : Bins Nat).sortAsc.sums ≠ Prtpy.sortAsc id [2, 1] := by decide

example : (⟨[9, 3, 0], [[4, 5], [3], []]⟩ : Bins Nat).sortAsc.sums = Prtpy.sortAsc id [9, 3, 0] :=
  forget_sortAsc _ (by decide)

end Forget

/-! ## 4. Output types -/

section Outputs
variable (v : α → Nat)

theorem sortedSums_sorted_perm (b : Bins α) :
    (Out.sortedSums b).Pairwise (· ≤ ·) ∧ (Out.sortedSums b).Perm b.sums :=
  ⟨Part.sortAsc_sorted id b.sums, Part.sortAsc_perm id b.sums⟩

theorem largestSum_spec (b : Bins α) (h : b.sums ≠ []) :
    Out.largestSum b ∈ b.sums ∧ ∀ s ∈ b.sums, s ≤ Out.largestSum b :=
  ⟨Part.maxL_mem h, fun _ hs => Part.le_maxL hs⟩

theorem smallestSum_spec (b : Bins α) (h : b.sums ≠ []) :
    Out.smallestSum b ∈ b.sums ∧ ∀ s ∈ b.sums, Out.smallestSum b ≤ s :=
  ⟨Part.minL_mem h, fun _ hs => Part.minL_le hs⟩

theorem extremeSums_eq (b : Bins α) : Out.extremeSums b = (Out.smallestSum b, Out.largestSum b) := rfl

theorem difference_eq (b : Bins α) : Out.difference b = Out.largestSum b - Out.smallestSum b := rfl

theorem binCount_eq (b : Bins α) (h : b.Consistent v) : Out.binCount b = b.lists.length :=
  consistent_length v h

/-- In a sorted list every element is at most the last one. -/
theorem le_getLast_of_sorted (s : List Nat) (hs : s.Pairwise (· ≤ ·)) (hne : s ≠ []) :
    ∀ a ∈ s, a ≤ s.getLast hne := by
  induction s with
  | nil => exact absurd rfl hne
  | cons x xs ih =>
    rw [List.pairwise_cons] at hs
    intro a ha
    by_cases hxs : xs = []
    · subst hxs; simp at ha; subst ha; simp
    · rw [List.getLast_cons hxs]
      rcases List.mem_cons.1 ha with rfl | ha
      · exact hs.1 _ (List.getLast_mem hxs)
      · exact ih hs.2 hxs a ha

/-- The largest sum is the last entry of the sorted sums (also true, `0 = 0`, for no bins). -/
theorem largest_eq_last_sorted (b : Bins α) :
    Out.largestSum b = (Out.sortedSums b).getLast?.getD 0 := by
  by_cases hne : b.sums = []
  · simp [Out.largestSum, Out.sortedSums, hne, maxL, sortAsc]
  · obtain ⟨hs, hp⟩ := sortedSums_sorted_perm b
    have hne' : Out.sortedSums b ≠ [] := by
      intro e; rw [e] at hp; exact hne hp.symm.eq_nil
    rw [List.getLast?_eq_some_getLast hne', Option.getD_some]
    apply Nat.le_antisymm
    · exact le_getLast_of_sorted _ hs hne' _ (hp.mem_iff.2 (Part.maxL_mem hne))
    · exact Part.le_maxL (hp.mem_iff.1 (List.getLast_mem hne'))

/-- The smallest sum is the first entry of the sorted sums. -/
theorem smallest_eq_head_sorted (b : Bins α) :
    Out.smallestSum b = (Out.sortedSums b).head?.getD 0 := by
  by_cases hne : b.sums = []
  · simp [Out.smallestSum, Out.sortedSums, hne, minL, sortAsc]
  · obtain ⟨hs, hp⟩ := sortedSums_sorted_perm b
    cases hss : Out.sortedSums b with
    | nil => rw [hss] at hp; exact absurd hp.symm.eq_nil hne
    | cons x xs =>
      rw [hss] at hs hp
      rw [List.pairwise_cons] at hs
      simp only [List.head?_cons, Option.getD_some]
      apply Nat.le_antisymm
      · exact Part.minL_le (hp.mem_iff.1 (List.mem_cons_self ..))
      · rcases List.mem_cons.1 (hp.mem_iff.2 (Part.minL_mem hne)) with e | hm
        · exact Nat.le_of_eq e.symm
        · exact hs.1 _ hm

/-- C06 headline: for a consistent bins-array the `Sums` output is computed from the `Partition` output
    (and the value function) alone. -/
theorem out_from_partition (b : Bins α) (h : b.Consistent v) :
    Out.sums b = (Out.partition b).map (binSum v) := h

/-- …and every other sums-only output type is, by definition, a function of `Out.sums b`. -/
theorem sortedSums_of_sums (b : Bins α) : Out.sortedSums b = Prtpy.sortAsc id (Out.sums b) := rfl
theorem largestSum_of_sums (b : Bins α) : Out.largestSum b = maxL (Out.sums b) := rfl
theorem smallestSum_of_sums (b : Bins α) : Out.smallestSum b = minL (Out.sums b) := rfl
theorem extremeSums_of_sums (b : Bins α) : Out.extremeSums b = (minL (Out.sums b), maxL (Out.sums b)) := rfl
theorem difference_of_sums (b : Bins α) : Out.difference b = maxL (Out.sums b) - minL (Out.sums b) := rfl
theorem binCount_of_sums (b : Bins α) : Out.binCount b = (Out.sums b).length := rfl

/-- C06 in one statement: all seven sums-only outputs of a consistent bins-array, expressed through the
    partition output `P = Out.partition b` only. -/
theorem outputs_from_partition (b : Bins α) (h : b.Consistent v) :
    let S := (Out.partition b).map (binSum v)
    Out.sums b = S ∧ Out.sortedSums b = Prtpy.sortAsc id S ∧ Out.largestSum b = maxL S ∧
    Out.smallestSum b = minL S ∧ Out.extremeSums b = (minL S, maxL S) ∧
    Out.difference b = maxL S - minL S ∧ Out.binCount b = (Out.partition b).length := by
  have e := out_from_partition v b h
  refine ⟨e, ?_, ?_, ?_, ?_, ?_, binCount_eq v b h⟩
  · rw [sortedSums_of_sums, e]
  · rw [largestSum_of_sums, e]
  · rw [smallestSum_of_sums, e]
  · rw [extremeSums_of_sums, e]
  · rw [difference_of_sums, e]

/-- A sorted bins-array's `Sums` output is the `SortedSums` output of the original. -/
theorem sums_sortAsc (b : Bins α) (h : b.sums.length ≤ b.lists.length) :
    Out.sums b.sortAsc = Out.sortedSums b := forget_sortAsc b h

example : Out.sortedSums (⟨[9, 3, 0], [[4, 5], [3], []]⟩ : Bins Nat) = [0, 3, 9] ∧
    Out.largestSum (⟨[9, 3, 0], [[4, 5], [3], []]⟩ : Bins Nat) = 9 ∧
    Out.smallestSum (⟨[9, 3, 0], [[4, 5], [3], []]⟩ : Bins Nat) = 0 ∧
    Out.difference (⟨[9, 3, 0], [[4, 5], [3], []]⟩ : Bins Nat) = 9 := by decide

example := largestSum_spec (⟨[9, 3, 0], [[4, 5], [3], []]⟩ : Bins Nat) (by decide)
example := smallestSum_spec (⟨[9, 3, 0], [[4, 5], [3], []]⟩ : Bins Nat) (by decide)
example := outputs_from_partition id (⟨[9, 3, 0], [[4, 5], [3], []]⟩ : Bins Nat) (by decide)

/-- Consistency is needed: an inconsistent bins-array has sums that are not those of its partition. -/
example : Out.sums (⟨[1], [[2]]⟩ : Bins Nat) ≠ (Out.partition (⟨[1], [[2]]⟩ : Bins Nat)).map (binSum id) := by
  decide

end Outputs

/-! ## 5. `mapItems` (renaming items) preserves sums and commutes with every operation -/

section MapItems
variable {β : Type} (f : α → β)

theorem mapItems_sums (b : Bins α) : (b.mapItems f).sums = b.sums := rfl

theorem mapItems_lists (b : Bins α) : (b.mapItems f).lists = b.lists.map (·.map f) := rfl

theorem binSum_map (v : α → Nat) (w : β → Nat) (hw : ∀ x, w (f x) = v x) (l : List α) :
    binSum w (l.map f) = binSum v l := by
  simp only [binSum, List.map_map]
  congr 1
  exact List.map_congr_left (fun x _ => hw x)

theorem mapItems_consistent (v : α → Nat) (w : β → Nat) (hw : ∀ x, w (f x) = v x) (b : Bins α)
    (h : b.Consistent v) : (b.mapItems f).Consistent w := by
  unfold Bins.Consistent at *
  simp only [Bins.mapItems, List.map_map, h]
  exact List.map_congr_left (fun l _ => (binSum_map f v w hw l).symm)

theorem mapItems_new (k : Nat) : (Bins.new k : Bins α).mapItems f = Bins.new k := by
  simp [Bins.mapItems, Bins.new]

theorem mapItems_add (v : α → Nat) (w : β → Nat) (b : Bins α) (x : α) (i : Nat) (hw : w (f x) = v x) :
    (b.add v x i).mapItems f = (b.mapItems f).add w (f x) i := by
  simp only [Bins.mapItems, Bins.add, hw, Bins.mk.injEq, true_and]
  exact map_modify_comm _ _ _ (fun a => by simp) _ _

theorem mapItems_addLast (v : α → Nat) (w : β → Nat) (b : Bins α) (x : α) (hw : w (f x) = v x) :
    (b.addLast v x).mapItems f = (b.mapItems f).addLast w (f x) :=
  mapItems_add f v w b x _ hw

theorem mapItems_concat (b1 b2 : Bins α) :
    (b1.concat b2).mapItems f = (b1.mapItems f).concat (b2.mapItems f) := by
  simp [Bins.mapItems, Bins.concat]

theorem mapItems_addEmpty (b : Bins α) (n : Nat) :
    (b.addEmpty n).mapItems f = (b.mapItems f).addEmpty n := by
  simp only [Bins.addEmpty, mapItems_concat, mapItems_new]

theorem mapItems_removeLast (b : Bins α) (n : Nat) :
    (b.removeLast n).mapItems f = (b.mapItems f).removeLast n := by
  simp [Bins.mapItems, Bins.removeLast, List.map_take]

theorem mapItems_combine (b1 b2 : Bins α) (i1 i2 : Nat) :
    (b1.combine i1 b2 i2).mapItems f = (b1.mapItems f).combine i1 (b2.mapItems f) i2 := by
  simp only [Bins.mapItems, Bins.combine, Bins.mk.injEq, true_and]
  have e : (b2.lists.map (·.map f)).getD i2 [] = (b2.lists.getD i2 []).map f := by
    simp only [List.getD_eq_getElem?_getD, List.getElem?_map]
    cases b2.lists[i2]? <;> rfl
  rw [e]
  exact map_modify_comm _ _ _ (fun a => by simp) _ _

theorem mapItems_sortAsc (b : Bins α) : b.sortAsc.mapItems f = (b.mapItems f).sortAsc := by
  have hz : (b.sums.zip (b.lists.map (·.map f)))
      = (b.sums.zip b.lists).map (Prod.map id (·.map f)) := by
    rw [List.zip_map_right]
  have := map_sortAsc (Prod.map id (·.map f) : Nat × List α → Nat × List β) (fun p => p.1)
    (b.sums.zip b.lists)
  simp only [Bins.mapItems, Bins.sortAsc, hz, ← this, List.map_map, Bins.mk.injEq]
  exact ⟨List.map_congr_left (fun _ _ => rfl), List.map_congr_left (fun _ _ => rfl)⟩

theorem mapItems_partition (b : Bins α) : Out.partition (b.mapItems f) = (Out.partition b).map (·.map f) := rfl

example : ((⟨[3, 4], [[3], [4]]⟩ : Bins Nat).mapItems (· + 10)).lists = [[13], [14]] ∧
    ((⟨[3, 4], [[3], [4]]⟩ : Bins Nat).mapItems (· + 10)).sums = [3, 4] := by decide

end MapItems

end Prtpy.BinsOps

/-
`#print axioms` output observed (Lean 4.33.0) for the main theorems:

'Prtpy.BinsOps.op_consistent' depends on axioms: [propext, Quot.sound]
'Prtpy.BinsOps.new_numbins' does not depend on any axioms
'Prtpy.BinsOps.add_effect' depends on axioms: [propext, Classical.choice, Quot.sound]
'Prtpy.BinsOps.add_out_of_range' depends on axioms: [propext, Classical.choice, Quot.sound]
'Prtpy.BinsOps.addLast_effect' depends on axioms: [propext]
'Prtpy.BinsOps.addEmpty_effect' depends on axioms: [propext]
'Prtpy.BinsOps.removeLast_effect' depends on axioms: [propext, Quot.sound]
'Prtpy.BinsOps.removeLast_consistent' depends on axioms: [propext]
'Prtpy.BinsOps.combine_consistent' depends on axioms: [propext, Quot.sound]
'Prtpy.BinsOps.combine_effect' depends on axioms: [propext, Classical.choice, Quot.sound]
'Prtpy.BinsOps.sortAsc_sorted_perm' depends on axioms: [propext, Quot.sound]
'Prtpy.BinsOps.sortAsc_consistent' depends on axioms: [propext, Quot.sound]
'Prtpy.BinsOps.sortAsc_stable' depends on axioms: [propext, Quot.sound]
'Prtpy.BinsOps.sortAsc_stable_filter' depends on axioms: [propext, Classical.choice, Quot.sound]
'Prtpy.BinsOps.forget_sortAsc' depends on axioms: [propext]
'Prtpy.BinsOps.sortedSums_sorted_perm' depends on axioms: [propext, Quot.sound]
'Prtpy.BinsOps.largestSum_spec' depends on axioms: [propext, Quot.sound]
'Prtpy.BinsOps.smallestSum_spec' depends on axioms: [propext, Quot.sound]
'Prtpy.BinsOps.largest_eq_last_sorted' depends on axioms: [propext, Quot.sound]
'Prtpy.BinsOps.smallest_eq_head_sorted' depends on axioms: [propext, Quot.sound]
'Prtpy.BinsOps.out_from_partition' does not depend on any axioms
'Prtpy.BinsOps.outputs_from_partition' depends on axioms: [propext]
'Prtpy.BinsOps.binCount_eq' depends on axioms: [propext]
'Prtpy.BinsOps.mapItems_sortAsc' depends on axioms: [propext, Quot.sound]
'Prtpy.BinsOps.mapItems_combine' depends on axioms: [propext]
'Prtpy.BinsOps.mapItems_consistent' depends on axioms: [propext, Quot.sound]
-/
