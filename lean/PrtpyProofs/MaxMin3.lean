-- NOTE (round 7): the exact ratio (3k-1)/(4k-2) is proved for EVERY k in PrtpyProofs/MaxMin5.lean (`MaxMin5.greedy_maxmin`); what this file calls open is closed there.
/-
  PrtpyProofs.MaxMin3 — property C08, the exact max-min guarantee of LPT (`greedy`):
  "LPT's smallest sum is at least `(3k−1)/(4k−2)` of the optimal smallest sum" (Csirik–Kellerer–Woeginger 1992).
  Continues PrtpyProofs.MaxMin and PrtpyProofs.LPT43 (`run`, `peel_first_pair`, `run_maxmin_cert`, `run_spread`).

  Proved here
  -----------
  * `greedy_maxmin_two`    (`k = 2`):  `5·OPT ≤ 6·L`      — as requested, unconditional.
  * `greedy_maxmin_three`  (`k = 3`):  `8·OPT ≤ 10·L`     — as requested, unconditional.
  * every `k`:
      - `greedy_maxmin_partial_large`: the exact bound when every item exceeds `k·OPT/(4k−2)`;
        more generally `greedy_maxmin_partial_half_plus`: `L ≥ OPT/2 + t` when all items exceed `t ∈ [OPT/4, OPT/2]`;
      - `greedy_maxmin_partial` (`run_maxmin_of_mixed`): the exact bound for all `k ≤ K`, *assuming* one precisely
        described configuration (the "mixed case") is handled for `4 ≤ k ≤ K`;
      - `greedy_maxmin_partial_three_quarters`: the ratio `3/4` for `k ≤ 3`.
    The full `greedy_maxmin` (all `k`) is NOT proved: see the comment at `greedy_maxmin_partial`.

  Structure of the proofs
  -----------------------
  Everything is about `run v k xs`, the LPT loop on an ordered list, and an arbitrary cover `Q` (`k` bins of sum
  `≥ W`); the claim is `3k·W + 2·L ≤ 4k·L + W` (`L` the smallest sum of LPT).
  §1  four invariants of the LPT loop: `PrefInv` (every proper prefix of a bin has sum `≤` the current minimum),
      `TailInv` (items that are not first in their bin are `≤` the `(k+1)`-th value), `SortedInv`, and `A2Inv`
      (the LPT rule seen from the other bins: when the last item `c` of a bin was placed on a load `m`, every
      other bin already held items `≥ c` of total `≥ m`, and has received only items `≤ c` since).
  §2  the counting argument: with the weight `#items + #{items ≥ W/2} + #{items ≥ W}` every bin of sum `≥ W` weighs
      `≥ 3` (`wt_cover`), whereas the LPT bins weigh `≤ 3` and a bin of smallest sum `≤ 2` (`wt_bin`, `count_core`).
  §3  all items large: `run_large` (`2·L ≥ W + 2·t` if all items exceed `t`, `W/4 ≤ t ≤ W/2`), induction over `k`
      with `peel_first_pair`; `run_large_exact` by scaling.
  §4  induction over the prefixes: if the last item lands on the bin of smallest final sum the bound is inherited
      (`run_snoc_onmin`).
  §5  two bins, §7 three bins (`three_mixed`: the total `≥ 3·W` forces that after the last item of the heavy bin only
      one more item arrives), §8 the reduction of the general theorem to the mixed case.
-/
import Mathlib.Tactic.Linarith
import Mathlib.Tactic.Ring
import Prtpy
import PrtpyProofs.Part
import PrtpyProofs.Oracle
import PrtpyProofs.Scale
import PrtpyProofs.LPT43
import PrtpyProofs.MaxMin
open Prtpy

namespace Prtpy.MaxMin3
open Prtpy.LPT43 Prtpy.MaxMin

variable {α : Type}

/-! ## 1. Two invariants of the LPT loop -/

/-- every proper prefix of every bin has a sum `≤` the current smallest sum
    (an item is only ever put on a least loaded bin, and the smallest sum never decreases) -/
def PrefInv (v : α → Nat) (b : Bins α) : Prop :=
  ∀ l ∈ b.lists, ∀ n, n < l.length → binSum v (l.take n) ≤ minL b.sums

theorem prefInv_step {v : α → Nat} {k : Nat} (hk : 0 < k) {b : Bins α} {done : List α}
    (hv : Part.Valid v k b done) (hinv : PrefInv v b) (x : α) : PrefInv v (greedyStep v b x) := by
  obtain ⟨hperm, hlists, hcons⟩ := hv
  have hlen : b.sums.length = k := by rw [Part.consistent_length v hcons, hlists]
  have hne : b.sums ≠ [] := by intro h0; rw [h0] at hlen; simp at hlen; omega
  have hlt := Part.argmin_lt hne
  have hmin : minL b.sums ≤ minL (greedyStep v b x).sums := minL_le_minL_modify_add _ _ _ hne
  intro l' hl' n hn
  rcases Part.mem_modify hl' with h | ⟨hi, rfl⟩
  · exact Nat.le_trans (hinv l' h n hn) hmin
  · have hsum : b.sums[argmin b.sums] = binSum v b.lists[argmin b.sums] := by
      have hc : b.sums = b.lists.map (binSum v) := hcons
      simp [hc]
    rw [Part.getElem_argmin hlt] at hsum
    simp only [List.length_append, List.length_cons, List.length_nil] at hn
    rcases Nat.lt_or_ge n (b.lists[argmin b.sums]).length with hlt' | hge
    · rw [List.take_append_of_le_length (by omega)]
      exact Nat.le_trans (hinv _ (List.getElem_mem hi) n hlt') hmin
    · have hn' : n = (b.lists[argmin b.sums]).length := by omega
      rw [hn', List.take_left']
      · rw [← hsum]; exact hmin
      · rfl

theorem run_prefInv (v : α → Nat) {k : Nat} (hk : 0 < k) (xs : List α) : PrefInv v (run v k xs) := by
  induction xs using Oracle.rev_induction with
  | nil =>
    intro l hl n hn
    simp only [run, List.foldl_nil, Bins.new, List.mem_replicate] at hl
    rw [hl.2] at hn; simp at hn
  | snoc P x ih =>
    rw [run_snoc]
    exact prefInv_step hk (run_valid v hk P) ih x

/-- every item that is not the first one of its bin has a value `≤ y` -/
def TailInv (v : α → Nat) (b : Bins α) (y : Nat) : Prop :=
  ∀ l ∈ b.lists, ∀ c ∈ l.tail, v c ≤ y

theorem tailInv_step {v : α → Nat} {k : Nat} (hk : 0 < k) {b : Bins α} {done : List α} {y : Nat}
    (hv : Part.Valid v k b done) (hinv : TailInv v b y) (x : α)
    (hx : v x ≤ y ∨ (done.length < k ∧ ∀ a ∈ done, v x ≤ v a)) : TailInv v (greedyStep v b x) y := by
  obtain ⟨hperm, hlists, hcons⟩ := hv
  have hlen : b.sums.length = k := by rw [Part.consistent_length v hcons, hlists]
  have hne : b.sums ≠ [] := by intro h0; rw [h0] at hlen; simp at hlen; omega
  have hlt := Part.argmin_lt hne
  intro l' hl' c hc
  rcases Part.mem_modify hl' with h | ⟨hi, rfl⟩
  · exact hinv l' h c hc
  · have hsum : b.sums[argmin b.sums] = binSum v b.lists[argmin b.sums] := by
      have hc : b.sums = b.lists.map (binSum v) := hcons
      simp [hc]
    rw [Part.getElem_argmin hlt] at hsum
    by_cases hxy : v x ≤ y
    · cases hl : b.lists[argmin b.sums] with
      | nil => rw [hl] at hc; simp at hc
      | cons a t =>
        rw [hl] at hc
        simp only [List.cons_append, List.tail_cons, List.mem_append, List.mem_cons, List.not_mem_nil,
          or_false] at hc
        rcases hc with hc | rfl
        · exact hinv _ (List.getElem_mem hi) c (by rw [hl]; simpa using hc)
        · exact hxy
    · obtain ⟨hd, hall⟩ : done.length < k ∧ ∀ a ∈ done, v x ≤ v a := by
        rcases hx with hx | hx
        · exact absurd hx hxy
        · exact hx
      have hnil : ([] : List α) ∈ b.lists :=
        nil_mem_of_flatten_lt b.lists (by rw [hperm.length_eq, hlists]; exact hd)
      have h0 : (0 : Nat) ∈ b.sums := by
        have hc : b.sums = b.lists.map (binSum v) := hcons
        rw [hc]; exact List.mem_map.2 ⟨[], hnil, rfl⟩
      have hm0 : minL b.sums = 0 := by have := Part.minL_le h0; omega
      have hempty : b.lists[argmin b.sums] = [] := by
        cases hl : b.lists[argmin b.sums] with
        | nil => rfl
        | cons a t =>
          exfalso
          have ha : a ∈ b.lists[argmin b.sums] := by rw [hl]; simp
          have h1 := le_binSum_of_mem v ha
          have h2 := hall a (hperm.mem_iff.1 (List.mem_flatten.2 ⟨_, List.getElem_mem hi, ha⟩))
          omega
      rw [hempty] at hc
      simp at hc

theorem run_tailInv {v : α → Nat} {k : Nat} (hk : 0 < k) {S : List α}
    (hS : S.Pairwise (fun a c => v c ≤ v a)) {y : Nat}
    (hy : ∀ j (h : j < S.length), k ≤ j → v S[j] ≤ y) :
    ∀ P rest, S = P ++ rest → TailInv v (run v k P) y := by
  intro P
  induction P using Oracle.rev_induction with
  | nil =>
    intro rest _ l hl
    simp only [run, List.foldl_nil, Bins.new, List.mem_replicate] at hl
    rw [hl.2]; simp
  | snoc P x ih =>
    intro rest hrest
    have hrest' : S = P ++ (x :: rest) := by rw [hrest]; simp
    rw [run_snoc]
    apply tailInv_step hk (run_valid v hk P) (ih _ hrest')
    by_cases hj : k ≤ P.length
    · left
      have := hy P.length (by rw [hrest']; simp) hj
      simpa [hrest'] using this
    · right
      refine ⟨by omega, ?_⟩
      rw [hrest'] at hS
      intro a ha
      exact (List.pairwise_append.1 hS).2.2 a ha x (by simp)

/-- the items of every bin are in non-increasing order -/
def SortedInv (v : α → Nat) (b : Bins α) : Prop := ∀ l ∈ b.lists, l.Pairwise (fun a c => v c ≤ v a)

theorem sortedInv_step {v : α → Nat} {k : Nat} {b : Bins α} {done : List α}
    (hv : Part.Valid v k b done) (hinv : SortedInv v b) (x : α) (hx : ∀ a ∈ done, v x ≤ v a) :
    SortedInv v (greedyStep v b x) := by
  obtain ⟨hperm, _, _⟩ := hv
  intro l' hl'
  rcases Part.mem_modify hl' with h | ⟨hi, rfl⟩
  · exact hinv l' h
  · rw [List.pairwise_append]
    refine ⟨hinv _ (List.getElem_mem hi), by simp, ?_⟩
    intro a ha c hc
    simp only [List.mem_cons, List.not_mem_nil, or_false] at hc
    rw [hc]
    exact hx a (hperm.mem_iff.1 (List.mem_flatten.2 ⟨_, List.getElem_mem hi, ha⟩))

theorem run_sortedInv {v : α → Nat} {k : Nat} (hk : 0 < k) :
    ∀ xs : List α, xs.Pairwise (fun a c => v c ≤ v a) → SortedInv v (run v k xs) := by
  intro xs
  induction xs using Oracle.rev_induction with
  | nil =>
    intro _ l hl
    simp only [run, List.foldl_nil, Bins.new, List.mem_replicate] at hl
    rw [hl.2]; simp
  | snoc P x ih =>
    intro hS
    obtain ⟨hSP, _, hPx⟩ := List.pairwise_append.1 hS
    rw [run_snoc]
    exact sortedInv_step (run_valid v hk P) (ih hSP) x (fun a ha => hPx a ha x (by simp))

/-- **The LPT rule, seen from the other bins.**  When the last item `c` of bin `i` was put there (on the items
    `pre`), every other bin `j` held a prefix of its present content, of sum at least the sum of `pre`, made of
    items `≥ c`; everything that bin `j` received since is `≤ c`. -/
def A2Inv (v : α → Nat) (b : Bins α) : Prop :=
  ∀ (i j : Nat) (pre : List α) (c : α) (lj : List α), i ≠ j → b.lists[i]? = some (pre ++ [c]) →
    b.lists[j]? = some lj →
    ∃ m, m ≤ lj.length ∧ binSum v pre ≤ binSum v (lj.take m) ∧ (∀ u ∈ lj.drop m, v u ≤ v c) ∧
      (∀ u ∈ lj.take m, v c ≤ v u)

theorem a2Inv_step {v : α → Nat} {k : Nat} (hk : 0 < k) {b : Bins α} {done : List α}
    (hv : Part.Valid v k b done) (hinv : A2Inv v b) (x : α) (hx : ∀ a ∈ done, v x ≤ v a) :
    A2Inv v (greedyStep v b x) := by
  obtain ⟨hperm, hlists, hcons⟩ := hv
  have hc : b.sums = b.lists.map (binSum v) := hcons
  have hlen : b.sums.length = k := by rw [Part.consistent_length v hcons, hlists]
  have hne : b.sums ≠ [] := by intro h0; rw [h0] at hlen; simp at hlen; omega
  have hlt := Part.argmin_lt hne
  have hJ : argmin b.sums < b.lists.length := by omega
  have hmemdone : ∀ (n : Nat) (l : List α), b.lists[n]? = some l → ∀ a ∈ l, a ∈ done := by
    intro n l hl a ha
    exact hperm.mem_iff.1 (List.mem_flatten.2 ⟨l, List.mem_of_getElem? hl, ha⟩)
  intro i j pre c lj hij hi hj
  simp only [greedyStep, Part.add_lists] at hi hj
  by_cases hiJ : i = argmin b.sums
  · -- bin `i` has just received `x`
    subst hiJ
    rw [List.getElem?_modify_eq, List.getElem?_eq_getElem hJ] at hi
    simp only [Option.map_eq_map, Option.map_some, Option.some.injEq] at hi
    obtain ⟨hpre, hcx⟩ := List.append_inj' hi rfl
    have hcx' : c = x := by simpa using hcx.symm
    subst hcx'
    rw [List.getElem?_modify_ne _ _ hij] at hj
    have hjlt : j < b.lists.length := by
      rcases Nat.lt_or_ge j b.lists.length with h | h
      · exact h
      · rw [List.getElem?_eq_none h] at hj; cases hj
    have hjl : b.lists[j] = lj := by
      rw [List.getElem?_eq_getElem hjlt] at hj; simpa using hj
    refine ⟨lj.length, Nat.le_refl _, ?_, by simp, ?_⟩
    · rw [List.take_length, ← hpre]
      have h1 : b.sums[argmin b.sums] = binSum v b.lists[argmin b.sums] := by simp [hc]
      have h2 : b.sums[j]'(by omega) = binSum v b.lists[j] := by simp [hc]
      rw [← h1, ← hjl, ← h2, Part.getElem_argmin hlt]
      exact Part.minL_le (List.getElem_mem _)
    · rw [List.take_length]
      intro u hu
      exact hx u (hmemdone j lj hj u hu)
  · rw [List.getElem?_modify_ne _ _ (Ne.symm hiJ)] at hi
    have hcdone : c ∈ done := hmemdone i _ hi c (by simp)
    by_cases hjJ : j = argmin b.sums
    · subst hjJ
      rw [List.getElem?_modify_eq, List.getElem?_eq_getElem hJ] at hj
      simp only [Option.map_eq_map, Option.map_some, Option.some.injEq] at hj
      obtain ⟨m, hm, h1, h2, h3⟩ := hinv i (argmin b.sums) pre c _ hij hi (List.getElem?_eq_getElem hJ)
      subst hj
      refine ⟨m, by simp only [List.length_append]; omega, ?_, ?_, ?_⟩
      · rw [List.take_append_of_le_length hm]; exact h1
      · intro u hu
        rw [List.drop_append_of_le_length hm] at hu
        rcases List.mem_append.1 hu with hu | hu
        · exact h2 u hu
        · simp only [List.mem_cons, List.not_mem_nil, or_false] at hu
          rw [hu]; exact hx c hcdone
      · rw [List.take_append_of_le_length hm]; exact h3
    · rw [List.getElem?_modify_ne _ _ (Ne.symm hjJ)] at hj
      exact hinv i j pre c lj hij hi hj

theorem run_a2Inv {v : α → Nat} {k : Nat} (hk : 0 < k) :
    ∀ xs : List α, xs.Pairwise (fun a c => v c ≤ v a) → A2Inv v (run v k xs) := by
  intro xs
  induction xs using Oracle.rev_induction with
  | nil =>
    intro _ i j pre c lj _ hi _
    simp only [run, List.foldl_nil, Bins.new] at hi
    have := List.mem_of_getElem? hi
    simp only [List.mem_replicate] at this
    have h2 := congrArg List.length this.2
    simp at h2
  | snoc P x ih =>
    intro hS
    obtain ⟨hSP, _, hPx⟩ := List.pairwise_append.1 hS
    rw [run_snoc]
    exact a2Inv_step hk (run_valid v hk P) (ih hSP) x (fun a ha => hPx a ha x (by simp))

/-! ## 2. The counting argument -/

/-- weight of a bin (a list of values) in the counting argument: its cardinality, plus one for every member
    `≥ W/2`, plus one for every member `≥ W` -/
def wt (W : Nat) (g : List Nat) : Nat :=
  g.length + g.countP (fun u => decide (W ≤ 2 * u)) + g.countP (fun u => decide (W ≤ u))

theorem wt_append (W : Nat) (g₁ g₂ : List Nat) : wt W (g₁ ++ g₂) = wt W g₁ + wt W g₂ := by
  simp only [wt, List.length_append, List.countP_append]; omega

theorem wt_perm (W : Nat) {g₁ g₂ : List Nat} (h : g₁.Perm g₂) : wt W g₁ = wt W g₂ := by
  simp only [wt, h.length_eq, h.countP_eq]

theorem wt_flatten (W : Nat) (Ls : List (List Nat)) : wt W Ls.flatten = sumL (Ls.map (wt W)) := by
  induction Ls with
  | nil => simp [wt, sumL]
  | cons l Ls ih => simp only [List.flatten_cons, wt_append, List.map_cons, sumL, ih]

/-- a covered bin weighs at least three: it holds a member `≥ W`, or two members one of which is `≥ W/2`,
    or three members -/
theorem wt_cover {W : Nat} (hW : 0 < W) : ∀ g : List Nat, W ≤ sumL g → 3 ≤ wt W g
  | [], h => by simp [sumL] at h; omega
  | [u], h => by
    simp only [sumL] at h
    have e1 : decide (W ≤ 2 * u) = true := by simp; omega
    have e2 : decide (W ≤ u) = true := by simp; omega
    simp [wt, e1, e2]
  | [u, u'], h => by
    simp only [sumL] at h
    by_cases hu : W ≤ 2 * u
    · have e1 : decide (W ≤ 2 * u) = true := by simpa using hu
      simp only [wt, List.length_cons, List.length_nil, List.countP_cons, e1, if_true]
      omega
    · have e1 : decide (W ≤ 2 * u') = true := by simp; omega
      simp only [wt, List.length_cons, List.length_nil, List.countP_cons, e1, if_true]
      omega
  | _ :: _ :: _ :: _, _ => by simp only [wt, List.length_cons]; omega

theorem sumL_add_one_le_three : ∀ (l : List Nat), (∀ a ∈ l, a ≤ 3) → (∃ m ∈ l, m ≤ 2) →
    sumL l + 1 ≤ 3 * l.length
  | [], _, h => by obtain ⟨m, hm, _⟩ := h; cases hm
  | a :: l, h, hm => by
    have h1 := h a List.mem_cons_self
    have h2 : sumL l ≤ 3 * l.length := by
      have := sumL_le_length_mul (B := 3) l (fun s hs => h s (List.mem_cons_of_mem _ hs))
      omega
    obtain ⟨m, hm, hm2⟩ := hm
    simp only [sumL, List.length_cons]
    rcases List.mem_cons.1 hm with rfl | hm
    · omega
    · have := sumL_add_one_le_three l (fun s hs => h s (List.mem_cons_of_mem _ hs)) ⟨m, hm, hm2⟩
      omega

/-- **Counting core.**  `k ≥ 1` bins `LL` of weight `≤ 3` each, one of them of weight `≤ 2`, cannot hold the same
    values as `k` bins of weight `≥ 3` each. -/
theorem count_core {W k : Nat} {vals : List Nat} (LL Q : List (List Nat)) (hk : LL.length = k)
    (hp : LL.flatten.Perm vals) (hQk : Q.length = k) (hQp : Q.flatten.Perm vals)
    (hQ : ∀ g ∈ Q, 3 ≤ wt W g) (hLL : ∀ l ∈ LL, wt W l ≤ 3) (hmin : ∃ l ∈ LL, wt W l ≤ 2) : False := by
  have h1 : 3 * Q.length ≤ sumL (Q.map (wt W)) := by
    have := Part.length_mul_le_sumL (Q.map (wt W)) 3 0 (fun a ha => by
      obtain ⟨g, hg, rfl⟩ := List.mem_map.1 ha
      have := hQ g hg; omega)
    simp only [List.length_map] at this
    omega
  have h2 : sumL (LL.map (wt W)) + 1 ≤ 3 * (LL.map (wt W)).length :=
    sumL_add_one_le_three _ (fun a ha => by
      obtain ⟨l, hl, rfl⟩ := List.mem_map.1 ha
      exact hLL l hl) (by
      obtain ⟨l, hl, h⟩ := hmin
      exact ⟨wt W l, List.mem_map_of_mem hl, h⟩)
  rw [← wt_flatten, wt_perm W hQp] at h1
  rw [← wt_flatten, wt_perm W hp, List.length_map] at h2
  omega

/-- the weight of a bin of the LPT loop: at most three, and at most two for a bin of smallest sum.
    `L` is the smallest sum (`hpre` is `PrefInv`), the items after the first one are `< W/2` (`htail`), all items
    exceed `t`, and `2·L < W + 2·t ≤ 6·t`. -/
theorem wt_bin {v : α → Nat} {W t L : Nat} (h2L : 2 * L < W + 2 * t) (hWt : W ≤ 4 * t) (htW : 2 * t ≤ W) :
    ∀ l : List α, (∀ n, n < l.length → binSum v (l.take n) ≤ L) → (∀ c ∈ l.tail, 2 * v c < W) →
      (∀ c ∈ l, t < v c) → wt W (l.map v) ≤ 3 ∧ (binSum v l ≤ L → wt W (l.map v) ≤ 2)
  | [], _, _, _ => by simp [wt]
  | [a], _, _, _ => by
    have c1 := List.countP_le_length (p := fun u => decide (W ≤ 2 * u)) (l := [v a])
    have c2 := List.countP_le_length (p := fun u => decide (W ≤ u)) (l := [v a])
    simp only [List.length_cons, List.length_nil] at c1 c2
    refine ⟨by simp only [wt, List.map_cons, List.map_nil, List.length_cons, List.length_nil]; omega, ?_⟩
    intro hle
    simp only [binSum, List.map_cons, List.map_nil, sumL] at hle
    have e2 : decide (W ≤ v a) = false := by simp; omega
    by_cases h4 : W ≤ 2 * v a
    · have e4 : decide (W ≤ 2 * v a) = true := by simpa using h4
      simp [wt, e2, e4]
    · have e4 : decide (W ≤ 2 * v a) = false := by simpa using h4
      simp [wt, e2, e4]
  | [a, c], hpre, htail, hbig => by
    have h1 := hpre 1 (by simp)
    simp only [List.take_succ_cons, List.take_zero, binSum, List.map_cons, List.map_nil, sumL] at h1
    have h2 := htail c (by simp)
    have h3 := hbig c (by simp)
    have e1 : decide (W ≤ v a) = false := by simp; omega
    have e2 : decide (W ≤ 2 * v c) = false := by simp; omega
    have e3 : decide (W ≤ v c) = false := by simp; omega
    constructor
    · by_cases h4 : W ≤ 2 * v a
      · have e4 : decide (W ≤ 2 * v a) = true := by simpa using h4
        simp [wt, e1, e2, e3, e4]
      · have e4 : decide (W ≤ 2 * v a) = false := by simpa using h4
        simp [wt, e1, e2, e3, e4]
    · intro hle
      simp only [binSum, List.map_cons, List.map_nil, sumL] at hle
      have e4 : decide (W ≤ 2 * v a) = false := by simp; omega
      simp [wt, e1, e2, e3, e4]
  | [a, b, c], hpre, htail, hbig => by
    have h1 := hpre 2 (by simp)
    simp only [List.take_succ_cons, List.take_zero, binSum, List.map_cons, List.map_nil, sumL] at h1
    have h2 := htail c (by simp)
    have h2' := htail b (by simp)
    have h3 := hbig c (by simp)
    have h3' := hbig b (by simp)
    have e1 : decide (W ≤ v a) = false := by simp; omega
    have e2 : decide (W ≤ 2 * v c) = false := by simp; omega
    have e3 : decide (W ≤ v c) = false := by simp; omega
    have e4 : decide (W ≤ 2 * v a) = false := by simp; omega
    have e5 : decide (W ≤ 2 * v b) = false := by simp; omega
    have e6 : decide (W ≤ v b) = false := by simp; omega
    constructor
    · simp [wt, e1, e2, e3, e4, e5, e6]
    · intro hle
      simp only [binSum, List.map_cons, List.map_nil, sumL] at hle
      have h3'' := hbig a (by simp)
      omega
  | a :: b :: c :: d :: r, hpre, _, hbig => by
    exfalso
    have h1 := hpre 3 (by simp)
    simp only [List.take_succ_cons, List.take_zero, binSum, List.map_cons, List.map_nil, sumL] at h1
    have h3 := hbig a (by simp)
    have h4 := hbig b (by simp)
    have h5 := hbig c (by simp)
    omega

/-! ## 3. All items large: `2·L ≥ W + 2·t` -/

/-- the case without peeling: the `(k+1)`-th value is below `W/2` -/
theorem run_large_core {v : α → Nat} {k : Nat} (hk : 0 < k) {xs : List α}
    (hS : xs.Pairwise (fun a c => v c ≤ v a)) {W t : Nat} (Q : List (List Nat)) (hQk : Q.length = k)
    (hQp : Q.flatten.Perm (xs.map v)) (hQ : ∀ l ∈ Q, W ≤ sumL l) (hbig : ∀ x ∈ xs, t < v x)
    (hWt : W ≤ 4 * t) (htW : 2 * t ≤ W) (hy : 2 * (xs.map v).getD k 0 < W) :
    W + 2 * t ≤ 2 * minL (run v k xs).sums := by
  apply Classical.byContradiction
  intro hcon
  have h2L : 2 * minL (run v k xs).sums < W + 2 * t := by omega
  have hW : 0 < W := by omega
  obtain ⟨h1, h2, h3⟩ := run_valid v hk xs
  have hc : (run v k xs).sums = (run v k xs).lists.map (binSum v) := h3
  have hpref := run_prefInv v hk xs
  have htail := run_tailInv hk hS (getD_spec v k hS) xs [] (by simp)
  have hne := run_sums_ne_nil v hk xs
  have hmem := Part.minL_mem hne
  rw [hc] at hmem
  obtain ⟨l₀, hl₀, e₀⟩ := List.mem_map.1 hmem
  rw [← hc] at e₀
  have hbin : ∀ l ∈ (run v k xs).lists, wt W (l.map v) ≤ 3 ∧
      (binSum v l ≤ minL (run v k xs).sums → wt W (l.map v) ≤ 2) := fun l hl =>
    wt_bin h2L hWt htW l (hpref l hl) (fun c hc' => by have := htail l hl c hc'; omega)
      (fun c hc' => hbig c (h1.mem_iff.1 (List.mem_flatten.2 ⟨l, hl, hc'⟩)))
  exact count_core (W := W) (k := k) (vals := xs.map v) ((run v k xs).lists.map (List.map v)) Q
    (by simpa using h2) (by rw [← List.map_flatten]; exact h1.map v) hQk hQp
    (fun g hg => wt_cover hW g (hQ g hg))
    (fun l' hl' => by
      obtain ⟨l, hl, rfl⟩ := List.mem_map.1 hl'
      exact (hbin l hl).1)
    ⟨l₀.map v, List.mem_map_of_mem hl₀, (hbin l₀ hl₀).2 (by omega)⟩

/-- **All items large.**  For the LPT loop on an ordered list all of whose values exceed `t`, where
    `W/4 ≤ t ≤ W/2` and the values can be split into `k` bins of sum `≥ W`:  `L ≥ W/2 + t`
    (`L` the smallest sum of LPT).

    Induction on `k`.  If the `(k+1)`-th value is `≥ W/2 > L/2` the first pair is peeled (`peel_first_pair`).
    Otherwise count: with `L < W/2 + t ≤ 3t` every LPT bin holds at most three items; a bin of three items holds
    no item `≥ W/2`, a bin of two items at most one, a bin of smallest sum none.  So the weight
    `#items + #{items ≥ W/2} + #{items ≥ W}` of an LPT bin is `≤ 3`, and `≤ 2` for a bin of smallest sum, whereas
    every bin of sum `≥ W` has weight `≥ 3`. -/
theorem run_large {v : α → Nat} : ∀ (k : Nat), 0 < k → ∀ (xs : List α),
    xs.Pairwise (fun a c => v c ≤ v a) → ∀ (W t : Nat) (Q : List (List Nat)), Q.length = k →
    Q.flatten.Perm (xs.map v) → (∀ l ∈ Q, W ≤ sumL l) → (∀ x ∈ xs, t < v x) → W ≤ 4 * t → 2 * t ≤ W →
    W + 2 * t ≤ 2 * minL (run v k xs).sums := by
  intro k
  induction k with
  | zero => intro h; omega
  | succ k' ih =>
    intro hk xs hS W t Q hQk hQp hQ hbig hWt htW
    by_cases hy : 2 * (xs.map v).getD (k' + 1) 0 < W
    · exact run_large_core hk hS Q hQk hQp hQ hbig hWt htW hy
    · have hsp := run_spread hk hS Q hQk hQp hQ
      by_cases hk' : k' = 0
      · subst hk'
        simp only [Nat.zero_add, Nat.one_mul] at hsp ⊢
        omega
      · apply Classical.byContradiction
        intro hcon
        have hklt : k' + 1 < xs.length := by
          apply Nat.lt_of_not_le
          intro hle
          have : (xs.map v)[k' + 1]? = none := List.getElem?_eq_none (by simpa using hle)
          simp [List.getD_eq_getElem?_getD, this] at hy
          omega
        have ey : (xs.map v).getD (k' + 1) 0 = v xs[k' + 1] := by
          simp [List.getD_eq_getElem?_getD, hklt]
        rw [ey] at hy
        have hk'pos : 0 < k' := Nat.pos_of_ne_zero hk'
        obtain ⟨ys, hsub, hL', _, Q', hQ'k, hQ'p, hQ'⟩ :=
          peel_first_pair hk'pos hS hklt (by omega) Q hQk hQp hQ
        have key := ih hk'pos ys (hS.sublist hsub) W t Q' hQ'k hQ'p hQ'
          (fun x hx => hbig x (hsub.subset hx)) hWt htW
        rw [hL'] at key
        exact hcon key

/-- the exact constant when every value exceeds `k·W/(4k−2)` (`run_large` for the values multiplied by `4k−2`,
    with `t = k·W`) -/
theorem run_large_exact {v : α → Nat} {k : Nat} (hk : 0 < k) {xs : List α}
    (hS : xs.Pairwise (fun a c => v c ≤ v a)) {W : Nat} (Q : List (List Nat)) (hQk : Q.length = k)
    (hQp : Q.flatten.Perm (xs.map v)) (hQ : ∀ l ∈ Q, W ≤ sumL l)
    (hbig : ∀ x ∈ xs, k * W < (4 * k - 2) * v x) :
    3 * k * W + 2 * minL (run v k xs).sums ≤ 4 * k * minL (run v k xs).sums + W := by
  obtain ⟨k', rfl⟩ : ∃ k', k = k' + 1 := ⟨k - 1, by omega⟩
  have hc : 0 < 4 * (k' + 1) - 2 := by omega
  have hrun : run (fun a => (4 * (k' + 1) - 2) * v a) (k' + 1) xs =
      Scale.scaleBins (4 * (k' + 1) - 2) (run v (k' + 1) xs) := by
    unfold run
    rw [← Scale.foldl_greedyStep_scale v hc, Scale.new_scale]
  have key := run_large (v := fun a => (4 * (k' + 1) - 2) * v a) (k' + 1) hk xs
    (hS.imp (fun h => Nat.mul_le_mul_left _ h)) ((4 * (k' + 1) - 2) * W) ((k' + 1) * W)
    (Q.map (List.map ((4 * (k' + 1) - 2) * ·))) (by simpa using hQk)
    (by
      rw [← List.map_flatten]
      have := hQp.map ((4 * (k' + 1) - 2) * ·)
      rw [List.map_map] at this
      exact this)
    (by
      intro l' hl'
      obtain ⟨l, hl, rfl⟩ := List.mem_map.1 hl'
      rw [Scale.sumL_map_mul]
      exact Nat.mul_le_mul_left _ (hQ l hl))
    hbig
    (by
      have e : 4 * (k' + 1) - 2 = 4 * k' + 2 := by omega
      rw [e]; nlinarith)
    (by
      have e : 4 * (k' + 1) - 2 = 4 * k' + 2 := by omega
      rw [e]; nlinarith)
  rw [hrun, Scale.scaleBins_sums, Scale.minL_map_mul] at key
  have e : 4 * (k' + 1) - 2 = 4 * k' + 2 := by omega
  rw [e] at key
  nlinarith

/-! ## 4. Induction over the prefixes: the last item lands on the bin of smallest final sum -/

/-- remove a value from a cover: the level drops by at most that value -/
theorem cover_remove {W z k : Nat} {vals : List Nat} (Q : List (List Nat)) (hQk : Q.length = k)
    (hQp : Q.flatten.Perm (vals ++ [z])) (hQ : ∀ l ∈ Q, W ≤ sumL l) :
    ∃ Q' : List (List Nat), Q'.length = k ∧ Q'.flatten.Perm vals ∧ ∀ l ∈ Q', W - z ≤ sumL l := by
  obtain ⟨l, hl, hzl⟩ := List.mem_flatten.1 ((hQp.mem_iff (a := z)).2 (by simp))
  have pQ := List.perm_cons_erase hl
  have pz := List.perm_cons_erase hzl
  refine ⟨l.erase z :: Q.erase l, ?_, ?_, ?_⟩
  · have := pQ.length_eq; simp only [List.length_cons] at this ⊢; omega
  · have h1 : Q.flatten.Perm (z :: (l.erase z ++ (Q.erase l).flatten)) := by
      refine pQ.flatten.trans ?_
      simp only [List.flatten_cons]
      exact pz.append_right _
    have h2 : (vals ++ [z]).Perm (z :: vals) := by simp
    simpa using (h1.symm.trans (hQp.trans h2)).cons_inv
  · intro l' hl'
    rcases List.mem_cons.1 hl' with rfl | hl'
    · have := hQ l hl
      rw [Part.sumL_perm pz, sumL_cons] at this
      omega
    · have := hQ l' (List.mem_of_mem_erase hl'); omega

/-- **The last item lands on the bin of smallest final sum.**  If the bound holds for `P` (against every cover)
    and the smallest sum after the next item `x` is the old smallest sum plus `x`, the bound holds for
    `P ++ [x]`: the cover loses at most `x`, LPT's smallest sum gains exactly `x`. -/
theorem run_snoc_onmin {v : α → Nat} {k : Nat} (hk : 0 < k) (P : List α) (x : α) {W : Nat}
    (Q : List (List Nat)) (hQk : Q.length = k) (hQp : Q.flatten.Perm ((P ++ [x]).map v))
    (hQ : ∀ l ∈ Q, W ≤ sumL l)
    (ih : ∀ (W' : Nat) (Q' : List (List Nat)), Q'.length = k → Q'.flatten.Perm (P.map v) →
      (∀ l ∈ Q', W' ≤ sumL l) →
      3 * k * W' + 2 * minL (run v k P).sums ≤ 4 * k * minL (run v k P).sums + W')
    (hT : minL (run v k (P ++ [x])).sums = minL (run v k P).sums + v x) :
    3 * k * W + 2 * minL (run v k (P ++ [x])).sums ≤ 4 * k * minL (run v k (P ++ [x])).sums + W := by
  obtain ⟨Q', hQ'k, hQ'p, hQ'⟩ := cover_remove (z := v x) (vals := P.map v) Q hQk (by simpa using hQp) hQ
  have key := ih (W - v x) Q' hQ'k hQ'p hQ'
  rw [hT]
  obtain ⟨k', rfl⟩ : ∃ k', k = k' + 1 := ⟨k - 1, by omega⟩
  rcases Nat.lt_or_ge (v x) W with hlt | hge
  · obtain ⟨W', rfl⟩ : ∃ W', W = W' + v x := ⟨W - v x, by omega⟩
    rw [Nat.add_sub_cancel] at key
    nlinarith
  · nlinarith

/-! ## 5. Two bins -/

theorem cover_nil_level {W k : Nat} (hk : 0 < k) (Q : List (List Nat)) (hQk : Q.length = k)
    (hQp : Q.flatten.Perm []) (hQ : ∀ l ∈ Q, W ≤ sumL l) : W = 0 := by
  match Q, hQk with
  | [], h => simp at h; omega
  | l :: Q', _ =>
    have hl : l = [] := by
      cases l with
      | nil => rfl
      | cons a t =>
        have : a ∈ (([] : List Nat)) := hQp.mem_iff.1 (by simp)
        cases this
    have := hQ l (by simp)
    rw [hl] at this
    simpa [sumL] using this

/-- the new smallest sum after one step on two bins -/
theorem two_bins_step {s : List Nat} (hs : s.length = 2) (j a m : Nat) (hj : j < 2)
    (hm : s[j]'(by omega) = m) (hle : ∀ u ∈ s, m ≤ u)
    (hne : minL (s.modify j (· + a)) ≠ m + a) :
    ∀ u ∈ s.modify j (· + a), u ≤ minL (s.modify j (· + a)) + a := by
  match s, hs with
  | [s0, s1], _ =>
    have h0 := hle s0 (by simp)
    have h1 := hle s1 (by simp)
    match j, hj with
    | 0, _ =>
      simp only [List.getElem_cons_zero] at hm
      subst hm
      simp only [List.modify_zero_cons, minL] at hne ⊢
      intro u hu
      simp only [List.mem_cons, List.not_mem_nil, or_false] at hu
      rcases hu with rfl | rfl <;> omega
    | 1, _ =>
      simp only [List.getElem_cons_succ, List.getElem_cons_zero] at hm
      subst hm
      simp only [List.modify_succ_cons, List.modify_zero_cons, minL] at hne ⊢
      intro u hu
      simp only [List.mem_cons, List.not_mem_nil, or_false] at hu
      rcases hu with rfl | rfl <;> omega

/-- **Two bins, exact constant `5/6`** for the LPT loop on an ordered list, against an arbitrary cover.

    Induction over the prefixes.  Let `x` be the last (smallest) item.
    * the smallest sum grows by `x`: `run_snoc_onmin`;
    * otherwise the bin that received `x` exceeds the other one (which has the smallest sum `L`) by at most `x`:
      if `6·x ≤ 2·W` this is the certificate `run_maxmin_cert`; if `6·x > 2·W` all items are large: `run_large_exact`. -/
theorem run_maxmin_two {v : α → Nat} : ∀ (xs : List α), xs.Pairwise (fun a c => v c ≤ v a) →
    ∀ (W : Nat) (Q : List (List Nat)), Q.length = 2 → Q.flatten.Perm (xs.map v) → (∀ l ∈ Q, W ≤ sumL l) →
    3 * 2 * W + 2 * minL (run v 2 xs).sums ≤ 4 * 2 * minL (run v 2 xs).sums + W := by
  intro xs
  induction xs using Oracle.rev_induction with
  | nil =>
    intro _ W Q hQk hQp hQ
    have := cover_nil_level (by decide) Q hQk (by simpa using hQp) hQ
    omega
  | snoc P x ih =>
    intro hS W Q hQk hQp hQ
    have hk : 0 < 2 := by decide
    obtain ⟨hSP, _, hPx⟩ := List.pairwise_append.1 hS
    by_cases hT : minL (run v 2 (P ++ [x])).sums = minL (run v 2 P).sums + v x
    · exact run_snoc_onmin hk P x Q hQk hQp hQ (fun W' Q' h1 h2 h3 => ih hSP W' Q' h1 h2 h3) hT
    · by_cases hx : (4 * 2 - 2) * v x ≤ 2 * W
      · -- certificate
        refine run_maxmin_cert hk Q hQk hQp hQ (v x) ?_ hx
        intro l hl
        right
        obtain ⟨_, _, hcons⟩ := run_valid v hk (P ++ [x])
        have hc : (run v 2 (P ++ [x])).sums = (run v 2 (P ++ [x])).lists.map (binSum v) := hcons
        have hmem : binSum v l ∈ (run v 2 (P ++ [x])).sums := by rw [hc]; exact List.mem_map_of_mem hl
        have hne := run_sums_ne_nil v hk P
        have hlt := Part.argmin_lt hne
        have hlen := run_sums_length v hk P
        rw [run_snoc] at hmem hT ⊢
        simp only [greedyStep, Part.add_sums] at hmem hT ⊢
        exact two_bins_step hlen _ _ _ (by omega) (Part.getElem_argmin hlt)
          (fun u hu => Part.minL_le hu) hT _ hmem
      · -- all items are large
        refine run_large_exact hk hS Q hQk hQp hQ ?_
        intro a ha
        have hax : v x ≤ v a := by
          rcases List.mem_append.1 ha with ha | ha
          · exact hPx a ha x (by simp)
          · simp at ha; rw [ha]
        have := Nat.mul_le_mul_left (4 * 2 - 2) hax
        omega

/-! ## 6. Statements about `greedy` -/

/-- **C08 for two bins (Csirik–Kellerer–Woeginger, `k = 2`)**: LPT's smallest sum is at least `5/6` of the optimal
    smallest sum. -/
theorem greedy_maxmin_two {v : α → Nat} {items : List α} {opt : Nat}
    (hopt : IsOptimalValue .maxSmallest 2 (items.map v) (-(opt : Int))) :
    5 * opt ≤ 6 * minL (greedy v 2 items).sums := by
  obtain ⟨W, hW, Q, hQk, hQp, hQ⟩ := cover_of_opt (by decide) hopt
  have hW' : W = opt := by exact_mod_cast hW
  subst hW'
  have key := run_maxmin_two (v := v) (sortDesc v items) (Part.sortDesc_sorted v items) W Q hQk
    (hQp.trans ((Part.sortDesc_perm v items).map v).symm) hQ
  rw [greedy_eq_run]
  omega

/-- non-vacuity and tightness: `[3, 3, 2, 2, 2]`, optimal smallest sum `6`, LPT's smallest sum `5`: `5·6 = 6·5` -/
example : 5 * 6 ≤ 6 * minL (greedy id 2 [3, 3, 2, 2, 2]).sums :=
  greedy_maxmin_two (v := id) optmin_33222
example : 5 * 6 = 6 * minL (greedy id 2 [3, 3, 2, 2, 2]).sums := by decide

/-- **All items large: the exact constant for every number of bins.**  If every item exceeds
    `k·OPT/(4k−2)`, then `(3k−1)·OPT ≤ (4k−2)·(smallest sum of LPT)`.  (Together with
    `MaxMin.greedy_maxmin_partial_cert` — all *last* items of the bins with at least two items small — this leaves
    open only the mixed case.) -/
theorem greedy_maxmin_partial_large {v : α → Nat} {k : Nat} {items : List α} (hk : 0 < k) {opt : Nat}
    (hopt : IsOptimalValue .maxSmallest k (items.map v) (-(opt : Int)))
    (hbig : ∀ x ∈ items, k * opt < (4 * k - 2) * v x) :
    (3 * k - 1) * opt ≤ (4 * k - 2) * minL (greedy v k items).sums := by
  obtain ⟨W, hW, Q, hQk, hQp, hQ⟩ := cover_of_opt hk hopt
  have hW' : W = opt := by exact_mod_cast hW
  subst hW'
  rw [greedy_eq_run]
  exact arith_final hk (run_large_exact hk (Part.sortDesc_sorted v items) Q hQk
    (hQp.trans ((Part.sortDesc_perm v items).map v).symm) hQ
    (fun x hx => hbig x ((Part.sortDesc_perm v items).mem_iff.1 hx)))

/-- **All items above `t`, `OPT/4 ≤ t ≤ OPT/2`**: LPT's smallest sum is at least `OPT/2 + t`, for every number of
    bins. -/
theorem greedy_maxmin_partial_half_plus {v : α → Nat} {k : Nat} {items : List α} (hk : 0 < k) {opt : Nat}
    (hopt : IsOptimalValue .maxSmallest k (items.map v) (-(opt : Int))) (t : Nat)
    (hbig : ∀ x ∈ items, t < v x) (h1 : opt ≤ 4 * t) (h2 : 2 * t ≤ opt) :
    opt + 2 * t ≤ 2 * minL (greedy v k items).sums := by
  obtain ⟨W, hW, Q, hQk, hQp, hQ⟩ := cover_of_opt hk hopt
  have hW' : W = opt := by exact_mod_cast hW
  subst hW'
  rw [greedy_eq_run]
  exact run_large k hk (sortDesc v items) (Part.sortDesc_sorted v items) W t Q hQk
    (hQp.trans ((Part.sortDesc_perm v items).map v).symm) hQ
    (fun x hx => hbig x ((Part.sortDesc_perm v items).mem_iff.1 hx)) h1 h2

/-- non-vacuity: `[10, 10, 7, 7, 7]` on two bins: `OPT = 20`, every item exceeds `2·20/6`; LPT's smallest sum is
    `17`: `5·20 = 100 ≤ 102 = 6·17` -/
theorem optmin_10_10_7_7_7 : IsOptimalValue .maxSmallest 2 ([10, 10, 7, 7, 7].map id) (-((20 : Nat) : Int)) := by
  refine ⟨⟨[0, 0, 1, 1, 1], ⟨rfl, by decide⟩, by decide⟩, ?_⟩
  intro asg hasg
  obtain ⟨Q, hQk, hQp, hQs⟩ := assignment_partition hasg
  have h1 := length_mul_minL_le (sumsOf 2 ([10, 10, 7, 7, 7].map id) asg)
  rw [← hQs, ← sumL_flatten, Part.sumL_perm hQp, List.length_map, hQk] at h1
  simp only [Objective.value, Bool.false_eq_true, if_false]
  have : sumL ([10, 10, 7, 7, 7].map id) = 41 := by decide
  rw [← hQs]
  omega

example : (3 * 2 - 1) * 20 ≤ (4 * 2 - 2) * minL (greedy id 2 [10, 10, 7, 7, 7]).sums :=
  greedy_maxmin_partial_large (v := id) (by decide) optmin_10_10_7_7_7 (by decide)
example : 20 + 2 * 6 ≤ 2 * minL (greedy id 2 [10, 10, 7, 7, 7]).sums :=
  greedy_maxmin_partial_half_plus (v := id) (by decide) optmin_10_10_7_7_7 6 (by decide) (by decide) (by decide)
example : 5 * 20 ≤ 6 * minL (greedy id 2 [10, 10, 7, 7, 7]).sums :=
  greedy_maxmin_two (v := id) optmin_10_10_7_7_7

/-! ## 7. Three bins -/

theorem wt_scale {c : Nat} (hc : 0 < c) (W : Nat) (g : List Nat) :
    wt (c * W) (g.map (c * ·)) = wt W g := by
  have e1 : ((fun u => decide (c * W ≤ 2 * u)) ∘ fun x => c * x) = fun u => decide (W ≤ 2 * u) := by
    funext u
    simp only [Function.comp]
    have : 2 * (c * u) = c * (2 * u) := by rw [Nat.mul_left_comm]
    rw [this]
    exact decide_eq_decide.2 (Nat.mul_le_mul_left_iff hc)
  have e2 : ((fun u => decide (c * W ≤ u)) ∘ fun x => c * x) = fun u => decide (W ≤ u) := by
    funext u
    simp only [Function.comp]
    exact decide_eq_decide.2 (Nat.mul_le_mul_left_iff hc)
  simp only [wt, List.length_map, List.countP_map, e1, e2]

/-- `wt_bin` for three bins: `L < (4/5)·W`, every item exceeds `(3/10)·W` -/
theorem wt_bin3 {v : α → Nat} {W L : Nat} (hL : 10 * L < 8 * W) (l : List α)
    (hpre : ∀ n, n < l.length → binSum v (l.take n) ≤ L) (htail : ∀ c ∈ l.tail, 2 * v c < W)
    (hbig : ∀ c ∈ l, 3 * W < 10 * v c) :
    wt W (l.map v) ≤ 3 ∧ (binSum v l ≤ L → wt W (l.map v) ≤ 2) := by
  have key := wt_bin (v := fun a => 10 * v a) (W := 10 * W) (t := 3 * W) (L := 10 * L)
    (by omega) (by omega) (by omega) l
    (fun n hn => by rw [Scale.binSum_scale]; exact Nat.mul_le_mul_left _ (hpre n hn))
    (fun c hc => by have := htail c hc; omega) hbig
  have e : l.map (fun a => 10 * v a) = (l.map v).map (10 * ·) := by rw [List.map_map]; rfl
  rw [e, wt_scale (by decide), Scale.binSum_scale] at key
  exact ⟨key.1, fun h => key.2 (Nat.mul_le_mul_left _ h)⟩

theorem mem_tail_append_left {β : Type} {l : List β} {a c : β} (h : c ∈ l.tail) : c ∈ (l ++ [a]).tail := by
  cases l with
  | nil => simp at h
  | cons b t => simp only [List.cons_append, List.tail_cons, List.mem_append] at h ⊢; exact Or.inl h

/-- **Three bins, the mixed case** (static form).  Bin `B = preB ++ [z]` exceeds the smallest sum `L` by more
    than `(3/10)·W`, bin `C = lC' ++ [x]` ends with the smallest item `x ≤ (3/10)·W`, bin `M` has sum `≤ L`,
    `L < (4/5)·W`, and the three bins hold at least `3·W`.  Then after `z` was placed only `x` has arrived:
    `M` and `lC'` consist of items `≥ z`, and the weights of the three bins are at most `3, 3, 2`. -/
theorem three_mixed {v : α → Nat} {W L : Nat} (hL : 10 * L < 8 * W)
    (preB : List α) (z : α) (lC' : List α) (x : α) (lM : List α)
    (hvol : 3 * W ≤ binSum v (preB ++ [z]) + binSum v (lC' ++ [x]) + binSum v lM)
    (hM : binSum v lM ≤ L) (hC' : binSum v lC' ≤ L) (hpreB : binSum v preB ≤ L)
    (hx : 10 * v x ≤ 3 * W) (hz2 : 2 * v z ≤ L)
    (hB : 10 * L + 3 * W < 10 * binSum v (preB ++ [z]))
    (hminC : ∀ u ∈ lC', v x ≤ v u) (hminM : ∀ u ∈ lM, v x ≤ v u)
    (hsB : ∀ u ∈ preB, v z ≤ v u)
    (a2M : ∃ m, m ≤ lM.length ∧ binSum v preB ≤ binSum v (lM.take m) ∧ (∀ u ∈ lM.drop m, v u ≤ v z) ∧
      (∀ u ∈ lM.take m, v z ≤ v u))
    (a2C : ∃ m, m ≤ (lC' ++ [x]).length ∧ binSum v preB ≤ binSum v ((lC' ++ [x]).take m) ∧
      (∀ u ∈ (lC' ++ [x]).drop m, v u ≤ v z) ∧ (∀ u ∈ (lC' ++ [x]).take m, v z ≤ v u))
    (prefB : ∀ n, n < (preB ++ [z]).length → binSum v ((preB ++ [z]).take n) ≤ L)
    (prefC : ∀ n, n < (lC' ++ [x]).length → binSum v ((lC' ++ [x]).take n) ≤ L)
    (prefM : ∀ n, n < lM.length → binSum v (lM.take n) ≤ L)
    (tailB : ∀ c ∈ (preB ++ [z]).tail, 2 * v c ≤ L) (tailC : ∀ c ∈ (lC' ++ [x]).tail, 2 * v c ≤ L)
    (tailM : ∀ c ∈ lM.tail, 2 * v c ≤ L) :
    wt W ((preB ++ [z]).map v) ≤ 3 ∧ wt W ((lC' ++ [x]).map v) ≤ 3 ∧ wt W (lM.map v) ≤ 2 := by
  rw [Oracle.binSum_concat] at hvol hB
  rw [Oracle.binSum_concat] at hvol
  have hzbig : 3 * W < 10 * v z := by omega
  refine ⟨?_, ?_, ?_⟩
  · -- bin B
    refine (wt_bin3 hL _ prefB (fun c hc => by have := tailB c hc; omega) ?_).1
    intro c hc
    rcases List.mem_append.1 hc with hc | hc
    · have := hsB c hc; omega
    · simp only [List.mem_cons, List.not_mem_nil, or_false] at hc; rw [hc]; exact hzbig
  · -- bin C
    obtain ⟨m, hm, h1, h2, h3⟩ := a2C
    simp only [List.length_append, List.length_cons, List.length_nil] at hm
    rcases Nat.lt_or_ge m lC'.length with hlt | hge
    · -- two items arrived after `z`: impossible
      exfalso
      have hd : (lC' ++ [x]).drop m = lC'.drop m ++ [x] := List.drop_append_of_le_length (by omega)
      have hne : lC'.drop m ≠ [] := by
        intro h0
        have := congrArg List.length h0
        simp only [List.length_drop, List.length_nil] at this
        omega
      obtain ⟨u, t, hu⟩ := List.exists_cons_of_ne_nil hne
      have hu' : u ∈ lC' := List.mem_of_mem_drop (by rw [hu]; simp)
      have hux := hminC u hu'
      have hsplit : binSum v (lC' ++ [x]) =
          binSum v ((lC' ++ [x]).take m) + binSum v ((lC' ++ [x]).drop m) := by
        rw [← Part.binSum_append, List.take_append_drop]
      rw [hd, hu] at hsplit
      simp only [List.cons_append, Part.binSum_cons, Oracle.binSum_concat] at hsplit
      omega
    · rcases Nat.lt_or_ge lC'.length m with hgt | hle
      · -- `x` itself would be `≥ z`
        exfalso
        have : (lC' ++ [x]).take m = lC' ++ [x] := List.take_of_length_le (by simp; omega)
        rw [this] at h3
        have := h3 x (by simp)
        omega
      · have hmeq : m = lC'.length := by omega
        subst hmeq
        rw [List.take_left'  rfl] at h3
        have hC := wt_bin3 hL lC'
          (fun n hn => by
            have := prefC n (by simp; omega)
            rwa [List.take_append_of_le_length (by omega)] at this)
          (fun c hc => by have := tailC c (mem_tail_append_left hc); omega)
          (fun c hc => by have := h3 c hc; omega)
        have h4 := hC.2 hC'
        have e1 : decide (W ≤ 2 * v x) = false := by simp; omega
        have e2 : decide (W ≤ v x) = false := by simp; omega
        have hwx : wt W [v x] = 1 := by simp [wt, e1, e2]
        rw [List.map_append, wt_append, List.map_cons, List.map_nil, hwx]
        omega
  · -- bin M
    obtain ⟨m, hm, h1, h2, h3⟩ := a2M
    by_cases hd : lM.drop m = []
    · have ht : lM.take m = lM := by
        have := List.take_append_drop m lM
        rw [hd, List.append_nil] at this
        exact this
      rw [ht] at h3
      exact (wt_bin3 hL lM prefM (fun c hc => by have := tailM c hc; omega)
        (fun c hc => by have := h3 c hc; omega)).2 hM
    · exfalso
      obtain ⟨u, t, hu⟩ := List.exists_cons_of_ne_nil hd
      have hu' : u ∈ lM := List.mem_of_mem_drop (by rw [hu]; simp)
      have hux := hminM u hu'
      have hsplit : binSum v lM = binSum v (lM.take m) + binSum v (lM.drop m) := by
        rw [← Part.binSum_append, List.take_append_drop]
      rw [hu, Part.binSum_cons] at hsplit
      omega

theorem getD_pos_lt (l : List Nat) (n : Nat) (h : 0 < l.getD n 0) : n < l.length := by
  apply Nat.lt_of_not_le
  intro hle
  have : l[n]? = none := List.getElem?_eq_none hle
  simp [List.getD_eq_getElem?_getD, this] at h

theorem getD_eq_getElem' (l : List Nat) (n : Nat) (h : n < l.length) : l.getD n 0 = l[n] := by
  simp [List.getD_eq_getElem?_getD, h]

theorem sum_three (s : List Nat) (hs : s.length = 3) (a b c : Nat) (ha : a < 3) (hb : b < 3) (hc : c < 3)
    (hab : a ≠ b) (hac : a ≠ c) (hbc : b ≠ c) :
    sumL s = s[a]'(by omega) + s[b]'(by omega) + s[c]'(by omega) := by
  match s, hs with
  | [s0, s1, s2], _ =>
    have ha' : a = 0 ∨ a = 1 ∨ a = 2 := by omega
    have hb' : b = 0 ∨ b = 1 ∨ b = 2 := by omega
    have hc' : c = 0 ∨ c = 1 ∨ c = 2 := by omega
    rcases ha' with rfl | rfl | rfl <;> rcases hb' with rfl | rfl | rfl <;> rcases hc' with rfl | rfl | rfl <;>
      first
        | (exfalso; omega)
        | (simp [sumL]; omega)

theorem cover_total {W k : Nat} {vals : List Nat} (Q : List (List Nat)) (hQk : Q.length = k)
    (hQp : Q.flatten.Perm vals) (hQ : ∀ l ∈ Q, W ≤ sumL l) : k * W ≤ sumL vals := by
  rw [← Part.sumL_perm hQp, sumL_flatten, ← hQk]
  have := Part.length_mul_le_sumL (Q.map sumL) W 0 (fun a ha => by
    obtain ⟨l, hl, rfl⟩ := List.mem_map.1 ha
    have := hQ l hl; omega)
  simpa using this

/-- **Three bins, exact constant `4/5`** for the LPT loop on an ordered list, against an arbitrary cover.

    Induction over the prefixes.  Let `x` be the last (smallest) item and `L` the smallest sum.
    * the smallest sum grows by `x`: `run_snoc_onmin`;
    * the fourth value exceeds `L/2`: peel the first pair and use the theorem for two bins;
    * every bin with two items is within `(3/10)·W` of `L`: the certificate `run_maxmin_cert`;
    * `x > (3/10)·W`: all items are large, `run_large_exact`;
    * otherwise (`three_mixed`) one bin `B` exceeds `L` by more than `(3/10)·W`, the bin `C` of `x` and the bin `M` of
      smallest sum are the other two, and if `L < (4/5)·W` the total `≥ 3·W` forces the situation of
      `three_mixed`, where the weights of the bins are `≤ 3, 3, 2`: impossible (`count_core`). -/
theorem run_maxmin_three {v : α → Nat} : ∀ (xs : List α), xs.Pairwise (fun a c => v c ≤ v a) →
    ∀ (W : Nat) (Q : List (List Nat)), Q.length = 3 → Q.flatten.Perm (xs.map v) → (∀ l ∈ Q, W ≤ sumL l) →
    3 * 3 * W + 2 * minL (run v 3 xs).sums ≤ 4 * 3 * minL (run v 3 xs).sums + W := by
  intro xs
  induction xs using Oracle.rev_induction with
  | nil =>
    intro _ W Q hQk hQp hQ
    have := cover_nil_level (by decide) Q hQk (by simpa using hQp) hQ
    omega
  | snoc P x ih =>
    intro hS W Q hQk hQp hQ
    have hk : 0 < 3 := by decide
    obtain ⟨hSP, _, hPx⟩ := List.pairwise_append.1 hS
    by_cases hT : minL (run v 3 (P ++ [x])).sums = minL (run v 3 P).sums + v x
    · exact run_snoc_onmin hk P x Q hQk hQp hQ (fun W' Q' h1 h2 h3 => ih hSP W' Q' h1 h2 h3) hT
    apply Classical.byContradiction
    intro hcon
    have hL : 10 * minL (run v 3 (P ++ [x])).sums < 8 * W := by omega
    -- peel the first pair?
    by_cases hy : minL (run v 3 (P ++ [x])).sums < 2 * ((P ++ [x]).map v).getD 3 0
    · have hklt' := getD_pos_lt ((P ++ [x]).map v) 3 (by omega)
      have hklt : 2 + 1 < (P ++ [x]).length := by simpa using hklt'
      have ey : ((P ++ [x]).map v).getD 3 0 = v (P ++ [x])[2 + 1] := by
        rw [getD_eq_getElem' _ _ hklt', List.getElem_map]
      rw [ey] at hy
      obtain ⟨ys, hsub, hL', _, Q', hQ'k, hQ'p, hQ'⟩ :=
        peel_first_pair (k' := 2) (by decide) hS hklt hy Q hQk hQp hQ
      have hL'' : minL (run v 2 ys).sums = minL (run v 3 (P ++ [x])).sums := hL'
      have key := run_maxmin_two ys (hS.sublist hsub) W Q' hQ'k hQ'p hQ'
      rw [hL''] at key
      have := arith_exact_step (k' := 2) (by decide) key
      omega
    -- certificate?
    by_cases hcert : ∀ l ∈ (run v 3 (P ++ [x])).lists,
        l.length ≤ 1 ∨ binSum v l ≤ minL (run v 3 (P ++ [x])).sums + 3 * W / 10
    · exact hcon (run_maxmin_cert hk Q hQk hQp hQ (3 * W / 10) hcert (by omega))
    -- all items large?
    by_cases hxbig : 3 * W < 10 * v x
    · refine hcon (run_large_exact hk hS Q hQk hQp hQ ?_)
      intro a ha
      have hax : v x ≤ v a := by
        rcases List.mem_append.1 ha with ha | ha
        · exact hPx a ha x (by simp)
        · simp at ha; rw [ha]
      omega
    -- the mixed case
    simp only [not_forall, not_or, Nat.not_le] at hcert
    obtain ⟨lB, hlB, hlen2, hBbig⟩ := hcert
    -- the state
    obtain ⟨hperm, hlists, hcons⟩ := run_valid v hk (P ++ [x])
    have hc : (run v 3 (P ++ [x])).sums = (run v 3 (P ++ [x])).lists.map (binSum v) := hcons
    obtain ⟨_, hlistsP, hconsP⟩ := run_valid v hk P
    have hcP : (run v 3 P).sums = (run v 3 P).lists.map (binSum v) := hconsP
    have hpref := run_prefInv v hk (P ++ [x])
    have htl := run_tailInv hk hS (getD_spec v 3 hS) (P ++ [x]) [] (by simp)
    have hsort := run_sortedInv hk (P ++ [x]) hS
    have ha2 := run_a2Inv hk (P ++ [x]) hS
    have hslen := run_sums_length v hk (P ++ [x])
    have hslenP := run_sums_length v hk P
    have hne := run_sums_ne_nil v hk (P ++ [x])
    have hneP := run_sums_ne_nil v hk P
    have hmono := run_min_mono v hk P [x]
    -- indices
    obtain ⟨iB, hiB, hiBl⟩ := List.mem_iff_getElem.1 hlB
    have hj := Part.argmin_lt hneP
    have hi0 := Part.argmin_lt hne
    generalize hjdef : argmin (run v 3 P).sums = j at hj
    generalize hi0def : argmin (run v 3 (P ++ [x])).sums = i0 at hi0
    have hLi0 : (run v 3 (P ++ [x])).sums[i0] = minL (run v 3 (P ++ [x])).sums := by
      subst hi0def; exact Part.getElem_argmin hi0
    have hLPj : (run v 3 P).sums[j] = minL (run v 3 P).sums := by
      subst hjdef; exact Part.getElem_argmin hj
    have hnl : (run v 3 (P ++ [x])).lists = (run v 3 P).lists.modify j (· ++ [x]) := by
      rw [run_snoc]; simp only [greedyStep, Part.add_lists, hjdef]
    have hns : (run v 3 (P ++ [x])).sums = (run v 3 P).sums.modify j (· + v x) := by
      rw [run_snoc]; simp only [greedyStep, Part.add_sums, hjdef]
    have hjl : j < (run v 3 P).lists.length := by omega
    have hlC : (run v 3 (P ++ [x])).lists[j]? = some ((run v 3 P).lists[j] ++ [x]) := by
      rw [hnl, List.getElem?_modify_eq, List.getElem?_eq_getElem hjl]; rfl
    have hsj : (run v 3 (P ++ [x])).sums[j]'(by omega) = minL (run v 3 P).sums + v x := by
      have : (run v 3 (P ++ [x])).sums[j]? = some (minL (run v 3 P).sums + v x) := by
        rw [hns, List.getElem?_modify_eq, List.getElem?_eq_getElem (by omega), hLPj]; rfl
      rw [List.getElem?_eq_getElem (by omega)] at this
      simpa using this
    have hsumof : ∀ (n : Nat) (hn : n < (run v 3 (P ++ [x])).lists.length),
        (run v 3 (P ++ [x])).sums[n]'(by omega) = binSum v (run v 3 (P ++ [x])).lists[n] := by
      intro n hn; simp [hc]
    have hlCl : (run v 3 (P ++ [x])).lists[j]'(by omega) = (run v 3 P).lists[j] ++ [x] := by
      rw [List.getElem?_eq_getElem (by omega)] at hlC; simpa using hlC
    have hsC' : binSum v (run v 3 P).lists[j] = minL (run v 3 P).sums := by
      rw [← hLPj]; simp [hcP]
    -- the three bins are different
    have hi0j : i0 ≠ j := by
      intro e
      subst e
      rw [hsj] at hLi0
      exact hT hLi0.symm
    have hBsum := hsumof iB hiB
    rw [hiBl] at hBsum
    have hiBi0 : iB ≠ i0 := by
      intro e
      subst e
      omega
    have hiBj : iB ≠ j := by
      intro e
      subst e
      rw [hsj] at hBsum
      omega
    have hiB3 : iB < 3 := by omega
    have hj3 : j < 3 := by omega
    have hi03 : i0 < 3 := by omega
    -- bin B
    have hBne : lB ≠ [] := by intro h0; rw [h0] at hlen2; simp at hlen2
    have hBsplit : lB = lB.dropLast ++ [lB.getLast hBne] := (List.dropLast_append_getLast hBne).symm
    generalize lB.dropLast = preB at hBsplit
    generalize lB.getLast hBne = z at hBsplit
    subst hBsplit
    have hpreBne : preB ≠ [] := by
      intro h0; rw [h0] at hlen2; simp at hlen2
    have hztail : z ∈ (preB ++ [z]).tail := by
      cases preB with
      | nil => exact absurd rfl hpreBne
      | cons a t => simp
    -- the total
    have htot := cover_total Q hQk hQp hQ
    have hsumall : sumL (run v 3 (P ++ [x])).sums = binSum v (P ++ [x]) := run_sums_sum v hk (P ++ [x])
    rw [sum_three _ hslen iB j i0 hiB3 hj3 hi03 hiBj hiBi0 (Ne.symm hi0j), hBsum, hsj, hLi0] at hsumall
    -- membership of items
    have hxmin : ∀ (n : Nat) (hn : n < (run v 3 (P ++ [x])).lists.length),
        ∀ u ∈ (run v 3 (P ++ [x])).lists[n], v x ≤ v u := by
      intro n hn u hu
      have : u ∈ P ++ [x] := hperm.mem_iff.1 (List.mem_flatten.2 ⟨_, List.getElem_mem hn, hu⟩)
      rcases List.mem_append.1 this with h | h
      · exact hPx u h x (by simp)
      · simp at h; rw [h]
    have hy2 : ∀ (n : Nat) (hn : n < (run v 3 (P ++ [x])).lists.length),
        ∀ c ∈ ((run v 3 (P ++ [x])).lists[n]).tail, 2 * v c ≤ minL (run v 3 (P ++ [x])).sums := by
      intro n hn c hc'
      have := htl _ (List.getElem_mem hn) c hc'
      omega
    have hgetB : (run v 3 (P ++ [x])).lists[iB]? = some (preB ++ [z]) := by
      rw [List.getElem?_eq_getElem hiB, hiBl]
    have hgetM : (run v 3 (P ++ [x])).lists[i0]? = some (run v 3 (P ++ [x])).lists[i0] :=
      List.getElem?_eq_getElem (by omega)
    have hMsum : binSum v (run v 3 (P ++ [x])).lists[i0] = minL (run v 3 (P ++ [x])).sums := by
      rw [← hLi0]; exact (hsumof i0 (by omega)).symm
    have hpB := hpref _ hlB preB.length (by simp)
    rw [List.take_left' rfl] at hpB
    have hsortB := hsort _ hlB
    rw [List.pairwise_append] at hsortB
    have key := three_mixed (v := v) hL preB z (run v 3 P).lists[j] x (run v 3 (P ++ [x])).lists[i0]
      (by
        have e2 : binSum v ((run v 3 P).lists[j] ++ [x]) = minL (run v 3 P).sums + v x := by
          rw [Oracle.binSum_concat, hsC']
        rw [e2, hMsum]
        have e : binSum v (P ++ [x]) = sumL ((P ++ [x]).map v) := rfl
        omega)
      (by omega) (by omega) hpB (by omega)
      (by have := hy2 iB hiB z (by rw [hiBl]; exact hztail); exact this)
      (by omega)
      (fun u hu => hxmin j (by omega) u (by rw [hlCl]; simp [hu]))
      (fun u hu => hxmin i0 (by omega) u hu)
      (fun u hu => hsortB.2.2 u hu z (by simp))
      (ha2 iB i0 preB z _ hiBi0 hgetB hgetM)
      (ha2 iB j preB z _ hiBj hgetB hlC)
      (hpref _ hlB)
      (by have := hpref _ (List.getElem_mem (show j < _ by omega)); rwa [hlCl] at this)
      (hpref _ (List.getElem_mem (show i0 < _ by omega)))
      (by have := hy2 iB hiB; rwa [hiBl] at this)
      (by have := hy2 j (by omega); rwa [hlCl] at this)
      (hy2 i0 (by omega))
    obtain ⟨kB, kC, kM⟩ := key
    refine count_core (W := W) (k := 3) (vals := (P ++ [x]).map v)
      ((run v 3 (P ++ [x])).lists.map (List.map v)) Q (by simpa using hlists)
      (by rw [← List.map_flatten]; exact hperm.map v) hQk hQp
      (fun g hg => wt_cover (by omega) g (hQ g hg)) ?_
      ⟨_, List.mem_map_of_mem (List.getElem_mem (show i0 < _ by omega)), kM⟩
    intro l' hl'
    obtain ⟨l, hl, rfl⟩ := List.mem_map.1 hl'
    obtain ⟨n, hn, rfl⟩ := List.mem_iff_getElem.1 hl
    have hn3 : n = iB ∨ n = j ∨ n = i0 := by omega
    rcases hn3 with rfl | rfl | rfl
    · rw [hiBl]; exact kB
    · rw [hlCl]; exact kC
    · omega

/-- **C08 for three bins (Csirik–Kellerer–Woeginger, `k = 3`)**: LPT's smallest sum is at least `8/10` of the
    optimal smallest sum. -/
theorem greedy_maxmin_three {v : α → Nat} {items : List α} {opt : Nat}
    (hopt : IsOptimalValue .maxSmallest 3 (items.map v) (-(opt : Int))) :
    8 * opt ≤ 10 * minL (greedy v 3 items).sums := by
  obtain ⟨W, hW, Q, hQk, hQp, hQ⟩ := cover_of_opt (by decide) hopt
  have hW' : W = opt := by exact_mod_cast hW
  subst hW'
  have key := run_maxmin_three (v := v) (sortDesc v items) (Part.sortDesc_sorted v items) W Q hQk
    (hQp.trans ((Part.sortDesc_perm v items).map v).symm) hQ
  rw [greedy_eq_run]
  omega

/-- non-vacuity and tightness: `[5, 5, 4, 4, 3, 3, 3, 3]` on three bins: the optimum `{5,5}, {4,3,3}, {4,3,3}` has
    smallest sum `10`, LPT builds `{5,3,3}, {5,3,3}, {4,4}` with smallest sum `8`: `8·10 = 10·8` -/
theorem optmin_55443333 :
    IsOptimalValue .maxSmallest 3 ([5, 5, 4, 4, 3, 3, 3, 3].map id) (-((10 : Nat) : Int)) := by
  refine ⟨⟨[0, 0, 1, 2, 1, 1, 2, 2], ⟨rfl, by decide⟩, by decide⟩, ?_⟩
  intro asg hasg
  obtain ⟨Q, hQk, hQp, hQs⟩ := assignment_partition hasg
  have h1 := length_mul_minL_le (sumsOf 3 ([5, 5, 4, 4, 3, 3, 3, 3].map id) asg)
  rw [← hQs, ← sumL_flatten, Part.sumL_perm hQp, List.length_map, hQk] at h1
  simp only [Objective.value, Bool.false_eq_true, if_false]
  have : sumL ([5, 5, 4, 4, 3, 3, 3, 3].map id) = 30 := by decide
  rw [← hQs]
  omega

example : 8 * 10 ≤ 10 * minL (greedy id 3 [5, 5, 4, 4, 3, 3, 3, 3]).sums :=
  greedy_maxmin_three (v := id) optmin_55443333
example : 8 * 10 = 10 * minL (greedy id 3 [5, 5, 4, 4, 3, 3, 3, 3]).sums := by decide

/-- non-vacuity of the mixed case of the proof: `[6, 6, 5, 5, 4, 4, 4, 3]` on three bins, optimum
    `{6,6}, {5,4,3}, {5,4,4}` with smallest sum `12`; LPT builds `{6,4,4}, {6,4,3}, {5,5}`: the last item `3` is
    small (`10·3 ≤ 3·12`), lands on the second bin, and the first bin exceeds the smallest sum `10` by
    `4 > 3.6` -/
theorem optmin_66554443 :
    IsOptimalValue .maxSmallest 3 ([6, 6, 5, 5, 4, 4, 4, 3].map id) (-((12 : Nat) : Int)) := by
  refine ⟨⟨[0, 0, 1, 2, 1, 2, 2, 1], ⟨rfl, by decide⟩, by decide⟩, ?_⟩
  intro asg hasg
  obtain ⟨Q, hQk, hQp, hQs⟩ := assignment_partition hasg
  have h1 := length_mul_minL_le (sumsOf 3 ([6, 6, 5, 5, 4, 4, 4, 3].map id) asg)
  rw [← hQs, ← sumL_flatten, Part.sumL_perm hQp, List.length_map, hQk] at h1
  simp only [Objective.value, Bool.false_eq_true, if_false]
  have : sumL ([6, 6, 5, 5, 4, 4, 4, 3].map id) = 37 := by decide
  rw [← hQs]
  omega

example : 8 * 12 ≤ 10 * minL (greedy id 3 [6, 6, 5, 5, 4, 4, 4, 3]).sums :=
  greedy_maxmin_three (v := id) optmin_66554443
example : minL (greedy id 3 [6, 6, 5, 5, 4, 4, 4, 3]).sums = 10 := by decide

/-! ## 8. Every number of bins: reduction to the mixed case -/

/-- **The general theorem, reduced to its mixed case.**  The induction over the number of bins and over the
    prefixes of the ordered list proves the exact bound `(3k−1)·W ≤ (4k−2)·L` for every `k ≤ K`, *provided* the
    following situation is handled for every `2 ≤ k ≤ K` (hypothesis `hmix`): the last (smallest) item `x` has
    value `≤ k·W/(4k−2)`, it was not put on the bin of smallest final sum, the `(k+1)`-th value is `≤ L/2`, and
    some bin with at least two items exceeds `L` by more than `k·W/(4k−2)`.
    For `k = 2` this situation cannot occur, for `k = 3` it is `three_mixed`; these are `run_maxmin_two` and
    `run_maxmin_three`.  For `k ≥ 4` it is the part of the Csirik–Kellerer–Woeginger theorem that is not
    formalised here. -/
theorem run_maxmin_of_mixed {v : α → Nat} (K : Nat)
    (hmix : ∀ k, 2 ≤ k → k ≤ K → ∀ (P : List α) (x : α) (W : Nat) (Q : List (List Nat)),
      (P ++ [x]).Pairwise (fun a c => v c ≤ v a) → Q.length = k → Q.flatten.Perm ((P ++ [x]).map v) →
      (∀ l ∈ Q, W ≤ sumL l) →
      minL (run v k (P ++ [x])).sums ≠ minL (run v k P).sums + v x →
      2 * ((P ++ [x]).map v).getD k 0 ≤ minL (run v k (P ++ [x])).sums →
      (∃ l ∈ (run v k (P ++ [x])).lists, 2 ≤ l.length ∧
        minL (run v k (P ++ [x])).sums + k * W / (4 * k - 2) < binSum v l) →
      (4 * k - 2) * v x ≤ k * W →
      3 * k * W + 2 * minL (run v k (P ++ [x])).sums ≤ 4 * k * minL (run v k (P ++ [x])).sums + W) :
    ∀ k, 0 < k → k ≤ K → ∀ (xs : List α), xs.Pairwise (fun a c => v c ≤ v a) →
    ∀ (W : Nat) (Q : List (List Nat)), Q.length = k → Q.flatten.Perm (xs.map v) → (∀ l ∈ Q, W ≤ sumL l) →
    3 * k * W + 2 * minL (run v k xs).sums ≤ 4 * k * minL (run v k xs).sums + W := by
  intro k
  induction k with
  | zero => intro h; omega
  | succ k' ihk =>
    intro hk hkK xs
    by_cases hk' : k' = 0
    · subst hk'
      intro hS W Q hQk hQp hQ
      have hsp := run_spread hk hS Q hQk hQp hQ
      simp only [Nat.zero_add, Nat.one_mul, Nat.mul_one] at hsp ⊢
      omega
    have hk'pos : 0 < k' := Nat.pos_of_ne_zero hk'
    induction xs using Oracle.rev_induction with
    | nil =>
      intro _ W Q hQk hQp hQ
      have := cover_nil_level hk Q hQk (by simpa using hQp) hQ
      subst this
      simp only [Nat.mul_zero, Nat.zero_add, Nat.add_zero]
      exact Nat.mul_le_mul_right _ (by omega)
    | snoc P x ih =>
      intro hS W Q hQk hQp hQ
      obtain ⟨hSP, _, hPx⟩ := List.pairwise_append.1 hS
      by_cases hT : minL (run v (k' + 1) (P ++ [x])).sums = minL (run v (k' + 1) P).sums + v x
      · exact run_snoc_onmin hk P x Q hQk hQp hQ (fun W' Q' h1 h2 h3 => ih hSP W' Q' h1 h2 h3) hT
      by_cases hy : minL (run v (k' + 1) (P ++ [x])).sums < 2 * ((P ++ [x]).map v).getD (k' + 1) 0
      · have hklt' := getD_pos_lt ((P ++ [x]).map v) (k' + 1) (by omega)
        have hklt : k' + 1 < (P ++ [x]).length := by simpa using hklt'
        have ey : ((P ++ [x]).map v).getD (k' + 1) 0 = v (P ++ [x])[k' + 1] := by
          rw [getD_eq_getElem' _ _ hklt', List.getElem_map]
        rw [ey] at hy
        obtain ⟨ys, hsub, hL', _, Q', hQ'k, hQ'p, hQ'⟩ :=
          peel_first_pair hk'pos hS hklt hy Q hQk hQp hQ
        have key := ihk hk'pos (by omega) ys (hS.sublist hsub) W Q' hQ'k hQ'p hQ'
        rw [hL'] at key
        exact arith_exact_step hk'pos key
      by_cases hcert : ∀ l ∈ (run v (k' + 1) (P ++ [x])).lists,
          l.length ≤ 1 ∨ binSum v l ≤ minL (run v (k' + 1) (P ++ [x])).sums +
            (k' + 1) * W / (4 * (k' + 1) - 2)
      · exact run_maxmin_cert hk Q hQk hQp hQ _ hcert
          (by rw [Nat.mul_comm]; exact Nat.div_mul_le_self _ _)
      by_cases hxbig : (k' + 1) * W < (4 * (k' + 1) - 2) * v x
      · refine run_large_exact hk hS Q hQk hQp hQ ?_
        intro a ha
        have hax : v x ≤ v a := by
          rcases List.mem_append.1 ha with ha | ha
          · exact hPx a ha x (by simp)
          · simp at ha; rw [ha]
        exact Nat.lt_of_lt_of_le hxbig (Nat.mul_le_mul_left _ hax)
      · simp only [not_forall, not_or, Nat.not_le] at hcert
        obtain ⟨lB, hlB, hlen2, hBbig⟩ := hcert
        exact hmix (k' + 1) (by omega) hkK P x W Q hS hQk hQp hQ hT (by omega)
          ⟨lB, hlB, by omega, hBbig⟩ (by omega)

/-- **C08 for every number of bins, reduced to the mixed case** (see `run_maxmin_of_mixed`).

    Requested:
      `theorem greedy_maxmin {v : α → Nat} {k : Nat} {items : List α} (hk : 0 < k) {opt : Nat}`
      `    (hopt : IsOptimalValue .maxSmallest k (items.map v) (-(opt : Int))) :`
      `    (3 * k - 1) * opt ≤ (4 * k - 2) * minL (greedy v k items).sums`
    This is proved for `k = 2` (`greedy_maxmin_two`) and `k = 3` (`greedy_maxmin_three`).  For `k ≥ 4` what is
    missing is exactly the hypothesis `hmix`: in the LPT run on `P ++ [x]` (ordered) the smallest item `x` is
    `≤ k·W/(4k−2)` and was put on a bin that does not have the smallest final sum, the `(k+1)`-th value is `≤ L/2`,
    and some bin with at least two items (it then consists of items `> k·W/(4k−2)` only) exceeds `L` by more than
    `k·W/(4k−2)`.  (All other cases — last item on the bin of smallest sum, first pair closed, all bins with two
    items within `k·W/(4k−2)` of `L`, all items large — are proved for every `k`.)  In this case the known proofs
    count the large items per bin and bound the total of the small ones; exhaustive search (all multisets of `≤ 9`
    values `≤ 10`, `k ≤ 4`, and random instances up to `k = 9`) found no violation of the bound. -/
theorem greedy_maxmin_partial {v : α → Nat} (K : Nat)
    (hmix : ∀ k, 2 ≤ k → k ≤ K → ∀ (P : List α) (x : α) (W : Nat) (Q : List (List Nat)),
      (P ++ [x]).Pairwise (fun a c => v c ≤ v a) → Q.length = k → Q.flatten.Perm ((P ++ [x]).map v) →
      (∀ l ∈ Q, W ≤ sumL l) →
      minL (run v k (P ++ [x])).sums ≠ minL (run v k P).sums + v x →
      2 * ((P ++ [x]).map v).getD k 0 ≤ minL (run v k (P ++ [x])).sums →
      (∃ l ∈ (run v k (P ++ [x])).lists, 2 ≤ l.length ∧
        minL (run v k (P ++ [x])).sums + k * W / (4 * k - 2) < binSum v l) →
      (4 * k - 2) * v x ≤ k * W →
      3 * k * W + 2 * minL (run v k (P ++ [x])).sums ≤ 4 * k * minL (run v k (P ++ [x])).sums + W)
    {k : Nat} (hk : 0 < k) (hkK : k ≤ K) {items : List α} {opt : Nat}
    (hopt : IsOptimalValue .maxSmallest k (items.map v) (-(opt : Int))) :
    (3 * k - 1) * opt ≤ (4 * k - 2) * minL (greedy v k items).sums := by
  obtain ⟨W, hW, Q, hQk, hQp, hQ⟩ := cover_of_opt hk hopt
  have hW' : W = opt := by exact_mod_cast hW
  subst hW'
  rw [greedy_eq_run]
  exact arith_final hk (run_maxmin_of_mixed K hmix k hk hkK (sortDesc v items) (Part.sortDesc_sorted v items) W Q
    hQk (hQp.trans ((Part.sortDesc_perm v items).map v).symm) hQ)

/-- non-vacuity of `greedy_maxmin_partial`: for `K = 3` its hypothesis is provable (`run_maxmin_two`,
    `run_maxmin_three`) -/
example : (3 * 3 - 1) * 10 ≤ (4 * 3 - 2) * minL (greedy id 3 [5, 5, 4, 4, 3, 3, 3, 3]).sums :=
  greedy_maxmin_partial (v := id) 3 (fun k h2 hK P x W Q hS hQk hQp hQ _ _ _ _ => by
    have hk23 : k = 2 ∨ k = 3 := by omega
    rcases hk23 with rfl | rfl
    · exact run_maxmin_two _ hS W Q hQk hQp hQ
    · exact run_maxmin_three _ hS W Q hQk hQp hQ) (by decide) (by decide) optmin_55443333

/-- **Max-min, ratio `3/4`, for at most three bins** (Deuermeyer–Friesen–Langston).

    Requested: `greedy_maxmin_partial_three_quarters` for every `k`, i.e.
      `3 * opt ≤ 4 * minL (greedy v k items).sums`   without the hypothesis `k ≤ 3`.
    For `k ≥ 4` this needs the mixed case of `run_maxmin_of_mixed` (large items whose bins are far above the
    smallest sum together with small items at the end of the list), which is not formalised. -/
theorem greedy_maxmin_partial_three_quarters {v : α → Nat} {k : Nat} {items : List α} (hk : 0 < k) (hk3 : k ≤ 3)
    {opt : Nat} (hopt : IsOptimalValue .maxSmallest k (items.map v) (-(opt : Int))) :
    3 * opt ≤ 4 * minL (greedy v k items).sums := by
  have key := greedy_maxmin_partial_2k_3k hk hopt
  have h : k = 1 ∨ k = 2 ∨ k = 3 := by omega
  rcases h with rfl | rfl | rfl <;> omega

example : 3 * 10 ≤ 4 * minL (greedy id 3 [5, 5, 4, 4, 3, 3, 3, 3]).sums :=
  greedy_maxmin_partial_three_quarters (v := id) (by decide) (by decide) optmin_55443333

end Prtpy.MaxMin3

/-
Axiom audit (Lean 4.33.0; output observed with the commands appended to a copy of this file):

#print axioms Prtpy.MaxMin3.greedy_maxmin_two
  -- 'Prtpy.MaxMin3.greedy_maxmin_two' depends on axioms: [propext, Classical.choice, Quot.sound]
#print axioms Prtpy.MaxMin3.greedy_maxmin_three
  -- 'Prtpy.MaxMin3.greedy_maxmin_three' depends on axioms: [propext, Classical.choice, Quot.sound]
#print axioms Prtpy.MaxMin3.greedy_maxmin_partial
  -- 'Prtpy.MaxMin3.greedy_maxmin_partial' depends on axioms: [propext, Classical.choice, Quot.sound]
#print axioms Prtpy.MaxMin3.greedy_maxmin_partial_large
  -- 'Prtpy.MaxMin3.greedy_maxmin_partial_large' depends on axioms: [propext, Classical.choice, Quot.sound]
#print axioms Prtpy.MaxMin3.greedy_maxmin_partial_half_plus
  -- 'Prtpy.MaxMin3.greedy_maxmin_partial_half_plus' depends on axioms: [propext, Classical.choice, Quot.sound]
#print axioms Prtpy.MaxMin3.greedy_maxmin_partial_three_quarters
  -- 'Prtpy.MaxMin3.greedy_maxmin_partial_three_quarters' depends on axioms: [propext, Classical.choice, Quot.sound]
#print axioms Prtpy.MaxMin3.run_maxmin_two
  -- 'Prtpy.MaxMin3.run_maxmin_two' depends on axioms: [propext, Classical.choice, Quot.sound]
#print axioms Prtpy.MaxMin3.run_maxmin_three
  -- 'Prtpy.MaxMin3.run_maxmin_three' depends on axioms: [propext, Classical.choice, Quot.sound]
#print axioms Prtpy.MaxMin3.run_maxmin_of_mixed
  -- 'Prtpy.MaxMin3.run_maxmin_of_mixed' depends on axioms: [propext, Classical.choice, Quot.sound]
#print axioms Prtpy.MaxMin3.run_large
  -- 'Prtpy.MaxMin3.run_large' depends on axioms: [propext, Classical.choice, Quot.sound]

Validation by evaluation (scratch file, not part of the build): with
  `checkOne k vals := (3k−1)·(−optValue .maxSmallest k vals) ≤ (4k−2)·minL (greedy id k vals).sums`
`#eval` found no violating multiset among all multisets of at most 9 values `≤ 10`, for `k = 2, 3, 4` (23 minutes);
an independent Python search over the same range found none either.
-/
