/-
  PrtpyProofs.MaxMin3 — property C08, the exact max-min guarantee of LPT (`greedy`), continued
  (see PrtpyProofs.MaxMin and PrtpyProofs.LPT43).
-/
import Mathlib.Tactic.Linarith
import Mathlib.Tactic.Ring
import Prtpy
import PrtpyProofs.Part
import PrtpyProofs.Oracle
import PrtpyProofs.Scale
import PrtpyProofs.LPT43
import PrtpyProofs.MaxMin
open Prtpy

namespace Prtpy.MaxMin3
open Prtpy.LPT43 Prtpy.MaxMin

variable {α : Type}

/-! ## 1. Two invariants of the LPT loop -/

/-- every proper prefix of every bin has a sum `≤` the current smallest sum
    (an item is only ever put on a least loaded bin, and the smallest sum never decreases) -/
def PrefInv (v : α → Nat) (b : Bins α) : Prop :=
  ∀ l ∈ b.lists, ∀ n, n < l.length → binSum v (l.take n) ≤ minL b.sums

theorem prefInv_step {v : α → Nat} {k : Nat} (hk : 0 < k) {b : Bins α} {done : List α}
    (hv : Part.Valid v k b done) (hinv : PrefInv v b) (x : α) : PrefInv v (greedyStep v b x) := by
  obtain ⟨hperm, hlists, hcons⟩ := hv
  have hlen : b.sums.length = k := by rw [Part.consistent_length v hcons, hlists]
  have hne : b.sums ≠ [] := by intro h0; rw [h0] at hlen; simp at hlen; omega
  have hlt := Part.argmin_lt hne
  have hmin : minL b.sums ≤ minL (greedyStep v b x).sums := minL_le_minL_modify_add _ _ _ hne
  intro l' hl' n hn
  rcases Part.mem_modify hl' with h | ⟨hi, rfl⟩
  · exact Nat.le_trans (hinv l' h n hn) hmin
  · have hsum : b.sums[argmin b.sums] = binSum v b.lists[argmin b.sums] := by
      have hc : b.sums = b.lists.map (binSum v) := hcons
      simp [hc]
    rw [Part.getElem_argmin hlt] at hsum
    simp only [List.length_append, List.length_cons, List.length_nil] at hn
    rcases Nat.lt_or_ge n (b.lists[argmin b.sums]).length with hlt' | hge
    · rw [List.take_append_of_le_length (by omega)]
      exact Nat.le_trans (hinv _ (List.getElem_mem hi) n hlt') hmin
    · have hn' : n = (b.lists[argmin b.sums]).length := by omega
      rw [hn', List.take_left']
      · rw [← hsum]; exact hmin
      · rfl

theorem run_prefInv (v : α → Nat) {k : Nat} (hk : 0 < k) (xs : List α) : PrefInv v (run v k xs) := by
  induction xs using Oracle.rev_induction with
  | nil =>
    intro l hl n hn
    simp only [run, List.foldl_nil, Bins.new, List.mem_replicate] at hl
    rw [hl.2] at hn; simp at hn
  | snoc P x ih =>
    rw [run_snoc]
    exact prefInv_step hk (run_valid v hk P) ih x

/-- every item that is not the first one of its bin has a value `≤ y` -/
def TailInv (v : α → Nat) (b : Bins α) (y : Nat) : Prop :=
  ∀ l ∈ b.lists, ∀ c ∈ l.tail, v c ≤ y

theorem tailInv_step {v : α → Nat} {k : Nat} (hk : 0 < k) {b : Bins α} {done : List α} {y : Nat}
    (hv : Part.Valid v k b done) (hinv : TailInv v b y) (x : α)
    (hx : v x ≤ y ∨ (done.length < k ∧ ∀ a ∈ done, v x ≤ v a)) : TailInv v (greedyStep v b x) y := by
  obtain ⟨hperm, hlists, hcons⟩ := hv
  have hlen : b.sums.length = k := by rw [Part.consistent_length v hcons, hlists]
  have hne : b.sums ≠ [] := by intro h0; rw [h0] at hlen; simp at hlen; omega
  have hlt := Part.argmin_lt hne
  intro l' hl' c hc
  rcases Part.mem_modify hl' with h | ⟨hi, rfl⟩
  · exact hinv l' h c hc
  · have hsum : b.sums[argmin b.sums] = binSum v b.lists[argmin b.sums] := by
      have hc : b.sums = b.lists.map (binSum v) := hcons
      simp [hc]
    rw [Part.getElem_argmin hlt] at hsum
    by_cases hxy : v x ≤ y
    · cases hl : b.lists[argmin b.sums] with
      | nil => rw [hl] at hc; simp at hc
      | cons a t =>
        rw [hl] at hc
        simp only [List.cons_append, List.tail_cons, List.mem_append, List.mem_cons, List.not_mem_nil,
          or_false] at hc
        rcases hc with hc | rfl
        · exact hinv _ (List.getElem_mem hi) c (by rw [hl]; simpa using hc)
        · exact hxy
    · obtain ⟨hd, hall⟩ : done.length < k ∧ ∀ a ∈ done, v x ≤ v a := by
        rcases hx with hx | hx
        · exact absurd hx hxy
        · exact hx
      have hnil : ([] : List α) ∈ b.lists :=
        nil_mem_of_flatten_lt b.lists (by rw [hperm.length_eq, hlists]; exact hd)
      have h0 : (0 : Nat) ∈ b.sums := by
        have hc : b.sums = b.lists.map (binSum v) := hcons
        rw [hc]; exact List.mem_map.2 ⟨[], hnil, rfl⟩
      have hm0 : minL b.sums = 0 := by have := Part.minL_le h0; omega
      have hempty : b.lists[argmin b.sums] = [] := by
        cases hl : b.lists[argmin b.sums] with
        | nil => rfl
        | cons a t =>
          exfalso
          have ha : a ∈ b.lists[argmin b.sums] := by rw [hl]; simp
          have h1 := le_binSum_of_mem v ha
          have h2 := hall a (hperm.mem_iff.1 (List.mem_flatten.2 ⟨_, List.getElem_mem hi, ha⟩))
          omega
      rw [hempty] at hc
      simp at hc

theorem run_tailInv {v : α → Nat} {k : Nat} (hk : 0 < k) {S : List α}
    (hS : S.Pairwise (fun a c => v c ≤ v a)) {y : Nat}
    (hy : ∀ j (h : j < S.length), k ≤ j → v S[j] ≤ y) :
    ∀ P rest, S = P ++ rest → TailInv v (run v k P) y := by
  intro P
  induction P using Oracle.rev_induction with
  | nil =>
    intro rest _ l hl
    simp only [run, List.foldl_nil, Bins.new, List.mem_replicate] at hl
    rw [hl.2]; simp
  | snoc P x ih =>
    intro rest hrest
    have hrest' : S = P ++ (x :: rest) := by rw [hrest]; simp
    rw [run_snoc]
    apply tailInv_step hk (run_valid v hk P) (ih _ hrest')
    by_cases hj : k ≤ P.length
    · left
      have := hy P.length (by rw [hrest']; simp) hj
      simpa [hrest'] using this
    · right
      refine ⟨by omega, ?_⟩
      rw [hrest'] at hS
      intro a ha
      exact (List.pairwise_append.1 hS).2.2 a ha x (by simp)

/-! ## 2. The counting argument -/

/-- weight of a bin (a list of values) in the counting argument: its cardinality, plus one for every member
    `≥ W/2`, plus one for every member `≥ W` -/
def wt (W : Nat) (g : List Nat) : Nat :=
  g.length + g.countP (fun u => decide (W ≤ 2 * u)) + g.countP (fun u => decide (W ≤ u))

theorem wt_append (W : Nat) (g₁ g₂ : List Nat) : wt W (g₁ ++ g₂) = wt W g₁ + wt W g₂ := by
  simp only [wt, List.length_append, List.countP_append]; omega

theorem wt_perm (W : Nat) {g₁ g₂ : List Nat} (h : g₁.Perm g₂) : wt W g₁ = wt W g₂ := by
  simp only [wt, h.length_eq, h.countP_eq]

theorem wt_flatten (W : Nat) (Ls : List (List Nat)) : wt W Ls.flatten = sumL (Ls.map (wt W)) := by
  induction Ls with
  | nil => simp [wt, sumL]
  | cons l Ls ih => simp only [List.flatten_cons, wt_append, List.map_cons, sumL, ih]

/-- a covered bin weighs at least three: it holds a member `≥ W`, or two members one of which is `≥ W/2`,
    or three members -/
theorem wt_cover {W : Nat} (hW : 0 < W) : ∀ g : List Nat, W ≤ sumL g → 3 ≤ wt W g
  | [], h => by simp [sumL] at h; omega
  | [u], h => by
    simp only [sumL] at h
    have e1 : decide (W ≤ 2 * u) = true := by simp; omega
    have e2 : decide (W ≤ u) = true := by simp; omega
    simp [wt, e1, e2]
  | [u, u'], h => by
    simp only [sumL] at h
    by_cases hu : W ≤ 2 * u
    · have e1 : decide (W ≤ 2 * u) = true := by simpa using hu
      simp only [wt, List.length_cons, List.length_nil, List.countP_cons, e1, if_true]
      omega
    · have e1 : decide (W ≤ 2 * u') = true := by simp; omega
      simp only [wt, List.length_cons, List.length_nil, List.countP_cons, e1, if_true]
      omega
  | _ :: _ :: _ :: _, _ => by simp only [wt, List.length_cons]; omega

theorem sumL_add_one_le_three : ∀ (l : List Nat), (∀ a ∈ l, a ≤ 3) → (∃ m ∈ l, m ≤ 2) →
    sumL l + 1 ≤ 3 * l.length
  | [], _, h => by obtain ⟨m, hm, _⟩ := h; cases hm
  | a :: l, h, hm => by
    have h1 := h a List.mem_cons_self
    have h2 : sumL l ≤ 3 * l.length := by
      have := sumL_le_length_mul (B := 3) l (fun s hs => h s (List.mem_cons_of_mem _ hs))
      omega
    obtain ⟨m, hm, hm2⟩ := hm
    simp only [sumL, List.length_cons]
    rcases List.mem_cons.1 hm with rfl | hm
    · omega
    · have := sumL_add_one_le_three l (fun s hs => h s (List.mem_cons_of_mem _ hs)) ⟨m, hm, hm2⟩
      omega

/-- **Counting core.**  `k ≥ 1` bins `LL` of weight `≤ 3` each, one of them of weight `≤ 2`, cannot hold the same
    values as `k` bins of weight `≥ 3` each. -/
theorem count_core {W k : Nat} {vals : List Nat} (LL Q : List (List Nat)) (hk : LL.length = k)
    (hp : LL.flatten.Perm vals) (hQk : Q.length = k) (hQp : Q.flatten.Perm vals)
    (hQ : ∀ g ∈ Q, 3 ≤ wt W g) (hLL : ∀ l ∈ LL, wt W l ≤ 3) (hmin : ∃ l ∈ LL, wt W l ≤ 2) : False := by
  have h1 : 3 * Q.length ≤ sumL (Q.map (wt W)) := by
    have := Part.length_mul_le_sumL (Q.map (wt W)) 3 0 (fun a ha => by
      obtain ⟨g, hg, rfl⟩ := List.mem_map.1 ha
      have := hQ g hg; omega)
    simp only [List.length_map] at this
    omega
  have h2 : sumL (LL.map (wt W)) + 1 ≤ 3 * (LL.map (wt W)).length :=
    sumL_add_one_le_three _ (fun a ha => by
      obtain ⟨l, hl, rfl⟩ := List.mem_map.1 ha
      exact hLL l hl) (by
      obtain ⟨l, hl, h⟩ := hmin
      exact ⟨wt W l, List.mem_map_of_mem hl, h⟩)
  rw [← wt_flatten, wt_perm W hQp] at h1
  rw [← wt_flatten, wt_perm W hp, List.length_map] at h2
  omega

/-- the weight of a bin of the LPT loop: at most three, and at most two for a bin of smallest sum.
    `L` is the smallest sum (`hpre` is `PrefInv`), the items after the first one are `< W/2` (`htail`), all items
    exceed `t`, and `2·L < W + 2·t ≤ 6·t`. -/
theorem wt_bin {v : α → Nat} {W t L : Nat} (h2L : 2 * L < W + 2 * t) (hWt : W ≤ 4 * t) (htW : 2 * t ≤ W) :
    ∀ l : List α, (∀ n, n < l.length → binSum v (l.take n) ≤ L) → (∀ c ∈ l.tail, 2 * v c < W) →
      (∀ c ∈ l, t < v c) → wt W (l.map v) ≤ 3 ∧ (binSum v l ≤ L → wt W (l.map v) ≤ 2)
  | [], _, _, _ => by simp [wt]
  | [a], _, _, _ => by
    have c1 := List.countP_le_length (p := fun u => decide (W ≤ 2 * u)) (l := [v a])
    have c2 := List.countP_le_length (p := fun u => decide (W ≤ u)) (l := [v a])
    simp only [List.length_cons, List.length_nil] at c1 c2
    refine ⟨by simp only [wt, List.map_cons, List.map_nil, List.length_cons, List.length_nil]; omega, ?_⟩
    intro hle
    simp only [binSum, List.map_cons, List.map_nil, sumL] at hle
    have e2 : decide (W ≤ v a) = false := by simp; omega
    by_cases h4 : W ≤ 2 * v a
    · have e4 : decide (W ≤ 2 * v a) = true := by simpa using h4
      simp [wt, e2, e4]
    · have e4 : decide (W ≤ 2 * v a) = false := by simpa using h4
      simp [wt, e2, e4]
  | [a, c], hpre, htail, hbig => by
    have h1 := hpre 1 (by simp)
    simp only [List.take_succ_cons, List.take_zero, binSum, List.map_cons, List.map_nil, sumL] at h1
    have h2 := htail c (by simp)
    have h3 := hbig c (by simp)
    have e1 : decide (W ≤ v a) = false := by simp; omega
    have e2 : decide (W ≤ 2 * v c) = false := by simp; omega
    have e3 : decide (W ≤ v c) = false := by simp; omega
    constructor
    · by_cases h4 : W ≤ 2 * v a
      · have e4 : decide (W ≤ 2 * v a) = true := by simpa using h4
        simp [wt, e1, e2, e3, e4]
      · have e4 : decide (W ≤ 2 * v a) = false := by simpa using h4
        simp [wt, e1, e2, e3, e4]
    · intro hle
      simp only [binSum, List.map_cons, List.map_nil, sumL] at hle
      have e4 : decide (W ≤ 2 * v a) = false := by simp; omega
      simp [wt, e1, e2, e3, e4]
  | [a, b, c], hpre, htail, hbig => by
    have h1 := hpre 2 (by simp)
    simp only [List.take_succ_cons, List.take_zero, binSum, List.map_cons, List.map_nil, sumL] at h1
    have h2 := htail c (by simp)
    have h2' := htail b (by simp)
    have h3 := hbig c (by simp)
    have h3' := hbig b (by simp)
    have e1 : decide (W ≤ v a) = false := by simp; omega
    have e2 : decide (W ≤ 2 * v c) = false := by simp; omega
    have e3 : decide (W ≤ v c) = false := by simp; omega
    have e4 : decide (W ≤ 2 * v a) = false := by simp; omega
    have e5 : decide (W ≤ 2 * v b) = false := by simp; omega
    have e6 : decide (W ≤ v b) = false := by simp; omega
    constructor
    · simp [wt, e1, e2, e3, e4, e5, e6]
    · intro hle
      simp only [binSum, List.map_cons, List.map_nil, sumL] at hle
      have h3'' := hbig a (by simp)
      omega
  | a :: b :: c :: d :: r, hpre, _, hbig => by
    exfalso
    have h1 := hpre 3 (by simp)
    simp only [List.take_succ_cons, List.take_zero, binSum, List.map_cons, List.map_nil, sumL] at h1
    have h3 := hbig a (by simp)
    have h4 := hbig b (by simp)
    have h5 := hbig c (by simp)
    omega

/-! ## 3. All items large: `2·L ≥ W + 2·t` -/

/-- the case without peeling: the `(k+1)`-th value is below `W/2` -/
theorem run_large_core {v : α → Nat} {k : Nat} (hk : 0 < k) {xs : List α}
    (hS : xs.Pairwise (fun a c => v c ≤ v a)) {W t : Nat} (Q : List (List Nat)) (hQk : Q.length = k)
    (hQp : Q.flatten.Perm (xs.map v)) (hQ : ∀ l ∈ Q, W ≤ sumL l) (hbig : ∀ x ∈ xs, t < v x)
    (hWt : W ≤ 4 * t) (htW : 2 * t ≤ W) (hy : 2 * (xs.map v).getD k 0 < W) :
    W + 2 * t ≤ 2 * minL (run v k xs).sums := by
  apply Classical.byContradiction
  intro hcon
  have h2L : 2 * minL (run v k xs).sums < W + 2 * t := by omega
  have hW : 0 < W := by omega
  obtain ⟨h1, h2, h3⟩ := run_valid v hk xs
  have hc : (run v k xs).sums = (run v k xs).lists.map (binSum v) := h3
  have hpref := run_prefInv v hk xs
  have htail := run_tailInv hk hS (getD_spec v k hS) xs [] (by simp)
  have hne := run_sums_ne_nil v hk xs
  have hmem := Part.minL_mem hne
  rw [hc] at hmem
  obtain ⟨l₀, hl₀, e₀⟩ := List.mem_map.1 hmem
  rw [← hc] at e₀
  have hbin : ∀ l ∈ (run v k xs).lists, wt W (l.map v) ≤ 3 ∧
      (binSum v l ≤ minL (run v k xs).sums → wt W (l.map v) ≤ 2) := fun l hl =>
    wt_bin h2L hWt htW l (hpref l hl) (fun c hc' => by have := htail l hl c hc'; omega)
      (fun c hc' => hbig c (h1.mem_iff.1 (List.mem_flatten.2 ⟨l, hl, hc'⟩)))
  exact count_core (W := W) (k := k) (vals := xs.map v) ((run v k xs).lists.map (List.map v)) Q
    (by simpa using h2) (by rw [← List.map_flatten]; exact h1.map v) hQk hQp
    (fun g hg => wt_cover hW g (hQ g hg))
    (fun l' hl' => by
      obtain ⟨l, hl, rfl⟩ := List.mem_map.1 hl'
      exact (hbin l hl).1)
    ⟨l₀.map v, List.mem_map_of_mem hl₀, (hbin l₀ hl₀).2 (by omega)⟩

/-- **All items large.**  For the LPT loop on an ordered list all of whose values exceed `t`, where
    `W/4 ≤ t ≤ W/2` and the values can be split into `k` bins of sum `≥ W`:  `L ≥ W/2 + t`
    (`L` the smallest sum of LPT).

    Induction on `k`.  If the `(k+1)`-th value is `≥ W/2 > L/2` the first pair is peeled (`peel_first_pair`).
    Otherwise count: with `L < W/2 + t ≤ 3t` every LPT bin holds at most three items; a bin of three items holds
    no item `≥ W/2`, a bin of two items at most one, a bin of smallest sum none.  So the weight
    `#items + #{items ≥ W/2} + #{items ≥ W}` of an LPT bin is `≤ 3`, and `≤ 2` for a bin of smallest sum, whereas
    every bin of sum `≥ W` has weight `≥ 3`. -/
theorem run_large {v : α → Nat} : ∀ (k : Nat), 0 < k → ∀ (xs : List α),
    xs.Pairwise (fun a c => v c ≤ v a) → ∀ (W t : Nat) (Q : List (List Nat)), Q.length = k →
    Q.flatten.Perm (xs.map v) → (∀ l ∈ Q, W ≤ sumL l) → (∀ x ∈ xs, t < v x) → W ≤ 4 * t → 2 * t ≤ W →
    W + 2 * t ≤ 2 * minL (run v k xs).sums := by
  intro k
  induction k with
  | zero => intro h; omega
  | succ k' ih =>
    intro hk xs hS W t Q hQk hQp hQ hbig hWt htW
    by_cases hy : 2 * (xs.map v).getD (k' + 1) 0 < W
    · exact run_large_core hk hS Q hQk hQp hQ hbig hWt htW hy
    · have hsp := run_spread hk hS Q hQk hQp hQ
      by_cases hk' : k' = 0
      · subst hk'
        simp only [Nat.zero_add, Nat.one_mul] at hsp ⊢
        omega
      · apply Classical.byContradiction
        intro hcon
        have hklt : k' + 1 < xs.length := by
          apply Nat.lt_of_not_le
          intro hle
          have : (xs.map v)[k' + 1]? = none := List.getElem?_eq_none (by simpa using hle)
          simp [List.getD_eq_getElem?_getD, this] at hy
          omega
        have ey : (xs.map v).getD (k' + 1) 0 = v xs[k' + 1] := by
          simp [List.getD_eq_getElem?_getD, hklt]
        rw [ey] at hy
        have hk'pos : 0 < k' := Nat.pos_of_ne_zero hk'
        obtain ⟨ys, hsub, hL', _, Q', hQ'k, hQ'p, hQ'⟩ :=
          peel_first_pair hk'pos hS hklt (by omega) Q hQk hQp hQ
        have key := ih hk'pos ys (hS.sublist hsub) W t Q' hQ'k hQ'p hQ'
          (fun x hx => hbig x (hsub.subset hx)) hWt htW
        rw [hL'] at key
        exact hcon key

/-- the exact constant when every value exceeds `k·W/(4k−2)` (`run_large` for the values multiplied by `4k−2`,
    with `t = k·W`) -/
theorem run_large_exact {v : α → Nat} {k : Nat} (hk : 0 < k) {xs : List α}
    (hS : xs.Pairwise (fun a c => v c ≤ v a)) {W : Nat} (Q : List (List Nat)) (hQk : Q.length = k)
    (hQp : Q.flatten.Perm (xs.map v)) (hQ : ∀ l ∈ Q, W ≤ sumL l)
    (hbig : ∀ x ∈ xs, k * W < (4 * k - 2) * v x) :
    3 * k * W + 2 * minL (run v k xs).sums ≤ 4 * k * minL (run v k xs).sums + W := by
  obtain ⟨k', rfl⟩ : ∃ k', k = k' + 1 := ⟨k - 1, by omega⟩
  have hc : 0 < 4 * (k' + 1) - 2 := by omega
  have hrun : run (fun a => (4 * (k' + 1) - 2) * v a) (k' + 1) xs =
      Scale.scaleBins (4 * (k' + 1) - 2) (run v (k' + 1) xs) := by
    unfold run
    rw [← Scale.foldl_greedyStep_scale v hc, Scale.new_scale]
  have key := run_large (v := fun a => (4 * (k' + 1) - 2) * v a) (k' + 1) hk xs
    (hS.imp (fun h => Nat.mul_le_mul_left _ h)) ((4 * (k' + 1) - 2) * W) ((k' + 1) * W)
    (Q.map (List.map ((4 * (k' + 1) - 2) * ·))) (by simpa using hQk)
    (by
      rw [← List.map_flatten]
      have := hQp.map ((4 * (k' + 1) - 2) * ·)
      rw [List.map_map] at this
      exact this)
    (by
      intro l' hl'
      obtain ⟨l, hl, rfl⟩ := List.mem_map.1 hl'
      rw [Scale.sumL_map_mul]
      exact Nat.mul_le_mul_left _ (hQ l hl))
    hbig
    (by
      have e : 4 * (k' + 1) - 2 = 4 * k' + 2 := by omega
      rw [e]; nlinarith)
    (by
      have e : 4 * (k' + 1) - 2 = 4 * k' + 2 := by omega
      rw [e]; nlinarith)
  rw [hrun, Scale.scaleBins_sums, Scale.minL_map_mul] at key
  have e : 4 * (k' + 1) - 2 = 4 * k' + 2 := by omega
  rw [e] at key
  nlinarith

/-! ## 4. Induction over the prefixes: the last item lands on the bin of smallest final sum -/

/-- remove a value from a cover: the level drops by at most that value -/
theorem cover_remove {W z k : Nat} {vals : List Nat} (Q : List (List Nat)) (hQk : Q.length = k)
    (hQp : Q.flatten.Perm (vals ++ [z])) (hQ : ∀ l ∈ Q, W ≤ sumL l) :
    ∃ Q' : List (List Nat), Q'.length = k ∧ Q'.flatten.Perm vals ∧ ∀ l ∈ Q', W - z ≤ sumL l := by
  obtain ⟨l, hl, hzl⟩ := List.mem_flatten.1 ((hQp.mem_iff (a := z)).2 (by simp))
  have pQ := List.perm_cons_erase hl
  have pz := List.perm_cons_erase hzl
  refine ⟨l.erase z :: Q.erase l, ?_, ?_, ?_⟩
  · have := pQ.length_eq; simp only [List.length_cons] at this ⊢; omega
  · have h1 : Q.flatten.Perm (z :: (l.erase z ++ (Q.erase l).flatten)) := by
      refine pQ.flatten.trans ?_
      simp only [List.flatten_cons]
      exact pz.append_right _
    have h2 : (vals ++ [z]).Perm (z :: vals) := by simp
    simpa using (h1.symm.trans (hQp.trans h2)).cons_inv
  · intro l' hl'
    rcases List.mem_cons.1 hl' with rfl | hl'
    · have := hQ l hl
      rw [Part.sumL_perm pz, sumL_cons] at this
      omega
    · have := hQ l' (List.mem_of_mem_erase hl'); omega

/-- **The last item lands on the bin of smallest final sum.**  If the bound holds for `P` (against every cover)
    and the smallest sum after the next item `x` is the old smallest sum plus `x`, the bound holds for
    `P ++ [x]`: the cover loses at most `x`, LPT's smallest sum gains exactly `x`. -/
theorem run_snoc_onmin {v : α → Nat} {k : Nat} (hk : 0 < k) (P : List α) (x : α) {W : Nat}
    (Q : List (List Nat)) (hQk : Q.length = k) (hQp : Q.flatten.Perm ((P ++ [x]).map v))
    (hQ : ∀ l ∈ Q, W ≤ sumL l)
    (ih : ∀ (W' : Nat) (Q' : List (List Nat)), Q'.length = k → Q'.flatten.Perm (P.map v) →
      (∀ l ∈ Q', W' ≤ sumL l) →
      3 * k * W' + 2 * minL (run v k P).sums ≤ 4 * k * minL (run v k P).sums + W')
    (hT : minL (run v k (P ++ [x])).sums = minL (run v k P).sums + v x) :
    3 * k * W + 2 * minL (run v k (P ++ [x])).sums ≤ 4 * k * minL (run v k (P ++ [x])).sums + W := by
  obtain ⟨Q', hQ'k, hQ'p, hQ'⟩ := cover_remove (z := v x) (vals := P.map v) Q hQk (by simpa using hQp) hQ
  have key := ih (W - v x) Q' hQ'k hQ'p hQ'
  rw [hT]
  obtain ⟨k', rfl⟩ : ∃ k', k = k' + 1 := ⟨k - 1, by omega⟩
  rcases Nat.lt_or_ge (v x) W with hlt | hge
  · obtain ⟨W', rfl⟩ : ∃ W', W = W' + v x := ⟨W - v x, by omega⟩
    rw [Nat.add_sub_cancel] at key
    nlinarith
  · nlinarith

/-! ## 5. Two bins -/

theorem cover_nil_level {W k : Nat} (hk : 0 < k) (Q : List (List Nat)) (hQk : Q.length = k)
    (hQp : Q.flatten.Perm []) (hQ : ∀ l ∈ Q, W ≤ sumL l) : W = 0 := by
  match Q, hQk with
  | [], h => simp at h; omega
  | l :: Q', _ =>
    have hl : l = [] := by
      cases l with
      | nil => rfl
      | cons a t =>
        have : a ∈ (([] : List Nat)) := hQp.mem_iff.1 (by simp)
        cases this
    have := hQ l (by simp)
    rw [hl] at this
    simpa [sumL] using this

/-- the new smallest sum after one step on two bins -/
theorem two_bins_step {s : List Nat} (hs : s.length = 2) (j a m : Nat) (hj : j < 2)
    (hm : s[j]'(by omega) = m) (hle : ∀ u ∈ s, m ≤ u)
    (hne : minL (s.modify j (· + a)) ≠ m + a) :
    ∀ u ∈ s.modify j (· + a), u ≤ minL (s.modify j (· + a)) + a := by
  match s, hs with
  | [s0, s1], _ =>
    have h0 := hle s0 (by simp)
    have h1 := hle s1 (by simp)
    match j, hj with
    | 0, _ =>
      simp only [List.getElem_cons_zero] at hm
      subst hm
      simp only [List.modify_zero_cons, minL] at hne ⊢
      intro u hu
      simp only [List.mem_cons, List.not_mem_nil, or_false] at hu
      rcases hu with rfl | rfl <;> omega
    | 1, _ =>
      simp only [List.getElem_cons_succ, List.getElem_cons_zero] at hm
      subst hm
      simp only [List.modify_succ_cons, List.modify_zero_cons, minL] at hne ⊢
      intro u hu
      simp only [List.mem_cons, List.not_mem_nil, or_false] at hu
      rcases hu with rfl | rfl <;> omega

/-- **Two bins, exact constant `5/6`** for the LPT loop on an ordered list, against an arbitrary cover.

    Induction over the prefixes.  Let `x` be the last (smallest) item.
    * the smallest sum grows by `x`: `run_snoc_onmin`;
    * otherwise the bin that received `x` exceeds the other one (which has the smallest sum `L`) by at most `x`:
      if `6·x ≤ 2·W` this is the certificate `run_maxmin_cert`; if `6·x > 2·W` all items are large: `run_large_exact`. -/
theorem run_maxmin_two {v : α → Nat} : ∀ (xs : List α), xs.Pairwise (fun a c => v c ≤ v a) →
    ∀ (W : Nat) (Q : List (List Nat)), Q.length = 2 → Q.flatten.Perm (xs.map v) → (∀ l ∈ Q, W ≤ sumL l) →
    3 * 2 * W + 2 * minL (run v 2 xs).sums ≤ 4 * 2 * minL (run v 2 xs).sums + W := by
  intro xs
  induction xs using Oracle.rev_induction with
  | nil =>
    intro _ W Q hQk hQp hQ
    have := cover_nil_level (by decide) Q hQk (by simpa using hQp) hQ
    omega
  | snoc P x ih =>
    intro hS W Q hQk hQp hQ
    have hk : 0 < 2 := by decide
    obtain ⟨hSP, _, hPx⟩ := List.pairwise_append.1 hS
    by_cases hT : minL (run v 2 (P ++ [x])).sums = minL (run v 2 P).sums + v x
    · exact run_snoc_onmin hk P x Q hQk hQp hQ (fun W' Q' h1 h2 h3 => ih hSP W' Q' h1 h2 h3) hT
    · by_cases hx : (4 * 2 - 2) * v x ≤ 2 * W
      · -- certificate
        refine run_maxmin_cert hk Q hQk hQp hQ (v x) ?_ hx
        intro l hl
        right
        obtain ⟨_, _, hcons⟩ := run_valid v hk (P ++ [x])
        have hc : (run v 2 (P ++ [x])).sums = (run v 2 (P ++ [x])).lists.map (binSum v) := hcons
        have hmem : binSum v l ∈ (run v 2 (P ++ [x])).sums := by rw [hc]; exact List.mem_map_of_mem hl
        have hne := run_sums_ne_nil v hk P
        have hlt := Part.argmin_lt hne
        have hlen := run_sums_length v hk P
        rw [run_snoc] at hmem hT ⊢
        simp only [greedyStep, Part.add_sums] at hmem hT ⊢
        exact two_bins_step hlen _ _ _ (by omega) (Part.getElem_argmin hlt)
          (fun u hu => Part.minL_le hu) hT _ hmem
      · -- all items are large
        refine run_large_exact hk hS Q hQk hQp hQ ?_
        intro a ha
        have hax : v x ≤ v a := by
          rcases List.mem_append.1 ha with ha | ha
          · exact hPx a ha x (by simp)
          · simp at ha; rw [ha]
        have := Nat.mul_le_mul_left (4 * 2 - 2) hax
        omega

/-! ## 6. Statements about `greedy` -/

/-- **C08 for two bins (Csirik–Kellerer–Woeginger, `k = 2`)**: LPT's smallest sum is at least `5/6` of the optimal
    smallest sum. -/
theorem greedy_maxmin_two {v : α → Nat} {items : List α} {opt : Nat}
    (hopt : IsOptimalValue .maxSmallest 2 (items.map v) (-(opt : Int))) :
    5 * opt ≤ 6 * minL (greedy v 2 items).sums := by
  obtain ⟨W, hW, Q, hQk, hQp, hQ⟩ := cover_of_opt (by decide) hopt
  have hW' : W = opt := by exact_mod_cast hW
  subst hW'
  have key := run_maxmin_two (v := v) (sortDesc v items) (Part.sortDesc_sorted v items) W Q hQk
    (hQp.trans ((Part.sortDesc_perm v items).map v).symm) hQ
  rw [greedy_eq_run]
  omega

/-- non-vacuity and tightness: `[3, 3, 2, 2, 2]`, optimal smallest sum `6`, LPT's smallest sum `5`: `5·6 = 6·5` -/
example : 5 * 6 ≤ 6 * minL (greedy id 2 [3, 3, 2, 2, 2]).sums :=
  greedy_maxmin_two (v := id) optmin_33222
example : 5 * 6 = 6 * minL (greedy id 2 [3, 3, 2, 2, 2]).sums := by decide

/-- **All items large: the exact constant for every number of bins.**  If every item exceeds
    `k·OPT/(4k−2)`, then `(3k−1)·OPT ≤ (4k−2)·(smallest sum of LPT)`.  (Together with
    `MaxMin.greedy_maxmin_partial_cert` — all *last* items of the bins with at least two items small — this leaves
    open only the mixed case.) -/
theorem greedy_maxmin_partial_large {v : α → Nat} {k : Nat} {items : List α} (hk : 0 < k) {opt : Nat}
    (hopt : IsOptimalValue .maxSmallest k (items.map v) (-(opt : Int)))
    (hbig : ∀ x ∈ items, k * opt < (4 * k - 2) * v x) :
    (3 * k - 1) * opt ≤ (4 * k - 2) * minL (greedy v k items).sums := by
  obtain ⟨W, hW, Q, hQk, hQp, hQ⟩ := cover_of_opt hk hopt
  have hW' : W = opt := by exact_mod_cast hW
  subst hW'
  rw [greedy_eq_run]
  exact arith_final hk (run_large_exact hk (Part.sortDesc_sorted v items) Q hQk
    (hQp.trans ((Part.sortDesc_perm v items).map v).symm) hQ
    (fun x hx => hbig x ((Part.sortDesc_perm v items).mem_iff.1 hx)))

/-- **All items above `t`, `OPT/4 ≤ t ≤ OPT/2`**: LPT's smallest sum is at least `OPT/2 + t`, for every number of
    bins. -/
theorem greedy_maxmin_partial_half_plus {v : α → Nat} {k : Nat} {items : List α} (hk : 0 < k) {opt : Nat}
    (hopt : IsOptimalValue .maxSmallest k (items.map v) (-(opt : Int))) (t : Nat)
    (hbig : ∀ x ∈ items, t < v x) (h1 : opt ≤ 4 * t) (h2 : 2 * t ≤ opt) :
    opt + 2 * t ≤ 2 * minL (greedy v k items).sums := by
  obtain ⟨W, hW, Q, hQk, hQp, hQ⟩ := cover_of_opt hk hopt
  have hW' : W = opt := by exact_mod_cast hW
  subst hW'
  rw [greedy_eq_run]
  exact run_large k hk (sortDesc v items) (Part.sortDesc_sorted v items) W t Q hQk
    (hQp.trans ((Part.sortDesc_perm v items).map v).symm) hQ
    (fun x hx => hbig x ((Part.sortDesc_perm v items).mem_iff.1 hx)) h1 h2

/-- non-vacuity: `[10, 10, 7, 7, 7]` on two bins: `OPT = 20`, every item exceeds `2·20/6`; LPT's smallest sum is
    `17`: `5·20 = 100 ≤ 102 = 6·17` -/
theorem optmin_10_10_7_7_7 : IsOptimalValue .maxSmallest 2 ([10, 10, 7, 7, 7].map id) (-((20 : Nat) : Int)) := by
  refine ⟨⟨[0, 0, 1, 1, 1], ⟨rfl, by decide⟩, by decide⟩, ?_⟩
  intro asg hasg
  obtain ⟨Q, hQk, hQp, hQs⟩ := assignment_partition hasg
  have h1 := length_mul_minL_le (sumsOf 2 ([10, 10, 7, 7, 7].map id) asg)
  rw [← hQs, ← sumL_flatten, Part.sumL_perm hQp, List.length_map, hQk] at h1
  simp only [Objective.value, Bool.false_eq_true, if_false]
  have : sumL ([10, 10, 7, 7, 7].map id) = 41 := by decide
  rw [← hQs]
  omega

example : (3 * 2 - 1) * 20 ≤ (4 * 2 - 2) * minL (greedy id 2 [10, 10, 7, 7, 7]).sums :=
  greedy_maxmin_partial_large (v := id) (by decide) optmin_10_10_7_7_7 (by decide)
example : 20 + 2 * 6 ≤ 2 * minL (greedy id 2 [10, 10, 7, 7, 7]).sums :=
  greedy_maxmin_partial_half_plus (v := id) (by decide) optmin_10_10_7_7_7 6 (by decide) (by decide) (by decide)
example : 5 * 20 ≤ 6 * minL (greedy id 2 [10, 10, 7, 7, 7]).sums :=
  greedy_maxmin_two (v := id) optmin_10_10_7_7_7

end Prtpy.MaxMin3
