/-
  PrtpyProofs.MaxMin3 — property C08, the exact max-min guarantee of LPT (`greedy`), continued
  (see PrtpyProofs.MaxMin and PrtpyProofs.LPT43).
-/
import Mathlib.Tactic.Linarith
import Mathlib.Tactic.Ring
import Prtpy
import PrtpyProofs.Part
import PrtpyProofs.Oracle
import PrtpyProofs.Scale
import PrtpyProofs.LPT43
import PrtpyProofs.MaxMin
open Prtpy

namespace Prtpy.MaxMin3
open Prtpy.LPT43 Prtpy.MaxMin

variable {α : Type}

/-! ## 1. Two invariants of the LPT loop -/

/-- every proper prefix of every bin has a sum `≤` the current smallest sum
    (an item is only ever put on a least loaded bin, and the smallest sum never decreases) -/
def PrefInv (v : α → Nat) (b : Bins α) : Prop :=
  ∀ l ∈ b.lists, ∀ n, n < l.length → binSum v (l.take n) ≤ minL b.sums

theorem prefInv_step {v : α → Nat} {k : Nat} (hk : 0 < k) {b : Bins α} {done : List α}
    (hv : Part.Valid v k b done) (hinv : PrefInv v b) (x : α) : PrefInv v (greedyStep v b x) := by
  obtain ⟨hperm, hlists, hcons⟩ := hv
  have hlen : b.sums.length = k := by rw [Part.consistent_length v hcons, hlists]
  have hne : b.sums ≠ [] := by intro h0; rw [h0] at hlen; simp at hlen; omega
  have hlt := Part.argmin_lt hne
  have hmin : minL b.sums ≤ minL (greedyStep v b x).sums := minL_le_minL_modify_add _ _ _ hne
  intro l' hl' n hn
  rcases Part.mem_modify hl' with h | ⟨hi, rfl⟩
  · exact Nat.le_trans (hinv l' h n hn) hmin
  · have hsum : b.sums[argmin b.sums] = binSum v b.lists[argmin b.sums] := by
      have hc : b.sums = b.lists.map (binSum v) := hcons
      simp [hc]
    rw [Part.getElem_argmin hlt] at hsum
    simp only [List.length_append, List.length_cons, List.length_nil] at hn
    rcases Nat.lt_or_ge n (b.lists[argmin b.sums]).length with hlt' | hge
    · rw [List.take_append_of_le_length (by omega)]
      exact Nat.le_trans (hinv _ (List.getElem_mem hi) n hlt') hmin
    · have hn' : n = (b.lists[argmin b.sums]).length := by omega
      rw [hn', List.take_left']
      · rw [← hsum]; exact hmin
      · rfl

theorem run_prefInv (v : α → Nat) {k : Nat} (hk : 0 < k) (xs : List α) : PrefInv v (run v k xs) := by
  induction xs using Oracle.rev_induction with
  | nil =>
    intro l hl n hn
    simp only [run, List.foldl_nil, Bins.new, List.mem_replicate] at hl
    rw [hl.2] at hn; simp at hn
  | snoc P x ih =>
    rw [run_snoc]
    exact prefInv_step hk (run_valid v hk P) ih x

/-- every item that is not the first one of its bin has a value `≤ y` -/
def TailInv (v : α → Nat) (b : Bins α) (y : Nat) : Prop :=
  ∀ l ∈ b.lists, ∀ c ∈ l.tail, v c ≤ y

theorem tailInv_step {v : α → Nat} {k : Nat} (hk : 0 < k) {b : Bins α} {done : List α} {y : Nat}
    (hv : Part.Valid v k b done) (hinv : TailInv v b y) (x : α)
    (hx : v x ≤ y ∨ (done.length < k ∧ ∀ a ∈ done, v x ≤ v a)) : TailInv v (greedyStep v b x) y := by
  obtain ⟨hperm, hlists, hcons⟩ := hv
  have hlen : b.sums.length = k := by rw [Part.consistent_length v hcons, hlists]
  have hne : b.sums ≠ [] := by intro h0; rw [h0] at hlen; simp at hlen; omega
  have hlt := Part.argmin_lt hne
  intro l' hl' c hc
  rcases Part.mem_modify hl' with h | ⟨hi, rfl⟩
  · exact hinv l' h c hc
  · have hsum : b.sums[argmin b.sums] = binSum v b.lists[argmin b.sums] := by
      have hc : b.sums = b.lists.map (binSum v) := hcons
      simp [hc]
    rw [Part.getElem_argmin hlt] at hsum
    by_cases hxy : v x ≤ y
    · cases hl : b.lists[argmin b.sums] with
      | nil => rw [hl] at hc; simp at hc
      | cons a t =>
        rw [hl] at hc
        simp only [List.cons_append, List.tail_cons, List.mem_append, List.mem_cons, List.not_mem_nil,
          or_false] at hc
        rcases hc with hc | rfl
        · exact hinv _ (List.getElem_mem hi) c (by rw [hl]; simpa using hc)
        · exact hxy
    · obtain ⟨hd, hall⟩ : done.length < k ∧ ∀ a ∈ done, v x ≤ v a := by
        rcases hx with hx | hx
        · exact absurd hx hxy
        · exact hx
      have hnil : ([] : List α) ∈ b.lists :=
        nil_mem_of_flatten_lt b.lists (by rw [hperm.length_eq, hlists]; exact hd)
      have h0 : (0 : Nat) ∈ b.sums := by
        have hc : b.sums = b.lists.map (binSum v) := hcons
        rw [hc]; exact List.mem_map.2 ⟨[], hnil, rfl⟩
      have hm0 : minL b.sums = 0 := by have := Part.minL_le h0; omega
      have hempty : b.lists[argmin b.sums] = [] := by
        cases hl : b.lists[argmin b.sums] with
        | nil => rfl
        | cons a t =>
          exfalso
          have ha : a ∈ b.lists[argmin b.sums] := by rw [hl]; simp
          have h1 := le_binSum_of_mem v ha
          have h2 := hall a (hperm.mem_iff.1 (List.mem_flatten.2 ⟨_, List.getElem_mem hi, ha⟩))
          omega
      rw [hempty] at hc
      simp at hc

theorem run_tailInv {v : α → Nat} {k : Nat} (hk : 0 < k) {S : List α}
    (hS : S.Pairwise (fun a c => v c ≤ v a)) {y : Nat}
    (hy : ∀ j (h : j < S.length), k ≤ j → v S[j] ≤ y) :
    ∀ P rest, S = P ++ rest → TailInv v (run v k P) y := by
  intro P
  induction P using Oracle.rev_induction with
  | nil =>
    intro rest _ l hl
    simp only [run, List.foldl_nil, Bins.new, List.mem_replicate] at hl
    rw [hl.2]; simp
  | snoc P x ih =>
    intro rest hrest
    have hrest' : S = P ++ (x :: rest) := by rw [hrest]; simp
    rw [run_snoc]
    apply tailInv_step hk (run_valid v hk P) (ih _ hrest')
    by_cases hj : k ≤ P.length
    · left
      have := hy P.length (by rw [hrest']; simp) hj
      simpa [hrest'] using this
    · right
      refine ⟨by omega, ?_⟩
      rw [hrest'] at hS
      intro a ha
      exact (List.pairwise_append.1 hS).2.2 a ha x (by simp)

end Prtpy.MaxMin3
