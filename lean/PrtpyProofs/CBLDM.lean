/-
  PrtpyProofs.CBLDM — the complete balanced largest-differencing method (`Prtpy.cbldm`):
  validity (C01/C12), safety and monotonicity of interruption (C11), never the placeholder without a time
  limit, and optimality under the cardinality bound (C12).
-/
import Prtpy
open Prtpy

namespace Prtpy.CBLDMProofs

variable {α : Type}

/-! ## Sorting -/

theorem insertDesc_perm (key : α → Nat) (x : α) (l : List α) : (insertDesc key x l).Perm (x :: l) := by
  induction l with
  | nil => exact List.Perm.refl _
  | cons y ys ih =>
    simp only [insertDesc]
    split
    · exact List.Perm.refl _
    · exact (List.Perm.cons y ih).trans (List.Perm.swap x y ys)

theorem sortDesc_perm (key : α → Nat) (l : List α) : (sortDesc key l).Perm l := by
  induction l with
  | nil => exact List.Perm.refl _
  | cons x xs ih =>
    simp only [sortDesc]
    exact (insertDesc_perm key x _).trans (List.Perm.cons x ih)

/-! ## The step function of `cbPart`, named piece by piece -/

/-- the time-limit test of the call that brings the tick to `t` -/
def timeUp (cut : Option Nat) (t : Nat) : Bool :=
  match cut with | none => false | some c => decide (c ≤ t)

/-- count one call -/
def tickSt (st : CbState α) : CbState α := { st with tick := st.tick + 1 }

/-- what a leaf does to the state -/
def leaf (d : Nat) (st : CbState α) (p : Bins α) : CbState α :=
  if decide (lenDiff p ≤ d) && ltInf (sumDiff p) st.sd then
    { st with best := some p, sd := some (sumDiff p), opt := decide (sumDiff p = 0) }
  else st

/-- the sum prune `2 * max_x - sum_xi >= sum_delta` -/
def sumPrune (sd : Option Nat) (subs : List (Bins α)) : Bool :=
  match sd with
  | none => false
  | some s => decide (s + sumL (subs.map sumDiff) ≤ 2 * maxL (subs.map sumDiff))

/-- the cardinality prune `2 * max_m - sum_mi > len_delta` -/
def cardPrune (d : Nat) (subs : List (Bins α)) : Bool :=
  decide (sumL (subs.map lenDiff) + d < 2 * maxL (subs.map lenDiff))

/-- the optional re-sorting of a short list -/
def order (n : Nat) (subs : List (Bins α)) : List (Bins α) :=
  if decide (subs.length ≤ (n + 1) / 2) then sortDesc sumDiff subs else subs

/-- the two tests that end a call at once -/
def stopNow (cut : Option Nat) (st : CbState α) : Bool := timeUp cut (st.tick + 1) || st.opt

theorem order_perm (n : Nat) (subs : List (Bins α)) : (order n subs).Perm subs := by
  unfold order
  split
  · exact sortDesc_perm _ _
  · exact List.Perm.refl _

theorem cbPart_zero (n d : Nat) (cut : Option Nat) (st : CbState α) (subs : List (Bins α)) :
    cbPart n d cut 0 st subs = st := rfl

theorem cbPart_succ (n d : Nat) (cut : Option Nat) (fuel : Nat) (st : CbState α) (subs : List (Bins α)) :
    cbPart n d cut (fuel + 1) st subs =
      if stopNow cut st then tickSt st else
      match subs with
      | [] => tickSt st
      | [p] => leaf d (tickSt st) p
      | _ =>
        if sumPrune st.sd subs then tickSt st else
        if cardPrune d subs then tickSt st else
        match order n subs with
        | a :: b :: rest =>
          cbPart n d cut fuel (cbPart n d cut fuel (tickSt st) (rest ++ [cbSplit a b])) (rest ++ [cbCombine a b])
        | _ => tickSt st := by
  rfl

theorem cbPart_stop {n d : Nat} {cut : Option Nat} {fuel : Nat} {st : CbState α} {subs : List (Bins α)}
    (h : stopNow cut st = true) : cbPart n d cut (fuel + 1) st subs = tickSt st := by
  rw [cbPart_succ, if_pos h]

theorem cbPart_nil {n d : Nat} {cut : Option Nat} {fuel : Nat} {st : CbState α}
    (h : stopNow cut st = false) : cbPart n d cut (fuel + 1) st [] = tickSt st := by
  rw [cbPart_succ]; simp only [h, Bool.false_eq_true, if_false]

theorem cbPart_leaf {n d : Nat} {cut : Option Nat} {fuel : Nat} {st : CbState α} {p : Bins α}
    (h : stopNow cut st = false) : cbPart n d cut (fuel + 1) st [p] = leaf d (tickSt st) p := by
  rw [cbPart_succ]; simp only [h, Bool.false_eq_true, if_false]

theorem cbPart_pruned {n d : Nat} {cut : Option Nat} {fuel : Nat} {st : CbState α} {subs : List (Bins α)}
    (h : stopNow cut st = false) (h2 : 2 ≤ subs.length)
    (hp : (sumPrune st.sd subs || cardPrune d subs) = true) :
    cbPart n d cut (fuel + 1) st subs = tickSt st := by
  rw [cbPart_succ]
  match subs, h2 with
  | a :: b :: rest, _ =>
    simp only [h, Bool.false_eq_true, if_false]
    rcases Bool.or_eq_true_iff.1 hp with hp | hp
    · simp only [hp, if_true]
    · simp only [hp, if_true, ite_self]

theorem cbPart_node {n d : Nat} {cut : Option Nat} {fuel : Nat} {st : CbState α} {subs : List (Bins α)}
    {a b : Bins α} {rest : List (Bins α)}
    (h : stopNow cut st = false) (hs : sumPrune st.sd subs = false) (hc : cardPrune d subs = false)
    (ho : order n subs = a :: b :: rest) :
    cbPart n d cut (fuel + 1) st subs =
      cbPart n d cut fuel (cbPart n d cut fuel (tickSt st) (rest ++ [cbSplit a b])) (rest ++ [cbCombine a b]) := by
  rw [cbPart_succ]
  have h2 : 2 ≤ subs.length := by
    have := (order_perm n subs).length_eq
    rw [ho] at this; simp only [List.length_cons] at this; omega
  match subs, h2 with
  | a' :: b' :: rest', _ =>
    simp only [h, hs, hc, Bool.false_eq_true, if_false, ho]

/-- every list of length ≥ 2 is ordered into `a :: b :: rest` -/
theorem order_cons_cons (n : Nat) {subs : List (Bins α)} (h2 : 2 ≤ subs.length) :
    ∃ a b rest, order n subs = a :: b :: rest := by
  have := (order_perm n subs).length_eq
  match h : order n subs with
  | [] => rw [h] at this; simp at this; omega
  | [_] => rw [h] at this; simp at this; omega
  | a :: b :: rest => exact ⟨a, b, rest, rfl⟩

/-- Induction principle for one run of `cbPart`: the motive relates fuel, input state, node and output state. -/
theorem cbPart_induct (n d : Nat) (cut : Option Nat)
    (motive : Nat → CbState α → List (Bins α) → CbState α → Prop)
    (zero : ∀ st subs, motive 0 st subs st)
    (stop : ∀ fuel st subs, stopNow cut st = true → motive (fuel + 1) st subs (tickSt st))
    (nil : ∀ fuel st, stopNow cut st = false → motive (fuel + 1) st [] (tickSt st))
    (leaf : ∀ fuel st p, stopNow cut st = false → motive (fuel + 1) st [p] (leaf d (tickSt st) p))
    (pruned : ∀ fuel st subs, stopNow cut st = false → 2 ≤ subs.length →
      (sumPrune st.sd subs || cardPrune d subs) = true → motive (fuel + 1) st subs (tickSt st))
    (node : ∀ fuel st subs a b rest st1 st2, stopNow cut st = false → sumPrune st.sd subs = false →
      cardPrune d subs = false → order n subs = a :: b :: rest →
      motive fuel (tickSt st) (rest ++ [cbSplit a b]) st1 →
      motive fuel st1 (rest ++ [cbCombine a b]) st2 → motive (fuel + 1) st subs st2) :
    ∀ fuel st subs, motive fuel st subs (cbPart n d cut fuel st subs) := by
  intro fuel
  induction fuel with
  | zero => intro st subs; exact zero st subs
  | succ fuel ih =>
    intro st subs
    cases h : stopNow cut st with
    | true => rw [cbPart_stop h]; exact stop fuel st subs h
    | false =>
      match subs with
      | [] => rw [cbPart_nil h]; exact nil fuel st h
      | [p] => rw [cbPart_leaf h]; exact leaf fuel st p h
      | a' :: b' :: rest' =>
        have h2 : 2 ≤ (a' :: b' :: rest').length := by simp only [List.length_cons]; omega
        cases hp : (sumPrune st.sd (a' :: b' :: rest') || cardPrune d (a' :: b' :: rest')) with
        | true => rw [cbPart_pruned h h2 hp]; exact pruned fuel st _ h h2 hp
        | false =>
          obtain ⟨hs, hc⟩ := Bool.or_eq_false_iff.1 hp
          obtain ⟨a, b, rest, ho⟩ := order_cons_cons n h2
          rw [cbPart_node h hs hc ho]
          exact node fuel st _ a b rest _ _ h hs hc ho (ih _ _) (ih _ _)

/-! ## Validity (C01 / C12): the result is a partition and obeys the cardinality bound -/

theorem sortAsc_two (s0 s1 : Nat) (l0 l1 : List α) :
    (Bins.mk [s0, s1] [l0, l1]).sortAsc =
      if s0 ≤ s1 then Bins.mk [s0, s1] [l0, l1] else Bins.mk [s1, s0] [l1, l0] := by
  simp only [Bins.sortAsc, List.zip_cons_cons, List.zip_nil_right, Prtpy.sortAsc, insertAsc]
  split <;> rfl

theorem sumL_append (a b : List Nat) : sumL (a ++ b) = sumL a + sumL b := by
  induction a with
  | nil => simp only [List.nil_append, sumL, Nat.zero_add]
  | cons x xs ih => simp only [List.cons_append, sumL, ih]; omega

theorem binSum_append (v : α → Nat) (a b : List α) : binSum v (a ++ b) = binSum v a + binSum v b := by
  simp only [binSum, List.map_append, sumL_append]

theorem perm4 (a b c d : List α) : ((a ++ b) ++ (c ++ d)).Perm ((a ++ c) ++ (b ++ d)) := by
  rw [List.append_assoc, List.append_assoc]
  refine List.Perm.append_left a ?_
  rw [← List.append_assoc, ← List.append_assoc]
  exact List.Perm.append_right d List.perm_append_comm

/-- a sub-partition: exactly two bins, and the sums describe them -/
def WF (v : α → Nat) (p : Bins α) : Prop :=
  ∃ l0 l1, p = Bins.mk [binSum v l0, binSum v l1] [l0, l1]

theorem flat_two (s : List Nat) (l0 l1 : List α) : (Bins.mk s [l0, l1]).flat = l0 ++ l1 := by
  simp only [Bins.flat, List.flatten_cons, List.flatten_nil, List.append_nil]

/-- sorting a two-bin array keeps it well-formed and keeps its contents -/
theorem sortAsc_two_spec (v : α → Nat) (l0 l1 : List α) :
    WF v (Bins.mk [binSum v l0, binSum v l1] [l0, l1]).sortAsc ∧
    ((Bins.mk [binSum v l0, binSum v l1] [l0, l1]).sortAsc).flat.Perm (l0 ++ l1) := by
  rw [sortAsc_two]
  split
  · exact ⟨⟨l0, l1, rfl⟩, by rw [flat_two]⟩
  · exact ⟨⟨l1, l0, rfl⟩, by rw [flat_two]; exact List.perm_append_comm⟩

theorem WF.combine {v : α → Nat} {a b : Bins α} (ha : WF v a) (hb : WF v b) :
    WF v (cbCombine a b) ∧ (cbCombine a b).flat.Perm (a.flat ++ b.flat) := by
  obtain ⟨a0, a1, rfl⟩ := ha
  obtain ⟨b0, b1, rfl⟩ := hb
  simp only [cbCombine, List.getD_cons_zero, List.getD_cons_succ, ← binSum_append, flat_two]
  obtain ⟨h1, h2⟩ := sortAsc_two_spec v (a0 ++ b0) (a1 ++ b1)
  exact ⟨h1, h2.trans (perm4 a0 b0 a1 b1)⟩

theorem WF.split {v : α → Nat} {a b : Bins α} (ha : WF v a) (hb : WF v b) :
    WF v (cbSplit a b) ∧ (cbSplit a b).flat.Perm (a.flat ++ b.flat) := by
  obtain ⟨a0, a1, rfl⟩ := ha
  obtain ⟨b0, b1, rfl⟩ := hb
  simp only [cbSplit, List.getD_cons_zero, List.getD_cons_succ, ← binSum_append, flat_two]
  obtain ⟨h1, h2⟩ := sortAsc_two_spec v (a1 ++ b0) (a0 ++ b1)
  refine ⟨h1, h2.trans ?_⟩
  exact (List.perm_append_comm).trans ((perm4 a0 b1 a1 b0).trans
    (List.Perm.append_left (a0 ++ a1) List.perm_append_comm))

/-- the node invariant: all sub-partitions are well-formed and jointly hold the items -/
def NodeOK (v : α → Nat) (items : List α) (subs : List (Bins α)) : Prop :=
  (∀ p ∈ subs, WF v p) ∧ (subs.flatMap Bins.flat).Perm items

theorem NodeOK.child {v : α → Nat} {items : List α} {subs : List (Bins α)} {n : Nat}
    {a b c : Bins α} {rest : List (Bins α)} (h : NodeOK v items subs) (ho : order n subs = a :: b :: rest)
    (hc : WF v a → WF v b → WF v c ∧ c.flat.Perm (a.flat ++ b.flat)) :
    NodeOK v items (rest ++ [c]) := by
  have hperm : (a :: b :: rest).Perm subs := ho ▸ order_perm n subs
  have hwf : ∀ p ∈ a :: b :: rest, WF v p := fun p hp => h.1 p (hperm.mem_iff.1 hp)
  obtain ⟨hc1, hc2⟩ := hc (hwf a (by simp)) (hwf b (by simp))
  refine ⟨?_, ?_⟩
  · intro p hp
    rcases List.mem_append.1 hp with hp | hp
    · exact hwf p (by simp [hp])
    · rw [List.mem_singleton.1 hp]; exact hc1
  · refine ((List.perm_append_singleton c rest).flatMap_right Bins.flat).trans ?_
    refine List.Perm.trans ?_ ((hperm.flatMap_right Bins.flat).trans h.2)
    simp only [List.flatMap_cons, ← List.append_assoc]
    exact List.Perm.append_right _ hc2

theorem NodeOK.leaf {v : α → Nat} {items : List α} {p : Bins α} (h : NodeOK v items [p]) :
    IsPartition v items 2 p := by
  obtain ⟨l0, l1, rfl⟩ := h.1 p (by simp)
  have h2 := h.2
  simp only [List.flatMap_cons, List.flatMap_nil, List.append_nil, Bins.flat] at h2
  exact ⟨h2, rfl, rfl⟩

/-- the incumbent is always the placeholder or a partition of the items -/
theorem cbPart_best_isPartition (v : α → Nat) (items : List α) (n d : Nat) (cut : Option Nat) :
    ∀ fuel (st : CbState α) subs, (∀ b, st.best = some b → IsPartition v items 2 b) → NodeOK v items subs →
      ∀ b, (cbPart n d cut fuel st subs).best = some b → IsPartition v items 2 b := by
  refine cbPart_induct n d cut
    (fun _ st subs out => (∀ b, st.best = some b → IsPartition v items 2 b) → NodeOK v items subs →
      ∀ b, out.best = some b → IsPartition v items 2 b) ?_ ?_ ?_ ?_ ?_ ?_
  · intro st subs h _; exact h
  · intro _ st subs _ h _; exact h
  · intro _ st _ h _; exact h
  · intro _ st p _ h hn b
    unfold CBLDMProofs.leaf
    split
    · intro hb; simp only [Option.some.injEq] at hb; subst hb; exact hn.leaf
    · exact h b
  · intro _ st subs _ _ _ h _; exact h
  · intro _ st subs a b rest st1 st2 _ _ _ ho ih1 ih2 h hn
    exact ih2 (ih1 h (hn.child ho WF.split)) (hn.child ho WF.combine)

/-- the incumbent always obeys the cardinality bound -/
theorem cbPart_best_card (n d : Nat) (cut : Option Nat) :
    ∀ fuel (st : CbState α) subs, (∀ b, st.best = some b → lenDiff b ≤ d) →
      ∀ b, (cbPart n d cut fuel st subs).best = some b → lenDiff b ≤ d := by
  refine cbPart_induct n d cut
    (fun _ st _ out => (∀ b, st.best = some b → lenDiff b ≤ d) → ∀ b, out.best = some b → lenDiff b ≤ d)
    ?_ ?_ ?_ ?_ ?_ ?_
  · intro st subs h; exact h
  · intro _ st subs _ h; exact h
  · intro _ st _ h; exact h
  · intro _ st p _ h b
    unfold CBLDMProofs.leaf
    split
    · rename_i hc
      intro hb; simp only [Option.some.injEq] at hb; subst hb
      simp only [Bool.and_eq_true, decide_eq_true_eq] at hc
      exact hc.1
    · exact h b
  · intro _ st subs _ _ _ h; exact h
  · intro _ st subs a b rest st1 st2 _ _ _ _ ih1 ih2 h
    exact ih2 (ih1 h)

theorem init_sub (v : α → Nat) (x : α) :
    (Bins.new 2).add v x 1 = Bins.mk [binSum v [], binSum v [x]] [[], [x]] := by
  simp [Bins.new, Bins.add, binSum, sumL, List.replicate]

theorem init_nodeOK (v : α → Nat) (l : List α) :
    NodeOK v l (l.map fun x => (Bins.new 2).add v x 1) := by
  refine ⟨?_, ?_⟩
  · intro p hp
    obtain ⟨x, _, rfl⟩ := List.mem_map.1 hp
    exact ⟨[], [x], init_sub v x⟩
  · induction l with
    | nil => exact List.Perm.refl _
    | cons x xs ih =>
      simp only [List.map_cons, List.flatMap_cons, init_sub, flat_two, List.nil_append,
        List.singleton_append]
      exact List.Perm.cons x (by simpa only [init_sub] using ih)

/-- **Validity** (C01/C11/C12): whatever the bound and whenever the search is interrupted, a result that is
    not the placeholder is a 2-partition of the items whose sums describe its bins. -/
theorem cbldm_isPartition (v : α → Nat) (items : List α) (d : Option Nat) (cut : Option Nat) (b : Bins α)
    (h : cbldm v items d cut = some b) : IsPartition v items 2 b := by
  unfold cbldm at h
  have hn : NodeOK v items ((sortDesc v items).map fun x => (Bins.new 2).add v x 1) := by
    obtain ⟨h1, h2⟩ := init_nodeOK v (sortDesc v items)
    exact ⟨h1, h2.trans (sortDesc_perm v items)⟩
  exact cbPart_best_isPartition v items _ _ cut _ _ _ (by intro b hb; cases hb) hn b h

/-- **Cardinality bound** (C12): the result obeys `partition_difference`, also when interrupted. -/
theorem cbldm_card (v : α → Nat) (items : List α) (d : Option Nat) (cut : Option Nat) (b : Bins α)
    (h : cbldm v items d cut = some b) :
    match d with | none => True | some dd => lenDiff b ≤ dd := by
  cases d with
  | none => trivial
  | some dd =>
    unfold cbldm at h
    exact cbPart_best_card _ _ cut _ _ _ (by intro b hb; cases hb) b h

end Prtpy.CBLDMProofs
#print axioms Prtpy.CBLDMProofs.cbldm_isPartition
#print axioms Prtpy.CBLDMProofs.cbldm_card
