/-
  PrtpyProofs.Natural — naturality of the fold-shaped algorithms in the item type
  ("the answer does not depend on how the items are presented"), and permutation invariance of the sums
  of every algorithm that sorts its input.
-/
import Prtpy
import PrtpyProofs.Part
open Prtpy

namespace Prtpy.Natural

variable {α β : Type}

/-- test input for the non-vacuity examples: `(value, name)` pairs with ties -/
def exItems : List (Nat × Char) := [(4, 'a'), (7, 'b'), (4, 'c'), (2, 'd'), (5, 'e'), (4, 'f')]
/-- the same items presented in the reverse order -/
def exItems' : List (Nat × Char) := [(4, 'f'), (5, 'e'), (2, 'd'), (4, 'c'), (7, 'b'), (4, 'a')]

theorem exItems_perm : exItems.Perm exItems' := by decide

/-! ## 1. Sorting -/

theorem insertDesc_map (f : α → β) (vα : α → Nat) (vβ : β → Nat) (hf : ∀ a, vβ (f a) = vα a)
    (x : α) (l : List α) :
    insertDesc vβ (f x) (l.map f) = (insertDesc vα x l).map f := by
  induction l with
  | nil => rfl
  | cons y ys ih =>
    simp only [List.map_cons, insertDesc, hf]
    split
    · rfl
    · simp only [List.map_cons, ih]

theorem sortDesc_map (f : α → β) (vα : α → Nat) (vβ : β → Nat) (hf : ∀ a, vβ (f a) = vα a)
    (items : List α) :
    sortDesc vβ (items.map f) = (sortDesc vα items).map f := by
  induction items with
  | nil => rfl
  | cons x xs ih => simp only [List.map_cons, sortDesc, ih, insertDesc_map f vα vβ hf]

example : sortDesc id ([(1, 'a'), (3, 'b'), (2, 'c')].map Prod.fst)
    = (sortDesc Prod.fst [(1, 'a'), (3, 'b'), (2, 'c')]).map Prod.fst := by decide

theorem insertAsc_map (f : α → β) (vα : α → Nat) (vβ : β → Nat) (hf : ∀ a, vβ (f a) = vα a)
    (x : α) (l : List α) :
    insertAsc vβ (f x) (l.map f) = (insertAsc vα x l).map f := by
  induction l with
  | nil => rfl
  | cons y ys ih =>
    simp only [List.map_cons, insertAsc, hf]
    split
    · rfl
    · simp only [List.map_cons, ih]

theorem sortAsc_map (f : α → β) (vα : α → Nat) (vβ : β → Nat) (hf : ∀ a, vβ (f a) = vα a)
    (items : List α) :
    Prtpy.sortAsc vβ (items.map f) = (Prtpy.sortAsc vα items).map f := by
  induction items with
  | nil => rfl
  | cons x xs ih => simp only [List.map_cons, Prtpy.sortAsc, ih, insertAsc_map f vα vβ hf]

example : Prtpy.sortAsc id ([(1, 'a'), (3, 'b'), (2, 'c')].map Prod.fst)
    = (Prtpy.sortAsc Prod.fst [(1, 'a'), (3, 'b'), (2, 'c')]).map Prod.fst := by decide

/-! ## 2. `Bins.mapItems` commutes with every operation of `Prtpy/Bins.lean` -/

section BinsOps
variable (f : α → β)

@[simp] theorem mapItems_sums (b : Bins α) : (b.mapItems f).sums = b.sums := rfl

@[simp] theorem mapItems_lists (b : Bins α) : (b.mapItems f).lists = b.lists.map (·.map f) := rfl

theorem mapItems_lists_length (b : Bins α) : (b.mapItems f).lists.length = b.lists.length := by
  simp only [mapItems_lists, List.length_map]

theorem mapItems_numbins (b : Bins α) : (b.mapItems f).numbins = b.numbins := rfl

theorem mapItems_lastSum (b : Bins α) : (b.mapItems f).lastSum = b.lastSum := rfl

theorem mapItems_new (k : Nat) : (Bins.new k : Bins α).mapItems f = Bins.new k := by
  simp only [Bins.mapItems, Bins.new, List.map_replicate, List.map_nil]

theorem map_modify_append (ls : List (List α)) (i : Nat) (l : List α) :
    (ls.modify i (· ++ l)).map (·.map f) = (ls.map (·.map f)).modify i (· ++ l.map f) := by
  induction ls generalizing i with
  | nil => simp
  | cons a as ih =>
    cases i with
    | zero => simp
    | succ i => simp [ih]

theorem mapItems_add (vα : α → Nat) (vβ : β → Nat) (hf : ∀ a, vβ (f a) = vα a)
    (b : Bins α) (x : α) (i : Nat) :
    (b.add vα x i).mapItems f = (b.mapItems f).add vβ (f x) i := by
  simp only [Bins.mapItems, Bins.add, hf]
  congr 1
  exact map_modify_append f b.lists i [x]

theorem mapItems_addLast (vα : α → Nat) (vβ : β → Nat) (hf : ∀ a, vβ (f a) = vα a)
    (b : Bins α) (x : α) :
    (b.addLast vα x).mapItems f = (b.mapItems f).addLast vβ (f x) := by
  simp only [Bins.addLast, mapItems_add f vα vβ hf, mapItems_sums]

theorem mapItems_concat (b₁ b₂ : Bins α) :
    (b₁.concat b₂).mapItems f = (b₁.mapItems f).concat (b₂.mapItems f) := by
  simp only [Bins.mapItems, Bins.concat, List.map_append]

theorem mapItems_addEmpty (b : Bins α) (n : Nat) :
    (b.addEmpty n).mapItems f = (b.mapItems f).addEmpty n := by
  simp only [Bins.addEmpty, mapItems_concat, mapItems_new]

theorem mapItems_removeLast (b : Bins α) (n : Nat) :
    (b.removeLast n).mapItems f = (b.mapItems f).removeLast n := by
  simp only [Bins.mapItems, Bins.removeLast, List.map_take, List.length_map]

theorem getD_map_map (ls : List (List α)) (i : Nat) :
    (ls.map (·.map f)).getD i [] = (ls.getD i []).map f := by
  simp only [List.getD_eq_getElem?_getD, List.getElem?_map]
  cases ls[i]? <;> rfl

theorem mapItems_combine (b₁ : Bins α) (i₁ : Nat) (b₂ : Bins α) (i₂ : Nat) :
    (b₁.combine i₁ b₂ i₂).mapItems f = (b₁.mapItems f).combine i₁ (b₂.mapItems f) i₂ := by
  simp only [Bins.mapItems, Bins.combine, getD_map_map]
  congr 1
  exact map_modify_append f b₁.lists i₁ _

theorem zip_map_right (s : List Nat) (ls : List (List α)) :
    s.zip (ls.map (·.map f)) = (s.zip ls).map (fun p => (p.1, p.2.map f)) := by
  induction s generalizing ls with
  | nil => simp
  | cons a as ih =>
    cases ls with
    | nil => simp
    | cons l ls => simp [ih]

theorem mapItems_sortAsc (b : Bins α) : b.sortAsc.mapItems f = (b.mapItems f).sortAsc := by
  simp only [Bins.mapItems, Bins.sortAsc, zip_map_right]
  rw [sortAsc_map (fun p : Nat × List α => (p.1, p.2.map f)) (fun p => p.1) (fun p => p.1)
    (fun _ => rfl)]
  simp only [List.map_map]
  constructor

example : ((Bins.mk [3, 1] [['a'], ['b', 'c']]).sortAsc).mapItems Char.toNat
    = ((Bins.mk [3, 1] [['a'], ['b', 'c']]).mapItems Char.toNat).sortAsc := rfl

end BinsOps

/-! ## 3. Naturality of the algorithms -/

theorem foldl_natural {σ τ : Type} (f : α → β) (g : σ → τ) (stepα : σ → α → σ) (stepβ : τ → β → τ)
    (h : ∀ s x, stepβ (g s) (f x) = g (stepα s x)) (l : List α) (s : σ) :
    (l.map f).foldl stepβ (g s) = g (l.foldl stepα s) := by
  induction l generalizing s with
  | nil => rfl
  | cons x xs ih => simp only [List.map_cons, List.foldl_cons, h, ih]

theorem except_map_map {ε σ τ υ : Type} (g : σ → τ) (h : τ → υ) (e : Except ε σ) :
    (e.map g).map h = e.map (h ∘ g) := by
  cases e <;> rfl

theorem except_map_sums (f : α → β) (e : Except Err (Bins α)) :
    (e.map (Bins.mapItems f)).map (·.sums) = e.map (·.sums) := by
  cases e <;> rfl

section Algs
variable (f : α → β) (vα : α → Nat) (vβ : β → Nat) (hf : ∀ a, vβ (f a) = vα a)
include hf

theorem comp_eq : vβ ∘ f = vα := funext hf

theorem binSum_map (l : List α) : binSum vβ (l.map f) = binSum vα l := by
  simp only [binSum, List.map_map, comp_eq f vα vβ hf]

/-! ### greedy -/

theorem greedyStep_natural (b : Bins α) (x : α) :
    greedyStep vβ (b.mapItems f) (f x) = (greedyStep vα b x).mapItems f := by
  simp only [greedyStep, mapItems_add f vα vβ hf, mapItems_sums]

theorem greedy_natural (k : Nat) (items : List α) :
    greedy vβ k (items.map f) = (greedy vα k items).mapItems f := by
  unfold greedy
  rw [sortDesc_map f vα vβ hf, ← mapItems_new f k]
  exact foldl_natural f (Bins.mapItems f) _ _ (greedyStep_natural f vα vβ hf) _ _

omit hf in
example : greedy id 2 (exItems.map Prod.fst) = (greedy Prod.fst 2 exItems).mapItems Prod.fst :=
  greedy_natural Prod.fst Prod.fst id (fun _ => rfl) 2 exItems
omit hf in
example : (greedy Prod.fst 2 exItems).sums = [13, 13] := by decide

/-! ### round robin -/

theorem rrLoop_natural (k : Nat) (b : Bins α) (i : Nat) (xs : List α) :
    rrLoop vβ k (b.mapItems f) i (xs.map f) = (rrLoop vα k b i xs).mapItems f := by
  induction xs generalizing b i with
  | nil => rfl
  | cons x xs ih => simp only [List.map_cons, rrLoop, ← mapItems_add f vα vβ hf, ih]

theorem roundrobin_natural (k : Nat) (items : List α) :
    roundrobin vβ k (items.map f) = (roundrobin vα k items).mapItems f := by
  unfold roundrobin
  rw [sortDesc_map f vα vβ hf, ← mapItems_new f k]
  exact rrLoop_natural f vα vβ hf k _ 0 _

omit hf in
example : roundrobin id 2 (exItems.map Prod.fst) = (roundrobin Prod.fst 2 exItems).mapItems Prod.fst :=
  roundrobin_natural Prod.fst Prod.fst id (fun _ => rfl) 2 exItems
omit hf in
example : (roundrobin Prod.fst 2 exItems).sums = [15, 11] := by decide

/-! ### first fit -/

theorem ffStep_natural (B : Nat) (b : Bins α) (x : α) :
    ffStep vβ B (b.mapItems f) (f x) = (ffStep vα B b x).mapItems f := by
  simp only [ffStep, mapItems_sums, hf]
  cases b.sums.findIdx? (fun s => decide (s + vα x ≤ B)) with
  | none => simp only [mapItems_add f vα vβ hf, mapItems_addEmpty]
  | some i => simp only [mapItems_add f vα vβ hf]

theorem ffLoop_natural (B : Nat) (b : Bins α) (xs : List α) :
    ffLoop vβ B (b.mapItems f) (xs.map f) = (ffLoop vα B b xs).map (Bins.mapItems f) := by
  induction xs generalizing b with
  | nil => rfl
  | cons x xs ih =>
    simp only [List.map_cons, ffLoop, hf, ffStep_natural f vα vβ hf, ih]
    split <;> rfl

theorem ffOnline_natural (B : Nat) (items : List α) :
    ffOnline vβ B (items.map f) = (ffOnline vα B items).map (Bins.mapItems f) := by
  unfold ffOnline
  rw [← mapItems_new f 1]
  exact ffLoop_natural f vα vβ hf B _ _

omit hf in
example : ffOnline id 10 (exItems.map Prod.fst) = (ffOnline Prod.fst 10 exItems).map (Bins.mapItems Prod.fst) :=
  ffOnline_natural Prod.fst Prod.fst id (fun _ => rfl) 10 exItems
omit hf in
example : (ffOnline Prod.fst 10 exItems).map (·.sums) = .ok [10, 7, 9] := by rfl

theorem ffDecreasing_natural (B : Nat) (items : List α) :
    ffDecreasing vβ B (items.map f) = (ffDecreasing vα B items).map (Bins.mapItems f) := by
  unfold ffDecreasing
  rw [sortDesc_map f vα vβ hf]
  exact ffOnline_natural f vα vβ hf B _

omit hf in
example : ffDecreasing id 10 (exItems.map Prod.fst) = (ffDecreasing Prod.fst 10 exItems).map (Bins.mapItems Prod.fst) :=
  ffDecreasing_natural Prod.fst Prod.fst id (fun _ => rfl) 10 exItems
omit hf in
example : (ffDecreasing Prod.fst 10 exItems).map (·.sums) = .ok [9, 9, 8] := by rfl

/-! ### best fit -/

theorem bfStep_natural (B : Nat) (b : Bins α) (x : α) :
    bfStep vβ B (b.mapItems f) (f x) = (bfStep vα B b x).mapItems f := by
  simp only [bfStep, mapItems_sums, hf]
  cases bfScan (vα x) B b.sums 0 none with
  | none => simp only [mapItems_add f vα vβ hf, mapItems_addEmpty]
  | some p => simp only [mapItems_add f vα vβ hf]

theorem bfLoop_natural (B : Nat) (b : Bins α) (xs : List α) :
    bfLoop vβ B (b.mapItems f) (xs.map f) = (bfLoop vα B b xs).map (Bins.mapItems f) := by
  induction xs generalizing b with
  | nil => rfl
  | cons x xs ih =>
    simp only [List.map_cons, bfLoop, hf, bfStep_natural f vα vβ hf, ih]
    split <;> rfl

theorem bfOnline_natural (B : Nat) (items : List α) :
    bfOnline vβ B (items.map f) = (bfOnline vα B items).map (Bins.mapItems f) := by
  unfold bfOnline
  rw [← mapItems_new f 1]
  exact bfLoop_natural f vα vβ hf B _ _

omit hf in
example : bfOnline id 10 (exItems.map Prod.fst) = (bfOnline Prod.fst 10 exItems).map (Bins.mapItems Prod.fst) :=
  bfOnline_natural Prod.fst Prod.fst id (fun _ => rfl) 10 exItems
omit hf in
example : (bfOnline Prod.fst 10 exItems).map (·.sums) = .ok [10, 7, 9] := by rfl

theorem bfDecreasing_natural (B : Nat) (items : List α) :
    bfDecreasing vβ B (items.map f) = (bfDecreasing vα B items).map (Bins.mapItems f) := by
  unfold bfDecreasing
  rw [sortDesc_map f vα vβ hf]
  exact bfOnline_natural f vα vβ hf B _

omit hf in
example : bfDecreasing id 10 (exItems.map Prod.fst) = (bfDecreasing Prod.fst 10 exItems).map (Bins.mapItems Prod.fst) :=
  bfDecreasing_natural Prod.fst Prod.fst id (fun _ => rfl) 10 exItems
omit hf in
example : (bfDecreasing Prod.fst 10 exItems).map (·.sums) = .ok [7, 9, 10] := by rfl

/-! ### multifit -/

theorem ffCount_natural (cap : Rat) (xs : List α) :
    ffCount vβ cap (xs.map f) = ffCount vα cap xs := by
  unfold ffCount
  rw [ffOnline_natural f vα vβ hf, except_map_map]
  rfl

theorem multifitSearch_natural (k : Nat) (xs : List α) (it : Nat) (lo hi : Rat) :
    multifitSearch vβ k (xs.map f) it lo hi = multifitSearch vα k xs it lo hi := by
  induction it generalizing lo hi with
  | zero => rfl
  | succ it ih => simp only [multifitSearch, ffCount_natural f vα vβ hf, ih]

theorem multifit_natural (k : Nat) (items : List α) (iterations : Nat) :
    multifit vβ k (items.map f) iterations = (multifit vα k items iterations).map (Bins.mapItems f) := by
  simp only [multifit, List.map_map, comp_eq f vα vβ hf, sortDesc_map f vα vβ hf,
    multifitSearch_natural f vα vβ hf]
  split
  · rfl
  · exact ffOnline_natural f vα vβ hf _ _

omit hf in
example : multifit id 2 (exItems.map Prod.fst) 5
    = (multifit Prod.fst 2 exItems 5).map (Bins.mapItems Prod.fst) :=
  multifit_natural Prod.fst Prod.fst id (fun _ => rfl) 2 exItems 5

/-! ### greedy covering -/

theorem coverStep_natural (B : Nat) (b : Bins α) (x : α) :
    coverStep vβ B (b.mapItems f) (f x) = (coverStep vα B b x).mapItems f := by
  simp only [coverStep, ← mapItems_addLast f vα vβ hf, mapItems_lastSum, ← mapItems_addEmpty]
  split <;> rfl

theorem decrSub_natural (B : Nat) (b : Bins α) (xs : List α) :
    decrSub vβ B (b.mapItems f) (xs.map f) = (decrSub vα B b xs).mapItems f :=
  foldl_natural f (Bins.mapItems f) _ _ (coverStep_natural f vα vβ hf B) _ _

theorem coverDecreasing_natural (B : Nat) (items : List α) :
    coverDecreasing vβ B (items.map f) = (coverDecreasing vα B items).mapItems f := by
  unfold coverDecreasing
  rw [sortDesc_map f vα vβ hf, ← mapItems_new f 1, decrSub_natural f vα vβ hf, mapItems_removeLast]

omit hf in
example : coverDecreasing id 8 (exItems.map Prod.fst) = (coverDecreasing Prod.fst 8 exItems).mapItems Prod.fst :=
  coverDecreasing_natural Prod.fst Prod.fst id (fun _ => rfl) 8 exItems
omit hf in
example : (coverDecreasing Prod.fst 8 exItems).sums = [12, 8] := by decide

/-! ### CFLZ covering -/

theorem fillFromSmall_natural (B : Nat) (n : Nat) (b : Bins α) (xs : List α) :
    fillFromSmall vβ B n (b.mapItems f) (xs.map f)
      = ((fillFromSmall vα B n b xs).1.mapItems f, (fillFromSmall vα B n b xs).2.map f) := by
  induction n generalizing b xs with
  | zero => rfl
  | succ n ih =>
    simp only [fillFromSmall, mapItems_lastSum, List.getLast?_map]
    split
    · cases xs.getLast? with
      | none => rfl
      | some x =>
        simp only [Option.map_some, ← mapItems_addLast f vα vβ hf, ← List.map_dropLast, ih]
    · rfl

omit hf in
theorem closeIfFull_natural (B : Nat) (b : Bins α) :
    closeIfFull B (b.mapItems f) = (closeIfFull B b).mapItems f := by
  simp only [closeIfFull, mapItems_lastSum, ← mapItems_addEmpty]
  split <;> rfl

theorem twoThirdsLoop_natural (B : Nat) (n : Nat) (b : Bins α) (xs : List α) :
    twoThirdsLoop vβ B n (b.mapItems f) (xs.map f) = (twoThirdsLoop vα B n b xs).mapItems f := by
  induction n generalizing b xs with
  | zero => rfl
  | succ n ih =>
    cases xs with
    | nil => rfl
    | cons x xs =>
      simp only [List.map_cons, twoThirdsLoop, List.length_map, ← mapItems_addLast f vα vβ hf,
        fillFromSmall_natural f vα vβ hf, closeIfFull_natural f, ih]

theorem twoThirds_natural (B : Nat) (items : List α) :
    twoThirds vβ B (items.map f) = (twoThirds vα B items).mapItems f := by
  simp only [twoThirds, sortDesc_map f vα vβ hf, List.length_map, mapItems_removeLast]
  rw [← mapItems_new f 1, twoThirdsLoop_natural f vα vβ hf]

omit hf in
example : twoThirds id 8 (exItems.map Prod.fst) = (twoThirds Prod.fst 8 exItems).mapItems Prod.fst :=
  twoThirds_natural Prod.fst Prod.fst id (fun _ => rfl) 8 exItems
omit hf in
example : (twoThirds Prod.fst 8 exItems).sums = [9, 9, 8] := by decide

theorem filter_isBig_map (B : Nat) (s : List α) :
    (s.map f).filter (isBig vβ B) = (s.filter (isBig vα B)).map f := by
  rw [List.filter_map]
  congr 2
  funext a
  simp only [Function.comp, isBig, hf]

theorem filter_isMedium_map (B : Nat) (s : List α) :
    (s.map f).filter (isMedium vβ B) = (s.filter (isMedium vα B)).map f := by
  rw [List.filter_map]
  congr 2
  funext a
  simp only [Function.comp, isMedium, hf]

theorem filter_isSmall_map (B : Nat) (s : List α) :
    (s.map f).filter (isSmall vβ B) = (s.filter (isSmall vα B)).map f := by
  rw [List.filter_map]
  congr 2
  funext a
  simp only [Function.comp, isSmall, hf]

theorem foldl_addLast_natural (b : Bins α) (xs : List α) :
    (xs.map f).foldl (Bins.addLast vβ) (b.mapItems f) = (xs.foldl (Bins.addLast vα) b).mapItems f :=
  foldl_natural f (Bins.mapItems f) _ _ (fun s x => (mapItems_addLast f vα vβ hf s x).symm) _ _

theorem threeQuartersLoop_natural (B : Nat) (n : Nat) (b : Bins α) (big med small : List α) :
    threeQuartersLoop vβ B n (b.mapItems f) (big.map f) (med.map f) (small.map f)
      = (threeQuartersLoop vα B n b big med small).mapItems f := by
  induction n generalizing b big med small with
  | zero => rfl
  | succ n ih =>
    simp only [threeQuartersLoop, List.isEmpty_map, ← List.map_take, ← List.map_drop,
      binSum_map f vα vβ hf, List.length_map]
    split
    · simp only [decrSub_natural f vα vβ hf]
    · split
      · simp only [decrSub_natural f vα vβ hf]
      · by_cases hb : binSum vα (List.take 2 med) ≤ binSum vα (List.take 1 big)
        · simp only [hb, decide_true, if_true]
          simp only [foldl_addLast_natural f vα vβ hf,
            fillFromSmall_natural f vα vβ hf, closeIfFull_natural f, ih]
        · simp only [hb, decide_false, Bool.false_eq_true, if_false]
          simp only [foldl_addLast_natural f vα vβ hf,
            fillFromSmall_natural f vα vβ hf, closeIfFull_natural f, ih]

theorem threeQuarters_natural (B : Nat) (items : List α) :
    threeQuarters vβ B (items.map f) = (threeQuarters vα B items).mapItems f := by
  simp only [threeQuarters, sortDesc_map f vα vβ hf, List.length_map, mapItems_removeLast,
    filter_isBig_map f vα vβ hf, filter_isMedium_map f vα vβ hf, filter_isSmall_map f vα vβ hf]
  rw [← mapItems_new f 1, threeQuartersLoop_natural f vα vβ hf]

omit hf in
example : threeQuarters id 8 (exItems.map Prod.fst) = (threeQuarters Prod.fst 8 exItems).mapItems Prod.fst :=
  threeQuarters_natural Prod.fst Prod.fst id (fun _ => rfl) 8 exItems
omit hf in
example : (threeQuarters Prod.fst 8 exItems).sums = [9, 9, 8] := by decide

end Algs

/-! ### Karmarkar–Karp -/

/-- rename the items of a heap entry -/
def mapEntry (f : α → β) (e : HEntry α) : HEntry β := ⟨e.diff, e.cnt, e.bins.mapItems f⟩

section KKHeap
variable (f : α → β)

theorem before_map (e₁ e₂ : HEntry α) : (mapEntry f e₁).before (mapEntry f e₂) = e₁.before e₂ := rfl

theorem hpush_natural (h : Heap α) (c : Nat) (b : Bins α) :
    hpush (h.map (mapEntry f)) c (b.mapItems f)
      = ((hpush h c b).1.map (mapEntry f), (hpush h c b).2) := by
  simp only [hpush, ← mapItems_sortAsc, mapItems_sums, List.map_append, List.map_cons, List.map_nil,
    mapEntry]

theorem hbestAux_natural (es : List (HEntry α)) (i bi : Nat) (be : HEntry α) :
    hbestAux (es.map (mapEntry f)) i bi (mapEntry f be) = hbestAux es i bi be := by
  induction es generalizing i bi be with
  | nil => rfl
  | cons e es ih =>
    simp only [List.map_cons, hbestAux, before_map, ih]

theorem hbest_natural (h : Heap α) :
    hbest (h.map (mapEntry f)) = (hbest h).map (fun p => (p.1, mapEntry f p.2)) := by
  cases h with
  | nil => rfl
  | cons e es =>
    simp only [List.map_cons, hbest, hbestAux_natural]
    rw [← List.map_cons, List.getElem?_map]
    cases (e :: es)[hbestAux es 1 0 e]? <;> rfl

theorem htop_natural (h : Heap α) : htop (h.map (mapEntry f)) = (htop h).map (mapEntry f) := by
  simp only [htop, hbest_natural]
  cases hbest h <;> rfl

theorem removeAt_map {γ δ : Type} (g : γ → δ) (l : List γ) (i : Nat) :
    removeAt (l.map g) i = (removeAt l i).map g := by
  simp only [removeAt, List.map_append, List.map_take, List.map_drop]

theorem hpop_natural (h : Heap α) :
    hpop (h.map (mapEntry f)) = (hpop h).map (fun p => (mapEntry f p.1, p.2.map (mapEntry f))) := by
  simp only [hpop, hbest_natural]
  cases hbest h with
  | none => rfl
  | some p => simp only [Option.map_some, removeAt_map]

theorem zipWith_append_map (l₁ l₂ : List (List α)) :
    List.zipWith (· ++ ·) (l₁.map (·.map f)) (l₂.map (·.map f))
      = (List.zipWith (· ++ ·) l₁ l₂).map (·.map f) := by
  induction l₁ generalizing l₂ with
  | nil => rfl
  | cons a as ih =>
    cases l₂ with
    | nil => rfl
    | cons b bs => simp only [List.map_cons, List.zipWith_cons_cons, List.map_append, ih]

theorem kkCombine_natural (b₁ b₂ : Bins α) :
    kkCombine (b₁.mapItems f) (b₂.mapItems f) = (kkCombine b₁ b₂).mapItems f := by
  simp only [kkCombine, Bins.mapItems, ← List.map_reverse, zipWith_append_map]

theorem kkLoop_natural (n : Nat) (h : Heap α) (c : Nat) :
    kkLoop n (h.map (mapEntry f)) c = (kkLoop n h c).map (mapEntry f) := by
  induction n generalizing h c with
  | zero => rfl
  | succ n ih =>
    simp only [kkLoop, hpop_natural]
    cases hpop h with
    | none => rfl
    | some p₁ =>
      obtain ⟨e₁, h₁⟩ := p₁
      simp only [Option.map_some, hpop_natural]
      cases hpop h₁ with
      | none => rfl
      | some p₂ =>
        obtain ⟨e₂, h₂⟩ := p₂
        simp only [Option.map_some]
        have : (mapEntry f e₁).bins = e₁.bins.mapItems f := rfl
        have : (mapEntry f e₂).bins = e₂.bins.mapItems f := rfl
        simp only [*, kkCombine_natural, hpush_natural]

end KKHeap

section KK
variable (f : α → β) (vα : α → Nat) (vβ : β → Nat) (hf : ∀ a, vβ (f a) = vα a)
include hf

theorem single_natural (k : Nat) (x : α) :
    single vβ k (f x) = (single vα k x).mapItems f := by
  simp only [single, mapItems_add f vα vβ hf, mapItems_new]

theorem pushAll_natural (k : Nat) (xs : List α) (h : Heap α) (c : Nat) :
    pushAll vβ k (xs.map f) (h.map (mapEntry f)) c
      = ((pushAll vα k xs h c).1.map (mapEntry f), (pushAll vα k xs h c).2) := by
  induction xs generalizing h c with
  | nil => rfl
  | cons x xs ih =>
    simp only [List.map_cons, pushAll, single_natural f vα vβ hf, hpush_natural, ih]

theorem kk_natural (k : Nat) (items : List α) :
    kk vβ k (items.map f) = (kk vα k items).map (Bins.mapItems f) := by
  simp only [kk, sortDesc_map f vα vβ hf, List.length_map]
  have h := pushAll_natural f vα vβ hf k (sortDesc vα items) [] 0
  simp only [List.map_nil] at h
  simp only [h, kkLoop_natural, htop_natural]
  cases htop (kkLoop ((sortDesc vα items).length - 1) (pushAll vα k (sortDesc vα items) [] 0).1
      (pushAll vα k (sortDesc vα items) [] 0).2) <;> rfl

omit hf in
example : kk id 3 (exItems.map Prod.fst) = (kk Prod.fst 3 exItems).map (Bins.mapItems Prod.fst) :=
  kk_natural Prod.fst Prod.fst id (fun _ => rfl) 3 exItems
omit hf in
example : (kk Prod.fst 3 exItems).map (·.sums) = .ok [8, 9, 9] := by rfl

end KK

/-! ## 4. The sums depend only on the values of the items

Instance `f := v`, `β := Nat`, `vβ := id` of naturality: running an algorithm on the items and running it on
their bare values produce the same sums (indeed the same bins, after replacing every item by its value). -/

section Values
variable (v : α → Nat)

theorem greedy_values (p : Nat) (items : List α) :
    greedy id p (items.map v) = (greedy v p items).mapItems v :=
  greedy_natural v v id (fun _ => rfl) p items

theorem greedy_sums_values (p : Nat) (items : List α) :
    (greedy v p items).sums = (greedy id p (items.map v)).sums := by
  rw [greedy_values]; rfl

example : (greedy Prod.fst 2 exItems).sums = (greedy id 2 [4, 7, 4, 2, 5, 4]).sums :=
  greedy_sums_values Prod.fst 2 exItems

theorem roundrobin_values (p : Nat) (items : List α) :
    roundrobin id p (items.map v) = (roundrobin v p items).mapItems v :=
  roundrobin_natural v v id (fun _ => rfl) p items

theorem roundrobin_sums_values (p : Nat) (items : List α) :
    (roundrobin v p items).sums = (roundrobin id p (items.map v)).sums := by
  rw [roundrobin_values]; rfl

example : (roundrobin Prod.fst 2 exItems).sums = (roundrobin id 2 [4, 7, 4, 2, 5, 4]).sums :=
  roundrobin_sums_values Prod.fst 2 exItems

theorem coverDecreasing_values (p : Nat) (items : List α) :
    coverDecreasing id p (items.map v) = (coverDecreasing v p items).mapItems v :=
  coverDecreasing_natural v v id (fun _ => rfl) p items

theorem coverDecreasing_sums_values (p : Nat) (items : List α) :
    (coverDecreasing v p items).sums = (coverDecreasing id p (items.map v)).sums := by
  rw [coverDecreasing_values]; rfl

example : (coverDecreasing Prod.fst 8 exItems).sums = (coverDecreasing id 8 [4, 7, 4, 2, 5, 4]).sums :=
  coverDecreasing_sums_values Prod.fst 8 exItems

theorem twoThirds_values (p : Nat) (items : List α) :
    twoThirds id p (items.map v) = (twoThirds v p items).mapItems v :=
  twoThirds_natural v v id (fun _ => rfl) p items

theorem twoThirds_sums_values (p : Nat) (items : List α) :
    (twoThirds v p items).sums = (twoThirds id p (items.map v)).sums := by
  rw [twoThirds_values]; rfl

example : (twoThirds Prod.fst 8 exItems).sums = (twoThirds id 8 [4, 7, 4, 2, 5, 4]).sums :=
  twoThirds_sums_values Prod.fst 8 exItems

theorem threeQuarters_values (p : Nat) (items : List α) :
    threeQuarters id p (items.map v) = (threeQuarters v p items).mapItems v :=
  threeQuarters_natural v v id (fun _ => rfl) p items

theorem threeQuarters_sums_values (p : Nat) (items : List α) :
    (threeQuarters v p items).sums = (threeQuarters id p (items.map v)).sums := by
  rw [threeQuarters_values]; rfl

example : (threeQuarters Prod.fst 8 exItems).sums = (threeQuarters id 8 [4, 7, 4, 2, 5, 4]).sums :=
  threeQuarters_sums_values Prod.fst 8 exItems

theorem ffOnline_values (p : Nat) (items : List α) :
    ffOnline id p (items.map v) = (ffOnline v p items).map (Bins.mapItems v) :=
  ffOnline_natural v v id (fun _ => rfl) p items

theorem ffOnline_sums_values (p : Nat) (items : List α) :
    (ffOnline v p items).map (·.sums) = (ffOnline id p (items.map v)).map (·.sums) := by
  rw [ffOnline_values, except_map_sums]

example : (ffOnline Prod.fst 10 exItems).map (·.sums) = (ffOnline id 10 [4, 7, 4, 2, 5, 4]).map (·.sums) :=
  ffOnline_sums_values Prod.fst 10 exItems

theorem ffDecreasing_values (p : Nat) (items : List α) :
    ffDecreasing id p (items.map v) = (ffDecreasing v p items).map (Bins.mapItems v) :=
  ffDecreasing_natural v v id (fun _ => rfl) p items

theorem ffDecreasing_sums_values (p : Nat) (items : List α) :
    (ffDecreasing v p items).map (·.sums) = (ffDecreasing id p (items.map v)).map (·.sums) := by
  rw [ffDecreasing_values, except_map_sums]

example : (ffDecreasing Prod.fst 10 exItems).map (·.sums) = (ffDecreasing id 10 [4, 7, 4, 2, 5, 4]).map (·.sums) :=
  ffDecreasing_sums_values Prod.fst 10 exItems

theorem bfOnline_values (p : Nat) (items : List α) :
    bfOnline id p (items.map v) = (bfOnline v p items).map (Bins.mapItems v) :=
  bfOnline_natural v v id (fun _ => rfl) p items

theorem bfOnline_sums_values (p : Nat) (items : List α) :
    (bfOnline v p items).map (·.sums) = (bfOnline id p (items.map v)).map (·.sums) := by
  rw [bfOnline_values, except_map_sums]

example : (bfOnline Prod.fst 10 exItems).map (·.sums) = (bfOnline id 10 [4, 7, 4, 2, 5, 4]).map (·.sums) :=
  bfOnline_sums_values Prod.fst 10 exItems

theorem bfDecreasing_values (p : Nat) (items : List α) :
    bfDecreasing id p (items.map v) = (bfDecreasing v p items).map (Bins.mapItems v) :=
  bfDecreasing_natural v v id (fun _ => rfl) p items

theorem bfDecreasing_sums_values (p : Nat) (items : List α) :
    (bfDecreasing v p items).map (·.sums) = (bfDecreasing id p (items.map v)).map (·.sums) := by
  rw [bfDecreasing_values, except_map_sums]

example : (bfDecreasing Prod.fst 10 exItems).map (·.sums) = (bfDecreasing id 10 [4, 7, 4, 2, 5, 4]).map (·.sums) :=
  bfDecreasing_sums_values Prod.fst 10 exItems

theorem kk_values (p : Nat) (items : List α) :
    kk id p (items.map v) = (kk v p items).map (Bins.mapItems v) :=
  kk_natural v v id (fun _ => rfl) p items

theorem kk_sums_values (p : Nat) (items : List α) :
    (kk v p items).map (·.sums) = (kk id p (items.map v)).map (·.sums) := by
  rw [kk_values, except_map_sums]

example : (kk Prod.fst 3 exItems).map (·.sums) = (kk id 3 [4, 7, 4, 2, 5, 4]).map (·.sums) :=
  kk_sums_values Prod.fst 3 exItems

theorem multifit_values (k : Nat) (items : List α) (iterations : Nat) :
    multifit id k (items.map v) iterations = (multifit v k items iterations).map (Bins.mapItems v) :=
  multifit_natural v v id (fun _ => rfl) k items iterations

theorem multifit_sums_values (k : Nat) (items : List α) (iterations : Nat) :
    (multifit v k items iterations).map (·.sums)
      = (multifit id k (items.map v) iterations).map (·.sums) := by
  rw [multifit_values, except_map_sums]

example : (multifit Prod.fst 2 exItems 5).map (·.sums) = (multifit id 2 [4, 7, 4, 2, 5, 4] 5).map (·.sums) :=
  multifit_sums_values Prod.fst 2 exItems 5

end Values

/-! ## 5. Permutation invariance

On bare values (`v = id`) an algorithm that sorts its input only sees the sorted list, and the sorted list of
values is the same for every presentation of the input. -/

theorem sortDesc_id_perm {L₁ L₂ : List Nat} (h : L₁.Perm L₂) : sortDesc id L₁ = sortDesc id L₂ :=
  List.Perm.eq_of_pairwise (le := fun a b => b ≤ a)
    (fun _ _ _ _ h₁ h₂ => Nat.le_antisymm h₂ h₁)
    (Part.sortDesc_sorted id L₁) (Part.sortDesc_sorted id L₂)
    ((Part.sortDesc_perm id L₁).trans (h.trans (Part.sortDesc_perm id L₂).symm))

theorem sortDesc_values_perm (v : α → Nat) {l₁ l₂ : List α} (h : l₁.Perm l₂) :
    (sortDesc v l₁).map v = (sortDesc v l₂).map v := by
  rw [← sortDesc_map v v id (fun _ => rfl), ← sortDesc_map v v id (fun _ => rfl)]
  exact sortDesc_id_perm (h.map v)

example : (sortDesc Prod.fst [(2, 'a'), (3, 'b'), (2, 'c')]).map Prod.fst
    = (sortDesc Prod.fst [(2, 'c'), (2, 'a'), (3, 'b')]).map Prod.fst :=
  sortDesc_values_perm _ (by decide)

/-- the sorted lists themselves differ (ties keep input order): only the values agree -/
example : sortDesc Prod.fst [(2, 'a'), (3, 'b'), (2, 'c')]
    ≠ sortDesc Prod.fst [(2, 'c'), (2, 'a'), (3, 'b')] := by decide

theorem maxL_perm {L₁ L₂ : List Nat} (h : L₁.Perm L₂) : maxL L₁ = maxL L₂ := by
  induction h with
  | nil => rfl
  | cons x _ ih => simp only [maxL, ih]
  | swap x y l => simp only [maxL]; omega
  | trans _ _ ih₁ ih₂ => exact ih₁.trans ih₂

section PermId
variable {L₁ L₂ : List Nat} (h : L₁.Perm L₂)
include h

theorem greedy_id_perm (p : Nat) : greedy id p L₁ = greedy id p L₂ := by
  simp only [greedy, sortDesc_id_perm h]

theorem roundrobin_id_perm (p : Nat) : roundrobin id p L₁ = roundrobin id p L₂ := by
  simp only [roundrobin, sortDesc_id_perm h]

theorem ffDecreasing_id_perm (p : Nat) : ffDecreasing id p L₁ = ffDecreasing id p L₂ := by
  simp only [ffDecreasing, sortDesc_id_perm h]

theorem bfDecreasing_id_perm (p : Nat) : bfDecreasing id p L₁ = bfDecreasing id p L₂ := by
  simp only [bfDecreasing, sortDesc_id_perm h]

theorem coverDecreasing_id_perm (p : Nat) : coverDecreasing id p L₁ = coverDecreasing id p L₂ := by
  simp only [coverDecreasing, sortDesc_id_perm h]

theorem twoThirds_id_perm (p : Nat) : twoThirds id p L₁ = twoThirds id p L₂ := by
  simp only [twoThirds, sortDesc_id_perm h]

theorem threeQuarters_id_perm (p : Nat) : threeQuarters id p L₁ = threeQuarters id p L₂ := by
  simp only [threeQuarters, sortDesc_id_perm h]

theorem kk_id_perm (p : Nat) : kk id p L₁ = kk id p L₂ := by
  simp only [kk, sortDesc_id_perm h]

theorem multifit_id_perm (k iterations : Nat) : multifit id k L₁ iterations = multifit id k L₂ iterations := by
  simp only [multifit, List.map_id, Part.sumL_perm h, maxL_perm h, sortDesc_id_perm h]

end PermId

section Perm
variable (v : α → Nat) {items₁ items₂ : List α} (h : items₁.Perm items₂)
include h

/-- generalisation of `greedy_perm_sums`: after replacing every item by its value, the whole output agrees -/
theorem greedy_perm_values (p : Nat) :
    (greedy v p items₁).mapItems v = (greedy v p items₂).mapItems v := by
  rw [← greedy_values, ← greedy_values]
  exact greedy_id_perm (h.map v) p

theorem greedy_perm_sums (p : Nat) : (greedy v p items₁).sums = (greedy v p items₂).sums := by
  have := congrArg Bins.sums (greedy_perm_values v h p)
  exact this

omit h in
/-- the contents do depend on the presentation (ties), only the values do not -/
example : (greedy Prod.fst 2 exItems).lists ≠ (greedy Prod.fst 2 exItems').lists := by decide

omit h in
example : (greedy Prod.fst 2 exItems).sums = (greedy Prod.fst 2 exItems').sums :=
  greedy_perm_sums Prod.fst exItems_perm 2

/-- generalisation of `roundrobin_perm_sums`: after replacing every item by its value, the whole output agrees -/
theorem roundrobin_perm_values (p : Nat) :
    (roundrobin v p items₁).mapItems v = (roundrobin v p items₂).mapItems v := by
  rw [← roundrobin_values, ← roundrobin_values]
  exact roundrobin_id_perm (h.map v) p

theorem roundrobin_perm_sums (p : Nat) : (roundrobin v p items₁).sums = (roundrobin v p items₂).sums := by
  have := congrArg Bins.sums (roundrobin_perm_values v h p)
  exact this

omit h in
example : (roundrobin Prod.fst 2 exItems).sums = (roundrobin Prod.fst 2 exItems').sums :=
  roundrobin_perm_sums Prod.fst exItems_perm 2

/-- generalisation of `coverDecreasing_perm_sums`: after replacing every item by its value, the whole output agrees -/
theorem coverDecreasing_perm_values (p : Nat) :
    (coverDecreasing v p items₁).mapItems v = (coverDecreasing v p items₂).mapItems v := by
  rw [← coverDecreasing_values, ← coverDecreasing_values]
  exact coverDecreasing_id_perm (h.map v) p

theorem coverDecreasing_perm_sums (p : Nat) : (coverDecreasing v p items₁).sums = (coverDecreasing v p items₂).sums := by
  have := congrArg Bins.sums (coverDecreasing_perm_values v h p)
  exact this

omit h in
example : (coverDecreasing Prod.fst 8 exItems).sums = (coverDecreasing Prod.fst 8 exItems').sums :=
  coverDecreasing_perm_sums Prod.fst exItems_perm 8

/-- generalisation of `twoThirds_perm_sums`: after replacing every item by its value, the whole output agrees -/
theorem twoThirds_perm_values (p : Nat) :
    (twoThirds v p items₁).mapItems v = (twoThirds v p items₂).mapItems v := by
  rw [← twoThirds_values, ← twoThirds_values]
  exact twoThirds_id_perm (h.map v) p

theorem twoThirds_perm_sums (p : Nat) : (twoThirds v p items₁).sums = (twoThirds v p items₂).sums := by
  have := congrArg Bins.sums (twoThirds_perm_values v h p)
  exact this

omit h in
example : (twoThirds Prod.fst 8 exItems).sums = (twoThirds Prod.fst 8 exItems').sums :=
  twoThirds_perm_sums Prod.fst exItems_perm 8

/-- generalisation of `threeQuarters_perm_sums`: after replacing every item by its value, the whole output agrees -/
theorem threeQuarters_perm_values (p : Nat) :
    (threeQuarters v p items₁).mapItems v = (threeQuarters v p items₂).mapItems v := by
  rw [← threeQuarters_values, ← threeQuarters_values]
  exact threeQuarters_id_perm (h.map v) p

theorem threeQuarters_perm_sums (p : Nat) : (threeQuarters v p items₁).sums = (threeQuarters v p items₂).sums := by
  have := congrArg Bins.sums (threeQuarters_perm_values v h p)
  exact this

omit h in
example : (threeQuarters Prod.fst 8 exItems).sums = (threeQuarters Prod.fst 8 exItems').sums :=
  threeQuarters_perm_sums Prod.fst exItems_perm 8

/-- generalisation of `ffDecreasing_perm_sums`: after replacing every item by its value, the whole output agrees -/
theorem ffDecreasing_perm_values (p : Nat) :
    (ffDecreasing v p items₁).map (Bins.mapItems v) = (ffDecreasing v p items₂).map (Bins.mapItems v) := by
  rw [← ffDecreasing_values, ← ffDecreasing_values]
  exact ffDecreasing_id_perm (h.map v) p

theorem ffDecreasing_perm_sums (p : Nat) :
    (ffDecreasing v p items₁).map (·.sums) = (ffDecreasing v p items₂).map (·.sums) := by
  have := congrArg (Except.map (·.sums)) (ffDecreasing_perm_values v h p)
  rwa [except_map_sums, except_map_sums] at this

omit h in
example : (ffDecreasing Prod.fst 10 exItems).map (·.sums) = (ffDecreasing Prod.fst 10 exItems').map (·.sums) :=
  ffDecreasing_perm_sums Prod.fst exItems_perm 10

/-- generalisation of `bfDecreasing_perm_sums`: after replacing every item by its value, the whole output agrees -/
theorem bfDecreasing_perm_values (p : Nat) :
    (bfDecreasing v p items₁).map (Bins.mapItems v) = (bfDecreasing v p items₂).map (Bins.mapItems v) := by
  rw [← bfDecreasing_values, ← bfDecreasing_values]
  exact bfDecreasing_id_perm (h.map v) p

theorem bfDecreasing_perm_sums (p : Nat) :
    (bfDecreasing v p items₁).map (·.sums) = (bfDecreasing v p items₂).map (·.sums) := by
  have := congrArg (Except.map (·.sums)) (bfDecreasing_perm_values v h p)
  rwa [except_map_sums, except_map_sums] at this

omit h in
example : (bfDecreasing Prod.fst 10 exItems).map (·.sums) = (bfDecreasing Prod.fst 10 exItems').map (·.sums) :=
  bfDecreasing_perm_sums Prod.fst exItems_perm 10

/-- generalisation of `kk_perm_sums`: after replacing every item by its value, the whole output agrees -/
theorem kk_perm_values (p : Nat) :
    (kk v p items₁).map (Bins.mapItems v) = (kk v p items₂).map (Bins.mapItems v) := by
  rw [← kk_values, ← kk_values]
  exact kk_id_perm (h.map v) p

theorem kk_perm_sums (p : Nat) :
    (kk v p items₁).map (·.sums) = (kk v p items₂).map (·.sums) := by
  have := congrArg (Except.map (·.sums)) (kk_perm_values v h p)
  rwa [except_map_sums, except_map_sums] at this

omit h in
example : (kk Prod.fst 3 exItems).map (·.sums) = (kk Prod.fst 3 exItems').map (·.sums) :=
  kk_perm_sums Prod.fst exItems_perm 3

/-- generalisation of `multifit_perm_sums` -/
theorem multifit_perm_values (k iterations : Nat) :
    (multifit v k items₁ iterations).map (Bins.mapItems v)
      = (multifit v k items₂ iterations).map (Bins.mapItems v) := by
  rw [← multifit_values, ← multifit_values]
  exact multifit_id_perm (h.map v) k iterations

theorem multifit_perm_sums (k iterations : Nat) :
    (multifit v k items₁ iterations).map (·.sums) = (multifit v k items₂ iterations).map (·.sums) := by
  have := congrArg (Except.map (·.sums)) (multifit_perm_values v h k iterations)
  rwa [except_map_sums, except_map_sums] at this

omit h in
example : (multifit Prod.fst 2 exItems 5).map (·.sums) = (multifit Prod.fst 2 exItems' 5).map (·.sums) :=
  multifit_perm_sums Prod.fst exItems_perm 2 5

end Perm

/-! ## 6. CBLDM -/

theorem ite_map {σ τ : Type} {c : Prop} [Decidable c] (g : σ → τ) {a b : σ} {a' b' : τ}
    (ha : a' = g a) (hb : b' = g b) : (if c then a' else b') = g (if c then a else b) := by
  split <;> assumption

/-- rename the items of a CBLDM search state -/
def mapCbState (f : α → β) (st : CbState α) : CbState β :=
  ⟨st.best.map (Bins.mapItems f), st.sd, st.opt, st.tick⟩

section CBLDM
variable (f : α → β)

theorem sumDiff_mapItems (b : Bins α) : sumDiff (b.mapItems f) = sumDiff b := rfl

theorem lenDiff_mapItems (b : Bins α) : lenDiff (b.mapItems f) = lenDiff b := by
  simp only [lenDiff, mapItems_lists, getD_map_map, List.length_map]

theorem cbCombine_natural (a b : Bins α) :
    cbCombine (a.mapItems f) (b.mapItems f) = (cbCombine a b).mapItems f := by
  unfold cbCombine
  rw [mapItems_sortAsc]
  simp only [Bins.mapItems, getD_map_map, List.map_cons, List.map_nil, List.map_append]

theorem cbSplit_natural (a b : Bins α) :
    cbSplit (a.mapItems f) (b.mapItems f) = (cbSplit a b).mapItems f := by
  unfold cbSplit
  rw [mapItems_sortAsc]
  simp only [Bins.mapItems, getD_map_map, List.map_cons, List.map_nil, List.map_append]

@[simp] theorem mapCbState_best (st : CbState α) :
    (mapCbState f st).best = st.best.map (Bins.mapItems f) := rfl
@[simp] theorem mapCbState_sd (st : CbState α) : (mapCbState f st).sd = st.sd := rfl
@[simp] theorem mapCbState_opt (st : CbState α) : (mapCbState f st).opt = st.opt := rfl
@[simp] theorem mapCbState_tick (st : CbState α) : (mapCbState f st).tick = st.tick := rfl

theorem cbPart_natural (n d : Nat) (cut : Option Nat) (fuel : Nat) (st : CbState α) (subs : List (Bins α)) :
    cbPart n d cut fuel (mapCbState f st) (subs.map (Bins.mapItems f))
      = mapCbState f (cbPart n d cut fuel st subs) := by
  induction fuel generalizing st subs with
  | zero => rfl
  | succ fuel ih =>
    have h1 : (sumDiff ∘ Bins.mapItems f : Bins α → Nat) = sumDiff := rfl
    have h2 : (lenDiff ∘ Bins.mapItems f : Bins α → Nat) = lenDiff := funext (lenDiff_mapItems f)
    have hst : (⟨st.best.map (Bins.mapItems f), st.sd, st.opt, st.tick + 1⟩ : CbState β)
        = mapCbState f ⟨st.best, st.sd, st.opt, st.tick + 1⟩ := rfl
    match subs with
    | [] =>
      simp only [cbPart, List.map_nil, mapCbState_best, mapCbState_sd, mapCbState_opt, mapCbState_tick]
      exact ite_map _ rfl rfl
    | [p] =>
      simp only [cbPart, List.map_cons, List.map_nil, mapCbState_best, mapCbState_sd, mapCbState_opt,
        mapCbState_tick, sumDiff_mapItems, lenDiff_mapItems]
      exact ite_map _ rfl (ite_map _ rfl rfl)
    | p :: q :: rest =>
      simp only [cbPart, List.map_cons, mapCbState_best, mapCbState_sd, mapCbState_opt, mapCbState_tick]
      simp only [← List.map_cons]
      generalize p :: q :: rest = subs
      simp only [List.map_map, List.length_map, h1, h2]
      refine ite_map _ rfl (ite_map _ rfl (ite_map _ rfl ?_))
      rw [sortDesc_map (Bins.mapItems f) sumDiff sumDiff (fun _ => rfl), ← apply_ite (List.map (Bins.mapItems f))]
      generalize (if decide (subs.length ≤ (n + 1) / 2) = true then sortDesc sumDiff subs else subs) = L
      match L with
      | [] => rfl
      | [a] => rfl
      | a :: b :: rest =>
        have happ : ∀ x : Bins α, rest.map (Bins.mapItems f) ++ [x.mapItems f]
            = (rest ++ [x]).map (Bins.mapItems f) := fun x => by
          simp only [List.map_append, List.map_cons, List.map_nil]
        simp only [List.map_cons, cbSplit_natural, cbCombine_natural, happ, hst, ih]

theorem cbldm_natural (vα : α → Nat) (vβ : β → Nat) (hf : ∀ a, vβ (f a) = vα a)
    (items : List α) (d cut : Option Nat) :
    cbldm vβ (items.map f) d cut = (cbldm vα items d cut).map (Bins.mapItems f) := by
  have hsub : ((sortDesc vα items).map f).map (fun x => (Bins.new 2).add vβ x 1)
      = ((sortDesc vα items).map (fun x => (Bins.new 2).add vα x 1)).map (Bins.mapItems f) := by
    simp only [List.map_map]
    apply List.map_congr_left
    intro x _
    simp only [Function.comp, mapItems_add f vα vβ hf, mapItems_new]
  have hinit : ({ best := none, sd := none, opt := false, tick := 0 } : CbState β)
      = mapCbState f { best := none, sd := none, opt := false, tick := 0 } := rfl
  simp only [cbldm, sortDesc_map f vα vβ hf, List.length_map, hsub, hinit, cbPart_natural,
    mapCbState_best]

example : cbldm id (exItems.map Prod.fst) (some 1) none
    = (cbldm Prod.fst exItems (some 1) none).map (Bins.mapItems Prod.fst) :=
  cbldm_natural Prod.fst Prod.fst id (fun _ => rfl) exItems (some 1) none
example : (cbldm Prod.fst exItems (some 1) none).map (·.sums) = some [13, 13] := by decide

end CBLDM

/-! ## 7. Complete greedy -/

/-- rename the items of a stack vertex -/
def mapVertex (f : α → β) (p : Bins α × Nat) : Bins β × Nat := (p.1.mapItems f, p.2)

/-- rename the items of a complete-greedy search state -/
def mapCgState (f : α → β) (s : CgState α) : CgState β :=
  ⟨s.stack.map (mapVertex f), s.seen, s.best.map (Bins.mapItems f), s.bestV, s.done⟩

section CG
variable (f : α → β) (vα : α → Nat) (vβ : β → Nat) (hf : ∀ a, vβ (f a) = vα a)
include hf

theorem remFrom_map (sorted : List α) (d : Nat) : remFrom vβ (sorted.map f) d = remFrom vα sorted d := by
  simp only [remFrom, ← List.map_drop, binSum_map f vα vβ hf]

theorem cgChildren_natural (cfg : CgCfg) (k : Nat) (cur : Bins α) (depth : Nat) (x : α) (r : Nat)
    (bestV : EInt) (bs : List Nat) (prev : Option Nat) (seen : List (Nat × List Nat))
    (acc : List (Bins α × Nat)) :
    cgChildren vβ cfg k (cur.mapItems f) depth (f x) r bestV bs prev seen (acc.map (mapVertex f))
      = Prod.map (List.map (mapVertex f)) id (cgChildren vα cfg k cur depth x r bestV bs prev seen acc) := by
  induction bs generalizing prev seen acc with
  | nil => simp only [cgChildren, Prod.map, List.map_reverse, id]
  | cons b bs ih =>
    have hcons : ∀ nb : Bins α, (nb.mapItems f, depth + 1) :: acc.map (mapVertex f)
        = ((nb, depth + 1) :: acc).map (mapVertex f) := fun _ => rfl
    simp only [cgChildren, mapItems_sums, hf, ← mapItems_add f vα vβ hf, ← mapItems_sortAsc, hcons, ih]
    exact ite_map _ rfl (ite_map _ rfl (ite_map _ rfl (ite_map _ (ite_map _ rfl rfl) rfl)))

theorem cgStep_natural (cfg : CgCfg) (k : Nat) (sorted : List α) (glb : EInt) (s : CgState α) :
    cgStep vβ cfg k (sorted.map f) glb (mapCgState f s)
      = mapCgState f (cgStep vα cfg k sorted glb s) := by
  obtain ⟨stack, seen, best, bestV, done⟩ := s
  match stack with
  | [] => rfl
  | (cur, depth) :: stack =>
    rw [show mapCgState f ⟨(cur, depth) :: stack, seen, best, bestV, done⟩
        = ⟨(cur.mapItems f, depth) :: stack.map (mapVertex f), seen, best.map (Bins.mapItems f), bestV, done⟩
        from rfl]
    simp only [cgStep, List.length_map, mapItems_sums, remFrom_map f vα vβ hf, List.getElem?_map]
    refine ite_map _ (ite_map _ (ite_map _ rfl rfl) rfl) (ite_map _ ?_ ?_)
    · have hfold := foldl_natural f (Bins.mapItems f) (fun b x => Bins.add vα b x 0)
        (fun b x => Bins.add vβ b x 0) (fun b x => (mapItems_add f vα vβ hf b x 0).symm)
        (sorted.drop depth) cur
      rw [← List.map_drop, hfold, ← mapItems_sortAsc]
      rfl
    · cases sorted[depth]? with
      | none => rfl
      | some x =>
        have hch := cgChildren_natural f vα vβ hf cfg k cur depth x (remFrom vα sorted (depth + 1)) bestV
          (List.range k).reverse none seen []
        simp only [List.map_nil] at hch
        simp only [Option.map_some, hch, Prod.map, id, ← List.map_reverse, ← List.map_append]
        rfl

theorem cgRun_natural (cfg : CgCfg) (k : Nat) (sorted : List α) (glb : EInt) (t : Nat) (s : CgState α) :
    cgRun vβ cfg k (sorted.map f) glb t (mapCgState f s)
      = mapCgState f (cgRun vα cfg k sorted glb t s) := by
  induction t generalizing s with
  | zero => rfl
  | succ t ih =>
    rw [cgRun, cgRun]
    refine ite_map _ rfl ?_
    rw [cgStep_natural f vα vβ hf, ih]
    obtain ⟨stack, seen, best, bestV, done⟩ := s
    cases stack <;> rfl

theorem cg_natural (cfg : CgCfg) (k : Nat) (items : List α) (cut : Option Nat) (fuel : Nat) :
    cg vβ cfg k (items.map f) cut fuel
      = (cg vα cfg k items cut fuel).map (Option.map (Bins.mapItems f)) := by
  have hinit : (cgInit k : CgState β) = mapCgState f (cgInit k) := by
    simp only [cgInit, mapCgState, List.map_cons, List.map_nil, mapVertex, mapItems_new, Option.map_none]
  simp only [cg, sortDesc_map f vα vβ hf, remFrom_map f vα vβ hf, hinit, cgRun_natural f vα vβ hf]
  cases cut with
  | some c => rfl
  | none =>
    simp only [mapCgState, List.isEmpty_map]
    split <;> rfl

omit hf in
example : cg id ⟨.minLargest, true, true, true, true⟩ 3 (exItems.map Prod.fst) none 1000
    = (cg Prod.fst ⟨.minLargest, true, true, true, true⟩ 3 exItems none 1000).map
        (Option.map (Bins.mapItems Prod.fst)) :=
  cg_natural Prod.fst Prod.fst id (fun _ => rfl) _ 3 exItems none 1000
omit hf in
example : (cg Prod.fst ⟨.minLargest, true, true, true, true⟩ 3 exItems none 1000).map (Option.map (·.sums))
    = .ok (some [8, 9, 9]) := by rfl

end CG

/-! ## 8. Bonus: the sums of CBLDM and complete greedy depend only on the multiset of values -/

theorem option_map_sums (f : α → β) (o : Option (Bins α)) :
    (o.map (Bins.mapItems f)).map (·.sums) = o.map (·.sums) := by
  cases o <;> rfl

theorem except_option_map_sums (f : α → β) (e : Except Err (Option (Bins α))) :
    (e.map (Option.map (Bins.mapItems f))).map (Option.map (·.sums)) = e.map (Option.map (·.sums)) := by
  cases e with
  | error _ => rfl
  | ok o => cases o <;> rfl

theorem cbldm_id_perm {L₁ L₂ : List Nat} (h : L₁.Perm L₂) (d cut : Option Nat) :
    cbldm id L₁ d cut = cbldm id L₂ d cut := by
  simp only [cbldm, sortDesc_id_perm h]

theorem cg_id_perm {L₁ L₂ : List Nat} (h : L₁.Perm L₂) (cfg : CgCfg) (k : Nat) (cut : Option Nat) (fuel : Nat) :
    cg id cfg k L₁ cut fuel = cg id cfg k L₂ cut fuel := by
  simp only [cg, sortDesc_id_perm h]

theorem cbldm_perm_sums (v : α → Nat) {items₁ items₂ : List α} (h : items₁.Perm items₂) (d cut : Option Nat) :
    (cbldm v items₁ d cut).map (·.sums) = (cbldm v items₂ d cut).map (·.sums) := by
  have h₁ := cbldm_natural v v id (fun _ => rfl) items₁ d cut
  have h₂ := cbldm_natural v v id (fun _ => rfl) items₂ d cut
  rw [cbldm_id_perm (h.map v)] at h₁
  have := congrArg (Option.map (·.sums)) (h₁.symm.trans h₂)
  rwa [option_map_sums, option_map_sums] at this

example : (cbldm Prod.fst exItems (some 1) none).map (·.sums)
    = (cbldm Prod.fst exItems' (some 1) none).map (·.sums) :=
  cbldm_perm_sums Prod.fst exItems_perm _ _

theorem cg_perm_sums (v : α → Nat) {items₁ items₂ : List α} (h : items₁.Perm items₂)
    (cfg : CgCfg) (k : Nat) (cut : Option Nat) (fuel : Nat) :
    (cg v cfg k items₁ cut fuel).map (Option.map (·.sums))
      = (cg v cfg k items₂ cut fuel).map (Option.map (·.sums)) := by
  have h₁ := cg_natural v v id (fun _ => rfl) cfg k items₁ cut fuel
  have h₂ := cg_natural v v id (fun _ => rfl) cfg k items₂ cut fuel
  rw [cg_id_perm (h.map v)] at h₁
  have := congrArg (Except.map (Option.map (·.sums))) (h₁.symm.trans h₂)
  rwa [except_option_map_sums, except_option_map_sums] at this

example : (cg Prod.fst ⟨.minLargest, true, true, true, true⟩ 3 exItems none 1000).map (Option.map (·.sums))
    = (cg Prod.fst ⟨.minLargest, true, true, true, true⟩ 3 exItems' none 1000).map (Option.map (·.sums)) :=
  cg_perm_sums Prod.fst exItems_perm _ 3 none 1000

end Prtpy.Natural

/-
Axiom audit (output of `#print axioms` observed for every main theorem; only `propext`, `Classical.choice`,
`Quot.sound` occur):

#print axioms mapItems_sums
  -- 'Prtpy.Natural.mapItems_sums' does not depend on any axioms
#print axioms mapItems_new
  -- 'Prtpy.Natural.mapItems_new' depends on axioms: [propext]
#print axioms mapItems_add
  -- 'Prtpy.Natural.mapItems_add' depends on axioms: [propext, Quot.sound]
#print axioms mapItems_addLast
  -- 'Prtpy.Natural.mapItems_addLast' depends on axioms: [propext, Quot.sound]
#print axioms mapItems_addEmpty
  -- 'Prtpy.Natural.mapItems_addEmpty' depends on axioms: [propext]
#print axioms mapItems_removeLast
  -- 'Prtpy.Natural.mapItems_removeLast' depends on axioms: [propext]
#print axioms mapItems_concat
  -- 'Prtpy.Natural.mapItems_concat' depends on axioms: [propext]
#print axioms mapItems_combine
  -- 'Prtpy.Natural.mapItems_combine' depends on axioms: [propext, Quot.sound]
#print axioms mapItems_sortAsc
  -- 'Prtpy.Natural.mapItems_sortAsc' depends on axioms: [propext]
#print axioms sortDesc_map
  -- 'Prtpy.Natural.sortDesc_map' depends on axioms: [propext]
#print axioms sortAsc_map
  -- 'Prtpy.Natural.sortAsc_map' depends on axioms: [propext]
#print axioms greedy_natural
  -- 'Prtpy.Natural.greedy_natural' depends on axioms: [propext, Quot.sound]
#print axioms roundrobin_natural
  -- 'Prtpy.Natural.roundrobin_natural' depends on axioms: [propext, Quot.sound]
#print axioms ffOnline_natural
  -- 'Prtpy.Natural.ffOnline_natural' depends on axioms: [propext, Quot.sound]
#print axioms ffDecreasing_natural
  -- 'Prtpy.Natural.ffDecreasing_natural' depends on axioms: [propext, Quot.sound]
#print axioms bfOnline_natural
  -- 'Prtpy.Natural.bfOnline_natural' depends on axioms: [propext, Quot.sound]
#print axioms bfDecreasing_natural
  -- 'Prtpy.Natural.bfDecreasing_natural' depends on axioms: [propext, Quot.sound]
#print axioms multifit_natural
  -- 'Prtpy.Natural.multifit_natural' depends on axioms: [propext, Classical.choice, Quot.sound]
#print axioms coverDecreasing_natural
  -- 'Prtpy.Natural.coverDecreasing_natural' depends on axioms: [propext, Quot.sound]
#print axioms twoThirds_natural
  -- 'Prtpy.Natural.twoThirds_natural' depends on axioms: [propext, Quot.sound]
#print axioms threeQuarters_natural
  -- 'Prtpy.Natural.threeQuarters_natural' depends on axioms: [propext, Quot.sound]
#print axioms kk_natural
  -- 'Prtpy.Natural.kk_natural' depends on axioms: [propext, Quot.sound]
#print axioms greedy_values
  -- 'Prtpy.Natural.greedy_values' depends on axioms: [propext, Quot.sound]
#print axioms greedy_sums_values
  -- 'Prtpy.Natural.greedy_sums_values' depends on axioms: [propext, Quot.sound]
#print axioms roundrobin_values
  -- 'Prtpy.Natural.roundrobin_values' depends on axioms: [propext, Quot.sound]
#print axioms roundrobin_sums_values
  -- 'Prtpy.Natural.roundrobin_sums_values' depends on axioms: [propext, Quot.sound]
#print axioms coverDecreasing_values
  -- 'Prtpy.Natural.coverDecreasing_values' depends on axioms: [propext, Quot.sound]
#print axioms coverDecreasing_sums_values
  -- 'Prtpy.Natural.coverDecreasing_sums_values' depends on axioms: [propext, Quot.sound]
#print axioms twoThirds_values
  -- 'Prtpy.Natural.twoThirds_values' depends on axioms: [propext, Quot.sound]
#print axioms twoThirds_sums_values
  -- 'Prtpy.Natural.twoThirds_sums_values' depends on axioms: [propext, Quot.sound]
#print axioms threeQuarters_values
  -- 'Prtpy.Natural.threeQuarters_values' depends on axioms: [propext, Quot.sound]
#print axioms threeQuarters_sums_values
  -- 'Prtpy.Natural.threeQuarters_sums_values' depends on axioms: [propext, Quot.sound]
#print axioms ffOnline_values
  -- 'Prtpy.Natural.ffOnline_values' depends on axioms: [propext, Quot.sound]
#print axioms ffOnline_sums_values
  -- 'Prtpy.Natural.ffOnline_sums_values' depends on axioms: [propext, Quot.sound]
#print axioms ffDecreasing_values
  -- 'Prtpy.Natural.ffDecreasing_values' depends on axioms: [propext, Quot.sound]
#print axioms ffDecreasing_sums_values
  -- 'Prtpy.Natural.ffDecreasing_sums_values' depends on axioms: [propext, Quot.sound]
#print axioms bfOnline_values
  -- 'Prtpy.Natural.bfOnline_values' depends on axioms: [propext, Quot.sound]
#print axioms bfOnline_sums_values
  -- 'Prtpy.Natural.bfOnline_sums_values' depends on axioms: [propext, Quot.sound]
#print axioms bfDecreasing_values
  -- 'Prtpy.Natural.bfDecreasing_values' depends on axioms: [propext, Quot.sound]
#print axioms bfDecreasing_sums_values
  -- 'Prtpy.Natural.bfDecreasing_sums_values' depends on axioms: [propext, Quot.sound]
#print axioms kk_values
  -- 'Prtpy.Natural.kk_values' depends on axioms: [propext, Quot.sound]
#print axioms kk_sums_values
  -- 'Prtpy.Natural.kk_sums_values' depends on axioms: [propext, Quot.sound]
#print axioms multifit_values
  -- 'Prtpy.Natural.multifit_values' depends on axioms: [propext, Classical.choice, Quot.sound]
#print axioms multifit_sums_values
  -- 'Prtpy.Natural.multifit_sums_values' depends on axioms: [propext, Classical.choice, Quot.sound]
#print axioms sortDesc_id_perm
  -- 'Prtpy.Natural.sortDesc_id_perm' depends on axioms: [propext, Quot.sound]
#print axioms sortDesc_values_perm
  -- 'Prtpy.Natural.sortDesc_values_perm' depends on axioms: [propext, Quot.sound]
#print axioms greedy_perm_values
  -- 'Prtpy.Natural.greedy_perm_values' depends on axioms: [propext, Quot.sound]
#print axioms greedy_perm_sums
  -- 'Prtpy.Natural.greedy_perm_sums' depends on axioms: [propext, Quot.sound]
#print axioms roundrobin_perm_values
  -- 'Prtpy.Natural.roundrobin_perm_values' depends on axioms: [propext, Quot.sound]
#print axioms roundrobin_perm_sums
  -- 'Prtpy.Natural.roundrobin_perm_sums' depends on axioms: [propext, Quot.sound]
#print axioms coverDecreasing_perm_values
  -- 'Prtpy.Natural.coverDecreasing_perm_values' depends on axioms: [propext, Quot.sound]
#print axioms coverDecreasing_perm_sums
  -- 'Prtpy.Natural.coverDecreasing_perm_sums' depends on axioms: [propext, Quot.sound]
#print axioms twoThirds_perm_values
  -- 'Prtpy.Natural.twoThirds_perm_values' depends on axioms: [propext, Quot.sound]
#print axioms twoThirds_perm_sums
  -- 'Prtpy.Natural.twoThirds_perm_sums' depends on axioms: [propext, Quot.sound]
#print axioms threeQuarters_perm_values
  -- 'Prtpy.Natural.threeQuarters_perm_values' depends on axioms: [propext, Quot.sound]
#print axioms threeQuarters_perm_sums
  -- 'Prtpy.Natural.threeQuarters_perm_sums' depends on axioms: [propext, Quot.sound]
#print axioms ffDecreasing_perm_values
  -- 'Prtpy.Natural.ffDecreasing_perm_values' depends on axioms: [propext, Quot.sound]
#print axioms ffDecreasing_perm_sums
  -- 'Prtpy.Natural.ffDecreasing_perm_sums' depends on axioms: [propext, Quot.sound]
#print axioms bfDecreasing_perm_values
  -- 'Prtpy.Natural.bfDecreasing_perm_values' depends on axioms: [propext, Quot.sound]
#print axioms bfDecreasing_perm_sums
  -- 'Prtpy.Natural.bfDecreasing_perm_sums' depends on axioms: [propext, Quot.sound]
#print axioms kk_perm_values
  -- 'Prtpy.Natural.kk_perm_values' depends on axioms: [propext, Quot.sound]
#print axioms kk_perm_sums
  -- 'Prtpy.Natural.kk_perm_sums' depends on axioms: [propext, Quot.sound]
#print axioms multifit_perm_values
  -- 'Prtpy.Natural.multifit_perm_values' depends on axioms: [propext, Classical.choice, Quot.sound]
#print axioms multifit_perm_sums
  -- 'Prtpy.Natural.multifit_perm_sums' depends on axioms: [propext, Classical.choice, Quot.sound]
#print axioms cbldm_natural
  -- 'Prtpy.Natural.cbldm_natural' depends on axioms: [propext, Quot.sound]
#print axioms cg_natural
  -- 'Prtpy.Natural.cg_natural' depends on axioms: [propext, Quot.sound]
#print axioms cbldm_perm_sums
  -- 'Prtpy.Natural.cbldm_perm_sums' depends on axioms: [propext, Quot.sound]
#print axioms cg_perm_sums
  -- 'Prtpy.Natural.cg_perm_sums' depends on axioms: [propext, Quot.sound]
-/
