/-
  PrtpyProofs.PermSums — property C18 ("results respect problem symmetries") for the exact difference-minimising
  partitioners `ckkF` (complete Karmarkar–Karp after F11), `snp` and `rnpF` (k ≤ 5):
  **the vector of bin sums does not depend on the order in which the items are given**
  (nor on the bins manager, the name keys, the fuels).

  Every run reduces to the run on the bare values (`CKKF.ckkF_sums_eq_fuel`, `CKKDedupe.snp_list_dict_sums`,
  `RNPDict.rnpF_list_dict_sums`).  On a list of naturals with `v = nm = id` the algorithms read their input only
  through order-independent functions:

    * `kk`, `ckkInit` (hence `ckkF`, `ckkGen`), `genTree`, the `treeFold` of `snpRec`: through `sortDesc id`,
      and `sortDesc id l = sortDesc id l'` for `l.Perm l'` (`Natural.sortDesc_id_perm`);
    * `binSum id`, `List.isEmpty`: invariant under permutation;
    * `findDiff items sub` (the items left for the recursive call): a permutation of `findDiff items' sub`
      (`findDiff_perm_left`), and the recursive call is order-independent by induction.

  so the run on `items.map v` *equals* the run on `items'.map v` (`ckkF_id_perm`, `snp_id_perm`, `rnpF_id_perm`:
  whole result, errors included, same manager and fuel).

    **`ckkF_perm_sums`**  `items.Perm items' → 0 < k → ckkF v nm k c₁ items f₁ = .ok b₁ →
                            ckkF v nm' k c₂ items' f₂ = .ok b₂ → b₂.sums = b₁.sums`
    **`snp_perm_sums`**   `items.Perm items' → snp v nm k c₁ items f₁ = .ok b₁ →
                            snp v nm' k c₂ items' f₂ = .ok b₂ → b₂.sums = b₁.sums`
    **`rnpF_perm_sums`**  `items.Perm items' → k ≤ 5 → 0 < k → rnpF v nm k c₁ items f₁ = .ok b₁ →
                            rnpF v nm' k c₂ items' f₂ = .ok b₂ → b₂.sums = b₁.sums`
-/
import Prtpy
import PrtpyProofs.Part
import PrtpyProofs.Natural
import PrtpyProofs.CKKF
import PrtpyProofs.CKKFSwitch3
import PrtpyProofs.CKKDedupe
import PrtpyProofs.RNPDict
open Prtpy

namespace Prtpy.PermSums

variable {α : Type}

/-! ## 1. the runs on bare values do not see the order -/

section IdPerm
variable {L₁ L₂ : List Nat}

theorem isEmpty_perm {γ : Type} {l₁ l₂ : List γ} (h : l₁.Perm l₂) : l₁.isEmpty = l₂.isEmpty := by
  cases l₁ with
  | nil => rw [h.nil_eq]
  | cons x xs =>
    cases l₂ with
    | nil => exact absurd h.eq_nil (by simp)
    | cons y ys => rfl

/-- the items left after removing `sub`: permuted inputs leave permuted rests (any `sub`) -/
theorem findDiff_perm_left {γ : Type} [BEq γ] [LawfulBEq γ] {l₁ l₂ : List γ} (h : l₁.Perm l₂) (sub : List γ) :
    (findDiff l₁ sub).Perm (findDiff l₂ sub) := by
  unfold findDiff
  induction sub generalizing l₁ l₂ with
  | nil => exact h
  | cons x s ih => exact ih (h.erase x)

theorem ckkInit_id_perm (h : L₁.Perm L₂) (k : Nat) (best : EInt) : ckkInit id k L₁ best = ckkInit id k L₂ best := by
  simp only [ckkInit, Natural.sortDesc_id_perm h]

theorem ckkF_id_perm (h : L₁.Perm L₂) (k : Nat) (c : Bool) (fuel : Nat) :
    ckkF id id k c L₁ fuel = ckkF id id k c L₂ fuel := by
  simp only [ckkF, ckkInit_id_perm h]

theorem ckkGen_id_perm (h : L₁.Perm L₂) (k : Nat) (c : Bool) (bound : Option Nat) (fuel : Nat) :
    ckkGen id id k c L₁ bound fuel = ckkGen id id k c L₂ bound fuel := by
  simp only [ckkGen, ckkInit_id_perm h]

theorem ckk2_id_perm (h : L₁.Perm L₂) (c : Bool) (fuel : Nat) : ckk2 id id c L₁ fuel = ckk2 id id c L₂ fuel := by
  simp only [ckk2, isEmpty_perm h, ckkF_id_perm h]

theorem genTree_id_perm (h : L₁.Perm L₂) (den : Nat) (lb ub : Int) :
    genTree id den lb ub L₁ = genTree id den lb ub L₂ := by
  simp only [genTree, Natural.sortDesc_id_perm h]

/-- `rec_generate_sets` of SNP on bare values: the order of the remaining items is immaterial -/
theorem snpRec_id_perm (c : Bool) (fuel : Nat) :
    ∀ (n : Nat) (prior best : Bins Nat) {l₁ l₂ : List Nat}, l₁.Perm l₂ →
      snpRec id id c fuel n prior best l₁ = snpRec id id c fuel n prior best l₂
  | 0, _, _, _, _, _ => rfl
  | 1, _, _, _, _, _ => rfl
  | 2, prior, best, l₁, l₂, h => by
    simp only [snpRec, ckk2_id_perm h]
  | cur + 3, prior, best, l₁, l₂, h => by
    have ih : ∀ (prior' best' : Bins Nat) (sub : List Nat),
        snpRec id id c fuel (cur + 2) prior' best' (findDiff l₁ sub)
          = snpRec id id c fuel (cur + 2) prior' best' (findDiff l₂ sub) :=
      fun prior' best' sub => snpRec_id_perm c fuel (cur + 2) prior' best' (findDiff_perm_left h sub)
    simp only [snpRec, Natural.sortDesc_id_perm h, Part.binSum_perm id h, ih]

theorem snp_id_perm (h : L₁.Perm L₂) (k : Nat) (c : Bool) (fuel : Nat) :
    snp id id k c L₁ fuel = snp id id k c L₂ fuel := by
  simp only [snp, Natural.kk_id_perm h, snpRec_id_perm c fuel k _ _ h]

/-- `rec_generate_sets` of RNP (after F10) on bare values: the order of the remaining items is immaterial -/
theorem rnpRecF_id_perm (c : Bool) (fuel : Nat) :
    ∀ (rf cur : Nat) (prior best : Bins Nat) {l₁ l₂ : List Nat}, l₁.Perm l₂ →
      rnpRecF id id c fuel rf cur prior best l₁ = rnpRecF id id c fuel rf cur prior best l₂
  | 0, _, _, _, _, _, _ => rfl
  | rf + 1, cur, prior, best, l₁, l₂, h => by
    have ih : ∀ (cur' : Nat) (prior' best' : Bins Nat) (sub : List Nat),
        rnpRecF id id c fuel rf cur' prior' best' (findDiff l₁ sub)
          = rnpRecF id id c fuel rf cur' prior' best' (findDiff l₂ sub) :=
      fun cur' prior' best' sub => rnpRecF_id_perm c fuel rf cur' prior' best' (findDiff_perm_left h sub)
    simp only [rnpRecF, ckk2_id_perm h, genTree_id_perm h, Part.binSum_perm id h, ih, isEmpty_perm h,
      ckkGen_id_perm h]

theorem rnpF_id_perm (h : L₁.Perm L₂) (k : Nat) (c : Bool) (fuel : Nat) :
    rnpF id id k c L₁ fuel = rnpF id id k c L₂ fuel := by
  simp only [rnpF, Natural.kk_id_perm h, rnpRecF_id_perm c fuel (k + 1) k _ _ h]

end IdPerm

/-! ## 2. C18 for the three partitioners -/

/-- **C18 for complete Karmarkar–Karp** (`optimal` after F11): permuting the items (and changing the manager, the
    name key, the fuel) leaves the whole vector of sums unchanged -/
theorem ckkF_perm_sums {v nm nm' : α → Nat} [BEq α] [LawfulBEq α] {c₁ c₂ : Bool} {k : Nat} {items items' : List α}
    {f₁ f₂ : Nat} {b₁ b₂ : Bins α} (hp : items.Perm items') (hk : 0 < k)
    (h₁ : ckkF v nm k c₁ items f₁ = .ok b₁) (h₂ : ckkF v nm' k c₂ items' f₂ = .ok b₂) :
    b₂.sums = b₁.sums := by
  have e₁ := CKKF.ckkF_sums_eq_fuel (v := v) (nm := nm) c₁ true hk items (max f₁ f₂)
  have e₂ := CKKF.ckkF_sums_eq_fuel (v := v) (nm := nm') c₂ true hk items' (max f₁ f₂)
  rw [← ckkF_id_perm (hp.map v)] at e₂
  exact CKKF.map_sums_ok (e₂.trans e₁.symm)
    (CKKF.ckkF_fuel_mono h₂ (Nat.le_max_right _ _)) (CKKF.ckkF_fuel_mono h₁ (Nat.le_max_left _ _))

/-- **C18 for sequential number partitioning** -/
theorem snp_perm_sums {v nm nm' : α → Nat} [BEq α] [LawfulBEq α] {c₁ c₂ : Bool} {k : Nat} {items items' : List α}
    {f₁ f₂ : Nat} {b₁ b₂ : Bins α} (hp : items.Perm items')
    (h₁ : snp v nm k c₁ items f₁ = .ok b₁) (h₂ : snp v nm' k c₂ items' f₂ = .ok b₂) :
    b₂.sums = b₁.sums := by
  have hne : items ≠ [] := by
    rintro rfl
    simp [snp, kk, sortDesc, pushAll, kkLoop, htop, hbest] at h₁
  obtain ⟨r, hr⟩ : ∃ r, snp id id k true (items.map v) (Total.ckkFuel 2 (items.map v).length) = .ok r := by
    rcases Nat.eq_zero_or_pos k with rfl | hk
    · -- no bins: `rec_generate_sets` returns the KK partition at once
      unfold snp at h₁ ⊢
      rw [Natural.kk_natural v v id (fun _ => rfl) 0 items]
      cases hb : kk v 0 items with
      | error e => rw [hb] at h₁; cases h₁
      | ok best =>
        simp only [Natural2.map_ok, snpRec]
        split <;> exact ⟨_, rfl⟩
    · exact Total.snp_total hk (by simpa using hne) (Nat.le_refl _)
  have hr' := hr
  rw [snp_id_perm (hp.map v)] at hr'
  rw [← CKKDedupe.snp_list_dict_sums h₁ hr, ← CKKDedupe.snp_list_dict_sums h₂ hr']

/-- **C18 for recursive number partitioning** (after F10, `k ≤ 5`) -/
theorem rnpF_perm_sums {v nm nm' : α → Nat} [BEq α] [LawfulBEq α] {c₁ c₂ : Bool} {k : Nat} {items items' : List α}
    {f₁ f₂ : Nat} {b₁ b₂ : Bins α} (hp : items.Perm items') (hk5 : k ≤ 5) (hk : 0 < k)
    (h₁ : rnpF v nm k c₁ items f₁ = .ok b₁) (h₂ : rnpF v nm' k c₂ items' f₂ = .ok b₂) :
    b₂.sums = b₁.sums := by
  have hne : items ≠ [] := by
    rintro rfl
    simp [rnpF, kk, sortDesc, pushAll, kkLoop, htop, hbest] at h₁
  obtain ⟨r, hr⟩ := Total.rnpF_total (v := id) (nm := id) (k := k) (contents := true) (items := items.map v)
    (fuel := Total.ckkFuel 2 (items.map v).length) hk hk5 (by simpa using hne) (Nat.le_refl _)
  have hr' := hr
  rw [rnpF_id_perm (hp.map v)] at hr'
  rw [← RNPDict.rnpF_list_dict_sums hk5 hk h₁ hr, ← RNPDict.rnpF_list_dict_sums hk5 hk h₂ hr']

/-! ### the same in the phrasing of `ExactSym` (`cg_value_perm`, `dp_fn_value_perm`): any objective has the same value -/

theorem ckkF_value_perm {v nm nm' : α → Nat} [BEq α] [LawfulBEq α] {c₁ c₂ : Bool} {k : Nat} {items items' : List α}
    {f₁ f₂ : Nat} {b₁ b₂ : Bins α} (o : Objective) (hp : items.Perm items') (hk : 0 < k)
    (h₁ : ckkF v nm k c₁ items f₁ = .ok b₁) (h₂ : ckkF v nm' k c₂ items' f₂ = .ok b₂) :
    o.value b₁.sums false = o.value b₂.sums false := by
  rw [ckkF_perm_sums hp hk h₁ h₂]

theorem snp_value_perm {v nm nm' : α → Nat} [BEq α] [LawfulBEq α] {c₁ c₂ : Bool} {k : Nat} {items items' : List α}
    {f₁ f₂ : Nat} {b₁ b₂ : Bins α} (o : Objective) (hp : items.Perm items')
    (h₁ : snp v nm k c₁ items f₁ = .ok b₁) (h₂ : snp v nm' k c₂ items' f₂ = .ok b₂) :
    o.value b₁.sums false = o.value b₂.sums false := by
  rw [snp_perm_sums hp h₁ h₂]

theorem rnpF_value_perm {v nm nm' : α → Nat} [BEq α] [LawfulBEq α] {c₁ c₂ : Bool} {k : Nat} {items items' : List α}
    {f₁ f₂ : Nat} {b₁ b₂ : Bins α} (o : Objective) (hp : items.Perm items') (hk5 : k ≤ 5) (hk : 0 < k)
    (h₁ : rnpF v nm k c₁ items f₁ = .ok b₁) (h₂ : rnpF v nm' k c₂ items' f₂ = .ok b₂) :
    o.value b₁.sums false = o.value b₂.sums false := by
  rw [rnpF_perm_sums hp hk5 hk h₁ h₂]

/-! ## 3. non-vacuity: permuted inputs with repeated values, different managers / name keys / fuels -/

/-- (name, value) pairs; values `9 7 7 6 5 5 4`: Karmarkar–Karp gives `13 14 16`, the optimum is `14 14 15` -/
def exA : List (Nat × Nat) := [(0, 9), (1, 7), (2, 7), (3, 6), (4, 5), (5, 5), (6, 4)]
def exA' : List (Nat × Nat) := [(5, 5), (2, 7), (6, 4), (0, 9), (4, 5), (1, 7), (3, 6)]
/-- values `2 10 7 3 3 7 6 4`, four bins: Karmarkar–Karp gives `10 10 10 12`, the optimum is `10 10 11 11` -/
def exB : List (Nat × Nat) := [(0, 2), (1, 10), (2, 7), (3, 3), (4, 3), (5, 7), (6, 6), (7, 4)]
def exB' : List (Nat × Nat) := [(4, 3), (5, 7), (0, 2), (7, 4), (2, 7), (6, 6), (1, 10), (3, 3)]

/-- decidable equality on results, for the kernel-evaluated runs of the examples (local to this file) -/
@[instance_reducible] def decEqBins : DecidableEq (Bins (Nat × Nat)) := fun a b =>
  decidable_of_iff (a.sums = b.sums ∧ a.lists = b.lists) (by cases a; cases b; simp)

attribute [local instance] decEqBins

@[instance_reducible] def decEqResult : DecidableEq (Except Err (Bins (Nat × Nat)))
  | .ok a, .ok b => if h : a = b then isTrue (by rw [h]) else isFalse (fun h' => h (Except.ok.inj h'))
  | .error a, .error b =>
    if h : a = b then isTrue (by rw [h]) else isFalse (fun h' => h (Except.error.inj h'))
  | .ok _, .error _ => isFalse (fun h => by cases h)
  | .error _, .ok _ => isFalse (fun h => by cases h)

attribute [local instance] decEqResult

theorem exA_perm : exA.Perm exA' := by decide
theorem exB_perm : exB.Perm exB' := by decide

set_option maxRecDepth 100000 in
/-- the two runs return different partitions (ties are broken by input order and name key) with the same sums -/
example : (⟨[14, 14, 15], [[(4, 5), (0, 9)], [(2, 7), (1, 7)], [(6, 4), (5, 5), (3, 6)]]⟩ : Bins (Nat × Nat)).sums
    = (⟨[14, 14, 15], [[(0, 9), (5, 5)], [(1, 7), (2, 7)], [(3, 6), (4, 5), (6, 4)]]⟩ : Bins (Nat × Nat)).sums :=
  ckkF_perm_sums (v := Prod.snd) (nm := Prod.fst) (nm' := fun p => 10 - p.1) (c₁ := true) (c₂ := true) (k := 3)
    (f₁ := 400) (f₂ := 300) exA_perm (by decide) (by decide +kernel) (by decide +kernel)

set_option maxRecDepth 100000 in
/-- … and against the sums-only manager -/
example : (⟨[14, 14, 15], [[], [], []]⟩ : Bins (Nat × Nat)).sums
    = (⟨[14, 14, 15], [[(0, 9), (5, 5)], [(1, 7), (2, 7)], [(3, 6), (4, 5), (6, 4)]]⟩ : Bins (Nat × Nat)).sums :=
  ckkF_perm_sums (v := Prod.snd) (nm := Prod.fst) (nm' := fun p => 10 - p.1) (c₁ := true) (c₂ := false) (k := 3)
    (f₁ := 400) (f₂ := 300) exA_perm (by decide) (by decide +kernel) (by decide +kernel)

set_option maxRecDepth 100000 in
/-- SNP: the vector of sums is not sorted (`14 15 14`), and it is the same vector for the permuted input -/
example : (⟨[14, 15, 14], [[(2, 7), (1, 7)], [(6, 4), (4, 5), (3, 6)], [(0, 9), (5, 5)]]⟩ : Bins (Nat × Nat)).sums
    = (⟨[14, 15, 14], [[(1, 7), (2, 7)], [(3, 6), (5, 5), (6, 4)], [(0, 9), (4, 5)]]⟩ : Bins (Nat × Nat)).sums :=
  snp_perm_sums (v := Prod.snd) (nm := Prod.fst) (nm' := fun p => 10 - p.1) (c₁ := true) (c₂ := true) (k := 3)
    (f₁ := 400) (f₂ := 300) exA_perm (by decide +kernel) (by decide +kernel)

set_option maxRecDepth 100000 in
example : (⟨[14, 15, 14], [[], [], [(0, 9), (5, 5)]]⟩ : Bins (Nat × Nat)).sums
    = (⟨[14, 15, 14], [[(1, 7), (2, 7)], [(3, 6), (5, 5), (6, 4)], [(0, 9), (4, 5)]]⟩ : Bins (Nat × Nat)).sums :=
  snp_perm_sums (v := Prod.snd) (nm := Prod.fst) (nm' := fun p => 10 - p.1) (c₁ := true) (c₂ := false) (k := 3)
    (f₁ := 400) (f₂ := 300) exA_perm (by decide +kernel) (by decide +kernel)

set_option maxRecDepth 100000 in
/-- RNP, four bins, eight items -/
example : (⟨[10, 11, 10, 11], [[(1, 10)], [(7, 4), (2, 7)], [(5, 7), (4, 3)], [(6, 6), (3, 3), (0, 2)]]⟩ :
      Bins (Nat × Nat)).sums
    = (⟨[10, 11, 10, 11], [[(1, 10)], [(5, 7), (7, 4)], [(2, 7), (3, 3)], [(0, 2), (4, 3), (6, 6)]]⟩ :
      Bins (Nat × Nat)).sums :=
  rnpF_perm_sums (v := Prod.snd) (nm := Prod.fst) (nm' := fun p => 10 - p.1) (c₁ := true) (c₂ := true) (k := 4)
    (f₁ := 400) (f₂ := 300) exB_perm (by decide) (by decide) (by decide +kernel) (by decide +kernel)

set_option maxRecDepth 100000 in
example : (⟨[10, 11, 10, 11], [[], [], [], []]⟩ : Bins (Nat × Nat)).sums
    = (⟨[10, 11, 10, 11], [[(1, 10)], [(5, 7), (7, 4)], [(2, 7), (3, 3)], [(0, 2), (4, 3), (6, 6)]]⟩ :
      Bins (Nat × Nat)).sums :=
  rnpF_perm_sums (v := Prod.snd) (nm := Prod.fst) (nm' := fun p => 10 - p.1) (c₁ := true) (c₂ := false) (k := 4)
    (f₁ := 400) (f₂ := 300) exB_perm (by decide) (by decide) (by decide +kernel) (by decide +kernel)

/-- the bare-values runs are literally equal -/
example : snp id id 3 true [9, 7, 7, 6, 5, 5, 4] 400 = snp id id 3 true [5, 7, 4, 9, 5, 7, 6] 400 :=
  snp_id_perm (by decide) 3 true 400

end Prtpy.PermSums

#print axioms Prtpy.PermSums.ckkF_perm_sums
#print axioms Prtpy.PermSums.snp_perm_sums
#print axioms Prtpy.PermSums.rnpF_perm_sums

/-
observed:
#print axioms Prtpy.PermSums.ckkF_id_perm
  'Prtpy.PermSums.ckkF_id_perm' depends on axioms: [propext, Quot.sound]
#print axioms Prtpy.PermSums.snp_id_perm
  'Prtpy.PermSums.snp_id_perm' depends on axioms: [propext, Classical.choice, Quot.sound]
#print axioms Prtpy.PermSums.rnpF_id_perm
  'Prtpy.PermSums.rnpF_id_perm' depends on axioms: [propext, Classical.choice, Quot.sound]
#print axioms Prtpy.PermSums.ckkF_perm_sums
  'Prtpy.PermSums.ckkF_perm_sums' depends on axioms: [propext, Classical.choice, Quot.sound]
#print axioms Prtpy.PermSums.snp_perm_sums
  'Prtpy.PermSums.snp_perm_sums' depends on axioms: [propext, Classical.choice, Quot.sound]
#print axioms Prtpy.PermSums.rnpF_perm_sums
  'Prtpy.PermSums.rnpF_perm_sums' depends on axioms: [propext, Classical.choice, Quot.sound]
#print axioms Prtpy.PermSums.rnpF_value_perm
  'Prtpy.PermSums.rnpF_value_perm' depends on axioms: [propext, Classical.choice, Quot.sound]
-/
