/-
  PrtpyProofs.SNP — the inclusion/exclusion tree is an exact window enumerator (C13b),
  multiset bookkeeping of `findDiff`, validity (C01) of `snp` and of `rnp` (numbins ≤ 5).

  CKK / CKK-generator / KK validity are taken as explicit hypotheses (`CkkValid`, `CkkGenValid`, `KkValid`);
  they are proved in other files.
-/
import Prtpy
import Mathlib.Data.List.Perm.Basic

namespace Prtpy.SNPProofs
open Prtpy

variable {α : Type}

/-! ### hypotheses about KK / CKK (proved elsewhere) -/

/-- validity of the 2-way search `snp`/`rnp` call (`ckk2` = `ckkF … 2 …`, the code after fix F11);
    discharged by `CKKF.ckkF_isPartition` in PrtpyProofs/CKKFSwitch.lean (`CKKValid.ckkValid`) -/
def CkkValid (v nm : α → Nat) [BEq α] : Prop :=
  ∀ (items : List α) (fuel : Nat) (b : Bins α), items ≠ [] →
    ckkF v nm 2 true items fuel = .ok b → IsPartition v items 2 b

def CkkGenValid (v nm : α → Nat) [BEq α] : Prop :=
  ∀ (k : Nat) (items : List α) (bound : Option Nat) (fuel : Nat) (ys : List (Bins α)), 0 < k → items ≠ [] →
    ckkGen v nm k true items bound fuel = .ok ys → ∀ b ∈ ys, IsPartition v items k b

def KkValid (v : α → Nat) : Prop :=
  ∀ (k : Nat) (items : List α) (b : Bins α), 0 < k → items ≠ [] →
    kk v k items = .ok b → IsPartition v items k b

/-! ### basic facts: `binSum`, `sortDesc` -/

@[simp] theorem binSum_nil (v : α → Nat) : binSum v [] = 0 := rfl

@[simp] theorem binSum_cons (v : α → Nat) (x : α) (xs : List α) :
    binSum v (x :: xs) = v x + binSum v xs := rfl

@[simp] theorem binSum_append (v : α → Nat) (a b : List α) :
    binSum v (a ++ b) = binSum v a + binSum v b := by
  induction a with
  | nil => simp
  | cons x xs ih => simp [ih, Nat.add_assoc]

theorem binSum_sublist (v : α → Nat) {s l : List α} (h : s.Sublist l) : binSum v s ≤ binSum v l := by
  induction h with
  | slnil => exact Nat.le_refl _
  | cons a _ ih => simp only [binSum_cons]; omega
  | cons_cons a _ ih => simp only [binSum_cons]; omega

theorem insertDesc_perm (key : α → Nat) (x : α) (l : List α) : (insertDesc key x l).Perm (x :: l) := by
  induction l with
  | nil => exact List.Perm.refl _
  | cons y ys ih =>
    simp only [insertDesc]
    split
    · exact List.Perm.refl _
    · exact (ih.cons y).trans (List.Perm.swap x y ys)

theorem sortDesc_perm (key : α → Nat) (l : List α) : (sortDesc key l).Perm l := by
  induction l with
  | nil => exact List.Perm.refl _
  | cons x xs ih =>
    simp only [sortDesc]
    exact (insertDesc_perm key x _).trans (ih.cons x)

/-! ### 1. the in/ex tree is an exact enumerator (C13b) -/

/-- all sub-collections (by position) of a list, in the traversal order of the tree (include first) -/
def allSubs : List α → List (List α)
  | [] => [[]]
  | x :: xs => (allSubs xs).map (x :: ·) ++ allSubs xs

/-- the window test `lb/den ≤ sum s ≤ ub/den` (by cross-multiplication) -/
def inWin (v : α → Nat) (den : Nat) (lb ub : Int) (s : List α) : Bool :=
  decide (lb ≤ (binSum v s : Int) * den) && decide ((binSum v s : Int) * den ≤ ub)

theorem mem_allSubs_cons {x : α} {xs s : List α} :
    s ∈ allSubs (x :: xs) ↔ (∃ t ∈ allSubs xs, s = x :: t) ∨ s ∈ allSubs xs := by
  simp only [allSubs, List.mem_append, List.mem_map]
  constructor
  · rintro (⟨t, ht, rfl⟩ | h)
    · exact Or.inl ⟨t, ht, rfl⟩
    · exact Or.inr h
  · rintro (⟨t, ht, rfl⟩ | h)
    · exact Or.inl ⟨t, ht, rfl⟩
    · exact Or.inr h

/-- every sub-collection by position is enumerated -/
theorem allSubs_sublists {s l : List α} : s ∈ allSubs l ↔ s.Sublist l := by
  induction l generalizing s with
  | nil => simp [allSubs]
  | cons x xs ih =>
    rw [mem_allSubs_cons, List.sublist_cons_iff]
    constructor
    · rintro (⟨t, ht, rfl⟩ | h)
      · exact Or.inr ⟨t, rfl, ih.mp ht⟩
      · exact Or.inl (ih.mp h)
    · rintro (h | ⟨t, rfl, ht⟩)
      · exact Or.inr (ih.mpr h)
      · exact Or.inl ⟨t, ih.mpr ht, rfl⟩

/-- ... exactly once: there are `2 ^ n` entries -/
theorem allSubs_length (l : List α) : (allSubs l).length = 2 ^ l.length := by
  induction l with
  | nil => rfl
  | cons x xs ih =>
    simp only [allSubs, List.length_append, List.length_map, ih, List.length_cons, Nat.pow_succ]
    omega

/-- for distinct items the enumerated sub-collections are distinct -/
theorem allSubs_nodup {l : List α} (h : l.Nodup) : (allSubs l).Nodup := by
  induction l with
  | nil => simp [allSubs]
  | cons x xs ih =>
    rw [List.nodup_cons] at h
    simp only [allSubs]
    rw [List.nodup_append]
    refine ⟨?_, ih h.2, ?_⟩
    · exact List.Pairwise.map _ (fun a b (hab : a ≠ b) hc => hab (List.cons.inj hc).2) (ih h.2)
    · intro a ha b hb hab
      rw [List.mem_map] at ha
      obtain ⟨t, _, rfl⟩ := ha
      subst hab
      exact h.1 ((allSubs_sublists.mp hb).subset List.mem_cons_self)

/-- a leaf is tested with the window predicate itself -/
theorem inexPrune_nil (v : α → Nat) (den : Nat) (lb ub : Int) (cur : List α) :
    inexPrune v den lb ub cur [] = !inWin v den lb ub cur := by
  simp only [inexPrune, inWin, binSum_nil, Int.natCast_zero, Int.add_zero]
  by_cases h1 : ub < (binSum v cur : Int) * den <;> by_cases h2 : (binSum v cur : Int) * den < lb <;>
    simp [h1, h2]
  all_goals omega

/-- soundness of the prune test: values are `≥ 0`, so the partial sum is monotone along every branch -/
theorem inexPrune_sound (v : α → Nat) (den : Nat) (lb ub : Int) (cur rest s : List α)
    (hp : inexPrune v den lb ub cur rest = true) (hs : s.Sublist rest) :
    inWin v den lb ub (cur ++ s) = false := by
  have hle := binSum_sublist v hs
  simp only [inexPrune, Bool.or_eq_true, decide_eq_true_eq] at hp
  simp only [inWin, binSum_append, Bool.and_eq_false_iff, decide_eq_false_iff_not]
  have h1 : ((binSum v cur : Nat) : Int) * den ≤ ((binSum v cur + binSum v s : Nat) : Int) * den := by
    have : binSum v cur * den ≤ (binSum v cur + binSum v s) * den := Nat.mul_le_mul_right _ (by omega)
    exact_mod_cast this
  have h2 : ((binSum v cur + binSum v s : Nat) : Int) * den
      ≤ (((binSum v cur : Nat) : Int) + ((binSum v rest : Nat) : Int)) * den := by
    have : (binSum v cur + binSum v s) * den ≤ (binSum v cur + binSum v rest) * den :=
      Nat.mul_le_mul_right _ (by omega)
    exact_mod_cast this
  rcases hp with hp | hp
  · right; omega
  · left; omega

theorem genTreeAux_eq (v : α → Nat) (den : Nat) (lb ub : Int) (cur rest : List α) :
    genTreeAux v den lb ub cur rest = ((allSubs rest).map (cur ++ ·)).filter (inWin v den lb ub) := by
  induction rest generalizing cur with
  | nil =>
    simp only [genTreeAux, allSubs, List.map_cons, List.map_nil, List.append_nil, inexPrune_nil]
    cases h : inWin v den lb ub cur <;> simp [List.filter, h]
  | cons x xs ih =>
    rw [genTreeAux]
    split
    · rename_i hp
      symm
      rw [List.filter_eq_nil_iff]
      intro a ha
      rw [List.mem_map] at ha
      obtain ⟨s, hs, rfl⟩ := ha
      rw [inexPrune_sound v den lb ub cur (x :: xs) s hp (allSubs_sublists.mp hs)]
      simp
    · rw [ih, ih]
      simp only [allSubs, List.map_append, List.filter_append, List.map_map]
      congr 2
      apply List.map_congr_left
      intro s _
      simp

/-- C13b: `generate_tree` yields exactly the sub-collections (by position, of the items sorted by descending
    value) whose total lies in the window, in include-first order.  (`0 < den` is not needed.) -/
theorem genTree_eq' (v : α → Nat) (den : Nat) (lb ub : Int) (items : List α) :
    genTree v den lb ub items =
      (allSubs (sortDesc v items)).filter
        (fun s => decide (lb ≤ (binSum v s : Int) * den) && decide ((binSum v s : Int) * den ≤ ub)) := by
  rw [genTree, genTreeAux_eq]
  simp only [List.nil_append, List.map_id']
  rfl

theorem genTree_eq {v : α → Nat} {den : Nat} {lb ub : Int} {items : List α} (_hden : 0 < den) :
    genTree v den lb ub items =
      (allSubs (sortDesc v items)).filter
        (fun s => decide (lb ≤ (binSum v s : Int) * den) && decide ((binSum v s : Int) * den ≤ ub)) :=
  genTree_eq' v den lb ub items

example : genTree (fun x : Nat => x) 3 6 12 [1, 3, 2] = [[3, 1], [3], [2, 1], [2]] := by decide

/-- every output of the tree is a sub-collection of the input -/
theorem genTreeAux_mem {v : α → Nat} {den : Nat} {lb ub : Int} {cur rest sub : List α}
    (h : sub ∈ genTreeAux v den lb ub cur rest) : ∃ s, s.Sublist rest ∧ sub = cur ++ s := by
  rw [genTreeAux_eq, List.mem_filter, List.mem_map] at h
  obtain ⟨⟨s, hs, rfl⟩, _⟩ := h
  exact ⟨s, allSubs_sublists.mp hs, rfl⟩

theorem genTree_mem_subperm {v : α → Nat} {den : Nat} {lb ub : Int} {items sub : List α}
    (h : sub ∈ genTree v den lb ub items) : sub.Subperm items := by
  obtain ⟨s, hs, rfl⟩ := genTreeAux_mem h
  exact (List.Sublist.subperm hs).trans (sortDesc_perm v items).subperm

/-- raising the lower bound only removes outputs -/
theorem genTreeAux_mono_lb (v : α → Nat) (den : Nat) {lb lb' : Int} (ub : Int) (cur rest : List α)
    (h : lb ≤ lb') : (genTreeAux v den lb' ub cur rest).Sublist (genTreeAux v den lb ub cur rest) := by
  rw [genTreeAux_eq, genTreeAux_eq]
  apply List.monotone_filter_right
  intro s hs
  simp only [inWin, Bool.and_eq_true, decide_eq_true_eq] at hs ⊢
  exact ⟨by omega, hs.2⟩

/-! #### the fold version with a moving lower bound -/

/-- `body` instrumented with a log of the sub-collections it is called on -/
def logBody {σ : Type} (body : σ → List α → Except Err σ) :
    σ × List (List α) → List α → Except Err (σ × List (List α)) :=
  fun st sub => match body st.1 sub with
    | .error e => .error e
    | .ok s' => .ok (s', st.2 ++ [sub])

/-- the instrumented fold computes the same state as the plain one -/
theorem treeFold_logBody_fst {σ : Type} (v : α → Nat) (den : Nat) (ub : Int) (lbOf : σ → Int)
    (body : σ → List α → Except Err σ) (st : σ) (log : List (List α)) (cur rest : List α) :
    (treeFold v den ub (fun p => lbOf p.1) (logBody body) (st, log) cur rest).map (·.1)
      = treeFold v den ub lbOf body st cur rest := by
  induction rest generalizing st log cur with
  | nil =>
    simp only [treeFold]
    split
    · rfl
    · simp only [logBody]
      cases body st cur <;> rfl
  | cons x xs ih =>
    simp only [treeFold]
    split
    · rfl
    · have h1 := ih st log (cur ++ [x])
      cases hL : treeFold v den ub (fun p => lbOf p.1) (logBody body) (st, log) (cur ++ [x]) xs with
      | error e => rw [hL] at h1; rw [← h1]; rfl
      | ok p =>
        rw [hL] at h1
        rw [← h1]
        obtain ⟨s1, l1⟩ := p
        exact ih s1 l1 cur

/-- The sub-collections on which `treeFold` calls `body` form (in order) a sub-list of the output of the
    fixed-bound tree for the *initial* lower bound, provided `body` never decreases `lbOf`. -/
theorem treeFold_sub {σ : Type} (v : α → Nat) (den : Nat) (ub : Int) (lbOf : σ → Int)
    (body : σ → List α → Except Err σ)
    (hmono : ∀ st sub st', body st sub = .ok st' → lbOf st ≤ lbOf st')
    (st : σ) (log : List (List α)) (cur rest : List α) (st' : σ) (log' : List (List α))
    (h : treeFold v den ub (fun p => lbOf p.1) (logBody body) (st, log) cur rest = .ok (st', log')) :
    lbOf st ≤ lbOf st' ∧
    ∃ called, log' = log ++ called ∧ called.Sublist (genTreeAux v den (lbOf st) ub cur rest) := by
  induction rest generalizing st log cur st' log' with
  | nil =>
    simp only [treeFold, genTreeAux] at h ⊢
    split at h
    · cases h
      exact ⟨Int.le_refl _, [], by simp, List.nil_sublist _⟩
    · rename_i hp
      simp only [logBody] at h
      cases hb : body st cur with
      | error e => rw [hb] at h; cases h
      | ok s' =>
        rw [hb] at h
        cases h
        refine ⟨hmono _ _ _ hb, [cur], rfl, ?_⟩
        rw [if_neg hp]
  | cons x xs ih =>
    simp only [treeFold] at h
    rw [genTreeAux]
    split at h
    · cases h
      exact ⟨Int.le_refl _, [], by simp, List.nil_sublist _⟩
    · rename_i hp
      rw [if_neg hp]
      cases hL : treeFold v den ub (fun p => lbOf p.1) (logBody body) (st, log) (cur ++ [x]) xs with
      | error e => rw [hL] at h; cases h
      | ok p =>
        rw [hL] at h
        obtain ⟨s1, l1⟩ := p
        obtain ⟨hle1, c1, rfl, hc1⟩ := ih st log (cur ++ [x]) s1 l1 hL
        obtain ⟨hle2, c2, rfl, hc2⟩ := ih s1 (log ++ c1) cur st' log' h
        refine ⟨Int.le_trans hle1 hle2, c1 ++ c2, by simp, ?_⟩
        exact List.Sublist.append hc1 (hc2.trans (genTreeAux_mono_lb v den ub cur xs hle1))

/-- invariant rule for `treeFold`: `body` is only ever called on `cur ++ s` with `s` a sub-collection of `rest` -/
theorem treeFold_inv {σ : Type} (P : σ → Prop) (v : α → Nat) (den : Nat) (ub : Int) (lbOf : σ → Int)
    (body : σ → List α → Except Err σ) (cur rest : List α)
    (hbody : ∀ st s st', P st → s.Sublist rest → body st (cur ++ s) = .ok st' → P st')
    (st st' : σ) (hst : P st) (h : treeFold v den ub lbOf body st cur rest = .ok st') : P st' := by
  induction rest generalizing st cur st' with
  | nil =>
    simp only [treeFold] at h
    split at h
    · cases h; exact hst
    · exact hbody st [] st' hst (List.Sublist.refl _) (by simpa using h)
  | cons x xs ih =>
    simp only [treeFold] at h
    split at h
    · cases h; exact hst
    · cases hL : treeFold v den ub lbOf body st (cur ++ [x]) xs with
      | error e => rw [hL] at h; cases h
      | ok s1 =>
        rw [hL] at h
        have hP1 : P s1 := by
          refine ih (cur ++ [x]) ?_ st s1 hst hL
          intro st0 s st0' h0 hs hb
          refine hbody st0 (x :: s) st0' h0 (hs.cons_cons x) ?_
          simpa using hb
        refine ih cur ?_ s1 st' hP1 h
        intro st0 s st0' h0 hs hb
        exact hbody st0 s st0' h0 (hs.cons x) hb

/-! ### 2. multiset bookkeeping -/

theorem findDiff_nil [BEq α] (items : List α) : findDiff items [] = items := rfl

theorem findDiff_cons [BEq α] (items : List α) (x : α) (s : List α) :
    findDiff items (x :: s) = findDiff (items.erase x) s := rfl

/-- if `sub` is contained in `items` as a multiset then `sub` and `find_diff(items, sub)` together are `items` -/
theorem findDiff_perm_of_subperm [BEq α] [LawfulBEq α] {items sub : List α} (h : sub.Subperm items) :
    (sub ++ findDiff items sub).Perm items := by
  induction sub generalizing items with
  | nil => exact List.Perm.refl _
  | cons x s ih =>
    have hx : x ∈ items := h.subset List.mem_cons_self
    have hs : s.Subperm (items.erase x) := by
      have := h.erase x
      rwa [List.erase_cons_head] at this
    rw [findDiff_cons, List.cons_append]
    exact ((ih hs).cons x).trans (List.perm_cons_erase hx).symm

theorem findDiff_perm [BEq α] [LawfulBEq α] {items items' sub : List α}
    (hs : sub.Sublist items') (hp : items'.Perm items) : (sub ++ findDiff items sub).Perm items :=
  findDiff_perm_of_subperm (hs.subperm.trans hp.subperm)

example : ([3, 1] ++ findDiff [1, 2, 3, 1] [3, 1]).Perm [1, 2, 3, 1] :=
  findDiff_perm (items' := [3, 2, 1, 1]) (by decide) (by decide)

/-! ### 3. validity of SNP (C01) -/

theorem le_maxL_of_mem {l : List Nat} {a : Nat} (h : a ∈ l) : a ≤ maxL l := by
  induction l with
  | nil => cases h
  | cons x xs ih =>
    simp only [maxL]
    rcases List.mem_cons.mp h with rfl | h
    · omega
    · have := ih h; omega

theorem maxL_mem {l : List Nat} (h : l ≠ []) : maxL l ∈ l := by
  induction l with
  | nil => exact absurd rfl h
  | cons x xs ih =>
    simp only [maxL]
    by_cases hx : xs = []
    · subst hx; simp [maxL]
    · have := ih hx
      rcases Nat.le_total x (maxL xs) with hle | hle
      · rw [Nat.max_eq_right hle]; exact List.mem_cons_of_mem _ this
      · rw [Nat.max_eq_left hle]; exact List.mem_cons_self

theorem minL_cons_cons (x y : Nat) (ys : List Nat) : minL (x :: y :: ys) = min x (minL (y :: ys)) := rfl

theorem minL_le_of_mem {l : List Nat} {a : Nat} (h : a ∈ l) : minL l ≤ a := by
  induction l with
  | nil => cases h
  | cons x xs ih =>
    cases xs with
    | nil => simp only [List.mem_singleton] at h; subst h; simp [minL]
    | cons y ys =>
      rw [minL_cons_cons]
      rcases List.mem_cons.mp h with rfl | h
      · omega
      · have := ih h; omega

theorem minL_mem {l : List Nat} (h : l ≠ []) : minL l ∈ l := by
  induction l with
  | nil => exact absurd rfl h
  | cons x xs ih =>
    cases xs with
    | nil => simp [minL]
    | cons y ys =>
      rw [minL_cons_cons]
      have := ih (by simp)
      rcases Nat.le_total x (minL (y :: ys)) with hle | hle
      · rw [Nat.min_eq_left hle]; exact List.mem_cons_self
      · rw [Nat.min_eq_right hle]; exact List.mem_cons_of_mem _ this

/-- adding further sums can only widen the spread -/
theorem spread_le_append (l m : List Nat) : spread l ≤ spread (l ++ m) := by
  unfold spread
  by_cases hl : l = []
  · subst hl; simp [maxL, minL]
  · have h1 : maxL l ≤ maxL (l ++ m) := le_maxL_of_mem (List.mem_append_left _ (maxL_mem hl))
    have h2 : minL (l ++ m) ≤ minL l := minL_le_of_mem (List.mem_append_left _ (minL_mem hl))
    omega

theorem isPartition_concat {v : α → Nat} {i1 i2 items : List α} {k1 k2 k : Nat} {b1 b2 : Bins α}
    (h1 : b1.lists.flatten.Perm i1 ∧ b1.lists.length = k1 ∧ b1.sums = b1.lists.map (binSum v))
    (h2 : b2.lists.flatten.Perm i2 ∧ b2.lists.length = k2 ∧ b2.sums = b2.lists.map (binSum v))
    (hp : (i1 ++ i2).Perm items) (hk : k1 + k2 = k) : IsPartition v items k (b1.concat b2) := by
  obtain ⟨p1, l1, s1⟩ := h1
  obtain ⟨p2, l2, s2⟩ := h2
  refine ⟨?_, ?_, ?_⟩
  · simp only [Bins.concat, List.flatten_append]
    exact (p1.append p2).trans hp
  · simp only [Bins.concat, List.length_append]; omega
  · simp only [Bins.concat, List.map_append, s1, s2]

theorem ckk2_valid {v nm : α → Nat} [BEq α] (hckk : CkkValid v nm) {items : List α} {fuel : Nat} {two : Bins α}
    (h : ckk2 v nm true items fuel = .ok two) : IsPartition v items 2 two := by
  unfold ckk2 at h
  split at h
  · cases h
  · rename_i hne
    exact hckk items fuel two (by simpa using hne) h

theorem snpRec_valid {v nm : α → Nat} [BEq α] [LawfulBEq α] (hckk : CkkValid v nm) (items : List α) (k fuel : Nat)
    (cur : Nat) : ∀ (prior best : Bins α) (rem : List α) (r : Bins α),
    IsPartition v items k best →
    prior.lists.length + cur = k → prior.sums = prior.lists.map (binSum v) →
    (prior.lists.flatten ++ rem).Perm items →
    snpRec v nm true fuel cur prior best rem = .ok r → IsPartition v items k r := by
  induction cur using Nat.strongRecOn with
  | ind n ih =>
    intro prior best rem r hbest hlen hcons hperm h
    match n with
    | 0 => simp only [snpRec] at h; cases h; exact hbest
    | 1 => simp only [snpRec] at h; cases h; exact hbest
    | 2 =>
      simp only [snpRec] at h
      cases h2 : ckk2 v nm true rem fuel with
      | error e => rw [h2] at h; cases h
      | ok two =>
        rw [h2] at h
        simp only at h
        split at h
        · cases h
          have htwo := ckk2_valid hckk h2
          exact isPartition_concat htwo ⟨List.Perm.refl _, rfl, hcons⟩
            ((List.perm_append_comm).trans hperm) (by omega)
        · cases h; exact hbest
    | c + 3 =>
      rw [snpRec] at h
      refine treeFold_inv (IsPartition v items k) _ _ _ _ _ [] (sortDesc v rem) ?_ best r hbest h
      intro st s st' hst hs hb
      rw [List.nil_append] at hb
      refine ih (c + 2) (by omega) _ st _ st' hst ?_ ?_ ?_ hb
      · simp only [List.length_append, List.length_singleton]; omega
      · simp only [List.map_append, hcons, List.map_cons, List.map_nil]
      · simp only [List.flatten_append, List.flatten_singleton, List.append_assoc]
        exact ((findDiff_perm hs (sortDesc_perm v rem)).append_left _).trans hperm

/-- C01 for `snp` -/
theorem snp_isPartition {v nm : α → Nat} [BEq α] [LawfulBEq α] {k : Nat} {items : List α} {fuel : Nat} {b : Bins α}
    (hkk : KkValid v) (hckk : CkkValid v nm) (hk : 0 < k) (hne : items ≠ []) :
    snp v nm k true items fuel = .ok b → IsPartition v items k b := by
  intro h
  unfold snp at h
  cases hb : kk v k items with
  | error e => rw [hb] at h; cases h
  | ok best =>
    rw [hb] at h
    have hbest := hkk k items best hk hne hb
    simp only at h
    split at h
    · cases h; exact hbest
    · exact snpRec_valid hckk items k fuel k ⟨[], []⟩ best items b hbest (by simp) rfl (by simp) h

/-! ### 4. validity of RNP for numbins ≤ 5 (C01) -/

theorem foldE_inv {σ β : Type} (P : σ → Prop) (f : σ → β → Except Err σ) (l : List β)
    (hf : ∀ s x s', x ∈ l → P s → f s x = .ok s' → P s') :
    ∀ s s', P s → foldE f s l = .ok s' → P s' := by
  induction l with
  | nil => intro s s' hs h; simp only [foldE] at h; cases h; exact hs
  | cons x xs ih =>
    intro s s' hs h
    simp only [foldE] at h
    cases hx : f s x with
    | error e => rw [hx] at h; cases h
    | ok s1 =>
      rw [hx] at h
      exact ih (fun s y s' hy => hf s y s' (List.mem_cons_of_mem _ hy)) s1 s'
        (hf s x s1 List.mem_cons_self hs hx) h

theorem rnpRec_two {v nm : α → Nat} [BEq α] (hckk : CkkValid v nm) {fuel rf : Nat} {prior best r : Bins α}
    {items : List α} (h : rnpRec v nm true fuel rf 2 prior best items = .ok r) : IsPartition v items 2 r := by
  cases rf with
  | zero => simp only [rnpRec] at h; cases h
  | succ rf =>
    rw [rnpRec] at h
    simp only [BEq.rfl, if_true] at h
    exact ckk2_valid hckk h

theorem rnpRec_four {v nm : α → Nat} [BEq α] (hckk : CkkValid v nm) (hgen : CkkGenValid v nm)
    {fuel rf : Nat} {prior best r : Bins α}
    {items : List α} (h : rnpRec v nm true fuel rf 4 prior best items = .ok r) :
    IsPartition v items 4 r ∨ r = best := by
  cases rf with
  | zero => simp only [rnpRec] at h; cases h
  | succ rf =>
    rw [rnpRec] at h
    simp only [show ((4 : Nat) == 2) = false from rfl, show ((4 : Nat) % 2 == 1) = false from rfl,
      show (4 : Nat) / 2 = 2 from rfl, Bool.false_eq_true, if_false] at h
    by_cases hemp : items.isEmpty = true
    · rw [if_pos hemp] at h; cases h
    · rw [if_neg hemp] at h
      have hne : items ≠ [] := by simpa using hemp
      cases hg : ckkGen v nm 2 true items (some (spread best.sums)) fuel with
      | error e => rw [hg] at h; cases h
      | ok tops =>
        rw [hg] at h
        simp only at h
        have htops := hgen 2 items _ fuel tops (by omega) hne hg
        generalize hf : foldE _ (best, spread best.sums) tops = res at h
        cases res with
        | error e => cases h
        | ok st =>
          simp only [Except.map] at h
          cases h
          refine foldE_inv (fun st : Bins α × Nat => IsPartition v items 4 st.1 ∨ st.1 = best) _ tops ?_
            (best, spread best.sums) st (Or.inr rfl) hf
          intro s top s' htop hs hstep
          try simp only at hstep
          cases h1 : rnpRec v nm true fuel rf 2 prior s.1 (top.lists.getD 0 []) with
          | error e => rw [h1] at hstep; cases hstep
          | ok nb1 =>
            rw [h1] at hstep
            try simp only at hstep
            cases h2 : rnpRec v nm true fuel rf 2 prior s.1 (top.lists.getD 1 []) with
            | error e => rw [h2] at hstep; cases hstep
            | ok nb2 =>
              rw [h2] at hstep
              simp only at hstep
              split at hstep
              · cases hstep
                left
                obtain ⟨tp, tl, _⟩ := htops top htop
                refine isPartition_concat (rnpRec_two hckk h1) (rnpRec_two hckk h2) ?_ rfl
                match hl : top.lists, tl with
                | [a, b], _ =>
                  rw [hl] at tp
                  simpa using tp
              · cases hstep; exact hs

end Prtpy.SNPProofs
