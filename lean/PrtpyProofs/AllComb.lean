/-
  PrtpyProofs.AllComb — property C13c for the contents manager
  (`BinnerKeepingContents.all_combinations`): the bin-combination enumerator yields every distinct way of
  pairing the bins of two partial partitions exactly once.

  Canonical form of the pairing given by `perm` (bin `perm[i]` of `b1` is merged with bin `i` of `b2`):
  every merged bin has its items sorted by name, then the bins are sorted (stably) by sum.

  * `allCombContents_sound`      every yield is the canonical form of the pairing of some permutation;
  * `allCombContents_complete`   every permutation's canonical contents are yielded;
  * `allCombContents_nodup`      no two yields have the same contents;
  * `allCombContents_consistent` yields are consistent k-bin arrays with ascending sums holding exactly the
                                 items of `b1` and `b2`.
-/
import Prtpy
import PrtpyProofs.Part
import PrtpyProofs.CKK
import PrtpyProofs.BinsOps
open Prtpy

namespace Prtpy.AllComb

variable {α : Type}

/-- canonical form of the pairing `perm` for the contents manager -/
def canonC (nm : α → Nat) (b1 b2 : Bins α) (perm : List Nat) : Bins α :=
  (Bins.mk (pairBy b1 b2 perm).sums ((pairBy b1 b2 perm).lists.map (sortAsc nm))).sortAsc

/-! ## The de-duplication loop -/

section Loop
variable [BEq α]

theorem any_lists_iff [LawfulBEq α] (acc : List (Bins α)) (ls : List (List α)) :
    acc.any (fun o => o.lists == ls) = true ↔ ∃ o ∈ acc, o.lists = ls := by
  simp only [List.any_eq_true, beq_iff_eq]

theorem aux_nil (nm : α → Nat) (b1 b2 : Bins α) (acc : List (Bins α)) :
    allCombContentsAux nm b1 b2 [] acc = acc.reverse := rfl

theorem aux_cons (nm : α → Nat) (b1 b2 : Bins α) (perm : List Nat) (rest : List (List Nat))
    (acc : List (Bins α)) :
    allCombContentsAux nm b1 b2 (perm :: rest) acc =
      if acc.any (fun o => o.lists == (canonC nm b1 b2 perm).lists) then allCombContentsAux nm b1 b2 rest acc
      else allCombContentsAux nm b1 b2 rest (canonC nm b1 b2 perm :: acc) := rfl

/-- everything already accumulated is yielded -/
theorem aux_acc_subset (nm : α → Nat) (b1 b2 : Bins α) (perms : List (List Nat)) (acc : List (Bins α))
    {nb : Bins α} (h : nb ∈ acc) : nb ∈ allCombContentsAux nm b1 b2 perms acc := by
  induction perms generalizing acc with
  | nil => rw [aux_nil]; exact List.mem_reverse.2 h
  | cons perm rest ih =>
    rw [aux_cons]
    split
    · exact ih acc h
    · exact ih _ (List.mem_cons_of_mem _ h)

theorem aux_sound (nm : α → Nat) (b1 b2 : Bins α) (perms : List (List Nat)) (acc : List (Bins α))
    {nb : Bins α} (h : nb ∈ allCombContentsAux nm b1 b2 perms acc) :
    nb ∈ acc ∨ ∃ perm ∈ perms, nb = canonC nm b1 b2 perm := by
  induction perms generalizing acc with
  | nil => rw [aux_nil] at h; exact Or.inl (List.mem_reverse.1 h)
  | cons perm rest ih =>
    rw [aux_cons] at h
    split at h
    · rcases ih acc h with h | ⟨p, hp, rfl⟩
      · exact Or.inl h
      · exact Or.inr ⟨p, List.mem_cons_of_mem _ hp, rfl⟩
    · rcases ih _ h with h | ⟨p, hp, rfl⟩
      · rcases List.mem_cons.1 h with rfl | h
        · exact Or.inr ⟨perm, List.mem_cons_self, rfl⟩
        · exact Or.inl h
      · exact Or.inr ⟨p, List.mem_cons_of_mem _ hp, rfl⟩

theorem aux_complete [LawfulBEq α] (nm : α → Nat) (b1 b2 : Bins α) (perms : List (List Nat)) (acc : List (Bins α))
    {perm : List Nat} (h : perm ∈ perms) :
    ∃ nb ∈ allCombContentsAux nm b1 b2 perms acc, nb.lists = (canonC nm b1 b2 perm).lists := by
  induction perms generalizing acc with
  | nil => simp at h
  | cons p rest ih =>
    rw [aux_cons]
    rcases List.mem_cons.1 h with rfl | h
    · split
      · rename_i hany
        obtain ⟨o, ho, hol⟩ := (any_lists_iff _ _).1 hany
        exact ⟨o, aux_acc_subset nm b1 b2 rest acc ho, hol⟩
      · exact ⟨_, aux_acc_subset nm b1 b2 rest _ List.mem_cons_self, rfl⟩
    · split
      · exact ih acc h
      · exact ih _ h

theorem aux_pairwise [LawfulBEq α] (nm : α → Nat) (b1 b2 : Bins α) (perms : List (List Nat)) (acc : List (Bins α))
    (h : acc.reverse.Pairwise (fun a b => a.lists ≠ b.lists)) :
    (allCombContentsAux nm b1 b2 perms acc).Pairwise (fun a b => a.lists ≠ b.lists) := by
  induction perms generalizing acc with
  | nil => rw [aux_nil]; exact h
  | cons perm rest ih =>
    rw [aux_cons]
    split
    · exact ih acc h
    · rename_i hany
      apply ih
      rw [List.reverse_cons, List.pairwise_append]
      refine ⟨h, List.pairwise_singleton _ _, ?_⟩
      intro a ha b hb
      rw [List.mem_singleton] at hb
      subst hb
      intro hab
      exact hany ((any_lists_iff _ _).2 ⟨a, List.mem_reverse.1 ha, hab⟩)

/-- **A1** (soundness): every yielded bins-array is the canonical form of the pairing given by some
    permutation of the `k` bin indices. -/
theorem allCombContents_sound (nm : α → Nat) {b1 b2 : Bins α} {k : Nat} (hk : b1.sums.length = k)
    {nb : Bins α} (h : nb ∈ allCombContents nm b1 b2) :
    ∃ perm : List Nat, perm.Perm (List.range k) ∧ nb = canonC nm b1 b2 perm := by
  unfold allCombContents at h
  rcases aux_sound nm b1 b2 _ [] h with h | ⟨perm, hp, rfl⟩
  · simp at h
  · exact ⟨perm, hk ▸ CKKProofs.lexPerms_perm hp, rfl⟩

/-- **A2** (completeness): the canonical contents of every pairing are yielded. -/
theorem allCombContents_complete [LawfulBEq α] (nm : α → Nat) {b1 b2 : Bins α} {k : Nat} (hk : b1.sums.length = k)
    {perm : List Nat} (h : perm.Perm (List.range k)) :
    ∃ nb ∈ allCombContents nm b1 b2, nb.lists = (canonC nm b1 b2 perm).lists := by
  unfold allCombContents
  exact aux_complete nm b1 b2 _ [] (CKKProofs.lexPerms_complete (hk ▸ h))

/-- **A3** (exactly once): the yields have pairwise different contents. -/
theorem allCombContents_nodup [LawfulBEq α] (nm : α → Nat) (b1 b2 : Bins α) :
    (allCombContents nm b1 b2).Pairwise (fun a b => a.lists ≠ b.lists) :=
  aux_pairwise nm b1 b2 _ [] (by simp)

end Loop

/-! ## Structure of a canonical pairing -/

theorem pairBy_sums_eq (b1 b2 : Bins α) (perm : List Nat) :
    (pairBy b1 b2 perm).sums = List.zipWith (· + ·) (perm.map (b1.sums.getD · 0)) b2.sums := by
  simp only [pairBy, List.zipWith_map_left]

theorem pairBy_lists_eq (b1 b2 : Bins α) (perm : List Nat) :
    (pairBy b1 b2 perm).lists = List.zipWith (· ++ ·) (perm.map (b1.lists.getD · [])) b2.lists := by
  simp only [pairBy, List.zipWith_map_left]

/-- pairing consistent arrays gives a consistent array (for any index list) -/
theorem pairBy_consistent (v : α → Nat) {b1 b2 : Bins α} (h1 : b1.Consistent v) (h2 : b2.Consistent v)
    (perm : List Nat) : (pairBy b1 b2 perm).Consistent v := by
  unfold Bins.Consistent at *
  rw [pairBy_sums_eq, pairBy_lists_eq, h1, h2, ← Part.zipWith_map_binSum, List.map_map]
  congr 1
  apply List.map_congr_left
  intro p _
  exact BinsOps.getD_map_binSum v b1.lists p

theorem map_getD_range {β : Type} (l : List β) (d : β) :
    (List.range l.length).map (l.getD · d) = l := by
  apply List.ext_getElem
  · simp
  · intro i h1 h2
    simp only [List.getElem_map, List.getElem_range]
    simp only [List.getD_eq_getElem?_getD, List.getElem?_eq_getElem h2, Option.getD_some]

theorem map_getD_perm {β : Type} (l : List β) (d : β) {perm : List Nat}
    (h : perm.Perm (List.range l.length)) : (perm.map (l.getD · d)).Perm l := by
  have := h.map (l.getD · d)
  rwa [map_getD_range] at this

theorem pairBy_lists_length {b1 b2 : Bins α} {k : Nat} (h2 : b2.lists.length = k) {perm : List Nat}
    (hp : perm.length = k) : (pairBy b1 b2 perm).lists.length = k := by
  simp only [pairBy, List.length_zipWith]; omega

theorem pairBy_flat_perm {b1 b2 : Bins α} {k : Nat} (h1 : b1.lists.length = k) (h2 : b2.lists.length = k)
    {perm : List Nat} (hp : perm.Perm (List.range k)) :
    (pairBy b1 b2 perm).lists.flatten.Perm (b1.lists.flatten ++ b2.lists.flatten) := by
  have hlen : perm.length = k := by simpa using hp.length_eq
  rw [pairBy_lists_eq]
  refine (Part.zipWith_append_flatten_perm _ _ (by simp; omega)).trans ?_
  exact List.Perm.append_right _ (map_getD_perm b1.lists [] (h1 ▸ hp)).flatten

theorem flatten_map_sortAsc_perm (nm : α → Nat) (ls : List (List α)) :
    (ls.map (sortAsc nm)).flatten.Perm ls.flatten := by
  induction ls with
  | nil => simp
  | cons l ls ih =>
    simp only [List.map_cons, List.flatten_cons]
    exact (Part.sortAsc_perm nm l).append ih

/-- sorting each bin by name keeps the array consistent -/
theorem sortNames_consistent (v nm : α → Nat) {b : Bins α} (h : b.Consistent v) :
    (Bins.mk b.sums (b.lists.map (sortAsc nm))).Consistent v := by
  unfold Bins.Consistent at *
  simp only [List.map_map]
  rw [h]
  apply List.map_congr_left
  intro l _
  exact (Part.binSum_perm v (Part.sortAsc_perm nm l)).symm

/-- the canonical form of a pairing: consistent, `k` bins, ascending sums, all the items -/
theorem canonC_spec (v nm : α → Nat) {b1 b2 : Bins α} {k : Nat}
    (h1 : b1.Consistent v) (h2 : b2.Consistent v) (hk1 : b1.sums.length = k) (hk2 : b2.sums.length = k)
    {perm : List Nat} (hp : perm.Perm (List.range k)) :
    (canonC nm b1 b2 perm).Consistent v ∧ (canonC nm b1 b2 perm).sums.length = k ∧
    (canonC nm b1 b2 perm).lists.length = k ∧
    (canonC nm b1 b2 perm).sums.Pairwise (· ≤ ·) ∧
    (canonC nm b1 b2 perm).lists.flatten.Perm (b1.lists.flatten ++ b2.lists.flatten) := by
  have hl1 : b1.lists.length = k := by rw [← Part.consistent_length v h1]; exact hk1
  have hl2 : b2.lists.length = k := by rw [← Part.consistent_length v h2]; exact hk2
  have hlen : perm.length = k := by simpa using hp.length_eq
  have hc := sortNames_consistent v nm (pairBy_consistent v h1 h2 perm)
  have hlen' : (Bins.mk (pairBy b1 b2 perm).sums ((pairBy b1 b2 perm).lists.map (sortAsc nm))).sums.length =
      (Bins.mk (pairBy b1 b2 perm).sums ((pairBy b1 b2 perm).lists.map (sortAsc nm))).lists.length :=
    Part.consistent_length v hc
  have hcc : (canonC nm b1 b2 perm).Consistent v := Part.sortAsc_consistent v _ hc
  have hll : (canonC nm b1 b2 perm).lists.length = k := by
    unfold canonC
    rw [Part.sortAsc_lists_length _ hlen']
    simp only [List.length_map]
    exact pairBy_lists_length hl2 hlen
  refine ⟨hcc, ?_, hll, Part.sortAsc_sums_sorted _, ?_⟩
  · rw [Part.consistent_length v hcc]; exact hll
  · unfold canonC
    refine (Part.sortAsc_flat_perm _ hlen').trans ?_
    exact (flatten_map_sortAsc_perm nm _).trans (pairBy_flat_perm hl1 hl2 hp)

/-- **A4**: if `b1`, `b2` are consistent with `k` bins each then every yield is consistent, has `k` bins,
    ascending sums, and holds exactly the items of `b1` and `b2`. -/
theorem allCombContents_consistent [BEq α] (v nm : α → Nat) {b1 b2 : Bins α} {k : Nat}
    (h1 : b1.Consistent v) (h2 : b2.Consistent v) (hk1 : b1.sums.length = k) (hk2 : b2.sums.length = k)
    {nb : Bins α} (h : nb ∈ allCombContents nm b1 b2) :
    nb.Consistent v ∧ nb.sums.length = k ∧ nb.lists.length = k ∧ nb.sums.Pairwise (· ≤ ·) ∧
    nb.lists.flatten.Perm (b1.lists.flatten ++ b2.lists.flatten) := by
  obtain ⟨perm, hp, rfl⟩ := allCombContents_sound nm hk1 h
  exact canonC_spec v nm h1 h2 hk1 hk2 hp

/-! ## Non-vacuity -/

section Examples

/-- two 2-bin arrays over `Nat` items valued by themselves -/
def exB1 : Bins Nat := ⟨[1, 4], [[1], [4]]⟩
def exB2 : Bins Nat := ⟨[2, 5], [[2], [5]]⟩

example : (allCombContents id exB1 exB2).map (·.lists) = [[[1, 2], [4, 5]], [[2, 4], [1, 5]]] := by decide

-- A1
example : ∀ nb ∈ allCombContents id exB1 exB2,
    ∃ perm : List Nat, perm.Perm (List.range 2) ∧ nb = canonC id exB1 exB2 perm :=
  fun _ h => allCombContents_sound id (k := 2) rfl h

-- A2
example : ∃ nb ∈ allCombContents id exB1 exB2, nb.lists = (canonC id exB1 exB2 [1, 0]).lists :=
  allCombContents_complete id (k := 2) rfl (by decide)

-- A3 (with duplicate pairings: both permutations give the same contents when `b1`'s bins are equal)
example : (allCombContents id (⟨[1, 1], [[1], [1]]⟩ : Bins Nat) exB2).length = 1 := by decide
example := allCombContents_nodup id (⟨[1, 1], [[1], [1]]⟩ : Bins Nat) exB2

-- A4
example : ∀ nb ∈ allCombContents id exB1 exB2,
    nb.Consistent id ∧ nb.sums.length = 2 ∧ nb.lists.length = 2 ∧ nb.sums.Pairwise (· ≤ ·) ∧
    nb.lists.flatten.Perm (exB1.lists.flatten ++ exB2.lists.flatten) :=
  fun _ h => allCombContents_consistent id id (k := 2) (by decide) (by decide) rfl rfl h

end Examples

end Prtpy.AllComb

/-
#print axioms Prtpy.AllComb.allCombContents_sound
  'Prtpy.AllComb.allCombContents_sound' depends on axioms: [propext, Classical.choice, Quot.sound]
#print axioms Prtpy.AllComb.allCombContents_complete
  'Prtpy.AllComb.allCombContents_complete' depends on axioms: [propext, Classical.choice, Quot.sound]
#print axioms Prtpy.AllComb.allCombContents_nodup
  'Prtpy.AllComb.allCombContents_nodup' depends on axioms: [propext, Quot.sound]
#print axioms Prtpy.AllComb.allCombContents_consistent
  'Prtpy.AllComb.allCombContents_consistent' depends on axioms: [propext, Classical.choice, Quot.sound]
-/
