/-
  PrtpyProofs.Fit — first-fit / best-fit (online and decreasing):
  feasibility (C03), refusal (C19), the any-fit invariant and the bin-count bound (C09),
  characterisation of the best-fit scan and of the first-fit step (C14).

  Structure: both algorithms are instances of one generic loop `genLoop` over a step function that
  satisfies the relation `Step` ("put the item into a bin where it fits; open a new bin only if it fits
  nowhere").  The invariant `Inv` is proved once for every such step function.
-/
import Prtpy

namespace Prtpy.Fit
open Prtpy

variable {α : Type}

/-! ### list / sum helpers -/

theorem sumL_append (l₁ l₂ : List Nat) : sumL (l₁ ++ l₂) = sumL l₁ + sumL l₂ := by
  induction l₁ with
  | nil => simp [sumL]
  | cons a l ih => simp [sumL, ih, Nat.add_assoc]

theorem binSum_cons (v : α → Nat) (x : α) (l : List α) : binSum v (x :: l) = v x + binSum v l := rfl

theorem binSum_append (v : α → Nat) (l₁ l₂ : List α) :
    binSum v (l₁ ++ l₂) = binSum v l₁ + binSum v l₂ := by
  simp [binSum, sumL_append]

theorem binSum_perm {v : α → Nat} {l₁ l₂ : List α} (h : l₁.Perm l₂) : binSum v l₁ = binSum v l₂ := by
  induction h with
  | nil => rfl
  | cons x _ ih => simp [binSum_cons, ih]
  | swap x y l => simp only [binSum_cons]; omega
  | trans _ _ ih1 ih2 => exact ih1.trans ih2

theorem sumL_map_binSum (v : α → Nat) (ls : List (List α)) :
    sumL (ls.map (binSum v)) = binSum v ls.flatten := by
  induction ls with
  | nil => rfl
  | cons l ls ih => simp [sumL, binSum_append, ih]

theorem modify_append_length {β : Type} (l : List β) (a : β) (f : β → β) :
    (l ++ [a]).modify l.length f = l ++ [f a] := by
  induction l with
  | nil => rfl
  | cons b l ih => simp [List.modify_succ_cons, ih]

theorem flatten_modify_perm (x : α) : ∀ (ls : List (List α)) (i : Nat), i < ls.length →
    ((ls.modify i (· ++ [x])).flatten).Perm (ls.flatten ++ [x])
  | [], _, h => by simp at h
  | l :: ls, 0, _ => by
    simp only [List.modify_zero_cons, List.flatten_cons, List.append_assoc]
    exact List.Perm.append_left l List.perm_append_comm
  | l :: ls, i + 1, h => by
    simp only [List.modify_succ_cons, List.flatten_cons, List.append_assoc]
    exact List.Perm.append_left l (flatten_modify_perm x ls i (by simpa using h))

theorem map_modify_binSum (v : α → Nat) (x : α) : ∀ (ls : List (List α)) (i : Nat),
    (ls.modify i (· ++ [x])).map (binSum v) = (ls.map (binSum v)).modify i (· + v x)
  | [], _ => by simp
  | l :: ls, 0 => by simp [binSum, sumL_append, sumL]
  | l :: ls, i + 1 => by simp [map_modify_binSum v x ls i]

/-- an "any-fit" step: put `x` into some bin where it fits, open a new bin only if it fits nowhere -/
def Step (v : α → Nat) (B : Nat) (b : Bins α) (x : α) (b' : Bins α) : Prop :=
  (∃ i, ∃ _ : i < b.sums.length, b.sums[i] + v x ≤ B ∧ b' = b.add v x i) ∨
  ((∀ s ∈ b.sums, ¬ s + v x ≤ B) ∧ b' = (b.addEmpty 1).add v x b.sums.length)

theorem ffStep_step (v : α → Nat) (B : Nat) (b : Bins α) (x : α) : Step v B b x (ffStep v B b x) := by
  unfold ffStep
  split
  next i hi =>
    left
    rw [List.findIdx?_eq_some_iff_getElem] at hi
    obtain ⟨h, hfit, _⟩ := hi
    exact ⟨i, h, by simpa using hfit, rfl⟩
  next hn =>
    right
    rw [List.findIdx?_eq_none_iff] at hn
    exact ⟨by simpa using hn, rfl⟩

theorem addEmpty_add (v : α → Nat) (b : Bins α) (x : α) (h : b.sums.length = b.lists.length) :
    (b.addEmpty 1).add v x b.sums.length = ⟨b.sums ++ [v x], b.lists ++ [[x]]⟩ := by
  simp only [Bins.addEmpty, Bins.concat, Bins.new, Bins.add, List.replicate_one]
  rw [modify_append_length]
  rw [h, modify_append_length]
  simp

structure Inv (v : α → Nat) (B : Nat) (seen : List α) (b : Bins α) : Prop where
  perm : b.lists.flatten.Perm seen
  cons : b.sums = b.lists.map (binSum v)
  le : ∀ s ∈ b.sums, s ≤ B
  af : AnyFit v B b
  first : seen = [] → b.lists = [[]]
  nonempty : seen ≠ [] → ∀ l ∈ b.lists, l ≠ []

theorem Inv.len {v : α → Nat} {B : Nat} {seen : List α} {b : Bins α} (h : Inv v B seen b) :
    b.sums.length = b.lists.length := by
  rw [h.cons, List.length_map]

theorem anyfit_add {v : α → Nat} {B : Nat} {b : Bins α} (x : α) (i : Nat)
    (hl : b.sums.length = b.lists.length) (h : AnyFit v B b) : AnyFit v B (b.add v x i) := by
  intro i' j hij hj
  have hj' : j < b.lists.length := by simpa [Bins.add] using hj
  obtain ⟨y, hy, hlt⟩ := h i' j hij hj'
  refine ⟨y, ?_, ?_⟩
  · simp only [Bins.add, List.getD_eq_getElem?_getD] at hy ⊢
    rw [List.getElem?_eq_getElem (by simpa using hj')]
    rw [List.getElem?_eq_getElem hj'] at hy
    simp only [Option.getD_some, List.getElem_modify] at hy ⊢
    split
    · simp [List.head?_append, hy]
    · exact hy
  · have hi' : i' < b.sums.length := by omega
    simp only [Bins.add, List.getD_eq_getElem?_getD] at hlt ⊢
    rw [List.getElem?_eq_getElem (by simpa using hi')]
    rw [List.getElem?_eq_getElem hi'] at hlt
    simp only [Option.getD_some, List.getElem_modify] at hlt ⊢
    split <;> omega


theorem inv_add {v : α → Nat} {B : Nat} {seen : List α} {b : Bins α} (x : α) (i : Nat)
    (hi : i < b.sums.length) (hfit : b.sums[i] + v x ≤ B) (h : Inv v B seen b) :
    Inv v B (seen ++ [x]) (b.add v x i) := by
  have hl := h.len
  have hi' : i < b.lists.length := by omega
  refine ⟨?_, ?_, ?_, anyfit_add x i hl h.af, by simp, ?_⟩
  · exact (flatten_modify_perm x b.lists i hi').trans (h.perm.append_right [x])
  · simp only [Bins.add]
    rw [map_modify_binSum, ← h.cons]
  · intro s hs
    simp only [Bins.add] at hs
    obtain ⟨k, hk, rfl⟩ := List.getElem_of_mem hs
    have hk' : k < b.sums.length := by simpa using hk
    have := h.le _ (List.getElem_mem hk')
    rw [List.getElem_modify]
    split
    · subst_vars; exact hfit
    · exact this
  · intro _ l hl'
    simp only [Bins.add] at hl'
    obtain ⟨k, hk, rfl⟩ := List.getElem_of_mem hl'
    have hk' : k < b.lists.length := by simpa using hk
    rw [List.getElem_modify]
    split
    · simp
    · by_cases hs : seen = []
      · have := h.first hs
        simp only [this, List.length_cons, List.length_nil] at hi' hk'
        omega
      · exact h.nonempty hs _ (List.getElem_mem hk')

theorem inv_new {v : α → Nat} {B : Nat} {seen : List α} {b : Bins α} (x : α) (hx : v x ≤ B)
    (hno : ∀ s ∈ b.sums, ¬ s + v x ≤ B) (h : Inv v B seen b) :
    Inv v B (seen ++ [x]) ((b.addEmpty 1).add v x b.sums.length) := by
  have hl := h.len
  rw [addEmpty_add v b x hl]
  have hseen : seen ≠ [] := by
    intro hs
    have h1 := h.first hs
    have h2 := h.cons
    rw [h1] at h2
    have := hno 0 (by simp [h2, binSum, sumL])
    omega
  refine ⟨?_, ?_, ?_, ?_, by simp, ?_⟩
  · simp only [List.flatten_append, List.flatten_cons, List.flatten_nil, List.append_nil]
    exact h.perm.append_right [x]
  · simp [h.cons, binSum, sumL]
  · intro s hs
    simp only [List.mem_append, List.mem_singleton] at hs
    rcases hs with hs | rfl
    · exact h.le s hs
    · exact hx
  · intro i j hij hj
    simp only [List.length_append, List.length_cons, List.length_nil] at hj
    have hi : i < b.sums.length := by omega
    by_cases hjl : j < b.lists.length
    · obtain ⟨y, hy, hlt⟩ := h.af i j hij hjl
      refine ⟨y, ?_, ?_⟩
      · simpa [List.getD_eq_getElem?_getD, List.getElem?_append_left hjl] using hy
      · simpa [List.getD_eq_getElem?_getD, List.getElem?_append_left hi] using hlt
    · have hj' : j = b.lists.length := by omega
      subst hj'
      refine ⟨x, by simp [List.getD_eq_getElem?_getD], ?_⟩
      have := hno _ (List.getElem_mem hi)
      simp only [List.getD_eq_getElem?_getD, List.getElem?_append_left hi,
        List.getElem?_eq_getElem hi, Option.getD_some]
      omega
  · intro _ l hl'
    simp only [List.mem_append, List.mem_singleton] at hl'
    rcases hl' with hl' | rfl
    · exact h.nonempty hseen l hl'
    · simp

theorem inv_step {v : α → Nat} {B : Nat} {seen : List α} {b b' : Bins α} {x : α} (hx : v x ≤ B)
    (hs : Step v B b x b') (h : Inv v B seen b) : Inv v B (seen ++ [x]) b' := by
  rcases hs with ⟨i, hi, hfit, rfl⟩ | ⟨hno, rfl⟩
  · exact inv_add x i hi hfit h
  · exact inv_new x hx hno h

theorem inv_init (v : α → Nat) (B : Nat) : Inv v B [] (Bins.new 1 : Bins α) := by
  refine ⟨by simp [Bins.new], by simp [Bins.new, binSum, sumL], by simp [Bins.new], ?_, by simp [Bins.new], by simp⟩
  intro i j hij hj
  simp [Bins.new] at hj
  omega

theorem inv_foldl {v : α → Nat} {B : Nat} (step : Bins α → α → Bins α)
    (hstep : ∀ b x, Step v B b x (step b x)) :
    ∀ (xs seen : List α) (b : Bins α), (∀ x ∈ xs, v x ≤ B) → Inv v B seen b →
      Inv v B (seen ++ xs) (xs.foldl step b)
  | [], seen, b, _, h => by simpa using h
  | x :: xs, seen, b, hxs, h => by
    have := inv_foldl step hstep xs (seen ++ [x]) (step b x)
      (fun y hy => hxs y (List.mem_cons_of_mem _ hy))
      (inv_step (hxs x List.mem_cons_self) (hstep b x) h)
    simpa using this


/-! ### the best-fit scan (C14) -/

/-- what the best-fit scan has established about the prefix `l` scanned so far -/
def BfGood (val B : Nat) (l : List Nat) : Option (Nat × Nat) → Prop
  | none => ∀ s ∈ l, ¬ (s + val ≤ B)
  | some (i, ns) => ∃ h : i < l.length, ns = l[i] + val ∧ ns ≤ B ∧
      (∀ j (hj : j < l.length), l[j] + val ≤ B → l[j] ≤ l[i]) ∧
      (∀ j (hj : j < i), l[j] + val ≤ B → l[j] < l[i])

theorem bfGood_snoc (val B : Nat) (pre : List Nat) (s : Nat) (best : Option (Nat × Nat)) :
    BfGood val B pre best → BfGood val B (pre ++ [s])
      (if (decide (s + val ≤ B) && (match best with
          | none => true
          | some (_, bs) => decide (bs < s + val))) = true
        then some (pre.length, s + val) else best) := by
  intro h
  match best, h with
  | none, h =>
    simp only [BfGood] at h
    by_cases hs : s + val ≤ B
    · rw [if_pos (by simp [hs])]
      simp only [BfGood]
      refine ⟨by simp, by simp, hs, ?_, ?_⟩
      · intro j hj hfit
        by_cases hjl : j < pre.length
        · rw [List.getElem_append_left hjl] at hfit
          exact absurd hfit (h _ (List.getElem_mem hjl))
        · have : j = pre.length := by simp at hj; omega
          subst this; simp
      · intro j hj hfit
        rw [List.getElem_append_left hj] at hfit
        exact absurd hfit (h _ (List.getElem_mem hj))
    · simp only [hs, decide_false, Bool.false_and, Bool.false_eq_true, if_false, BfGood]
      intro t ht
      simp only [List.mem_append, List.mem_singleton] at ht
      rcases ht with ht | rfl
      · exact h t ht
      · exact hs
  | some (k, bs), h =>
    simp only [BfGood] at h
    obtain ⟨hk, hbs, hle, hall, hlt⟩ := h
    by_cases hs : s + val ≤ B ∧ bs < s + val
    · rw [if_pos (by simp [hs.1, hs.2])]
      simp only [BfGood]
      refine ⟨by simp, by simp, hs.1, ?_, ?_⟩
      · intro j hj hfit
        by_cases hjl : j < pre.length
        · rw [List.getElem_append_left hjl] at hfit ⊢
          have := hall j hjl hfit
          simp; omega
        · have : j = pre.length := by simp at hj; omega
          subst this; simp
      · intro j hj hfit
        rw [List.getElem_append_left hj] at hfit ⊢
        have := hall j hj hfit
        simp; omega
    · have : (decide (s + val ≤ B) && decide (bs < s + val)) = false := by
        simp only [Bool.and_eq_false_iff, decide_eq_false_iff_not]; omega
      simp only [this, Bool.false_eq_true, if_false, BfGood]
      have hk' : k < (pre ++ [s]).length := by simp; omega
      refine ⟨hk', ?_, hle, ?_, ?_⟩
      · rw [List.getElem_append_left hk]; exact hbs
      · intro j hj hfit
        rw [List.getElem_append_left hk]
        by_cases hjl : j < pre.length
        · rw [List.getElem_append_left hjl] at hfit ⊢
          exact hall j hjl hfit
        · have : j = pre.length := by simp at hj; omega
          subst this
          simp only [List.getElem_append_right (Nat.le_refl _), Nat.sub_self,
            List.getElem_cons_zero] at hfit ⊢
          omega
      · intro j hj hfit
        have hjl : j < pre.length := by omega
        rw [List.getElem_append_left hk]
        rw [List.getElem_append_left hjl] at hfit ⊢
        exact hlt j hj hfit

theorem bfScan_gen (val B : Nat) : ∀ (ss pre : List Nat) (best : Option (Nat × Nat)),
    BfGood val B pre best → BfGood val B (pre ++ ss) (bfScan val B ss pre.length best)
  | [], pre, best, h => by simpa [bfScan] using h
  | s :: ss, pre, best, h => by
    have h1 := bfGood_snoc val B pre s best h
    have h2 := bfScan_gen val B ss (pre ++ [s]) _ h1
    rcases best with _ | ⟨k, bs⟩ <;> simpa [bfScan] using h2

theorem bfScan_good (val B : Nat) (sums : List Nat) : BfGood val B sums (bfScan val B sums 0 none) := by
  have := bfScan_gen val B sums [] none (by simp [BfGood])
  simpa using this

theorem bfScan_spec (val B : Nat) (sums : List Nat) :
    match bfScan val B sums 0 none with
    | none => ∀ s ∈ sums, ¬ (s + val ≤ B)
    | some (i, ns) => ∃ h : i < sums.length, ns = sums[i] + val ∧ ns ≤ B ∧
        (∀ j (hj : j < sums.length), sums[j] + val ≤ B → sums[j] ≤ sums[i]) ∧
        (∀ j (hj : j < i), sums[j] + val ≤ B → sums[j] < sums[i]) := by
  have := bfScan_good val B sums
  revert this
  cases bfScan val B sums 0 none with
  | none => exact id
  | some p => exact id

example : bfScan 3 10 [5, 7, 2, 7, 9] 0 none = some (1, 10) := by decide
example : ∀ j (hj : j < [5, 7, 2, 7, 9].length), [5, 7, 2, 7, 9][j] + 3 ≤ 10 → [5, 7, 2, 7, 9][j] ≤ 7 := by
  obtain ⟨_, _, _, h, _⟩ := bfScan_spec 3 10 [5, 7, 2, 7, 9]
  exact h
example : ∀ s ∈ [8, 9], ¬ (s + 3 ≤ 10) := bfScan_spec 3 10 [8, 9]


/-! ### both steps are any-fit steps -/

theorem bfStep_step (v : α → Nat) (B : Nat) (b : Bins α) (x : α) : Step v B b x (bfStep v B b x) := by
  have hg := bfScan_good (v x) B b.sums
  unfold bfStep
  split
  next i ns hi =>
    rw [hi] at hg
    obtain ⟨h, hns, hle, _, _⟩ := hg
    exact Or.inl ⟨i, h, by omega, rfl⟩
  next hn =>
    rw [hn] at hg
    exact Or.inr ⟨hg, rfl⟩

/-- `ffStep` picks the first index whose bin has room, else opens a new bin (definitional form) -/
theorem ffStep_spec (v : α → Nat) (B : Nat) (b : Bins α) (x : α) :
    ffStep v B b x =
      match b.sums.findIdx? (fun s => decide (s + v x ≤ B)) with
      | some i => b.add v x i
      | none => (b.addEmpty 1).add v x b.sums.length := rfl

/-- `ffStep`, semantic form: the chosen bin is the first one with room -/
theorem ffStep_spec' (v : α → Nat) (B : Nat) (b : Bins α) (x : α) :
    (∃ i, ∃ h : i < b.sums.length, b.sums[i] + v x ≤ B ∧ (∀ j (hj : j < i), ¬ b.sums[j] + v x ≤ B) ∧
        ffStep v B b x = b.add v x i) ∨
    ((∀ s ∈ b.sums, ¬ s + v x ≤ B) ∧ ffStep v B b x = (b.addEmpty 1).add v x b.sums.length) := by
  unfold ffStep
  split
  next i hi =>
    left
    rw [List.findIdx?_eq_some_iff_getElem] at hi
    obtain ⟨h, hfit, hfirst⟩ := hi
    exact ⟨i, h, by simpa using hfit, fun j hj => by simpa using hfirst j hj, rfl⟩
  next hn =>
    right
    rw [List.findIdx?_eq_none_iff] at hn
    exact ⟨by simpa using hn, rfl⟩

/-- `bfStep`, semantic form: the chosen bin is the fullest one with room, the first among equally full -/
theorem bfStep_spec (v : α → Nat) (B : Nat) (b : Bins α) (x : α) :
    (∃ i, ∃ h : i < b.sums.length, b.sums[i] + v x ≤ B ∧
        (∀ j (hj : j < b.sums.length), b.sums[j] + v x ≤ B → b.sums[j] ≤ b.sums[i]) ∧
        (∀ j (hj : j < i), b.sums[j] + v x ≤ B → b.sums[j] < b.sums[i]) ∧
        bfStep v B b x = b.add v x i) ∨
    ((∀ s ∈ b.sums, ¬ s + v x ≤ B) ∧ bfStep v B b x = (b.addEmpty 1).add v x b.sums.length) := by
  have hg := bfScan_good (v x) B b.sums
  unfold bfStep
  split
  next i ns hi =>
    rw [hi] at hg
    obtain ⟨h, hns, hle, h1, h2⟩ := hg
    exact Or.inl ⟨i, h, by omega, h1, h2, rfl⟩
  next hn =>
    rw [hn] at hg
    exact Or.inr ⟨hg, rfl⟩

example : ffStep id 10 ⟨[8, 5, 3], [[8], [5], [3]]⟩ 4 = (⟨[8, 9, 3], [[8], [5, 4], [3]]⟩ : Bins Nat) :=
  (ffStep_spec id 10 ⟨[8, 5, 3], [[8], [5], [3]]⟩ 4).trans rfl
example : bfStep id 10 ⟨[8, 5, 6], [[8], [5], [6]]⟩ 4 = (⟨[8, 5, 10], [[8], [5], [6, 4]]⟩ : Bins Nat) := rfl
example : ffStep id 10 ⟨[8, 7], [[8], [7]]⟩ 4 = (⟨[8, 7, 4], [[8], [7], [4]]⟩ : Bins Nat) := rfl

/-! ### the generic loop -/

/-- the common shape of `ffLoop` and `bfLoop` -/
def genLoop (v : α → Nat) (B : Nat) (step : Bins α → α → Bins α) : Bins α → List α → Except Err (Bins α)
  | b, [] => .ok b
  | b, x :: xs => if B < v x then .error .valueError else genLoop v B step (step b x) xs

theorem ffLoop_eq (v : α → Nat) (B : Nat) : ∀ (xs : List α) (b : Bins α),
    ffLoop v B b xs = genLoop v B (ffStep v B) b xs
  | [], _ => rfl
  | x :: xs, b => by simp only [ffLoop, genLoop, ffLoop_eq v B xs]

theorem bfLoop_eq (v : α → Nat) (B : Nat) : ∀ (xs : List α) (b : Bins α),
    bfLoop v B b xs = genLoop v B (bfStep v B) b xs
  | [], _ => rfl
  | x :: xs, b => by simp only [bfLoop, genLoop, bfLoop_eq v B xs]

theorem genLoop_ok (v : α → Nat) (B : Nat) (step : Bins α → α → Bins α) : ∀ (xs : List α) (b : Bins α),
    (∀ x ∈ xs, v x ≤ B) → genLoop v B step b xs = .ok (xs.foldl step b)
  | [], _, _ => rfl
  | x :: xs, b, h => by
    have hx : ¬ B < v x := Nat.not_lt.2 (h x List.mem_cons_self)
    simp only [genLoop, if_neg hx, List.foldl_cons]
    exact genLoop_ok v B step xs (step b x) (fun y hy => h y (List.mem_cons_of_mem _ hy))

theorem genLoop_err (v : α → Nat) (B : Nat) (step : Bins α → α → Bins α) : ∀ (xs : List α) (b : Bins α),
    (∃ x ∈ xs, B < v x) → genLoop v B step b xs = .error .valueError
  | [], _, h => by simp at h
  | x :: xs, b, h => by
    by_cases hx : B < v x
    · simp only [genLoop, if_pos hx]
    · simp only [genLoop, if_neg hx]
      apply genLoop_err v B step xs
      obtain ⟨y, hy, hlt⟩ := h
      rcases List.mem_cons.1 hy with rfl | hy
      · exact absurd hlt hx
      · exact ⟨y, hy, hlt⟩

theorem all_le_or_exists_gt (v : α → Nat) (B : Nat) (xs : List α) :
    (∀ x ∈ xs, v x ≤ B) ∨ (∃ x ∈ xs, B < v x) := by
  induction xs with
  | nil => left; simp
  | cons x xs ih =>
    by_cases hx : B < v x
    · exact Or.inr ⟨x, List.mem_cons_self, hx⟩
    · rcases ih with ih | ⟨y, hy, hlt⟩
      · left
        intro y hy
        rcases List.mem_cons.1 hy with rfl | hy
        · omega
        · exact ih y hy
      · exact Or.inr ⟨y, List.mem_cons_of_mem _ hy, hlt⟩

section generic
variable {v : α → Nat} {B : Nat} {step : Bins α → α → Bins α} {items : List α} {b : Bins α}

theorem gen_error_iff : (∃ e, genLoop v B step (Bins.new 1) items = .error e) ↔ ∃ x ∈ items, B < v x := by
  constructor
  · rintro ⟨e, he⟩
    rcases all_le_or_exists_gt v B items with h | h
    · rw [genLoop_ok v B step items _ h] at he; cases he
    · exact h
  · intro h
    exact ⟨_, genLoop_err v B step items _ h⟩

theorem gen_error_kind {e : Err} (he : genLoop v B step (Bins.new 1) items = .error e) :
    e = Err.valueError := by
  rcases all_le_or_exists_gt v B items with h | h
  · rw [genLoop_ok v B step items _ h] at he; cases he
  · rw [genLoop_err v B step items _ h] at he
    cases he; rfl

theorem gen_ok_all_le (hb : genLoop v B step (Bins.new 1) items = .ok b) : ∀ x ∈ items, v x ≤ B := by
  rcases all_le_or_exists_gt v B items with h | h
  · exact h
  · rw [genLoop_err v B step items _ h] at hb; cases hb

theorem gen_inv (hstep : ∀ b x, Step v B b x (step b x))
    (hb : genLoop v B step (Bins.new 1) items = .ok b) : Inv v B items b := by
  have hall := gen_ok_all_le hb
  rw [genLoop_ok v B step items _ hall] at hb
  cases hb
  simpa using inv_foldl step hstep items [] (Bins.new 1) hall (inv_init v B)

theorem Inv.isPacking (h : Inv v B items b) : IsPacking v B items b :=
  ⟨h.perm, h.cons, h.le, h.nonempty⟩

theorem gen_isPacking (hstep : ∀ b x, Step v B b x (step b x)) (h : ∀ x ∈ items, v x ≤ B) :
    ∃ b, genLoop v B step (Bins.new 1) items = .ok b ∧ IsPacking v B items b :=
  ⟨_, genLoop_ok v B step items _ h, (gen_inv hstep (genLoop_ok v B step items _ h)).isPacking⟩

end generic

/-! ### `sortDesc` is a permutation -/

theorem insertDesc_perm (key : α → Nat) (x : α) : ∀ l : List α, (insertDesc key x l).Perm (x :: l)
  | [] => List.Perm.refl _
  | y :: ys => by
    simp only [insertDesc]
    split
    · exact List.Perm.refl _
    · exact ((insertDesc_perm key x ys).cons y).trans (List.Perm.swap x y ys)

theorem sortDesc_perm (key : α → Nat) : ∀ l : List α, (sortDesc key l).Perm l
  | [] => List.Perm.refl _
  | x :: xs => (insertDesc_perm key x (sortDesc key xs)).trans ((sortDesc_perm key xs).cons x)

theorem isPacking_of_perm {v : α → Nat} {B : Nat} {l₁ l₂ : List α} {b : Bins α} (hp : l₁.Perm l₂)
    (h : IsPacking v B l₁ b) : IsPacking v B l₂ b := by
  obtain ⟨h1, h2, h3, h4⟩ := h
  refine ⟨h1.trans hp, h2, h3, fun hne => h4 ?_⟩
  intro h0
  subst h0
  exact hne hp.symm.eq_nil

section main
variable {v : α → Nat} {B : Nat} {items : List α} {b : Bins α}

/-! ### 1. feasibility (C03) -/

theorem ffOnline_isPacking (h : ∀ x ∈ items, v x ≤ B) :
    ∃ b, ffOnline v B items = .ok b ∧ IsPacking v B items b := by
  simp only [ffOnline, ffLoop_eq]
  exact gen_isPacking (ffStep_step v B) h

example : ∃ b, ffOnline id 10 [3, 8, 0, 2, 7, 3, 10] = .ok b ∧ IsPacking id 10 [3, 8, 0, 2, 7, 3, 10] b :=
  ffOnline_isPacking (by decide)

theorem bfOnline_isPacking (h : ∀ x ∈ items, v x ≤ B) :
    ∃ b, bfOnline v B items = .ok b ∧ IsPacking v B items b := by
  simp only [bfOnline, bfLoop_eq]
  exact gen_isPacking (bfStep_step v B) h

example : ∃ b, bfOnline id 10 [3, 8, 0, 2, 7, 3, 10] = .ok b ∧ IsPacking id 10 [3, 8, 0, 2, 7, 3, 10] b :=
  bfOnline_isPacking (by decide)

theorem ffDecreasing_isPacking (h : ∀ x ∈ items, v x ≤ B) :
    ∃ b, ffDecreasing v B items = .ok b ∧ IsPacking v B items b := by
  have hp := sortDesc_perm v items
  obtain ⟨b, hb, hpk⟩ := ffOnline_isPacking (v := v) (B := B) (items := sortDesc v items)
    (fun x hx => h x (hp.mem_iff.1 hx))
  exact ⟨b, hb, isPacking_of_perm hp hpk⟩

example : ∃ b, ffDecreasing id 10 [3, 8, 0, 2, 7, 3, 10] = .ok b ∧
    IsPacking id 10 [3, 8, 0, 2, 7, 3, 10] b :=
  ffDecreasing_isPacking (by decide)

theorem bfDecreasing_isPacking (h : ∀ x ∈ items, v x ≤ B) :
    ∃ b, bfDecreasing v B items = .ok b ∧ IsPacking v B items b := by
  have hp := sortDesc_perm v items
  obtain ⟨b, hb, hpk⟩ := bfOnline_isPacking (v := v) (B := B) (items := sortDesc v items)
    (fun x hx => h x (hp.mem_iff.1 hx))
  exact ⟨b, hb, isPacking_of_perm hp hpk⟩

example : ∃ b, bfDecreasing id 10 [3, 8, 0, 2, 7, 3, 10] = .ok b ∧
    IsPacking id 10 [3, 8, 0, 2, 7, 3, 10] b :=
  bfDecreasing_isPacking (by decide)

/-- the full invariant of a successful run (everything the other theorems project from) -/
theorem ffOnline_inv (h : ffOnline v B items = .ok b) : Inv v B items b := by
  simp only [ffOnline, ffLoop_eq] at h
  exact gen_inv (ffStep_step v B) h

theorem bfOnline_inv (h : bfOnline v B items = .ok b) : Inv v B items b := by
  simp only [bfOnline, bfLoop_eq] at h
  exact gen_inv (bfStep_step v B) h

/-- a successful run is a packing — no hypothesis on the items needed -/
theorem ffOnline_ok_isPacking (h : ffOnline v B items = .ok b) : IsPacking v B items b :=
  (ffOnline_inv h).isPacking

theorem bfOnline_ok_isPacking (h : bfOnline v B items = .ok b) : IsPacking v B items b :=
  (bfOnline_inv h).isPacking

theorem ffDecreasing_ok_isPacking (h : ffDecreasing v B items = .ok b) : IsPacking v B items b :=
  isPacking_of_perm (sortDesc_perm v items) (ffOnline_ok_isPacking h)

theorem bfDecreasing_ok_isPacking (h : bfDecreasing v B items = .ok b) : IsPacking v B items b :=
  isPacking_of_perm (sortDesc_perm v items) (bfOnline_ok_isPacking h)

theorem ffOnline_lengths (h : ffOnline v B items = .ok b) : b.sums.length = b.lists.length :=
  (ffOnline_inv h).len

theorem bfOnline_lengths (h : bfOnline v B items = .ok b) : b.sums.length = b.lists.length :=
  (bfOnline_inv h).len

theorem ffDecreasing_lengths (h : ffDecreasing v B items = .ok b) : b.sums.length = b.lists.length :=
  ffOnline_lengths h

theorem bfDecreasing_lengths (h : bfDecreasing v B items = .ok b) : b.sums.length = b.lists.length :=
  bfOnline_lengths h

example : (⟨[6, 10, 6], [[6], [5, 5], [6]]⟩ : Bins Nat).sums.length = 3 :=
  ffOnline_lengths (v := id) (B := 10) (items := [6, 5, 6, 5]) rfl

example : (⟨[10, 9], [[6, 4], [5, 4]]⟩ : Bins Nat).sums.length = 2 :=
  bfOnline_lengths (v := id) (B := 10) (items := [6, 5, 4, 4]) rfl

/-! ### 2. refusal (C19) -/

theorem ffOnline_error_iff : (∃ e, ffOnline v B items = .error e) ↔ ∃ x ∈ items, B < v x := by
  simp only [ffOnline, ffLoop_eq]
  exact gen_error_iff

theorem ffOnline_error_kind {e : Err} (h : ffOnline v B items = .error e) : e = Err.valueError := by
  simp only [ffOnline, ffLoop_eq] at h
  exact gen_error_kind h

theorem bfOnline_error_iff : (∃ e, bfOnline v B items = .error e) ↔ ∃ x ∈ items, B < v x := by
  simp only [bfOnline, bfLoop_eq]
  exact gen_error_iff

theorem bfOnline_error_kind {e : Err} (h : bfOnline v B items = .error e) : e = Err.valueError := by
  simp only [bfOnline, bfLoop_eq] at h
  exact gen_error_kind h

theorem ffDecreasing_error_iff : (∃ e, ffDecreasing v B items = .error e) ↔ ∃ x ∈ items, B < v x := by
  have hp := sortDesc_perm v items
  rw [ffDecreasing, ffOnline_error_iff]
  exact ⟨fun ⟨x, hx, h⟩ => ⟨x, hp.mem_iff.1 hx, h⟩, fun ⟨x, hx, h⟩ => ⟨x, hp.mem_iff.2 hx, h⟩⟩

theorem ffDecreasing_error_kind {e : Err} (h : ffDecreasing v B items = .error e) :
    e = Err.valueError :=
  ffOnline_error_kind h

theorem bfDecreasing_error_iff : (∃ e, bfDecreasing v B items = .error e) ↔ ∃ x ∈ items, B < v x := by
  have hp := sortDesc_perm v items
  rw [bfDecreasing, bfOnline_error_iff]
  exact ⟨fun ⟨x, hx, h⟩ => ⟨x, hp.mem_iff.1 hx, h⟩, fun ⟨x, hx, h⟩ => ⟨x, hp.mem_iff.2 hx, h⟩⟩

theorem bfDecreasing_error_kind {e : Err} (h : bfDecreasing v B items = .error e) :
    e = Err.valueError :=
  bfOnline_error_kind h

example : ∃ e, ffOnline id 10 [3, 11, 2] = .error e := ffOnline_error_iff.2 ⟨11, by decide, by decide⟩
example : ∃ e, bfOnline id 10 [3, 11, 2] = .error e := bfOnline_error_iff.2 ⟨11, by decide, by decide⟩
example : ∃ e, ffDecreasing id 10 [3, 11, 2] = .error e :=
  ffDecreasing_error_iff.2 ⟨11, by decide, by decide⟩
example : ∃ e, bfDecreasing id 10 [3, 11, 2] = .error e :=
  bfDecreasing_error_iff.2 ⟨11, by decide, by decide⟩
example : ∃ x ∈ [3, 11, 2], 10 < id x := ffOnline_error_iff.1 ⟨.valueError, rfl⟩
example : ∃ e, ffOnline id 10 [3, 11, 2] = .error e ∧ e = Err.valueError :=
  ⟨_, rfl, ffOnline_error_kind (rfl : ffOnline id 10 [3, 11, 2] = .error .valueError)⟩
example : ∃ e, bfOnline id 10 [3, 11, 2] = .error e ∧ e = Err.valueError :=
  ⟨_, rfl, bfOnline_error_kind (rfl : bfOnline id 10 [3, 11, 2] = .error .valueError)⟩
example : ∃ e, ffDecreasing id 10 [3, 11, 2] = .error e ∧ e = Err.valueError :=
  ⟨_, rfl, ffDecreasing_error_kind (rfl : ffDecreasing id 10 [3, 11, 2] = .error .valueError)⟩
example : ∃ e, bfDecreasing id 10 [3, 11, 2] = .error e ∧ e = Err.valueError :=
  ⟨_, rfl, bfDecreasing_error_kind (rfl : bfDecreasing id 10 [3, 11, 2] = .error .valueError)⟩

/-! ### 3. the any-fit invariant (C09) -/

theorem ffOnline_anyfit (h : ffOnline v B items = .ok b) : AnyFit v B b := (ffOnline_inv h).af

theorem bfOnline_anyfit (h : bfOnline v B items = .ok b) : AnyFit v B b := (bfOnline_inv h).af

theorem ffDecreasing_anyfit (h : ffDecreasing v B items = .ok b) : AnyFit v B b := ffOnline_anyfit h

theorem bfDecreasing_anyfit (h : bfDecreasing v B items = .ok b) : AnyFit v B b := bfOnline_anyfit h

example : AnyFit id 10 (⟨[6, 10, 6], [[6], [5, 5], [6]]⟩ : Bins Nat) :=
  ffOnline_anyfit (items := [6, 5, 6, 5]) rfl
example : AnyFit id 10 (⟨[10, 9], [[6, 4], [5, 4]]⟩ : Bins Nat) :=
  bfOnline_anyfit (items := [6, 5, 4, 4]) rfl
example : AnyFit id 10 (⟨[10, 10, 2], [[6, 4], [5, 5], [2]]⟩ : Bins Nat) :=
  ffDecreasing_anyfit (items := [5, 4, 6, 2, 5]) rfl
example : AnyFit id 10 (⟨[10, 10, 2], [[6, 4], [5, 5], [2]]⟩ : Bins Nat) :=
  bfDecreasing_anyfit (items := [5, 4, 6, 2, 5]) rfl

end main

/-! ### 4. the bin-count bound (C09) -/

theorem pairwise_bound (B : Nat) : ∀ l : List Nat, l.Pairwise (fun a c => B < a + c) → 2 ≤ l.length →
    l.length * B < 2 * sumL l
  | [], _, h => by simp at h
  | [_], _, h => by simp at h
  | [a, c], hp, _ => by
    have : B < a + c := (List.pairwise_cons.1 hp).1 c (by simp)
    simp only [List.length_cons, List.length_nil, sumL]
    omega
  | [a, c, d], hp, _ => by
    have h1 : B < a + c := (List.pairwise_cons.1 hp).1 c (by simp)
    have h2 : B < a + d := (List.pairwise_cons.1 hp).1 d (by simp)
    have h3 : B < c + d := (List.pairwise_cons.1 (List.pairwise_cons.1 hp).2).1 d (by simp)
    simp only [List.length_cons, List.length_nil, sumL]
    omega
  | a :: c :: d :: e :: rest, hp, _ => by
    have h1 : B < a + c := (List.pairwise_cons.1 hp).1 c (by simp)
    have ih := pairwise_bound B (d :: e :: rest)
      (List.pairwise_cons.1 (List.pairwise_cons.1 hp).2).2 (by simp)
    simp only [List.length_cons, sumL, Nat.add_mul] at ih ⊢
    omega

theorem head_le_binSum (v : α → Nat) {l : List α} {x : α} (h : l.head? = some x) : v x ≤ binSum v l := by
  cases l with
  | nil => simp at h
  | cons y ys =>
    simp only [List.head?_cons, Option.some.injEq] at h
    subst h
    rw [binSum_cons]; omega

theorem anyfit_pairwise {v : α → Nat} {B : Nat} {b : Bins α} (hc : b.sums = b.lists.map (binSum v))
    (h : AnyFit v B b) : b.sums.Pairwise (fun a c => B < a + c) := by
  rw [List.pairwise_iff_getElem]
  intro i j hi hj hij
  have hl : b.sums.length = b.lists.length := by rw [hc, List.length_map]
  have hj' : j < b.lists.length := by omega
  obtain ⟨x, hx, hlt⟩ := h i j hij hj'
  simp only [List.getD_eq_getElem?_getD, List.getElem?_eq_getElem hj', List.getElem?_eq_getElem hi,
    Option.getD_some] at hx hlt
  have h1 := head_le_binSum v hx
  have h2 : b.sums[j] = binSum v b.lists[j] := by simp [hc]
  omega

theorem sums_total {v : α → Nat} {B : Nat} {items : List α} {b : Bins α} (h : IsPacking v B items b) :
    sumL b.sums = binSum v items := by
  rw [h.2.1, sumL_map_binSum]
  exact binSum_perm h.1

/-- with at least two bins, an any-fit packing fills the bins more than half on average -/
theorem anyfit_lt_two_total {v : α → Nat} {B : Nat} {items : List α} {b : Bins α}
    (hp : IsPacking v B items b) (ha : AnyFit v B b) (h2 : 2 ≤ b.lists.length) :
    b.lists.length * B < 2 * binSum v items := by
  have hl : b.sums.length = b.lists.length := by rw [hp.2.1, List.length_map]
  have := pairwise_bound B b.sums (anyfit_pairwise hp.2.1 ha) (by omega)
  rw [sums_total hp, hl] at this
  exact this

theorem sumL_modify_add (a : Nat) : ∀ (s : List Nat) (i : Nat), i < s.length →
    sumL (s.modify i (· + a)) = sumL s + a
  | [], _, h => by simp at h
  | t :: s, 0, _ => by simp only [List.modify_zero_cons, sumL]; omega
  | t :: s, i + 1, h => by
    simp only [List.modify_succ_cons, sumL]
    rw [sumL_modify_add a s i (by simpa using h)]; omega

theorem foldl_modify_sum : ∀ (ps : List (Nat × Nat)) (s : List Nat), (∀ p ∈ ps, p.2 < s.length) →
    (ps.foldl (fun s (p : Nat × Nat) => s.modify p.2 (· + p.1)) s).length = s.length ∧
    sumL (ps.foldl (fun s (p : Nat × Nat) => s.modify p.2 (· + p.1)) s) = sumL s + sumL (ps.map (·.1))
  | [], s, _ => by simp [sumL]
  | p :: ps, s, h => by
    have hp := h p List.mem_cons_self
    have ih := foldl_modify_sum ps (s.modify p.2 (· + p.1))
      (fun q hq => by simpa using h q (List.mem_cons_of_mem _ hq))
    simp only [List.foldl_cons, List.map_cons, sumL]
    rw [ih.1, ih.2, sumL_modify_add p.1 s p.2 hp, List.length_modify]
    exact ⟨rfl, by omega⟩

theorem sumL_replicate_zero (m : Nat) : sumL (List.replicate m 0) = 0 := by
  induction m with
  | zero => rfl
  | succ m ih => simp [List.replicate_succ, sumL, ih]

theorem sumL_le_length_mul {B : Nat} : ∀ l : List Nat, (∀ s ∈ l, s ≤ B) → sumL l ≤ l.length * B
  | [], _ => by simp [sumL]
  | a :: l, h => by
    have h1 := h a List.mem_cons_self
    have ih := sumL_le_length_mul l (fun s hs => h s (List.mem_cons_of_mem _ hs))
    simp only [sumL, List.length_cons, Nat.add_mul]
    omega

theorem sumsOf_length_sum {m : Nat} {vals asg : List Nat} (h : IsAssignment m vals.length asg) :
    (sumsOf m vals asg).length = m ∧ sumL (sumsOf m vals asg) = sumL vals := by
  obtain ⟨hlen, hlt⟩ := h
  have := foldl_modify_sum (vals.zip asg) (List.replicate m 0) (fun p hp => by
    have := (List.of_mem_zip (a := p.1) (b := p.2) hp).2
    simpa using hlt _ this)
  unfold sumsOf
  rw [this.1, this.2, sumL_replicate_zero, List.map_fst_zip (by omega)]
  simp

example : 4 * 10 < 2 * binSum id [4, 4, 4, 6, 6, 6] :=
  anyfit_lt_two_total (b := ⟨[8, 10, 6, 6], [[4, 4], [4, 6], [6], [6]]⟩)
    (ffOnline_ok_isPacking (items := [4, 4, 4, 6, 6, 6]) rfl)
    (ffOnline_anyfit (items := [4, 4, 4, 6, 6, 6]) rfl) (by decide)

/-- `m` bins of capacity `B` hold at most `m * B` -/
theorem packing_lower_bound {B m : Nat} {vals : List Nat} (h : Packable B m vals) : sumL vals ≤ m * B := by
  obtain ⟨asg, hasg, hle⟩ := h
  have hs := sumsOf_length_sum hasg
  have := sumL_le_length_mul _ hle
  rw [hs.1, hs.2] at this
  exact this

example : sumL [4, 4, 4, 6, 6, 6] ≤ 3 * 10 :=
  packing_lower_bound ⟨[0, 1, 2, 0, 1, 2], ⟨rfl, by decide⟩, by decide⟩

/-- an any-fit packing with at least two bins uses fewer than twice the optimal number of bins -/
theorem anyfit_lt_two_opt {v : α → Nat} {B m : Nat} {items : List α} {b : Bins α}
    (hp : IsPacking v B items b) (ha : AnyFit v B b) (h2 : 2 ≤ b.lists.length)
    (hm : Packable B m (items.map v)) : b.lists.length < 2 * m := by
  have h1 := anyfit_lt_two_total hp ha h2
  have h3 : binSum v items ≤ m * B := packing_lower_bound hm
  have h4 : b.lists.length * B < (2 * m) * B := by
    rw [Nat.mul_assoc]; omega
  exact Nat.lt_of_mul_lt_mul_right h4

/-- first-fit uses 4 bins on this input, the optimum is 3 -/
example : (4 : Nat) < 2 * 3 :=
  anyfit_lt_two_opt (v := id) (B := 10) (items := [4, 4, 4, 6, 6, 6])
    (b := ⟨[8, 10, 6, 6], [[4, 4], [4, 6], [6], [6]]⟩)
    (ffOnline_ok_isPacking (items := [4, 4, 4, 6, 6, 6]) rfl)
    (ffOnline_anyfit (items := [4, 4, 4, 6, 6, 6]) rfl) (by decide)
    ⟨[0, 1, 2, 0, 1, 2], ⟨rfl, by decide⟩, by decide⟩

end Prtpy.Fit

/-
Axiom audit (`#print axioms`, observed with Lean 4.33.0):

#print axioms Prtpy.Fit.ffOnline_isPacking        -- [propext, Classical.choice, Quot.sound]
#print axioms Prtpy.Fit.ffDecreasing_isPacking    -- [propext, Classical.choice, Quot.sound]
#print axioms Prtpy.Fit.bfOnline_isPacking        -- [propext, Classical.choice, Quot.sound]
#print axioms Prtpy.Fit.bfDecreasing_isPacking    -- [propext, Classical.choice, Quot.sound]
#print axioms Prtpy.Fit.ffOnline_ok_isPacking     -- [propext, Classical.choice, Quot.sound]
#print axioms Prtpy.Fit.bfDecreasing_ok_isPacking -- [propext, Classical.choice, Quot.sound]
#print axioms Prtpy.Fit.ffOnline_lengths          -- [propext, Classical.choice, Quot.sound]
#print axioms Prtpy.Fit.ffDecreasing_lengths      -- [propext, Classical.choice, Quot.sound]
#print axioms Prtpy.Fit.bfOnline_lengths          -- [propext, Classical.choice, Quot.sound]
#print axioms Prtpy.Fit.bfDecreasing_lengths      -- [propext, Classical.choice, Quot.sound]
#print axioms Prtpy.Fit.ffOnline_error_iff        -- [propext, Quot.sound]
#print axioms Prtpy.Fit.ffOnline_error_kind       -- [propext, Quot.sound]
#print axioms Prtpy.Fit.ffDecreasing_error_iff    -- [propext, Quot.sound]
#print axioms Prtpy.Fit.ffDecreasing_error_kind   -- [propext, Quot.sound]
#print axioms Prtpy.Fit.bfOnline_error_iff        -- [propext, Quot.sound]
#print axioms Prtpy.Fit.bfOnline_error_kind       -- [propext, Quot.sound]
#print axioms Prtpy.Fit.bfDecreasing_error_iff    -- [propext, Quot.sound]
#print axioms Prtpy.Fit.bfDecreasing_error_kind   -- [propext, Quot.sound]
#print axioms Prtpy.Fit.ffOnline_anyfit           -- [propext, Classical.choice, Quot.sound]
#print axioms Prtpy.Fit.ffDecreasing_anyfit       -- [propext, Classical.choice, Quot.sound]
#print axioms Prtpy.Fit.bfOnline_anyfit           -- [propext, Classical.choice, Quot.sound]
#print axioms Prtpy.Fit.bfDecreasing_anyfit       -- [propext, Classical.choice, Quot.sound]
#print axioms Prtpy.Fit.anyfit_lt_two_total       -- [propext, Quot.sound]
#print axioms Prtpy.Fit.packing_lower_bound       -- [propext, Quot.sound]
#print axioms Prtpy.Fit.anyfit_lt_two_opt         -- [propext, Classical.choice, Quot.sound]
#print axioms Prtpy.Fit.bfScan_spec               -- [propext, Classical.choice, Quot.sound]
#print axioms Prtpy.Fit.ffStep_spec               -- does not depend on any axioms
#print axioms Prtpy.Fit.ffStep_spec'              -- [propext, Classical.choice, Quot.sound]
#print axioms Prtpy.Fit.bfStep_spec               -- [propext, Classical.choice, Quot.sound]
-/
