/-
  PrtpyProofs.MaxMin5 — property C08 completed (see PrtpyProofs.MaxMin, MaxMin3, MaxMin4): the exact max-min
  guarantee of LPT (`greedy`) for EVERY number of bins (Csirik–Kellerer–Woeginger 1992):
      `(3k − 1) · OPT ≤ (4k − 2) · (smallest sum of LPT)`.

  Proved here
  -----------
  * `greedy_maxmin`  (every `k ≥ 1`) — as requested, unconditional; run level: `run_maxmin`.
  * `greedy_maxmin_five` (`14·OPT ≤ 18·L`), `greedy_maxmin_six` (`17·OPT ≤ 22·L`): instances.
  * `greedy_maxmin_partial_three_quarters_all` : `3·OPT ≤ 4·L` for every `k` (Deuermeyer–Friesen–Langston): corollary.
  * `mixed_all` : the "mixed case" left open in `MaxMin3.run_maxmin_of_mixed` / `MaxMin4.greedy_maxmin_partial`, for
    every `k` (it needs neither the hypothesis on the last item nor the induction hypotheses).

  The mixed case.  `L` = smallest sum of LPT, `W` = cover level, suppose `(4k−2)·L < (3k−1)·W`.  Let
  `B = preB ++ [zB]` be a bin with at least two items and sum `> L + k·W/(4k−2)`, `p = sum preB ≤ L`, `δ = L − p`,
  `E = p + zB − L` its excess; the `(k+1)`-th value is `≤ L/2`, so `2·zB ≤ L`.  Then `2L < W + 2E`, `W < 4E`,
  `zB = E + δ`, `L + 2δ < W` and `6δ < W`.
  * LPT side.  By `MaxMin3.A2Inv` every other bin is `core ++ later`: `core` = items `≥ zB` of total `≥ p`, `later` =
    items `≤ zB` that arrived after `zB`.  Because every proper prefix of a bin is `≤ L` (`PrefInv`) and the bins are
    sorted, `later` is empty, or one item, or consists of "sand" (items `≤ δ`) of total `≤ 2δ` (all but the last fit
    below `L` on top of `core ≥ p`).  If `later ≠ []`, `core ≤ L`.
  * Weight (`Phi`): an item `a ≤ δ` weighs `a`; an item `a > δ` weighs `D·(1 + [a ≥ W'/2] + [a ≥ W'])` with
    `D = 2δ + 1`, `W' = W − D`.  (To keep strict inequalities in `Nat`, all values are multiplied by `4`:
    sand threshold `4δ`, `D = 8δ + 1`, `W' = 4W − D`.)
    - a group of items `≥ zB` that respects `PrefInv` weighs `≤ 3·D`, and `≤ 2·D` if its sum is `≤ L`
      (`MaxMin3.wt_bin` with level `W'` and `t = zB`; `2L < W' + 2·zB` is `2L < W + 2E`: `δ` cancels);
    - so an LPT bin weighs `≤ 3·D` (`core` alone; `core ≤ L` plus one item `< W'/2`; `core ≤ L` plus sand `≤ 2δ < D`),
      and a bin of sum `≤ L` weighs `< 3·D` (its only later item would be `≤ L − p = δ`, i.e. sand) — `phi_bin`;
    - a set of sum `≥ W` weighs `≥ 3·D`: with sand `s`, the large items cover `W − s`; if `s < D` they cover `W'`
      (`MaxMin3.wt_cover`), if `s < 2D` they are two items or one item `> W − 2D ≥ W'/2`, if `s < 3D` there is one,
      else the sand alone weighs `3·D` — `Phi_cover`.
    Summing over the `k` LPT bins resp. the `k` bins of the cover gives `3·D·k > … ≥ 3·D·k` (`phi_count`).
  Everything else (last item on the bin of smallest final sum, closed first pair, certificate, all items large, and
  the induction over `k` and over the prefixes) is `MaxMin3.run_maxmin_of_mixed`.
-/
import Mathlib.Tactic.Linarith
import Mathlib.Tactic.Ring
import Prtpy
import PrtpyProofs.Part
import PrtpyProofs.Oracle
import PrtpyProofs.Scale
import PrtpyProofs.LPT43
import PrtpyProofs.MaxMin
import PrtpyProofs.MaxMin3
import PrtpyProofs.MaxMin4
open Prtpy

namespace Prtpy.MaxMin5
open Prtpy.LPT43 Prtpy.MaxMin Prtpy.MaxMin3 Prtpy.MaxMin4

variable {α : Type}

/-! ## 1. A weight that counts the large items and measures the tiny ones -/

/-- the mixed weight of a bin (a list of values): the values `≤ d` ("sand") count by their size, the others count
    `D` times their weight `MaxMin3.wt` with respect to the level `W'` -/
def Phi (d D W' : Nat) (g : List Nat) : Nat :=
  sumL (g.filter (fun a => decide (a ≤ d))) + D * wt W' (g.filter (fun a => decide (d < a)))

theorem Phi_append (d D W' : Nat) (g₁ g₂ : List Nat) :
    Phi d D W' (g₁ ++ g₂) = Phi d D W' g₁ + Phi d D W' g₂ := by
  simp only [Phi, List.filter_append, Part.sumL_append, wt_append, Nat.mul_add]; omega

theorem Phi_perm (d D W' : Nat) {g₁ g₂ : List Nat} (h : g₁.Perm g₂) : Phi d D W' g₁ = Phi d D W' g₂ := by
  simp only [Phi, Part.sumL_perm (h.filter _), wt_perm W' (h.filter _)]

theorem Phi_flatten (d D W' : Nat) (Ls : List (List Nat)) :
    Phi d D W' Ls.flatten = sumL (Ls.map (Phi d D W')) := by
  induction Ls with
  | nil => simp [Phi, wt, sumL]
  | cons l Ls ih => simp only [List.flatten_cons, Phi_append, List.map_cons, sumL, ih]

theorem Phi_real (d D W' : Nat) (g : List Nat) (h : ∀ a ∈ g, d < a) : Phi d D W' g = D * wt W' g := by
  have h1 : g.filter (fun a => decide (a ≤ d)) = [] :=
    List.filter_eq_nil_iff.2 (fun a ha => by have := h a ha; simp; omega)
  have h2 : g.filter (fun a => decide (d < a)) = g :=
    List.filter_eq_self.2 (fun a ha => by simpa using h a ha)
  simp [Phi, h1, h2, sumL]

theorem Phi_sand (d D W' : Nat) (g : List Nat) (h : ∀ a ∈ g, a ≤ d) : Phi d D W' g = sumL g := by
  have h1 : g.filter (fun a => decide (d < a)) = [] :=
    List.filter_eq_nil_iff.2 (fun a ha => by have := h a ha; simp; omega)
  have h2 : g.filter (fun a => decide (a ≤ d)) = g :=
    List.filter_eq_self.2 (fun a ha => by simpa using h a ha)
  simp [Phi, h1, h2, wt]

theorem sumL_filter_split (d : Nat) (g : List Nat) :
    sumL g = sumL (g.filter (fun a => decide (a ≤ d))) + sumL (g.filter (fun a => decide (d < a))) := by
  induction g with
  | nil => simp [sumL]
  | cons a t ih =>
    by_cases h : a ≤ d
    · have h' : ¬ d < a := by omega
      simp only [List.filter_cons, h, h', decide_true, decide_false, if_true, sumL, ih]
      simp; omega
    · have h' : d < a := by omega
      simp only [List.filter_cons, h, h', decide_true, decide_false, if_true, sumL, ih]
      simp; omega

/-- **Covering side.**  A bin of sum `≥ W` weighs at least `3·D` when the level of the large items is lowered to
    `W − D`: either the sand alone weighs `3·D`, or each missing multiple of `D` of sand is made up for by the
    large items, which cover `W − D`, resp. more than `W − 2·D`, resp. are not empty. -/
theorem Phi_cover {d D W : Nat} (hD : 0 < D) (h3 : 3 * D ≤ W) (g : List Nat) (hg : W ≤ sumL g) :
    3 * D ≤ Phi d D (W - D) g := by
  have hsplit := sumL_filter_split d g
  unfold Phi
  generalize g.filter (fun a => decide (a ≤ d)) = S at *
  generalize g.filter (fun a => decide (d < a)) = R at *
  by_cases c0 : sumL S < D
  · have h1 : W - D ≤ sumL R := by omega
    have h2 := wt_cover (W := W - D) (by omega) R h1
    have := Nat.mul_le_mul_left D h2
    omega
  by_cases c1 : sumL S < 2 * D
  · have hR : W - 2 * D < sumL R := by omega
    have h2 : 2 ≤ wt (W - D) R := by
      match R, hR with
      | [], h => simp [sumL] at h
      | [a], h =>
        simp only [sumL] at h
        have e1 : decide (W - D ≤ 2 * a) = true := by simp; omega
        simp only [wt, List.length_cons, List.length_nil, List.countP_cons, List.countP_nil, e1, if_true]
        omega
      | _ :: _ :: _, _ => simp only [wt, List.length_cons]; omega
    have := Nat.mul_le_mul_left D h2
    omega
  by_cases c2 : sumL S < 3 * D
  · have hR : 0 < sumL R := by omega
    have h2 : 1 ≤ wt (W - D) R := by
      match R, hR with
      | [], h => simp [sumL] at h
      | _ :: _, _ => simp only [wt, List.length_cons]; omega
    have := Nat.mul_le_mul_left D h2
    omega
  · omega

theorem sumL_add_one_le_mul (B : Nat) : ∀ (l : List Nat), (∀ a ∈ l, a ≤ B) → (∃ m ∈ l, m < B) →
    sumL l + 1 ≤ l.length * B
  | [], _, h => by obtain ⟨m, hm, _⟩ := h; cases hm
  | a :: l, h, hm => by
    have h1 := h a List.mem_cons_self
    have h2 : sumL l ≤ l.length * B :=
      sumL_le_length_mul (B := B) l (fun s hs => h s (List.mem_cons_of_mem _ hs))
    obtain ⟨m, hm, hm2⟩ := hm
    simp only [sumL, List.length_cons, Nat.add_mul, Nat.one_mul]
    rcases List.mem_cons.1 hm with rfl | hm
    · omega
    · have := sumL_add_one_le_mul B l (fun s hs => h s (List.mem_cons_of_mem _ hs)) ⟨m, hm, hm2⟩
      omega

/-- **Counting core for the mixed weight.**  `k` bins of weight `≤ 3·D` each, one of them of weight `< 3·D`, cannot
    hold the same values as `k` bins of weight `≥ 3·D` each. -/
theorem phi_count {d D W' k : Nat} {vals : List Nat} (LL Q : List (List Nat)) (hk : LL.length = k)
    (hp : LL.flatten.Perm vals) (hQk : Q.length = k) (hQp : Q.flatten.Perm vals)
    (hQ : ∀ g ∈ Q, 3 * D ≤ Phi d D W' g) (hLL : ∀ l ∈ LL, Phi d D W' l ≤ 3 * D)
    (hmin : ∃ l ∈ LL, Phi d D W' l < 3 * D) : False := by
  have h1 := Part.length_mul_le_sumL (Q.map (Phi d D W')) (3 * D) 0 (fun a ha => by
    obtain ⟨g, hg, rfl⟩ := List.mem_map.1 ha
    have := hQ g hg; omega)
  have h2 := sumL_add_one_le_mul (3 * D) (LL.map (Phi d D W')) (fun a ha => by
      obtain ⟨l, hl, rfl⟩ := List.mem_map.1 ha
      exact hLL l hl) (by
      obtain ⟨l, hl, h⟩ := hmin
      exact ⟨_, List.mem_map_of_mem hl, h⟩)
  rw [← Phi_flatten, Phi_perm d D W' hQp] at h1
  rw [← Phi_flatten, Phi_perm d D W' hp] at h2
  simp only [List.length_map] at h1 h2
  rw [hk] at h2
  rw [hQk] at h1
  omega

theorem mem_tail_append_left' {β : Type} {l r : List β} {c : β} (h : c ∈ l.tail) : c ∈ (l ++ r).tail := by
  cases l with
  | nil => simp at h
  | cons b t => simp only [List.cons_append, List.tail_cons, List.mem_append] at h ⊢; exact Or.inl h

/-- **A bin seen from a heavy bin `A = preA ++ [zA]`.**  Let `δ = L − sum preA`.  The bin consists of items `≥ zA`
    (of total at least the sum of `preA`), followed either by nothing, or by one item, or by items `≤ δ` of total
    `≤ 2δ`.  With the values multiplied by `4`, the sand threshold `4δ`, `D = 8δ + 1` and the level `4W − D` its
    mixed weight is `≤ 3·D`, and `< 3·D` if its sum is `≤ L`. -/
theorem phi_bin {v : α → Nat} {W L : Nat} (preA : List α) (zA : α)
    (hpA : binSum v preA ≤ L)
    (h1 : 4 * L < W + 2 * binSum v preA + 2 * v zA)
    (h2 : W + 4 * L < 4 * binSum v preA + 4 * v zA)
    (hzA2 : 2 * v zA ≤ L)
    (l : List α) (hsp : Split v preA zA l)
    (hpre : ∀ n, n < l.length → binSum v (l.take n) ≤ L) (htail : ∀ c ∈ l.tail, 2 * v c ≤ L)
    (hsort : l.Pairwise (fun a c => v c ≤ v a)) :
    Phi (4 * (L - binSum v preA)) (8 * (L - binSum v preA) + 1) (4 * W - (8 * (L - binSum v preA) + 1))
        (l.map (fun a => 4 * v a)) ≤ 3 * (8 * (L - binSum v preA) + 1) ∧
    (binSum v l ≤ L →
      Phi (4 * (L - binSum v preA)) (8 * (L - binSum v preA) + 1) (4 * W - (8 * (L - binSum v preA) + 1))
        (l.map (fun a => 4 * v a)) < 3 * (8 * (L - binSum v preA) + 1)) := by
  obtain ⟨m, hm, s1, s2, s3⟩ := hsp
  generalize hp : binSum v preA = p at *
  obtain ⟨δ, hδ⟩ : ∃ δ, L = p + δ := ⟨L - p, by omega⟩
  have eδ : L - p = δ := by omega
  rw [eδ]
  -- the weight of a prefix of `l` made of items `≥ zA`
  have hwt : ∀ (c : List α), (∃ r, l = c ++ r) → (∀ u ∈ c, v zA ≤ v u) →
      wt (4 * W - (8 * δ + 1)) (c.map (fun a => 4 * v a)) ≤ 3 ∧
      (binSum v c ≤ L → wt (4 * W - (8 * δ + 1)) (c.map (fun a => 4 * v a)) ≤ 2) := by
    intro c ⟨r, hr⟩ hbig
    have key := wt_bin (v := fun a => 4 * v a) (W := 4 * W - (8 * δ + 1)) (t := 4 * v zA - 1) (L := 4 * L)
      (by omega) (by omega) (by omega) c
      (fun n hn => by
        rw [Scale.binSum_scale]
        have := hpre n (by rw [hr]; simp; omega)
        rw [hr, List.take_append_of_le_length (by omega)] at this
        exact Nat.mul_le_mul_left _ this)
      (fun u hu => by
        have := htail u (by rw [hr]; exact mem_tail_append_left' hu)
        omega)
      (fun u hu => by have := hbig u hu; omega)
    rw [Scale.binSum_scale] at key
    exact ⟨key.1, fun h => key.2 (Nat.mul_le_mul_left _ h)⟩
  have hl : l = l.take m ++ l.drop m := (List.take_append_drop m l).symm
  have hcore := hwt (l.take m) ⟨l.drop m, hl⟩ s3
  have hcoreReal : Phi (4 * δ) (8 * δ + 1) (4 * W - (8 * δ + 1)) ((l.take m).map (fun a => 4 * v a)) =
      (8 * δ + 1) * wt (4 * W - (8 * δ + 1)) ((l.take m).map (fun a => 4 * v a)) :=
    Phi_real _ _ _ _ (fun a ha => by
      obtain ⟨u, hu, rfl⟩ := List.mem_map.1 ha
      have := s3 u hu
      omega)
  by_cases hd : l.drop m = []
  · have ht : l.take m = l := by
      have := List.take_append_drop m l
      rw [hd, List.append_nil] at this
      exact this
    rw [ht] at hcore hcoreReal
    rw [hcoreReal]
    constructor
    · have := Nat.mul_le_mul_left (8 * δ + 1) hcore.1
      omega
    · intro hle
      have := Nat.mul_le_mul_left (8 * δ + 1) (hcore.2 hle)
      omega
  · have hmlt : m < l.length := by
      rcases Nat.lt_or_ge m l.length with h | h
      · exact h
      · exact absurd (List.drop_eq_nil_of_le h) hd
    have hcoreL : binSum v (l.take m) ≤ L := hpre m hmlt
    have hc2 := Nat.mul_le_mul_left (8 * δ + 1) (hcore.2 hcoreL)
    have hsum := binSum_take_drop v l m
    have hPhi : Phi (4 * δ) (8 * δ + 1) (4 * W - (8 * δ + 1)) (l.map (fun a => 4 * v a)) =
        (8 * δ + 1) * wt (4 * W - (8 * δ + 1)) ((l.take m).map (fun a => 4 * v a)) +
          Phi (4 * δ) (8 * δ + 1) (4 * W - (8 * δ + 1)) ((l.drop m).map (fun a => 4 * v a)) := by
      rw [← hcoreReal, ← Phi_append, ← List.map_append, List.take_append_drop]
    rw [hPhi]
    by_cases hall : ∀ u ∈ l.drop m, v u ≤ δ
    · -- only sand after the cut
      have hs : Phi (4 * δ) (8 * δ + 1) (4 * W - (8 * δ + 1)) ((l.drop m).map (fun a => 4 * v a)) =
          4 * binSum v (l.drop m) := by
        rw [Phi_sand _ _ _ _ (fun a ha => by
          obtain ⟨u, hu, rfl⟩ := List.mem_map.1 ha
          have := hall u hu
          omega)]
        exact Scale.binSum_scale v 4 (l.drop m)
      rw [hs]
      -- the sand totals at most `2δ`
      have hn : l.length - 1 < l.length := by omega
      have e1 : l.take (l.length - 1 + 1) = l.take (l.length - 1) ++ [l[l.length - 1]] :=
        List.take_succ_eq_append_getElem hn
      have e2 : l.take (l.length - 1 + 1) = l := List.take_of_length_le (by omega)
      have e3 : binSum v l = binSum v (l.take (l.length - 1)) + v l[l.length - 1] := by
        conv_lhs => rw [← e2, e1]
        exact Oracle.binSum_concat v _ _
      have hlastmem : l[l.length - 1] ∈ l.drop m := by
        rw [List.mem_iff_getElem]
        refine ⟨l.length - 1 - m, by simp; omega, ?_⟩
        simp only [List.getElem_drop]
        congr 1
        omega
      have h5 := hall _ hlastmem
      have h6 := hpre (l.length - 1) hn
      constructor
      · omega
      · intro _; omega
    · -- a large item after the cut: it is the only one
      have hlen : l.length = m + 1 := by
        apply Classical.byContradiction
        intro hne
        have hlt : m + 1 < l.length := by omega
        have hsm := after_cut_small l hpre m hlt
        apply hall
        intro u hu
        have hso := hsort.sublist (List.drop_sublist m l)
        rw [List.drop_eq_getElem_cons hmlt] at hso hu
        rcases List.mem_cons.1 hu with rfl | hu
        · omega
        · have := (List.pairwise_cons.1 hso).1 u hu
          omega
      have hd' : l.drop m = [l[m]] := by
        rw [List.drop_eq_getElem_cons hmlt, List.drop_eq_nil_of_le (by omega)]
      have he : δ < v l[m] := by
        apply Classical.byContradiction
        intro h
        apply hall
        intro u hu
        rw [hd'] at hu
        simp only [List.mem_cons, List.not_mem_nil, or_false] at hu
        rw [hu]; omega
      have htne : l.take m ≠ [] := by
        intro h0
        have h00 : binSum v ([] : List α) = 0 := rfl
        rw [h0, h00] at s1
        omega
      have hm1 : 1 ≤ m := by
        rcases Nat.eq_zero_or_pos m with h0 | h
        · exfalso; apply htne; rw [h0]; rfl
        · exact h
      have hrtail : l[m] ∈ l.tail := by
        have hlt' : m - 1 < l.tail.length := by simp; omega
        have : l.tail[m - 1] = l[m] := by
          rw [List.getElem_tail]
          simp only [Nat.sub_add_cancel hm1]
        rw [← this]; exact List.getElem_mem hlt'
      have hr2 := htail _ hrtail
      have e1 : decide (4 * W - (8 * δ + 1) ≤ 2 * (4 * v l[m])) = false := by simp; omega
      have e2 : decide (4 * W - (8 * δ + 1) ≤ 4 * v l[m]) = false := by simp; omega
      have hwx : wt (4 * W - (8 * δ + 1)) [4 * v l[m]] = 1 := by
        simp only [wt, List.length_cons, List.length_nil, List.countP_cons, List.countP_nil, e1, e2]
        simp
      have hs : Phi (4 * δ) (8 * δ + 1) (4 * W - (8 * δ + 1)) ((l.drop m).map (fun a => 4 * v a)) =
          8 * δ + 1 := by
        rw [hd', List.map_cons, List.map_nil, Phi_real _ _ _ _ (fun a ha => by
          simp only [List.mem_cons, List.not_mem_nil, or_false] at ha
          rw [ha]; omega), hwx, Nat.mul_one]
      rw [hs]
      constructor
      · omega
      · intro hle
        exfalso
        rw [hd', Part.binSum_cons, Part.binSum_nil] at hsum
        omega

/-! ## 2. The heavy-bin case for every number of bins -/

/-- **The heavy-bin ("mixed") case, every number of bins.**  In the final state of the LPT loop on an ordered list
    let some bin `B = preB ++ [zB]` with at least two items exceed the smallest sum `L` by more than `k·W/(4k−2)`, and
    let the `(k+1)`-th value be `≤ L/2`.  Then the exact bound holds.  Seen from `B` (`MaxMin3.A2Inv`) every bin is a
    group of items `≥ zB` followed by nothing, by one item, or by "sand" (items `≤ δ = L − sum preB`, of total
    `≤ 2δ`); with the mixed weight `Phi` every LPT bin weighs `≤ 3·D`, a bin of smallest sum `< 3·D`, every covered
    bin `≥ 3·D` (`phi_bin`, `Phi_cover`, `phi_count`). -/
theorem mixed_all {v : α → Nat} {k : Nat} (hk : 0 < k) {xs : List α}
    (hS : xs.Pairwise (fun a c => v c ≤ v a)) {W : Nat} (Q : List (List Nat)) (hQk : Q.length = k)
    (hQp : Q.flatten.Perm (xs.map v)) (hQ : ∀ l ∈ Q, W ≤ sumL l)
    (hy : 2 * (xs.map v).getD k 0 ≤ minL (run v k xs).sums)
    (hbig : ∃ l ∈ (run v k xs).lists, 2 ≤ l.length ∧
      minL (run v k xs).sums + k * W / (4 * k - 2) < binSum v l) :
    3 * k * W + 2 * minL (run v k xs).sums ≤ 4 * k * minL (run v k xs).sums + W := by
  apply Classical.byContradiction
  intro hcon
  obtain ⟨k', rfl⟩ : ∃ k', k = k' + 1 := ⟨k - 1, by omega⟩
  have ec : 4 * (k' + 1) - 2 = 4 * k' + 2 := by omega
  rw [ec] at hbig
  generalize hLdef : minL (run v (k' + 1) xs).sums = L at *
  have hLc : (4 * k' + 2) * L < (3 * k' + 2) * W := by
    have : 4 * (k' + 1) * L + W < 3 * (k' + 1) * W + 2 * L := by omega
    nlinarith
  have hc0 : 0 < 4 * k' + 2 := by omega
  obtain ⟨lB, hlB, hlen2, hBbig⟩ := hbig
  obtain ⟨hperm, hlists, hcons⟩ := run_valid v hk xs
  have hc : (run v (k' + 1) xs).sums = (run v (k' + 1) xs).lists.map (binSum v) := hcons
  have hne := run_sums_ne_nil v hk xs
  have hslen := run_sums_length v hk xs
  obtain ⟨iB, hiB, hiBl⟩ := List.mem_iff_getElem.1 hlB
  have hgetB : (run v (k' + 1) xs).lists[iB]? = some lB := by rw [List.getElem?_eq_getElem hiB, hiBl]
  -- split the heavy bin
  have hBne : lB ≠ [] := by intro h0; rw [h0] at hlen2; simp at hlen2
  have hBsplit : lB = lB.dropLast ++ [lB.getLast hBne] := (List.dropLast_append_getLast hBne).symm
  generalize lB.dropLast = preB at hBsplit
  generalize lB.getLast hBne = zB at hBsplit
  subst hBsplit
  have hpreBne : preB ≠ [] := by
    intro h0; rw [h0] at hlen2; simp at hlen2
  obtain ⟨pfB, tlB, soB, meB⟩ := bin_facts hk hS hgetB
  rw [hLdef] at pfB
  have hpB := pfB preB.length (by simp)
  rw [List.take_left' rfl] at hpB
  have hzBtail : zB ∈ (preB ++ [zB]).tail := by
    cases preB with
    | nil => exact absurd rfl hpreBne
    | cons a q => simp
  have hzB2 : 2 * v zB ≤ L := by have := tlB zB hzBtail; omega
  have eB := Oracle.binSum_concat v preB zB
  rw [eB] at hBbig
  have hdiv : (k' + 1) * W < (4 * k' + 2) * ((k' + 1) * W / (4 * k' + 2) + 1) :=
    Nat.lt_mul_div_succ _ hc0
  have hA' : (4 * k' + 2) * L + (k' + 1) * W <
      (4 * k' + 2) * binSum v preB + (4 * k' + 2) * v zB := by
    have h1 : L + (k' + 1) * W / (4 * k' + 2) + 1 ≤ binSum v preB + v zB := by omega
    have h2 := Nat.mul_le_mul_left (4 * k' + 2) h1
    rw [Nat.mul_add, Nat.mul_add, Nat.mul_add] at h2
    rw [Nat.mul_add] at hdiv
    omega
  -- the two inequalities that matter
  have h1 : 4 * L < W + 2 * binSum v preB + 2 * v zB := by
    have : (4 * k' + 2) * (4 * L) < (4 * k' + 2) * (W + 2 * binSum v preB + 2 * v zB) := by nlinarith
    exact Nat.lt_of_mul_lt_mul_left this
  have h2 : W + 4 * L < 4 * binSum v preB + 4 * v zB := by
    have : (4 * k' + 2) * (W + 4 * L) < (4 * k' + 2) * (4 * binSum v preB + 4 * v zB) := by nlinarith
    exact Nat.lt_of_mul_lt_mul_left this
  have ha2 := run_a2Inv hk xs hS
  rw [List.pairwise_append] at soB
  -- every bin
  have hbin : ∀ (n : Nat) (l : List α), (run v (k' + 1) xs).lists[n]? = some l →
      Phi (4 * (L - binSum v preB)) (8 * (L - binSum v preB) + 1) (4 * W - (8 * (L - binSum v preB) + 1))
          (l.map (fun a => 4 * v a)) ≤ 3 * (8 * (L - binSum v preB) + 1) ∧
      (binSum v l ≤ L →
        Phi (4 * (L - binSum v preB)) (8 * (L - binSum v preB) + 1) (4 * W - (8 * (L - binSum v preB) + 1))
          (l.map (fun a => 4 * v a)) < 3 * (8 * (L - binSum v preB) + 1)) := by
    intro n l hl
    obtain ⟨pf, tl, so, me⟩ := bin_facts hk hS hl
    rw [hLdef] at pf
    have tl2 : ∀ c ∈ l.tail, 2 * v c ≤ L := by
      intro c hc'; have := tl c hc'; omega
    have hsp : Split v preB zB l := by
      by_cases hn : n = iB
      · subst hn
        rw [hgetB] at hl
        have hl' := Option.some.inj hl
        subst hl'
        refine ⟨(preB ++ [zB]).length, Nat.le_refl _, ?_, ?_, ?_⟩
        · rw [List.take_length, eB]; omega
        · rw [List.drop_length]; intro u hu; cases hu
        · rw [List.take_length]
          intro u hu
          rcases List.mem_append.1 hu with h | h
          · exact soB.2.2 u h zB (by simp)
          · simp only [List.mem_cons, List.not_mem_nil, or_false] at h; rw [h]
      · exact ha2 iB n preB zB l (Ne.symm hn) hgetB hl
    exact phi_bin preB zB hpB h1 h2 hzB2 l hsp pf tl2 so
  -- a bin of smallest sum
  have hi0 := Part.argmin_lt hne
  have hLi0 := Part.getElem_argmin hi0
  rw [hLdef] at hLi0
  have hget0 : (run v (k' + 1) xs).lists[argmin (run v (k' + 1) xs).sums]? =
      some (run v (k' + 1) xs).lists[argmin (run v (k' + 1) xs).sums] := List.getElem?_eq_getElem (by omega)
  have hM : binSum v (run v (k' + 1) xs).lists[argmin (run v (k' + 1) xs).sums] ≤ L := by
    rw [← hLi0]; simp [hc]
  refine phi_count (d := 4 * (L - binSum v preB)) (D := 8 * (L - binSum v preB) + 1)
    (W' := 4 * W - (8 * (L - binSum v preB) + 1)) (k := k' + 1) (vals := xs.map (fun a => 4 * v a))
    ((run v (k' + 1) xs).lists.map (List.map (fun a => 4 * v a))) (Q.map (List.map (4 * ·)))
    (by simpa using hlists) (by rw [← List.map_flatten]; exact hperm.map _) (by simpa using hQk)
    (by
      rw [← List.map_flatten]
      have := hQp.map (4 * ·)
      rw [List.map_map] at this
      exact this)
    ?_ ?_
    ⟨_, List.mem_map_of_mem (List.getElem_mem (show argmin (run v (k' + 1) xs).sums < _ by omega)),
      (hbin _ _ hget0).2 hM⟩
  · intro g' hg'
    obtain ⟨g, hg, rfl⟩ := List.mem_map.1 hg'
    refine Phi_cover (by omega) (by omega) _ ?_
    rw [Scale.sumL_map_mul]
    exact Nat.mul_le_mul_left _ (hQ g hg)
  · intro l' hl'
    obtain ⟨l, hl, rfl⟩ := List.mem_map.1 hl'
    obtain ⟨n, hn, rfl⟩ := List.mem_iff_getElem.1 hl
    exact (hbin n _ (List.getElem?_eq_getElem hn)).1

/-! ## 3. The theorem -/

/-- **The exact constant `(3k−1)/(4k−2)` for every number of bins**, for the LPT loop on an ordered list against an
    arbitrary cover (`MaxMin3.run_maxmin_of_mixed` with the mixed case `mixed_all`). -/
theorem run_maxmin {v : α → Nat} (k : Nat) (hk : 0 < k) (xs : List α)
    (hS : xs.Pairwise (fun a c => v c ≤ v a)) (W : Nat) (Q : List (List Nat)) (hQk : Q.length = k)
    (hQp : Q.flatten.Perm (xs.map v)) (hQ : ∀ l ∈ Q, W ≤ sumL l) :
    3 * k * W + 2 * minL (run v k xs).sums ≤ 4 * k * minL (run v k xs).sums + W :=
  run_maxmin_of_mixed (v := v) k
    (fun k' h2 _ P x W Q hS hQk hQp hQ _ hy hbig _ => mixed_all (by omega) hS Q hQk hQp hQ hy hbig)
    k hk (Nat.le_refl k) xs hS W Q hQk hQp hQ

/-- **C08 (Csirik–Kellerer–Woeginger 1992): LPT's smallest bin sum is at least `(3k−1)/(4k−2)` of the optimal
    smallest sum, for every number of bins.** -/
theorem greedy_maxmin {v : α → Nat} {k : Nat} {items : List α} (hk : 0 < k) {opt : Nat}
    (hopt : IsOptimalValue .maxSmallest k (items.map v) (-(opt : Int))) :
    (3 * k - 1) * opt ≤ (4 * k - 2) * minL (greedy v k items).sums := by
  obtain ⟨W, hW, Q, hQk, hQp, hQ⟩ := cover_of_opt hk hopt
  have hW' : W = opt := by exact_mod_cast hW
  subst hW'
  rw [greedy_eq_run]
  exact arith_final hk (run_maxmin k hk (sortDesc v items) (Part.sortDesc_sorted v items) W Q hQk
    (hQp.trans ((Part.sortDesc_perm v items).map v).symm) hQ)

/-- five bins: `14/18` -/
theorem greedy_maxmin_five {v : α → Nat} {items : List α} {opt : Nat}
    (hopt : IsOptimalValue .maxSmallest 5 (items.map v) (-(opt : Int))) :
    14 * opt ≤ 18 * minL (greedy v 5 items).sums :=
  greedy_maxmin (k := 5) (by decide) hopt

/-- six bins: `17/22` -/
theorem greedy_maxmin_six {v : α → Nat} {items : List α} {opt : Nat}
    (hopt : IsOptimalValue .maxSmallest 6 (items.map v) (-(opt : Int))) :
    17 * opt ≤ 22 * minL (greedy v 6 items).sums :=
  greedy_maxmin (k := 6) (by decide) hopt

/-- **Max-min, ratio `3/4` for every number of bins** (Deuermeyer–Friesen–Langston 1982). -/
theorem greedy_maxmin_partial_three_quarters_all {v : α → Nat} {k : Nat} {items : List α} (hk : 0 < k)
    {opt : Nat} (hopt : IsOptimalValue .maxSmallest k (items.map v) (-(opt : Int))) :
    3 * opt ≤ 4 * minL (greedy v k items).sums := by
  have key := greedy_maxmin hk hopt
  obtain ⟨k', rfl⟩ : ∃ k', k = k' + 1 := ⟨k - 1, by omega⟩
  have e1 : 3 * (k' + 1) - 1 = 3 * k' + 2 := by omega
  have e2 : 4 * (k' + 1) - 2 = 4 * k' + 2 := by omega
  rw [e1, e2] at key
  generalize minL (greedy v (k' + 1) items).sums = L at *
  -- (3k'+2)·opt ≤ (4k'+2)·L  and  4·(3k'+2) ≥ 3·(4k'+2)
  have h : (4 * k' + 2) * (3 * opt) ≤ (4 * k' + 2) * (4 * L) := by nlinarith
  exact Nat.le_of_mul_le_mul_left h (by omega)

/-! ## 4. Non-vacuity -/

/-- tightness for five bins (`MaxMin4.optmin_k5_tight`): `[9,9,8,8,7,7,6,6,5,5,5,5,5,5]`, optimum `18`, LPT `14` -/
example : (3 * 5 - 1) * 18 ≤ (4 * 5 - 2) * minL (greedy id 5 [9, 9, 8, 8, 7, 7, 6, 6, 5, 5, 5, 5, 5, 5]).sums :=
  greedy_maxmin (v := id) (by decide) optmin_k5_tight
example : 14 * 18 ≤ 18 * minL (greedy id 5 [9, 9, 8, 8, 7, 7, 6, 6, 5, 5, 5, 5, 5, 5]).sums :=
  greedy_maxmin_five (v := id) optmin_k5_tight
example : 3 * 18 ≤ 4 * minL (greedy id 5 [9, 9, 8, 8, 7, 7, 6, 6, 5, 5, 5, 5, 5, 5]).sums :=
  greedy_maxmin_partial_three_quarters_all (v := id) (by decide) optmin_k5_tight

/-- the heavy-bin case with small items, five bins: `[8,8,8,5,5,4,4,4,4,2,2]`, optimum
    `{8,2}, {8,2}, {8,4}, {5,5}, {4,4,4}` with smallest sum `10` (the total is `54 < 5·11`) -/
theorem optmin_k5_mixed :
    IsOptimalValue .maxSmallest 5 ([8, 8, 8, 5, 5, 4, 4, 4, 4, 2, 2].map id) (-((10 : Nat) : Int)) := by
  refine ⟨⟨[0, 1, 2, 3, 3, 2, 4, 4, 4, 0, 1], ⟨rfl, by decide⟩, by decide⟩, ?_⟩
  intro asg hasg
  obtain ⟨Q, hQk, hQp, hQs⟩ := assignment_partition hasg
  have h1 := length_mul_minL_le (sumsOf 5 ([8, 8, 8, 5, 5, 4, 4, 4, 4, 2, 2].map id) asg)
  rw [← hQs, ← sumL_flatten, Part.sumL_perm hQp, List.length_map, hQk] at h1
  simp only [Objective.value, Bool.false_eq_true, if_false]
  have : sumL ([8, 8, 8, 5, 5, 4, 4, 4, 4, 2, 2].map id) = 54 := by decide
  rw [← hQs]
  omega

example : 14 * 10 ≤ 18 * minL (greedy id 5 [8, 8, 8, 5, 5, 4, 4, 4, 4, 2, 2]).sums :=
  greedy_maxmin_five (v := id) optmin_k5_mixed

/-- tightness for six bins: `[11,11,10,10,9,9,8,8,7,7,6,6,6,6,6,6,6]`: the optimum
    `{11,11}, {10,6,6}, {10,6,6}, {9,7,6}, {9,7,6}, {8,8,6}` has smallest sum `22`, LPT's smallest sum is `17`:
    `17·22 = 22·17` -/
theorem optmin_k6_tight :
    IsOptimalValue .maxSmallest 6 ([11, 11, 10, 10, 9, 9, 8, 8, 7, 7, 6, 6, 6, 6, 6, 6, 6].map id)
      (-((22 : Nat) : Int)) := by
  refine ⟨⟨[0, 0, 1, 2, 3, 4, 5, 5, 3, 4, 1, 1, 2, 2, 3, 4, 5], ⟨rfl, by decide⟩, by decide⟩, ?_⟩
  intro asg hasg
  obtain ⟨Q, hQk, hQp, hQs⟩ := assignment_partition hasg
  have h1 := length_mul_minL_le
    (sumsOf 6 ([11, 11, 10, 10, 9, 9, 8, 8, 7, 7, 6, 6, 6, 6, 6, 6, 6].map id) asg)
  rw [← hQs, ← sumL_flatten, Part.sumL_perm hQp, List.length_map, hQk] at h1
  simp only [Objective.value, Bool.false_eq_true, if_false]
  have : sumL ([11, 11, 10, 10, 9, 9, 8, 8, 7, 7, 6, 6, 6, 6, 6, 6, 6].map id) = 132 := by decide
  rw [← hQs]
  omega

example : (3 * 6 - 1) * 22 ≤
    (4 * 6 - 2) * minL (greedy id 6 [11, 11, 10, 10, 9, 9, 8, 8, 7, 7, 6, 6, 6, 6, 6, 6, 6]).sums :=
  greedy_maxmin (v := id) (by decide) optmin_k6_tight
example : 17 * 22 = 22 * minL (greedy id 6 [11, 11, 10, 10, 9, 9, 8, 8, 7, 7, 6, 6, 6, 6, 6, 6, 6]).sums := by
  decide

end Prtpy.MaxMin5

/-
Axiom audit (Lean 4.33.0; output observed with the commands appended to a copy of this file):

#print axioms Prtpy.MaxMin5.greedy_maxmin
  -- 'Prtpy.MaxMin5.greedy_maxmin' depends on axioms: [propext, Classical.choice, Quot.sound]
#print axioms Prtpy.MaxMin5.run_maxmin
  -- 'Prtpy.MaxMin5.run_maxmin' depends on axioms: [propext, Classical.choice, Quot.sound]
#print axioms Prtpy.MaxMin5.mixed_all
  -- 'Prtpy.MaxMin5.mixed_all' depends on axioms: [propext, Classical.choice, Quot.sound]
#print axioms Prtpy.MaxMin5.phi_bin
  -- 'Prtpy.MaxMin5.phi_bin' depends on axioms: [propext, Classical.choice, Quot.sound]
#print axioms Prtpy.MaxMin5.Phi_cover
  -- 'Prtpy.MaxMin5.Phi_cover' depends on axioms: [propext, Quot.sound]
#print axioms Prtpy.MaxMin5.phi_count
  -- 'Prtpy.MaxMin5.phi_count' depends on axioms: [propext, Classical.choice, Quot.sound]
#print axioms Prtpy.MaxMin5.greedy_maxmin_five
  -- 'Prtpy.MaxMin5.greedy_maxmin_five' depends on axioms: [propext, Classical.choice, Quot.sound]
#print axioms Prtpy.MaxMin5.greedy_maxmin_six
  -- 'Prtpy.MaxMin5.greedy_maxmin_six' depends on axioms: [propext, Classical.choice, Quot.sound]
#print axioms Prtpy.MaxMin5.greedy_maxmin_partial_three_quarters_all
  -- 'Prtpy.MaxMin5.greedy_maxmin_partial_three_quarters_all' depends on axioms: [propext, Classical.choice, Quot.sound]

The example `optmin_k5_mixed` exercises the heavy-bin case: LPT builds `[8,4], [8,4], [8,2], [5,4,2], [5,4]` (smallest
sum `9`); the last item `2` is small (`18·2 ≤ 5·10`), does not land on the bin of smallest final sum, and the bin
`[8,4]` exceeds `9` by `3 > 5·10/18`.
-/
