/-
  PrtpyProofs.Obj — properties C20 (objectives compute their documented quantity)
  and C13a (lower bounds are admissible and independent of the `sorted` flag).
-/
import Prtpy

namespace Prtpy.Obj
open Prtpy

/-! ## 1. `sumL`, `minL`, `maxL`: basic facts -/

@[simp] theorem sumL_nil : sumL [] = 0 := rfl
@[simp] theorem sumL_cons (x : Nat) (l : List Nat) : sumL (x :: l) = x + sumL l := rfl

theorem sumL_append (a b : List Nat) : sumL (a ++ b) = sumL a + sumL b := by
  induction a with
  | nil => simp
  | cons x a ih => simp [ih]; omega

theorem sumL_perm {a b : List Nat} (h : a.Perm b) : sumL a = sumL b := by
  induction h with
  | nil => rfl
  | cons x _ ih => simp [ih]
  | swap x y l => simp; omega
  | trans _ _ ih₁ ih₂ => exact ih₁.trans ih₂

theorem sumL_reverse (a : List Nat) : sumL a.reverse = sumL a :=
  sumL_perm (List.reverse_perm a)

theorem minL_cons_of_ne_nil (x : Nat) {l : List Nat} (h : l ≠ []) :
    minL (x :: l) = min x (minL l) := by
  cases l with
  | nil => exact absurd rfl h
  | cons y ys => rfl

@[simp] theorem maxL_nil : maxL [] = 0 := rfl
@[simp] theorem maxL_cons (x : Nat) (l : List Nat) : maxL (x :: l) = max x (maxL l) := rfl
@[simp] theorem minL_nil : minL [] = 0 := rfl
@[simp] theorem minL_singleton (x : Nat) : minL [x] = x := rfl

/-- `minL` is a lower bound of the list. -/
theorem minL_le {sums : List Nat} {s : Nat} (hs : s ∈ sums) : minL sums ≤ s := by
  induction sums with
  | nil => cases hs
  | cons x l ih =>
    cases l with
    | nil =>
      simp only [List.mem_singleton] at hs
      subst hs; simp
    | cons y ys =>
      rw [minL_cons_of_ne_nil x (List.cons_ne_nil y ys)]
      rcases List.mem_cons.1 hs with rfl | hm
      · exact Nat.min_le_left _ _
      · exact Nat.le_trans (Nat.min_le_right _ _) (ih hm)

/-- `maxL` is an upper bound of the list. -/
theorem le_maxL {sums : List Nat} {s : Nat} (hs : s ∈ sums) : s ≤ maxL sums := by
  induction sums with
  | nil => cases hs
  | cons x l ih =>
    rw [maxL_cons]
    rcases List.mem_cons.1 hs with rfl | hm
    · exact Nat.le_max_left _ _
    · exact Nat.le_trans (ih hm) (Nat.le_max_right _ _)

/-- the minimum is attained -/
theorem minL_mem {sums : List Nat} (h : sums ≠ []) : minL sums ∈ sums := by
  induction sums with
  | nil => exact absurd rfl h
  | cons x l ih =>
    cases l with
    | nil => simp
    | cons y ys =>
      rw [minL_cons_of_ne_nil x (List.cons_ne_nil y ys)]
      have := ih (List.cons_ne_nil y ys)
      rcases Nat.le_total x (minL (y :: ys)) with hle | hle
      · rw [Nat.min_eq_left hle]; exact List.mem_cons_self
      · rw [Nat.min_eq_right hle]; exact List.mem_cons_of_mem _ this

/-- the maximum is attained -/
theorem maxL_mem {sums : List Nat} (h : sums ≠ []) : maxL sums ∈ sums := by
  induction sums with
  | nil => exact absurd rfl h
  | cons x l ih =>
    rw [maxL_cons]
    cases l with
    | nil => simp
    | cons y ys =>
      have := ih (List.cons_ne_nil y ys)
      rcases Nat.le_total x (maxL (y :: ys)) with hle | hle
      · rw [Nat.max_eq_right hle]; exact List.mem_cons_of_mem _ this
      · rw [Nat.max_eq_left hle]; exact List.mem_cons_self

/-- both bounds and both memberships in one statement -/
theorem minL_le_and_le_maxL {sums : List Nat} :
    (∀ s ∈ sums, minL sums ≤ s ∧ s ≤ maxL sums) ∧
    (sums ≠ [] → minL sums ∈ sums ∧ maxL sums ∈ sums) :=
  ⟨fun _ hs => ⟨minL_le hs, le_maxL hs⟩, fun h => ⟨minL_mem h, maxL_mem h⟩⟩

/-- characterisation of the minimum -/
theorem minL_eq_iff {sums : List Nat} (h : sums ≠ []) (m : Nat) :
    minL sums = m ↔ m ∈ sums ∧ ∀ s ∈ sums, m ≤ s := by
  constructor
  · rintro rfl; exact ⟨minL_mem h, fun _ hs => minL_le hs⟩
  · rintro ⟨hm, hle⟩
    exact Nat.le_antisymm (minL_le hm) (hle _ (minL_mem h))

/-- characterisation of the maximum -/
theorem maxL_eq_iff {sums : List Nat} (h : sums ≠ []) (m : Nat) :
    maxL sums = m ↔ m ∈ sums ∧ ∀ s ∈ sums, s ≤ m := by
  constructor
  · rintro rfl; exact ⟨maxL_mem h, fun _ hs => le_maxL hs⟩
  · rintro ⟨hm, hle⟩
    exact Nat.le_antisymm (hle _ (maxL_mem h)) (le_maxL hm)

theorem minL_perm {a b : List Nat} (hp : a.Perm b) : minL a = minL b := by
  by_cases ha : a = []
  · subst ha; rw [hp.nil_eq]
  · have hb : b ≠ [] := fun hb => ha (by subst hb; exact hp.eq_nil)
    rw [minL_eq_iff ha]
    exact ⟨hp.symm.subset (minL_mem hb), fun s hs => minL_le (hp.subset hs)⟩

theorem maxL_perm {a b : List Nat} (hp : a.Perm b) : maxL a = maxL b := by
  by_cases ha : a = []
  · subst ha; rw [hp.nil_eq]
  · have hb : b ≠ [] := fun hb => ha (by subst hb; exact hp.eq_nil)
    rw [maxL_eq_iff ha]
    exact ⟨hp.symm.subset (maxL_mem hb), fun s hs => le_maxL (hp.subset hs)⟩

theorem minL_le_maxL (sums : List Nat) : minL sums ≤ maxL sums := by
  cases sums with
  | nil => simp
  | cons x l =>
    exact Nat.le_trans (minL_le List.mem_cons_self) (le_maxL (sums := x :: l) List.mem_cons_self)

/-! ## 2. the stable insertion sort `sortAsc` -/

section SortLemmas
variable {α : Type} (key : α → Nat)

theorem insertAsc_perm (x : α) (l : List α) : (insertAsc key x l).Perm (x :: l) := by
  induction l with
  | nil => exact List.Perm.refl _
  | cons y ys ih =>
    simp only [insertAsc]
    split
    · exact List.Perm.refl _
    · exact (List.Perm.cons y ih).trans (List.Perm.swap x y ys)

theorem sortAsc_perm (l : List α) : (sortAsc key l).Perm l := by
  induction l with
  | nil => exact List.Perm.refl _
  | cons x xs ih =>
    simp only [sortAsc]
    exact (insertAsc_perm key x _).trans (List.Perm.cons x ih)

theorem insertAsc_pairwise (x : α) {l : List α}
    (h : l.Pairwise (fun a b => key a ≤ key b)) :
    (insertAsc key x l).Pairwise (fun a b => key a ≤ key b) := by
  induction l with
  | nil => simp [insertAsc]
  | cons y ys ih =>
    simp only [insertAsc]
    have hy := List.pairwise_cons.1 h
    split
    · rename_i hxy
      refine List.pairwise_cons.2 ⟨?_, h⟩
      intro z hz
      rcases List.mem_cons.1 hz with rfl | hz
      · exact hxy
      · exact Nat.le_trans hxy (hy.1 z hz)
    · rename_i hxy
      refine List.pairwise_cons.2 ⟨?_, ih hy.2⟩
      intro z hz
      rcases List.mem_cons.1 ((insertAsc_perm key x ys).subset hz) with rfl | hz
      · omega
      · exact hy.1 z hz

theorem sortAsc_pairwise (l : List α) :
    (sortAsc key l).Pairwise (fun a b => key a ≤ key b) := by
  induction l with
  | nil => exact List.Pairwise.nil
  | cons x xs ih => exact insertAsc_pairwise key x ih

end SortLemmas

theorem sortAsc_sorted (l : List Nat) : SortedAsc (sortAsc id l) :=
  sortAsc_pairwise id l

/-- two sorted permutations of each other are equal -/
theorem sorted_perm_eq {a b : List Nat} (ha : SortedAsc a) (hb : SortedAsc b) (hp : a.Perm b) :
    a = b :=
  List.Perm.eq_of_pairwise (le := (· ≤ ·)) (fun _ _ _ _ h₁ h₂ => Nat.le_antisymm h₁ h₂) ha hb hp

theorem sortAsc_of_sorted {l : List Nat} (h : SortedAsc l) : sortAsc id l = l :=
  sorted_perm_eq (sortAsc_sorted l) h (sortAsc_perm id l)

theorem sortAsc_idem (l : List Nat) : sortAsc id (sortAsc id l) = sortAsc id l :=
  sortAsc_of_sorted (sortAsc_sorted l)

theorem sortAsc_eq_of_perm {a b : List Nat} (hp : a.Perm b) : sortAsc id a = sortAsc id b :=
  sorted_perm_eq (sortAsc_sorted a) (sortAsc_sorted b)
    ((sortAsc_perm id a).trans (hp.trans (sortAsc_perm id b).symm))

/-- head of a sorted list is its minimum (also for `[]`: both are 0) -/
theorem headD_eq_minL {l : List Nat} (h : SortedAsc l) : l.headD 0 = minL l := by
  cases l with
  | nil => rfl
  | cons x xs =>
    symm
    rw [minL_eq_iff (List.cons_ne_nil x xs)]
    refine ⟨List.mem_cons_self, fun s hs => ?_⟩
    rcases List.mem_cons.1 hs with rfl | hs
    · exact Nat.le_refl _
    · exact (List.pairwise_cons.1 h).1 s hs

/-- last element of a sorted list is its maximum (also for `[]`: both are 0) -/
theorem lastD_eq_maxL {l : List Nat} (h : SortedAsc l) : lastD l 0 = maxL l := by
  induction l with
  | nil => rfl
  | cons x xs ih =>
    have hx := List.pairwise_cons.1 h
    cases xs with
    | nil => simp [lastD]
    | cons y ys =>
      have ih' := ih hx.2
      have e : lastD (x :: y :: ys) 0 = lastD (y :: ys) 0 := by
        simp [lastD, List.getLast?_cons_cons]
      have : x ≤ maxL (y :: ys) :=
        Nat.le_trans (hx.1 y List.mem_cons_self) (le_maxL List.mem_cons_self)
      rw [e, ih']
      simp only [maxL_cons] at this ⊢
      omega

/-- without sortedness, the last element is still at most the maximum -/
theorem lastD_le_maxL (l : List Nat) : lastD l 0 ≤ maxL l := by
  unfold lastD
  cases h : l.getLast? with
  | none => simp
  | some x => exact le_maxL (List.mem_of_getLast? h)

/-! ## 3. Property C20: objectives compute their documented quantity -/

/-
  Remark on the side conditions of the task statements (`sums ≠ []`, `1 ≤ k`): they delimit the
  range on which the *model* was validated against Python (`sorted_sums[-0:]` is the whole list in
  Python, `lastK 0 l = []` in the model; `min([])` raises).  Inside the model the theorems below hold
  without them, so each is proved in a general form (`*_gen`) and restated with the task signature.
-/

/-- The model takes the `k` largest as `s[len-k:]`, the documentation as the first `k` of the
    reversed sorted list: same elements, so same sum (for every `k`, also `k = 0`, `k > len`). -/
theorem sumL_lastK_eq (k : Nat) (s : List Nat) : sumL (lastK k s) = sumL (s.reverse.take k) := by
  rw [List.take_reverse, sumL_reverse]; rfl

/-- `lastK k s` is literally the reversed `k`-prefix of the reversed list. -/
theorem lastK_eq_reverse_take (k : Nat) (s : List Nat) : lastK k s = (s.reverse.take k).reverse := by
  rw [List.take_reverse, List.reverse_reverse]; rfl

/-- C20, general form: no side condition is needed in the model
    (the conditions `sums ≠ []`, `1 ≤ k` are needed only for model/Python agreement). -/
theorem value_eq_doc_gen (o : Objective) (sums : List Nat) : o.value sums false = o.doc sums := by
  cases o with
  | maxSmallest => rfl
  | maxKSmallest k => rfl
  | minLargest => rfl
  | minKLargest k =>
    simp only [Objective.value, Objective.doc, Bool.false_eq_true, if_false]
    rw [sumL_lastK_eq]
  | minDiff => rfl

/-- C20 as stated in the task. -/
theorem value_eq_doc {o : Objective} {sums : List Nat} (_h : sums ≠ [])
    (_hk : match o with | .maxKSmallest k | .minKLargest k => 1 ≤ k | _ => True) :
    o.value sums false = o.doc sums :=
  value_eq_doc_gen o sums

example : (Objective.minKLargest 2).value [5, 1, 4, 2] false = (Objective.minKLargest 2).doc [5, 1, 4, 2] :=
  value_eq_doc (by decide) (by decide)
example : (Objective.minKLargest 2).doc [5, 1, 4, 2] = 9 := by decide
example : (Objective.maxKSmallest 7).value [5, 1, 4, 2] false = -12 := by decide

/-- the unsorted path does not depend on the order of the sums -/
theorem value_perm {o : Objective} {sums₁ sums₂ : List Nat} (hp : sums₁.Perm sums₂) :
    o.value sums₁ false = o.value sums₂ false := by
  cases o with
  | maxSmallest => simp only [Objective.value, Bool.false_eq_true, if_false, minL_perm hp]
  | maxKSmallest k =>
    simp only [Objective.value, Bool.false_eq_true, if_false, sortAsc_eq_of_perm hp]
  | minLargest => simp only [Objective.value, Bool.false_eq_true, if_false, maxL_perm hp]
  | minKLargest k =>
    simp only [Objective.value, Bool.false_eq_true, if_false, sortAsc_eq_of_perm hp]
  | minDiff =>
    simp only [Objective.value, Bool.false_eq_true, if_false, minL_perm hp, maxL_perm hp]

example : (Objective.minDiff).value [3, 9, 4] false = (Objective.minDiff).value [9, 4, 3] false :=
  value_perm (by decide)

theorem doc_perm {o : Objective} {sums₁ sums₂ : List Nat} (hp : sums₁.Perm sums₂) :
    o.doc sums₁ = o.doc sums₂ := by
  rw [← value_eq_doc_gen, ← value_eq_doc_gen]; exact value_perm hp

/-- the fast path agrees whenever the sums really are sorted (general form) -/
theorem value_sorted_fast_gen (o : Objective) {sums : List Nat} (hs : SortedAsc sums) :
    o.value sums true = o.value sums false := by
  cases o with
  | maxSmallest => simp only [Objective.value, Bool.false_eq_true, if_false, if_true, headD_eq_minL hs]
  | maxKSmallest k =>
    simp only [Objective.value, Bool.false_eq_true, if_false, if_true, sortAsc_of_sorted hs]
  | minLargest => simp only [Objective.value, Bool.false_eq_true, if_false, if_true, lastD_eq_maxL hs]
  | minKLargest k =>
    simp only [Objective.value, Bool.false_eq_true, if_false, if_true, sortAsc_of_sorted hs]
  | minDiff =>
    simp only [Objective.value, Bool.false_eq_true, if_false, if_true, headD_eq_minL hs,
      lastD_eq_maxL hs]

/-- the fast path agrees whenever the sums really are sorted (as stated in the task) -/
theorem value_sorted_fast {o : Objective} {sums : List Nat} (hs : SortedAsc sums) (_h : sums ≠ [])
    (_hk : match o with | .maxKSmallest k | .minKLargest k => 1 ≤ k | _ => True) :
    o.value sums true = o.value sums false :=
  value_sorted_fast_gen o hs

example : (Objective.minKLargest 2).value [1, 2, 4, 5] true = (Objective.minKLargest 2).value [1, 2, 4, 5] false :=
  value_sorted_fast (by simp [SortedAsc]) (by decide) (by decide)

/-- the hypothesis `SortedAsc` cannot be dropped: on unsorted input the fast path is wrong -/
example : (Objective.maxSmallest).value [3, 1] true ≠ (Objective.maxSmallest).value [3, 1] false := by
  decide

/-- fast path on sorted input computes the documented quantity -/
theorem value_sorted_eq_doc (o : Objective) {sums : List Nat} (hs : SortedAsc sums) :
    o.value sums true = o.doc sums := by
  rw [value_sorted_fast_gen o hs, value_eq_doc_gen]

/-! ### readable corollaries -/

theorem doc_maxSmallest (sums : List Nat) : Objective.maxSmallest.doc sums = -(minL sums : Int) := rfl
theorem doc_minLargest (sums : List Nat) : Objective.minLargest.doc sums = (maxL sums : Int) := rfl
theorem doc_minDiff (sums : List Nat) :
    Objective.minDiff.doc sums = (maxL sums : Int) - (minL sums : Int) := rfl

/-- In a list sorted ascending, the first `|t|` entries have the least sum among all sublists `t`. -/
theorem sumL_take_le_of_sublist {s t : List Nat} (hs : SortedAsc s) (ht : t.Sublist s) :
    sumL (s.take t.length) ≤ sumL t := by
  induction ht with
  | slnil => simp
  | @cons t s' a hsub ih =>
    have ha := List.pairwise_cons.1 hs
    have ih := ih ha.2
    cases t with
    | nil => simp
    | cons b t' =>
      have hlen : t'.length + 1 ≤ s'.length := hsub.length_le
      have hn : t'.length < s'.length := by omega
      simp only [List.length_cons, List.take_succ_cons, sumL_cons] at ih ⊢
      rw [← List.take_append_getElem hn, sumL_append] at ih
      have : a ≤ s'[t'.length] := ha.1 _ (List.getElem_mem hn)
      simp only [sumL_cons, sumL_nil] at ih
      omega
  | @cons_cons t' s' a hsub ih =>
    have ha := List.pairwise_cons.1 hs
    have ih := ih ha.2
    simp only [List.length_cons, List.take_succ_cons, sumL_cons]
    omega

/-- In a list sorted descending, the first `|t|` entries have the greatest sum among all sublists. -/
theorem sumL_le_take_of_sublist {s t : List Nat} (hs : s.Pairwise (· ≥ ·)) (ht : t.Sublist s) :
    sumL t ≤ sumL (s.take t.length) := by
  induction ht with
  | slnil => simp
  | @cons t s' a hsub ih =>
    have ha := List.pairwise_cons.1 hs
    have ih := ih ha.2
    cases t with
    | nil => simp
    | cons b t' =>
      have hlen : t'.length + 1 ≤ s'.length := hsub.length_le
      have hn : t'.length < s'.length := by omega
      simp only [List.length_cons, List.take_succ_cons, sumL_cons] at ih ⊢
      rw [← List.take_append_getElem hn, sumL_append] at ih
      have : a ≥ s'[t'.length] := ha.1 _ (List.getElem_mem hn)
      simp only [sumL_cons, sumL_nil] at ih
      omega
  | @cons_cons t' s' a hsub ih =>
    have ha := List.pairwise_cons.1 hs
    have ih := ih ha.2
    simp only [List.length_cons, List.take_succ_cons, sumL_cons]
    omega

/-- **Meaning of the `k`-smallest objective**: `-doc` is at most the sum of *any* `k` of the bin sums
    (`t` is any selection of `k` entries of `sums`), … -/
theorem doc_kSmallest_le {sums t : List Nat} {k : Nat} (ht : t.Sublist sums) (hk : t.length = k) :
    -(Objective.maxKSmallest k).doc sums ≤ (sumL t : Int) := by
  obtain ⟨l', hl', hsub⟩ := List.exists_perm_sublist ht (sortAsc_perm id sums).symm
  have h := sumL_take_le_of_sublist (sortAsc_sorted sums) hsub
  have e1 : l'.length = k := by rw [hl'.length_eq, hk]
  have e2 : sumL l' = sumL t := sumL_perm hl'
  rw [e1, e2] at h
  simp only [Objective.doc, Int.neg_neg]
  exact Int.ofNat_le.2 h

/-- … and it is attained by some `min k n` of them: so it is *the sum of the `k` smallest sums*. -/
theorem doc_kSmallest_attained (sums : List Nat) (k : Nat) :
    ∃ t : List Nat, t.Sublist sums ∧ t.length = min k sums.length ∧
      -(Objective.maxKSmallest k).doc sums = (sumL t : Int) := by
  obtain ⟨t, htp, hts⟩ :=
    List.exists_perm_sublist (List.take_sublist k (sortAsc id sums)) (sortAsc_perm id sums)
  refine ⟨t, hts, ?_, ?_⟩
  · rw [htp.length_eq, List.length_take, (sortAsc_perm id sums).length_eq]
  · simp only [Objective.doc, Int.neg_neg, sumL_perm htp]

/-- **Meaning of the `k`-largest objective**: `doc` is at least the sum of any `k` of the bin sums, … -/
theorem doc_kLargest_ge {sums t : List Nat} {k : Nat} (ht : t.Sublist sums) (hk : t.length = k) :
    (sumL t : Int) ≤ (Objective.minKLargest k).doc sums := by
  have hp : (sortAsc id sums).reverse.Perm sums :=
    (List.reverse_perm _).trans (sortAsc_perm id sums)
  obtain ⟨l', hl', hsub⟩ := List.exists_perm_sublist ht hp.symm
  have hdesc : (sortAsc id sums).reverse.Pairwise (· ≥ ·) := by
    rw [List.pairwise_reverse]; exact sortAsc_sorted sums
  have h := sumL_le_take_of_sublist hdesc hsub
  have e1 : l'.length = k := by rw [hl'.length_eq, hk]
  have e2 : sumL l' = sumL t := sumL_perm hl'
  rw [e1, e2] at h
  simp only [Objective.doc]
  exact Int.ofNat_le.2 h

/-- … and it is attained: so it is *the sum of the `k` largest sums*. -/
theorem doc_kLargest_attained (sums : List Nat) (k : Nat) :
    ∃ t : List Nat, t.Sublist sums ∧ t.length = min k sums.length ∧
      (Objective.minKLargest k).doc sums = (sumL t : Int) := by
  have hp : (sortAsc id sums).reverse.Perm sums :=
    (List.reverse_perm _).trans (sortAsc_perm id sums)
  obtain ⟨t, htp, hts⟩ :=
    List.exists_perm_sublist (List.take_sublist k (sortAsc id sums).reverse) hp
  refine ⟨t, hts, ?_, ?_⟩
  · rw [htp.length_eq, List.length_take, List.length_reverse, (sortAsc_perm id sums).length_eq]
  · simp only [Objective.doc, sumL_perm htp]

example : -(Objective.maxKSmallest 2).doc [5, 1, 4, 2] ≤ (sumL [1, 4] : Int) :=
  doc_kSmallest_le (by decide) rfl
example : (sumL [1, 4] : Int) ≤ (Objective.minKLargest 2).doc [5, 1, 4, 2] :=
  doc_kLargest_ge (by decide) rfl

/-! ### the weighted objective -/

theorem minRat_cons_cons (x y : Rat) (ys : List Rat) :
    minRat (x :: y :: ys) = if x ≤ minRat (y :: ys) then x else minRat (y :: ys) := rfl

/-- `minRat` returns an entry of the list that is `≤` every entry. -/
theorem minRat_spec {l : List Rat} (h : l ≠ []) :
    ∃ i, ∃ hi : i < l.length, minRat l = l[i] ∧ ∀ j (hj : j < l.length), l[i] ≤ l[j] := by
  induction l with
  | nil => exact absurd rfl h
  | cons x xs ih =>
    cases xs with
    | nil =>
      refine ⟨0, by simp, rfl, ?_⟩
      intro j hj
      have : j = 0 := by simpa using hj
      subst this
      exact Rat.le_refl
    | cons y ys =>
      obtain ⟨i, hi, hmin, hle⟩ := ih (List.cons_ne_nil y ys)
      rw [minRat_cons_cons]
      by_cases hx : x ≤ minRat (y :: ys)
      · rw [if_pos hx]
        refine ⟨0, by simp, rfl, ?_⟩
        intro j hj
        cases j with
        | zero => exact Rat.le_refl
        | succ j =>
          have hj' : j < (y :: ys).length := by simpa using hj
          simp only [List.getElem_cons_zero, List.getElem_cons_succ]
          exact Rat.le_trans hx (hmin ▸ hle j hj')
      · rw [if_neg hx]
        refine ⟨i + 1, by simpa using hi, by simpa using hmin, ?_⟩
        intro j hj
        cases j with
        | zero =>
          simp only [List.getElem_cons_zero, List.getElem_cons_succ]
          rw [← hmin]
          exact (Rat.le_total).resolve_left hx
        | succ j =>
          have hj' : j < (y :: ys).length := by simpa using hj
          simp only [List.getElem_cons_succ]
          exact hle j hj'

/-- The weighted objective is minus the smallest weight-normalised sum.
    (Positivity of the weights is not needed for this; it is what makes the quotient meaningful.) -/
theorem weighted_def {weights : List Rat} {sums : List Nat}
    (hlen : weights.length = sums.length) (h : sums ≠ []) (_hpos : ∀ w ∈ weights, 0 < w) :
    ∃ i, ∃ hi : i < sums.length, ∃ hw : i < weights.length,
      weightedValue weights sums = -((sums[i] : Rat) / weights[i]) ∧
      ∀ j (hj : j < sums.length) (hj' : j < weights.length),
        (sums[i] : Rat) / weights[i] ≤ (sums[j] : Rat) / weights[j] := by
  have hzlen : (List.zipWith (fun (s : Nat) (w : Rat) => (s : Rat) / w) sums weights).length
      = sums.length := by
    rw [List.length_zipWith, hlen, Nat.min_self]
  have hne : List.zipWith (fun (s : Nat) (w : Rat) => (s : Rat) / w) sums weights ≠ [] := by
    intro he
    rw [he] at hzlen
    exact h (List.eq_nil_of_length_eq_zero hzlen.symm)
  obtain ⟨i, hi, hmin, hle⟩ := minRat_spec hne
  have hi' : i < sums.length := hzlen ▸ hi
  refine ⟨i, hi', hlen ▸ hi', ?_, ?_⟩
  · unfold weightedValue
    rw [hmin, List.getElem_zipWith]
  · intro j hj hj'
    have := hle j (hzlen ▸ hj)
    rw [List.getElem_zipWith, List.getElem_zipWith] at this
    exact this

example : weightedValue [2, 1, 4] [6, 5, 8] = -2 := by decide +kernel
/-- non-vacuity: the hypotheses of `weighted_def` hold for weights 2,1,4 and sums 6,5,8 -/
example := weighted_def (weights := [2, 1, 4]) (sums := [6, 5, 8]) rfl (by decide) (by decide)

/-! ## 4. Property C13a: lower bounds are admissible -/

theorem sumL_zipWith_add {a b : List Nat} (h : b.length = a.length) :
    sumL (List.zipWith (· + ·) a b) = sumL a + sumL b := by
  induction a generalizing b with
  | nil => cases b with
    | nil => rfl
    | cons _ _ => simp at h
  | cons x a ih =>
    cases b with
    | nil => simp at h
    | cons y b =>
      have := ih (b := b) (by simpa using h)
      simp only [List.zipWith_cons_cons, sumL_cons, this]
      omega

theorem sumL_zipWith_add_le (a b : List Nat) :
    sumL (List.zipWith (· + ·) a b) ≤ sumL a + sumL b := by
  induction a generalizing b with
  | nil => simp
  | cons x a ih =>
    cases b with
    | nil => simp
    | cons y b =>
      have := ih b
      simp only [List.zipWith_cons_cons, sumL_cons]
      omega

theorem sumL_take_le (l : List Nat) (m : Nat) : sumL (l.take m) ≤ sumL l := by
  have := sumL_append (l.take m) (l.drop m)
  rw [List.take_append_drop] at this
  omega

/-- a list whose entries are all `≥ c` sums to at least `c * length` -/
theorem mul_length_le_sumL {l : List Nat} {c : Nat} (h : ∀ x ∈ l, c ≤ x) :
    c * l.length ≤ sumL l := by
  induction l with
  | nil => simp
  | cons x l ih =>
    have h1 := h x List.mem_cons_self
    have h2 := ih (fun y hy => h y (List.mem_cons_of_mem _ hy))
    simp only [List.length_cons, sumL_cons, Nat.mul_succ]
    omega

/-- a list whose entries are all `≤ c` sums to at most `length * c` -/
theorem sumL_le_length_mul {l : List Nat} {c : Nat} (h : ∀ x ∈ l, x ≤ c) :
    sumL l ≤ l.length * c := by
  induction l with
  | nil => simp
  | cons x l ih =>
    have h1 := h x List.mem_cons_self
    have h2 := ih (fun y hy => h y (List.mem_cons_of_mem _ hy))
    simp only [List.length_cons, sumL_cons, Nat.succ_mul]
    omega

/-- the sum of any `m` leading entries is at least `m` times the minimum -/
theorem minL_mul_le_sumL_take (l : List Nat) {m : Nat} (hm : m ≤ l.length) :
    minL l * m ≤ sumL (l.take m) := by
  have := mul_length_le_sumL (l := l.take m) (c := minL l)
    (fun x hx => minL_le (List.mem_of_mem_take hx))
  rwa [List.length_take, Nat.min_eq_left hm] at this

/-- adding non-negative amounts bin by bin cannot decrease the maximum -/
theorem maxL_le_maxL_zipWith {a b : List Nat} (h : b.length = a.length) :
    maxL a ≤ maxL (List.zipWith (· + ·) a b) := by
  induction a generalizing b with
  | nil => simp
  | cons x a ih =>
    cases b with
    | nil => simp at h
    | cons y b =>
      have := ih (b := b) (by simpa using h)
      simp only [List.zipWith_cons_cons, maxL_cons]
      omega

/-- A permutation of the bins can be lifted to the additions: the multiset of final sums is the same. -/
theorem exists_adds_of_perm {s sums : List Nat} (hp : sums.Perm s) :
    ∀ adds : List Nat, adds.length = sums.length →
      ∃ adds' : List Nat, adds'.length = s.length ∧ sumL adds' = sumL adds ∧
        (List.zipWith (· + ·) s adds').Perm (List.zipWith (· + ·) sums adds) := by
  induction hp with
  | nil =>
    intro adds h
    exact ⟨adds, h, rfl, List.Perm.refl _⟩
  | @cons x l₁ l₂ _ ih =>
    intro adds h
    cases adds with
    | nil => simp at h
    | cons a adds =>
      obtain ⟨adds', h1, h2, h3⟩ := ih adds (by simpa using h)
      refine ⟨a :: adds', by simpa using h1, by simp [h2], ?_⟩
      simp only [List.zipWith_cons_cons]
      exact List.Perm.cons _ h3
  | swap x y l =>
    intro adds h
    match adds, h with
    | a :: b :: adds, h =>
      refine ⟨b :: a :: adds, by simpa using h, by simp; omega, ?_⟩
      simp only [List.zipWith_cons_cons]
      exact List.Perm.swap _ _ _
  | trans _ _ ih₁ ih₂ =>
    intro adds h
    obtain ⟨adds₁, h1, h2, h3⟩ := ih₁ adds h
    obtain ⟨adds₂, h1', h2', h3'⟩ := ih₂ adds₁ h1
    exact ⟨adds₂, h1', h2'.trans h2, h3'.trans h3⟩

/-- what the loop of Robin's algorithm returns: the floor of
    (running total + the next `t` sums) / (counter + `t`) for some stopping point `t` -/
theorem lbMaxMinLoop_spec (rest : List Nat) (i run : Nat) :
    ∃ t, t ≤ rest.length ∧ lbMaxMinLoop rest i run = (run + sumL (rest.take t)) / (i + t) := by
  induction rest generalizing i run with
  | nil => exact ⟨0, Nat.le_refl _, by simp [lbMaxMinLoop]⟩
  | cons s rest ih =>
    simp only [lbMaxMinLoop]
    split
    · exact ⟨0, Nat.zero_le _, by simp⟩
    · obtain ⟨t, ht, he⟩ := ih (i + 1) (run + s)
      refine ⟨t + 1, by simpa using ht, ?_⟩
      rw [he, List.take_succ_cons, sumL_cons]
      congr 1 <;> omega

/-- `lbMaxMinAbs` is `(rem + sum of the m smallest sums) / m` for some `1 ≤ m ≤ n`. -/
theorem lbMaxMinAbs_spec {sums : List Nat} (h : sums ≠ []) (rem : Nat) (sorted : Bool) :
    ∃ m, 1 ≤ m ∧ m ≤ sums.length ∧
      lbMaxMinAbs sums rem sorted =
        (rem + sumL ((if sorted then sums else sortAsc id sums).take m)) / m := by
  have hlen : (if sorted then sums else sortAsc id sums).length = sums.length := by
    split
    · rfl
    · exact (sortAsc_perm id sums).length_eq
  unfold lbMaxMinAbs
  generalize (if sorted = true then sums else sortAsc id sums) = s at hlen ⊢
  cases s with
  | nil =>
    exfalso; apply h; apply List.eq_nil_of_length_eq_zero; rw [← hlen]; rfl
  | cons s0 rest =>
    obtain ⟨t, ht, he⟩ := lbMaxMinLoop_spec rest 1 (rem + s0)
    refine ⟨t + 1, by omega, by rw [← hlen]; simpa using ht, ?_⟩
    simp only [he, List.take_succ_cons, sumL_cons]
    congr 1 <;> omega

/-- core of the admissibility argument, for the list `s` the loop actually runs on -/
theorem minL_zipWith_le_div {s adds : List Nat} {m : Nat} (hm1 : 1 ≤ m) (hm : m ≤ s.length)
    (hlen : adds.length = s.length) :
    minL (List.zipWith (· + ·) s adds) ≤ (sumL adds + sumL (s.take m)) / m := by
  rw [Nat.le_div_iff_mul_le (by omega)]
  have hfl : (List.zipWith (· + ·) s adds).length = s.length := by
    rw [List.length_zipWith, hlen, Nat.min_self]
  have h1 := minL_mul_le_sumL_take (List.zipWith (· + ·) s adds) (m := m) (by omega)
  rw [List.take_zipWith] at h1
  have h2 := sumL_zipWith_add_le (s.take m) (adds.take m)
  have h3 := sumL_take_le adds m
  omega

/-- **C13a, max-min**: Robin's bound is at least the smallest final sum, however the remaining
    total `rem` is distributed over the bins.  (Holds for either value of the flag, and even when
    the flag is `true` but the sums are not sorted.) -/
theorem lbMaxMin_admissible {sums adds : List Nat} {rem : Nat}
    (hlen : adds.length = sums.length) (hsum : sumL adds = rem) (h : sums ≠ []) (sorted : Bool) :
    lbMaxMinAbs sums rem sorted ≥ minL (List.zipWith (· + ·) sums adds) := by
  obtain ⟨m, hm1, hm, he⟩ := lbMaxMinAbs_spec h rem sorted
  have hp : sums.Perm (if sorted then sums else sortAsc id sums) := by
    split
    · exact List.Perm.refl _
    · exact (sortAsc_perm id sums).symm
  rw [he]
  generalize (if sorted = true then sums else sortAsc id sums) = s at hp ⊢
  obtain ⟨adds', h1, h2, h3⟩ := exists_adds_of_perm hp adds hlen
  rw [← minL_perm h3, ← hsum, ← h2]
  exact minL_zipWith_le_div hm1 (by rw [← hp.length_eq]; exact hm) h1

/-- **C13a, min-max**: the bound is at most the largest final sum. -/
theorem lbMinMax_admissible {sums adds : List Nat} {rem : Nat}
    (hlen : adds.length = sums.length) (hsum : sumL adds = rem) (h : sums ≠ []) (sorted : Bool) :
    lbMinMax sums rem sorted ≤ maxL (List.zipWith (· + ·) sums adds) := by
  have hn : 0 < sums.length := List.length_pos_iff.2 h
  have hfl : (List.zipWith (· + ·) sums adds).length = sums.length := by
    rw [List.length_zipWith, hlen, Nat.min_self]
  unfold lbMinMax
  apply Nat.max_le.2
  constructor
  · have h1 : (if sorted = true then lastD sums 0 else maxL sums) ≤ maxL sums := by
      split
      · exact lastD_le_maxL sums
      · exact Nat.le_refl _
    exact Nat.le_trans h1 (maxL_le_maxL_zipWith hlen)
  · have h1 := sumL_le_length_mul (l := List.zipWith (· + ·) sums adds)
      (c := maxL (List.zipWith (· + ·) sums adds)) (fun x hx => le_maxL hx)
    rw [hfl, sumL_zipWith_add hlen, hsum] at h1
    apply Nat.le_of_lt_succ
    rw [Nat.div_lt_iff_lt_mul hn, Nat.succ_mul, Nat.mul_comm]
    omega

example : lbMaxMinAbs [8, 1, 3] 7 false ≥ minL (List.zipWith (· + ·) [8, 1, 3] [0, 5, 2]) :=
  lbMaxMin_admissible (sums := [8, 1, 3]) (adds := [0, 5, 2]) rfl rfl (by decide) false
example : lbMaxMinAbs [8, 1, 3] 7 false = 5 ∧ minL (List.zipWith (· + ·) [8, 1, 3] [0, 5, 2]) = 5 := by
  decide
example : lbMinMax [8, 1, 3] 7 false ≤ maxL (List.zipWith (· + ·) [8, 1, 3] [0, 5, 2]) :=
  lbMinMax_admissible (sums := [8, 1, 3]) (adds := [0, 5, 2]) rfl rfl (by decide) false
example : lbMinMax [8, 1, 3] 7 false = 8 ∧ lbMinMax [2, 1, 3] 7 false = 5 := by decide

/-- **C13a** for all five objectives, without the sortedness hypothesis. -/
theorem lb_admissible_gen (o : Objective) {sums adds : List Nat} {rem : Nat}
    (hlen : adds.length = sums.length) (hsum : sumL adds = rem) (h : sums ≠ []) (sorted : Bool) :
    EInt.le (o.lowerBound sums rem sorted)
      (.fin (o.value (List.zipWith (· + ·) sums adds) false)) = true := by
  have h1 := lbMaxMin_admissible hlen hsum h sorted
  have h2 := lbMinMax_admissible hlen hsum h sorted
  cases o with
  | maxSmallest =>
    simp only [Objective.lowerBound, Objective.value, EInt.le, Bool.false_eq_true, if_false,
      decide_eq_true_eq]
    omega
  | maxKSmallest k => rfl
  | minLargest =>
    simp only [Objective.lowerBound, Objective.value, EInt.le, Bool.false_eq_true, if_false,
      decide_eq_true_eq]
    omega
  | minKLargest k => rfl
  | minDiff =>
    simp only [Objective.lowerBound, Objective.value, EInt.le, Bool.false_eq_true, if_false,
      decide_eq_true_eq]
    omega

/-- **C13a** as stated in the task. -/
theorem lb_admissible {o : Objective} {sums adds : List Nat} {rem : Nat}
    (hlen : adds.length = sums.length) (hsum : sumL adds = rem) (h : sums ≠ []) (sorted : Bool)
    (_hs : sorted = true → SortedAsc sums) :
    EInt.le (o.lowerBound sums rem sorted)
      (.fin (o.value (List.zipWith (· + ·) sums adds) false)) = true :=
  lb_admissible_gen o hlen hsum h sorted

example : EInt.le (Objective.minDiff.lowerBound [1, 3, 8] 7 true)
    (.fin (Objective.minDiff.value (List.zipWith (· + ·) [1, 3, 8] [5, 2, 0]) false)) = true :=
  lb_admissible (o := .minDiff) (sums := [1, 3, 8]) (adds := [5, 2, 0]) rfl rfl (by decide) true (fun _ => by unfold SortedAsc; decide)
example : Objective.minDiff.lowerBound [1, 3, 8] 7 true = .fin 3 := by decide
example : Objective.maxSmallest.lowerBound [8, 1, 3] 7 false = .fin (-5) := by decide

/-! ### independence of the `sorted` flag -/

theorem lbMaxMinAbs_sorted_flag (sums : List Nat) (rem : Nat) :
    lbMaxMinAbs (sortAsc id sums) rem true = lbMaxMinAbs sums rem false := by
  simp only [lbMaxMinAbs, if_true, Bool.false_eq_true, if_false]

theorem lbMinMax_sorted_flag (sums : List Nat) (rem : Nat) :
    lbMinMax (sortAsc id sums) rem true = lbMinMax sums rem false := by
  simp only [lbMinMax, if_true, Bool.false_eq_true, if_false]
  rw [lastD_eq_maxL (sortAsc_sorted sums), maxL_perm (sortAsc_perm id sums),
    sumL_perm (sortAsc_perm id sums), (sortAsc_perm id sums).length_eq]

/-- sorting first and using the fast path gives the same bound as the slow path -/
theorem lb_sorted_flag (o : Objective) (sums : List Nat) (rem : Nat) :
    o.lowerBound (sortAsc id sums) rem true = o.lowerBound sums rem false := by
  cases o with
  | maxSmallest => simp only [Objective.lowerBound, lbMaxMinAbs_sorted_flag]
  | maxKSmallest k => rfl
  | minLargest => simp only [Objective.lowerBound, lbMinMax_sorted_flag]
  | minKLargest k => rfl
  | minDiff => simp only [Objective.lowerBound, lbMaxMinAbs_sorted_flag, lbMinMax_sorted_flag]

/-- variant: if the sums are sorted, the flag is irrelevant -/
theorem lb_flag_irrelevant (o : Objective) {sums : List Nat} (hs : SortedAsc sums) (rem : Nat) :
    o.lowerBound sums rem true = o.lowerBound sums rem false := by
  have := lb_sorted_flag o sums rem
  rwa [sortAsc_of_sorted hs] at this

example : Objective.minDiff.lowerBound (sortAsc id [8, 1, 3]) 7 true
    = Objective.minDiff.lowerBound [8, 1, 3] 7 false := lb_sorted_flag _ _ _

/-
#print axioms value_eq_doc            -- [propext, Quot.sound]
#print axioms value_eq_doc_gen        -- [propext, Quot.sound]
#print axioms value_perm              -- [propext, Quot.sound]
#print axioms value_sorted_fast       -- [propext, Quot.sound]
#print axioms value_sorted_eq_doc     -- [propext, Quot.sound]
#print axioms sumL_lastK_eq           -- [propext, Quot.sound]
#print axioms minL_le_and_le_maxL     -- [propext, Quot.sound]
#print axioms doc_kSmallest_le        -- [propext, Quot.sound]
#print axioms doc_kSmallest_attained  -- [propext, Quot.sound]
#print axioms doc_kLargest_ge         -- [propext, Quot.sound]
#print axioms doc_kLargest_attained   -- [propext, Quot.sound]
#print axioms weighted_def            -- [propext, Classical.choice, Quot.sound]
#print axioms lbMaxMin_admissible     -- [propext, Classical.choice, Quot.sound]
#print axioms lbMinMax_admissible     -- [propext, Classical.choice, Quot.sound]
#print axioms lb_admissible           -- [propext, Classical.choice, Quot.sound]
#print axioms lb_admissible_gen       -- [propext, Classical.choice, Quot.sound]
#print axioms lb_sorted_flag          -- [propext, Quot.sound]
#print axioms lb_flag_irrelevant      -- [propext, Quot.sound]
-/

end Prtpy.Obj
