/-
  PrtpyProofs.Anytime2 — property C11 (anytime behaviour), second part:
  * `cbldm_cut_monotone`, `cbldm_cut_monotone_le`, `cbldm_cut_eventually`, `cbldm_cut_le_unlimited`:
    interrupting the balanced (CBLDM) partitioner later never gives a worse result, and the unlimited run is
    the limit of the cuts;
  * `cg_first_solution_lpt`: the first incumbent complete greedy ever installs has the bin sums of the greedy
    (LPT) partition.
-/
import Prtpy
import PrtpyProofs.Part
import PrtpyProofs.CBLDM
import PrtpyProofs.CGValid
import PrtpyProofs.Textbook
import PrtpyProofs.Obj
import PrtpyProofs.CGOpt
open Prtpy Prtpy.CBLDMProofs

namespace Prtpy.Anytime2

variable {α : Type}

/-! ## A1. CBLDM: the run with cut `c` is a prefix of the run with cut `c + 1` -/

/-- `a ≤ b` on sum differences, `none` = `+∞` -/
def sdLE (a b : Option Nat) : Prop := ∀ y, b = some y → ∃ x, a = some x ∧ x ≤ y

theorem sdLE_refl (a : Option Nat) : sdLE a a := fun y h => ⟨y, h, Nat.le_refl _⟩

theorem sdLE_trans {a b c : Option Nat} (h1 : sdLE a b) (h2 : sdLE b c) : sdLE a c := by
  intro z hz
  obtain ⟨y, hy, hyz⟩ := h2 z hz
  obtain ⟨x, hx, hxy⟩ := h1 y hy
  exact ⟨x, hx, Nat.le_trans hxy hyz⟩

/-- coherence of the state: `sum_delta` is the sum difference of the incumbent (`+∞` for the placeholder) -/
def Coh (st : CbState α) : Prop := st.sd = st.best.map sumDiff

theorem coh_tick {st : CbState α} (h : Coh st) : Coh (tickSt st) := h

theorem leaf_coh_mono (d : Nat) (st : CbState α) (p : Bins α) (h : Coh st) :
    Coh (leaf d st p) ∧ sdLE (leaf d st p).sd st.sd := by
  unfold leaf
  split
  · rename_i hc
    refine ⟨rfl, ?_⟩
    intro y hy
    simp only [Bool.and_eq_true, decide_eq_true_eq] at hc
    have h2 := hc.2
    rw [hy] at h2
    simp only [ltInf, decide_eq_true_eq] at h2
    exact ⟨sumDiff p, rfl, Nat.le_of_lt h2⟩
  · exact ⟨h, sdLE_refl _⟩

/-- **`sd` only decreases along any run**, with any cut, and stays the sum difference of the incumbent. -/
theorem cbPart_mono (n d : Nat) (cut : Option Nat) :
    ∀ fuel (st : CbState α) subs, Coh st →
      Coh (cbPart n d cut fuel st subs) ∧ sdLE (cbPart n d cut fuel st subs).sd st.sd := by
  refine cbPart_induct n d cut (fun _ st _ out => Coh st → Coh out ∧ sdLE out.sd st.sd) ?_ ?_ ?_ ?_ ?_ ?_
  · intro st _ h; exact ⟨h, sdLE_refl _⟩
  · intro _ st _ _ h; exact ⟨h, sdLE_refl _⟩
  · intro _ st _ h; exact ⟨h, sdLE_refl _⟩
  · intro _ st p _ h; exact leaf_coh_mono d (tickSt st) p h
  · intro _ st _ _ _ _ h; exact ⟨h, sdLE_refl _⟩
  · intro _ st _ a b rest st1 st2 _ _ _ _ ih1 ih2 h
    obtain ⟨c1, m1⟩ := ih1 (coh_tick h)
    obtain ⟨c2, m2⟩ := ih2 c1
    exact ⟨c2, sdLE_trans m2 m1⟩

/-- the clock only advances -/
theorem cbPart_tick_le (n d : Nat) (cut : Option Nat) :
    ∀ fuel (st : CbState α) subs, st.tick ≤ (cbPart n d cut fuel st subs).tick := by
  refine cbPart_induct n d cut (fun _ st _ out => st.tick ≤ out.tick) ?_ ?_ ?_ ?_ ?_ ?_
  · intro st _; exact Nat.le_refl _
  · intro _ st _ _; exact Nat.le_succ _
  · intro _ st _; exact Nat.le_succ _
  · intro _ st p _
    unfold leaf
    split
    · exact Nat.le_succ _
    · exact Nat.le_succ _
  · intro _ st _ _ _ _; exact Nat.le_succ _
  · intro _ st _ a b rest st1 st2 _ _ _ _ ih1 ih2
    have : st.tick ≤ (tickSt st).tick := Nat.le_succ _
    omega

/-- **after the time is up nothing happens**: once the next call would see `c ≤ tick`, the incumbent is frozen -/
theorem cbPart_frozen (n d c : Nat) :
    ∀ fuel (st : CbState α) subs, c ≤ st.tick + 1 →
      (cbPart n d (some c) fuel st subs).best = st.best ∧ (cbPart n d (some c) fuel st subs).sd = st.sd ∧
      st.tick ≤ (cbPart n d (some c) fuel st subs).tick := by
  intro fuel st subs h
  cases fuel with
  | zero => exact ⟨rfl, rfl, Nat.le_refl _⟩
  | succ fuel =>
    have hs : stopNow (some c) st = true := by
      simp only [stopNow, timeUp, Bool.or_eq_true, decide_eq_true_eq]; exact Or.inl h
    rw [cbPart_stop hs]
    exact ⟨rfl, rfl, Nat.le_succ _⟩

/-- **before the time is up the cut is invisible**: a run that finishes before tick `c` is the unlimited run -/
theorem cbPart_cut_eq_none (n d c : Nat) :
    ∀ fuel (st : CbState α) subs, (cbPart n d none fuel st subs).tick < c →
      cbPart n d (some c) fuel st subs = cbPart n d none fuel st subs := by
  have key : ∀ fuel (st : CbState α) subs, st.tick ≤ (cbPart n d none fuel st subs).tick ∧
      ((cbPart n d none fuel st subs).tick < c →
        cbPart n d (some c) fuel st subs = cbPart n d none fuel st subs) := by
    have hstop : ∀ st : CbState α, stopNow none st = false → st.tick + 1 < c →
        stopNow (some c) st = false := by
      intro st hn ht
      simp only [stopNow, timeUp, Bool.false_or] at hn
      simp only [stopNow, timeUp, hn, Bool.or_false, decide_eq_false_iff_not]
      omega
    refine cbPart_induct n d none
      (fun fuel st subs out => st.tick ≤ out.tick ∧ (out.tick < c → cbPart n d (some c) fuel st subs = out))
      ?_ ?_ ?_ ?_ ?_ ?_
    · intro st subs; exact ⟨Nat.le_refl _, fun _ => rfl⟩
    · intro fuel st subs hs
      refine ⟨Nat.le_succ _, fun _ => ?_⟩
      simp only [stopNow, timeUp, Bool.false_or] at hs
      exact cbPart_stop (by simp only [stopNow, hs, Bool.or_true])
    · intro fuel st hn
      exact ⟨Nat.le_succ _, fun ht => cbPart_nil (hstop st hn ht)⟩
    · intro fuel st p hn
      have e : (leaf d (tickSt st) p).tick = st.tick + 1 := by
        unfold leaf; split <;> rfl
      refine ⟨by rw [e]; exact Nat.le_succ _, fun ht => cbPart_leaf (hstop st hn (by omega))⟩
    · intro fuel st subs hn h2 hp
      exact ⟨Nat.le_succ _, fun ht => cbPart_pruned (hstop st hn ht) h2 hp⟩
    · intro fuel st subs a b rest st1 st2 hn hsp hcp ho ih1 ih2
      have e : (tickSt st).tick = st.tick + 1 := rfl
      refine ⟨by omega, fun ht => ?_⟩
      rw [cbPart_node (hstop st hn (by omega)) hsp hcp ho, ih1.2 (by omega), ih2.2 ht]
  intro fuel st subs
  exact (key fuel st subs).2

/-- how the run with cut `c` (left) and the run with cut `c + 1` (right) compare: both are coherent, the right
    one is at least as good, and either they are still in lock-step or the left one has run out of time -/
def Rel (c : Nat) (o1 o2 : CbState α) : Prop :=
  Coh o1 ∧ Coh o2 ∧ sdLE o2.sd o1.sd ∧ (o1 = o2 ∨ c ≤ o1.tick + 1)

theorem stopNow_succ_false {c : Nat} {st : CbState α} (h : stopNow (some c) st = false) :
    stopNow (some (c + 1)) st = false := by
  simp only [stopNow, timeUp, Bool.or_eq_false_iff, decide_eq_false_iff_not] at h ⊢
  exact ⟨by omega, h.2⟩

/-- **Prefix lemma.**  From the same state, the run with cut `c + 1` ends at least as well as the run with
    cut `c`. -/
theorem cbPart_sync (n d c : Nat) :
    ∀ fuel (st : CbState α) subs, Coh st →
      Rel c (cbPart n d (some c) fuel st subs) (cbPart n d (some (c + 1)) fuel st subs) := by
  intro fuel
  induction fuel with
  | zero => intro st subs h; exact ⟨h, h, sdLE_refl _, Or.inl rfl⟩
  | succ fuel ih =>
    intro st subs h
    cases hs : stopNow (some c) st with
    | true =>
      rw [cbPart_stop hs]
      obtain ⟨c2, m2⟩ := cbPart_mono n d (some (c + 1)) (fuel + 1) st subs h
      refine ⟨coh_tick h, c2, m2, ?_⟩
      by_cases hopt : st.opt = true
      · left
        have : stopNow (some (c + 1)) st = true := by simp only [stopNow, hopt, Bool.or_true]
        rw [cbPart_stop this]
      · right
        simp only [stopNow, timeUp, Bool.or_eq_true, decide_eq_true_eq] at hs
        rcases hs with hs | hs
        · show c ≤ st.tick + 1 + 1; omega
        · exact absurd hs hopt
    | false =>
      have hs' := stopNow_succ_false hs
      match subs with
      | [] => rw [cbPart_nil hs, cbPart_nil hs']; exact ⟨coh_tick h, coh_tick h, sdLE_refl _, Or.inl rfl⟩
      | [p] =>
        rw [cbPart_leaf hs, cbPart_leaf hs']
        have := (leaf_coh_mono d (tickSt st) p (coh_tick h)).1
        exact ⟨this, this, sdLE_refl _, Or.inl rfl⟩
      | a' :: b' :: rest' =>
        have h2 : 2 ≤ (a' :: b' :: rest').length := by simp only [List.length_cons]; omega
        cases hp : (sumPrune st.sd (a' :: b' :: rest') || cardPrune d (a' :: b' :: rest')) with
        | true =>
          rw [cbPart_pruned hs h2 hp, cbPart_pruned hs' h2 hp]
          exact ⟨coh_tick h, coh_tick h, sdLE_refl _, Or.inl rfl⟩
        | false =>
          obtain ⟨hsp, hcp⟩ := Bool.or_eq_false_iff.1 hp
          obtain ⟨a, b, rest, ho⟩ := order_cons_cons n h2
          rw [cbPart_node hs hsp hcp ho, cbPart_node hs' hsp hcp ho]
          obtain ⟨k1, k2, le1, hcase⟩ := ih (tickSt st) (rest ++ [cbSplit a b]) (coh_tick h)
          rcases hcase with heq | hup
          · rw [← heq]
            exact ih _ _ k1
          · obtain ⟨f1, f2, f3⟩ := cbPart_frozen n d c fuel
              (cbPart n d (some c) fuel (tickSt st) (rest ++ [cbSplit a b])) (rest ++ [cbCombine a b]) hup
            obtain ⟨c2, m2⟩ := cbPart_mono n d (some (c + 1)) fuel
              (cbPart n d (some (c + 1)) fuel (tickSt st) (rest ++ [cbSplit a b])) (rest ++ [cbCombine a b]) k2
            refine ⟨?_, c2, ?_, Or.inr (by omega)⟩
            · unfold Coh; rw [f1, f2]; exact k1
            · rw [f2]; exact sdLE_trans m2 le1

/-- the state `cbldm` starts from -/
def st0 : CbState α := { best := none, sd := none, opt := false, tick := 0 }

theorem coh_st0 : Coh (st0 : CbState α) := rfl

/-- **C11, anytime monotonicity of CBLDM.**  If the run interrupted at the `c`-th call of `part` has a
    partition to return, so has the run interrupted one call later, and its sum difference is not larger.
    (With `val r := match r with | none => +∞ | some b => sumDiff b` this is `val r2 ≤ val r1`.) -/
theorem cbldm_cut_monotone (v : α → Nat) (items : List α) (d : Option Nat) (c : Nat) (b1 : Bins α)
    (h : cbldm v items d (some c) = some b1) :
    ∃ b2, cbldm v items d (some (c + 1)) = some b2 ∧ sumDiff b2 ≤ sumDiff b1 := by
  unfold cbldm at h ⊢
  obtain ⟨k1, k2, le, _⟩ := cbPart_sync (sortDesc v items).length (d.getD ((sortDesc v items).length + 1)) c
    ((sortDesc v items).length + 1) st0 ((sortDesc v items).map fun x => (Bins.new 2).add v x 1) coh_st0
  change (cbPart _ _ (some c) _ st0 _).best = some b1 at h
  unfold Coh at k1 k2
  rw [h] at k1
  obtain ⟨x, hx, hle⟩ := le _ k1
  rw [hx] at k2
  change ∃ b2, (cbPart _ _ (some (c + 1)) _ st0 _).best = some b2 ∧ _
  cases hb : (cbPart (sortDesc v items).length (d.getD ((sortDesc v items).length + 1)) (some (c + 1))
    ((sortDesc v items).length + 1) st0 ((sortDesc v items).map fun x => (Bins.new 2).add v x 1)).best with
  | none => rw [hb] at k2; cases k2
  | some b2 =>
    rw [hb] at k2
    simp only [Option.map_some, Option.some.injEq] at k2
    exact ⟨b2, rfl, by omega⟩

/-- the same statement in the `val` form of the task: `none` (no solution yet) counts as `+∞` -/
theorem cbldm_cut_monotone_val (v : α → Nat) (items : List α) (d : Option Nat) (c : Nat) :
    let val := fun (r : Option (Bins α)) => r.map sumDiff
    ∀ r1 r2, cbldm v items d (some c) = r1 → cbldm v items d (some (c + 1)) = r2 → sdLE (val r2) (val r1) := by
  intro val r1 r2 h1 h2 y hy
  cases r1 with
  | none => cases hy
  | some b1 =>
    obtain ⟨b2, e2, hle⟩ := cbldm_cut_monotone v items d c b1 h1
    rw [h2] at e2; subst e2
    simp only [val, Option.map_some, Option.some.injEq] at hy
    exact ⟨sumDiff b2, rfl, by omega⟩

/-- monotonicity over any two limits -/
theorem cbldm_cut_monotone_le (v : α → Nat) (items : List α) (d : Option Nat) {c c' : Nat} (hc : c ≤ c')
    (b1 : Bins α) (h : cbldm v items d (some c) = some b1) :
    ∃ b2, cbldm v items d (some c') = some b2 ∧ sumDiff b2 ≤ sumDiff b1 := by
  induction hc with
  | refl => exact ⟨b1, h, Nat.le_refl _⟩
  | step _ ih =>
    obtain ⟨b2, e2, l2⟩ := ih
    obtain ⟨b3, e3, l3⟩ := cbldm_cut_monotone v items d _ b2 e2
    exact ⟨b3, e3, Nat.le_trans l3 l2⟩

/-- **C11.**  The unlimited run equals every sufficiently late cut. -/
theorem cbldm_cut_eventually (v : α → Nat) (items : List α) (d : Option Nat) :
    ∃ c, ∀ c' ≥ c, cbldm v items d (some c') = cbldm v items d none := by
  refine ⟨(cbPart (sortDesc v items).length (d.getD ((sortDesc v items).length + 1)) none
    ((sortDesc v items).length + 1) st0 ((sortDesc v items).map fun x => (Bins.new 2).add v x 1)).tick + 1,
    fun c' hc' => ?_⟩
  unfold cbldm
  exact congrArg CbState.best (cbPart_cut_eq_none _ _ c' _ st0 _ (by omega))

/-- hence the unlimited run is at least as good as every interrupted one -/
theorem cbldm_cut_le_unlimited (v : α → Nat) (items : List α) (d : Option Nat) (c : Nat) (b1 : Bins α)
    (h : cbldm v items d (some c) = some b1) :
    ∃ b2, cbldm v items d none = some b2 ∧ sumDiff b2 ≤ sumDiff b1 := by
  obtain ⟨c0, h0⟩ := cbldm_cut_eventually v items d
  obtain ⟨b2, e2, l2⟩ := cbldm_cut_monotone_le v items d (Nat.le_max_left c c0) b1 h
  rw [h0 _ (Nat.le_max_right c c0)] at e2
  exact ⟨b2, e2, l2⟩

/-- a result under a time limit is `none` or a complete valid partition (re-export of `cbldm_isPartition`) -/
theorem cbldm_cut_safe (v : α → Nat) (items : List α) (d : Option Nat) (c : Nat) :
    cbldm v items d (some c) = none ∨ ∃ b, cbldm v items d (some c) = some b ∧ IsPartition v items 2 b := by
  cases h : cbldm v items d (some c) with
  | none => exact Or.inl rfl
  | some b => exact Or.inr ⟨b, rfl, cbldm_isPartition v items d (some c) b h⟩

/-! non-vacuity: `[8, 7, 6, 5, 4]`: no solution before the 6th call, difference 2 from cut 6 on, the optimum
    (difference 0) from cut 14 on -/
example : (cbldm (id : Nat → Nat) [8, 7, 6, 5, 4] none (some 5)).map sumDiff = none := by decide
example : (cbldm (id : Nat → Nat) [8, 7, 6, 5, 4] none (some 6)).map sumDiff = some 2 := by decide
example : (cbldm (id : Nat → Nat) [8, 7, 6, 5, 4] none (some 13)).map sumDiff = some 2 := by decide
example : (cbldm (id : Nat → Nat) [8, 7, 6, 5, 4] none (some 14)).map sumDiff = some 0 := by decide
example : ∃ b2, cbldm (id : Nat → Nat) [8, 7, 6, 5, 4] none (some 14) = some b2 ∧
    sumDiff b2 ≤ sumDiff (⟨[14, 16], [[8, 6], [4, 7, 5]]⟩ : Bins Nat) :=
  cbldm_cut_monotone id [8, 7, 6, 5, 4] none 13 _ (by rfl)
example : ∃ b2, cbldm (id : Nat → Nat) [8, 7, 6, 5, 4] none none = some b2 ∧
    sumDiff b2 ≤ sumDiff (⟨[14, 16], [[8, 6], [4, 7, 5]]⟩ : Bins Nat) :=
  cbldm_cut_le_unlimited id [8, 7, 6, 5, 4] none 6 _ (by rfl)

/-! ## A2. Complete greedy: the first incumbent is the greedy (LPT) partition, up to the order of the bins -/

section FirstSolution
variable (v : α → Nat)

theorem le_posInf_false {y : EInt} (h : y ≠ .posInf) : EInt.le .posInf y = false := by
  cases y with
  | negInf => rfl
  | fin _ => rfl
  | posInf => exact absurd rfl h

theorem cgFast_ne_posInf (o : Objective) (k : Nat) (cs : List Nat) (b x r : Nat) :
    cgFast o k cs b x r ≠ .posInf := by
  cases o <;> simp [cgFast]

theorem lowerBound_ne_posInf (o : Objective) (sums : List Nat) (rem : Nat) (flag : Bool) :
    o.lowerBound sums rem flag ≠ .posInf := by
  cases o <;> simp [Objective.lowerBound]

/-- while there is no incumbent (`bestV = +∞`) neither bound prunes: one iteration of the child loop -/
theorem cgChildren_cons_inf (cfg : CgCfg) (k : Nat) (cur : Bins α) (depth : Nat) (x : α) (r : Nat)
    (b : Nat) (bs : List Nat) (prev : Option Nat) (seen : List (Nat × List Nat)) (acc : List (Bins α × Nat)) :
    cgChildren v cfg k cur depth x r .posInf (b :: bs) prev seen acc =
      if prev = some (cur.sums.getD b 0) then cgChildren v cfg k cur depth x r .posInf bs prev seen acc else
      if cfg.useSeen = true ∧ (depth + 1, ((cur.add v x b).sortAsc).sums) ∈ seen then
        cgChildren v cfg k cur depth x r .posInf bs (some (cur.sums.getD b 0)) seen acc
      else cgChildren v cfg k cur depth x r .posInf bs (some (cur.sums.getD b 0))
        (if cfg.useSeen = true then (depth + 1, ((cur.add v x b).sortAsc).sums) :: seen else seen)
        (((cur.add v x b).sortAsc, depth + 1) :: acc) := by
  simp only [cgChildren, le_posInf_false (cgFast_ne_posInf _ _ _ _ _ _),
    le_posInf_false (lowerBound_ne_posInf _ _ _ _), Bool.and_false, Bool.false_eq_true, if_false,
    beq_iff_eq, List.contains_iff_mem]
  by_cases h1 : prev = some (cur.sums.getD b 0)
  · simp only [h1, if_true]
  · simp only [h1, if_false]
    by_cases h2 : cfg.useSeen = true
    · simp only [h2, if_true, true_and]
    · have h2' : cfg.useSeen = false := by simpa using h2
      simp only [h2', Bool.false_eq_true, if_false, false_and]

/-- `s` is (a rearrangement of) the sums after putting a value `w` into a bin of minimum sum -/
def GoodS (cs : List Nat) (w : Nat) (s : List Nat) : Prop :=
  ∃ i, ∃ hi : i < cs.length, (∀ y ∈ cs, cs[i] ≤ y) ∧ s.Perm (cs.modify i (· + w))

theorem child_sums_perm (cur : Bins α) (hl : cur.sums.length = cur.lists.length) (x : α) (b : Nat) :
    ((cur.add v x b).sortAsc).sums.Perm (cur.sums.modify b (· + v x)) :=
  CGValid.sortAsc_sums_perm (cur.add v x b) (by simp only [Bins.add, List.length_modify, hl])

/-- putting a positive value into a bin that is not minimum never gives the sums of an LPT step -/
theorem not_good_of_ne {cs : List Nat} {w m : Nat} (hw : 0 < w) (hm : ∀ y ∈ cs, m ≤ y) (hmem : m ∈ cs)
    {b : Nat} (hb : b < cs.length) (hne : cs[b] ≠ m) {s : List Nat} (hs : s.Perm (cs.modify b (· + w))) :
    ¬ GoodS cs w s := by
  rintro ⟨i, hi, hmin, hp⟩
  have hib : cs[i] = m := Nat.le_antisymm (hmin m hmem) (hm _ (List.getElem_mem hi))
  have hbm : m < cs[b] := Nat.lt_of_le_of_ne (hm _ (List.getElem_mem hb)) (Ne.symm hne)
  let p : Nat → Bool := fun y => decide (y ≤ m)
  have c1 : List.countP p (cs.modify b (· + w)) = List.countP p cs := by
    rw [(Textbook.modify_perm_cons_eraseIdx (· + w) cs b hb).countP_eq,
      (Textbook.perm_getElem_cons_eraseIdx cs b hb).countP_eq p, List.countP_cons, List.countP_cons]
    have e1 : p (cs[b] + w) = false := by simp only [p, decide_eq_false_iff_not]; omega
    have e2 : p cs[b] = false := by simp only [p, decide_eq_false_iff_not]; omega
    simp only [e1, e2]
  have c2 : List.countP p (cs.modify i (· + w)) + 1 = List.countP p cs := by
    rw [(Textbook.modify_perm_cons_eraseIdx (· + w) cs i hi).countP_eq,
      (Textbook.perm_getElem_cons_eraseIdx cs i hi).countP_eq p, List.countP_cons, List.countP_cons]
    have e1 : p (cs[i] + w) = false := by simp only [p, decide_eq_false_iff_not]; omega
    have e2 : p cs[i] = true := by simp only [p, decide_eq_true_eq]; omega
    simp only [e1, e2, Bool.false_eq_true, if_false, if_true]
  have := (hs.symm.trans hp).countP_eq p
  omega

/-- a child of a minimum bin is good -/
theorem good_child (cur : Bins α) (hl : cur.sums.length = cur.lists.length) (x : α) {m : Nat}
    (hm : ∀ y ∈ cur.sums, m ≤ y) {b : Nat} (hb : b < cur.sums.length) (hbm : cur.sums.getD b 0 = m) :
    GoodS cur.sums (v x) ((cur.add v x b).sortAsc).sums := by
  refine ⟨b, hb, ?_, child_sums_perm v cur hl x b⟩
  intro y hy
  have : cur.sums[b] = m := by rw [← hbm]; simp only [List.getD_eq_getElem?_getD, List.getElem?_eq_getElem hb, Option.getD_some]
  rw [this]; exact hm y hy

/-- what the top of the freshly pushed children looks like -/
def TopOK (cur : Bins α) (depth : Nat) (x : α) (L : List (Bins α × Nat)) : Prop :=
  ∃ nb rest, L = (nb, depth + 1) :: rest ∧ GoodS cur.sums (v x) nb.sums ∧
    ∃ b, b < cur.sums.length ∧ nb = (cur.add v x b).sortAsc

/-- **the child loop, item of positive value, no incumbent yet.**  Phase 1: no key of an LPT child has been
    recorded and the equal-sum filter does not hold the minimum; phase 2: the child of a minimum bin is on
    top and every remaining bin is skipped as an equal-sum duplicate. -/
theorem children_top_pos {cfg : CgCfg} {k : Nat} {cur : Bins α} {depth : Nat} {x : α} {r : Nat}
    (hl : cur.sums.length = cur.lists.length) (hx : 0 < v x) {m : Nat} (hm : ∀ y ∈ cur.sums, m ≤ y)
    (hmem : m ∈ cur.sums) :
    ∀ (bs : List Nat) (prev : Option Nat) (seen : List (Nat × List Nat)) (acc : List (Bins α × Nat)),
      (∀ b ∈ bs, b < cur.sums.length) →
      bs.Pairwise (fun b b' => cur.sums.getD b' 0 ≤ cur.sums.getD b 0) →
      ((TopOK v cur depth x acc ∧ prev = some m ∧ ∀ b ∈ bs, cur.sums.getD b 0 = m) ∨
       ((∀ s, (depth + 1, s) ∈ seen → ¬ GoodS cur.sums (v x) s) ∧ prev ≠ some m ∧
          ∃ b ∈ bs, cur.sums.getD b 0 = m)) →
      TopOK v cur depth x (cgChildren v cfg k cur depth x r .posInf bs prev seen acc).1.reverse := by
  intro bs
  induction bs with
  | nil =>
    intro prev seen acc _ _ h
    rcases h with ⟨h, _, _⟩ | ⟨_, _, b, hb, _⟩
    · simpa only [cgChildren, List.reverse_reverse] using h
    · cases hb
  | cons b bs ih =>
    intro prev seen acc hlt hpw h
    have hlt' : ∀ b' ∈ bs, b' < cur.sums.length := fun b' hb' => hlt b' (List.mem_cons_of_mem _ hb')
    have hb : b < cur.sums.length := hlt b (List.mem_cons_self ..)
    obtain ⟨hpb, hpw'⟩ := List.pairwise_cons.1 hpw
    have hgetD : cur.sums.getD b 0 = cur.sums[b] := by
      simp only [List.getD_eq_getElem?_getD, List.getElem?_eq_getElem hb, Option.getD_some]
    rw [cgChildren_cons_inf]
    rcases h with ⟨htop, hprev, hall⟩ | ⟨hseen, hprev, b0, hb0, hb0m⟩
    · -- phase 2: skipped as a duplicate
      have : prev = some (cur.sums.getD b 0) := by rw [hall b (List.mem_cons_self ..)]; exact hprev
      rw [if_pos this]
      exact ih prev seen acc hlt' hpw' (Or.inl ⟨htop, hprev, fun b' hb' => hall b' (List.mem_cons_of_mem _ hb')⟩)
    · by_cases hbm : cur.sums.getD b 0 = m
      · -- the first minimum bin met: its child is pushed, the rest is phase 2
        have h1 : ¬ prev = some (cur.sums.getD b 0) := by rw [hbm]; exact hprev
        have hgood := good_child v cur hl x hm hb hbm
        have h2 : ¬ (cfg.useSeen = true ∧ (depth + 1, ((cur.add v x b).sortAsc).sums) ∈ seen) :=
          fun hh => hseen _ hh.2 hgood
        rw [if_neg h1, if_neg h2]
        refine ih _ _ _ hlt' hpw' (Or.inl ⟨⟨_, _, rfl, hgood, b, hb, rfl⟩, by rw [hbm], ?_⟩)
        intro b' hb'
        have h3 := hpb b' hb'
        have h4 : m ≤ cur.sums.getD b' 0 := by
          have hb'lt := hlt' b' hb'
          have : cur.sums.getD b' 0 = cur.sums[b'] := by
            simp only [List.getD_eq_getElem?_getD, List.getElem?_eq_getElem hb'lt, Option.getD_some]
          rw [this]; exact hm _ (List.getElem_mem hb'lt)
        omega
      · -- a bin that is not minimum: whatever happens, phase 1 goes on
        have hb0' : ∃ b' ∈ bs, cur.sums.getD b' 0 = m := by
          rcases List.mem_cons.1 hb0 with rfl | hb0
          · exact absurd hb0m hbm
          · exact ⟨b0, hb0, hb0m⟩
        have hne : cur.sums[b] ≠ m := by rw [← hgetD]; exact hbm
        have hprev' : (some (cur.sums.getD b 0) : Option Nat) ≠ some m := by
          intro hh; exact hbm (Option.some.inj hh)
        have hnotgood := not_good_of_ne hx hm hmem hb hne (child_sums_perm v cur hl x b)
        split
        · exact ih _ _ _ hlt' hpw' (Or.inr ⟨hseen, hprev, hb0'⟩)
        · split
          · exact ih _ _ _ hlt' hpw' (Or.inr ⟨hseen, hprev', hb0'⟩)
          · refine ih _ _ _ hlt' hpw' (Or.inr ⟨?_, hprev', hb0'⟩)
            intro s hs
            split at hs
            · rcases List.mem_cons.1 hs with hs | hs
              · rw [(Prod.mk.inj hs).2]; exact hnotgood
              · exact hseen s hs
            · exact hseen s hs

theorem modify_add_zero (l : List Nat) (i : Nat) : l.modify i (· + 0) = l := by
  induction l generalizing i with
  | nil => simp only [List.modify_nil]
  | cons a as ih =>
    cases i with
    | zero => simp only [List.modify_zero_cons, Nat.add_zero]
    | succ i => simp only [List.modify_succ_cons, ih]

/-- **the child loop in general**, no incumbent yet, no key of the next depth recorded yet -/
theorem expand_top {cfg : CgCfg} {k : Nat} (hk : 0 < k) {cur : Bins α} {depth : Nat} {x : α} {r : Nat}
    {seen : List (Nat × List Nat)} (hlen : cur.sums.length = k) (hl : cur.lists.length = k)
    (hsorted : cur.sums.Pairwise (· ≤ ·)) (hseen : ∀ e ∈ seen, e.1 ≤ depth) :
    TopOK v cur depth x
      (cgChildren v cfg k cur depth x r .posInf (List.range k).reverse none seen []).1.reverse := by
  have hl' : cur.sums.length = cur.lists.length := by rw [hlen, hl]
  have h0 : 0 < cur.sums.length := by omega
  have hmin : ∀ y ∈ cur.sums, cur.sums[0] ≤ y := by
    intro y hy
    obtain ⟨j, hj, rfl⟩ := List.mem_iff_getElem.1 hy
    cases j with
    | zero => exact Nat.le_refl _
    | succ j => exact (List.pairwise_iff_getElem.1 hsorted) 0 (j + 1) h0 hj (by omega)
  have hnokey : ∀ s, (depth + 1, s) ∉ seen := fun s hs => by
    have := hseen _ hs; simp only at this; omega
  by_cases hx : 0 < v x
  · refine children_top_pos v hl' hx hmin (List.getElem_mem h0) _ _ _ _ ?_ ?_ (Or.inr ⟨?_, ?_, 0, ?_, ?_⟩)
    · intro b hb; rw [List.mem_reverse, List.mem_range] at hb; omega
    · rw [List.pairwise_reverse]
      refine (List.pairwise_lt_range (n := k)).imp_of_mem ?_
      intro a b ha hb hab
      rw [List.mem_range] at ha hb
      have ha' : a < cur.sums.length := by omega
      have hb' : b < cur.sums.length := by omega
      simp only [List.getD_eq_getElem?_getD, List.getElem?_eq_getElem ha', List.getElem?_eq_getElem hb',
        Option.getD_some]
      exact (List.pairwise_iff_getElem.1 hsorted) a b ha' hb' hab
    · intro s hs; exact absurd hs (hnokey s)
    · intro h; cases h
    · rw [List.mem_reverse, List.mem_range]; exact hk
    · simp only [List.getD_eq_getElem?_getD, List.getElem?_eq_getElem h0, Option.getD_some]
  · -- an item of value 0: every child has the sums of the parent
    have hx0 : v x = 0 := by omega
    have hgood : ∀ b, GoodS cur.sums (v x) ((cur.add v x b).sortAsc).sums := by
      intro b
      refine ⟨0, h0, hmin, (child_sums_perm v cur hl' x b).trans ?_⟩
      rw [hx0, modify_add_zero, modify_add_zero]
    have hall := CGValid.cgChildren_mem v cfg k cur depth x r .posInf
      (fun p => p.2 = depth + 1 ∧ ∃ b, b < cur.sums.length ∧ p.1 = (cur.add v x b).sortAsc)
      (List.range k).reverse none seen [] (fun _ hp => by cases hp)
      (fun b hb => ⟨rfl, b, by rw [List.mem_reverse, List.mem_range] at hb; omega, rfl⟩)
    have hne : 1 ≤ (cgChildren v cfg k cur depth x r .posInf (List.range k).reverse none seen []).1.length := by
      obtain ⟨k', rfl⟩ : ∃ k', k = k' + 1 := ⟨k - 1, by omega⟩
      rw [List.range_succ, List.reverse_append, List.reverse_singleton, List.singleton_append,
        cgChildren_cons_inf, if_neg (by intro h; cases h), if_neg (fun hh => hnokey _ hh.2)]
      exact Nat.le_trans (by simp only [List.length_cons, List.length_nil]; omega)
        (CGValid.cgChildren_acc_length v cfg _ cur depth x r .posInf _ _ _ _)
    generalize (cgChildren v cfg k cur depth x r .posInf (List.range k).reverse none seen []).1 = L at hall hne
    cases hrev : L.reverse with
    | nil =>
      have := congrArg List.length hrev
      simp only [List.length_reverse, List.length_nil] at this; omega
    | cons p rest =>
      have hp : p ∈ L := by rw [← List.mem_reverse, hrev]; exact List.mem_cons_self ..
      obtain ⟨hp2, b, hb, hp1⟩ := hall p hp
      obtain ⟨nb, d'⟩ := p
      simp only at hp2 hp1
      subst hp2 hp1
      exact ⟨_, rest, rfl, hgood b, b, hb, rfl⟩

/-- the greedy (LPT) partition of the first `t` items of `sorted` -/
def G (k : Nat) (sorted : List α) (t : Nat) : Bins α := (sorted.take t).foldl (greedyStep v) (Bins.new k)

theorem G_succ (k : Nat) {sorted : List α} {t : Nat} {x : α} (hx : sorted[t]? = some x) :
    G v k sorted (t + 1) = greedyStep v (G v k sorted t) x := by
  unfold G
  rw [List.take_add_one, hx]
  simp only [Option.toList_some, List.foldl_append, List.foldl_cons, List.foldl_nil]

theorem fold_greedy_sums_length (xs : List α) (b : Bins α) :
    (xs.foldl (greedyStep v) b).sums.length = b.sums.length := by
  induction xs generalizing b with
  | nil => rfl
  | cons x xs ih =>
    rw [List.foldl_cons, ih]
    simp only [greedyStep, Bins.add, List.length_modify]

theorem G_sums_length (k : Nat) (sorted : List α) (t : Nat) : (G v k sorted t).sums.length = k := by
  unfold G
  rw [fold_greedy_sums_length]
  simp only [Bins.new, List.length_replicate]

/-- **the state before the first leaf is evaluated**, after `t` iterations: no incumbent, and the top of the
    stack is a vertex of depth `t` whose sums are those of the greedy partition of the first `t` items -/
structure Pre (k : Nat) (sorted : List α) (t : Nat) (s : CgState α) : Prop where
  best : s.best = none
  bestV : s.bestV = .posInf
  notDone : s.done = false
  top : ∃ cur rest, s.stack = (cur, t) :: rest ∧ cur.sums.length = k ∧ cur.lists.length = k ∧
    cur.sums.Pairwise (· ≤ ·) ∧ cur.sums.Perm (G v k sorted t).sums
  seen : ∀ e ∈ s.seen, e.1 ≤ t

theorem pre_init (k : Nat) (sorted : List α) : Pre v k sorted 0 (cgInit k : CgState α) := by
  refine ⟨rfl, rfl, rfl, ⟨Bins.new k, [], rfl, ?_, ?_, ?_, ?_⟩, ?_⟩
  · simp only [Bins.new, List.length_replicate]
  · simp only [Bins.new, List.length_replicate]
  · simp only [Bins.new]
    exact List.pairwise_replicate.2 (Or.inr (Nat.le_refl _))
  · exact List.Perm.refl _
  · intro e he; cases he

/-- the state right after heuristic 3 has jumped to a leaf: no incumbent, the leaf is on top -/
structure PreH (k : Nat) (sorted : List α) (s : CgState α) : Prop where
  best : s.best = none
  bestV : s.bestV = .posInf
  notDone : s.done = false
  top : ∃ nb rest, s.stack = (nb, sorted.length) :: rest ∧
    maxL nb.sums = maxL (G v k sorted sorted.length).sums

theorem maxL_modify_of_le (l : List Nat) (i a : Nat) (hi : i < l.length) (h : l[i] + a ≤ maxL l) :
    maxL (l.modify i (· + a)) = maxL l := by
  have h1 := Obj.maxL_perm (Textbook.modify_perm_cons_eraseIdx (· + a) l i hi)
  have h2 := Obj.maxL_perm (Textbook.perm_getElem_cons_eraseIdx l i hi)
  simp only [maxL] at h1 h2
  omega

/-- once the remaining items fit on the least-loaded bin without exceeding the largest one, greedy never raises
    the largest sum -/
theorem greedy_keeps_max : ∀ (xs : List α) (g : Bins α), g.sums ≠ [] →
    binSum v xs + minL g.sums ≤ maxL g.sums → maxL (xs.foldl (greedyStep v) g).sums = maxL g.sums
  | [], g, _, _ => rfl
  | x :: xs, g, hne, h => by
    have hi := Part.argmin_lt hne
    have hmin := Part.getElem_argmin hi
    have hx : binSum v (x :: xs) = v x + binSum v xs := rfl
    have hstep : maxL (greedyStep v g x).sums = maxL g.sums := by
      simp only [greedyStep, Bins.add]
      apply maxL_modify_of_le _ _ _ hi
      rw [hmin]; omega
    have hne' : (greedyStep v g x).sums ≠ [] := by
      intro h0
      have := congrArg List.length h0
      simp only [greedyStep, Bins.add, List.length_modify, List.length_nil] at this
      omega
    have hmem := List.getElem_mem (l := g.sums.modify (argmin g.sums) (· + v x)) (n := argmin g.sums)
      (by rw [List.length_modify]; exact hi)
    rw [List.getElem_modify_eq] at hmem
    have hle : minL (greedyStep v g x).sums ≤ minL g.sums + v x := by
      rw [← hmin]; exact Part.minL_le hmem
    rw [List.foldl_cons, greedy_keeps_max xs _ hne' (by rw [hstep]; omega), hstep]

theorem fold0_lengths (xs : List α) (b : Bins α) :
    (xs.foldl (fun b x => b.add v x 0) b).sums.length = b.sums.length ∧
    (xs.foldl (fun b x => b.add v x 0) b).lists.length = b.lists.length := by
  induction xs generalizing b with
  | nil => exact ⟨rfl, rfl⟩
  | cons x xs ih =>
    rw [List.foldl_cons]
    obtain ⟨h1, h2⟩ := ih (b.add v x 0)
    exact ⟨by rw [h1]; simp only [Bins.add, List.length_modify],
      by rw [h2]; simp only [Bins.add, List.length_modify]⟩

theorem maxL_le_modify_zero (s : List Nat) (w : Nat) : maxL s ≤ maxL (s.modify 0 (· + w)) := by
  cases s with
  | nil => simp only [List.modify_nil, Nat.le_refl]
  | cons a l => simp only [List.modify_zero_cons, maxL]; omega

/-- the leaf heuristic 3 jumps to has the largest sum of the greedy partition -/
theorem h3_max {cfg : CgCfg} {k : Nat} (hk : 0 < k) {sorted : List α} {cur : Bins α} {t : Nat}
    (hlen : cur.sums.length = k) (hl : cur.lists.length = k) (hperm : cur.sums.Perm (G v k sorted t).sums)
    (hc : CGValid.h3Cond v cfg sorted cur t = true) :
    maxL (CGValid.h3Vertex v sorted cur t).sums = maxL (G v k sorted sorted.length).sums := by
  simp only [CGValid.h3Cond, Bool.and_eq_true, decide_eq_true_eq] at hc
  have hle := hc.2
  -- the jump
  obtain ⟨f1, f2⟩ := fold0_lengths v (sorted.drop t) cur
  have hp := CGValid.sortAsc_sums_perm ((sorted.drop t).foldl (fun b x => b.add v x 0) cur)
    (by rw [f1, f2, hlen, hl])
  have h1 : maxL (CGValid.h3Vertex v sorted cur t).sums = maxL cur.sums := by
    unfold CGValid.h3Vertex
    rw [Obj.maxL_perm hp, CGOpt.fold0_sums]
    exact Nat.le_antisymm (CGOpt.maxL_modify_zero_le cur.sums _ hle) (maxL_le_modify_zero _ _)
  -- greedy from the same sums
  have hne : cur.sums ≠ [] := by
    intro h0; rw [h0] at hlen; simp only [List.length_nil] at hlen; omega
  have hgne : (G v k sorted t).sums ≠ [] := by
    intro h0
    have := G_sums_length v k sorted t
    rw [h0] at this; simp only [List.length_nil] at this; omega
  have hhead : minL cur.sums ≤ cur.sums.headD 0 := by
    cases hcs : cur.sums with
    | nil => exact absurd hcs hne
    | cons a l => exact Part.minL_le (List.mem_cons_self ..)
  have hlast := Obj.lastD_le_maxL cur.sums
  have h2 : maxL (G v k sorted sorted.length).sums = maxL (G v k sorted t).sums := by
    have : G v k sorted sorted.length = (sorted.drop t).foldl (greedyStep v) (G v k sorted t) := by
      unfold G
      rw [← List.foldl_append, List.take_length, List.take_append_drop]
    rw [this]
    apply greedy_keeps_max v _ _ hgne
    rw [← Obj.minL_perm hperm, ← Obj.maxL_perm hperm]
    have : binSum v (sorted.drop t) = remFrom v sorted t := rfl
    omega
  rw [h1, h2, Obj.maxL_perm hperm]

/-- one iteration below the leaves: the search descends into the child of a least-loaded bin, or heuristic 3
    jumps to a leaf -/
theorem pre_step_gen {cfg : CgCfg} {k : Nat} (hk : 0 < k)
    {sorted : List α} {glb : EInt} {t : Nat} (ht : t < sorted.length) {s : CgState α}
    (h : Pre v k sorted t s) :
    Pre v k sorted (t + 1) (cgStep v cfg k sorted glb s) ∨
    ((cfg.useH3 = true ∧ cfg.obj = .minLargest) ∧ PreH v k sorted (cgStep v cfg k sorted glb s)) := by
  obtain ⟨hbest, hbestV, hdone, ⟨cur, rest, hstack, hlen, hl, hsorted, hperm⟩, hseen⟩ := h
  apply CGValid.cgStep_ind v cfg k sorted glb (fun s' => Pre v k sorted (t + 1) s' ∨
    ((cfg.useH3 = true ∧ cfg.obj = .minLargest) ∧ PreH v k sorted s')) s
  · intro hs; rw [hs] at hstack; cases hstack
  · intro cur' rest' hs _
    rw [hs] at hstack
    have := (Prod.mk.inj (List.cons.inj hstack).1).2
    omega
  · intro cur' rest' hs _
    rw [hs] at hstack
    have := (Prod.mk.inj (List.cons.inj hstack).1).2
    omega
  · intro cur' depth rest' hs _ hc
    rw [hs] at hstack
    obtain ⟨h1, h2⟩ := List.cons.inj hstack
    obtain ⟨rfl, rfl⟩ := Prod.mk.inj h1
    right
    refine ⟨?_, hbest, hbestV, hdone, _, rest', rfl, h3_max v hk hlen hl hperm hc⟩
    simp only [CGValid.h3Cond, Bool.and_eq_true, beq_iff_eq] at hc
    exact hc.1
  · intro cur' depth rest' x hs _ _ hx
    rw [hs] at hstack
    obtain ⟨h1, h2⟩ := List.cons.inj hstack
    obtain ⟨rfl, rfl⟩ := Prod.mk.inj h1
    subst h2
    have htop := expand_top v (cfg := cfg) hk (x := x) (r := remFrom v sorted (depth + 1)) hlen hl hsorted hseen
    rw [← hbestV] at htop
    obtain ⟨nb, rest'', hrev, ⟨i, hi, hmin, hp⟩, b, hb, rfl⟩ := htop
    left
    refine ⟨hbest, hbestV, hdone, ⟨(cur'.add v x b).sortAsc, rest'' ++ rest', ?_, ?_, ?_, ?_, ?_⟩, ?_⟩
    · show (CGValid.expandRes v cfg k sorted s cur' depth x).1.reverse ++ rest' = _
      unfold CGValid.expandRes
      rw [hrev]; rfl
    · rw [(child_sums_perm v cur' (by rw [hlen, hl]) x b).length_eq, List.length_modify, hlen]
    · show ((Prtpy.sortAsc _ _).map _).length = k
      rw [List.length_map, (CGValid.sortAsc_perm _ _).length_eq, List.length_zip]
      simp only [Bins.add, List.length_modify, hlen, hl, Nat.min_self]
    · exact CGValid.sortAsc_sums_sorted _
    · rw [G_succ v k hx]
      refine hp.trans ?_
      have hne : (G v k sorted depth).sums ≠ [] := by
        intro h0
        have := G_sums_length v k sorted depth
        rw [h0] at this; simp only [List.length_nil] at this; omega
      have hj := Part.argmin_lt hne
      simp only [greedyStep, Bins.add]
      refine Textbook.min_step_perm hperm hi hj hmin ?_ (v x)
      intro y hy
      rw [Part.getElem_argmin hj]
      exact Part.minL_le hy
    · intro e he
      refine CGValid.expandRes_seen v cfg k sorted s cur' depth x (fun e => e.1 ≤ depth + 1) ?_ ?_ e he
      · intro e he; exact Nat.le_succ_of_le (hseen e he)
      · intro _ _; exact Nat.le_refl _
  · intro cur' depth rest' hs _ hx
    rw [hs] at hstack
    have := (Prod.mk.inj (List.cons.inj hstack).1).2
    subst this
    rw [List.getElem?_eq_none_iff] at hx
    omega

theorem pre_step {cfg : CgCfg} {k : Nat} (hk : 0 < k) (hcfg : cfg.useH3 = false ∨ cfg.obj ≠ .minLargest)
    {sorted : List α} {glb : EInt} {t : Nat} (ht : t < sorted.length) {s : CgState α}
    (h : Pre v k sorted t s) : Pre v k sorted (t + 1) (cgStep v cfg k sorted glb s) := by
  rcases pre_step_gen v (cfg := cfg) (glb := glb) hk ht h with h | ⟨⟨h1, h2⟩, _⟩
  · exact h
  · rcases hcfg with h' | h'
    · rw [h'] at h1; cases h1
    · exact absurd h2 h'

/-- the iteration that evaluates the first leaf installs it as the incumbent -/
theorem pre_leaf {cfg : CgCfg} {k : Nat} {sorted : List α} {glb : EInt} {s : CgState α}
    (h : Pre v k sorted sorted.length s) :
    ∃ b, (cgStep v cfg k sorted glb s).best = some b ∧ b.sums.Perm (G v k sorted sorted.length).sums := by
  obtain ⟨hbest, hbestV, hdone, ⟨cur, rest, hstack, hlen, hl, hsorted, hperm⟩, hseen⟩ := h
  unfold cgStep
  rw [hstack]
  simp only [beq_self_eq_true, if_true, hbestV]
  have : EInt.lt (.fin (cfg.obj.value cur.sums false)) .posInf = true := rfl
  rw [if_pos this]
  refine ⟨cur, ?_, hperm⟩
  split <;> rfl

theorem pre_run {cfg : CgCfg} {k : Nat} (hk : 0 < k) (hcfg : cfg.useH3 = false ∨ cfg.obj ≠ .minLargest)
    (sorted : List α) (glb : EInt) :
    ∀ t ≤ sorted.length, Pre v k sorted t (cgRun v cfg k sorted glb t (cgInit k)) := by
  intro t
  induction t with
  | zero => intro _; exact pre_init v k sorted
  | succ t ih =>
    intro ht
    have h := ih (by omega)
    rw [CGValid.cgRun_succ_right]
    unfold CGValid.cgTick
    rw [h.notDone]
    exact pre_step v hk hcfg (by omega) h

/-- **No solution before the first leaf, and the first leaf is greedy's**, on the level of the machine
    (any list `sorted`, any global lower bound). -/
theorem cgRun_first_solution {cfg : CgCfg} {k : Nat} (hk : 0 < k)
    (hcfg : cfg.useH3 = false ∨ cfg.obj ≠ .minLargest) (sorted : List α) (glb : EInt) :
    (∀ c ≤ sorted.length, (cgRun v cfg k sorted glb c (cgInit k)).best = none) ∧
    ∃ b, (cgRun v cfg k sorted glb (sorted.length + 1) (cgInit k)).best = some b ∧
      b.sums.Perm (sorted.foldl (greedyStep v) (Bins.new k)).sums := by
  refine ⟨fun c hc => (pre_run v hk hcfg sorted glb c hc).best, ?_⟩
  have h := pre_run v hk hcfg sorted glb sorted.length (Nat.le_refl _)
  rw [CGValid.cgRun_succ_right]
  unfold CGValid.cgTick
  rw [h.notDone]
  obtain ⟨b, hb, hp⟩ := pre_leaf v (cfg := cfg) (glb := glb) h
  refine ⟨b, hb, ?_⟩
  simpa only [G, List.take_length] using hp

/-- the first incumbent has just been installed and it has the largest sum of the greedy partition -/
def DoneMax (k : Nat) (sorted : List α) (s : CgState α) : Prop :=
  ∃ b, s.best = some b ∧ maxL b.sums = maxL (sorted.foldl (greedyStep v) (Bins.new k)).sums

theorem G_length (k : Nat) (sorted : List α) :
    G v k sorted sorted.length = sorted.foldl (greedyStep v) (Bins.new k) := by
  simp only [G, List.take_length]

theorem preH_leaf {cfg : CgCfg} {k : Nat} {sorted : List α} {glb : EInt} {s : CgState α}
    (h : PreH v k sorted s) : DoneMax v k sorted (cgStep v cfg k sorted glb s) := by
  obtain ⟨hbest, hbestV, hdone, nb, rest, hstack, hmax⟩ := h
  unfold cgStep
  rw [hstack]
  simp only [beq_self_eq_true, if_true, hbestV]
  have : EInt.lt (.fin (cfg.obj.value nb.sums false)) .posInf = true := rfl
  rw [if_pos this]
  refine ⟨nb, ?_, by rw [hmax, G_length]⟩
  split <;> rfl

/-- **Every configuration** (heuristic 3 included): the run installs its first incumbent after at most `n + 1`
    iterations, and that incumbent has the largest sum of the greedy (LPT) partition. -/
theorem cgRun_first_solution_gen {cfg : CgCfg} {k : Nat} (hk : 0 < k) (sorted : List α) (glb : EInt) :
    ∃ c0, c0 ≤ sorted.length + 1 ∧ (∀ c < c0, (cgRun v cfg k sorted glb c (cgInit k)).best = none) ∧
      DoneMax v k sorted (cgRun v cfg k sorted glb c0 (cgInit k)) := by
  have hstep : ∀ c, (cgRun v cfg k sorted glb c (cgInit k)).done = false →
      cgRun v cfg k sorted glb (c + 1) (cgInit k)
        = cgStep v cfg k sorted glb (cgRun v cfg k sorted glb c (cgInit k)) := by
    intro c hd
    rw [CGValid.cgRun_succ_right]
    unfold CGValid.cgTick
    rw [hd]; rfl
  have key : ∀ t ≤ sorted.length,
      (Pre v k sorted t (cgRun v cfg k sorted glb t (cgInit k)) ∧
        ∀ c ≤ t, (cgRun v cfg k sorted glb c (cgInit k)).best = none) ∨
      (∃ c0, c0 ≤ t + 1 ∧ (∀ c < c0, (cgRun v cfg k sorted glb c (cgInit k)).best = none) ∧
        DoneMax v k sorted (cgRun v cfg k sorted glb c0 (cgInit k))) := by
    intro t
    induction t with
    | zero =>
      intro _
      refine Or.inl ⟨pre_init v k sorted, fun c hc => ?_⟩
      have : c = 0 := by omega
      subst this; rfl
    | succ t ih =>
      intro ht
      rcases ih (by omega) with ⟨hpre, hnone⟩ | ⟨c0, hc0, hnone, hdone⟩
      · rcases pre_step_gen v (cfg := cfg) (glb := glb) hk (by omega) hpre with h | ⟨_, h⟩
        · rw [← hstep t hpre.notDone] at h
          refine Or.inl ⟨h, fun c hc => ?_⟩
          rcases Nat.lt_or_ge c (t + 1) with hlt | hge
          · exact hnone c (by omega)
          · have : c = t + 1 := by omega
            subst this; exact h.best
        · rw [← hstep t hpre.notDone] at h
          refine Or.inr ⟨t + 2, by omega, fun c hc => ?_, ?_⟩
          · rcases Nat.lt_or_ge c (t + 1) with hlt | hge
            · exact hnone c (by omega)
            · have : c = t + 1 := by omega
              subst this; exact h.best
          · rw [hstep (t + 1) h.notDone]
            exact preH_leaf v h
      · exact Or.inr ⟨c0, by omega, hnone, hdone⟩
  rcases key sorted.length (Nat.le_refl _) with ⟨hpre, hnone⟩ | ⟨c0, hc0, hnone, hdone⟩
  · refine ⟨sorted.length + 1, Nat.le_refl _, fun c hc => hnone c (by omega), ?_⟩
    rw [hstep _ hpre.notDone]
    obtain ⟨b, hb, hp⟩ := pre_leaf v (cfg := cfg) (glb := glb) hpre
    exact ⟨b, hb, by rw [Obj.maxL_perm hp, G_length]⟩
  · exact ⟨c0, hc0, hnone, hdone⟩

end FirstSolution

/-- **C11: under every time limit up to the number of items complete greedy has no solution yet**
    (heuristic 3 off, or an objective other than min-largest). -/
theorem cg_no_solution_before {v : α → Nat} {cfg : CgCfg} {k : Nat} {items : List α} {fuel : Nat} (hk : 0 < k)
    (hcfg : cfg.useH3 = false ∨ cfg.obj ≠ .minLargest) {c : Nat} (hc : c ≤ items.length) :
    cg v cfg k items (some c) fuel = .ok none := by
  simp only [cg]
  rw [(cgRun_first_solution v hk hcfg (sortDesc v items) _).1 c (by rw [CGValid.sortDesc_length]; exact hc)]

/-- **C11: with the time limit `n + 1` complete greedy returns its first solution, and it has the bin sums of
    the greedy (LPT) partition.** -/
theorem cg_first_solution_at {v : α → Nat} {cfg : CgCfg} {k : Nat} {items : List α} {fuel : Nat} (hk : 0 < k)
    (hcfg : cfg.useH3 = false ∨ cfg.obj ≠ .minLargest) :
    ∃ b, cg v cfg k items (some (items.length + 1)) fuel = .ok (some b) ∧
      b.sums.Perm (greedy v k items).sums := by
  obtain ⟨b, hb, hp⟩ := (cgRun_first_solution v hk hcfg (sortDesc v items)
    (cfg.obj.lowerBound (List.replicate k 0) (remFrom v (sortDesc v items) 0) true)).2
  rw [CGValid.sortDesc_length] at hb
  refine ⟨b, ?_, hp⟩
  simp only [cg, hb]

/-- **C11, complete greedy's first solution is the greedy (LPT) one.**  If `c` is the least time limit under
    which a solution `b` is returned, then `b` has the bin sums of `greedy`, up to the order of the bins
    (heuristic 3 off, or an objective other than min-largest). -/
theorem cg_first_solution_lpt {v : α → Nat} {cfg : CgCfg} {k : Nat} {items : List α} {fuel : Nat} (hk : 0 < k)
    (hcfg : cfg.useH3 = false ∨ cfg.obj ≠ .minLargest) {c : Nat} {b : Bins α}
    (hb : cg v cfg k items (some c) fuel = .ok (some b))
    (hleast : ∀ c' < c, cg v cfg k items (some c') fuel = .ok none) :
    c = items.length + 1 ∧ b.sums.Perm (greedy v k items).sums := by
  obtain ⟨b', hb', hp⟩ := cg_first_solution_at (v := v) (cfg := cfg) (items := items) (fuel := fuel) hk hcfg
  have h1 : items.length < c := by
    apply Nat.lt_of_not_le
    intro hc
    rw [cg_no_solution_before hk hcfg hc] at hb
    cases hb
  have h2 : ¬ items.length + 1 < c := by
    intro hc
    rw [hleast _ hc] at hb'
    cases hb'
  have hc : c = items.length + 1 := by omega
  subst hc
  rw [hb] at hb'
  cases hb'
  exact ⟨rfl, hp⟩

/-- hence the first solution is an LPT solution in the sense of `Textbook.lpt_runs_same_sums`: it has the sums
    of every LPT run, whatever the tie-breaking -/
theorem cg_first_solution_lpt_run {v : α → Nat} {cfg : CgCfg} {k : Nat} {items : List α} {fuel : Nat} (hk : 0 < k)
    (hcfg : cfg.useH3 = false ∨ cfg.obj ≠ .minLargest) {c : Nat} {b b' : Bins α}
    (hb : cg v cfg k items (some c) fuel = .ok (some b))
    (hleast : ∀ c' < c, cg v cfg k items (some c') fuel = .ok none)
    (hrun : Textbook.IsLPTRun v k items b') : b.sums.Perm b'.sums :=
  (cg_first_solution_lpt hk hcfg hb hleast).2.trans
    (Textbook.lpt_runs_same_sums (Textbook.greedy_is_lpt_run hk) hrun)

/-- **C11, every configuration (heuristic 3 with min-largest included).**  If `c` is the least time limit under
    which complete greedy returns a solution `b`, then `c ≤ n + 1` and the largest sum of `b` is the largest sum
    of the greedy (LPT) partition.  (With heuristic 3 the other sums may differ from greedy's, see the example
    below.) -/
theorem cg_first_solution_h3 {v : α → Nat} {cfg : CgCfg} {k : Nat} {items : List α} {fuel : Nat} (hk : 0 < k)
    {c : Nat} {b : Bins α} (hb : cg v cfg k items (some c) fuel = .ok (some b))
    (hleast : ∀ c' < c, cg v cfg k items (some c') fuel = .ok none) :
    c ≤ items.length + 1 ∧ maxL b.sums = maxL (greedy v k items).sums := by
  obtain ⟨c0, hc0, hnone, b0, hb0, hmax⟩ := cgRun_first_solution_gen v (cfg := cfg) hk (sortDesc v items)
    (cfg.obj.lowerBound (List.replicate k 0) (remFrom v (sortDesc v items) 0) true)
  rw [CGValid.sortDesc_length] at hc0
  simp only [cg, Except.ok.injEq] at hb hleast
  have h1 : ¬ c < c0 := by
    intro h; rw [hnone c h] at hb; cases hb
  have h2 : ¬ c0 < c := by
    intro h; rw [hleast c0 h] at hb0; cases hb0
  have : c = c0 := by omega
  subst this
  rw [hb] at hb0
  cases hb0
  exact ⟨hc0, hmax⟩

/-- a first solution always exists within `n + 1` iterations, in every configuration -/
theorem cg_first_solution_exists {v : α → Nat} {cfg : CgCfg} {k : Nat} {items : List α} {fuel : Nat} (hk : 0 < k) :
    ∃ c b, c ≤ items.length + 1 ∧ cg v cfg k items (some c) fuel = .ok (some b) ∧
      (∀ c' < c, cg v cfg k items (some c') fuel = .ok none) ∧
      maxL b.sums = maxL (greedy v k items).sums := by
  obtain ⟨c0, hc0, hnone, b0, hb0, hmax⟩ := cgRun_first_solution_gen v (cfg := cfg) hk (sortDesc v items)
    (cfg.obj.lowerBound (List.replicate k 0) (remFrom v (sortDesc v items) 0) true)
  rw [CGValid.sortDesc_length] at hc0
  refine ⟨c0, b0, hc0, ?_, ?_, hmax⟩
  · simp only [cg, hb0]
  · intro c' hc'; simp only [cg, hnone c' hc']

/-! non-vacuity: three bins, `[4, 5, 6, 7, 8]`, all prunes and the seen-set on, heuristic 3 off: no solution up to
    the limit 5, the LPT partition `{8}, {7, 4}, {6, 5}` at the limit 6 -/
example : (⟨[8, 11, 11], [[8], [7, 4], [6, 5]]⟩ : Bins Nat).sums.Perm (greedy id 3 [4, 5, 6, 7, 8]).sums :=
  (cg_first_solution_lpt (v := id) (cfg := ⟨.minLargest, true, true, false, true⟩) (k := 3)
    (items := [4, 5, 6, 7, 8]) (fuel := 0) (c := 6) (by decide) (Or.inl rfl) (by rfl)
    (by
      intro c' hc'
      have : c' = 0 ∨ c' = 1 ∨ c' = 2 ∨ c' = 3 ∨ c' = 4 ∨ c' = 5 := by omega
      rcases this with rfl | rfl | rfl | rfl | rfl | rfl <;> rfl)).2
example : (greedy id 3 [4, 5, 6, 7, 8]).sums = [8, 11, 11] := by decide
/-- heuristic 3 on, but another objective -/
example : ∃ b, cg id ⟨.maxSmallest, true, true, true, true⟩ 3 [4, 5, 6, 7, 8] (some 6) 0 = .ok (some b) ∧
    b.sums.Perm (greedy id 3 [4, 5, 6, 7, 8]).sums :=
  cg_first_solution_at (by decide) (Or.inr (by decide))
/-- items of value 0 and the seen-set: the first leaf puts the zeros into the *fullest* bin (all children of a
    zero item have the same key, only the first one pushed survives), greedy into an empty one; the sums agree -/
example : cg id ⟨.minLargest, true, true, false, true⟩ 3 [0, 5, 0, 7, 0] (some 6) 0
    = .ok (some ⟨[0, 5, 7], [[], [5], [7, 0, 0, 0]]⟩) := by rfl
example : (greedy id 3 [0, 5, 0, 7, 0]).lists = [[7], [5], [0, 0, 0]] := by decide
/-- with heuristic 3 and min-largest the hypothesis of `cg_first_solution_lpt` is needed: on `[10, 4, 3, 2, 2]`
    the first solution comes at the limit 4 (not 6), with sums `[4, 7, 10]`; greedy has `[10, 6, 5]`; only the
    largest sum agrees, as `cg_first_solution_h3` says -/
example : cg id ⟨.minLargest, true, true, true, true⟩ 3 [10, 4, 3, 2, 2] (some 4) 0
    = .ok (some ⟨[4, 7, 10], [[4], [3, 2, 2], [10]]⟩) := by rfl
example : cg id ⟨.minLargest, true, true, true, true⟩ 3 [10, 4, 3, 2, 2] (some 3) 0 = .ok none := by rfl
example : (greedy id 3 [10, 4, 3, 2, 2]).sums = [10, 6, 5] := by decide
example : maxL (⟨[4, 7, 10], [[4], [3, 2, 2], [10]]⟩ : Bins Nat).sums = maxL (greedy id 3 [10, 4, 3, 2, 2]).sums :=
  (cg_first_solution_h3 (v := id) (cfg := ⟨.minLargest, true, true, true, true⟩) (k := 3)
    (items := [10, 4, 3, 2, 2]) (fuel := 0) (c := 4) (by decide) (by rfl)
    (by
      intro c' hc'
      have : c' = 0 ∨ c' = 1 ∨ c' = 2 ∨ c' = 3 := by omega
      rcases this with rfl | rfl | rfl | rfl <;> rfl)).2

end Prtpy.Anytime2

/-
Axiom audit (`#print axioms`, observed with Lean 4.33.0): every one of

#print axioms Prtpy.Anytime2.cbldm_cut_monotone
#print axioms Prtpy.Anytime2.cbldm_cut_monotone_val
#print axioms Prtpy.Anytime2.cbldm_cut_monotone_le
#print axioms Prtpy.Anytime2.cbldm_cut_eventually
#print axioms Prtpy.Anytime2.cbldm_cut_le_unlimited
#print axioms Prtpy.Anytime2.cbldm_cut_safe
#print axioms Prtpy.Anytime2.cgRun_first_solution
#print axioms Prtpy.Anytime2.cgRun_first_solution_gen
#print axioms Prtpy.Anytime2.cg_no_solution_before
#print axioms Prtpy.Anytime2.cg_first_solution_at
#print axioms Prtpy.Anytime2.cg_first_solution_lpt
#print axioms Prtpy.Anytime2.cg_first_solution_lpt_run
#print axioms Prtpy.Anytime2.cg_first_solution_h3
#print axioms Prtpy.Anytime2.cg_first_solution_exists

answers: '<name>' depends on axioms: [propext, Classical.choice, Quot.sound]
-/
