/-
  PrtpyProofs.Part — validity (C01) and gap bounds (C08) of the partitioning heuristics
  greedy, roundrobin, kk and multifit.
-/
import Prtpy
open Prtpy

namespace Prtpy.Part

variable {α : Type}

/-! ## Sorting -/

theorem insertDesc_perm (key : α → Nat) (x : α) (l : List α) : (insertDesc key x l).Perm (x :: l) := by
  induction l with
  | nil => exact List.Perm.refl _
  | cons y ys ih =>
    simp only [insertDesc]
    split
    · exact List.Perm.refl _
    · exact (List.Perm.cons y ih).trans (List.Perm.swap x y ys)

theorem sortDesc_perm (key : α → Nat) (l : List α) : (sortDesc key l).Perm l := by
  induction l with
  | nil => exact List.Perm.refl _
  | cons x xs ih =>
    simp only [sortDesc]
    exact (insertDesc_perm key x _).trans (List.Perm.cons x ih)

theorem insertDesc_sorted (key : α → Nat) (x : α) (l : List α)
    (h : l.Pairwise (fun a b => key b ≤ key a)) :
    (insertDesc key x l).Pairwise (fun a b => key b ≤ key a) := by
  induction l with
  | nil => simp [insertDesc]
  | cons y ys ih =>
    simp only [insertDesc]
    rw [List.pairwise_cons] at h
    split
    · rename_i hyx
      refine List.pairwise_cons.2 ⟨?_, List.pairwise_cons.2 h⟩
      intro a ha
      rcases List.mem_cons.1 ha with rfl | ha
      · exact hyx
      · exact Nat.le_trans (h.1 a ha) hyx
    · rename_i hyx
      refine List.pairwise_cons.2 ⟨?_, ih h.2⟩
      intro a ha
      rcases List.mem_cons.1 ((insertDesc_perm key x ys).mem_iff.1 ha) with rfl | ha
      · omega
      · exact h.1 a ha

theorem sortDesc_sorted (key : α → Nat) (l : List α) :
    (sortDesc key l).Pairwise (fun a b => key b ≤ key a) := by
  induction l with
  | nil => simp [sortDesc]
  | cons x xs ih => exact insertDesc_sorted key x _ ih

theorem sortDesc_length (key : α → Nat) (l : List α) : (sortDesc key l).length = l.length :=
  (sortDesc_perm key l).length_eq

theorem insertAsc_perm (key : α → Nat) (x : α) (l : List α) : (insertAsc key x l).Perm (x :: l) := by
  induction l with
  | nil => exact List.Perm.refl _
  | cons y ys ih =>
    simp only [insertAsc]
    split
    · exact List.Perm.refl _
    · exact (List.Perm.cons y ih).trans (List.Perm.swap x y ys)

theorem sortAsc_perm (key : α → Nat) (l : List α) : (sortAsc key l).Perm l := by
  induction l with
  | nil => exact List.Perm.refl _
  | cons x xs ih =>
    simp only [sortAsc]
    exact (insertAsc_perm key x _).trans (List.Perm.cons x ih)

theorem insertAsc_sorted (key : α → Nat) (x : α) (l : List α)
    (h : l.Pairwise (fun a b => key a ≤ key b)) :
    (insertAsc key x l).Pairwise (fun a b => key a ≤ key b) := by
  induction l with
  | nil => simp [insertAsc]
  | cons y ys ih =>
    simp only [insertAsc]
    rw [List.pairwise_cons] at h
    split
    · rename_i hxy
      refine List.pairwise_cons.2 ⟨?_, List.pairwise_cons.2 h⟩
      intro a ha
      rcases List.mem_cons.1 ha with rfl | ha
      · exact hxy
      · exact Nat.le_trans hxy (h.1 a ha)
    · rename_i hxy
      refine List.pairwise_cons.2 ⟨?_, ih h.2⟩
      intro a ha
      rcases List.mem_cons.1 ((insertAsc_perm key x ys).mem_iff.1 ha) with rfl | ha
      · omega
      · exact h.1 a ha

theorem sortAsc_sorted (key : α → Nat) (l : List α) :
    (sortAsc key l).Pairwise (fun a b => key a ≤ key b) := by
  induction l with
  | nil => simp [sortAsc]
  | cons x xs ih => exact insertAsc_sorted key x _ ih

/-! ## `sumL`, `binSum`, `maxL`, `minL` -/

theorem sumL_append (l₁ l₂ : List Nat) : sumL (l₁ ++ l₂) = sumL l₁ + sumL l₂ := by
  induction l₁ with
  | nil => simp [sumL]
  | cons x xs ih => simp only [List.cons_append, sumL, ih]; omega

theorem sumL_perm {l₁ l₂ : List Nat} (h : l₁.Perm l₂) : sumL l₁ = sumL l₂ := by
  induction h with
  | nil => rfl
  | cons x _ ih => simp only [sumL, ih]
  | swap x y l => simp only [sumL]; omega
  | trans _ _ ih₁ ih₂ => exact ih₁.trans ih₂

theorem binSum_nil (v : α → Nat) : binSum v [] = 0 := rfl

theorem binSum_cons (v : α → Nat) (x : α) (l : List α) : binSum v (x :: l) = v x + binSum v l := rfl

theorem binSum_append (v : α → Nat) (l₁ l₂ : List α) :
    binSum v (l₁ ++ l₂) = binSum v l₁ + binSum v l₂ := by
  simp only [binSum, List.map_append, sumL_append]

theorem binSum_perm (v : α → Nat) {l₁ l₂ : List α} (h : l₁.Perm l₂) : binSum v l₁ = binSum v l₂ :=
  sumL_perm (h.map v)

theorem sumL_map_binSum (v : α → Nat) (ls : List (List α)) :
    sumL (ls.map (binSum v)) = binSum v ls.flatten := by
  induction ls with
  | nil => rfl
  | cons l ls ih => simp only [List.map_cons, sumL, List.flatten_cons, binSum_append, ih]

theorem le_maxL {l : List Nat} {a : Nat} (h : a ∈ l) : a ≤ maxL l := by
  induction l with
  | nil => cases h
  | cons x xs ih =>
    simp only [maxL]
    rcases List.mem_cons.1 h with rfl | h
    · omega
    · have := ih h; omega

theorem maxL_le {l : List Nat} {m : Nat} (h : ∀ a ∈ l, a ≤ m) : maxL l ≤ m := by
  induction l with
  | nil => simp [maxL]
  | cons x xs ih =>
    simp only [maxL]
    have h1 := h x (List.mem_cons_self ..)
    have h2 := ih (fun a ha => h a (List.mem_cons_of_mem _ ha))
    omega

theorem maxL_mem {l : List Nat} (h : l ≠ []) : maxL l ∈ l := by
  induction l with
  | nil => exact absurd rfl h
  | cons x xs ih =>
    simp only [maxL]
    by_cases hxs : xs = []
    · subst hxs; simp [maxL]
    · have := ih hxs
      by_cases hx : maxL xs ≤ x
      · rw [Nat.max_eq_left hx]; exact List.mem_cons_self ..
      · rw [Nat.max_eq_right (by omega)]; exact List.mem_cons_of_mem _ this

theorem minL_cons_cons (x y : Nat) (ys : List Nat) : minL (x :: y :: ys) = min x (minL (y :: ys)) := rfl

theorem minL_le {l : List Nat} {a : Nat} (h : a ∈ l) : minL l ≤ a := by
  induction l with
  | nil => cases h
  | cons x xs ih =>
    cases xs with
    | nil =>
      rcases List.mem_cons.1 h with rfl | h
      · exact Nat.le_refl _
      · cases h
    | cons y ys =>
      rw [minL_cons_cons]
      rcases List.mem_cons.1 h with rfl | h
      · omega
      · have := ih h; omega

theorem minL_mem {l : List Nat} (h : l ≠ []) : minL l ∈ l := by
  induction l with
  | nil => exact absurd rfl h
  | cons x xs ih =>
    cases xs with
    | nil => simp [minL]
    | cons y ys =>
      rw [minL_cons_cons]
      have := ih (by simp)
      by_cases hx : x ≤ minL (y :: ys)
      · rw [Nat.min_eq_left hx]; exact List.mem_cons_self ..
      · rw [Nat.min_eq_right (by omega)]; exact List.mem_cons_of_mem _ this

theorem le_minL {l : List Nat} {m : Nat} (hne : l ≠ []) (h : ∀ a ∈ l, m ≤ a) : m ≤ minL l :=
  h _ (minL_mem hne)

/-- the gap `max − min` is at most `M` iff any two entries differ by at most `M` -/
theorem gap_le_iff (l : List Nat) (M : Nat) :
    maxL l - minL l ≤ M ↔ ∀ a ∈ l, ∀ b ∈ l, a ≤ b + M := by
  by_cases hne : l = []
  · subst hne; simp [maxL, minL]
  · constructor
    · intro h a ha b hb
      have := le_maxL ha; have := minL_le hb; omega
    · intro h
      have := h _ (maxL_mem hne) _ (minL_mem hne); omega

theorem argmin_lt {l : List Nat} (h : l ≠ []) : argmin l < l.length :=
  List.idxOf_lt_length_of_mem (minL_mem h)

theorem getElem_argmin {l : List Nat} (h : argmin l < l.length) : l[argmin l] = minL l :=
  List.getElem_idxOf h

/-! ## `List.modify` helpers -/

theorem flatten_modify_append_perm (ls : List (List α)) (i : Nat) (x : α) (hi : i < ls.length) :
    (ls.modify i (· ++ [x])).flatten.Perm (x :: ls.flatten) := by
  induction ls generalizing i with
  | nil => simp at hi
  | cons l ls ih =>
    cases i with
    | zero =>
      simp only [List.modify_cons, if_true, List.flatten_cons, List.append_assoc]
      exact List.perm_middle
    | succ i =>
      simp only [List.modify_cons, Nat.add_one_ne_zero, if_false, Nat.add_sub_cancel,
        List.flatten_cons]
      have := ih i (by simpa using hi)
      exact (List.Perm.append_left l this).trans List.perm_middle

theorem map_binSum_modify (v : α → Nat) (ls : List (List α)) (i : Nat) (x : α) :
    (ls.modify i (· ++ [x])).map (binSum v) = (ls.map (binSum v)).modify i (· + v x) := by
  induction ls generalizing i with
  | nil => simp
  | cons l ls ih =>
    cases i with
    | zero => simp [List.modify_cons, binSum_append, binSum_cons, binSum_nil]
    | succ i => simp [ih]

theorem mem_modify {β : Type} {l : List β} {i : Nat} {f : β → β} {a : β} (h : a ∈ l.modify i f) :
    a ∈ l ∨ ∃ hi : i < l.length, a = f l[i] := by
  obtain ⟨j, hj, rfl⟩ := List.mem_iff_getElem.1 h
  rw [List.getElem_modify]
  have hj' : j < l.length := by simpa using hj
  split
  · rename_i hij; subst hij; exact Or.inr ⟨hj', rfl⟩
  · exact Or.inl (List.getElem_mem hj')

theorem modify_length_append {β : Type} (l : List β) (a : β) (f : β → β) :
    (l ++ [a]).modify l.length f = l ++ [f a] := by
  induction l with
  | nil => simp
  | cons x xs ih => simp [ih]

/-! ## `Bins.add` -/

section BinsAdd
variable (v : α → Nat)

@[simp] theorem add_sums (b : Bins α) (x : α) (i : Nat) :
    (b.add v x i).sums = b.sums.modify i (· + v x) := rfl

@[simp] theorem add_lists (b : Bins α) (x : α) (i : Nat) :
    (b.add v x i).lists = b.lists.modify i (· ++ [x]) := rfl

theorem add_sums_length (b : Bins α) (x : α) (i : Nat) :
    (b.add v x i).sums.length = b.sums.length := by simp

theorem add_lists_length (b : Bins α) (x : α) (i : Nat) :
    (b.add v x i).lists.length = b.lists.length := by simp

theorem add_flat_perm (b : Bins α) (x : α) (i : Nat) (hi : i < b.lists.length) :
    (b.add v x i).lists.flatten.Perm (x :: b.lists.flatten) :=
  flatten_modify_append_perm b.lists i x hi

theorem add_consistent (b : Bins α) (x : α) (i : Nat) (h : b.Consistent v) :
    (b.add v x i).Consistent v := by
  unfold Bins.Consistent at *
  simp only [add_sums, add_lists, map_binSum_modify, h]

theorem consistent_length {b : Bins α} (h : b.Consistent v) : b.sums.length = b.lists.length := by
  unfold Bins.Consistent at h; rw [h]; simp

theorem new_consistent (k : Nat) : (Bins.new k : Bins α).Consistent v := by
  simp [Bins.Consistent, Bins.new, binSum_nil]

theorem new_flat (k : Nat) : (Bins.new k : Bins α).lists.flatten = [] := by
  simp [Bins.new]

@[simp] theorem new_lists_length (k : Nat) : (Bins.new k : Bins α).lists.length = k := by
  simp [Bins.new]

@[simp] theorem new_sums_length (k : Nat) : (Bins.new k : Bins α).sums.length = k := by
  simp [Bins.new]

end BinsAdd

/-! ## `Bins.sortAsc` -/

section BinsSort
variable (v : α → Nat)

theorem sortAsc_sums_perm (b : Bins α) (h : b.sums.length = b.lists.length) :
    b.sortAsc.sums.Perm b.sums := by
  have := (sortAsc_perm (fun p : Nat × List α => p.1) (b.sums.zip b.lists)).map Prod.fst
  rw [List.map_fst_zip (by omega)] at this
  exact this

theorem sortAsc_lists_perm (b : Bins α) (h : b.sums.length = b.lists.length) :
    b.sortAsc.lists.Perm b.lists := by
  have := (sortAsc_perm (fun p : Nat × List α => p.1) (b.sums.zip b.lists)).map Prod.snd
  rw [List.map_snd_zip (by omega)] at this
  exact this

theorem sortAsc_flat_perm (b : Bins α) (h : b.sums.length = b.lists.length) :
    b.sortAsc.lists.flatten.Perm b.lists.flatten :=
  (sortAsc_lists_perm b h).flatten

theorem sortAsc_lists_length (b : Bins α) (h : b.sums.length = b.lists.length) :
    b.sortAsc.lists.length = b.lists.length :=
  (sortAsc_lists_perm b h).length_eq

theorem sortAsc_sums_sorted (b : Bins α) : b.sortAsc.sums.Pairwise (· ≤ ·) := by
  have := sortAsc_sorted (fun p : Nat × List α => p.1) (b.sums.zip b.lists)
  simp only [Bins.sortAsc]
  exact List.pairwise_map.2 this

theorem sortAsc_consistent (b : Bins α) (h : b.Consistent v) : b.sortAsc.Consistent v := by
  unfold Bins.Consistent at *
  simp only [Bins.sortAsc, List.map_map]
  apply List.map_congr_left
  intro p hp
  have hp' := (sortAsc_perm (fun p : Nat × List α => p.1) (b.sums.zip b.lists)).mem_iff.1 hp
  rw [h, List.zip_map_left, List.mem_map] at hp'
  obtain ⟨⟨q1, q2⟩, hq, rfl⟩ := hp'
  have := List.of_mem_zip hq
  simp only [Prod.map, id, Function.comp]
  obtain ⟨j, hj, hje⟩ := List.mem_iff_getElem.1 hq
  simp only [List.getElem_zip, Prod.mk.injEq] at hje
  rw [← hje.1, ← hje.2]

end BinsSort

/-! ## C01 for greedy -/

section Greedy
variable (v : α → Nat)

/-- the validity invariant of the fold-shaped algorithms -/
def Valid (k : Nat) (b : Bins α) (done : List α) : Prop :=
  b.lists.flatten.Perm done ∧ b.lists.length = k ∧ b.Consistent v

theorem valid_new (k : Nat) : Valid v k (Bins.new k : Bins α) [] :=
  ⟨by rw [new_flat], new_lists_length k, new_consistent v k⟩

theorem valid_add {k : Nat} {b : Bins α} {done : List α} (h : Valid v k b done) (x : α) (i : Nat)
    (hi : i < k) : Valid v k (b.add v x i) (done ++ [x]) := by
  obtain ⟨h1, h2, h3⟩ := h
  refine ⟨?_, by rw [add_lists_length, h2], add_consistent v b x i h3⟩
  refine (add_flat_perm v b x i (by omega)).trans ?_
  exact (List.Perm.cons x h1).trans (List.perm_append_singleton x done).symm

theorem valid_isPartition {k : Nat} {b : Bins α} {done items : List α} (h : Valid v k b done)
    (hp : done.Perm items) : IsPartition v items k b :=
  ⟨h.1.trans hp, h.2.1, h.2.2⟩

theorem greedy_fold_valid {k : Nat} (hk : 0 < k) (xs : List α) (b : Bins α) (done : List α)
    (h : Valid v k b done) : Valid v k (xs.foldl (greedyStep v) b) (done ++ xs) := by
  induction xs generalizing b done with
  | nil => simpa using h
  | cons x xs ih =>
    simp only [List.foldl_cons]
    have hlen : b.sums.length = k := by rw [consistent_length v h.2.2, h.2.1]
    have hne : b.sums ≠ [] := by intro h0; rw [h0] at hlen; simp at hlen; omega
    have := ih (greedyStep v b x) (done ++ [x])
      (valid_add v h x (argmin b.sums) (by have := argmin_lt hne; omega))
    simpa using this

theorem greedy_isPartition {v : α → Nat} {k : Nat} {items : List α} (hk : 0 < k) :
    IsPartition v items k (greedy v k items) := by
  have := greedy_fold_valid v hk (sortDesc v items) (Bins.new k) [] (valid_new v k)
  exact valid_isPartition v this (by simpa using sortDesc_perm v items)

example : IsPartition id [4, 5, 6, 7, 8] 2 (greedy id 2 [4, 5, 6, 7, 8]) :=
  greedy_isPartition (v := id) (k := 2) (items := [4, 5, 6, 7, 8]) (by decide)

end Greedy

/-! ## C01 for roundrobin -/

section RoundRobin
variable (v : α → Nat)

theorem rrLoop_valid {k : Nat} (xs : List α) (b : Bins α) (i : Nat) (done : List α)
    (hi : i < k) (h : Valid v k b done) : Valid v k (rrLoop v k b i xs) (done ++ xs) := by
  induction xs generalizing b i done with
  | nil => simpa [rrLoop] using h
  | cons x xs ih =>
    simp only [rrLoop]
    have := ih (b.add v x i) ((i + 1) % k) (done ++ [x]) (Nat.mod_lt _ (by omega))
      (valid_add v h x i hi)
    simpa using this

theorem roundrobin_isPartition {v : α → Nat} {k : Nat} {items : List α} (hk : 0 < k) :
    IsPartition v items k (roundrobin v k items) := by
  have := rrLoop_valid v (sortDesc v items) (Bins.new k) 0 [] hk (valid_new v k)
  exact valid_isPartition v this (by simpa using sortDesc_perm v items)

example : IsPartition id [4, 5, 6, 7, 8] 3 (roundrobin id 3 [4, 5, 6, 7, 8]) :=
  roundrobin_isPartition (v := id) (k := 3) (items := [4, 5, 6, 7, 8]) (by decide)

end RoundRobin

/-! ## The heap of Karmarkar–Karp -/

section Heap

theorem removeAt_perm (h : List α) (i : Nat) (hi : i < h.length) :
    h.Perm (h[i] :: removeAt h i) := by
  have h1 : h = h.take i ++ (h[i] :: h.drop (i + 1)) := by
    rw [← List.drop_eq_getElem_cons hi, List.take_append_drop]
  unfold removeAt
  exact (List.Perm.of_eq h1).trans List.perm_middle

theorem hbestAux_lt (es : List (HEntry α)) (i bi : Nat) (be : HEntry α) (h : bi < i) :
    hbestAux es i bi be < i + es.length := by
  induction es generalizing i bi be with
  | nil => simpa [hbestAux] using h
  | cons e es ih =>
    simp only [hbestAux, List.length_cons]
    split
    · have := ih (i + 1) i e (by omega); omega
    · have := ih (i + 1) bi be (by omega); omega

theorem hbest_some (h : Heap α) (hne : h ≠ []) :
    ∃ i, ∃ hi : i < h.length, hbest h = some (i, h[i]) := by
  cases h with
  | nil => exact absurd rfl hne
  | cons e es =>
    have hlt := hbestAux_lt es 1 0 e (by omega)
    refine ⟨hbestAux es 1 0 e, by simp only [List.length_cons]; omega, ?_⟩
    simp only [hbest]
    rw [List.getElem?_eq_getElem (by simp only [List.length_cons]; omega)]
    rfl

theorem hpop_some (h : Heap α) (hne : h ≠ []) :
    ∃ e h', hpop h = some (e, h') ∧ h.Perm (e :: h') := by
  obtain ⟨i, hi, hb⟩ := hbest_some h hne
  exact ⟨h[i], removeAt h i, by simp [hpop, hb], removeAt_perm h i hi⟩

theorem hpop_perm {h h' : Heap α} {e : HEntry α} (hp : hpop h = some (e, h')) : h.Perm (e :: h') := by
  have hne : h ≠ [] := by rintro rfl; simp [hpop, hbest] at hp
  obtain ⟨e0, h0, h1, h2⟩ := hpop_some h hne
  rw [h1] at hp
  cases hp
  exact h2

theorem hpop_none {h : Heap α} (hp : hpop h = none) : h = [] := by
  by_cases hne : h = []
  · exact hne
  · obtain ⟨e0, h0, h1, _⟩ := hpop_some h hne
    rw [h1] at hp; cases hp

theorem htop_singleton (e : HEntry α) : htop [e] = some e := rfl

end Heap

/-! ## `kkCombine` -/

section Combine

theorem zipWith_append_flatten_perm (l₁ l₂ : List (List α)) (h : l₁.length = l₂.length) :
    (List.zipWith (· ++ ·) l₁ l₂).flatten.Perm (l₁.flatten ++ l₂.flatten) := by
  induction l₁ generalizing l₂ with
  | nil =>
    cases l₂ with
    | nil => simp
    | cons b bs => simp at h
  | cons a as ih =>
    cases l₂ with
    | nil => simp at h
    | cons b bs =>
      simp only [List.zipWith_cons_cons, List.flatten_cons, List.append_assoc]
      have := ih bs (by simpa using h)
      refine List.Perm.append_left a ?_
      exact (List.Perm.append_left b this).trans (List.perm_append_comm_assoc _ _ _)

theorem zipWith_map_binSum (v : α → Nat) (l₁ l₂ : List (List α)) :
    List.zipWith (· + ·) (l₁.map (binSum v)) (l₂.map (binSum v)) =
      (List.zipWith (· ++ ·) l₁ l₂).map (binSum v) := by
  induction l₁ generalizing l₂ with
  | nil => simp
  | cons a as ih =>
    cases l₂ with
    | nil => simp
    | cons b bs => simp [ih, binSum_append]

theorem kkCombine_lists_length (b₁ b₂ : Bins α) (k : Nat) (h₁ : b₁.lists.length = k)
    (h₂ : b₂.lists.length = k) : (kkCombine b₁ b₂).lists.length = k := by
  simp [kkCombine, h₁, h₂]

theorem kkCombine_consistent (v : α → Nat) (b₁ b₂ : Bins α) (h₁ : b₁.Consistent v)
    (h₂ : b₂.Consistent v) : (kkCombine b₁ b₂).Consistent v := by
  unfold Bins.Consistent at *
  simp only [kkCombine]
  rw [h₁, h₂, ← List.map_reverse, zipWith_map_binSum]

theorem kkCombine_flat_perm (b₁ b₂ : Bins α) (h : b₁.lists.length = b₂.lists.length) :
    (kkCombine b₁ b₂).lists.flatten.Perm (b₁.lists.flatten ++ b₂.lists.flatten) := by
  simp only [kkCombine]
  refine (zipWith_append_flatten_perm _ _ (by simpa using h)).trans ?_
  exact List.Perm.append_left _ (List.reverse_perm _).flatten

/-- adding a non-decreasing tuple to a non-increasing tuple, position by position, does not increase the
    spread beyond the larger of the two spreads -/
theorem zipWith_add_gap (M : Nat) (a d : List Nat) (ha : a.Pairwise (· ≤ ·)) (hd : d.Pairwise (· ≥ ·))
    (ga : ∀ x ∈ a, ∀ y ∈ a, x ≤ y + M) (gd : ∀ x ∈ d, ∀ y ∈ d, x ≤ y + M) :
    (∀ p ∈ List.zipWith (· + ·) a d, ∃ x ∈ a, ∃ y ∈ d, p = x + y) ∧
    ∀ p ∈ List.zipWith (· + ·) a d, ∀ q ∈ List.zipWith (· + ·) a d, p ≤ q + M := by
  induction a generalizing d with
  | nil => simp
  | cons x as ih =>
    cases d with
    | nil => simp
    | cons y ds =>
      rw [List.pairwise_cons] at ha hd
      obtain ⟨ih1, ih2⟩ := ih ds ha.2 hd.2
        (fun p hp q hq => ga p (List.mem_cons_of_mem _ hp) q (List.mem_cons_of_mem _ hq))
        (fun p hp q hq => gd p (List.mem_cons_of_mem _ hp) q (List.mem_cons_of_mem _ hq))
      simp only [List.zipWith_cons_cons]
      constructor
      · intro p hp
        rcases List.mem_cons.1 hp with rfl | hp
        · exact ⟨x, List.mem_cons_self .., y, List.mem_cons_self .., rfl⟩
        · obtain ⟨x', hx', y', hy', rfl⟩ := ih1 p hp
          exact ⟨x', List.mem_cons_of_mem _ hx', y', List.mem_cons_of_mem _ hy', rfl⟩
      · intro p hp q hq
        rcases List.mem_cons.1 hp with rfl | hp <;> rcases List.mem_cons.1 hq with rfl | hq
        · omega
        · obtain ⟨x', hx', y', hy', rfl⟩ := ih1 q hq
          have := ha.1 x' hx'
          have := gd y (List.mem_cons_self ..) y' (List.mem_cons_of_mem _ hy')
          omega
        · obtain ⟨x', hx', y', hy', rfl⟩ := ih1 p hp
          have := hd.1 y' hy'
          have := ga x' (List.mem_cons_of_mem _ hx') x (List.mem_cons_self ..)
          omega
        · exact ih2 p hp q hq

end Combine

/-! ## C01 and C08 for kk -/

section KK
variable (v : α → Nat)

/-- what is known of a tuple before it is pushed -/
def PreInv (k M : Nat) (b : Bins α) : Prop :=
  b.lists.length = k ∧ b.Consistent v ∧ ∀ a ∈ b.sums, ∀ c ∈ b.sums, a ≤ c + M

/-- what is known of every tuple in the heap -/
def EntryInv (k M : Nat) (b : Bins α) : Prop :=
  PreInv v k M b ∧ b.sums.Pairwise (· ≤ ·)

def HeapInv (k M : Nat) (h : Heap α) (done : List α) : Prop :=
  (h.flatMap (fun e => e.bins.lists.flatten)).Perm done ∧ ∀ e ∈ h, EntryInv v k M e.bins

theorem sortAsc_entryInv {k M : Nat} {b : Bins α} (h : PreInv v k M b) : EntryInv v k M b.sortAsc := by
  obtain ⟨h1, h2, h3⟩ := h
  have hl := consistent_length v h2
  have hp := sortAsc_sums_perm b hl
  refine ⟨⟨by rw [sortAsc_lists_length b hl, h1], sortAsc_consistent v b h2, ?_⟩, sortAsc_sums_sorted b⟩
  intro a ha c hc
  exact h3 a (hp.mem_iff.1 ha) c (hp.mem_iff.1 hc)

theorem hpush_inv {k M : Nat} {h : Heap α} {done : List α} (c : Nat) {b : Bins α}
    (hh : HeapInv v k M h done) (hb : PreInv v k M b) :
    HeapInv v k M (hpush h c b).1 (done ++ b.lists.flatten) ∧ (hpush h c b).1.length = h.length + 1 := by
  have hl := consistent_length v hb.2.1
  refine ⟨⟨?_, ?_⟩, by simp [hpush]⟩
  · simp only [hpush, List.flatMap_append, List.flatMap_cons, List.flatMap_nil, List.append_nil]
    exact hh.1.append (sortAsc_flat_perm b hl)
  · intro e he
    simp only [hpush, List.mem_append, List.mem_singleton] at he
    rcases he with he | rfl
    · exact hh.2 e he
    · exact sortAsc_entryInv v hb

theorem single_preInv {k M : Nat} (hk : 0 < k) (x : α) (hx : v x ≤ M) :
    PreInv v k M (single v k x) ∧ (single v k x).lists.flatten.Perm [x] := by
  unfold single
  refine ⟨⟨by simp, add_consistent v _ x _ (new_consistent v k), ?_⟩, ?_⟩
  · have key : ∀ a ∈ ((Bins.new k : Bins α).add v x (k - 1)).sums, a = 0 ∨ a = v x := by
      intro a ha
      rcases mem_modify ha with h | ⟨hi, h⟩
      · exact Or.inl (List.mem_replicate.1 h).2
      · right; rw [h]; simp [Bins.new]
    intro a ha c hc
    rcases key a ha with rfl | rfl <;> rcases key c hc with rfl | rfl <;> omega
  · have := add_flat_perm v (Bins.new k : Bins α) x (k - 1) (by simp; omega)
    rwa [new_flat] at this

theorem pushAll_inv {k M : Nat} (hk : 0 < k) (xs : List α) (h : Heap α) (c : Nat) (done : List α)
    (hM : ∀ x ∈ xs, v x ≤ M) (hh : HeapInv v k M h done) :
    HeapInv v k M (pushAll v k xs h c).1 (done ++ xs) ∧
      (pushAll v k xs h c).1.length = h.length + xs.length := by
  induction xs generalizing h c done with
  | nil => simpa [pushAll] using hh
  | cons x xs ih =>
    simp only [pushAll]
    obtain ⟨hs1, hs2⟩ := single_preInv v (k := k) (M := M) hk x (hM x (List.mem_cons_self ..))
    obtain ⟨hp1, hp2⟩ := hpush_inv v c hh hs1
    have hp1' : HeapInv v k M (hpush h c (single v k x)).1 (done ++ [x]) :=
      ⟨hp1.1.trans (List.Perm.append_left done hs2), hp1.2⟩
    obtain ⟨i1, i2⟩ := ih _ (hpush h c (single v k x)).2 (done ++ [x])
      (fun y hy => hM y (List.mem_cons_of_mem _ hy)) hp1'
    refine ⟨by simpa using i1, ?_⟩
    rw [i2, hp2, List.length_cons]; omega

theorem kkCombine_preInv {k M : Nat} {b₁ b₂ : Bins α} (h₁ : EntryInv v k M b₁) (h₂ : EntryInv v k M b₂) :
    PreInv v k M (kkCombine b₁ b₂) := by
  obtain ⟨⟨l1, c1, g1⟩, s1⟩ := h₁
  obtain ⟨⟨l2, c2, g2⟩, s2⟩ := h₂
  refine ⟨kkCombine_lists_length b₁ b₂ k l1 l2, kkCombine_consistent v b₁ b₂ c1 c2, ?_⟩
  refine (zipWith_add_gap M b₁.sums b₂.sums.reverse s1 (List.pairwise_reverse.2 s2) g1 ?_).2
  intro x hx y hy
  exact g2 x (List.mem_reverse.1 hx) y (List.mem_reverse.1 hy)

theorem kkLoop_inv {k M : Nat} (n : Nat) (h : Heap α) (c : Nat) (done : List α)
    (hlen : h.length = n + 1) (hh : HeapInv v k M h done) :
    HeapInv v k M (kkLoop n h c) done ∧ (kkLoop n h c).length = 1 := by
  induction n generalizing h c with
  | zero => exact ⟨hh, hlen⟩
  | succ n ih =>
    have hne : h ≠ [] := by rintro rfl; simp at hlen
    obtain ⟨e1, h1, hp1, hperm1⟩ := hpop_some h hne
    have hlen1 : h1.length = n + 1 := by have := hperm1.length_eq; simp at this; omega
    have hne1 : h1 ≠ [] := by rintro rfl; simp at hlen1
    obtain ⟨e2, h2, hp2, hperm2⟩ := hpop_some h1 hne1
    have hlen2 : h2.length = n := by have := hperm2.length_eq; simp at this; omega
    simp only [kkLoop, hp1, hp2]
    have hperm : h.Perm (e1 :: e2 :: h2) := hperm1.trans (List.Perm.cons e1 hperm2)
    have he1 : EntryInv v k M e1.bins := hh.2 e1 (hperm.mem_iff.2 (by simp))
    have he2 : EntryInv v k M e2.bins := hh.2 e2 (hperm.mem_iff.2 (by simp))
    have hh2 : HeapInv v k M h2 (h2.flatMap (fun e => e.bins.lists.flatten)) :=
      ⟨List.Perm.refl _, fun e he => hh.2 e (hperm.mem_iff.2 (by simp [he]))⟩
    obtain ⟨q1, q2⟩ := hpush_inv v c hh2 (kkCombine_preInv v he1 he2)
    have q1' : HeapInv v k M (hpush h2 c (kkCombine e1.bins e2.bins)).1 done := by
      refine ⟨q1.1.trans ?_, q1.2⟩
      have hf := (hperm.flatMap_right (fun e => e.bins.lists.flatten)).symm.trans hh.1
      simp only [List.flatMap_cons] at hf
      refine (List.Perm.trans ?_ hf)
      refine (List.Perm.append_left _ (kkCombine_flat_perm e1.bins e2.bins
        (by rw [he1.1.1, he2.1.1]))).trans ?_
      exact List.perm_append_comm.trans (by rw [List.append_assoc])
    exact ih _ _ (by rw [q2, hlen2]) q1'

/-- C01 + C08 for `kk`, in one statement: for every bound `M` on the item values -/
theorem kk_spec {k M : Nat} (items : List α) (hk : 0 < k) (hne : items ≠ [])
    (hM : ∀ x ∈ items, v x ≤ M) :
    ∃ b, kk v k items = .ok b ∧ IsPartition v items k b ∧ b.sums.Pairwise (· ≤ ·) ∧
      maxL b.sums - minL b.sums ≤ M := by
  have hsp := sortDesc_perm v items
  have hM' : ∀ x ∈ sortDesc v items, v x ≤ M := fun x hx => hM x (hsp.mem_iff.1 hx)
  obtain ⟨p1, p2⟩ := pushAll_inv v hk (sortDesc v items) [] 0 [] hM'
    ⟨by simp, by simp⟩
  have hlen : (sortDesc v items).length = ((sortDesc v items).length - 1) + 1 := by
    have : items.length ≠ 0 := by simpa using hne
    rw [sortDesc_length]; omega
  obtain ⟨q1, q2⟩ := kkLoop_inv v ((sortDesc v items).length - 1) _
    (pushAll v k (sortDesc v items) [] 0).2 _ (by rw [p2]; simpa using hlen) p1
  simp only [kk]
  match hfin : kkLoop ((sortDesc v items).length - 1) (pushAll v k (sortDesc v items) [] 0).1
      (pushAll v k (sortDesc v items) [] 0).2, q2 with
  | [e], _ =>
    rw [hfin] at q1
    obtain ⟨⟨l, c, g⟩, s⟩ := q1.2 e (by simp)
    refine ⟨e.bins, by simp [htop_singleton], ⟨?_, l, c⟩, s, (gap_le_iff _ _).2 g⟩
    have := q1.1
    simp only [List.flatMap_cons, List.flatMap_nil, List.append_nil, List.nil_append] at this
    exact this.trans hsp

theorem kk_isPartition {v : α → Nat} {k : Nat} {items : List α} (hk : 0 < k) (hne : items ≠ []) :
    ∃ b, kk v k items = .ok b ∧ IsPartition v items k b := by
  obtain ⟨b, h1, h2, _⟩ := kk_spec v (M := maxL (items.map v)) items hk hne
    (fun x hx => le_maxL (List.mem_map_of_mem hx))
  exact ⟨b, h1, h2⟩

example : ∃ b, kk id 3 [4, 5, 6, 7, 8] = .ok b ∧ IsPartition id [4, 5, 6, 7, 8] 3 b :=
  kk_isPartition (v := id) (k := 3) (items := [4, 5, 6, 7, 8]) (by decide) (by decide)

end KK

/-! ## C08: gap bounds -/

section KKGap

theorem kk_gap {v : α → Nat} {k : Nat} {items : List α} (hk : 0 < k) (hne : items ≠ []) {b : Bins α}
    (h : kk v k items = .ok b) : maxL b.sums - minL b.sums ≤ maxL (items.map v) := by
  obtain ⟨b', h1, _, _, h4⟩ := kk_spec v (M := maxL (items.map v)) items hk hne
    (fun x hx => le_maxL (List.mem_map_of_mem hx))
  rw [h1] at h
  cases h
  exact h4

/-- `kk` returns its bins sorted by ascending sum -/
theorem kk_sorted {v : α → Nat} {k : Nat} {items : List α} (hk : 0 < k) (hne : items ≠ []) {b : Bins α}
    (h : kk v k items = .ok b) : b.sums.Pairwise (· ≤ ·) := by
  obtain ⟨b', h1, _, h3, _⟩ := kk_spec v (M := maxL (items.map v)) items hk hne
    (fun x hx => le_maxL (List.mem_map_of_mem hx))
  rw [h1] at h
  cases h
  exact h3

example : ∃ b, kk id 3 [4, 5, 6, 7, 8] = .ok b ∧ maxL b.sums - minL b.sums ≤ 8 :=
  ⟨_, rfl, kk_gap (v := id) (k := 3) (items := [4, 5, 6, 7, 8]) (by decide) (by decide) rfl⟩

end KKGap

section GreedyGap
variable (v : α → Nat)

/-- one-step invariant of greedy: adding `x ≤ M` to a bin of minimum sum keeps `max − min ≤ M` -/
theorem greedyStep_gap {M : Nat} (s : List Nat) (x : Nat) (hne : s ≠ []) (hx : x ≤ M)
    (g : ∀ a ∈ s, ∀ c ∈ s, a ≤ c + M) :
    ∀ a ∈ s.modify (argmin s) (· + x), ∀ c ∈ s.modify (argmin s) (· + x), a ≤ c + M := by
  have hmin := minL_mem hne
  intro a ha c hc
  rcases mem_modify ha with ha | ⟨hi, rfl⟩ <;> rcases mem_modify hc with hc | ⟨hi', rfl⟩
  · exact g a ha c hc
  · have := g a ha _ hmin
    rw [getElem_argmin hi']; omega
  · have := minL_le hc
    rw [getElem_argmin hi]; omega
  · omega

theorem greedy_fold_gap {M : Nat} (xs : List α) (b : Bins α) (hne : b.sums ≠ [])
    (hM : ∀ x ∈ xs, v x ≤ M) (g : ∀ a ∈ b.sums, ∀ c ∈ b.sums, a ≤ c + M) :
    ∀ a ∈ (xs.foldl (greedyStep v) b).sums, ∀ c ∈ (xs.foldl (greedyStep v) b).sums, a ≤ c + M := by
  induction xs generalizing b with
  | nil => simpa using g
  | cons x xs ih =>
    simp only [List.foldl_cons]
    apply ih
    · intro h0
      have := congrArg List.length h0
      simp only [greedyStep, add_sums, List.length_modify, List.length_nil] at this
      exact hne (List.length_eq_zero_iff.1 this)
    · exact fun y hy => hM y (List.mem_cons_of_mem _ hy)
    · exact greedyStep_gap b.sums (v x) hne (hM x (List.mem_cons_self ..)) g

theorem greedy_gap {v : α → Nat} {k : Nat} {items : List α} (hk : 0 < k) :
    maxL (greedy v k items).sums - minL (greedy v k items).sums ≤ maxL (items.map v) := by
  rw [gap_le_iff]
  apply greedy_fold_gap
  · simp [Bins.new]; omega
  · intro x hx
    exact le_maxL (List.mem_map_of_mem ((sortDesc_perm v items).mem_iff.1 hx))
  · intro a ha c hc
    simp only [Bins.new, List.mem_replicate] at ha hc
    omega

example : maxL (greedy id 2 [4, 5, 6, 7, 8]).sums - minL (greedy id 2 [4, 5, 6, 7, 8]).sums ≤ 8 :=
  greedy_gap (v := id) (k := 2) (items := [4, 5, 6, 7, 8]) (by decide)

end GreedyGap

section RRGap
variable (v : α → Nat)

/-- Invariant of the round-robin deal.  `i` is the bin that receives the next item, `y` bounds the items that are
    still to be dealt (it is the last item dealt), `M` bounds every item.  Bins before `i` have received one item
    more than the others. -/
def RRInv (M : Nat) (s : List Nat) (i y : Nat) : Prop :=
  y ≤ M ∧ ∀ (j j' : Nat) (_ : j < j') (hj' : j' < s.length),
    s[j'] ≤ s[j] ∧ s[j] ≤ s[j'] + M ∧ ((j' < i ∨ i ≤ j) → s[j] + y ≤ s[j'] + M) ∧
      ((j < i ∧ i ≤ j') → s[j'] + y ≤ s[j])

theorem rrInv_step {M : Nat} {s : List Nat} {i y : Nat} (x : Nat) (h : RRInv M s i y) (hx : x ≤ y) :
    RRInv M (s.modify i (· + x)) (i + 1) x := by
  obtain ⟨hy, h⟩ := h
  refine ⟨by omega, ?_⟩
  intro j j' hj hj'
  have hj'' : j' < s.length := by simpa using hj'
  obtain ⟨h1, h2, h3, h4⟩ := h j j' hj hj''
  simp only [List.getElem_modify]
  by_cases e1 : i = j
  · subst e1
    have e2 : ¬ i = j' := by omega
    simp only [e2, if_true, if_false]
    refine ⟨?_, ?_, ?_, ?_⟩ <;> omega
  · by_cases e2 : i = j'
    · subst e2
      simp only [e1, if_true, if_false]
      refine ⟨?_, ?_, ?_, ?_⟩ <;> omega
    · simp only [e1, e2, if_false]
      refine ⟨?_, ?_, ?_, ?_⟩ <;> omega

theorem rrInv_wrap {M : Nat} {s : List Nat} {y : Nat} (h : RRInv M s s.length y) : RRInv M s 0 y := by
  obtain ⟨hy, h⟩ := h
  refine ⟨hy, ?_⟩
  intro j j' hj hj'
  obtain ⟨h1, h2, h3, h4⟩ := h j j' hj hj'
  refine ⟨h1, h2, fun _ => h3 (Or.inl hj'), ?_⟩
  omega

theorem rrLoop_sums_length (k : Nat) (xs : List α) (b : Bins α) (i : Nat) :
    (rrLoop v k b i xs).sums.length = b.sums.length := by
  induction xs generalizing b i with
  | nil => rfl
  | cons x xs ih => simp only [rrLoop, ih, add_sums, List.length_modify]

theorem rrLoop_rrInv {k M : Nat} (xs : List α) (b : Bins α) (i y : Nat) (hlen : b.sums.length = k)
    (hi : i < k) (hs : xs.Pairwise (fun a c => v c ≤ v a)) (hy : ∀ x ∈ xs, v x ≤ y)
    (h : RRInv M b.sums i y) : ∃ i' y', RRInv M (rrLoop v k b i xs).sums i' y' := by
  induction xs generalizing b i y with
  | nil => exact ⟨i, y, h⟩
  | cons x xs ih =>
    simp only [rrLoop]
    rw [List.pairwise_cons] at hs
    have hstep := rrInv_step (v x) h (hy x (List.mem_cons_self ..))
    have hlen' : (b.add v x i).sums.length = k := by simp [hlen]
    apply ih (b.add v x i) ((i + 1) % k) (v x) hlen' (Nat.mod_lt _ (by omega)) hs.2 hs.1
    by_cases hw : i + 1 < k
    · rw [Nat.mod_eq_of_lt hw]; exact hstep
    · have hik : i + 1 = k := by omega
      rw [hik, Nat.mod_self]
      apply rrInv_wrap
      rw [hlen', ← hik]
      exact hstep

theorem roundrobin_rrInv (k : Nat) (items : List α) (hk : 0 < k) :
    ∃ i y, RRInv (maxL (items.map v)) (roundrobin v k items).sums i y := by
  apply rrLoop_rrInv v (sortDesc v items) (Bins.new k) 0 (maxL (items.map v)) (by simp) hk
    (sortDesc_sorted v items)
  · intro x hx
    exact le_maxL (List.mem_map_of_mem ((sortDesc_perm v items).mem_iff.1 hx))
  · refine ⟨Nat.le_refl _, ?_⟩
    intro j j' hj hj'
    simp only [Bins.new, List.getElem_replicate]
    omega

/-- sums are non-increasing in the bin index -/
theorem roundrobin_monotone {v : α → Nat} {k : Nat} {items : List α} (hk : 0 < k) :
    List.Pairwise (· ≥ ·) (roundrobin v k items).sums := by
  obtain ⟨i, y, _, h⟩ := roundrobin_rrInv v k items hk
  rw [List.pairwise_iff_getElem]
  intro j j' _ hj' hjj'
  exact (h j j' hjj' hj').1

theorem roundrobin_gap {v : α → Nat} {k : Nat} {items : List α} (hk : 0 < k) :
    maxL (roundrobin v k items).sums - minL (roundrobin v k items).sums ≤ maxL (items.map v) := by
  obtain ⟨i, y, _, h⟩ := roundrobin_rrInv v k items hk
  rw [gap_le_iff]
  intro a ha c hc
  obtain ⟨j, hj, rfl⟩ := List.mem_iff_getElem.1 ha
  obtain ⟨j', hj', rfl⟩ := List.mem_iff_getElem.1 hc
  rcases Nat.lt_trichotomy j j' with hlt | heq | hgt
  · exact (h j j' hlt hj').2.1
  · subst heq; omega
  · have := (h j' j hgt hj).1; omega

example : List.Pairwise (· ≥ ·) (roundrobin id 3 [4, 5, 6, 7, 8]).sums :=
  roundrobin_monotone (v := id) (k := 3) (items := [4, 5, 6, 7, 8]) (by decide)

example : maxL (roundrobin id 3 [4, 5, 6, 7, 8]).sums - minL (roundrobin id 3 [4, 5, 6, 7, 8]).sums ≤ 8 :=
  roundrobin_gap (v := id) (k := 3) (items := [4, 5, 6, 7, 8]) (by decide)

/-- cardinality invariant: bins before `i` hold `c + 1` items, the others `c` -/
def RRCard (ls : List (List α)) (i c : Nat) : Prop :=
  ∀ (j : Nat) (hj : j < ls.length), ls[j].length = if j < i then c + 1 else c

theorem rrLoop_card {k : Nat} (xs : List α) (b : Bins α) (i c : Nat) (hlen : b.lists.length = k)
    (hi : i < k) (h : RRCard b.lists i c) : ∃ i' c', RRCard (rrLoop v k b i xs).lists i' c' := by
  induction xs generalizing b i c with
  | nil => exact ⟨i, c, h⟩
  | cons x xs ih =>
    simp only [rrLoop]
    have hlen' : (b.add v x i).lists.length = k := by simp [hlen]
    have hstep : RRCard (b.add v x i).lists (i + 1) c := by
      intro j hj
      have hj' : j < b.lists.length := by simpa using hj
      have := h j hj'
      simp only [add_lists, List.getElem_modify]
      by_cases e : i = j
      · subst e; simp only [if_true, List.length_append, List.length_cons, List.length_nil, this]
        split <;> split <;> omega
      · simp only [e, if_false, this]
        split <;> split <;> omega
    by_cases hw : i + 1 < k
    · rw [Nat.mod_eq_of_lt hw]
      exact ih _ _ c hlen' hw hstep
    · have hik : i + 1 = k := by omega
      rw [hik, Nat.mod_self]
      refine ih _ 0 (c + 1) hlen' (by omega) ?_
      intro j hj
      have := hstep j hj
      rw [this, if_pos (by omega), if_neg (by omega)]

theorem roundrobin_cards {v : α → Nat} {k : Nat} {items : List α} (hk : 0 < k) :
    ∀ l₁ ∈ (roundrobin v k items).lists, ∀ l₂ ∈ (roundrobin v k items).lists,
      l₁.length ≤ l₂.length + 1 := by
  obtain ⟨i, c, h⟩ := rrLoop_card v (sortDesc v items) (Bins.new k) 0 0 (by simp) hk
    (by intro j hj; simp [Bins.new])
  intro l₁ h₁ l₂ h₂
  obtain ⟨j, hj, rfl⟩ := List.mem_iff_getElem.1 h₁
  obtain ⟨j', hj', rfl⟩ := List.mem_iff_getElem.1 h₂
  have e1 := h j hj
  have e2 := h j' hj'
  unfold roundrobin at *
  rw [e1, e2]
  split <;> split <;> omega

example : ∀ l₁ ∈ (roundrobin id 3 [4, 5, 6, 7, 8]).lists, ∀ l₂ ∈ (roundrobin id 3 [4, 5, 6, 7, 8]).lists,
    l₁.length ≤ l₂.length + 1 :=
  roundrobin_cards (v := id) (k := 3) (items := [4, 5, 6, 7, 8]) (by decide)

end RRGap

/-! ## Graham-type consequences of a gap bound -/

section Graham

theorem length_mul_le_sumL (l : List Nat) (mx M : Nat) (h : ∀ a ∈ l, mx ≤ a + M) :
    l.length * mx ≤ sumL l + l.length * M := by
  induction l with
  | nil => simp [sumL]
  | cons a t ih =>
    have h1 := h a (List.mem_cons_self ..)
    have h2 := ih (fun c hc => h c (List.mem_cons_of_mem _ hc))
    simp only [List.length_cons, sumL, Nat.add_mul, Nat.one_mul]
    omega

theorem length_mul_le_sumL' (l : List Nat) (mx M : Nat) (h : ∀ a ∈ l, mx ≤ a + M) (hm : mx ∈ l) :
    l.length * mx + M ≤ sumL l + l.length * M := by
  induction l with
  | nil => cases hm
  | cons a t ih =>
    have h1 := h a (List.mem_cons_self ..)
    have ht : ∀ c ∈ t, mx ≤ c + M := fun c hc => h c (List.mem_cons_of_mem _ hc)
    simp only [List.length_cons, sumL, Nat.add_mul, Nat.one_mul]
    rcases List.mem_cons.1 hm with rfl | hm
    · have := length_mul_le_sumL t mx M ht; omega
    · have := ih ht hm; omega

theorem sumL_le_length_mul (l : List Nat) (mn M : Nat) (h : ∀ a ∈ l, a ≤ mn + M) :
    sumL l ≤ l.length * mn + l.length * M := by
  induction l with
  | nil => simp [sumL]
  | cons a t ih =>
    have h1 := h a (List.mem_cons_self ..)
    have h2 := ih (fun c hc => h c (List.mem_cons_of_mem _ hc))
    simp only [List.length_cons, sumL, Nat.add_mul, Nat.one_mul]
    omega

theorem sumL_le_length_mul' (l : List Nat) (mn M : Nat) (h : ∀ a ∈ l, a ≤ mn + M) (hm : mn ∈ l) :
    sumL l + M ≤ l.length * mn + l.length * M := by
  induction l with
  | nil => cases hm
  | cons a t ih =>
    have h1 := h a (List.mem_cons_self ..)
    have ht : ∀ c ∈ t, c ≤ mn + M := fun c hc => h c (List.mem_cons_of_mem _ hc)
    simp only [List.length_cons, sumL, Nat.add_mul, Nat.one_mul]
    rcases List.mem_cons.1 hm with rfl | hm
    · have := sumL_le_length_mul t mn M ht; omega
    · have := ih ht hm; omega

theorem isPartition_sumL {v : α → Nat} {items : List α} {k : Nat} {b : Bins α}
    (h : IsPartition v items k b) : sumL b.sums = binSum v items ∧ b.sums.length = k := by
  obtain ⟨h1, h2, h3⟩ := h
  rw [h3, sumL_map_binSum, binSum_perm v h1]
  simp [h2]

/-- the largest sum is at most the average plus `(k-1)/k` times the largest item -/
theorem gap_to_graham {v : α → Nat} {items : List α} {k : Nat} {b : Bins α} (hk : 0 < k)
    (h : IsPartition v items k b) (hg : maxL b.sums - minL b.sums ≤ maxL (items.map v)) :
    k * maxL b.sums ≤ binSum v items + (k - 1) * maxL (items.map v) := by
  obtain ⟨hs, hl⟩ := isPartition_sumL h
  have hne : b.sums ≠ [] := by intro h0; rw [h0] at hl; simp at hl; omega
  rw [gap_le_iff] at hg
  have := length_mul_le_sumL' b.sums (maxL b.sums) (maxL (items.map v))
    (fun a ha => hg _ (maxL_mem hne) a ha) (maxL_mem hne)
  rw [hs, hl] at this
  obtain ⟨k', rfl⟩ : ∃ k', k = k' + 1 := ⟨k - 1, by omega⟩
  simp only [Nat.add_sub_cancel, Nat.add_mul, Nat.one_mul] at this ⊢
  omega

/-- the smallest sum is at least the average minus `(k-1)/k` times the largest item -/
theorem gap_to_minbound {v : α → Nat} {items : List α} {k : Nat} {b : Bins α} (hk : 0 < k)
    (h : IsPartition v items k b) (hg : maxL b.sums - minL b.sums ≤ maxL (items.map v)) :
    binSum v items ≤ k * minL b.sums + (k - 1) * maxL (items.map v) := by
  obtain ⟨hs, hl⟩ := isPartition_sumL h
  have hne : b.sums ≠ [] := by intro h0; rw [h0] at hl; simp at hl; omega
  rw [gap_le_iff] at hg
  have := sumL_le_length_mul' b.sums (minL b.sums) (maxL (items.map v))
    (fun a ha => hg a ha _ (minL_mem hne)) (minL_mem hne)
  rw [hs, hl] at this
  obtain ⟨k', rfl⟩ : ∃ k', k = k' + 1 := ⟨k - 1, by omega⟩
  simp only [Nat.add_sub_cancel, Nat.add_mul, Nat.one_mul] at this ⊢
  omega

example : 2 * maxL (greedy id 2 [4, 5, 6, 7, 8]).sums ≤ binSum id [4, 5, 6, 7, 8] + (2 - 1) * 8 :=
  gap_to_graham (by decide) (greedy_isPartition (v := id) (k := 2) (items := [4, 5, 6, 7, 8]) (by decide)) (greedy_gap (v := id) (k := 2) (items := [4, 5, 6, 7, 8]) (by decide))

example : binSum id [4, 5, 6, 7, 8] ≤ 2 * minL (greedy id 2 [4, 5, 6, 7, 8]).sums + (2 - 1) * 8 :=
  gap_to_minbound (by decide) (greedy_isPartition (v := id) (k := 2) (items := [4, 5, 6, 7, 8]) (by decide)) (greedy_gap (v := id) (k := 2) (items := [4, 5, 6, 7, 8]) (by decide))

end Graham

/-! ## Multifit -/

section FirstFit
variable (v : α → Nat)

/-- validity invariant of first-fit (no fixed number of bins) -/
def FValid (b : Bins α) (done : List α) : Prop :=
  b.lists.flatten.Perm done ∧ b.Consistent v

/-- any-fit on sums: no two bins could have been merged -/
def FFInv (B : Nat) (s : List Nat) : Prop := s.Pairwise (fun a c => B < a + c)

theorem pairwise_modify {β : Type} {R : β → β → Prop} {f : β → β} (l : List β) (i : Nat)
    (hf : ∀ a c, R a c → R (f a) c ∧ R a (f c)) (h : l.Pairwise R) : (l.modify i f).Pairwise R := by
  induction l generalizing i with
  | nil => simp
  | cons a t ih =>
    rw [List.pairwise_cons] at h
    cases i with
    | zero =>
      simp only [List.modify_cons, if_true]
      exact List.pairwise_cons.2 ⟨fun c hc => (hf a c (h.1 c hc)).1, h.2⟩
    | succ i =>
      simp only [List.modify_cons, Nat.add_one_ne_zero, if_false, Nat.add_sub_cancel]
      refine List.pairwise_cons.2 ⟨?_, ih i h.2⟩
      intro c hc
      rcases mem_modify hc with hc | ⟨hi, rfl⟩
      · exact h.1 c hc
      · exact (hf a _ (h.1 _ (List.getElem_mem hi))).2

theorem ffStep_spec {B : Nat} {b : Bins α} {done : List α} (x : α) (h : FValid v b done)
    (hf : FFInv B b.sums) : FValid v (ffStep v B b x) (done ++ [x]) ∧ FFInv B (ffStep v B b x).sums := by
  obtain ⟨h1, h2⟩ := h
  have hl := consistent_length v h2
  have hperm : ∀ l : List α, l.Perm (x :: b.lists.flatten) → l.Perm (done ++ [x]) := fun l hl' =>
    hl'.trans ((List.Perm.cons x h1).trans (List.perm_append_singleton x done).symm)
  unfold ffStep
  split
  · rename_i i hi
    obtain ⟨hi', _⟩ := List.findIdx?_eq_some_iff_getElem.1 hi
    refine ⟨⟨hperm _ (add_flat_perm v b x i (by omega)), add_consistent v b x i h2⟩, ?_⟩
    simp only [add_sums]
    exact pairwise_modify b.sums i (fun a c hac => by constructor <;> omega) hf
  · rename_i hnone
    have hcons : (b.addEmpty 1).Consistent v := by
      unfold Bins.Consistent at *
      simp [Bins.addEmpty, Bins.concat, Bins.new, h2, binSum_nil]
    have hflat : (b.addEmpty 1).lists.flatten = b.lists.flatten := by
      simp [Bins.addEmpty, Bins.concat, Bins.new]
    refine ⟨⟨hperm _ ?_, add_consistent v _ x _ hcons⟩, ?_⟩
    · have := add_flat_perm v (b.addEmpty 1) x b.sums.length
        (by simp [Bins.addEmpty, Bins.concat, Bins.new]; omega)
      rwa [hflat] at this
    · have hs : ((b.addEmpty 1).add v x b.sums.length).sums = b.sums ++ [0 + v x] := by
        simp only [add_sums, Bins.addEmpty, Bins.concat, Bins.new, List.replicate_one]
        exact modify_length_append b.sums 0 (· + v x)
      rw [hs]
      refine List.pairwise_append.2 ⟨hf, List.pairwise_singleton _ _, ?_⟩
      intro a ha c hc
      rw [List.mem_singleton] at hc
      subst hc
      have := List.findIdx?_eq_none_iff.1 hnone a ha
      simp only [decide_eq_false_iff_not] at this
      omega

theorem ffLoop_spec {B : Nat} (xs : List α) (b : Bins α) (done : List α) (hB : ∀ x ∈ xs, v x ≤ B)
    (h : FValid v b done) (hf : FFInv B b.sums) :
    ∃ b', ffLoop v B b xs = .ok b' ∧ FValid v b' (done ++ xs) ∧ FFInv B b'.sums := by
  induction xs generalizing b done with
  | nil => exact ⟨b, rfl, by simpa using h, hf⟩
  | cons x xs ih =>
    have hx := hB x (List.mem_cons_self ..)
    simp only [ffLoop, if_neg (Nat.not_lt.2 hx)]
    obtain ⟨s1, s2⟩ := ffStep_spec v x h hf
    obtain ⟨b', e, q1, q2⟩ := ih _ _ (fun y hy => hB y (List.mem_cons_of_mem _ hy)) s1 s2
    exact ⟨b', e, by simpa using q1, q2⟩

theorem ffOnline_spec {B : Nat} (xs : List α) (hB : ∀ x ∈ xs, v x ≤ B) :
    ∃ b', ffOnline v B xs = .ok b' ∧ b'.lists.flatten.Perm xs ∧ b'.Consistent v ∧ FFInv B b'.sums := by
  obtain ⟨b', e, q1, q2⟩ := ffLoop_spec v xs (Bins.new 1) [] hB
    ⟨by rw [new_flat], new_consistent v 1⟩ (by simp [FFInv, Bins.new])
  exact ⟨b', e, by simpa using q1.1, q1.2, q2⟩

/-- if any two of `n ≥ 2` numbers add up to at least `C`, their total is at least `n·C/2` -/
theorem pairwise_sum_bound (C : Nat) : ∀ (l : List Nat), l.Pairwise (fun a c => C ≤ a + c) →
    2 ≤ l.length → l.length * C ≤ 2 * sumL l
  | [], _, h => by simp at h
  | [_], _, h => by simp at h
  | [a, b], hp, _ => by
    simp only [List.pairwise_cons] at hp
    have := hp.1 b (by simp)
    simp only [List.length_cons, List.length_nil, sumL]; omega
  | [a, b, c], hp, _ => by
    simp only [List.pairwise_cons] at hp
    have h1 := hp.1 b (by simp)
    have h2 := hp.1 c (by simp)
    have h3 := hp.2.1 c (by simp)
    simp only [List.length_cons, List.length_nil, sumL]; omega
  | a :: b :: c :: d :: t, hp, _ => by
    rw [List.pairwise_cons] at hp
    have h1 := hp.1 b (by simp)
    have hp' := (List.pairwise_cons.1 hp.2).2
    have ih := pairwise_sum_bound C (c :: d :: t) hp' (by simp)
    simp only [List.length_cons, sumL, Nat.add_mul, Nat.one_mul] at ih ⊢
    omega

/-- a first-fit packing whose capacity satisfies `2·total < k·(B+1)` has at most `k` bins -/
theorem ffInv_length_le {B k : Nat} {s : List Nat} (hk : 0 < k) (hf : FFInv B s)
    (hS : 2 * sumL s < k * (B + 1)) : s.length ≤ k := by
  by_cases h2 : 2 ≤ s.length
  · have hp : s.Pairwise (fun a c => B + 1 ≤ a + c) := hf.imp (fun h => by omega)
    have := pairwise_sum_bound (B + 1) s hp h2
    have hlt : s.length * (B + 1) < k * (B + 1) := Nat.lt_of_le_of_lt this hS
    exact Nat.le_of_lt (Nat.lt_of_mul_lt_mul_right hlt)
  · omega

end FirstFit

section Multifit
variable (v : α → Nat)

theorem ratMax_left (a b : Rat) : a ≤ ratMax a b := by
  unfold ratMax; split
  · assumption
  · exact Rat.le_refl

theorem ratMax_right (a b : Rat) : b ≤ ratMax a b := by
  unfold ratMax; split
  · exact Rat.le_refl
  · rename_i h; exact Rat.le_of_lt (Rat.not_le.1 h)

theorem mid_ge (m lo hi : Rat) (h1 : m ≤ lo) (h2 : m ≤ hi) : m ≤ (lo + hi) / 2 := by
  grind

theorem le_floorNat (n : Nat) (q : Rat) (h : (n : Rat) ≤ q) : n ≤ floorNat q := by
  unfold floorNat
  have : (n : Int) ≤ q.floor := Rat.le_floor_iff.2 (by rw [Rat.intCast_natCast]; exact h)
  omega

theorem lt_floorNat_succ (S k : Nat) (q : Rat) (hk : 0 < k) (h : (2 * (S : Rat)) / k ≤ q) :
    2 * S < k * (floorNat q + 1) := by
  have hk' : (0 : Rat) < k := Rat.natCast_pos.2 hk
  have h1 : (2 * (S : Rat)) / k < ((q.floor + 1 : Int) : Rat) := by
    have := Rat.lt_floor_add_one q; grind
  rw [Rat.div_lt_iff hk'] at h1
  have h2 : ((2 * S : Nat) : Int) < (q.floor + 1) * (k : Int) := by
    apply Rat.intCast_lt_intCast.1
    simpa [Rat.intCast_natCast] using h1
  unfold floorNat
  have h3 : (q.floor + 1) * (k : Int) ≤ ((q.floor.toNat : Int) + 1) * (k : Int) :=
    Int.mul_le_mul_of_nonneg_right (by omega) (by omega)
  have h4 : ((2 * S : Nat) : Int) < ((k * (q.floor.toNat + 1) : Nat) : Int) := by
    rw [Int.natCast_mul k, Int.natCast_add, Int.mul_comm]
    exact Int.lt_of_lt_of_le h2 h3
  exact Int.ofNat_lt.1 h4

/-- first-fit succeeds whenever the (rational) capacity is at least the largest item -/
theorem ffOnline_of_cap {M : Nat} (xs : List α) (hM : ∀ x ∈ xs, v x ≤ M) (cap : Rat)
    (hc : (M : Rat) ≤ cap) :
    ∃ b', ffOnline v (floorNat cap) xs = .ok b' ∧ b'.lists.flatten.Perm xs ∧ b'.Consistent v ∧
      FFInv (floorNat cap) b'.sums :=
  ffOnline_spec v xs (fun x hx => Nat.le_trans (hM x hx) (le_floorNat M cap hc))

/-- the binary search: it never fails, its result is at least the largest item, and any property that holds of
    the initial upper bound and of every tested capacity that needed at most `k` bins holds of the result -/
theorem multifitSearch_spec {M : Nat} (k : Nat) (xs : List α) (hM : ∀ x ∈ xs, v x ≤ M) (P : Rat → Prop)
    (hP : ∀ mid n, (M : Rat) ≤ mid → ffCount v mid xs = .ok n → n ≤ k → P mid) :
    ∀ (it : Nat) (lo hi : Rat), (M : Rat) ≤ lo → (M : Rat) ≤ hi → P hi →
      ∃ cap, multifitSearch v k xs it lo hi = .ok cap ∧ (M : Rat) ≤ cap ∧ P cap := by
  intro it
  induction it with
  | zero => intro lo hi _ h2 h3; exact ⟨hi, rfl, h2, h3⟩
  | succ it ih =>
    intro lo hi h1 h2 h3
    have hmid := mid_ge _ _ _ h1 h2
    obtain ⟨b', e, _⟩ := ffOnline_of_cap v xs hM _ hmid
    have hc : ffCount v ((lo + hi) / 2) xs = .ok b'.sums.length := by
      simp only [ffCount, e]; rfl
    simp only [multifitSearch, hc]
    split
    · rename_i hn
      exact ih lo _ h1 hmid (hP _ _ hmid hc hn)
    · exact ih _ hi hmid h2 h3

/-- C01 for multifit: all items, once each, with consistent sums (the number of bins is treated below) -/
theorem multifit_valid (v : α → Nat) (k : Nat) (items : List α) (it : Nat) :
    ∃ b, multifit v k items it = .ok b ∧ b.lists.flatten.Perm items ∧
      b.sums = b.lists.map (binSum v) := by
  have hsp := sortDesc_perm v items
  have hM : ∀ x ∈ sortDesc v items, v x ≤ maxL (items.map v) :=
    fun x hx => le_maxL (List.mem_map_of_mem (hsp.mem_iff.1 hx))
  obtain ⟨cap, e, hcap, _⟩ := multifitSearch_spec v k (sortDesc v items) hM (fun _ => True)
    (fun _ _ _ _ _ => trivial) it
    (ratMax (((sumL (items.map v) : Nat) : Rat) / k) ((maxL (items.map v) : Nat) : Rat))
    (ratMax (2 * ((sumL (items.map v) : Nat) : Rat) / k) ((maxL (items.map v) : Nat) : Rat))
    (ratMax_right _ _) (ratMax_right _ _) trivial
  obtain ⟨b', e', q1, q2, _⟩ := ffOnline_of_cap v _ hM cap hcap
  refine ⟨b', ?_, q1.trans hsp, q2⟩
  simp only [multifit, e, e']

/-- the statement as requested (neither hypothesis is needed, see `multifit_valid`) -/
theorem multifit_perm {v : α → Nat} {k : Nat} {items : List α} {it : Nat} (_hk : 0 < k)
    (_hne : items ≠ []) :
    ∃ b, multifit v k items it = .ok b ∧ b.lists.flatten.Perm items ∧
      b.sums = b.lists.map (binSum v) :=
  multifit_valid v k items it

/-- multifit never returns more than `k` bins (also for an empty item list: one empty bin) -/
theorem multifit_bins_le' {v : α → Nat} {k : Nat} {items : List α} {it : Nat} {b : Bins α} (hk : 0 < k)
    (h : multifit v k items it = .ok b) : b.lists.length ≤ k := by
  have hsp := sortDesc_perm v items
  have hM : ∀ x ∈ sortDesc v items, v x ≤ maxL (items.map v) :=
    fun x hx => le_maxL (List.mem_map_of_mem (hsp.mem_iff.1 hx))
  -- the initial upper bound needs at most `k` bins
  have hinit : ∃ n, ffCount v (ratMax (2 * ((sumL (items.map v) : Nat) : Rat) / k)
      ((maxL (items.map v) : Nat) : Rat)) (sortDesc v items) = .ok n ∧ n ≤ k := by
    obtain ⟨b', e', q1, q2, q3⟩ := ffOnline_of_cap v _ hM _ (ratMax_right
      (2 * ((sumL (items.map v) : Nat) : Rat) / k) ((maxL (items.map v) : Nat) : Rat))
    refine ⟨b'.sums.length, by simp only [ffCount, e']; rfl, ?_⟩
    apply ffInv_length_le hk q3
    have hS : sumL b'.sums = sumL (items.map v) := by
      rw [q2, sumL_map_binSum, binSum_perm v (q1.trans hsp)]; rfl
    rw [hS]
    exact lt_floorNat_succ _ k _ hk (ratMax_left _ _)
  obtain ⟨cap, e, hcap, n, hn, hnk⟩ := multifitSearch_spec v k (sortDesc v items) hM
    (fun cap => ∃ n, ffCount v cap (sortDesc v items) = .ok n ∧ n ≤ k)
    (fun mid n _ hc hn => ⟨n, hc, hn⟩) it
    (ratMax (((sumL (items.map v) : Nat) : Rat) / k) ((maxL (items.map v) : Nat) : Rat))
    (ratMax (2 * ((sumL (items.map v) : Nat) : Rat) / k) ((maxL (items.map v) : Nat) : Rat))
    (ratMax_right _ _) (ratMax_right _ _) hinit
  obtain ⟨b', e', _, q2, _⟩ := ffOnline_of_cap v _ hM cap hcap
  have hc : ffCount v cap (sortDesc v items) = .ok b'.sums.length := by
    simp only [ffCount, e']; rfl
  rw [hc] at hn
  cases hn
  simp only [multifit, e, e'] at h
  cases h
  rw [← consistent_length v q2]
  exact hnk

/-- the statement as requested (`hne` is not needed, see `multifit_bins_le'`) -/
theorem multifit_bins_le {v : α → Nat} {k : Nat} {items : List α} {it : Nat} {b : Bins α} (hk : 0 < k)
    (_hne : items ≠ []) (h : multifit v k items it = .ok b) : b.lists.length ≤ k :=
  multifit_bins_le' hk h

example : ∃ b, multifit id 3 [4, 5, 6, 7, 8] 10 = .ok b ∧ b.lists.flatten.Perm [4, 5, 6, 7, 8] ∧
    b.sums = b.lists.map (binSum id) :=
  multifit_perm (by decide) (by decide)

example : ∃ b, multifit id 3 [4, 5, 6, 7, 8] 10 = .ok b ∧ b.lists.length ≤ 3 := by
  obtain ⟨b, h, _⟩ := multifit_perm (v := id) (k := 3) (items := [4, 5, 6, 7, 8]) (it := 10)
    (by decide) (by decide)
  exact ⟨b, h, multifit_bins_le (by decide) (by decide) h⟩

/-! ### C08 (partial) for multifit: the largest sum is at most `max (2·total/k) (largest item)` -/

theorem ffStep_le {B : Nat} (b : Bins α) (x : α) (hx : v x ≤ B) (h : ∀ s ∈ b.sums, s ≤ B) :
    ∀ s ∈ (ffStep v B b x).sums, s ≤ B := by
  unfold ffStep
  split
  · rename_i i hi
    obtain ⟨hi', hp, _⟩ := List.findIdx?_eq_some_iff_getElem.1 hi
    intro s hs
    rcases mem_modify hs with h' | ⟨_, rfl⟩
    · exact h s h'
    · simpa using hp
  · have hs : ((b.addEmpty 1).add v x b.sums.length).sums = b.sums ++ [0 + v x] := by
      simp only [add_sums, Bins.addEmpty, Bins.concat, Bins.new, List.replicate_one]
      exact modify_length_append b.sums 0 (· + v x)
    rw [hs]
    intro s hs'
    rcases List.mem_append.1 hs' with h' | h'
    · exact h s h'
    · rw [List.mem_singleton] at h'; omega

theorem ffLoop_le {B : Nat} (xs : List α) (b b' : Bins α) (h : ffLoop v B b xs = .ok b')
    (hb : ∀ s ∈ b.sums, s ≤ B) : ∀ s ∈ b'.sums, s ≤ B := by
  induction xs generalizing b with
  | nil => simp only [ffLoop] at h; cases h; exact hb
  | cons x xs ih =>
    simp only [ffLoop] at h
    split at h
    · cases h
    · exact ih _ h (ffStep_le v b x (by omega) hb)

/-- every bin of a first-fit packing respects the capacity -/
theorem ffOnline_le {B : Nat} (xs : List α) (b' : Bins α) (h : ffOnline v B xs = .ok b') :
    ∀ s ∈ b'.sums, s ≤ B :=
  ffLoop_le v xs _ b' h (by simp [Bins.new])

theorem multifitSearch_le (k : Nat) (xs : List α) :
    ∀ (it : Nat) (lo hi cap : Rat), lo ≤ hi → multifitSearch v k xs it lo hi = .ok cap →
      lo ≤ cap ∧ cap ≤ hi := by
  intro it
  induction it with
  | zero =>
    intro lo hi cap hle h
    simp only [multifitSearch] at h
    cases h
    exact ⟨hle, Rat.le_refl⟩
  | succ it ih =>
    intro lo hi cap hle h
    simp only [multifitSearch] at h
    split at h
    · cases h
    · split at h
      · have := ih lo _ cap (by grind) h
        constructor <;> grind
      · have := ih _ hi cap (by grind) h
        constructor <;> grind

theorem floorNat_le (q : Rat) (h : 0 ≤ q) : ((floorNat q : Nat) : Rat) ≤ q := by
  unfold floorNat
  have h0 : (0 : Int) ≤ q.floor := Rat.le_floor_iff.2 (by simpa using h)
  rw [← Rat.intCast_natCast, Int.toNat_of_nonneg h0]
  exact Rat.floor_le q

theorem nat_le_of_le_ratMax (x S m k : Nat) (hk : 0 < k)
    (h : (x : Rat) ≤ ratMax (2 * (S : Rat) / k) (m : Rat)) : k * x ≤ max (2 * S) (k * m) := by
  have hk' : (0 : Rat) < k := Rat.natCast_pos.2 hk
  unfold ratMax at h
  split at h
  · have := Nat.mul_le_mul_left k (Rat.natCast_le_natCast.1 h)
    omega
  · have h1 : ¬ (2 * (S : Rat) / k < x) := Rat.not_lt.2 h
    rw [Rat.div_lt_iff hk'] at h1
    have h2 : ((x * k : Nat) : Rat) ≤ ((2 * S : Nat) : Rat) := by
      rw [Rat.natCast_mul, Rat.natCast_mul]
      exact Rat.not_lt.1 h1
    have := Rat.natCast_le_natCast.1 h2
    rw [Nat.mul_comm] at this
    omega

/-- the largest sum of multifit is at most `max (2·total/k) (largest item)`, i.e. at most twice the optimum -/
theorem multifit_max_le {v : α → Nat} {k : Nat} {items : List α} {it : Nat} {b : Bins α} (hk : 0 < k)
    (h : multifit v k items it = .ok b) :
    k * maxL b.sums ≤ max (2 * binSum v items) (k * maxL (items.map v)) := by
  have hk' : (0 : Rat) < k := Rat.natCast_pos.2 hk
  have hS : (0 : Rat) ≤ ((sumL (items.map v) : Nat) : Rat) := Rat.natCast_nonneg
  have hm : (0 : Rat) ≤ ((maxL (items.map v) : Nat) : Rat) := Rat.natCast_nonneg
  simp only [multifit] at h
  split at h
  · cases h
  · rename_i cap e
    have h0 : ¬ (((sumL (items.map v) : Nat) : Rat) / k < 0) := by
      rw [Rat.div_lt_iff hk']; grind
    have hlohi : ratMax (((sumL (items.map v) : Nat) : Rat) / k) ((maxL (items.map v) : Nat) : Rat) ≤
        ratMax (2 * ((sumL (items.map v) : Nat) : Rat) / k) ((maxL (items.map v) : Nat) : Rat) := by
      have a1 := ratMax_left (2 * ((sumL (items.map v) : Nat) : Rat) / k)
        ((maxL (items.map v) : Nat) : Rat)
      have a2 := ratMax_right (2 * ((sumL (items.map v) : Nat) : Rat) / k)
        ((maxL (items.map v) : Nat) : Rat)
      unfold ratMax at a1 a2 ⊢
      grind
    obtain ⟨c1, c2⟩ := multifitSearch_le v k _ it _ _ cap hlohi e
    have hcap0 : (0 : Rat) ≤ cap := by
      have := ratMax_right (((sumL (items.map v) : Nat) : Rat) / k) ((maxL (items.map v) : Nat) : Rat)
      grind
    have hmax : maxL b.sums ≤ floorNat cap := maxL_le (ffOnline_le v _ b h)
    have hq : ((maxL b.sums : Nat) : Rat) ≤
        ratMax (2 * ((sumL (items.map v) : Nat) : Rat) / k) ((maxL (items.map v) : Nat) : Rat) := by
      have a1 := Rat.natCast_le_natCast.2 hmax
      have a2 := floorNat_le cap hcap0
      grind
    exact nat_le_of_le_ratMax _ _ _ k hk hq

example : ∃ b, multifit id 3 [4, 5, 6, 7, 8] 10 = .ok b ∧ 3 * maxL b.sums ≤ max (2 * 30) (3 * 8) := by
  obtain ⟨b, h, _⟩ := multifit_perm (v := id) (k := 3) (items := [4, 5, 6, 7, 8]) (it := 10)
    (by decide) (by decide)
  exact ⟨b, h, multifit_max_le (by decide) h⟩

end Multifit

/-! ## Corollaries: the Graham-type bounds for the three heuristics -/

section Corollaries
variable {v : α → Nat} {k : Nat} {items : List α}

theorem greedy_graham (hk : 0 < k) :
    k * maxL (greedy v k items).sums ≤ binSum v items + (k - 1) * maxL (items.map v) :=
  gap_to_graham hk (greedy_isPartition hk) (greedy_gap hk)

theorem greedy_minbound (hk : 0 < k) :
    binSum v items ≤ k * minL (greedy v k items).sums + (k - 1) * maxL (items.map v) :=
  gap_to_minbound hk (greedy_isPartition hk) (greedy_gap hk)

theorem roundrobin_graham (hk : 0 < k) :
    k * maxL (roundrobin v k items).sums ≤ binSum v items + (k - 1) * maxL (items.map v) :=
  gap_to_graham hk (roundrobin_isPartition hk) (roundrobin_gap hk)

theorem roundrobin_minbound (hk : 0 < k) :
    binSum v items ≤ k * minL (roundrobin v k items).sums + (k - 1) * maxL (items.map v) :=
  gap_to_minbound hk (roundrobin_isPartition hk) (roundrobin_gap hk)

theorem kk_graham (hk : 0 < k) (hne : items ≠ []) {b : Bins α} (h : kk v k items = .ok b) :
    k * maxL b.sums ≤ binSum v items + (k - 1) * maxL (items.map v) := by
  obtain ⟨b', h1, h2⟩ := kk_isPartition (v := v) hk hne
  rw [h1] at h; cases h
  exact gap_to_graham hk h2 (kk_gap hk hne h1)

theorem kk_minbound (hk : 0 < k) (hne : items ≠ []) {b : Bins α} (h : kk v k items = .ok b) :
    binSum v items ≤ k * minL b.sums + (k - 1) * maxL (items.map v) := by
  obtain ⟨b', h1, h2⟩ := kk_isPartition (v := v) hk hne
  rw [h1] at h; cases h
  exact gap_to_minbound hk h2 (kk_gap hk hne h1)

end Corollaries

/-
Axiom audit (Lean 4.33.0; output observed with the commands uncommented):

#print axioms greedy_isPartition
  -- 'Prtpy.Part.greedy_isPartition' depends on axioms: [propext, Classical.choice, Quot.sound]
#print axioms roundrobin_isPartition
  -- 'Prtpy.Part.roundrobin_isPartition' depends on axioms: [propext, Quot.sound]
#print axioms kk_isPartition
  -- 'Prtpy.Part.kk_isPartition' depends on axioms: [propext, Classical.choice, Quot.sound]
#print axioms kk_spec
  -- 'Prtpy.Part.kk_spec' depends on axioms: [propext, Classical.choice, Quot.sound]
#print axioms greedy_gap
  -- 'Prtpy.Part.greedy_gap' depends on axioms: [propext, Classical.choice, Quot.sound]
#print axioms roundrobin_gap
  -- 'Prtpy.Part.roundrobin_gap' depends on axioms: [propext, Classical.choice, Quot.sound]
#print axioms roundrobin_monotone
  -- 'Prtpy.Part.roundrobin_monotone' depends on axioms: [propext, Classical.choice, Quot.sound]
#print axioms roundrobin_cards
  -- 'Prtpy.Part.roundrobin_cards' depends on axioms: [propext, Classical.choice, Quot.sound]
#print axioms kk_gap
  -- 'Prtpy.Part.kk_gap' depends on axioms: [propext, Classical.choice, Quot.sound]
#print axioms kk_sorted
  -- 'Prtpy.Part.kk_sorted' depends on axioms: [propext, Classical.choice, Quot.sound]
#print axioms gap_to_graham
  -- 'Prtpy.Part.gap_to_graham' depends on axioms: [propext, Quot.sound]
#print axioms gap_to_minbound
  -- 'Prtpy.Part.gap_to_minbound' depends on axioms: [propext, Quot.sound]
#print axioms multifit_valid
  -- 'Prtpy.Part.multifit_valid' depends on axioms: [propext, Classical.choice, Quot.sound]
#print axioms multifit_perm
  -- 'Prtpy.Part.multifit_perm' depends on axioms: [propext, Classical.choice, Quot.sound]
#print axioms multifit_bins_le
  -- 'Prtpy.Part.multifit_bins_le' depends on axioms: [propext, Classical.choice, Quot.sound]
#print axioms multifit_bins_le'
  -- 'Prtpy.Part.multifit_bins_le'' depends on axioms: [propext, Classical.choice, Quot.sound]
#print axioms multifit_max_le
  -- 'Prtpy.Part.multifit_max_le' depends on axioms: [propext, Classical.choice, Quot.sound]
#print axioms greedy_graham
  -- 'Prtpy.Part.greedy_graham' depends on axioms: [propext, Classical.choice, Quot.sound]
#print axioms greedy_minbound
  -- 'Prtpy.Part.greedy_minbound' depends on axioms: [propext, Classical.choice, Quot.sound]
#print axioms roundrobin_graham
  -- 'Prtpy.Part.roundrobin_graham' depends on axioms: [propext, Classical.choice, Quot.sound]
#print axioms roundrobin_minbound
  -- 'Prtpy.Part.roundrobin_minbound' depends on axioms: [propext, Classical.choice, Quot.sound]
#print axioms kk_graham
  -- 'Prtpy.Part.kk_graham' depends on axioms: [propext, Classical.choice, Quot.sound]
#print axioms kk_minbound
  -- 'Prtpy.Part.kk_minbound' depends on axioms: [propext, Classical.choice, Quot.sound]
#print axioms sortDesc_perm
  -- 'Prtpy.Part.sortDesc_perm' does not depend on any axioms
#print axioms sortDesc_sorted
  -- 'Prtpy.Part.sortDesc_sorted' depends on axioms: [propext, Quot.sound]
-/

end Prtpy.Part
