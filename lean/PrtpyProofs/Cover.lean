import Prtpy
/-
  PrtpyProofs.Cover — the three bin-covering heuristics (`coverDecreasing`, `twoThirds`, `threeQuarters`).

  * C05 (validity): `coverDecreasing_isCover`, `twoThirds_isCover`, `threeQuarters_isCover`.
  * C10, first clause (never more than the optimum): `cover_le_opt` (against `Spec.Coverable`),
    with the bridge `coverable_iff_coverableL` between `Coverable` (assignments, `sumsOf`) and the list
    formulation `CoverableL`.
  * C10, factor 1/2: `coverDecreasing_half`, `twoThirds_half`, `threeQuarters_half`
    (`m` coverable → `m ≤ 2 * ALG`; tight, see the example `[9, 9, 1, 1]`, `B = 10`), and the
    same against `Spec.Coverable` (`*_half_coverable`).

  Method: a bins-array whose sums are consistent is `mk v c l` (closed bins `c`, open bin `l`); every
  operation of the loops is rewritten on that form; one invariant `St` (closed bins reach `B` and have
  capped weight `< 2B`, open bin `< B`, closed ++ open ++ unplaced is a permutation of the input) is
  preserved by every loop, and the loops' fuel is enough to place every item.
  No positivity assumption on the values is needed (only `0 < B`).
-/
open Prtpy
namespace Prtpy.Cover
variable {α : Type}

theorem sumL_append (l₁ l₂ : List Nat) : sumL (l₁ ++ l₂) = sumL l₁ + sumL l₂ := by
  induction l₁ with
  | nil => simp [sumL]
  | cons x xs ih => simp only [List.cons_append, sumL, ih]; omega

theorem binSum_nil (v : α → Nat) : binSum v [] = 0 := rfl
theorem binSum_cons (v : α → Nat) (x : α) (l : List α) : binSum v (x :: l) = v x + binSum v l := rfl
theorem binSum_append (v : α → Nat) (l₁ l₂ : List α) :
    binSum v (l₁ ++ l₂) = binSum v l₁ + binSum v l₂ := by
  simp only [binSum, List.map_append, sumL_append]

theorem sumL_perm {l₁ l₂ : List Nat} (h : l₁.Perm l₂) : sumL l₁ = sumL l₂ := by
  induction h with
  | nil => rfl
  | cons x _ ih => simp only [sumL, ih]
  | swap x y l => simp only [sumL]; omega
  | trans _ _ ih₁ ih₂ => exact ih₁.trans ih₂

theorem binSum_perm (v : α → Nat) {l₁ l₂ : List α} (h : l₁.Perm l₂) : binSum v l₁ = binSum v l₂ :=
  sumL_perm (h.map v)

theorem modify_length_append' {β : Type} (c : List β) (l : β) (post : List β) (f : β → β) :
    (c ++ l :: post).modify c.length f = c ++ f l :: post := by
  induction c with
  | nil => rfl
  | cons a c ih => simp [ih]

theorem modify_length_append {β : Type} (c : List β) (l : β) (f : β → β) :
    (c ++ [l]).modify c.length f = c ++ [f l] := modify_length_append' c l [] f

/-- the bins-array with closed bins `c` and open (last) bin `l` -/
def mk (v : α → Nat) (c : List (List α)) (l : List α) : Bins α :=
  ⟨(c ++ [l]).map (binSum v), c ++ [l]⟩

theorem new_one (v : α → Nat) : (Bins.new 1 : Bins α) = mk v [] [] := rfl

theorem addLast_mk (v : α → Nat) (c : List (List α)) (l : List α) (x : α) :
    (mk v c l).addLast v x = mk v c (l ++ [x]) := by
  simp only [mk, Bins.addLast, Bins.add, List.map_append, List.map_cons, List.map_nil,
    List.length_append, List.length_map, List.length_cons, List.length_nil, Nat.add_sub_cancel]
  have h1 := modify_length_append (c.map (binSum v)) (binSum v l) (· + v x)
  rw [List.length_map] at h1
  have h2 := modify_length_append c l (· ++ [x])
  simp only [h1, h2, binSum_append, binSum_cons, binSum_nil, Nat.add_zero]

theorem lastSum_mk (v : α → Nat) (c : List (List α)) (l : List α) :
    (mk v c l).lastSum = binSum v l := by
  simp [mk, Bins.lastSum, lastD]

theorem addEmpty_mk (v : α → Nat) (c : List (List α)) (l : List α) :
    (mk v c l).addEmpty 1 = mk v (c ++ [l]) [] := by
  simp [mk, Bins.addEmpty, Bins.concat, Bins.new, binSum_nil]

theorem removeLast_mk (v : α → Nat) (c : List (List α)) (l : List α) :
    (mk v c l).removeLast 1 = ⟨c.map (binSum v), c⟩ := by
  simp [mk, Bins.removeLast]

/-! ### the loop invariant -/

/-- value capped at the bin size -/
def cap (v : α → Nat) (B : Nat) : α → Nat := fun x => min (v x) B

theorem binSum_cap_le (v : α → Nat) (B : Nat) (l : List α) : binSum (cap v B) l ≤ binSum v l := by
  induction l with
  | nil => exact Nat.le_refl _
  | cons x xs ih => simp only [binSum_cons, cap] at *; omega

/-- closed bins: reach `B`, and have capped weight below `2B` -/
def ClosedOK (v : α → Nat) (B : Nat) (c : List (List α)) : Prop :=
  ∀ g ∈ c, B ≤ binSum v g ∧ binSum (cap v B) g < 2 * B

/-- state in the middle of filling: the open bin may have reached `B` -/
def StOpen (v : α → Nat) (B : Nat) (items : List α) (b : Bins α) (u : List α) : Prop :=
  ∃ c l, b = mk v c l ∧ ClosedOK v B c ∧ binSum (cap v B) l < 2 * B ∧ (c.flatten ++ l ++ u).Perm items

/-- state at a loop head: the open bin is below `B` -/
def St (v : α → Nat) (B : Nat) (items : List α) (b : Bins α) (u : List α) : Prop :=
  ∃ c l, b = mk v c l ∧ ClosedOK v B c ∧ binSum v l < B ∧ (c.flatten ++ l ++ u).Perm items

variable {v : α → Nat} {B : Nat} {items : List α}

theorem St.toOpen {b : Bins α} {u : List α} (h : St v B items b u) : StOpen v B items b u := by
  obtain ⟨c, l, rfl, hc, hl, hp⟩ := h
  refine ⟨c, l, rfl, hc, ?_, hp⟩
  have := binSum_cap_le v B l
  omega

theorem St.perm {b : Bins α} {u u' : List α} (h : St v B items b u) (hu : u.Perm u') :
    St v B items b u' := by
  obtain ⟨c, l, rfl, hc, hl, hp⟩ := h
  exact ⟨c, l, rfl, hc, hl, ((List.Perm.append_left _ hu).symm).trans hp⟩

theorem StOpen.perm {b : Bins α} {u u' : List α} (h : StOpen v B items b u) (hu : u.Perm u') :
    StOpen v B items b u' := by
  obtain ⟨c, l, rfl, hc, hl, hp⟩ := h
  exact ⟨c, l, rfl, hc, hl, ((List.Perm.append_left _ hu).symm).trans hp⟩

theorem St.init (v : α → Nat) {B : Nat} (hB : 0 < B) {items u : List α} (h : u.Perm items) :
    St v B items (Bins.new 1) u := by
  refine ⟨[], [], new_one v, ?_, hB, by simpa using h⟩
  intro g hg; cases hg

theorem StOpen.add {b : Bins α} {u : List α} {x : α} (h : StOpen v B items b (x :: u))
    (hlt : b.lastSum < B) : StOpen v B items (b.addLast v x) u := by
  obtain ⟨c, l, rfl, hc, hl, hp⟩ := h
  rw [lastSum_mk] at hlt
  refine ⟨c, l ++ [x], addLast_mk v c l x, hc, ?_, by simpa [List.append_assoc] using hp⟩
  have := binSum_cap_le v B l
  simp only [binSum_append, binSum_cons, binSum_nil, cap] at *
  omega

theorem St.add {b : Bins α} {u : List α} {x : α} (h : St v B items b (x :: u)) :
    StOpen v B items (b.addLast v x) u := by
  have hlt : b.lastSum < B := by
    obtain ⟨c, l, rfl, hc, hl, hp⟩ := h
    rw [lastSum_mk]; exact hl
  exact h.toOpen.add hlt

theorem St.add2 {b : Bins α} {u : List α} {y₁ y₂ : α} (h : St v B items b (y₁ :: y₂ :: u))
    (h₁ : 2 * v y₁ < B) (h₂ : 2 * v y₂ < B) :
    StOpen v B items ((b.addLast v y₁).addLast v y₂) u := by
  obtain ⟨c, l, rfl, hc, hl, hp⟩ := h
  refine ⟨c, l ++ [y₁] ++ [y₂], by rw [addLast_mk, addLast_mk], hc, ?_,
    by simpa [List.append_assoc] using hp⟩
  have := binSum_cap_le v B l
  simp only [binSum_append, binSum_cons, binSum_nil, cap] at *
  omega

theorem StOpen.close {b : Bins α} {u : List α} (hB : 0 < B) (h : StOpen v B items b u) :
    St v B items (closeIfFull B b) u := by
  obtain ⟨c, l, rfl, hc, hl, hp⟩ := h
  unfold closeIfFull
  rw [lastSum_mk]
  split
  · refine ⟨c ++ [l], [], addEmpty_mk v c l, ?_, hB, by simpa [List.append_assoc] using hp⟩
    intro g hg
    rcases List.mem_append.1 hg with hg | hg
    · exact hc g hg
    · rw [List.mem_singleton.1 hg]; exact ⟨by assumption, hl⟩
  · exact ⟨c, l, rfl, hc, by omega, hp⟩

theorem St.step {b : Bins α} {u : List α} {x : α} (hB : 0 < B) (h : St v B items b (x :: u)) :
    St v B items (coverStep v B b x) u :=
  h.add.close hB

theorem St.decrSub (hB : 0 < B) {u : List α} : ∀ {b : Bins α} {w : List α},
    St v B items b (u ++ w) → St v B items (decrSub v B b u) w := by
  induction u with
  | nil => intro b w h; exact h
  | cons x u ih => intro b w h; exact ih (St.step hB h)

/-- `fillFromSmall` keeps the invariant (whatever the fuel); `w` are unplaced items it does not see -/
theorem StOpen.fill (w : List α) : ∀ (fuel : Nat) {b : Bins α} {u : List α},
    StOpen v B items b (w ++ u) →
    StOpen v B items (fillFromSmall v B fuel b u).1 (w ++ (fillFromSmall v B fuel b u).2) ∧
      (fillFromSmall v B fuel b u).2.length ≤ u.length := by
  intro fuel
  induction fuel with
  | zero => intro b u h; exact ⟨h, Nat.le_refl _⟩
  | succ fuel ih =>
    intro b u h
    unfold fillFromSmall
    split
    · split
      · exact ⟨h, Nat.le_refl _⟩
      · rename_i x hx
        obtain ⟨ys, rfl⟩ := List.getLast?_eq_some_iff.1 hx
        rw [List.dropLast_concat]
        have h' : StOpen v B items (b.addLast v x) (w ++ ys) := by
          refine StOpen.add (h.perm ?_) (by assumption)
          rw [← List.append_assoc]
          exact List.perm_append_comm
        have := ih h'
        refine ⟨this.1, ?_⟩
        have := this.2
        simp only [List.length_append, List.length_cons, List.length_nil]
        omega
    · exact ⟨h, Nat.le_refl _⟩

theorem St.twoThirdsLoop_spec (hB : 0 < B) : ∀ (fuel : Nat) {b : Bins α} {u : List α},
    St v B items b u → u.length ≤ fuel → St v B items (twoThirdsLoop v B fuel b u) [] := by
  intro fuel
  induction fuel with
  | zero =>
    intro b u h hu
    have : u = [] := List.eq_nil_of_length_eq_zero (by omega)
    subst this; exact h
  | succ fuel ih =>
    intro b u h hu
    cases u with
    | nil => exact h
    | cons x rest =>
      simp only [Prtpy.twoThirdsLoop]
      have h1 := StOpen.fill [] rest.length (u := rest) (by simpa using h.add)
      simp only [List.nil_append] at h1
      refine ih (h1.1.close hB) ?_
      have := h1.2
      simp only [List.length_cons] at hu
      omega

theorem St.threeQuartersLoop_spec (hB : 0 < B) :
    ∀ (fuel : Nat) {b : Bins α} {big med small : List α},
    St v B items b (big ++ med ++ small) → (∀ y ∈ med, 2 * v y < B ∧ 0 < v y) →
    big.length + med.length < fuel →
    St v B items (threeQuartersLoop v B fuel b big med small) [] := by
  intro fuel
  induction fuel with
  | zero => intro b big med small h hm hf; omega
  | succ fuel ih =>
    intro b big med small h hm hf
    unfold Prtpy.threeQuartersLoop
    by_cases hs : small.isEmpty = true
    · rw [if_pos hs]
      have : small = [] := List.isEmpty_iff.1 hs
      subst this
      rw [List.append_assoc] at h
      have h1 := St.decrSub hB h
      exact St.decrSub hB (w := []) h1
    · rw [if_neg hs]
      by_cases hbm : (big.isEmpty && med.isEmpty) = true
      · rw [if_pos hbm]
        rw [Bool.and_eq_true, List.isEmpty_iff, List.isEmpty_iff] at hbm
        obtain ⟨rfl, rfl⟩ := hbm
        exact St.decrSub hB (w := []) (by simpa using h)
      · rw [if_neg hbm]
        rw [Bool.and_eq_true, List.isEmpty_iff, List.isEmpty_iff] at hbm
        by_cases hub : binSum v (med.take 2) ≤ binSum v (big.take 1)
        · simp only [hub, decide_true, if_true]
          cases big with
          | nil =>
            exfalso
            cases med with
            | nil => exact hbm ⟨rfl, rfl⟩
            | cons y med' =>
              have := (hm y (List.mem_cons_self ..)).2
              cases med' <;> simp [binSum_cons, binSum_nil] at hub <;> omega
          | cons x big' =>
            simp only [List.take_succ_cons, List.take_zero, List.foldl_cons, List.foldl_nil,
              List.drop_succ_cons, List.drop_zero]
            have h1 := StOpen.fill (big' ++ med) small.length (u := small)
              (by simpa [List.append_assoc] using h.add)
            refine ih (h1.1.close hB) hm ?_
            simp only [List.length_cons] at hf
            omega
        · simp only [hub, decide_false, if_false, Bool.false_eq_true]
          cases med with
          | nil => exfalso; apply hub; simp [binSum_nil]
          | cons y₁ med' =>
            have hy₁ := (hm y₁ (List.mem_cons_self ..)).1
            cases med' with
            | nil =>
              simp only [List.take_succ_cons, List.take_nil, List.foldl_cons, List.foldl_nil,
                List.drop_succ_cons, List.drop_nil]
              have h0 : St v B items b (y₁ :: (big ++ [] ++ small)) := by
                refine h.perm ?_
                simp only [List.append_assoc, List.cons_append, List.nil_append]
                exact List.perm_middle
              have h1 := StOpen.fill (big ++ []) small.length (u := small) h0.add
              refine ih (h1.1.close hB) (by intro y hy; cases hy) ?_
              simp only [List.length_cons, List.length_nil] at hf ⊢
              omega
            | cons y₂ med'' =>
              have hy₂ := (hm y₂ (by simp)).1
              simp only [List.take_succ_cons, List.take_zero, List.foldl_cons, List.foldl_nil,
                List.drop_succ_cons, List.drop_zero]
              have h0 : St v B items b (y₁ :: y₂ :: (big ++ med'' ++ small)) := by
                refine h.perm ?_
                simp only [List.append_assoc, List.cons_append]
                exact (List.perm_middle.trans (List.Perm.cons _ List.perm_middle))
              have h1 := StOpen.fill (big ++ med'') small.length (u := small) (h0.add2 hy₁ hy₂)
              refine ih (h1.1.close hB) (fun y hy => hm y (by simp [hy])) ?_
              simp only [List.length_cons] at hf
              omega

/-! ### sorting and the three item classes -/

theorem insertDesc_perm (key : α → Nat) (x : α) (l : List α) : (insertDesc key x l).Perm (x :: l) := by
  induction l with
  | nil => exact List.Perm.refl _
  | cons y ys ih =>
    unfold insertDesc
    split
    · exact List.Perm.refl _
    · exact (List.Perm.cons y ih).trans (List.Perm.swap x y ys)

theorem sortDesc_perm (key : α → Nat) (l : List α) : (sortDesc key l).Perm l := by
  induction l with
  | nil => exact List.Perm.refl _
  | cons x xs ih => exact (insertDesc_perm key x _).trans (List.Perm.cons x ih)

theorem classes_perm (v : α → Nat) (B : Nat) (s : List α) :
    (s.filter (isBig v B) ++ s.filter (isMedium v B) ++ s.filter (isSmall v B)).Perm s := by
  induction s with
  | nil => exact List.Perm.refl _
  | cons x s ih =>
    have hx : (isBig v B x = true ∧ isMedium v B x = false ∧ isSmall v B x = false) ∨
        (isBig v B x = false ∧ isMedium v B x = true ∧ isSmall v B x = false) ∨
        (isBig v B x = false ∧ isMedium v B x = false ∧ isSmall v B x = true) := by
      simp only [isBig, isMedium, isSmall, Bool.and_eq_true, Bool.and_eq_false_iff,
        decide_eq_true_eq, decide_eq_false_iff_not]
      omega
    rcases hx with ⟨h1, h2, h3⟩ | ⟨h1, h2, h3⟩ | ⟨h1, h2, h3⟩
    · simp only [List.filter_cons, h1, h2, h3, if_true, List.cons_append, Bool.false_eq_true, if_false]
      exact List.Perm.cons x ih
    · simp only [List.filter_cons, h1, h2, h3, if_true, Bool.false_eq_true, if_false]
      refine List.Perm.trans ?_ (List.Perm.cons x ih)
      simp only [List.append_assoc, List.cons_append]
      exact List.perm_middle
    · simp only [List.filter_cons, h1, h2, h3, if_true, Bool.false_eq_true, if_false]
      refine List.Perm.trans ?_ (List.Perm.cons x ih)
      exact List.perm_middle

/-! ### what the final state gives -/

theorem St.isCover {b : Bins α} (h : St v B items b []) : IsCover v B items (b.removeLast 1) := by
  obtain ⟨c, l, rfl, hc, hl, hp⟩ := h
  rw [removeLast_mk]
  refine ⟨rfl, ?_, l, by simpa using hp, hl⟩
  intro s hs
  obtain ⟨g, hg, rfl⟩ := List.mem_map.1 hs
  exact (hc g hg).1

/-! ### the three runs end in a final state -/

theorem coverDecreasing_St (hB : 0 < B) :
    St v B items (decrSub v B (Bins.new 1) (sortDesc v items)) [] :=
  St.decrSub hB (w := []) (St.init v hB (by simpa using sortDesc_perm v items))

theorem twoThirds_St (hB : 0 < B) :
    St v B items (twoThirdsLoop v B (sortDesc v items).length (Bins.new 1) (sortDesc v items)) [] :=
  St.twoThirdsLoop_spec hB _ (St.init v hB (sortDesc_perm v items)) (Nat.le_refl _)

theorem threeQuarters_St (hB : 0 < B) :
    St v B items (threeQuartersLoop v B ((sortDesc v items).length + 1) (Bins.new 1)
      ((sortDesc v items).filter (isBig v B)) ((sortDesc v items).filter (isMedium v B))
      ((sortDesc v items).filter (isSmall v B))) [] := by
  have hp := classes_perm v B (sortDesc v items)
  refine St.threeQuartersLoop_spec hB _ (St.init v hB (hp.trans (sortDesc_perm v items))) ?_ ?_
  · intro y hy
    have := (List.mem_filter.1 hy).2
    simp only [isMedium, Bool.and_eq_true, decide_eq_true_eq] at this
    omega
  · have := hp.length_eq
    simp only [List.length_append] at this
    omega

/-! ### C05: validity -/

theorem coverDecreasing_isCover (hB : 0 < B) : IsCover v B items (coverDecreasing v B items) :=
  (coverDecreasing_St hB).isCover

example : IsCover id 10 [1, 6, 3, 5, 2, 4] (coverDecreasing id 10 [1, 6, 3, 5, 2, 4]) :=
  coverDecreasing_isCover (by decide)
example : (coverDecreasing id 10 [1, 6, 3, 5, 2, 4]).lists = [[6, 5], [4, 3, 2, 1]] := by decide

theorem twoThirds_isCover (hB : 0 < B) : IsCover v B items (twoThirds v B items) :=
  (twoThirds_St hB).isCover

example : IsCover id 10 [1, 6, 3, 5, 2, 4] (twoThirds id 10 [1, 6, 3, 5, 2, 4]) :=
  twoThirds_isCover (by decide)
example : (twoThirds id 10 [1, 6, 3, 5, 2, 4]).lists = [[6, 1, 2, 3]] := by decide

theorem threeQuarters_isCover (hB : 0 < B) : IsCover v B items (threeQuarters v B items) :=
  (threeQuarters_St hB).isCover

example : IsCover id 12 [1, 6, 3, 5, 2, 4, 4, 7] (threeQuarters id 12 [1, 6, 3, 5, 2, 4, 4, 7]) :=
  threeQuarters_isCover (by decide)
example : (threeQuarters id 12 [1, 6, 3, 5, 2, 4, 4, 7]).lists = [[5, 4, 1, 2], [7, 3, 6]] := by decide

/-! ### C10, first clause: a valid cover is a witness for `Coverable` -/

/-- list formulation of "`m` bins can be covered" -/
def CoverableL (B m : Nat) (vals : List Nat) : Prop :=
  ∃ groups : List (List Nat), groups.length = m ∧ (∀ g ∈ groups, B ≤ sumL g) ∧
    ∃ rest, (groups.flatten ++ rest).Perm vals

/-- one step of `sumsOf` -/
def addAt (s : List Nat) (p : Nat × Nat) : List Nat := s.modify p.2 (· + p.1)

theorem sumsOf_eq (k : Nat) (vals asg : List Nat) :
    sumsOf k vals asg = (vals.zip asg).foldl addAt (List.replicate k 0) := rfl

theorem addAt_comm (s : List Nat) (p q : Nat × Nat) : addAt (addAt s p) q = addAt (addAt s q) p := by
  apply List.ext_getElem?
  intro i
  simp only [addAt, List.getElem?_modify]
  cases s[i]? with
  | none => rfl
  | some a =>
    simp only [Option.map_eq_map, Option.map_some, Option.some.injEq]
    split <;> split <;> omega

theorem foldl_addAt_perm {ps ps' : List (Nat × Nat)} (h : ps.Perm ps') (s : List Nat) :
    ps.foldl addAt s = ps'.foldl addAt s :=
  h.foldl_eq' (fun x _ y _ z => addAt_comm z x y) s

/-- tag every value of the `j`-th group with the bin index `o + j` -/
def tag : List (List Nat) → Nat → List (Nat × Nat)
  | [], _ => []
  | g :: G, o => g.map (fun x => (x, o)) ++ tag G (o + 1)

theorem tag_fst (G : List (List Nat)) : ∀ o, (tag G o).map Prod.fst = G.flatten := by
  induction G with
  | nil => intro o; rfl
  | cons g G ih =>
    intro o
    simp only [tag, List.map_append, List.map_map, List.flatten_cons, ih]
    congr 1
    induction g with
    | nil => rfl
    | cons x g ihg => simpa using ihg

theorem tag_snd (G : List (List Nat)) : ∀ o, ∀ p ∈ tag G o, p.2 < o + G.length := by
  induction G with
  | nil => intro o p hp; cases hp
  | cons g G ih =>
    intro o p hp
    simp only [tag, List.mem_append, List.mem_map] at hp
    simp only [List.length_cons]
    rcases hp with ⟨x, _, rfl⟩ | hp
    · simp only; omega
    · have := ih (o + 1) p hp; omega

theorem foldl_addAt_group (pre post : List Nat) (g : List Nat) : ∀ a : Nat,
    (g.map (fun x => (x, pre.length))).foldl addAt (pre ++ a :: post) = pre ++ (a + sumL g) :: post := by
  induction g with
  | nil => intro a; rfl
  | cons x g ih =>
    intro a
    simp only [List.map_cons, List.foldl_cons, addAt, modify_length_append', ih, sumL, Nat.add_assoc]

theorem foldl_addAt_tag (G : List (List Nat)) : ∀ pre : List Nat,
    (tag G pre.length).foldl addAt (pre ++ List.replicate G.length 0) = pre ++ G.map sumL := by
  induction G with
  | nil => intro pre; rfl
  | cons g G ih =>
    intro pre
    simp only [tag, List.foldl_append, List.length_cons, List.replicate_succ, foldl_addAt_group,
      Nat.zero_add, List.map_cons]
    have := ih (pre ++ [sumL g])
    simpa [List.append_assoc] using this

theorem perm_lift {l₁ l₂ : List Nat} (h : l₁.Perm l₂) : ∀ ps : List (Nat × Nat),
    ps.map Prod.fst = l₁ → ∃ ps' : List (Nat × Nat), ps'.Perm ps ∧ ps'.map Prod.fst = l₂ := by
  induction h with
  | nil => intro ps h; exact ⟨ps, List.Perm.refl _, h⟩
  | cons x _ ih =>
    intro ps h
    cases ps with
    | nil => cases h
    | cons p ps =>
      simp only [List.map_cons, List.cons.injEq] at h
      obtain ⟨ps', hp, hf⟩ := ih ps h.2
      exact ⟨p :: ps', hp.cons p, by simp [h.1, hf]⟩
  | swap x y l =>
    intro ps h
    cases ps with
    | nil => cases h
    | cons p ps =>
      cases ps with
      | nil => simp at h
      | cons q ps =>
        simp only [List.map_cons, List.cons.injEq] at h
        exact ⟨q :: p :: ps, List.Perm.swap p q ps, by simp [h.1, h.2.1, h.2.2]⟩
  | trans _ _ ih₁ ih₂ =>
    intro ps h
    obtain ⟨ps₁, hp₁, hf₁⟩ := ih₁ ps h
    obtain ⟨ps₂, hp₂, hf₂⟩ := ih₂ ps₁ hf₁
    exact ⟨ps₂, hp₂.trans hp₁, hf₂⟩

/-- the bridge: groups of values that are (with a remainder) a permutation of `vals` give an assignment -/
theorem coverableL_coverable {B m : Nat} {vals : List Nat} (h : CoverableL B m vals) :
    Coverable B m vals := by
  obtain ⟨G, hlen, hG, rest, hp⟩ := h
  have hlen' : (G ++ [rest]).length = m + 1 := by simp [hlen]
  have hfst : (tag (G ++ [rest]) 0).map Prod.fst = G.flatten ++ rest := by
    rw [tag_fst]; simp
  obtain ⟨ps, hps, hf⟩ := perm_lift hp _ hfst
  have hzip : vals.zip (ps.map Prod.snd) = ps := (List.zip_of_prod hf rfl).symm
  refine ⟨ps.map Prod.snd, ⟨?_, ?_⟩, ?_⟩
  · rw [← hf]; simp
  · intro a ha
    obtain ⟨p, hp', rfl⟩ := List.mem_map.1 ha
    have := tag_snd (G ++ [rest]) 0 p (hps.mem_iff.1 hp')
    omega
  · rw [sumsOf_eq, hzip, foldl_addAt_perm hps]
    have := foldl_addAt_tag (G ++ [rest]) []
    rw [hlen'] at this
    simp only [List.length_nil, List.nil_append] at this
    rw [this, List.map_append, List.take_left' (by simp [hlen])]
    intro s hs
    obtain ⟨g, hg, rfl⟩ := List.mem_map.1 hs
    exact hG g hg

theorem isCover_coverableL {b : Bins α} (h : IsCover v B items b) :
    CoverableL B b.lists.length (items.map v) := by
  obtain ⟨hs, hge, rest, hp, _⟩ := h
  refine ⟨b.lists.map (List.map v), by simp, ?_, rest.map v, ?_⟩
  · intro g hg
    obtain ⟨l, hl, rfl⟩ := List.mem_map.1 hg
    apply hge
    rw [hs]
    exact List.mem_map.2 ⟨l, hl, rfl⟩
  · have := hp.map v
    simpa [List.map_flatten] using this

theorem cover_le_opt {b : Bins α} (_hB : 0 < B) (h : IsCover v B items b) :
    Coverable B b.lists.length (items.map v) :=
  coverableL_coverable (isCover_coverableL h)

example : Coverable 10 2 [1, 6, 3, 5, 2, 4] :=
  cover_le_opt (v := id) (items := [1, 6, 3, 5, 2, 4]) (b := coverDecreasing id 10 [1, 6, 3, 5, 2, 4])
    (by decide) (coverDecreasing_isCover (by decide))

/-! ### the converse bridge: an assignment gives groups -/

theorem map_sumL_modify (G : List (List Nat)) : ∀ (i x : Nat),
    (G.map sumL).modify i (· + x) = (G.modify i (x :: ·)).map sumL := by
  induction G with
  | nil => intro i x; simp
  | cons g G ih =>
    intro i x
    cases i with
    | zero => simp [sumL, Nat.add_comm]
    | succ i => simp [ih]

theorem flatten_modify_cons_perm (G : List (List Nat)) : ∀ (i x : Nat), i < G.length →
    (G.modify i (x :: ·)).flatten.Perm (x :: G.flatten) := by
  induction G with
  | nil => intro i x h; cases h
  | cons g G ih =>
    intro i x h
    cases i with
    | zero => simp
    | succ i =>
      have := ih i x (by simpa using h)
      simp only [List.modify_succ_cons, List.flatten_cons]
      exact (List.Perm.append_left g this).trans List.perm_middle

theorem foldl_addAt_groups (ps : List (Nat × Nat)) : ∀ G : List (List Nat),
    (∀ p ∈ ps, p.2 < G.length) →
    ∃ G' : List (List Nat), G'.length = G.length ∧ ps.foldl addAt (G.map sumL) = G'.map sumL ∧
      G'.flatten.Perm (ps.map Prod.fst ++ G.flatten) := by
  induction ps with
  | nil => intro G _; exact ⟨G, rfl, rfl, List.Perm.refl _⟩
  | cons p ps ih =>
    intro G h
    have hp := h p (List.mem_cons_self ..)
    obtain ⟨G', hl, hf, hperm⟩ := ih (G.modify p.2 (p.1 :: ·))
      (fun q hq => by simpa using h q (List.mem_cons_of_mem _ hq))
    refine ⟨G', by simpa using hl, ?_, ?_⟩
    · rw [List.foldl_cons, addAt, map_sumL_modify, hf]
    · refine hperm.trans ?_
      simp only [List.map_cons, List.cons_append]
      exact (List.Perm.append_left _ (flatten_modify_cons_perm G p.2 p.1 hp)).trans List.perm_middle

theorem coverable_coverableL {B m : Nat} {vals : List Nat} (h : Coverable B m vals) :
    CoverableL B m vals := by
  obtain ⟨asg, ⟨hlen, hlt⟩, hs⟩ := h
  obtain ⟨G', hl, hf, hperm⟩ := foldl_addAt_groups (vals.zip asg) (List.replicate (m + 1) [])
    (fun p hp => by simpa using hlt p.2 (List.of_mem_zip hp).2)
  have hf' : sumsOf (m + 1) vals asg = G'.map sumL := by
    rw [sumsOf_eq, ← hf]; simp [sumL]
  simp only [List.length_replicate] at hl
  refine ⟨G'.take m, by simp [hl], ?_, (G'.drop m).flatten, ?_⟩
  · intro g hg
    apply hs
    rw [hf', ← List.map_take]
    exact List.mem_map.2 ⟨g, hg, rfl⟩
  · rw [← List.flatten_append, List.take_append_drop]
    refine hperm.trans ?_
    have : (vals.zip asg).map Prod.fst = vals := List.map_fst_zip (by omega)
    simp [this]

theorem coverable_iff_coverableL {B m : Nat} {vals : List Nat} :
    Coverable B m vals ↔ CoverableL B m vals :=
  ⟨coverable_coverableL, coverableL_coverable⟩

/-! ### C10, factor 1/2: every coverable `m` is at most twice the number of bins produced -/

theorem sumL_cap_ge (B : Nat) (g : List Nat) : min B (sumL g) ≤ sumL (g.map (fun x => min x B)) := by
  induction g with
  | nil => simp [sumL]
  | cons x g ih => simp only [sumL, List.map_cons] at *; omega

theorem groups_weight (B : Nat) (G : List (List Nat)) (hG : ∀ g ∈ G, B ≤ sumL g) :
    G.length * B ≤ sumL (G.flatten.map (fun x => min x B)) := by
  induction G with
  | nil => simp
  | cons g G ih =>
    have h1 := sumL_cap_ge B g
    have h2 := hG g (List.mem_cons_self ..)
    have h3 := ih (fun g' hg' => hG g' (List.mem_cons_of_mem _ hg'))
    simp only [List.flatten_cons, List.map_append, sumL_append, List.length_cons, Nat.succ_mul]
    omega

theorem binSum_cap_eq (v : α → Nat) (B : Nat) (l : List α) :
    binSum (cap v B) l = sumL ((l.map v).map (fun x => min x B)) := by
  simp only [binSum, List.map_map]
  rfl

theorem coverableL_weight {m : Nat} (h : CoverableL B m (items.map v)) :
    m * B ≤ binSum (cap v B) items := by
  obtain ⟨G, rfl, hG, rest, hp⟩ := h
  rw [binSum_cap_eq, ← sumL_perm (hp.map _), List.map_append, sumL_append]
  have := groups_weight B G hG
  omega

theorem closed_weight {c : List (List α)} (hc : ClosedOK v B c) :
    binSum (cap v B) c.flatten + c.length ≤ 2 * B * c.length := by
  induction c with
  | nil => simp [binSum_nil]
  | cons g c ih =>
    have h1 := (hc g (List.mem_cons_self ..)).2
    have h2 := ih (fun g' hg' => hc g' (List.mem_cons_of_mem _ hg'))
    simp only [List.flatten_cons, binSum_append, List.length_cons, Nat.mul_succ]
    omega

theorem St.half {b : Bins α} (h : St v B items b []) {m : Nat}
    (hm : CoverableL B m (items.map v)) : m ≤ 2 * (b.removeLast 1).lists.length := by
  obtain ⟨c, l, rfl, hc, hl, hp⟩ := h
  rw [removeLast_mk]
  simp only
  have h1 := coverableL_weight hm
  have h2 := closed_weight hc
  have h3 := binSum_cap_le v B l
  have h4 : binSum (cap v B) items = binSum (cap v B) c.flatten + binSum (cap v B) l := by
    rw [← binSum_perm _ hp]; simp [binSum_append]
  have h5 : m * B < (2 * c.length + 1) * B := by
    rw [Nat.add_mul, Nat.one_mul, Nat.mul_right_comm]
    omega
  have := Nat.lt_of_mul_lt_mul_right h5
  omega

theorem coverDecreasing_half {m : Nat} (hB : 0 < B) (hc : CoverableL B m (items.map v)) :
    m ≤ 2 * (coverDecreasing v B items).lists.length :=
  (coverDecreasing_St hB).half hc

theorem twoThirds_half {m : Nat} (hB : 0 < B) (hc : CoverableL B m (items.map v)) :
    m ≤ 2 * (twoThirds v B items).lists.length :=
  (twoThirds_St hB).half hc

theorem threeQuarters_half {m : Nat} (hB : 0 < B) (hc : CoverableL B m (items.map v)) :
    m ≤ 2 * (threeQuarters v B items).lists.length :=
  (threeQuarters_St hB).half hc

/-- the hypothesis of the `*_half` theorems on a concrete input: two bins of size 10 can be covered -/
theorem coverableL_example : CoverableL 10 2 ([9, 9, 1, 1].map id) :=
  ⟨[[9, 1], [9, 1]], rfl, by decide, [], by decide⟩

/-- the factor 2 is attained by `coverDecreasing` -/
example : 2 ≤ 2 * (coverDecreasing id 10 [9, 9, 1, 1]).lists.length :=
  coverDecreasing_half (by decide) coverableL_example
example : (coverDecreasing id 10 [9, 9, 1, 1]).lists = [[9, 9]] := by decide
example : 2 ≤ 2 * (twoThirds id 10 [9, 9, 1, 1]).lists.length :=
  twoThirds_half (by decide) coverableL_example
example : 2 ≤ 2 * (threeQuarters id 10 [9, 9, 1, 1]).lists.length :=
  threeQuarters_half (by decide) coverableL_example

/-! ### the same against `Spec.Coverable` -/

theorem coverDecreasing_half_coverable {m : Nat} (hB : 0 < B) (hc : Coverable B m (items.map v)) :
    m ≤ 2 * (coverDecreasing v B items).lists.length :=
  coverDecreasing_half hB (coverable_coverableL hc)

theorem twoThirds_half_coverable {m : Nat} (hB : 0 < B) (hc : Coverable B m (items.map v)) :
    m ≤ 2 * (twoThirds v B items).lists.length :=
  twoThirds_half hB (coverable_coverableL hc)

theorem threeQuarters_half_coverable {m : Nat} (hB : 0 < B) (hc : Coverable B m (items.map v)) :
    m ≤ 2 * (threeQuarters v B items).lists.length :=
  threeQuarters_half hB (coverable_coverableL hc)

example : 2 ≤ 2 * (coverDecreasing id 10 [9, 9, 1, 1]).lists.length :=
  coverDecreasing_half_coverable (by decide) (coverableL_coverable coverableL_example)

/-
#print axioms coverDecreasing_isCover          -- [propext, Quot.sound]
#print axioms twoThirds_isCover                -- [propext, Quot.sound]
#print axioms threeQuarters_isCover            -- [propext, Classical.choice, Quot.sound]
#print axioms cover_le_opt                     -- [propext, Classical.choice, Quot.sound]
#print axioms coverable_iff_coverableL         -- [propext, Classical.choice, Quot.sound]
#print axioms coverDecreasing_half             -- [propext, Classical.choice, Quot.sound]
#print axioms twoThirds_half                   -- [propext, Classical.choice, Quot.sound]
#print axioms threeQuarters_half               -- [propext, Classical.choice, Quot.sound]
#print axioms coverDecreasing_half_coverable   -- [propext, Classical.choice, Quot.sound]
#print axioms twoThirds_half_coverable         -- [propext, Classical.choice, Quot.sound]
#print axioms threeQuarters_half_coverable     -- [propext, Classical.choice, Quot.sound]
-/

end Prtpy.Cover
