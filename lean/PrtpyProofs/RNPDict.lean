/-
  PrtpyProofs.RNPDict — property C07 for recursive number partitioning with four and five bins:
  **list input = dict input, the whole vector of sums** (`rnpF_list_dict_sums`).

  The even case of RNP iterates over the 2-way splits yielded by `ckkGen … 2 true items (some d0)`, the generator
  with the *contents* manager, whose `all_combinations` de-duplicates on contents: tuples of names for a dict,
  tuples of values for a list.  The run on bare values therefore sees the splits of the run on named items "up to
  duplicates": where the named run explores two combinations with the same value-contents, the value run explores
  one.  §1 gives the generator a big-step semantics `G` (the yields of the sub-tree of a heap; `run_yields`: the
  loop computes it), §2 shows that the yields of the named run *reduce* (`Red`) to those of the value run (`G_red`:
  heaps related by `HR` — same differences and value images, counters increasing on both sides so that the pops agree
  — have one child each, two children pairwise related, or two children of the named run related to the single child
  of the value run, `children_rel`), §0 that a fold which only keeps strict improvements of a state-free score
  cannot see the difference (`keep_fold_red`), §3 puts it together:

    `ckkGen_red`            the splits yielded on named items reduce to those yielded on their values
    `rnpRecF_four_values`, `rnpRecF_five_values`
    **`rnpF_list_dict_sums`**   `k ≤ 5 → 0 < k → rnpF v nm k c₁ items f₁ = .ok b₁ →
                                 rnpF id id k c₂ (items.map v) f₂ = .ok b₂ → b₂.sums = b₁.sums`
                             (arbitrary items, `[LawfulBEq α]`; k ∈ {2, 3} is `CKKDedupe.rnpF_list_dict_sums_partial_k_le_three`)
    **`rnpF_sums_any`**         two runs on the same items, any managers, any fuels: same sums (C06 with
                             independent fuels; `SumsOnly.rnpF_sums_manager_independent` needs equal fuels)
-/
import Prtpy
import PrtpyProofs.Part
import PrtpyProofs.Obj
import PrtpyProofs.Oracle
import PrtpyProofs.Natural
import PrtpyProofs.Natural2
import PrtpyProofs.AllComb
import PrtpyProofs.CKKValid
import PrtpyProofs.Total
import PrtpyProofs.CKKF
import PrtpyProofs.CKKFAux
import PrtpyProofs.CKKFSwitch
import PrtpyProofs.CKKFSwitch2
import PrtpyProofs.CKKFSwitch3
import PrtpyProofs.CKKDedupe
import Mathlib.Data.List.Perm.Basic
open Prtpy

namespace Prtpy.RNPDict

variable {α : Type}

/-! ## 0. a fold that keeps strict improvements does not see repeated blocks -/

/-- `X` reduces to `Y`: `X` is `Y` where some blocks are explored twice (each copy related to the same block of `Y`) -/
inductive Red {A B : Type} (E : A → B → Prop) : List A → List B → Prop
  | nil : Red E [] []
  | one {a : A} {b : B} : E a b → Red E [a] [b]
  | append {x1 x2 : List A} {y1 y2 : List B} : Red E x1 y1 → Red E x2 y2 → Red E (x1 ++ x2) (y1 ++ y2)
  | dupl {x1 x2 : List A} {y : List B} : Red E x1 y → Red E x2 y → Red E (x1 ++ x2) y

/-- the step of a fold that scores every element independently of the state and keeps strict improvements -/
def keepStep {A σ : Type} (g : A → Except Err σ) (key : σ → Nat) (st : σ) (a : A) : Except Err σ :=
  match g a with
  | .error e => .error e
  | .ok p => if key p < key st then .ok p else .ok st

theorem foldE_append {σ β : Type} (f : σ → β → Except Err σ) (s : σ) (l1 l2 : List β) :
    foldE f s (l1 ++ l2) = match foldE f s l1 with
      | .error e => .error e
      | .ok s1 => foldE f s1 l2 := by
  induction l1 generalizing s with
  | nil => rfl
  | cons x xs ih =>
    simp only [List.cons_append, foldE]
    cases f s x with
    | error e => rfl
    | ok s' => exact ih s'

/-- after the fold, the state is at least as good as the initial one and as every element -/
theorem keep_fold_le {A σ : Type} (g : A → Except Err σ) (key : σ → Nat) :
    ∀ (l : List A) (st r : σ), foldE (keepStep g key) st l = .ok r →
      key r ≤ key st ∧ ∀ a ∈ l, ∃ p, g a = .ok p ∧ key r ≤ key p := by
  intro l
  induction l with
  | nil => intro st r h; simp only [foldE] at h; cases h; exact ⟨Nat.le_refl _, fun _ h => by cases h⟩
  | cons a as ih =>
    intro st r h
    simp only [foldE] at h
    cases hs : keepStep g key st a with
    | error e => rw [hs] at h; cases h
    | ok st1 =>
      rw [hs] at h
      obtain ⟨h1, h2⟩ := ih st1 r h
      unfold keepStep at hs
      cases hg : g a with
      | error e => rw [hg] at hs; cases hs
      | ok p =>
        rw [hg] at hs
        simp only at hs
        have hst1 : key st1 ≤ key st ∧ key st1 ≤ key p := by
          split at hs
          · cases hs; omega
          · cases hs; omega
        refine ⟨by omega, ?_⟩
        intro b hb
        rcases List.mem_cons.1 hb with rfl | hb
        · exact ⟨p, hg, by omega⟩
        · exact h2 b hb

/-- a state at least as good as every element is left alone -/
theorem keep_fold_id {A σ : Type} (g : A → Except Err σ) (key : σ → Nat) :
    ∀ (l : List A) (st : σ), (∀ a ∈ l, ∃ p, g a = .ok p ∧ key st ≤ key p) → foldE (keepStep g key) st l = .ok st := by
  intro l
  induction l with
  | nil => intro st _; rfl
  | cons a as ih =>
    intro st h
    obtain ⟨p, hg, hp⟩ := h a List.mem_cons_self
    simp only [foldE, keepStep, hg]
    rw [if_neg (by omega)]
    exact ih st (fun b hb => h b (List.mem_cons_of_mem _ hb))

/-- **the fold lemma**: if `X` reduces to `Y` (related elements get related scores), the two folds end in related
    states -/
theorem keep_fold_red {A B σ τ : Type} (E : A → B → Prop) (g : A → Except Err σ) (g' : B → Except Err τ)
    (key : σ → Nat) (key' : τ → Nat) (S : σ → τ → Prop) (hS : ∀ s t, S s t → key s = key' t)
    (hE : ∀ a b p p', E a b → g a = .ok p → g' b = .ok p' → S p p') {X : List A} {Y : List B} (hr : Red E X Y) :
    ∀ (st r : σ) (st' r' : τ), S st st' → foldE (keepStep g key) st X = .ok r →
      foldE (keepStep g' key') st' Y = .ok r' → S r r' := by
  induction hr with
  | nil => intro st r st' r' hs h h'; simp only [foldE] at h h'; cases h; cases h'; exact hs
  | @one a b hab =>
    intro st r st' r' hs h h'
    simp only [foldE, keepStep] at h h'
    cases hg : g a with
    | error e => rw [hg] at h; cases h
    | ok p =>
      cases hg' : g' b with
      | error e => rw [hg'] at h'; cases h'
      | ok p' =>
        rw [hg] at h; rw [hg'] at h'
        have hp := hE a b p p' hab hg hg'
        simp only at h h'
        rw [hS _ _ hp, hS _ _ hs] at h
        by_cases hlt : key' p' < key' st'
        · rw [if_pos hlt] at h h'; simp only at h h'; cases h; cases h'; exact hp
        · rw [if_neg hlt] at h h'; simp only at h h'; cases h; cases h'; exact hs
  | @append x1 x2 y1 y2 _ _ ih1 ih2 =>
    intro st r st' r' hs h h'
    rw [foldE_append] at h h'
    cases h1 : foldE (keepStep g key) st x1 with
    | error e => rw [h1] at h; cases h
    | ok s1 =>
      cases h1' : foldE (keepStep g' key') st' y1 with
      | error e => rw [h1'] at h'; cases h'
      | ok s1' =>
        rw [h1] at h; rw [h1'] at h'
        exact ih2 s1 r s1' r' (ih1 st s1 st' s1' hs h1 h1') h h'
  | @dupl x1 x2 y _ _ ih1 ih2 =>
    intro st r st' r' hs h h'
    rw [foldE_append] at h
    cases h1 : foldE (keepStep g key) st x1 with
    | error e => rw [h1] at h; cases h
    | ok s1 =>
      rw [h1] at h
      have hs1 := ih1 st s1 st' r' hs h1 h'
      have hid : foldE (keepStep g' key') r' y = .ok r' :=
        keep_fold_id g' key' y r' (keep_fold_le g' key' y st' r' h').2
      exact ih2 s1 r r' r' hs1 h hid

/-! ## 1. big-step semantics of the generator with a fixed bound -/

/-- explore a list of heaps one after the other, threading the push counter -/
def thread (f : Nat → Heap α → List (Bins α) × Nat) : Nat → List (Heap α) → List (Bins α) × Nat
  | c, [] => ([], c)
  | c, g :: gs => ((f c g).1 ++ (thread f (f c g).2 gs).1, (thread f (f c g).2 gs).2)

theorem thread_append (f : Nat → Heap α → List (Bins α) × Nat) (c : Nat) (l1 l2 : List (Heap α)) :
    thread f c (l1 ++ l2) =
      ((thread f c l1).1 ++ (thread f (thread f c l1).2 l2).1, (thread f (thread f c l1).2 l2).2) := by
  induction l1 generalizing c with
  | nil => simp [thread]
  | cons g gs ih => simp only [List.cons_append, thread, ih, List.append_assoc]

theorem thread_congr {f f' : Nat → Heap α → List (Bins α) × Nat} {l : List (Heap α)}
    (h : ∀ g ∈ l, ∀ c, f c g = f' c g) (c : Nat) : thread f c l = thread f' c l := by
  induction l generalizing c with
  | nil => rfl
  | cons g gs ih =>
    simp only [thread, h g List.mem_cons_self]
    rw [ih (fun x hx => h x (List.mem_cons_of_mem _ hx))]

/-- the children of a heap, in the order in which they are explored, and the counter after the pushes -/
def children (nm : α → Nat) [BEq α] (c : Nat) (e1 e2 : HEntry α) (h2 : Heap α) : List (Heap α) × Nat :=
  let r := (allComb nm true e1.bins e2.bins).foldl (fun (acc : List (Heap α) × Nat) nb =>
              let p := hpush h2 acc.2 nb; (acc.1 ++ [p.1], p.2)) ([], c)
  ((sortDesc topDiffOf r.1).reverse, r.2)

/-- the partitions yielded while the sub-tree of `h` is explored (chronological order), and the push counter
    afterwards; the incumbent bound `B` never changes in this mode.  `n` is the number of tuples of `h`. -/
def G (nm : α → Nat) [BEq α] (k : Nat) (B : EInt) : Nat → Nat → Heap α → List (Bins α) × Nat
  | n, c, h =>
    if CKKValid.prunedB k h B then ([], c) else
    if h.length == 1 then
      if EInt.lt B (.fin (-((topDiffOf h : Nat) : Int))) then
        (match (htop h).map (·.bins) with | some b => [b] | none => [], c)
      else ([], c)
    else
      match n with
      | 0 => ([], c)
      | n + 1 =>
        match hpop h with
        | none => ([], c)
        | some (e1, h1) =>
          match hpop h1 with
          | none => ([], c)
          | some (e2, h2) => thread (G nm k B n) (children nm c e1 e2 h2).2 (children nm c e1 e2 h2).1

/-- the yields of a whole stack -/
def GS (nm : α → Nat) [BEq α] (k : Nat) (B : EInt) (c : Nat) (st : List (Heap α)) : List (Bins α) × Nat :=
  thread (fun c h => G nm k B h.length c h) c st

theorem children_length {nm : α → Nat} [BEq α] {c : Nat} {e1 e2 : HEntry α} {h2 g : Heap α}
    (hg : g ∈ (children nm c e1 e2 h2).1) : g.length = h2.length + 1 := by
  unfold children at hg
  simp only [List.mem_reverse] at hg
  rw [(Part.sortDesc_perm _ _).mem_iff] at hg
  rcases CKKValid.foldl_push_mem h2 _ _ g hg with h0 | ⟨nb, _, c', rfl⟩
  · cases h0
  · exact Total.hpush_length _ _ _

/-- one iteration of the generator loop (`gen = true`, `isBest = false`) in terms of `GS` -/
theorem genStep_spec (nm : α → Nat) [BEq α] (k : Nat) (s : CkkState α) (h : Heap α) (st : List (Heap α))
    (hs : s.stack = h :: st) :
    (ckkStep nm k true true false s).done = s.done ∧ (ckkStep nm k true true false s).best = s.best ∧
    ∃ ys, (ckkStep nm k true true false s).yields = ys.reverse ++ s.yields ∧
      (GS nm k s.best s.cnt (h :: st)).1 =
        ys ++ (GS nm k s.best (ckkStep nm k true true false s).cnt (ckkStep nm k true true false s).stack).1 := by
  rw [CKKValid.ckkStep_eq, hs]
  simp only []
  have hGS : GS nm k s.best s.cnt (h :: st) =
      ((G nm k s.best h.length s.cnt h).1 ++ (GS nm k s.best (G nm k s.best h.length s.cnt h).2 st).1,
       (GS nm k s.best (G nm k s.best h.length s.cnt h).2 st).2) := rfl
  rw [hGS]
  by_cases hpr : CKKValid.prunedB k h s.best = true
  · rw [if_pos hpr]
    refine ⟨rfl, rfl, [], rfl, ?_⟩
    have : G nm k s.best h.length s.cnt h = ([], s.cnt) := by
      unfold G; rw [if_pos hpr]
    simp [this]
  · rw [if_neg hpr]
    unfold CKKValid.stepBody
    by_cases hlen : (h.length == 1) = true
    · rw [if_pos hlen]
      simp only [Bool.false_or, Bool.not_true, Bool.and_false, Bool.false_eq_true, if_false]
      by_cases hlt : EInt.lt s.best (.fin (-((topDiffOf h : Nat) : Int))) = true
      · rw [if_pos hlt]
        have hG : G nm k s.best h.length s.cnt h =
            (match (htop h).map (·.bins) with | some b => [b] | none => [], s.cnt) := by
          unfold G; rw [if_neg hpr, if_pos hlen, if_pos hlt]
        rw [hG]
        cases htop h with
        | none => exact ⟨rfl, rfl, [], rfl, by simp⟩
        | some e => exact ⟨rfl, rfl, [e.bins], rfl, by simp⟩
      · rw [if_neg hlt]
        have hG : G nm k s.best h.length s.cnt h = ([], s.cnt) := by
          unfold G; rw [if_neg hpr, if_pos hlen, if_neg hlt]
        rw [hG]
        exact ⟨rfl, rfl, [], rfl, by simp⟩
    · rw [if_neg hlen]
      cases hp1 : hpop h with
      | none =>
        have hG : G nm k s.best h.length s.cnt h = ([], s.cnt) := by
          unfold G; rw [if_neg hpr, if_neg hlen]
          cases h.length with
          | zero => rfl
          | succ n => simp only [hp1]
        rw [hG]
        exact ⟨rfl, rfl, [], rfl, by simp⟩
      | some p1 =>
        obtain ⟨e1, h1⟩ := p1
        simp only []
        cases hp2 : hpop h1 with
        | none =>
          have hG : G nm k s.best h.length s.cnt h = ([], s.cnt) := by
            unfold G; rw [if_neg hpr, if_neg hlen]
            cases h.length with
            | zero => rfl
            | succ n => simp only [hp1, hp2]
          rw [hG]
          exact ⟨rfl, rfl, [], rfl, by simp⟩
        | some p2 =>
          obtain ⟨e2, h2⟩ := p2
          simp only []
          have hl1 := Total.hpop_length hp1
          have hl2 := Total.hpop_length hp2
          have hlen' : h.length = (h2.length + 1) + 1 := by omega
          have hG : G nm k s.best h.length s.cnt h =
              thread (G nm k s.best (h2.length + 1)) (children nm s.cnt e1 e2 h2).2 (children nm s.cnt e1 e2 h2).1 := by
            rw [hlen']
            unfold G
            rw [if_neg hpr]
            rw [if_neg hlen]
            simp only [hp1, hp2]
          have hcong : thread (G nm k s.best (h2.length + 1)) (children nm s.cnt e1 e2 h2).2
                (children nm s.cnt e1 e2 h2).1
              = thread (fun c h => G nm k s.best h.length c h) (children nm s.cnt e1 e2 h2).2
                (children nm s.cnt e1 e2 h2).1 :=
            thread_congr (fun g hg c => by simp only [children_length hg]) _
          refine ⟨by first | rfl | trivial, by first | rfl | trivial, [], rfl, ?_⟩
          rw [hG, hcong]
          show _ = [] ++ (thread (fun c h => G nm k s.best h.length c h) (children nm s.cnt e1 e2 h2).2
            ((children nm s.cnt e1 e2 h2).1 ++ st)).1
          rw [thread_append]
          rfl

/-- **the generator loop computes `GS`**: once the loop has stopped, the yields are those of the stack -/
theorem run_yields (nm : α → Nat) [BEq α] (k : Nat) :
    ∀ (fuel : Nat) (s : CkkState α), s.done = false → (ckkRun nm k true true false fuel s).done = true →
      (ckkRun nm k true true false fuel s).yields = (GS nm k s.best s.cnt s.stack).1.reverse ++ s.yields := by
  intro fuel
  induction fuel with
  | zero => intro s hd h; simp only [ckkRun] at h; rw [hd] at h; cases h
  | succ n ih =>
    intro s hd h
    simp only [ckkRun, hd, Bool.false_eq_true, if_false] at h ⊢
    cases hs : s.stack with
    | nil =>
      have hdone : (ckkStep nm k true true false s).done = true := by
        rw [CKKValid.ckkStep_eq, hs]
      rw [Total.ckkRun_of_done _ _ _ _ _ _ hdone]
      rw [CKKValid.ckkStep_eq, hs]
      simp [GS, thread]
    | cons g st =>
      obtain ⟨h1, h2, ys, h3, h4⟩ := genStep_spec nm k s g st hs
      rw [ih _ (h1.trans hd) h, h2, h3, h4]
      simp

/-! ## 2. the run on named items and the run on their bare values -/

/-- replace every bin by its image under `φ` -/
def mapLists {β : Type} (φ : List α → List β) (b : Bins α) : Bins β := ⟨b.sums, b.lists.map φ⟩

theorem zip_map_right' {β : Type} (φ : List α → List β) (s : List Nat) (ls : List (List α)) :
    s.zip (ls.map φ) = (s.zip ls).map (fun p => (p.1, φ p.2)) := by
  induction s generalizing ls with
  | nil => simp
  | cons a as ih =>
    cases ls with
    | nil => simp
    | cons l ls => simp [ih]

theorem sortAsc_mapLists {β : Type} (φ : List α → List β) (b : Bins α) :
    (mapLists φ b).sortAsc = mapLists φ b.sortAsc := by
  simp only [mapLists, Bins.sortAsc, zip_map_right']
  rw [Natural.sortAsc_map (fun p : Nat × List α => (p.1, φ p.2)) (fun p => p.1) (fun p => p.1) (fun _ => rfl)]
  simp only [List.map_map]
  constructor

/-- the values of a bin, in ascending order -/
def cvl (v : α → Nat) (l : List α) : List Nat := sortAsc id (l.map v)

/-- the value image of a bins-array -/
def CV (v : α → Nat) (b : Bins α) : Bins Nat := mapLists (cvl v) b

theorem cvl_nil (v : α → Nat) : cvl v [] = [] := rfl

theorem cvl_perm (v : α → Nat) {l1 l2 : List α} (h : l1.Perm l2) : cvl v l1 = cvl v l2 :=
  Oracle.sortAsc_eq_of_perm (h.map v)

theorem cvl_append (v : α → Nat) (a b : List α) : cvl v (a ++ b) = sortAsc id (cvl v a ++ cvl v b) := by
  unfold cvl
  apply Oracle.sortAsc_eq_of_perm
  rw [List.map_append]
  exact ((Part.sortAsc_perm id _).append (Part.sortAsc_perm id _)).symm

theorem cvl_id (l : List Nat) : cvl id l = sortAsc id l := by unfold cvl; rw [List.map_id]

theorem cvl_eq_perm {v : α → Nat} {l : List α} {l' : List Nat} (h : cvl v l = cvl id l') : (l.map v).Perm l' := by
  rw [cvl_id] at h
  exact ((Part.sortAsc_perm id _).symm.trans (h ▸ List.Perm.refl _)).trans (Part.sortAsc_perm id l')

theorem getD_map_cvl (v : α → Nat) (ls : List (List α)) (p : Nat) :
    (ls.map (cvl v)).getD p [] = cvl v (ls.getD p []) := by
  simp only [List.getD_eq_getElem?_getD, List.getElem?_map]
  cases ls[p]? <;> rfl

/-- the pairing of two value images -/
def PB (c1 c2 : Bins Nat) (perm : List Nat) : Bins Nat :=
  ⟨List.zipWith (fun p s2 => c1.sums.getD p 0 + s2) perm c2.sums,
   List.zipWith (fun p l2 => sortAsc id (c1.lists.getD p [] ++ l2)) perm c2.lists⟩

/-- **the value image of a canonical pairing depends only on the value images of the two tuples** -/
theorem CV_canonC (v nm : α → Nat) (b1 b2 : Bins α) (perm : List Nat) :
    CV v (AllComb.canonC nm b1 b2 perm) = (PB (CV v b1) (CV v b2) perm).sortAsc := by
  unfold AllComb.canonC CV
  rw [← sortAsc_mapLists]
  congr 1
  simp only [mapLists, PB, pairBy, List.map_map]
  congr 1
  generalize b2.lists = L2
  induction perm generalizing L2 with
  | nil => rfl
  | cons p ps ih =>
    cases L2 with
    | nil => rfl
    | cons l ls =>
      simp only [List.zipWith_cons_cons, List.map_cons, ih, Function.comp, getD_map_cvl]
      congr 1
      rw [cvl_perm v (Part.sortAsc_perm nm _), cvl_append]

/-- what the heap discipline (without the counters) and the values see of an entry -/
def key3 (v : α → Nat) (e : HEntry α) : Nat × Bins Nat := (e.diff, CV v e.bins)

/-- the heap on named items and the heap on values hold the same tuples, up to names -/
def HR (v : α → Nat) (h : Heap α) (g : Heap Nat) : Prop := h.map (key3 v) = g.map (key3 id)

/-- the counters increase along the heap and are below the next counter -/
def CntOK (c : Nat) (h : Heap α) : Prop := h.Pairwise (fun a b => a.cnt < b.cnt) ∧ ∀ e ∈ h, e.cnt < c

theorem cntOK_mono {c c' : Nat} {h : Heap α} (hc : c ≤ c') (h1 : CntOK c h) : CntOK c' h :=
  ⟨h1.1, fun e he => Nat.lt_of_lt_of_le (h1.2 e he) hc⟩

theorem hr_length {v : α → Nat} {h : Heap α} {g : Heap Nat} (hs : HR v h g) : h.length = g.length := by
  have := congrArg List.length hs
  simpa using this

theorem key3_eq {v : α → Nat} {e : HEntry α} {e' : HEntry Nat} (h : key3 v e = key3 id e') :
    e.diff = e'.diff ∧ CV v e.bins = CV id e'.bins := by
  simp only [key3, Prod.mk.injEq] at h
  exact h

/-- with increasing counters, the entry popped is the first one of largest difference -/
theorem hbestAux_pos {β : Type} (es : List (HEntry α)) (es' : List (HEntry β)) (i bi : Nat) (be : HEntry α)
    (be' : HEntry β) (hd : es.map (·.diff) = es'.map (·.diff)) (hbe : be.diff = be'.diff)
    (h1 : ∀ e ∈ es, be.cnt < e.cnt) (h2 : es.Pairwise (fun a b => a.cnt < b.cnt))
    (h1' : ∀ e ∈ es', be'.cnt < e.cnt) (h2' : es'.Pairwise (fun a b => a.cnt < b.cnt)) :
    hbestAux es i bi be = hbestAux es' i bi be' := by
  induction es generalizing es' i bi be be' with
  | nil =>
    cases es' with
    | nil => rfl
    | cons _ _ => simp at hd
  | cons e es ih =>
    cases es' with
    | nil => simp at hd
    | cons e' es' =>
      simp only [List.map_cons, List.cons.injEq] at hd
      rw [List.pairwise_cons] at h2 h2'
      have hb : e.before be = e'.before be' := by
        have c1 := h1 e List.mem_cons_self
        have c2 := h1' e' List.mem_cons_self
        simp only [HEntry.before, hd.1, hbe]
        have n1 : ¬ e.cnt < be.cnt := by omega
        have n2 : ¬ e'.cnt < be'.cnt := by omega
        simp [n1, n2]
      simp only [hbestAux, hb]
      split
      · exact ih es' (i + 1) i e e' hd.2 hd.1 h2.1 h2.2 h2'.1 h2'.2
      · exact ih es' (i + 1) bi be be' hd.2 hbe (fun x hx => h1 x (List.mem_cons_of_mem _ hx)) h2.2
          (fun x hx => h1' x (List.mem_cons_of_mem _ hx)) h2'.2

theorem removeAt_sublist' {γ : Type} (l : List γ) (i : Nat) : (removeAt l i).Sublist l :=
  CKKProofs.removeAt_sublist l i

theorem cntOK_sublist {c : Nat} {h h' : Heap α} (hs : h'.Sublist h) (h1 : CntOK c h) : CntOK c h' :=
  ⟨h1.1.sublist hs, fun e he => h1.2 e (hs.subset he)⟩

theorem hpop_sublist {h h' : Heap α} {e : HEntry α} (hp : hpop h = some (e, h')) : h'.Sublist h := by
  simp only [hpop, Option.map_eq_some_iff] at hp
  obtain ⟨⟨i, x⟩, _, hx⟩ := hp
  simp only [Prod.mk.injEq] at hx
  rw [← hx.2]
  exact removeAt_sublist' h i

/-- popping related heaps gives related entries and related rests -/
theorem hpop_rel {v : α → Nat} {h h' : Heap α} {g : Heap Nat} {e : HEntry α} {c c' : Nat} (hs : HR v h g)
    (hc : CntOK c h) (hc' : CntOK c' g) (hp : hpop h = some (e, h')) :
    ∃ e' g', hpop g = some (e', g') ∧ key3 v e = key3 id e' ∧ HR v h' g' := by
  unfold HR at hs
  cases h with
  | nil => simp [hpop, hbest] at hp
  | cons e0 es =>
    cases g with
    | nil => simp at hs
    | cons e0' es' =>
      have hs' := hs
      simp only [List.map_cons, List.cons.injEq] at hs'
      have hdl : es.map (·.diff) = es'.map (·.diff) := by
        have := congrArg (List.map Prod.fst) hs'.2
        rw [List.map_map, List.map_map] at this
        exact this
      have p1 := hc.1; have p2 := hc'.1
      rw [List.pairwise_cons] at p1 p2
      have hi := hbestAux_pos es es' 1 0 e0 e0' hdl (key3_eq hs'.1).1 p1.1 p1.2 p2.1 p2.2
      simp only [hpop, hbest, Option.map_map] at hp ⊢
      rw [← hi]
      generalize hbestAux es 1 0 e0 = i at hp ⊢
      have hget : ((e0 :: es)[i]?).map (key3 v) = ((e0' :: es')[i]?).map (key3 id) := by
        rw [← List.getElem?_map, ← List.getElem?_map, hs]
      cases hx : (e0 :: es)[i]? with
      | none => rw [hx] at hp; cases hp
      | some x =>
        rw [hx] at hp hget
        simp only [Option.map_some, Function.comp, Option.some.injEq, Prod.mk.injEq] at hp
        obtain ⟨rfl, rfl⟩ := hp
        cases hx' : (e0' :: es')[i]? with
        | none => rw [hx'] at hget; cases hget
        | some x' =>
          rw [hx'] at hget
          simp only [Option.map_some, Option.some.injEq] at hget
          refine ⟨x', removeAt (e0' :: es') i, rfl, hget, ?_⟩
          unfold HR
          rw [CKKValid.removeAt_map, CKKValid.removeAt_map, hs]

theorem hpop_nil_of_none {h : Heap α} (hp : hpop h = none) : h = [] := by
  cases h with
  | nil => rfl
  | cons e0 es =>
    obtain ⟨e, h', hp', _⟩ := Part.hpop_some (e0 :: es) (by simp)
    rw [hp] at hp'; cases hp'

theorem topDiff_rel {v : α → Nat} {h : Heap α} {g : Heap Nat} {c c' : Nat} (hs : HR v h g)
    (hc : CntOK c h) (hc' : CntOK c' g) : topDiffOf h = topDiffOf g := by
  unfold topDiffOf
  rw [CKKF.htop_eq_hpop, CKKF.htop_eq_hpop]
  cases hp : hpop h with
  | none =>
    have hh := hpop_nil_of_none hp
    subst hh
    have : g = [] := List.length_eq_zero_iff.1 (hr_length hs).symm
    subst this
    rfl
  | some p =>
    obtain ⟨e, h'⟩ := p
    obtain ⟨e', g', hp', hk, _⟩ := hpop_rel hs hc hc' hp
    rw [hp']
    simp [(key3_eq hk).1]

theorem prunedB_rel {v : α → Nat} {h : Heap α} {g : Heap Nat} (hs : HR v h g) (k : Nat) (B : EInt) :
    CKKValid.prunedB k h B = CKKValid.prunedB k g B := by
  have : h.flatMap (·.bins.sums) = g.flatMap (·.bins.sums) := by
    have e1 : h.flatMap (·.bins.sums) = (h.map (key3 v)).flatMap (·.2.sums) := by rw [List.flatMap_map]; rfl
    have e2 : g.flatMap (·.bins.sums) = (g.map (key3 id)).flatMap (·.2.sums) := by rw [List.flatMap_map]; rfl
    rw [e1, e2, hs]
  unfold CKKValid.prunedB ckkBound
  simp only [this]

/-- pushing tuples with the same value image -/
theorem hpush_rel {v : α → Nat} {h : Heap α} {g : Heap Nat} (c c' : Nat) {b : Bins α} {b' : Bins Nat}
    (hs : HR v h g) (hb : CV v b = CV id b') : HR v (hpush h c b).1 (hpush g c' b').1 := by
  unfold HR at *
  have e1 : CV v b.sortAsc = CV id b'.sortAsc := by
    unfold CV at *
    rw [← sortAsc_mapLists, ← sortAsc_mapLists, hb]
  have e2 : b.sortAsc.sums = b'.sortAsc.sums := congrArg Bins.sums e1
  simp only [hpush, List.map_append, hs, List.map_cons, List.map_nil, key3, e1, e2]

theorem hpush_cntOK {c : Nat} {h : Heap α} (b : Bins α) (hc : CntOK c h) : CntOK (c + 1) (hpush h c b).1 := by
  unfold hpush
  refine ⟨?_, ?_⟩
  · rw [List.pairwise_append]
    refine ⟨hc.1, List.pairwise_singleton _ _, ?_⟩
    intro a ha b hb
    rw [List.mem_singleton] at hb
    subst hb
    exact hc.2 a ha
  · intro e he
    rcases List.mem_append.1 he with he | he
    · exact Nat.lt_succ_of_lt (hc.2 e he)
    · rw [List.mem_singleton] at he; subst he; exact Nat.lt_succ_self _

/-! ### the children of related heaps (two bins: two pairings) -/

theorem lexPerms_two : lexPerms (List.range 2) = [[0, 1], [1, 0]] := by decide

/-- with two bins `all_combinations` tries two pairings and drops the second if its contents repeat the first -/
theorem allComb_two_eq (nm : α → Nat) [BEq α] [LawfulBEq α] (b1 b2 : Bins α) (h : b1.sums.length = 2)
    (hc : (AllComb.canonC nm b1 b2 [1, 0]).lists = (AllComb.canonC nm b1 b2 [0, 1]).lists) :
    allComb nm true b1 b2 = [AllComb.canonC nm b1 b2 [0, 1]] := by
  simp only [allComb, if_true]
  rw [CKKF.allCombContents_eq_firsts, h, lexPerms_two]
  simp only [List.map_cons, List.map_nil, CKKF.firsts]
  rw [if_neg (by simp), if_pos (List.contains_iff_mem.2 (by simp [hc]))]

theorem allComb_two_ne (nm : α → Nat) [BEq α] [LawfulBEq α] (b1 b2 : Bins α) (h : b1.sums.length = 2)
    (hc : (AllComb.canonC nm b1 b2 [1, 0]).lists ≠ (AllComb.canonC nm b1 b2 [0, 1]).lists) :
    allComb nm true b1 b2 = [AllComb.canonC nm b1 b2 [0, 1], AllComb.canonC nm b1 b2 [1, 0]] := by
  simp only [allComb, if_true]
  rw [CKKF.allCombContents_eq_firsts, h, lexPerms_two]
  simp only [List.map_cons, List.map_nil, CKKF.firsts]
  rw [if_neg (by simp), if_neg (fun hh => hc (by simpa using List.contains_iff_mem.1 hh))]

theorem children_one (nm : α → Nat) [BEq α] (c : Nat) (e1 e2 : HEntry α) (h2 : Heap α) (x : Bins α)
    (h : allComb nm true e1.bins e2.bins = [x]) : children nm c e1 e2 h2 = ([(hpush h2 c x).1], c + 1) := by
  unfold children; rw [h]; rfl

theorem children_two (nm : α → Nat) [BEq α] (c : Nat) (e1 e2 : HEntry α) (h2 : Heap α) (x0 x1 : Bins α)
    (h : allComb nm true e1.bins e2.bins = [x0, x1]) :
    children nm c e1 e2 h2 =
      ((sortDesc topDiffOf [(hpush h2 c x0).1, (hpush h2 (c + 1) x1).1]).reverse, c + 2) := by
  unfold children; rw [h]; rfl

theorem sortDesc_two {γ : Type} (key : γ → Nat) (a b : γ) :
    sortDesc key [a, b] = if key b ≤ key a then [a, b] else [b, a] := rfl

theorem foldl_push_cntOK (h2 : Heap α) (combs : List (Bins α)) :
    ∀ (acc : List (Heap α) × Nat), CntOK acc.2 h2 → (∀ d ∈ acc.1, CntOK acc.2 d) →
      CntOK (combs.foldl (fun (acc : List (Heap α) × Nat) nb =>
          let p := hpush h2 acc.2 nb; (acc.1 ++ [p.1], p.2)) acc).2 h2 ∧
      (∀ d ∈ (combs.foldl (fun (acc : List (Heap α) × Nat) nb =>
          let p := hpush h2 acc.2 nb; (acc.1 ++ [p.1], p.2)) acc).1,
        CntOK (combs.foldl (fun (acc : List (Heap α) × Nat) nb =>
          let p := hpush h2 acc.2 nb; (acc.1 ++ [p.1], p.2)) acc).2 d) ∧
      acc.2 ≤ (combs.foldl (fun (acc : List (Heap α) × Nat) nb =>
          let p := hpush h2 acc.2 nb; (acc.1 ++ [p.1], p.2)) acc).2 := by
  induction combs with
  | nil => intro acc h1 h2'; exact ⟨h1, h2', Nat.le_refl _⟩
  | cons nb rest ih =>
    intro acc h1 h2'
    simp only [List.foldl_cons]
    have hstep : (hpush h2 acc.2 nb).2 = acc.2 + 1 := rfl
    obtain ⟨r1, r2, r3⟩ := ih (acc.1 ++ [(hpush h2 acc.2 nb).1], (hpush h2 acc.2 nb).2)
      (by rw [hstep]; exact cntOK_mono (Nat.le_succ _) h1)
      (by
        intro d hd
        rw [hstep]
        rcases List.mem_append.1 hd with hd | hd
        · exact cntOK_mono (Nat.le_succ _) (h2' d hd)
        · rw [List.mem_singleton] at hd; subst hd; exact hpush_cntOK nb h1)
    exact ⟨r1, r2, Nat.le_trans (Nat.le_succ _) r3⟩

theorem children_cntOK {nm : α → Nat} [BEq α] {c : Nat} {e1 e2 : HEntry α} {h2 : Heap α} (hc : CntOK c h2) :
    (∀ d ∈ (children nm c e1 e2 h2).1, CntOK (children nm c e1 e2 h2).2 d) ∧ c ≤ (children nm c e1 e2 h2).2 := by
  obtain ⟨_, r2, r3⟩ := foldl_push_cntOK h2 (allComb nm true e1.bins e2.bins) ([], c) hc (fun _ h => by cases h)
  unfold children
  refine ⟨?_, r3⟩
  intro d hd
  simp only [List.mem_reverse] at hd
  rw [(Part.sortDesc_perm _ _).mem_iff] at hd
  exact r2 d hd

/-- the invariant of the entries of the run on values: consistent, two bins, every bin in ascending order -/
def EInvL (e : HEntry Nat) : Prop :=
  e.bins.Consistent id ∧ e.bins.sums.length = 2 ∧ ∀ l ∈ e.bins.lists, l.Pairwise (· ≤ ·)

def LInv (g : Heap Nat) : Prop := ∀ e ∈ g, EInvL e

theorem mem_sortAsc_lists {b : Bins α} {l : List α} (h : l ∈ b.sortAsc.lists) : l ∈ b.lists := by
  simp only [Bins.sortAsc, List.mem_map] at h
  obtain ⟨p, hp, rfl⟩ := h
  rw [(Part.sortAsc_perm _ _).mem_iff] at hp
  exact (List.of_mem_zip hp).2

theorem canonC_id_sorted (b1 b2 : Bins Nat) (perm : List Nat) :
    ∀ l ∈ (AllComb.canonC id b1 b2 perm).lists, l.Pairwise (· ≤ ·) := by
  intro l hl
  unfold AllComb.canonC at hl
  have := mem_sortAsc_lists hl
  simp only [List.mem_map] at this
  obtain ⟨x, _, rfl⟩ := this
  exact Obj.sortAsc_sorted x

/-- the new tuple of a child of the run on values satisfies the invariant -/
theorem einvL_push {e1 e2 : HEntry Nat} (h1 : EInvL e1) (h2 : EInvL e2) {nb : Bins Nat}
    (hnb : nb ∈ allComb id true e1.bins e2.bins) (d c : Nat) : EInvL ⟨d, c, nb.sortAsc⟩ := by
  simp only [allComb, if_true] at hnb
  obtain ⟨perm, hperm, rfl⟩ := AllComb.allCombContents_sound id h1.2.1 hnb
  obtain ⟨q1, q2, _, _, _⟩ := AllComb.canonC_spec id id h1.1 h2.1 h1.2.1 h2.2.1 hperm
  refine ⟨Part.sortAsc_consistent id _ q1, ?_, ?_⟩
  · have := Part.sortAsc_sums_perm _ (Part.consistent_length id q1)
    rw [this.length_eq]; exact q2
  · intro l hl
    exact canonC_id_sorted _ _ _ l (mem_sortAsc_lists hl)

theorem children_linv {c : Nat} {e1 e2 : HEntry Nat} {g2 : Heap Nat} (h1 : EInvL e1) (h2 : EInvL e2)
    (hg : LInv g2) : ∀ l ∈ (children id c e1 e2 g2).1, LInv l := by
  intro l hl
  unfold children at hl
  simp only [List.mem_reverse] at hl
  rw [(Part.sortDesc_perm _ _).mem_iff] at hl
  rcases CKKValid.foldl_push_mem g2 _ _ l hl with h0 | ⟨nb, hnb, c', rfl⟩
  · cases h0
  · intro e he
    simp only [hpush, List.mem_append, List.mem_singleton] at he
    rcases he with he | rfl
    · exact hg e he
    · exact einvL_push h1 h2 hnb _ _

theorem linv_pop {g g' : Heap Nat} {e : HEntry Nat} (hg : LInv g) (hp : hpop g = some (e, g')) :
    EInvL e ∧ LInv g' :=
  ⟨hg e (Total.hpop_mem hp), fun x hx => hg x ((hpop_sublist hp).subset hx)⟩

theorem CV_id_lists_of_sorted {b : Bins Nat} (h : ∀ l ∈ b.lists, l.Pairwise (· ≤ ·)) : (CV id b).lists = b.lists := by
  unfold CV mapLists
  simp only
  conv_rhs => rw [← List.map_id b.lists]
  apply List.map_congr_left
  intro l hl
  rw [cvl_id, Obj.sortAsc_of_sorted (h l hl)]
  rfl

/-- **the children of related heaps**: one child each; two children each, pairwise related; or two children of the
    named run related to the single child of the value run -/
theorem children_rel {v nm : α → Nat} [BEq α] [LawfulBEq α] {c c' : Nat} {e1 e2 : HEntry α} {e1' e2' : HEntry Nat}
    {h2 : Heap α} {g2 : Heap Nat} (hk1 : key3 v e1 = key3 id e1') (hk2 : key3 v e2 = key3 id e2')
    (hs2 : HR v h2 g2) (hc2 : CntOK c h2) (hc2' : CntOK c' g2) (hi1 : EInvL e1') (hi2 : EInvL e2') :
    (∃ d l, (children nm c e1 e2 h2).1 = [d] ∧ (children id c' e1' e2' g2).1 = [l] ∧ HR v d l) ∨
    (∃ d1 d2 l1 l2, (children nm c e1 e2 h2).1 = [d1, d2] ∧ (children id c' e1' e2' g2).1 = [l1, l2] ∧
      HR v d1 l1 ∧ HR v d2 l2) ∨
    (∃ d1 d2 l, (children nm c e1 e2 h2).1 = [d1, d2] ∧ (children id c' e1' e2' g2).1 = [l] ∧
      HR v d1 l ∧ HR v d2 l) := by
  have cv1 := (key3_eq hk1).2
  have cv2 := (key3_eq hk2).2
  have hlen1 : e1.bins.sums.length = 2 := by
    have : e1.bins.sums = e1'.bins.sums := congrArg Bins.sums cv1
    rw [this]; exact hi1.2.1
  have E0 : CV v (AllComb.canonC nm e1.bins e2.bins [0, 1]) = CV id (AllComb.canonC id e1'.bins e2'.bins [0, 1]) := by
    rw [CV_canonC, CV_canonC, cv1, cv2]
  have E1 : CV v (AllComb.canonC nm e1.bins e2.bins [1, 0]) = CV id (AllComb.canonC id e1'.bins e2'.bins [1, 0]) := by
    rw [CV_canonC, CV_canonC, cv1, cv2]
  -- counters of the clones
  have k0 : CntOK (c + 2) (hpush h2 c (AllComb.canonC nm e1.bins e2.bins [0, 1])).1 :=
    cntOK_mono (Nat.le_succ _) (hpush_cntOK _ hc2)
  have k1 : CntOK (c + 2) (hpush h2 (c + 1) (AllComb.canonC nm e1.bins e2.bins [1, 0])).1 :=
    hpush_cntOK _ (cntOK_mono (Nat.le_succ _) hc2)
  have k0' : CntOK (c' + 2) (hpush g2 c' (AllComb.canonC id e1'.bins e2'.bins [0, 1])).1 :=
    cntOK_mono (Nat.le_succ _) (hpush_cntOK _ hc2')
  have k1' : CntOK (c' + 2) (hpush g2 (c' + 1) (AllComb.canonC id e1'.bins e2'.bins [1, 0])).1 :=
    hpush_cntOK _ (cntOK_mono (Nat.le_succ _) hc2')
  by_cases hd : (AllComb.canonC nm e1.bins e2.bins [1, 0]).lists = (AllComb.canonC nm e1.bins e2.bins [0, 1]).lists
  · -- the named run drops the second pairing: so does the value run
    have hd' : (AllComb.canonC id e1'.bins e2'.bins [1, 0]).lists
        = (AllComb.canonC id e1'.bins e2'.bins [0, 1]).lists := by
      rw [← CV_id_lists_of_sorted (canonC_id_sorted _ _ _), ← CV_id_lists_of_sorted (canonC_id_sorted _ _ _),
        ← E0, ← E1]
      show List.map _ _ = List.map _ _
      rw [hd]
    have hA := allComb_two_eq nm e1.bins e2.bins hlen1 hd
    have hA' := allComb_two_eq id e1'.bins e2'.bins hi1.2.1 hd'
    left
    exact ⟨_, _, congrArg Prod.fst (children_one nm c e1 e2 h2 _ hA),
      congrArg Prod.fst (children_one id c' e1' e2' g2 _ hA'), hpush_rel c c' hs2 E0⟩
  · have hA := allComb_two_ne nm e1.bins e2.bins hlen1 hd
    by_cases hd' : (AllComb.canonC id e1'.bins e2'.bins [1, 0]).lists
        = (AllComb.canonC id e1'.bins e2'.bins [0, 1]).lists
    · -- the value run drops the second pairing, the named run keeps it
      have hA' := allComb_two_eq id e1'.bins e2'.bins hi1.2.1 hd'
      right; right
      have hperm0 : ([0, 1] : List Nat).Perm (List.range 2) := by decide
      have hperm1 : ([1, 0] : List Nat).Perm (List.range 2) := by decide
      obtain ⟨q0, _⟩ := AllComb.canonC_spec id id hi1.1 hi2.1 hi1.2.1 hi2.2.1 hperm0
      obtain ⟨q1, _⟩ := AllComb.canonC_spec id id hi1.1 hi2.1 hi1.2.1 hi2.2.1 hperm1
      have heq : AllComb.canonC id e1'.bins e2'.bins [1, 0] = AllComb.canonC id e1'.bins e2'.bins [0, 1] := by
        apply CKKOpt.bins_ext _ hd'
        unfold Bins.Consistent at q0 q1
        rw [q0, q1, hd']
      rw [heq] at E1
      have r0 : HR v (hpush h2 c (AllComb.canonC nm e1.bins e2.bins [0, 1])).1
          (hpush g2 c' (AllComb.canonC id e1'.bins e2'.bins [0, 1])).1 := hpush_rel c c' hs2 E0
      have r1 : HR v (hpush h2 (c + 1) (AllComb.canonC nm e1.bins e2.bins [1, 0])).1
          (hpush g2 c' (AllComb.canonC id e1'.bins e2'.bins [0, 1])).1 := hpush_rel (c + 1) c' hs2 E1
      have t0 := topDiff_rel r0 k0 k0'
      have t1 := topDiff_rel r1 k1 k0'
      refine ⟨_, _, _, ?_, congrArg Prod.fst (children_one id c' e1' e2' g2 _ hA'), r1, r0⟩
      rw [children_two nm c e1 e2 h2 _ _ hA, sortDesc_two, if_pos (by rw [t0, t1])]
      rfl
    · -- both runs keep both pairings
      have hA' := allComb_two_ne id e1'.bins e2'.bins hi1.2.1 hd'
      right; left
      have r0 : HR v (hpush h2 c (AllComb.canonC nm e1.bins e2.bins [0, 1])).1
          (hpush g2 c' (AllComb.canonC id e1'.bins e2'.bins [0, 1])).1 := hpush_rel c c' hs2 E0
      have r1 : HR v (hpush h2 (c + 1) (AllComb.canonC nm e1.bins e2.bins [1, 0])).1
          (hpush g2 (c' + 1) (AllComb.canonC id e1'.bins e2'.bins [1, 0])).1 := hpush_rel (c + 1) (c' + 1) hs2 E1
      have t0 := topDiff_rel r0 k0 k0'
      have t1 := topDiff_rel r1 k1 k1'
      rw [children_two nm c e1 e2 h2 _ _ hA, children_two id c' e1' e2' g2 _ _ hA', sortDesc_two, sortDesc_two,
        t0, t1]
      by_cases hle : topDiffOf (hpush g2 (c' + 1) (AllComb.canonC id e1'.bins e2'.bins [1, 0])).1
          ≤ topDiffOf (hpush g2 c' (AllComb.canonC id e1'.bins e2'.bins [0, 1])).1
      · rw [if_pos hle, if_pos hle]
        exact ⟨_, _, _, _, rfl, rfl, r1, r0⟩
      · rw [if_neg hle, if_neg hle]
        exact ⟨_, _, _, _, rfl, rfl, r0, r1⟩

/-! ### the yields of the named run reduce to the yields of the value run -/

theorem foldl_push_snd (h2 : Heap α) (combs : List (Bins α)) (acc : List (Heap α) × Nat) :
    (combs.foldl (fun (acc : List (Heap α) × Nat) nb =>
        let p := hpush h2 acc.2 nb; (acc.1 ++ [p.1], p.2)) acc).2 = acc.2 + combs.length := by
  induction combs generalizing acc with
  | nil => rfl
  | cons nb rest ih =>
    simp only [List.foldl_cons, List.length_cons]
    rw [ih]
    show acc.2 + 1 + rest.length = _
    omega

theorem children_cnt_le (nm : α → Nat) [BEq α] (c : Nat) (e1 e2 : HEntry α) (h2 : Heap α) :
    c ≤ (children nm c e1 e2 h2).2 := by
  unfold children
  simp only [foldl_push_snd]
  omega

theorem thread_mono {f : Nat → Heap α → List (Bins α) × Nat} (hf : ∀ c g, c ≤ (f c g).2) :
    ∀ (l : List (Heap α)) (c : Nat), c ≤ (thread f c l).2
  | [], _ => Nat.le_refl _
  | g :: gs, c => Nat.le_trans (hf c g) (thread_mono hf gs (f c g).2)

theorem G_mono (nm : α → Nat) [BEq α] (k : Nat) (B : EInt) : ∀ (n c : Nat) (h : Heap α), c ≤ (G nm k B n c h).2 := by
  intro n
  induction n with
  | zero =>
    intro c h
    unfold G
    split
    · exact Nat.le_refl _
    · split
      · split <;> exact Nat.le_refl _
      · exact Nat.le_refl _
  | succ n ih =>
    intro c h
    unfold G
    split
    · exact Nat.le_refl _
    · split
      · split <;> exact Nat.le_refl _
      · simp only []
        split
        · exact Nat.le_refl _
        · split
          · exact Nat.le_refl _
          · exact Nat.le_trans (children_cnt_le nm c _ _ _) (thread_mono ih _ _)

/-- two partitions with the same value image -/
def VEq (v : α → Nat) (b : Bins α) (b' : Bins Nat) : Prop := CV v b = CV id b'

/-- **the yields of the sub-tree of a heap of named items reduce to the yields of the sub-tree of the related heap
    of values** (two bins) -/
theorem G_red {v nm : α → Nat} [BEq α] [LawfulBEq α] (B : EInt) :
    ∀ (n c c' : Nat) (h : Heap α) (g : Heap Nat), HR v h g → CntOK c h → CntOK c' g → LInv g → h.length = n →
      Red (VEq v) (G nm 2 B n c h).1 (G id 2 B n c' g).1 := by
  intro n
  induction n with
  | zero =>
    intro c c' h g hs hc hc' hl hn
    unfold G
    rw [← prunedB_rel hs 2 B, ← hr_length hs, hn]
    by_cases hpr : CKKValid.prunedB 2 h B = true
    · simp only [hpr, if_true]; exact Red.nil
    · simp only [hpr, Bool.false_eq_true, if_false]
      exact Red.nil
  | succ n ih =>
    intro c c' h g hs hc hc' hl hn
    unfold G
    rw [← prunedB_rel hs 2 B, ← hr_length hs, ← topDiff_rel hs hc hc']
    by_cases hpr : CKKValid.prunedB 2 h B = true
    · simp only [hpr, if_true]; exact Red.nil
    · rw [if_neg hpr, if_neg hpr]
      by_cases hlen : (h.length == 1) = true
      · rw [if_pos hlen, if_pos hlen]
        by_cases hlt : EInt.lt B (.fin (-((topDiffOf h : Nat) : Int))) = true
        · rw [if_pos hlt, if_pos hlt]
          have hl1 : h.length = 1 := by simpa using hlen
          obtain ⟨e, rfl⟩ : ∃ e, h = [e] := by
            match h, hl1 with
            | [e], _ => exact ⟨e, rfl⟩
          obtain ⟨e', rfl⟩ : ∃ e', g = [e'] := by
            have := hr_length hs
            match g, this with
            | [e'], _ => exact ⟨e', rfl⟩
          unfold HR at hs
          simp only [List.map_cons, List.map_nil, List.cons.injEq, and_true] at hs
          simp only [Part.htop_singleton, Option.map_some]
          exact Red.one (key3_eq hs).2
        · rw [if_neg hlt, if_neg hlt]; exact Red.nil
      · rw [if_neg hlen, if_neg hlen]
        simp only []
        cases hp1 : hpop h with
        | none =>
          have hh := hpop_nil_of_none hp1
          subst hh
          have : g = [] := List.length_eq_zero_iff.1 (hr_length hs).symm
          subst this
          exact Red.nil
        | some p1 =>
          obtain ⟨e1, h1⟩ := p1
          obtain ⟨e1', g1, hq1, hk1, hs1⟩ := hpop_rel hs hc hc' hp1
          rw [hq1]
          simp only []
          have hc1 := cntOK_sublist (hpop_sublist hp1) hc
          have hc1' := cntOK_sublist (hpop_sublist hq1) hc'
          obtain ⟨hi1, hl1⟩ := linv_pop hl hq1
          cases hp2 : hpop h1 with
          | none =>
            have hh := hpop_nil_of_none hp2
            subst hh
            have : g1 = [] := List.length_eq_zero_iff.1 (hr_length hs1).symm
            subst this
            exact Red.nil
          | some p2 =>
            obtain ⟨e2, h2⟩ := p2
            obtain ⟨e2', g2, hq2, hk2, hs2⟩ := hpop_rel hs1 hc1 hc1' hp2
            rw [hq2]
            simp only []
            have hc2 := cntOK_sublist (hpop_sublist hp2) hc1
            have hc2' := cntOK_sublist (hpop_sublist hq2) hc1'
            obtain ⟨hi2, hl2⟩ := linv_pop hl1 hq2
            have hlen2 : h2.length + 1 = n := by
              have a1 := Total.hpop_length hp1
              have a2 := Total.hpop_length hp2
              omega
            obtain ⟨kd, kle⟩ := children_cntOK (nm := nm) (e1 := e1) (e2 := e2) hc2
            obtain ⟨kd', kle'⟩ := children_cntOK (nm := id) (e1 := e1') (e2 := e2') hc2'
            have kl := children_linv (c := c') hi1 hi2 hl2
            have klen : ∀ d ∈ (children nm c e1 e2 h2).1, d.length = n :=
              fun d hd => (children_length hd).trans hlen2
            rcases children_rel (nm := nm) (c := c) (c' := c') hk1 hk2 hs2 hc2 hc2' hi1 hi2 with
              ⟨d, l, hd, hl', r⟩ | ⟨d1, d2, l1, l2, hd, hl', r1, r2⟩ | ⟨d1, d2, l, hd, hl', r1, r2⟩
            · rw [hd] at kd klen
              rw [hl'] at kd' kl
              rw [hd, hl']
              simp only [thread, List.append_nil]
              exact ih _ _ d l r (kd d (by simp)) (kd' l (by simp)) (kl l (by simp)) (klen d (by simp))
            · rw [hd] at kd klen
              rw [hl'] at kd' kl
              rw [hd, hl']
              simp only [thread, List.append_nil]
              refine Red.append
                (ih _ _ d1 l1 r1 (kd d1 (by simp)) (kd' l1 (by simp)) (kl l1 (by simp)) (klen d1 (by simp)))
                (ih _ _ d2 l2 r2 (cntOK_mono (G_mono nm 2 B n _ d1) (kd d2 (by simp)))
                  (cntOK_mono (G_mono id 2 B n _ l1) (kd' l2 (by simp))) (kl l2 (by simp)) (klen d2 (by simp)))
            · rw [hd] at kd klen
              rw [hl'] at kd' kl
              rw [hd, hl']
              simp only [thread, List.append_nil]
              refine Red.dupl
                (ih _ _ d1 l r1 (kd d1 (by simp)) (kd' l (by simp)) (kl l (by simp)) (klen d1 (by simp)))
                (ih _ _ d2 l r2 (cntOK_mono (G_mono nm 2 B n _ d1) (kd d2 (by simp)))
                  (kd' l (by simp)) (kl l (by simp)) (klen d2 (by simp)))

/-! ## 3. the generator on named items and on values; the even case of RNP -/

theorem pushAll_cntOK (v : α → Nat) (k : Nat) : ∀ (xs : List α) (h : Heap α) (c : Nat), CntOK c h →
    CntOK (pushAll v k xs h c).2 (pushAll v k xs h c).1
  | [], _, _, hh => hh
  | x :: xs, h, c, hh => by
    simp only [pushAll]
    exact pushAll_cntOK v k xs _ _ (hpush_cntOK _ hh)

theorem pushAll_binsSorted : ∀ (xs : List Nat) (h : Heap Nat) (c : Nat),
    (∀ e ∈ h, ∀ l ∈ e.bins.lists, l.Pairwise (· ≤ ·)) →
    ∀ e ∈ (pushAll id 2 xs h c).1, ∀ l ∈ e.bins.lists, l.Pairwise (· ≤ ·)
  | [], _, _, hh => hh
  | x :: xs, h, c, hh => by
    simp only [pushAll]
    apply pushAll_binsSorted xs
    intro e he l hl
    simp only [hpush, List.mem_append, List.mem_singleton] at he
    rcases he with he | rfl
    · exact hh e he l hl
    · have := mem_sortAsc_lists hl
      have e2 : (single id 2 x).lists = [[], [x]] := rfl
      rw [e2] at this
      simp only [List.mem_cons, List.not_mem_nil, or_false] at this
      rcases this with rfl | rfl <;> simp

theorem key3_mapEntry (v : α → Nat) (e : HEntry α) : key3 id (Natural.mapEntry v e) = key3 v e := by
  simp only [key3, Natural.mapEntry, CV, mapLists, Bins.mapItems, List.map_map]
  congr 2
  apply List.map_congr_left
  intro l _
  simp only [Function.comp, cvl, List.map_map]
  rfl

/-- the initial heaps of the two generators -/
theorem init_rel (v : α → Nat) {rem : List α} {remN : List Nat} (hp : (rem.map v).Perm remN) :
    HR v (pushAll v 2 (sortDesc v rem) [] 0).1 (pushAll id 2 (sortDesc id remN) [] 0).1 ∧
    CntOK (pushAll v 2 (sortDesc v rem) [] 0).2 (pushAll v 2 (sortDesc v rem) [] 0).1 ∧
    CntOK (pushAll id 2 (sortDesc id remN) [] 0).2 (pushAll id 2 (sortDesc id remN) [] 0).1 ∧
    LInv (pushAll id 2 (sortDesc id remN) [] 0).1 := by
  have hsort : sortDesc id remN = (sortDesc v rem).map v := by
    rw [← Natural.sortDesc_map v v id (fun _ => rfl) rem]
    exact Natural.sortDesc_id_perm hp.symm
  have hnat := Natural.pushAll_natural v v id (fun _ => rfl) 2 (sortDesc v rem) [] 0
  simp only [List.map_nil] at hnat
  refine ⟨?_, pushAll_cntOK v 2 _ [] 0 ⟨List.Pairwise.nil, fun _ h => by cases h⟩,
    pushAll_cntOK id 2 _ [] 0 ⟨List.Pairwise.nil, fun _ h => by cases h⟩, ?_⟩
  · rw [hsort, hnat]
    unfold HR
    rw [List.map_map]
    apply List.map_congr_left
    intro e _
    exact (key3_mapEntry v e).symm
  · intro e he
    have hinv := CKKValid.init_inv (v := id) (k := 2) (by decide) remN
    obtain ⟨l, c, _, _⟩ := hinv.2 e he
    refine ⟨c, by rw [Part.consistent_length id c, l], ?_⟩
    exact pushAll_binsSorted _ [] 0 (fun _ h => by cases h) e he

/-- **the splits yielded on named items reduce to the splits yielded on their values** -/
theorem ckkGen_red {v nm : α → Nat} [BEq α] [LawfulBEq α] {rem : List α} {remN : List Nat} {d0 fuel fuel' : Nat}
    {tops : List (Bins α)} {tops' : List (Bins Nat)} (hp : (rem.map v).Perm remN)
    (h : ckkGen v nm 2 true rem (some d0) fuel = .ok tops)
    (h' : ckkGen id id 2 true remN (some d0) fuel' = .ok tops') : Red (VEq v) tops tops' := by
  unfold ckkGen at h h'
  simp only [Option.isNone_some] at h h'
  split at h
  · cases h
  · rename_i hd
    split at h'
    · cases h'
    · rename_i hd'
      cases h; cases h'
      have hd1 : (ckkRun nm 2 true true false fuel (ckkInit v 2 rem (.fin (-(d0 : Int))))).done = true := by
        simpa using hd
      have hd2 : (ckkRun id 2 true true false fuel' (ckkInit id 2 remN (.fin (-(d0 : Int))))).done = true := by
        simpa using hd'
      rw [run_yields nm 2 fuel _ rfl hd1, run_yields id 2 fuel' _ rfl hd2]
      obtain ⟨r1, r2, r3, r4⟩ := init_rel v hp
      simp only [ckkInit, List.append_nil, List.reverse_reverse, GS, thread]
      rw [← hr_length r1]
      exact G_red _ _ _ _ _ _ r1 r2 r3 r4 rfl

/-- the score of a split in the even case (four bins): the 2-way searches on its two halves -/
def score (v nm : α → Nat) [BEq α] (c : Bool) (fuel : Nat) (prior : Bins α) (top : Bins α) :
    Except Err (Bins α × Nat) :=
  match ckk2 v nm c (top.lists.getD 0 []) fuel with
  | .error e => .error e
  | .ok nb1 =>
    match ckk2 v nm c (top.lists.getD 1 []) fuel with
    | .error e => .error e
    | .ok nb2 => .ok (nb1.concat nb2, spread (nb1.sums ++ nb2.sums ++ prior.sums))

theorem rnpRecF_succ_two (v nm : α → Nat) [BEq α] (c : Bool) (fuel rf : Nat) (prior best : Bins α)
    (items : List α) : rnpRecF v nm c fuel (rf + 1) 2 prior best items = ckk2 v nm c items fuel := by
  rw [rnpRecF]
  simp only [BEq.rfl, if_true]

/-- the loop body of the even case with halves of two bins keeps strict improvements of a state-free score -/
theorem evenStep_keep (v nm : α → Nat) [BEq α] (c : Bool) (fuel rf : Nat) (prior : Bins α)
    (st : Bins α × Nat) (top : Bins α) :
    SumsOnly.evenStep v nm c fuel (rf + 1) 2 prior st top
      = keepStep (score v nm c fuel prior) (fun p => p.2) st top := by
  unfold SumsOnly.evenStep keepStep score
  simp only [rnpRecF_succ_two]
  cases ckk2 v nm c (top.lists.getD 0 []) fuel with
  | error e => rfl
  | ok nb1 =>
    cases ckk2 v nm c (top.lists.getD 1 []) fuel with
    | error e => rfl
    | ok nb2 => rfl

theorem veq_getD {v : α → Nat} {top : Bins α} {top' : Bins Nat} (h : VEq v top top') (i : Nat) :
    ((top.lists.getD i []).map v).Perm (top'.lists.getD i []) := by
  apply cvl_eq_perm
  have := congrArg Bins.lists h
  simp only [CV, mapLists] at this
  rw [← getD_map_cvl, ← getD_map_cvl, this]

/-- **four bins**: the even case on named items and on values -/
theorem rnpRecF_four_values {v nm : α → Nat} [BEq α] [LawfulBEq α] {c c' : Bool} {fuel fuel' rf rf' : Nat}
    {prior best r : Bins α} {priorN bestN r' : Bins Nat} {rem : List α} {remN : List Nat}
    (hpr : prior.sums = priorN.sums) (hb : best.sums = bestN.sums) (hp : (rem.map v).Perm remN)
    (h : rnpRecF v nm c fuel (rf + 2) 4 prior best rem = .ok r)
    (h' : rnpRecF id id c' fuel' (rf' + 2) 4 priorN bestN remN = .ok r') : r.sums = r'.sums := by
  rw [SumsOnly.rnpRecF_four_eq] at h h'
  rw [← hb] at h'
  have hemp : remN.isEmpty = rem.isEmpty := by
    cases rem with
    | nil => simp at hp; simp [hp]
    | cons x xs =>
      cases remN with
      | nil => simp at hp
      | cons _ _ => rfl
  rw [hemp] at h'
  cases hE : rem.isEmpty with
  | true => rw [hE] at h; cases h
  | false =>
    rw [hE] at h h'
    simp only [Bool.false_eq_true, if_false] at h h'
    cases hg : ckkGen v nm 2 true rem (some (spread best.sums)) fuel with
    | error e => rw [hg] at h; cases h
    | ok tops =>
      cases hg' : ckkGen id id 2 true remN (some (spread best.sums)) fuel' with
      | error e => rw [hg'] at h'; cases h'
      | ok tops' =>
        rw [hg] at h; rw [hg'] at h'
        simp only at h h'
        have hred := ckkGen_red hp hg hg'
        have e1 : SumsOnly.evenStep v nm c fuel (rf + 1) 2 prior
            = keepStep (score v nm c fuel prior) (fun p => p.2) := by
          funext st top; exact evenStep_keep v nm c fuel rf prior st top
        have e2 : SumsOnly.evenStep id id c' fuel' (rf' + 1) 2 priorN
            = keepStep (score id id c' fuel' priorN) (fun p => p.2) := by
          funext st top; exact evenStep_keep id id c' fuel' rf' priorN st top
        rw [e1] at h; rw [e2] at h'
        cases hf : foldE (keepStep (score v nm c fuel prior) (fun p => p.2)) (best, spread best.sums) tops with
        | error e => rw [hf] at h; cases h
        | ok st =>
          cases hf' : foldE (keepStep (score id id c' fuel' priorN) (fun p => p.2))
              (bestN, spread best.sums) tops' with
          | error e => rw [hf'] at h'; cases h'
          | ok st' =>
            rw [hf] at h; rw [hf'] at h'
            simp only [Except.map] at h h'
            cases h; cases h'
            refine (keep_fold_red (VEq v) _ _ _ _
              (fun (s : Bins α × Nat) (t : Bins Nat × Nat) => s.1.sums = t.1.sums ∧ s.2 = t.2)
              (fun _ _ hs => hs.2) ?_ hred (best, spread best.sums) st (bestN, spread best.sums) st'
              ⟨hb, rfl⟩ hf hf').1
            intro top top' p p' hveq hs hs'
            unfold score at hs hs'
            cases h1 : ckk2 v nm c (top.lists.getD 0 []) fuel with
            | error e => rw [h1] at hs; cases hs
            | ok nb1 =>
              cases h1' : ckk2 id id c' (top'.lists.getD 0 []) fuel' with
              | error e => rw [h1'] at hs'; cases hs'
              | ok nb1' =>
                rw [h1] at hs; rw [h1'] at hs'
                simp only at hs hs'
                cases h2 : ckk2 v nm c (top.lists.getD 1 []) fuel with
                | error e => rw [h2] at hs; cases hs
                | ok nb2 =>
                  cases h2' : ckk2 id id c' (top'.lists.getD 1 []) fuel' with
                  | error e => rw [h2'] at hs'; cases hs'
                  | ok nb2' =>
                    rw [h2] at hs; rw [h2'] at hs'
                    cases hs; cases hs'
                    have a1 := CKKDedupe.ckk2_sums_values (veq_getD hveq 0) h1 h1'
                    have a2 := CKKDedupe.ckk2_sums_values (veq_getD hveq 1) h2 h2'
                    simp only [Bins.concat, a1, a2, hpr, and_self]

/-- **five bins**: the odd case over the four-bin case -/
theorem rnpRecF_five_values {v nm : α → Nat} [BEq α] [LawfulBEq α] {c c' : Bool} {fuel fuel' rf rf' : Nat}
    {prior best r : Bins α} {priorN bestN r' : Bins Nat} {rem : List α} {remN : List Nat}
    (hpr : prior.sums = priorN.sums) (hb : best.sums = bestN.sums) (hp : (rem.map v).Perm remN)
    (h : rnpRecF v nm c fuel (rf + 3) 5 prior best rem = .ok r)
    (h' : rnpRecF id id c' fuel' (rf' + 3) 5 priorN bestN remN = .ok r') : r.sums = r'.sums := by
  rw [SumsOnly.rnpRecF_odd_eq (by rfl)] at h h'
  have ht : binSum id remN = binSum v rem := by
    unfold binSum
    rw [List.map_id]
    exact (Part.sumL_perm hp).symm
  rw [ht, ← hb, CKKDedupe.genTree_values v _ _ _ hp] at h'
  refine CKKDedupe.foldE_hsim (fun (b : Bins α) (b' : Bins Nat) => b.sums = b'.sums) (List.map v)
    (fun sub => sub.Sublist (sortDesc v rem)) _ _ ?_ _ _ _ _ _
    (fun sub hs => CKKDedupe.genTree_sublist v _ _ _ _ _ hs) hb h h'
  intro s s' x t t' hx hs ht1 ht2
  obtain ⟨nb, hnb, hcase⟩ := SumsOnly.oddStep_cases ht1
  obtain ⟨nb', hnb', hcase'⟩ := SumsOnly.oddStep_cases ht2
  have e := rnpRecF_four_values (rf := rf) (rf' := rf')
    (by simp only [hpr, CKKDedupe.binSum_id_map]) hs
    (CKKDedupe.findDiff_values v x (sortDesc v rem) rem remN hx (Part.sortDesc_perm v rem) hp) hnb hnb'
  rw [CKKDedupe.binSum_id_map, ← e, ← hs, ← hpr] at hcase'
  rcases hcase with ⟨hlt, rfl⟩ | ⟨hle, rfl⟩ <;> rcases hcase' with ⟨hlt', rfl⟩ | ⟨hle', rfl⟩
  · simp only [Bins.concat, e, hpr]
  · omega
  · omega
  · exact hs

/-- a perfect `kk` answer for one bin -/
theorem kk_one_spread {v : α → Nat} {items : List α} {best : Bins α} (h : kk v 1 items = .ok best) :
    spread best.sums = 0 := by
  have hne : items ≠ [] := by
    rintro rfl
    simp [kk, sortDesc, pushAll, kkLoop, htop, hbest] at h
  have hp := CKKValid.kkValid v 1 items best (by decide) hne h
  have hl : best.sums.length = 1 := by rw [hp.2.2]; simpa using hp.2.1
  match hs : best.sums, hl with
  | [x], _ => exact CKKValid.spread_singleton x

/-- **C07 for recursive number partitioning (`numbins ≤ 5`), the whole vector of sums.**  For arbitrary items
    (names in any order, repeated values, even repeated items), either manager on either side and any fuels: the run
    on the named items and the run on the list of their values return the same sums, in the same order.  (For
    `numbins ≥ 6` the model answers `notImplemented` unless `kk` is already perfect.) -/
theorem rnpF_list_dict_sums {v nm : α → Nat} [BEq α] [LawfulBEq α] {c₁ c₂ : Bool} {k : Nat}
    {items : List α} {fuel₁ fuel₂ : Nat} {b₁ : Bins α} {b₂ : Bins Nat} (hk5 : k ≤ 5) (hk : 0 < k)
    (h₁ : rnpF v nm k c₁ items fuel₁ = .ok b₁) (h₂ : rnpF id id k c₂ (items.map v) fuel₂ = .ok b₂) :
    b₂.sums = b₁.sums := by
  by_cases h23 : k = 2 ∨ k = 3
  · exact CKKDedupe.rnpF_list_dict_sums_partial_k_le_three h23 h₁ h₂
  unfold rnpF at h₁ h₂
  rw [Natural.kk_natural v v id (fun _ => rfl) k items] at h₂
  cases hb : kk v k items with
  | error e => rw [hb] at h₁; cases h₁
  | ok best =>
    rw [hb] at h₁ h₂
    simp only [Natural2.map_ok] at h₁ h₂
    have hbs : (best.mapItems v).sums = best.sums := rfl
    rw [hbs] at h₂
    split at h₁
    · rename_i h0
      rw [if_pos h0] at h₂
      cases h₁; cases h₂; rfl
    · rename_i h0
      rw [if_neg h0] at h₂
      have h6 : ¬ k ≥ 6 := by omega
      rw [if_neg h6] at h₁ h₂
      have hk' : k = 1 ∨ k = 4 ∨ k = 5 := by omega
      rcases hk' with rfl | rfl | rfl
      · exact absurd (kk_one_spread hb) h0
      · refine (rnpRecF_four_values (rf := 3) (rf' := 3) ?_ ?_ ?_ h₁ h₂).symm
        · rfl
        · rfl
        · exact List.Perm.refl _
      · refine (rnpRecF_five_values (rf := 3) (rf' := 3) ?_ ?_ ?_ h₁ h₂).symm
        · rfl
        · rfl
        · exact List.Perm.refl _

/-- the dict of the counterexample of PrtpyProofs/CKKDedupe.lean: eight items, values `5, 4, 2, 2, 2, 2, 2, 1` -/
def exItems : List (Nat × Nat) := [(0, 5), (1, 4), (2, 2), (3, 2), (4, 2), (5, 2), (6, 2), (7, 1)]

/-- eight items for five bins -/
def exItems5 : List (Nat × Nat) := [(7, 11), (6, 9), (5, 9), (4, 6), (3, 6), (2, 4), (1, 4), (0, 4)]

set_option maxRecDepth 100000 in
/-- non-vacuity, four bins: `kk` is not perfect, the even case runs, and the generator yields 11 splits of the
    named items but only 7 of their values -/
example : (⟨[4, 5, 5, 6], [[4], [5], [1, 2, 2], [2, 2, 2]]⟩ : Bins Nat).sums
    = (⟨[4, 5, 5, 6], [[(1, 4)], [(0, 5)], [(7, 1), (3, 2), (4, 2)], [(6, 2), (2, 2), (5, 2)]]⟩ :
        Bins (Nat × Nat)).sums :=
  rnpF_list_dict_sums (v := Prod.snd) (nm := Prod.fst) (c₁ := true) (c₂ := true) (k := 4) (items := exItems)
    (fuel₁ := 1000) (fuel₂ := 1000) (by decide) (by decide) rfl rfl

set_option maxRecDepth 100000 in
example : (ckkGen Prod.snd Prod.fst 2 true exItems (some 2) 1000).toOption.map (·.length) = some 11 ∧
    (ckkGen id id 2 true (exItems.map Prod.snd) (some 2) 1000).toOption.map (·.length) = some 7 := ⟨rfl, rfl⟩

set_option maxRecDepth 100000 in
/-- non-vacuity, five bins -/
example : (⟨[9, 9, 12, 11, 12], [[9], [9], [6, 6], [11], [4, 4, 4]]⟩ : Bins Nat).sums
    = (⟨[9, 9, 12, 11, 12], [[(6, 9)], [(5, 9)], [(3, 6), (4, 6)], [(7, 11)], [(0, 4), (1, 4), (2, 4)]]⟩ :
        Bins (Nat × Nat)).sums :=
  rnpF_list_dict_sums (v := Prod.snd) (nm := Prod.fst) (c₁ := true) (c₂ := true) (k := 5) (items := exItems5)
    (fuel₁ := 1000) (fuel₂ := 1000) (by decide) (by decide) rfl rfl

/-- **C06 for recursive number partitioning, independent fuels**: two runs on the same items, whatever their
    managers and fuels, return the same vector of sums (`SumsOnly.rnpF_sums_manager_independent` needs equal fuels) -/
theorem rnpF_sums_any {v nm : α → Nat} [BEq α] [LawfulBEq α] {c₁ c₂ : Bool} {k : Nat} {items : List α}
    {fuel₁ fuel₂ : Nat} {b₁ b₂ : Bins α} (hk5 : k ≤ 5) (hk : 0 < k)
    (h₁ : rnpF v nm k c₁ items fuel₁ = .ok b₁) (h₂ : rnpF v nm k c₂ items fuel₂ = .ok b₂) :
    b₂.sums = b₁.sums := by
  have hne : items ≠ [] := by
    rintro rfl
    simp [rnpF, kk, sortDesc, pushAll, kkLoop, htop, hbest] at h₁
  obtain ⟨r, hr⟩ := Total.rnpF_total (v := id) (nm := id) (k := k) (contents := true) (items := items.map v)
    (fuel := Total.ckkFuel 2 (items.map v).length) hk hk5 (by simpa using hne) (Nat.le_refl _)
  rw [← rnpF_list_dict_sums hk5 hk h₁ hr, ← rnpF_list_dict_sums hk5 hk h₂ hr]

set_option maxRecDepth 100000 in
example : (⟨[4, 5, 5, 6], [[(1, 4)], [(0, 5)], [(7, 1), (3, 2), (4, 2)], [(6, 2), (2, 2), (5, 2)]]⟩ :
      Bins (Nat × Nat)).sums
    = (⟨[4, 5, 5, 6], [[(1, 4)], [(0, 5)], [(7, 1), (3, 2), (4, 2)], [(6, 2), (2, 2), (5, 2)]]⟩ :
      Bins (Nat × Nat)).sums :=
  rnpF_sums_any (v := Prod.snd) (nm := Prod.fst) (c₁ := true) (c₂ := false) (k := 4) (items := exItems)
    (fuel₁ := 1000) (fuel₂ := 500) (by decide) (by decide) rfl rfl

end Prtpy.RNPDict

/-
Axiom audit (output of `#print axioms` observed with `lake env lean`):

#print axioms Prtpy.RNPDict.keep_fold_red
  'Prtpy.RNPDict.keep_fold_red' depends on axioms: [propext, Classical.choice, Quot.sound]
#print axioms Prtpy.RNPDict.run_yields
  'Prtpy.RNPDict.run_yields' depends on axioms: [propext, Quot.sound]
#print axioms Prtpy.RNPDict.G_red
  'Prtpy.RNPDict.G_red' depends on axioms: [propext, Classical.choice, Quot.sound]
#print axioms Prtpy.RNPDict.ckkGen_red
  'Prtpy.RNPDict.ckkGen_red' depends on axioms: [propext, Classical.choice, Quot.sound]
#print axioms Prtpy.RNPDict.rnpRecF_four_values
  'Prtpy.RNPDict.rnpRecF_four_values' depends on axioms: [propext, Classical.choice, Quot.sound]
#print axioms Prtpy.RNPDict.rnpRecF_five_values
  'Prtpy.RNPDict.rnpRecF_five_values' depends on axioms: [propext, Classical.choice, Quot.sound]
#print axioms Prtpy.RNPDict.rnpF_list_dict_sums
  'Prtpy.RNPDict.rnpF_list_dict_sums' depends on axioms: [propext, Classical.choice, Quot.sound]
#print axioms Prtpy.RNPDict.rnpF_sums_any
  'Prtpy.RNPDict.rnpF_sums_any' depends on axioms: [propext, Classical.choice, Quot.sound]

Counterexample search that preceded the proof (model compiled to a native executable, the code after F11): `rnpF` on a
dict (names in input order, reversed, and shuffled `i ↦ 7 i + 3 mod n`; contents manager) against `rnpF` on the list
of values (both managers), all multisets of positive values with the stated largest value, exhaustive:
  4 bins: n = 8 (largest value ≤ 9), n = 9 (≤ 8), n = 10 (≤ 6), n = 11 (≤ 5), n = 12 (≤ 4);
  5 bins: n = 8, 9, 10 (≤ 6), n = 11 (≤ 5), n = 12 (≤ 4):  no disagreement.
-/
