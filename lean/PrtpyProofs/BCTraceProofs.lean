/-
  The traced bin completion (Model/BCTrace.lean) computes the packing of `BC.binCompletion`: the trace is an observer.
-/
import Prtpy.Model.BCTrace
namespace Prtpy
namespace BC

theorem runBranchT_fst (B bestLen : Nat) : ∀ (fuel : Nat) (cb : Branch) (sp : List Branch) (tr : Trace),
    (runBranchT B bestLen fuel cb sp tr).1 = runBranch B bestLen fuel cb sp := by
  intro fuel
  induction fuel with
  | zero => intro cb sp tr; rfl
  | succ n ih =>
    intro cb sp tr
    obtain ⟨items, bins, idx⟩ := cb
    cases items with
    | nil => rfl
    | cons x upd =>
      simp only [runBranchT, runBranch]
      cases completions x upd B with
      | nil =>
        simp only []
        split
        · rfl
        · split
          · rfl
          · exact ih _ _ _
      | cons c0 others =>
        simp only []
        split
        · rfl
        · split
          · rfl
          · exact ih _ _ _

theorem searchT_fst (B lb : Nat) : ∀ (fuel : Nat) (q : List Branch) (best : List (List Nat)) (tr : Trace),
    (searchT B lb fuel q best tr).1 = search B lb fuel q best := by
  intro fuel
  induction fuel with
  | zero => intro q best tr; rfl
  | succ n ih =>
    intro q best tr
    cases q with
    | nil => rfl
    | cons cb queue =>
      unfold searchT search
      simp only [runBranchT_fst]
      split <;> split <;> first | rfl | exact ih _ _ _

/-- dropping the trace gives the modelled `bin_completion` -/
theorem binCompletionT_fst (B : Nat) (items : List Nat) (fuel : Nat) :
    (binCompletionT B items fuel).map (·.1) = binCompletion B items fuel := by
  unfold binCompletionT binCompletion
  by_cases h : (items.any fun x => decide (B < x)) = true
  · simp only [h, if_true]; rfl
  · simp only [h]
    cases bfDecreasing id B (items.filter (· != 0)) with
    | error e => rfl
    | ok bfd =>
      simp only []
      by_cases h2 : bfd.lists.length = lowerBound B (items.filter (· != 0))
      · simp only [h2, if_true]; rfl
      · simp [h2, Except.map, searchT_fst]

/-- non-vacuity: a search that is entered, branches, and records five calls -/
example : (binCompletionT 33 [13, 13, 10, 17, 8, 5] 100).toOption =
    some ([[17, 13], [13, 10, 8], [5]], [(17, [13, 13, 10, 8, 5]), (13, [13, 8]), (8, []), (13, [10, 8, 5]), (5, [])]) := by
  decide +kernel

end BC
end Prtpy
