/-
  PrtpyProofs.KK43Aux — structural lemmas for the proof of the 4/3 − 1/(3k) bound of the
  Karmarkar–Karp differencing method (`PrtpyProofs/KK43.lean`, where the plan of the proof is described).

  Contents
  * §0  `hpop_max`: the heap pops an entry of largest difference.
  * §1  lists of bins: splitting a position of `zipWith`; **`kf_core`** (a full tuple of large items that
        dominates a tuple with at most one item per bin can be combined within every feasible capacity — a
        counting argument through `LPT43.large_fits`), `eq_core` (all items equal), `noverlap_core`,
        `nonfull_count`.
  * §2–3 tuples (`Bins Nat`, every item is its own value): `WF`, `Full`, `Le1`, `Compound`, `Dom`, `AllEq`, `Fits`
        and the same statements for `kkCombine`.
  * §4  singles, partial tuples (an empty bin: at most one item per bin, the spread is the largest item),
        full tuples; at most `2k` items exceed a third of a feasible capacity (`count_large`).
  * §5  the relation `Rel` between two tuples of the heap and the invariant `PA` of the large-item phase;
        `pure_fits`, `pure_rel`, **`pure_step`**: one differencing step on two tuples of large items keeps `PA`.
  * §6  sum vectors: the relation `RS` ("small increments on low entries"), `rs_step`, `rs_top`, **`lemmaB`**;
        the sums of a single.
  * §7  permutation/prefix closure of `PA`, spread of a combination, absorbing a single.
-/
import Mathlib.Tactic.Linarith
import Prtpy
import PrtpyProofs.Part
import PrtpyProofs.Oracle
import PrtpyProofs.Obj
import PrtpyProofs.LPT43
open Prtpy

namespace Prtpy.KK43

variable {α : Type}

/-! ## 0. The heap pops an entry of largest difference -/

theorem before_diff_le {e₁ e₂ : HEntry α} (h : e₁.before e₂ = true) : e₂.diff ≤ e₁.diff := by
  simp only [HEntry.before, Bool.or_eq_true, Bool.and_eq_true, decide_eq_true_eq] at h
  omega

theorem not_before_diff_le {e₁ e₂ : HEntry α} (h : ¬ e₁.before e₂ = true) : e₁.diff ≤ e₂.diff := by
  simp only [HEntry.before, Bool.or_eq_true, Bool.and_eq_true, decide_eq_true_eq] at h
  omega

theorem hbestAux_spec (es pre : List (HEntry α)) (bi : Nat) (be : HEntry α)
    (hbi : pre[bi]? = some be) :
    ∃ e, (pre ++ es)[hbestAux es pre.length bi be]? = some e ∧ be.diff ≤ e.diff ∧
      ∀ x ∈ es, x.diff ≤ e.diff := by
  induction es generalizing pre bi be with
  | nil =>
    refine ⟨be, ?_, Nat.le_refl _, by simp⟩
    simpa [hbestAux] using hbi
  | cons e es ih =>
    simp only [hbestAux]
    split
    · rename_i hb
      obtain ⟨e', h1, h2, h3⟩ := ih (pre ++ [e]) pre.length e (by simp)
      refine ⟨e', by simpa using h1, Nat.le_trans (before_diff_le hb) h2, ?_⟩
      intro x hx
      rcases List.mem_cons.1 hx with rfl | hx
      · exact h2
      · exact h3 x hx
    · rename_i hb
      obtain ⟨e', h1, h2, h3⟩ := ih (pre ++ [e]) bi be (by
        rw [List.getElem?_append_left]; exact hbi
        by_contra hc
        rw [List.getElem?_eq_none (by omega)] at hbi; cases hbi)
      refine ⟨e', by simpa using h1, h2, ?_⟩
      intro x hx
      rcases List.mem_cons.1 hx with rfl | hx
      · exact Nat.le_trans (not_before_diff_le hb) h2
      · exact h3 x hx

/-- `hpop` returns an entry whose difference is at least that of every entry of the heap -/
theorem hpop_max {h h' : Heap α} {e : HEntry α} (hp : hpop h = some (e, h')) :
    ∀ x ∈ h, x.diff ≤ e.diff := by
  cases h with
  | nil => simp [hpop, hbest] at hp
  | cons e0 es =>
    obtain ⟨e', h1, h2, h3⟩ := hbestAux_spec es [e0] 0 e0 rfl
    simp only [hpop, hbest] at hp
    simp only [List.singleton_append, List.length_cons, List.length_nil, Nat.zero_add] at h1
    rw [h1] at hp
    simp only [Option.map_some, Option.some.injEq, Prod.mk.injEq] at hp
    obtain ⟨rfl, _⟩ := hp
    intro x hx
    rcases List.mem_cons.1 hx with rfl | hx
    · exact h2
    · exact h3 x hx


/-! ## 1. Lists of bins -/

theorem zipWith_mem_split {β γ δ : Type} {f : β → γ → δ} {A : List β} {B : List γ} {c : δ}
    (h : c ∈ List.zipWith f A B) :
    ∃ A1 a A2 B1 b B2, A = A1 ++ a :: A2 ∧ B = B1 ++ b :: B2 ∧ A1.length = B1.length ∧ c = f a b := by
  induction A generalizing B with
  | nil => simp at h
  | cons x xs ih =>
    cases B with
    | nil => simp at h
    | cons y ys =>
      simp only [List.zipWith_cons_cons, List.mem_cons] at h
      rcases h with rfl | h
      · exact ⟨[], x, xs, [], y, ys, rfl, rfl, rfl, rfl⟩
      · obtain ⟨A1, a, A2, B1, b, B2, e1, e2, e3, e4⟩ := ih h
        exact ⟨x :: A1, a, A2, y :: B1, b, B2, by rw [e1]; rfl, by rw [e2]; rfl, by simp [e3], e4⟩

theorem zipWith_mem_pair {β γ δ : Type} {f : β → γ → δ} {A : List β} {B : List γ} {c : δ}
    (h : c ∈ List.zipWith f A B) : ∃ a ∈ A, ∃ b ∈ B, c = f a b := by
  obtain ⟨A1, a, A2, B1, b, B2, rfl, rfl, _, e⟩ := zipWith_mem_split h
  exact ⟨a, by simp, b, by simp, e⟩

theorem sumL_pos_of_mem {l : List Nat} {x : Nat} (h : x ∈ l) (hx : 0 < x) : 0 < sumL l :=
  Nat.lt_of_lt_of_le hx (LPT43.le_sumL_of_mem h)

theorem sumL_eq_zero_of_nil {l : List Nat} (h : l = []) : sumL l = 0 := by subst h; rfl

/-- a bin with at most one item is empty or a single item equal to its sum -/
theorem le1_cases {l : List Nat} (h : l.length ≤ 1) : l = [] ∨ l = [sumL l] := by
  match l, h with
  | [], _ => exact Or.inl rfl
  | [x], _ => right; simp [sumL]
  | _ :: _ :: _, h => simp at h

theorem zipWith_add_map_sumL (A B : List (List Nat)) :
    List.zipWith (· + ·) (A.map sumL) (B.map sumL) = (List.zipWith (· ++ ·) A B).map sumL := by
  induction A generalizing B with
  | nil => simp
  | cons a as ih =>
    cases B with
    | nil => simp
    | cons b bs => simp [ih, Part.sumL_append]


theorem desc_split {B1 B2 : List (List Nat)} {l2 : List Nat}
    (h : ((B1 ++ l2 :: B2).map sumL).Pairwise (· ≥ ·)) :
    (∀ lb ∈ B1, sumL l2 ≤ sumL lb) ∧ (∀ lb ∈ B2, sumL lb ≤ sumL l2) := by
  rw [List.map_append, List.map_cons, List.pairwise_append, List.pairwise_cons] at h
  obtain ⟨_, ⟨h2, _⟩, h3⟩ := h
  refine ⟨fun lb hlb => h3 _ (List.mem_map_of_mem hlb) _ List.mem_cons_self,
    fun lb hlb => h2 _ (List.mem_map_of_mem hlb)⟩

theorem asc_split {A1 A2 : List (List Nat)} {l1 : List Nat}
    (h : ((A1 ++ l1 :: A2).map sumL).Pairwise (· ≤ ·)) :
    (∀ la ∈ A1, sumL la ≤ sumL l1) ∧ (∀ la ∈ A2, sumL l1 ≤ sumL la) := by
  rw [List.map_append, List.map_cons, List.pairwise_append, List.pairwise_cons] at h
  obtain ⟨_, ⟨h2, _⟩, h3⟩ := h
  refine ⟨fun la hla => h3 _ (List.mem_map_of_mem hla) _ List.mem_cons_self,
    fun la hla => h2 _ (List.mem_map_of_mem hla)⟩

/-- **The differencing step fits (large items).**  `A` is a full tuple (every bin non-empty), sorted by
    ascending sum; `B` is a tuple with at most one item per bin, sorted by descending sum; every item of `A`
    is at least every item of `B`; the items of `B` exceed `T / 3`; all items together fit into `k` bins of
    capacity `T`.  Then every bin of the position-wise union has sum at most `T`. -/
theorem kf_core {T k : Nat} {A B : List (List Nat)} (hA : A.length = k) (hB : B.length = k)
    (ascA : (A.map sumL).Pairwise (· ≤ ·)) (descB : (B.map sumL).Pairwise (· ≥ ·))
    (fullA : ∀ l ∈ A, l ≠ []) (le1B : ∀ l ∈ B, l.length ≤ 1)
    (dom : ∀ x ∈ A.flatten, ∀ y ∈ B.flatten, y ≤ x)
    (large : ∀ y ∈ B.flatten, T < 3 * y)
    (feas : Packable T k (A.flatten ++ B.flatten))
    (hCA : ∀ l ∈ A, sumL l ≤ T) :
    ∀ l ∈ List.zipWith (· ++ ·) A B, sumL l ≤ T := by
  intro l hl
  obtain ⟨A1, l1, A2, B1, l2, B2, rfl, rfl, hlen, rfl⟩ := zipWith_mem_split hl
  have hl1 : l1 ∈ A1 ++ l1 :: A2 := by simp
  have hl2 : l2 ∈ B1 ++ l2 :: B2 := by simp
  rcases le1_cases (le1B l2 hl2) with h0 | h1
  · rw [h0, List.append_nil]; exact hCA l1 hl1
  · -- `l2 = [w]`
    apply Nat.le_of_not_lt
    intro hbad
    rw [Part.sumL_append] at hbad
    have hw : sumL l2 ∈ (B1 ++ l2 :: B2).flatten :=
      List.mem_flatten.2 ⟨l2, hl2, by rw [h1]; simp [sumL]⟩
    have hT := large _ hw
    obtain ⟨hB1, _⟩ := desc_split descB
    obtain ⟨_, hA2⟩ := asc_split ascA
    have hz := Part.zipWith_append_flatten_perm A1 B1 hlen
    have hLLlen : (List.zipWith (· ++ ·) A1 B1 ++ l1 :: A2).length = k := by
      rw [← hA]; simp [hlen]
    -- every item of the auxiliary distribution is at least `w`
    have hm : ∀ y ∈ (List.zipWith (· ++ ·) A1 B1 ++ l1 :: A2).flatten, sumL l2 ≤ y := by
      intro y hy
      rw [List.flatten_append, List.mem_append] at hy
      rcases hy with hy | hy
      · rcases List.mem_append.1 (hz.mem_iff.1 hy) with hy | hy
        · exact dom y (by simp [hy]) _ hw
        · obtain ⟨lb, hlb, hylb⟩ := List.mem_flatten.1 hy
          rcases le1_cases (le1B lb (by simp [hlb])) with e | e
          · rw [e] at hylb; cases hylb
          · rw [e] at hylb; simp at hylb; rw [hylb]; exact hB1 lb hlb
      · exact dom y (by
          rw [List.flatten_append, List.mem_append]; exact Or.inr hy) _ hw
    -- feasibility of the auxiliary items plus `w`
    have hfeas : Packable T k ((List.zipWith (· ++ ·) A1 B1 ++ l1 :: A2).flatten ++ [sumL l2]) := by
      apply LPT43.packable_prefix B2.flatten
      refine LPT43.packable_perm ?_ feas
      rw [List.perm_iff_count]
      intro c
      have hc := hz.count_eq c
      have e2 : List.count c [sumL l2] = List.count c l2 := by rw [← h1]
      simp only [List.flatten_append, List.count_append, List.flatten_cons] at hc ⊢
      omega
    obtain ⟨l', hl', hfit⟩ := LPT43.large_fits (T := T) (k := k) (m := sumL l2)
      (List.zipWith (· ++ ·) A1 B1 ++ l1 :: A2) hLLlen (List.Perm.refl _) hfeas hm hT
    rcases List.mem_append.1 hl' with hl' | hl'
    · obtain ⟨la, hla, lb, hlb, rfl⟩ := zipWith_mem_pair hl'
      rw [Part.sumL_append] at hfit
      have h3 := hB1 lb hlb
      have hne := fullA la (by simp [hla])
      obtain ⟨x, hx⟩ := List.exists_mem_of_ne_nil la hne
      have h4 : sumL l2 ≤ x := dom x (List.mem_flatten.2 ⟨la, by simp [hla], hx⟩) _ hw
      have h5 := LPT43.le_sumL_of_mem hx
      omega
    · rcases List.mem_cons.1 hl' with rfl | hl'
      · omega
      · have := hA2 l' hl'; omega


theorem length_le_flatten_length {β : Type} (L : List (List β)) (h : ∀ l ∈ L, l ≠ []) :
    L.length ≤ L.flatten.length := by
  apply Nat.le_of_not_lt
  intro hlt
  exact h [] (LPT43.nil_mem_of_flatten_lt L hlt) rfl

theorem ne_nil_of_sumL_pos {l : List Nat} (h : 0 < sumL l) : l ≠ [] := by
  rintro rfl; simp [sumL] at h

theorem sumL_pos_of_ne_nil {l : List Nat} (hne : l ≠ []) (hpos : ∀ x ∈ l, 0 < x) : 0 < sumL l := by
  obtain ⟨x, hx⟩ := List.exists_mem_of_ne_nil l hne
  exact sumL_pos_of_mem hx (hpos x hx)

/-- if position-wise union of an ascending and a descending tuple puts two non-empty bins together, the two
    tuples hold more than `k` non-empty bins (hence more than `k` items) -/
theorem overlap_count {A1 A2 B1 B2 : List (List Nat)} {l1 l2 : List Nat}
    (ascA : ((A1 ++ l1 :: A2).map sumL).Pairwise (· ≤ ·))
    (descB : ((B1 ++ l2 :: B2).map sumL).Pairwise (· ≥ ·))
    (hlen : A1.length = B1.length)
    (hpos : ∀ x ∈ (A1 ++ l1 :: A2).flatten ++ (B1 ++ l2 :: B2).flatten, 0 < x)
    (h1 : l1 ≠ []) (h2 : l2 ≠ []) :
    (A1 ++ l1 :: A2).length + 1 ≤ (A1 ++ l1 :: A2).flatten.length + (B1 ++ l2 :: B2).flatten.length := by
  obtain ⟨hB1, _⟩ := desc_split descB
  obtain ⟨_, hA2⟩ := asc_split ascA
  have p1 : 0 < sumL l1 := sumL_pos_of_ne_nil h1 (fun x hx => hpos x (by simp [hx]))
  have p2 : 0 < sumL l2 := sumL_pos_of_ne_nil h2 (fun x hx => hpos x (by simp [hx]))
  have a2 := length_le_flatten_length (l1 :: A2) (by
    intro l hl
    rcases List.mem_cons.1 hl with rfl | hl
    · exact h1
    · exact ne_nil_of_sumL_pos (Nat.lt_of_lt_of_le p1 (hA2 l hl)))
  have b1 := length_le_flatten_length (B1 ++ [l2]) (by
    intro l hl
    rcases List.mem_append.1 hl with hl | hl
    · exact ne_nil_of_sumL_pos (Nat.lt_of_lt_of_le p2 (hB1 l hl))
    · simp at hl; rw [hl]; exact h2)
  simp only [List.flatten_append, List.length_append, List.flatten_cons, List.length_cons,
    List.flatten_nil, List.length_nil] at a2 b1 ⊢
  omega

/-- two tuples with at most one item per bin and at most `k` items together: no bin receives two items -/
theorem noverlap_core {k : Nat} {A B : List (List Nat)} (hA : A.length = k)
    (ascA : (A.map sumL).Pairwise (· ≤ ·)) (descB : (B.map sumL).Pairwise (· ≥ ·))
    (le1A : ∀ l ∈ A, l.length ≤ 1) (le1B : ∀ l ∈ B, l.length ≤ 1)
    (hpos : ∀ x ∈ A.flatten ++ B.flatten, 0 < x)
    (hcnt : A.flatten.length + B.flatten.length ≤ k) :
    ∀ l ∈ List.zipWith (· ++ ·) A B, ∃ a ∈ A, ∃ b ∈ B, (l = a ∧ b = []) ∨ (l = b ∧ a = []) := by
  intro l hl
  obtain ⟨A1, l1, A2, B1, l2, B2, rfl, rfl, hlen, rfl⟩ := zipWith_mem_split hl
  refine ⟨l1, by simp, l2, by simp, ?_⟩
  by_cases h1 : l1 = []
  · right; simp [h1]
  · by_cases h2 : l2 = []
    · left; simp [h2]
    · exfalso
      have := overlap_count ascA descB hlen hpos h1 h2
      omega

/-- a position-wise union with an empty bin comes from two tuples with fewer than `k` items together
    (both with at most one item per bin) -/
theorem nonfull_count {k : Nat} {A B : List (List Nat)} (hA : A.length = k) (hB : B.length = k)
    (ascA : (A.map sumL).Pairwise (· ≤ ·)) (descB : (B.map sumL).Pairwise (· ≥ ·))
    (le1A : ∀ l ∈ A, l.length ≤ 1) (le1B : ∀ l ∈ B, l.length ≤ 1)
    (hpos : ∀ x ∈ A.flatten ++ B.flatten, 0 < x)
    (h : [] ∈ List.zipWith (· ++ ·) A B) :
    A.flatten.length + B.flatten.length + 1 ≤ k := by
  obtain ⟨A1, l1, A2, B1, l2, B2, rfl, rfl, hlen, e⟩ := zipWith_mem_split h
  have e1 : l1 = [] := (List.append_eq_nil_iff.1 e.symm).1
  have e2 : l2 = [] := (List.append_eq_nil_iff.1 e.symm).2
  subst e1 e2
  obtain ⟨_, hB2⟩ := desc_split descB
  obtain ⟨hA1, _⟩ := asc_split ascA
  have hA1nil : A1.flatten = [] := by
    rw [List.flatten_eq_nil_iff]
    intro l hl
    by_contra hne
    have := sumL_pos_of_ne_nil hne (fun x hx => hpos x (by
      simp only [List.flatten_append, List.mem_append]
      exact Or.inl (Or.inl (List.mem_flatten.2 ⟨l, hl, hx⟩))))
    have := hA1 l hl
    simp [sumL] at this; omega
  have hB2nil : B2.flatten = [] := by
    rw [List.flatten_eq_nil_iff]
    intro l hl
    by_contra hne
    have := sumL_pos_of_ne_nil hne (fun x hx => hpos x (by
      simp only [List.flatten_append, List.mem_append, List.flatten_cons]
      exact Or.inr (Or.inr (Or.inr (List.mem_flatten.2 ⟨l, hl, hx⟩)))))
    have := hB2 l hl
    simp [sumL] at this; omega
  have a2 := LPT43.flatten_length_le A2 (fun l hl => le1A l (by simp [hl]))
  have b1 := LPT43.flatten_length_le B1 (fun l hl => le1B l (by simp [hl]))
  simp only [List.flatten_append, List.length_append, List.flatten_cons, List.length_cons,
    List.length_nil, hA1nil, hB2nil] at a2 b1 hA ⊢
  omega

/-- **All items equal.**  Two tuples with at most one item per bin whose items all have the same value `μ`
    (`μ > T / 3`), feasible for `T`: the position-wise union has sums at most `T`. -/
theorem eq_core {T k μ : Nat} {A B : List (List Nat)} (hA : A.length = k)
    (ascA : (A.map sumL).Pairwise (· ≤ ·)) (descB : (B.map sumL).Pairwise (· ≥ ·))
    (le1A : ∀ l ∈ A, l.length ≤ 1) (le1B : ∀ l ∈ B, l.length ≤ 1)
    (heq : ∀ x ∈ A.flatten ++ B.flatten, x = μ) (hμ : T < 3 * μ)
    (feas : Packable T k (A.flatten ++ B.flatten))
    (hCA : ∀ l ∈ A, sumL l ≤ T) (hCB : ∀ l ∈ B, sumL l ≤ T) :
    ∀ l ∈ List.zipWith (· ++ ·) A B, sumL l ≤ T := by
  intro l hl
  obtain ⟨A1, l1, A2, B1, l2, B2, rfl, rfl, hlen, rfl⟩ := zipWith_mem_split hl
  by_cases h1 : l1 = []
  · rw [h1, List.nil_append]; exact hCB l2 (by simp)
  · by_cases h2 : l2 = []
    · rw [h2, List.append_nil]; exact hCA l1 (by simp)
    · have hpos : ∀ x ∈ (A1 ++ l1 :: A2).flatten ++ (B1 ++ l2 :: B2).flatten, 0 < x := by
        intro x hx; rw [heq x hx]; omega
      have hc := overlap_count ascA descB hlen hpos h1 h2
      have h3 := LPT43.two_per_bin_count feas (m := μ) (fun y hy => by rw [heq y hy]) hμ
      rcases le1_cases (le1A l1 (by simp)) with e | e1
      · exact absurd e h1
      · rcases le1_cases (le1B l2 (by simp)) with e | e2
        · exact absurd e h2
        · have m1 : sumL l1 = μ := heq _ (by
            rw [List.mem_append]; left
            exact List.mem_flatten.2 ⟨l1, by simp, by rw [e1]; simp [sumL]⟩)
          have m2 : sumL l2 = μ := heq _ (by
            rw [List.mem_append]; right
            exact List.mem_flatten.2 ⟨l2, by simp, by rw [e2]; simp [sumL]⟩)
          rw [Part.sumL_append, m1, m2]
          apply Nat.le_of_not_lt
          intro hbad
          have hall : List.countP (fun y => decide (T < y + μ))
              ((A1 ++ l1 :: A2).flatten ++ (B1 ++ l2 :: B2).flatten) =
              ((A1 ++ l1 :: A2).flatten ++ (B1 ++ l2 :: B2).flatten).length := by
            rw [List.countP_eq_length]
            intro y hy
            rw [heq y hy]; simpa using hbad
          rw [hall] at h3
          rw [List.length_append] at h3
          omega


/-! ## 2. Tuples of bins (items are natural numbers, their own values) -/

/-- all items of a tuple -/
def items (b : Bins Nat) : List Nat := b.lists.flatten
/-- every bin holds an item -/
def Full (b : Bins Nat) : Prop := ∀ l ∈ b.lists, l ≠ []
/-- every bin holds at most one item -/
def Le1 (b : Bins Nat) : Prop := ∀ l ∈ b.lists, l.length ≤ 1
/-- at least two items -/
def Compound (b : Bins Nat) : Prop := 2 ≤ (items b).length
/-- every item exceeds `T / 3` -/
def AllLarge (T : Nat) (b : Bins Nat) : Prop := ∀ x ∈ items b, T < 3 * x
/-- every item of `s` is at least every item of `t` -/
def Dom (s t : Bins Nat) : Prop := ∀ x ∈ items s, ∀ y ∈ items t, y ≤ x
/-- all items of `s` and `t` have the same value -/
def AllEq (s t : Bins Nat) : Prop := ∀ x ∈ items s ++ items t, ∀ y ∈ items s ++ items t, x = y
/-- every sum is at most `T` -/
def Fits (T : Nat) (b : Bins Nat) : Prop := ∀ s ∈ b.sums, s ≤ T

/-- a well-formed heap tuple: `k` bins, sums consistent and ascending, at least one item -/
structure WF (k : Nat) (b : Bins Nat) : Prop where
  len : b.lists.length = k
  cons : b.sums = b.lists.map sumL
  sorted : b.sums.Pairwise (· ≤ ·)
  ne : items b ≠ []

theorem consistent_iff (b : Bins Nat) : b.Consistent id ↔ b.sums = b.lists.map sumL := by
  unfold Bins.Consistent
  have : b.lists.map (binSum id) = b.lists.map sumL :=
    List.map_congr_left (fun l _ => LPT43.binSum_id l)
  rw [this]

theorem WF.slen {k : Nat} {b : Bins Nat} (h : WF k b) : b.sums.length = k := by
  rw [h.cons, List.length_map, h.len]

theorem WF.asc {k : Nat} {b : Bins Nat} (h : WF k b) : (b.lists.map sumL).Pairwise (· ≤ ·) := by
  rw [← h.cons]; exact h.sorted

theorem WF.desc {k : Nat} {b : Bins Nat} (h : WF k b) :
    (b.lists.reverse.map sumL).Pairwise (· ≥ ·) := by
  rw [List.map_reverse, List.pairwise_reverse]
  exact h.asc

theorem mem_items_reverse (b : Bins Nat) (x : Nat) : x ∈ b.lists.reverse.flatten ↔ x ∈ items b :=
  (List.reverse_perm b.lists).flatten.mem_iff

/-- the unsorted combination and the pushed (sorted) tuple -/
theorem comb_lists (a b : Bins Nat) :
    (kkCombine a b).lists = List.zipWith (· ++ ·) a.lists b.lists.reverse := rfl

theorem comb_sums {k : Nat} {a b : Bins Nat} (ha : WF k a) (hb : WF k b) :
    (kkCombine a b).sums = (kkCombine a b).lists.map sumL := by
  simp only [kkCombine]
  rw [ha.cons, hb.cons, ← List.map_reverse, zipWith_add_map_sumL]

theorem comb_len {k : Nat} {a b : Bins Nat} (ha : WF k a) (hb : WF k b) :
    (kkCombine a b).lists.length = k := Part.kkCombine_lists_length a b k ha.len hb.len

theorem comb_slen {k : Nat} {a b : Bins Nat} (ha : WF k a) (hb : WF k b) :
    (kkCombine a b).sums.length = (kkCombine a b).lists.length := by
  rw [comb_sums ha hb, List.length_map]

theorem comb_items_perm {k : Nat} {a b : Bins Nat} (ha : WF k a) (hb : WF k b) :
    (items (kkCombine a b)).Perm (items a ++ items b) :=
  Part.kkCombine_flat_perm a b (by rw [ha.len, hb.len])

theorem push_lists_perm {k : Nat} {a b : Bins Nat} (ha : WF k a) (hb : WF k b) :
    (kkCombine a b).sortAsc.lists.Perm (kkCombine a b).lists :=
  Part.sortAsc_lists_perm _ (comb_slen ha hb)

theorem push_sums_perm {k : Nat} {a b : Bins Nat} (ha : WF k a) (hb : WF k b) :
    (kkCombine a b).sortAsc.sums.Perm (kkCombine a b).sums :=
  Part.sortAsc_sums_perm _ (comb_slen ha hb)

theorem push_items_perm {k : Nat} {a b : Bins Nat} (ha : WF k a) (hb : WF k b) :
    (items (kkCombine a b).sortAsc).Perm (items a ++ items b) :=
  (push_lists_perm ha hb).flatten.trans (comb_items_perm ha hb)

theorem push_wf {k : Nat} {a b : Bins Nat} (ha : WF k a) (hb : WF k b) :
    WF k (kkCombine a b).sortAsc := by
  refine ⟨?_, ?_, Part.sortAsc_sums_sorted _, ?_⟩
  · rw [(push_lists_perm ha hb).length_eq, comb_len ha hb]
  · rw [← consistent_iff]
    exact Part.sortAsc_consistent id _ ((consistent_iff _).2 (comb_sums ha hb))
  · intro h
    have := (push_items_perm ha hb).length_eq
    rw [h] at this
    have hne := ha.ne
    simp only [List.length_nil, List.length_append] at this
    exact hne (List.length_eq_zero_iff.1 (by omega))

theorem mem_comb_lists {a b : Bins Nat} {l : List Nat} (h : l ∈ (kkCombine a b).lists) :
    ∃ l1 ∈ a.lists, ∃ l2 ∈ b.lists, l = l1 ++ l2 := by
  rw [comb_lists] at h
  obtain ⟨l1, h1, l2, h2, e⟩ := zipWith_mem_pair h
  exact ⟨l1, h1, l2, List.mem_reverse.1 h2, e⟩

theorem fits_push {k T : Nat} {a b : Bins Nat} (ha : WF k a) (hb : WF k b) (h : Fits T (kkCombine a b)) :
    Fits T (kkCombine a b).sortAsc :=
  fun s hs => h s ((push_sums_perm ha hb).mem_iff.1 hs)

theorem full_push {k : Nat} {a b : Bins Nat} (ha : WF k a) (hb : WF k b) :
    Full (kkCombine a b).sortAsc ↔ Full (kkCombine a b) := by
  unfold Full
  constructor
  · intro h l hl; exact h l ((push_lists_perm ha hb).mem_iff.2 hl)
  · intro h l hl; exact h l ((push_lists_perm ha hb).mem_iff.1 hl)

theorem le1_push {k : Nat} {a b : Bins Nat} (ha : WF k a) (hb : WF k b) :
    Le1 (kkCombine a b).sortAsc ↔ Le1 (kkCombine a b) := by
  unfold Le1
  constructor
  · intro h l hl; exact h l ((push_lists_perm ha hb).mem_iff.2 hl)
  · intro h l hl; exact h l ((push_lists_perm ha hb).mem_iff.1 hl)

theorem full_comb_left {a b : Bins Nat} (h : Full a) : Full (kkCombine a b) := by
  intro l hl
  obtain ⟨l1, h1, l2, _, rfl⟩ := mem_comb_lists hl
  intro e
  exact h l1 h1 (List.append_eq_nil_iff.1 e).1

theorem full_comb_right {a b : Bins Nat} (h : Full b) : Full (kkCombine a b) := by
  intro l hl
  obtain ⟨l1, _, l2, h2, rfl⟩ := mem_comb_lists hl
  intro e
  exact h l2 h2 (List.append_eq_nil_iff.1 e).2

/-- the sums of `a ⊕ b` and `b ⊕ a` are the same up to order -/
theorem comb_sums_comm {k : Nat} {a b : Bins Nat} (ha : WF k a) (hb : WF k b) (s : Nat) :
    s ∈ (kkCombine a b).sums ↔ s ∈ (kkCombine b a).sums := by
  have e : (kkCombine a b).sums = (kkCombine b a).sums.reverse := by
    simp only [kkCombine]
    rw [List.reverse_zipWith (by rw [List.length_reverse, ha.slen, hb.slen]), List.reverse_reverse,
      List.zipWith_comm]
    congr 1
    funext x y; exact Nat.add_comm _ _
  rw [e, List.mem_reverse]


/-! ## 3. When does the combination of two tuples stay within the capacity? -/

theorem fits_dom_left {k T : Nat} {a b : Bins Nat} (ha : WF k a) (hb : WF k b)
    (hfa : Full a) (hlb : Le1 b) (hd : Dom a b) (hL : AllLarge T b)
    (feas : Packable T k (items a ++ items b)) (hCa : Fits T a) : Fits T (kkCombine a b) := by
  intro s hs
  rw [comb_sums ha hb, comb_lists] at hs
  obtain ⟨l, hl, rfl⟩ := List.mem_map.1 hs
  refine kf_core (T := T) (k := k) ha.len (by rw [List.length_reverse, hb.len]) ha.asc hb.desc hfa
    (fun l hl => hlb l (List.mem_reverse.1 hl))
    (fun x hx y hy => hd x hx y ((mem_items_reverse b y).1 hy))
    (fun y hy => hL y ((mem_items_reverse b y).1 hy))
    (LPT43.packable_perm (List.Perm.append_left _ (List.reverse_perm b.lists).flatten.symm) feas)
    (fun l hl => hCa _ (by rw [ha.cons]; exact List.mem_map_of_mem hl)) l hl

theorem fits_dom_right {k T : Nat} {a b : Bins Nat} (ha : WF k a) (hb : WF k b)
    (hfb : Full b) (hla : Le1 a) (hd : Dom b a) (hL : AllLarge T a)
    (feas : Packable T k (items a ++ items b)) (hCb : Fits T b) : Fits T (kkCombine a b) := by
  intro s hs
  exact fits_dom_left hb ha hfb hla hd hL (LPT43.packable_perm List.perm_append_comm feas) hCb s
    ((comb_sums_comm ha hb s).1 hs)

theorem fits_eq {k T : Nat} {a b : Bins Nat} (ha : WF k a) (hb : WF k b)
    (hla : Le1 a) (hlb : Le1 b) (he : AllEq a b) (hL : AllLarge T a)
    (feas : Packable T k (items a ++ items b)) (hCa : Fits T a) (hCb : Fits T b) :
    Fits T (kkCombine a b) := by
  obtain ⟨μ, hμ⟩ := List.exists_mem_of_ne_nil _ ha.ne
  intro s hs
  rw [comb_sums ha hb, comb_lists] at hs
  obtain ⟨l, hl, rfl⟩ := List.mem_map.1 hs
  have hmem : ∀ x, x ∈ a.lists.flatten ++ b.lists.reverse.flatten ↔ x ∈ items a ++ items b := by
    intro x
    rw [List.mem_append, List.mem_append, mem_items_reverse]; rfl
  refine eq_core (T := T) (k := k) (μ := μ) ha.len ha.asc hb.desc hla
    (fun l hl => hlb l (List.mem_reverse.1 hl))
    (fun x hx => he x ((hmem x).1 hx) μ (List.mem_append_left _ hμ)) (hL μ hμ)
    (LPT43.packable_perm (List.Perm.append_left _ (List.reverse_perm b.lists).flatten.symm) feas)
    (fun l hl => hCa _ (by rw [ha.cons]; exact List.mem_map_of_mem hl))
    (fun l hl => hCb _ (by rw [hb.cons]; exact List.mem_map_of_mem (List.mem_reverse.1 hl))) l hl

theorem noverlap {k : Nat} {a b : Bins Nat} (ha : WF k a) (hb : WF k b)
    (hla : Le1 a) (hlb : Le1 b) (hpos : ∀ x ∈ items a ++ items b, 0 < x)
    (hcnt : (items a).length + (items b).length ≤ k) :
    ∀ l ∈ (kkCombine a b).lists, (l ∈ a.lists ∨ l ∈ b.lists) := by
  intro l hl
  rw [comb_lists] at hl
  have hmem : ∀ x, x ∈ a.lists.flatten ++ b.lists.reverse.flatten ↔ x ∈ items a ++ items b := by
    intro x
    rw [List.mem_append, List.mem_append, mem_items_reverse]; rfl
  obtain ⟨l1, h1, l2, h2, h | h⟩ := noverlap_core (k := k) ha.len ha.asc hb.desc hla
    (fun l hl => hlb l (List.mem_reverse.1 hl)) (fun x hx => hpos x ((hmem x).1 hx))
    (by
      have : b.lists.reverse.flatten.length = (items b).length :=
        (List.reverse_perm b.lists).flatten.length_eq
      rw [this]; exact hcnt) l hl
  · left; rw [h.1]; exact h1
  · right; rw [h.1]; exact List.mem_reverse.1 h2

theorem fits_noverlap {k T : Nat} {a b : Bins Nat} (ha : WF k a) (hb : WF k b)
    (hla : Le1 a) (hlb : Le1 b) (hpos : ∀ x ∈ items a ++ items b, 0 < x)
    (hcnt : (items a).length + (items b).length ≤ k) (hCa : Fits T a) (hCb : Fits T b) :
    Fits T (kkCombine a b) ∧ Le1 (kkCombine a b) := by
  have h := noverlap ha hb hla hlb hpos hcnt
  constructor
  · intro s hs
    rw [comb_sums ha hb] at hs
    obtain ⟨l, hl, rfl⟩ := List.mem_map.1 hs
    rcases h l hl with h | h
    · exact hCa _ (by rw [ha.cons]; exact List.mem_map_of_mem h)
    · exact hCb _ (by rw [hb.cons]; exact List.mem_map_of_mem h)
  · intro l hl
    rcases h l hl with h | h
    · exact hla l h
    · exact hlb l h

/-- a combination with an empty bin has at most one item per bin -/
theorem le1_of_nonfull {k : Nat} {a b : Bins Nat} (ha : WF k a) (hb : WF k b)
    (hla : ¬ Full a → Le1 a) (hlb : ¬ Full b → Le1 b) (hpos : ∀ x ∈ items a ++ items b, 0 < x)
    (hnf : ¬ Full (kkCombine a b)) : Le1 (kkCombine a b) ∧ (items a).length + (items b).length + 1 ≤ k := by
  have hnfa : ¬ Full a := fun h => hnf (full_comb_left h)
  have hnfb : ¬ Full b := fun h => hnf (full_comb_right h)
  have hmem : ∀ x, x ∈ a.lists.flatten ++ b.lists.reverse.flatten ↔ x ∈ items a ++ items b := by
    intro x
    rw [List.mem_append, List.mem_append, mem_items_reverse]; rfl
  have hnil : [] ∈ (kkCombine a b).lists := by
    unfold Full at hnf
    simp only [ne_eq, not_forall, Decidable.not_not] at hnf
    obtain ⟨l, hl, rfl⟩ := hnf
    exact hl
  rw [comb_lists] at hnil
  have hc := nonfull_count (k := k) ha.len (by rw [List.length_reverse, hb.len]) ha.asc hb.desc (hla hnfa)
    (fun l hl => hlb hnfb l (List.mem_reverse.1 hl)) (fun x hx => hpos x ((hmem x).1 hx)) hnil
  have e : b.lists.reverse.flatten.length = (items b).length :=
    (List.reverse_perm b.lists).flatten.length_eq
  rw [e] at hc
  have hc' : (items a).length + (items b).length + 1 ≤ k := hc
  refine ⟨?_, hc'⟩
  intro l hl
  rcases noverlap ha hb (hla hnfa) (hlb hnfb) hpos (by omega) l hl with h | h
  · exact hla hnfa l h
  · exact hlb hnfb l h


/-! ## 4. Kinds of tuples: singles, partial (an empty bin), full -/

/-- largest minus smallest sum -/
def gapOf (b : Bins Nat) : Nat := maxL b.sums - minL b.sums

theorem full_length {k : Nat} {b : Bins Nat} (h : WF k b) (hf : Full b) : k ≤ (items b).length := by
  rw [← h.len]; exact length_le_flatten_length _ hf

theorem le1_of_flatten_le {β : Type} : ∀ (L : List (List β)), (∀ l ∈ L, l ≠ []) →
    L.flatten.length ≤ L.length → ∀ l ∈ L, l.length ≤ 1
  | [], _, _ => by simp
  | l :: L, hne, hlen => by
    have h1 : l ≠ [] := hne l List.mem_cons_self
    have h2 := length_le_flatten_length L (fun l' hl' => hne l' (List.mem_cons_of_mem _ hl'))
    have h3 : 0 < l.length := List.length_pos_iff.2 h1
    simp only [List.flatten_cons, List.length_append, List.length_cons] at hlen
    intro l' hl'
    rcases List.mem_cons.1 hl' with rfl | hl'
    · omega
    · exact le1_of_flatten_le L (fun l' hl' => hne l' (List.mem_cons_of_mem _ hl')) (by omega) l' hl'

theorem full_le1_of_length {k : Nat} {b : Bins Nat} (h : WF k b) (hf : Full b)
    (hl : (items b).length ≤ k) : Le1 b :=
  le1_of_flatten_le b.lists hf (by rw [h.len]; exact hl)

theorem single_items {k : Nat} {b : Bins Nat} (h : WF k b) (hc : ¬ Compound b) : ∃ x, items b = [x] := by
  unfold Compound at hc
  have hne := h.ne
  match hi : items b, hne, hc with
  | [], hne, _ => exact absurd rfl hne
  | [x], _, _ => exact ⟨x, rfl⟩
  | _ :: _ :: _, _, hc => simp at hc

theorem single_nonfull {k : Nat} (hk : 2 ≤ k) {b : Bins Nat} (h : WF k b) (hc : ¬ Compound b) : ¬ Full b := by
  intro hf
  have := full_length h hf
  unfold Compound at hc
  omega

theorem full_compound {k : Nat} (hk : 2 ≤ k) {b : Bins Nat} (h : WF k b) (hf : Full b) : Compound b := by
  have := full_length h hf
  unfold Compound; omega

theorem nonfull_facts {k : Nat} {b : Bins Nat} (h : WF k b) (hl : Le1 b) (hnf : ¬ Full b) :
    minL b.sums = 0 ∧ (∀ x ∈ items b, x ≤ maxL b.sums) ∧ (maxL b.sums = 0 ∨ maxL b.sums ∈ items b) ∧
      (items b).length + 1 ≤ k := by
  have hnil : [] ∈ b.lists := by
    unfold Full at hnf
    simp only [ne_eq, not_forall, Decidable.not_not] at hnf
    obtain ⟨l, hl, rfl⟩ := hnf
    exact hl
  have h0 : 0 ∈ b.sums := by rw [h.cons]; exact List.mem_map.2 ⟨[], hnil, rfl⟩
  refine ⟨by have := Part.minL_le h0; omega, ?_, ?_, ?_⟩
  · intro x hx
    obtain ⟨l, hl', hxl⟩ := List.mem_flatten.1 hx
    rcases le1_cases (hl l hl') with e | e
    · rw [e] at hxl; cases hxl
    · rw [e] at hxl; simp at hxl
      apply Part.le_maxL
      rw [h.cons, hxl]; exact List.mem_map_of_mem hl'
  · have hne : b.sums ≠ [] := by intro e; rw [e] at h0; cases h0
    have hm := Part.maxL_mem hne
    rw [h.cons] at hm
    obtain ⟨l, hl', e⟩ := List.mem_map.1 hm
    rcases le1_cases (hl l hl') with e' | e'
    · left; rw [h.cons, ← e, e']; rfl
    · right
      rw [h.cons, ← e]
      exact List.mem_flatten.2 ⟨l, hl', by rw [e']; simp [sumL]⟩
  · obtain ⟨L1, L2, e⟩ := List.append_of_mem hnil
    have hlen := h.len
    have := LPT43.flatten_length_le b.lists hl
    unfold items
    rw [e] at hlen this ⊢
    have a1 := LPT43.flatten_length_le L1 (fun l hl' => hl l (by rw [e]; simp [hl']))
    have a2 := LPT43.flatten_length_le L2 (fun l hl' => hl l (by rw [e]; simp [hl']))
    simp only [List.flatten_append, List.flatten_cons, List.length_append, List.length_cons,
      List.nil_append] at hlen this a1 a2 ⊢
    omega

theorem gapOf_nonfull {k : Nat} {b : Bins Nat} (h : WF k b) (hl : Le1 b) (hnf : ¬ Full b) :
    gapOf b = maxL b.sums := by
  unfold gapOf; rw [(nonfull_facts h hl hnf).1]; rfl

/-- the difference of a single is its item -/
theorem gapOf_single {k : Nat} {b : Bins Nat} (h : WF k b) (hl : Le1 b) (hnf : ¬ Full b) {x : Nat}
    (hx : items b = [x]) : gapOf b = x := by
  rw [gapOf_nonfull h hl hnf]
  obtain ⟨_, h2, h3, _⟩ := nonfull_facts h hl hnf
  have := h2 x (by rw [hx]; simp)
  rcases h3 with h3 | h3
  · omega
  · rw [hx] at h3; simpa using h3

/-- at most `2k` items exceed a third of a feasible capacity -/
theorem count_large {T k : Nat} {L rest : List Nat} (h : Packable T k (L ++ rest))
    (hL : ∀ x ∈ L, T < 3 * x) : L.length ≤ 2 * k :=
  LPT43.length_le_of_large (m := T / 3 + 1) (LPT43.packable_prefix rest h)
    (fun y hy => by have := hL y hy; omega) (by omega)


/-! ## 5. The invariant of the large-item phase -/

/-- per-tuple invariant -/
structure TInv (k T : Nat) (b : Bins Nat) : Prop where
  wf : WF k b
  fits : Fits T b
  le1 : ¬ Full b → Le1 b

/-- the (symmetric) relation between two tuples of the heap:
    * a compound tuple dominates every single;
    * two full tuples: one dominates the other;
    * a full tuple dominates a partial one;
    * two partial compound tuples consist of items of one and the same value. -/
def Rel (s t : Bins Nat) : Prop :=
  (Compound s → ¬ Compound t → Dom s t) ∧ (¬ Compound s → Compound t → Dom t s) ∧
  (Compound s → Compound t →
    (Full s → Full t → Dom s t ∨ Dom t s) ∧ (Full s → ¬ Full t → Dom s t) ∧
    (¬ Full s → Full t → Dom t s) ∧ (¬ Full s → ¬ Full t → AllEq s t))

theorem allEq_symm {s t : Bins Nat} (h : AllEq s t) : AllEq t s := by
  intro x hx y hy
  exact h x (by rw [List.mem_append] at hx ⊢; exact hx.symm) y
    (by rw [List.mem_append] at hy ⊢; exact hy.symm)

theorem rel_symm {s t : Bins Nat} (h : Rel s t) : Rel t s := by
  obtain ⟨h1, h2, h3⟩ := h
  refine ⟨fun a b => h2 b a, fun a b => h1 b a, fun a b => ?_⟩
  obtain ⟨g1, g2, g3, g4⟩ := h3 b a
  exact ⟨fun x y => (g1 y x).symm, fun x y => g3 y x, fun x y => g2 y x, fun x y => allEq_symm (g4 y x)⟩

theorem pos_of_large {T x : Nat} (h : T < 3 * x) : 0 < x := by omega

theorem allEq_dom {s t : Bins Nat} (h : AllEq s t) : Dom s t := by
  intro x hx y hy
  have := h x (List.mem_append_left _ hx) y (List.mem_append_right _ hy)
  omega

/-- the combination of the two popped tuples stays within the capacity -/
theorem pure_fits {k T : Nat} (hk : 2 ≤ k) {a b : Bins Nat} {rest : List Nat}
    (ha : TInv k T a) (hb : TInv k T b) (hLa : AllLarge T a) (hLb : AllLarge T b) (hr : Rel a b)
    (feas : Packable T k (items a ++ items b ++ rest)) : Fits T (kkCombine a b) := by
  have feas' : Packable T k (items a ++ items b) := LPT43.packable_prefix rest feas
  have hpos : ∀ x ∈ items a ++ items b, 0 < x := by
    intro x hx
    rcases List.mem_append.1 hx with hx | hx
    · exact pos_of_large (hLa x hx)
    · exact pos_of_large (hLb x hx)
  obtain ⟨r1, r2, r3⟩ := hr
  by_cases hfa : Full a
  · have hca := full_compound hk ha.wf hfa
    by_cases hcb : Compound b
    · by_cases hfb : Full b
      · have hcount := count_large (L := items a ++ items b) (rest := []) (by simpa using feas') (by
          intro x hx
          rcases List.mem_append.1 hx with hx | hx
          · exact hLa x hx
          · exact hLb x hx)
        have l1 := full_length ha.wf hfa
        have l2 := full_length hb.wf hfb
        rw [List.length_append] at hcount
        have le1a := full_le1_of_length ha.wf hfa (by omega)
        have le1b := full_le1_of_length hb.wf hfb (by omega)
        rcases (r3 hca hcb).1 hfa hfb with hd | hd
        · exact fits_dom_left ha.wf hb.wf hfa le1b hd hLb feas' ha.fits
        · exact fits_dom_right ha.wf hb.wf hfb le1a hd hLa feas' hb.fits
      · exact fits_dom_left ha.wf hb.wf hfa (hb.le1 hfb) ((r3 hca hcb).2.1 hfa hfb) hLb feas' ha.fits
    · exact fits_dom_left ha.wf hb.wf hfa (hb.le1 (single_nonfull hk hb.wf hcb)) (r1 hca hcb) hLb feas'
        ha.fits
  · by_cases hfb : Full b
    · have hcb := full_compound hk hb.wf hfb
      by_cases hca : Compound a
      · exact fits_dom_right ha.wf hb.wf hfb (ha.le1 hfa) ((r3 hca hcb).2.2.1 hfa hfb) hLa feas' hb.fits
      · exact fits_dom_right ha.wf hb.wf hfb (ha.le1 hfa) (r2 hca hcb) hLa feas' hb.fits
    · have la := ha.le1 hfa
      have lb := hb.le1 hfb
      have na := (nonfull_facts ha.wf la hfa).2.2.2
      have nb := (nonfull_facts hb.wf lb hfb).2.2.2
      by_cases hca : Compound a
      · by_cases hcb : Compound b
        · exact fits_eq ha.wf hb.wf la lb ((r3 hca hcb).2.2.2 hfa hfb) hLa feas' ha.fits hb.fits
        · obtain ⟨x, hx⟩ := single_items hb.wf hcb
          exact (fits_noverlap ha.wf hb.wf la lb hpos (by rw [hx]; simp; omega) ha.fits hb.fits).1
      · obtain ⟨x, hx⟩ := single_items ha.wf hca
        exact (fits_noverlap ha.wf hb.wf la lb hpos (by rw [hx]; simp; omega) ha.fits hb.fits).1


/-! ### a popped tuple `p` against a tuple `s` that stays in the heap -/

section Parent
variable {k T : Nat} {p s : Bins Nat}

theorem parent_allEq (_hk : 2 ≤ k) (hp : TInv k T p) (hs : TInv k T s) (r : Rel p s)
    (g : gapOf s ≤ gapOf p) (hfp : ¬ Full p) (hcs : Compound s) (hfs : ¬ Full s) : AllEq p s := by
  by_cases hcp : Compound p
  · exact (r.2.2 hcp hcs).2.2.2 hfp hfs
  · obtain ⟨x, hx⟩ := single_items hp.wf hcp
    have hd := r.2.1 hcp hcs
    rw [gapOf_single hp.wf (hp.le1 hfp) hfp hx, gapOf_nonfull hs.wf (hs.le1 hfs) hfs] at g
    have hle := (nonfull_facts hs.wf (hs.le1 hfs) hfs).2.1
    have key : ∀ y ∈ items p ++ items s, y = x := by
      intro y hy
      rcases List.mem_append.1 hy with hy | hy
      · rw [hx] at hy; simpa using hy
      · have h1 := hd y hy x (by rw [hx]; simp)
        have h2 := hle y hy
        omega
    intro y hy z hz
    rw [key y hy, key z hz]

theorem parent_dom (hk : 2 ≤ k) (hp : TInv k T p) (hs : TInv k T s) (r : Rel p s)
    (g : gapOf s ≤ gapOf p) (hcs : Compound s) (hfs : ¬ Full s) : Dom p s := by
  by_cases hfp : Full p
  · exact (r.2.2 (full_compound hk hp.wf hfp) hcs).2.1 hfp hfs
  · exact allEq_dom (parent_allEq hk hp hs r g hfp hcs hfs)

theorem parent_dom_full (hk : 2 ≤ k) (hs : TInv k T s) (r : Rel p s)
    (hfs : Full s) (hfp : ¬ Full p) : Dom s p := by
  have hcs := full_compound hk hs.wf hfs
  by_cases hcp : Compound p
  · exact (r.2.2 hcp hcs).2.2.1 hfp hfs
  · exact r.2.1 hcp hcs

theorem parent_dom_single (hk : 2 ≤ k) (hp : TInv k T p) (hs : TInv k T s) (r : Rel p s)
    (g : gapOf s ≤ gapOf p) (hcs : ¬ Compound s) : Dom p s := by
  by_cases hcp : Compound p
  · exact r.1 hcp hcs
  · obtain ⟨x, hx⟩ := single_items hp.wf hcp
    obtain ⟨z, hz⟩ := single_items hs.wf hcs
    have nfp := single_nonfull hk hp.wf hcp
    have nfs := single_nonfull hk hs.wf hcs
    rw [gapOf_single hp.wf (hp.le1 nfp) nfp hx, gapOf_single hs.wf (hs.le1 nfs) nfs hz] at g
    intro x' hx' z' hz'
    rw [hx] at hx'; rw [hz] at hz'
    simp at hx' hz'
    omega

end Parent

theorem dom_push_left {k : Nat} {a b s : Bins Nat} (ha : WF k a) (hb : WF k b) (h1 : Dom a s) (h2 : Dom b s) :
    Dom (kkCombine a b).sortAsc s := by
  intro x hx y hy
  rcases List.mem_append.1 ((push_items_perm ha hb).mem_iff.1 hx) with hx | hx
  · exact h1 x hx y hy
  · exact h2 x hx y hy

theorem dom_push_right {k : Nat} {a b s : Bins Nat} (ha : WF k a) (hb : WF k b) (h1 : Dom s a) (h2 : Dom s b) :
    Dom s (kkCombine a b).sortAsc := by
  intro x hx y hy
  rcases List.mem_append.1 ((push_items_perm ha hb).mem_iff.1 hy) with hy | hy
  · exact h1 x hx y hy
  · exact h2 x hx y hy

theorem push_compound {k : Nat} {a b : Bins Nat} (ha : WF k a) (hb : WF k b) :
    Compound (kkCombine a b).sortAsc := by
  unfold Compound
  rw [(push_items_perm ha hb).length_eq, List.length_append]
  have h1 : 0 < (items a).length := List.length_pos_iff.2 ha.ne
  have h2 : 0 < (items b).length := List.length_pos_iff.2 hb.ne
  omega

/-- the new tuple is related to every tuple that stays in the heap -/
theorem pure_rel {k T : Nat} (hk : 2 ≤ k) {a b s : Bins Nat} {rest : List Nat}
    (ha : TInv k T a) (hb : TInv k T b) (hs : TInv k T s)
    (hLa : AllLarge T a) (hLb : AllLarge T b) (hLs : Compound s → AllLarge T s)
    (ras : Rel a s) (rbs : Rel b s) (ga : gapOf s ≤ gapOf a) (gb : gapOf s ≤ gapOf b)
    (feas : Packable T k (items a ++ items b ++ items s ++ rest)) :
    Rel (kkCombine a b).sortAsc s := by
  have hct := push_compound ha.wf hb.wf
  have nfull : ¬ Full (kkCombine a b).sortAsc → ¬ Full a ∧ ¬ Full b := by
    intro h
    rw [full_push ha.wf hb.wf] at h
    exact ⟨fun h' => h (full_comb_left h'), fun h' => h (full_comb_right h')⟩
  by_cases hcs : Compound s
  · refine ⟨fun _ h => absurd hcs h, fun h _ => absurd hct h, fun _ _ => ⟨?_, ?_, ?_, ?_⟩⟩
    · intro _ hfs
      right
      have hcount := count_large (L := items a ++ items b ++ items s) feas (by
        intro x hx
        rcases List.mem_append.1 hx with hx | hx
        · rcases List.mem_append.1 hx with hx | hx
          · exact hLa x hx
          · exact hLb x hx
        · exact hLs hcs x hx)
      have l3 := full_length hs.wf hfs
      have h1 : 0 < (items a).length := List.length_pos_iff.2 ha.wf.ne
      have h2 : 0 < (items b).length := List.length_pos_iff.2 hb.wf.ne
      simp only [List.length_append] at hcount
      have nfa : ¬ Full a := fun h => by have := full_length ha.wf h; omega
      have nfb : ¬ Full b := fun h => by have := full_length hb.wf h; omega
      exact dom_push_right ha.wf hb.wf (parent_dom_full hk hs ras hfs nfa) (parent_dom_full hk hs rbs hfs nfb)
    · intro _ hfs
      exact dom_push_left ha.wf hb.wf (parent_dom hk ha hs ras ga hcs hfs) (parent_dom hk hb hs rbs gb hcs hfs)
    · intro hft hfs
      obtain ⟨nfa, nfb⟩ := nfull hft
      exact dom_push_right ha.wf hb.wf (parent_dom_full hk hs ras hfs nfa) (parent_dom_full hk hs rbs hfs nfb)
    · intro hft hfs
      obtain ⟨nfa, nfb⟩ := nfull hft
      have e1 := parent_allEq hk ha hs ras ga nfa hcs hfs
      have e2 := parent_allEq hk hb hs rbs gb nfb hcs hfs
      obtain ⟨z, hz⟩ := List.exists_mem_of_ne_nil _ hs.wf.ne
      have key : ∀ y ∈ items (kkCombine a b).sortAsc ++ items s, y = z := by
        intro y hy
        rcases List.mem_append.1 hy with hy | hy
        · rcases List.mem_append.1 ((push_items_perm ha.wf hb.wf).mem_iff.1 hy) with hy | hy
          · exact e1 y (List.mem_append_left _ hy) z (List.mem_append_right _ hz)
          · exact e2 y (List.mem_append_left _ hy) z (List.mem_append_right _ hz)
        · exact e1 y (List.mem_append_right _ hy) z (List.mem_append_right _ hz)
      intro y hy y' hy'
      rw [key y hy, key y' hy']
  · refine ⟨fun _ _ => ?_, fun h _ => absurd hct h, fun _ h => absurd h hcs⟩
    exact dom_push_left ha.wf hb.wf (parent_dom_single hk ha hs ras ga hcs) (parent_dom_single hk hb hs rbs gb hcs)


/-- the invariant of a heap (as a list of tuples) all of whose compound tuples consist of large items -/
def PA (k T : Nat) (L : List (Bins Nat)) : Prop :=
  (∀ t ∈ L, TInv k T t ∧ (Compound t → AllLarge T t)) ∧ L.Pairwise Rel ∧ Packable T k (L.flatMap items)

theorem flatMap_items_split {R : List (Bins Nat)} {s : Bins Nat} (hs : s ∈ R) :
    ∃ rest, (R.flatMap items).Perm (items s ++ rest) := by
  obtain ⟨R1, R2, rfl⟩ := List.append_of_mem hs
  refine ⟨R1.flatMap items ++ R2.flatMap items, ?_⟩
  simp only [List.flatMap_append, List.flatMap_cons]
  exact List.perm_append_comm_assoc _ _ _

/-- **One differencing step on two tuples of large items** keeps the invariant. -/
theorem pure_step {k T : Nat} (hk : 2 ≤ k) {a b : Bins Nat} {R : List (Bins Nat)}
    (h : PA k T (a :: b :: R)) (hLa : AllLarge T a) (hLb : AllLarge T b)
    (hg : ∀ s ∈ R, gapOf s ≤ gapOf a ∧ gapOf s ≤ gapOf b) :
    PA k T ((kkCombine a b).sortAsc :: R) := by
  obtain ⟨h1, h2, h3⟩ := h
  have ha := (h1 a (by simp)).1
  have hb := (h1 b (by simp)).1
  rw [List.pairwise_cons, List.pairwise_cons] at h2
  obtain ⟨ra, rb, rR⟩ := h2
  simp only [List.flatMap_cons] at h3
  have hpos : ∀ x ∈ items a ++ items b, 0 < x := by
    intro x hx
    rcases List.mem_append.1 hx with hx | hx
    · exact pos_of_large (hLa x hx)
    · exact pos_of_large (hLb x hx)
  have hLt : AllLarge T (kkCombine a b).sortAsc := by
    intro x hx
    rcases List.mem_append.1 ((push_items_perm ha.wf hb.wf).mem_iff.1 hx) with hx | hx
    · exact hLa x hx
    · exact hLb x hx
  have hT : TInv k T (kkCombine a b).sortAsc := by
    refine ⟨push_wf ha.wf hb.wf, fits_push ha.wf hb.wf ?_, ?_⟩
    · exact pure_fits hk ha hb hLa hLb (ra b (by simp)) (rest := R.flatMap items)
        (by rw [List.append_assoc]; exact h3)
    · intro hnf
      rw [full_push ha.wf hb.wf] at hnf
      exact (le1_push ha.wf hb.wf).2 (le1_of_nonfull ha.wf hb.wf ha.le1 hb.le1 hpos hnf).1
  refine ⟨?_, ?_, ?_⟩
  · intro t ht
    rcases List.mem_cons.1 ht with rfl | ht
    · exact ⟨hT, fun _ => hLt⟩
    · exact h1 t (by simp [ht])
  · rw [List.pairwise_cons]
    refine ⟨?_, rR⟩
    intro s hs
    obtain ⟨rest, hrest⟩ := flatMap_items_split hs
    have hs' := h1 s (by simp [hs])
    refine pure_rel hk ha hb hs'.1 hLa hLb hs'.2 (ra s (by simp [hs])) (rb s hs) (hg s hs).1 (hg s hs).2
      (rest := rest) ?_
    refine LPT43.packable_perm ?_ h3
    rw [List.append_assoc, List.append_assoc]
    exact List.Perm.append_left _ (List.Perm.append_left _ hrest)
  · simp only [List.flatMap_cons]
    refine LPT43.packable_perm ?_ h3
    rw [← List.append_assoc]
    exact List.Perm.append_right _ (push_items_perm ha.wf hb.wf).symm


/-! ## 6. Sum vectors: small increments do not disturb the high part -/

theorem sorted_filter_split (c : Nat) : ∀ (l : List Nat), l.Pairwise (· ≤ ·) →
    l = l.filter (fun u => decide (u ≤ c)) ++ l.filter (fun u => decide (c < u))
  | [], _ => rfl
  | x :: l, h => by
    rw [List.pairwise_cons] at h
    by_cases hx : x ≤ c
    · have ih := sorted_filter_split c l h.2
      rw [List.filter_cons_of_pos (by simpa using hx), List.filter_cons_of_neg (by simp; omega),
        List.cons_append, ← ih]
    · have hall : ∀ u ∈ x :: l, c < u := by
        intro u hu
        rcases List.mem_cons.1 hu with rfl | hu
        · omega
        · have := h.1 u hu; omega
      have e1 : (x :: l).filter (fun u => decide (u ≤ c)) = [] := by
        rw [List.filter_eq_nil_iff]; intro u hu; have := hall u hu; simp; omega
      have e2 : (x :: l).filter (fun u => decide (c < u)) = x :: l := by
        rw [List.filter_eq_self]; intro u hu; simpa using hall u hu
      rw [e1, e2]; rfl

/-- `y'` arises from `y` by small increments on low entries: above `min y' + σ` the two vectors agree -/
def RS (σ : Nat) (y y' : List Nat) : Prop :=
  y.length = y'.length ∧
    (y.filter (fun u => decide (minL y' + σ < u))).Perm (y'.filter (fun u => decide (minL y' + σ < u)))

theorem rs_refl (σ : Nat) (y : List Nat) : RS σ y y := ⟨rfl, List.Perm.refl _⟩

theorem filter_gt_mono {c c' : Nat} (h : c ≤ c') (l : List Nat) :
    l.filter (fun u => decide (c' < u)) = (l.filter (fun u => decide (c < u))).filter (fun u => decide (c' < u)) := by
  rw [List.filter_filter]
  apply List.filter_congr
  intro u _
  by_cases hu : c' < u
  · have : c < u := by omega
    simp [hu, this]
  · simp [hu]

/-- adding `x ≤ σ` to the smallest entry keeps the relation -/
theorem rs_step {σ x m : Nat} {y tl y'' : List Nat} (h : RS σ y (m :: tl)) (hm : ∀ u ∈ tl, m ≤ u)
    (hx : x ≤ σ) (hp : y''.Perm ((m + x) :: tl)) : RS σ y y'' := by
  obtain ⟨h1, h2⟩ := h
  have hmin : minL (m :: tl) = m := by
    apply Nat.le_antisymm (Part.minL_le List.mem_cons_self)
    exact Part.le_minL (by simp) (fun a ha => by
      rcases List.mem_cons.1 ha with rfl | ha
      · exact Nat.le_refl _
      · exact hm a ha)
  have hmin' : m ≤ minL y'' := by
    rw [Oracle.minL_perm hp]
    exact Part.le_minL (by simp) (fun a ha => by
      rcases List.mem_cons.1 ha with rfl | ha
      · omega
      · exact hm a ha)
  rw [hmin] at h2
  refine ⟨by rw [h1, hp.length_eq]; simp, ?_⟩
  have hc : m + σ ≤ minL y'' + σ := by omega
  rw [filter_gt_mono hc y]
  refine (h2.filter _).trans ?_
  rw [← filter_gt_mono hc (m :: tl)]
  refine List.Perm.trans ?_ (hp.filter _).symm
  rw [List.filter_cons_of_neg (by simp; omega), List.filter_cons_of_neg (by simp; omega)]

/-- if the spread of `y'` exceeds `σ`, its largest entry is an entry of `y` -/
theorem rs_top {σ : Nat} {y y' : List Nat} (h : RS σ y y') (hg : minL y' + σ < maxL y') :
    maxL y' ≤ maxL y := by
  have hne : y' ≠ [] := by rintro rfl; simp [maxL] at hg
  have h1 : maxL y' ∈ y'.filter (fun u => decide (minL y' + σ < u)) :=
    List.mem_filter.2 ⟨Part.maxL_mem hne, by simpa using hg⟩
  exact Part.le_maxL (List.mem_filter.1 (h.2.mem_iff.2 h1)).1

/-- for sorted vectors the relation is a common suffix -/
theorem rs_split {σ : Nat} {y y' : List Nat} (h : RS σ y y') (hy : y.Pairwise (· ≤ ·))
    (hy' : y'.Pairwise (· ≤ ·)) :
    ∃ lo lo' hi, y = lo ++ hi ∧ y' = lo' ++ hi ∧ lo.length = lo'.length ∧ ∀ u ∈ lo', u ≤ minL y' + σ := by
  have e1 := sorted_filter_split (minL y' + σ) y hy
  have e2 := sorted_filter_split (minL y' + σ) y' hy'
  have e3 : y.filter (fun u => decide (minL y' + σ < u)) = y'.filter (fun u => decide (minL y' + σ < u)) :=
    List.Perm.eq_of_pairwise (le := (· ≤ ·)) (fun a b _ _ h1 h2 => Nat.le_antisymm h1 h2)
      (hy.filter _) (hy'.filter _) h.2
  refine ⟨_, _, _, e1, by rw [← e3] at e2; exact e2, ?_, ?_⟩
  · have l1 := congrArg List.length e1
    have l2 := congrArg List.length e2
    rw [List.length_append] at l1 l2
    rw [e3] at l1
    have := h.1
    omega
  · intro u hu
    have := (List.mem_filter.1 hu).2
    simpa using this

/-- position-wise sums of an ascending and a descending vector whose spread is at most `σ`: a sum whose
    first summand is within `σ` of the least first summand is within `σ` of every sum -/
theorem low_pair_gap {σ m : Nat} : ∀ (a d : List Nat), a.Pairwise (· ≤ ·) → d.Pairwise (· ≥ ·) →
    (∀ u ∈ a, m ≤ u) → (∀ u ∈ d, ∀ w ∈ d, u ≤ w + σ) →
    ∀ a1 α a2 d1 β d2, a = a1 ++ α :: a2 → d = d1 ++ β :: d2 → a1.length = d1.length → α ≤ m + σ →
      ∀ Q ∈ List.zipWith (· + ·) a d, α + β ≤ Q + σ := by
  intro a d ha hd hm hg a1 α a2 d1 β d2 ea ed hlen hα Q hQ
  subst ea ed
  obtain ⟨b1, u, b2, c1, w, c2, e1, e2, hl, rfl⟩ := zipWith_mem_split hQ
  have hu : m ≤ u := hm u (by rw [e1]; simp)
  have hw : β ≤ w + σ := hg β (by simp) w (by rw [e2]; simp)
  -- compare the positions
  rw [List.pairwise_append] at ha hd
  by_cases hpos : b1.length ≤ a1.length
  · -- `Q` is at or before the position of `(α, β)`: its second summand is at least `β`
    by_cases heq : b1.length = a1.length
    · have h1 := List.append_inj e1 heq.symm
      have h2 := List.append_inj e2 (by omega)
      have : α = u := by have := h1.2; simp at this; exact this.1
      have : β = w := by have := h2.2; simp at this; exact this.1
      omega
    · -- strictly before: `w` occurs in `d1`
      have hwd : w ∈ d1 := by
        have : (d1 ++ β :: d2)[c1.length]? = some w := by rw [e2]; simp
        rw [List.getElem?_append_left (by omega)] at this
        exact List.mem_of_getElem? this
      have := hd.2.2 w hwd β (by simp)
      omega
  · -- after: `u` occurs in `a2`, so `α ≤ u`
    have hua : u ∈ a2 := by
      have h3 : (a1 ++ α :: a2)[b1.length]? = some u := by rw [e1]; simp
      rw [List.getElem?_append_right (by omega)] at h3
      have h4 : b1.length - a1.length = (b1.length - a1.length - 1) + 1 := by omega
      rw [h4, List.getElem?_cons_succ] at h3
      exact List.mem_of_getElem? h3
    have := (List.pairwise_cons.1 ha.2.1).1 u hua
    omega


theorem zipWith_mem_of_split {β γ δ : Type} (f : β → γ → δ) {A1 A2 : List β} {B1 B2 : List γ} {a : β} {b : γ}
    (h : A1.length = B1.length) : f a b ∈ List.zipWith f (A1 ++ a :: A2) (B1 ++ b :: B2) := by
  rw [List.zipWith_append h]; simp

/-- **Lemma B.**  `y'` is `y` after small increments on low entries, `z` has spread at most `σ`.  If the
    combination `y' ⊕ z` has spread more than `σ`, its largest sum is a sum of `y ⊕ z`. -/
theorem lemmaB {σ : Nat} {y y' z : List Nat} (h : RS σ y y') (hy : y.Pairwise (· ≤ ·))
    (hy' : y'.Pairwise (· ≤ ·)) (hz : z.Pairwise (· ≤ ·)) (hzg : ∀ u ∈ z, ∀ w ∈ z, u ≤ w + σ)
    (hbig : ¬ ∀ P ∈ List.zipWith (· + ·) y' z.reverse, ∀ Q ∈ List.zipWith (· + ·) y' z.reverse, P ≤ Q + σ) :
    ∀ P ∈ List.zipWith (· + ·) y' z.reverse, P ≤ maxL (List.zipWith (· + ·) y z.reverse) := by
  intro P hP
  have hne : List.zipWith (· + ·) y' z.reverse ≠ [] := by intro e; rw [e] at hP; cases hP
  have hP0 := Part.maxL_mem hne
  refine Nat.le_trans (Part.le_maxL hP) ?_
  obtain ⟨A1, α, A2, B1, β, B2, e1, e2, hlen, e⟩ := zipWith_mem_split hP0
  rw [e]
  by_cases hα : α ≤ minL y' + σ
  · exfalso
    apply hbig
    intro P' hP' Q hQ
    have h1 := low_pair_gap (σ := σ) (m := minL y') y' z.reverse hy' (List.pairwise_reverse.2 hz)
      (fun u hu => Part.minL_le hu)
      (fun u hu w hw => hzg u (List.mem_reverse.1 hu) w (List.mem_reverse.1 hw))
      A1 α A2 B1 β B2 e1 e2 hlen hα Q hQ
    have h2 := Part.le_maxL hP'
    omega
  · obtain ⟨lo, lo', hi, f1, f2, f3, f4⟩ := rs_split h hy hy'
    apply Part.le_maxL
    rw [f2] at e1
    rcases List.append_eq_append_iff.1 e1 with ⟨as, g1, g2⟩ | ⟨bs, g1, g2⟩
    · rw [f1, g2, e2, ← List.append_assoc]
      exact zipWith_mem_of_split _ (by rw [List.length_append, f3, ← hlen, g1, List.length_append])
    · cases bs with
      | nil =>
        rw [List.nil_append] at g2
        rw [List.append_nil] at g1
        rw [f1, ← g2, e2]
        exact zipWith_mem_of_split _ (by rw [f3, g1, hlen])
      | cons b bs =>
        exfalso
        rw [List.cons_append, List.cons.injEq] at g2
        have := f4 α (by rw [g1, g2.1]; simp)
        exact hα this

/-! ### the sums of a single -/

theorem lists_of_flatten_single {β : Type} {x : β} : ∀ (L : List (List β)), L.flatten = [x] →
    ∃ i j, L = List.replicate i [] ++ [x] :: List.replicate j []
  | [], h => by simp at h
  | l :: L, h => by
    rw [List.flatten_cons] at h
    rcases List.append_eq_cons_iff.1 h with ⟨e1, e2⟩ | ⟨l', e1, e2⟩
    · obtain ⟨i, j, rfl⟩ := lists_of_flatten_single L e2
      exact ⟨i + 1, j, by rw [e1]; rfl⟩
    · have hl' : l' = [] := (List.append_eq_nil_iff.1 e2.symm).1
      have hL : L.flatten = [] := (List.append_eq_nil_iff.1 e2.symm).2
      refine ⟨0, L.length, ?_⟩
      rw [e1, hl']
      simp only [List.replicate_zero, List.nil_append, List.cons.injEq, true_and]
      rw [List.eq_replicate_iff]
      exact ⟨rfl, fun b hb => List.flatten_eq_nil_iff.1 hL b hb⟩

theorem single_sums {k : Nat} {b : Bins Nat} (h : WF k b) {x : Nat} (hx : items b = [x]) :
    b.sums.reverse = x :: List.replicate (k - 1) 0 := by
  obtain ⟨i, j, e⟩ := lists_of_flatten_single b.lists hx
  have hlen := h.len
  have hs := h.sorted
  rw [h.cons, e] at hs ⊢
  rw [e] at hlen
  simp only [List.length_append, List.length_replicate, List.length_cons] at hlen
  simp only [List.map_append, List.map_replicate, List.map_cons, sumL, Nat.add_zero] at hs ⊢
  by_cases hx0 : x = 0
  · subst hx0
    have : List.replicate i 0 ++ 0 :: List.replicate j 0 = List.replicate (i + 1 + j) 0 := by
      rw [List.eq_replicate_iff]
      refine ⟨by simp; omega, ?_⟩
      intro b hb
      simp only [List.mem_append, List.mem_replicate, List.mem_cons] at hb
      rcases hb with hb | hb | hb <;> omega
    rw [this, List.reverse_replicate]
    have e3 : i + 1 + j = (k - 1) + 1 := by omega
    rw [e3, List.replicate_succ]
  · have hj : j = 0 := by
      by_contra hj
      rw [List.pairwise_append] at hs
      have := (List.pairwise_cons.1 hs.2.1).1 0 (by simp; omega)
      omega
    subst hj
    simp only [List.replicate_zero, List.reverse_append, List.reverse_cons, List.reverse_nil,
      List.nil_append, List.reverse_replicate, List.singleton_append, List.cons.injEq, true_and]
    congr 1; omega

theorem zipWith_add_replicate_zero : ∀ (l : List Nat), List.zipWith (· + ·) l (List.replicate l.length 0) = l
  | [] => rfl
  | x :: l => by
    rw [List.length_cons, List.replicate_succ, List.zipWith_cons_cons, zipWith_add_replicate_zero l]
    rfl

/-- absorbing a single with item `x` adds `x` to the smallest sum -/
theorem comb_single_sums {k : Nat} {a b : Bins Nat} (ha : WF k a) (hb : WF k b) {x : Nat}
    (hx : items b = [x]) : ∃ m tl, a.sums = m :: tl ∧ (∀ u ∈ tl, m ≤ u) ∧ (kkCombine a b).sums = (m + x) :: tl := by
  have hk : 0 < k := by
    rw [← hb.len]
    apply List.length_pos_iff.2
    intro e; unfold items at hx; rw [e] at hx; simp at hx
  have hl := ha.slen
  match hs : a.sums, hl with
  | [], hl => simp at hl; omega
  | m :: tl, hl =>
    refine ⟨m, tl, rfl, ?_, ?_⟩
    · have := ha.sorted; rw [hs] at this; exact (List.pairwise_cons.1 this).1
    · simp only [kkCombine]
      rw [hs, single_sums hb hx, List.zipWith_cons_cons]
      have : k - 1 = tl.length := by simp at hl; omega
      rw [this, zipWith_add_replicate_zero]


/-! ## 7. Lists of tuples, heap entries -/

theorem pa_perm {k T : Nat} {L1 L2 : List (Bins Nat)} (hp : L1.Perm L2) (h : PA k T L1) : PA k T L2 := by
  obtain ⟨h1, h2, h3⟩ := h
  refine ⟨fun t ht => h1 t (hp.mem_iff.2 ht), (hp.pairwise_iff (fun h => rel_symm h)).1 h2, ?_⟩
  exact LPT43.packable_perm (hp.flatMap_right items) h3

theorem pa_append_left {k T : Nat} {L1 L2 : List (Bins Nat)} (h : PA k T (L1 ++ L2)) : PA k T L1 := by
  obtain ⟨h1, h2, h3⟩ := h
  refine ⟨fun t ht => h1 t (List.mem_append_left _ ht), (List.pairwise_append.1 h2).1, ?_⟩
  rw [List.flatMap_append] at h3
  exact LPT43.packable_prefix _ h3

/-- the spread of a combination is at most the larger of the two spreads -/
theorem comb_gap {k M : Nat} {a b : Bins Nat} (ha : WF k a) (hb : WF k b)
    (ga : gapOf a ≤ M) (gb : gapOf b ≤ M) : gapOf (kkCombine a b).sortAsc ≤ M := by
  unfold gapOf at *
  rw [Part.gap_le_iff] at ga gb ⊢
  have := (Part.zipWith_add_gap M a.sums b.sums.reverse ha.sorted (List.pairwise_reverse.2 hb.sorted) ga
    (fun x hx y hy => gb x (List.mem_reverse.1 hx) y (List.mem_reverse.1 hy))).2
  intro x hx y hy
  exact this x ((push_sums_perm ha hb).mem_iff.1 hx) y ((push_sums_perm ha hb).mem_iff.1 hy)

/-- the key under which `hpush` stores a tuple is its spread -/
theorem push_diff {k : Nat} {a b : Bins Nat} (ha : WF k a) (hb : WF k b) :
    lastD (kkCombine a b).sortAsc.sums 0 - (kkCombine a b).sortAsc.sums.headD 0
      = gapOf (kkCombine a b).sortAsc := by
  have hs := (push_wf ha hb).sorted
  unfold gapOf
  rw [Obj.lastD_eq_maxL hs, Obj.headD_eq_minL hs]

theorem fits_iff_maxL {T : Nat} {b : Bins Nat} : Fits T b ↔ maxL b.sums ≤ T :=
  ⟨fun h => Part.maxL_le h, fun h _ hs => Nat.le_trans (Part.le_maxL hs) h⟩

/-- a tuple of large items whose spread is at most `T / 3` has no empty bin -/
theorem full_of_small_gap {k T : Nat} {b : Bins Nat} (h : TInv k T b) (hL : AllLarge T b)
    (hg : 3 * gapOf b ≤ T) : Full b := by
  by_contra hnf
  have hl := h.le1 hnf
  rw [gapOf_nonfull h.wf hl hnf] at hg
  obtain ⟨x, hx⟩ := List.exists_mem_of_ne_nil _ h.wf.ne
  have h1 := (nonfull_facts h.wf hl hnf).2.1 x hx
  have h2 := hL x hx
  omega

/-- absorbing a single whose item is at most the spread of `a` does not raise the largest sum -/
theorem fits_absorb_single {k T : Nat} {a b : Bins Nat} (ha : WF k a) (hb : WF k b) {x : Nat}
    (hx : items b = [x]) (hg : x ≤ gapOf a) (hCa : Fits T a) : Fits T (kkCombine a b) := by
  obtain ⟨m, tl, e1, e2, e3⟩ := comb_single_sums ha hb hx
  have hmax := fits_iff_maxL.1 hCa
  unfold gapOf at hg
  have hmin : minL a.sums = m := by
    rw [e1]
    apply Nat.le_antisymm (Part.minL_le List.mem_cons_self)
    exact Part.le_minL (by simp) (fun u hu => by
      rcases List.mem_cons.1 hu with rfl | hu
      · exact Nat.le_refl _
      · exact e2 u hu)
  intro s hs
  rw [e3] at hs
  rcases List.mem_cons.1 hs with rfl | hs
  · have : m ≤ maxL a.sums := by rw [e1]; exact Part.le_maxL List.mem_cons_self
    omega
  · exact hCa s (by rw [e1]; exact List.mem_cons_of_mem _ hs)

/-- absorbing a single with a small item keeps the relation `RS` to the ghost tuple -/
theorem rs_absorb_single {k σ : Nat} {g : List Nat} {a b : Bins Nat} (ha : WF k a) (hb : WF k b) {x : Nat}
    (hx : items b = [x]) (hxs : x ≤ σ) (h : RS σ g a.sums) : RS σ g (kkCombine a b).sortAsc.sums := by
  obtain ⟨m, tl, e1, e2, e3⟩ := comb_single_sums ha hb hx
  rw [e1] at h
  exact rs_step h e2 hxs (by rw [← e3]; exact push_sums_perm ha hb)

/-- **Lemma B for tuples.** -/
theorem fits_lemmaB {k T σ : Nat} {g a z : Bins Nat} (hg : WF k g) (ha : WF k a) (hz : WF k z)
    (h : RS σ g.sums a.sums) (hzg : gapOf z ≤ σ) (hbig : σ < gapOf (kkCombine a z).sortAsc)
    (hpure : Fits T (kkCombine g z)) : Fits T (kkCombine a z) := by
  unfold gapOf at hzg
  rw [Part.gap_le_iff] at hzg
  have hb : ¬ ∀ P ∈ List.zipWith (· + ·) a.sums z.sums.reverse,
      ∀ Q ∈ List.zipWith (· + ·) a.sums z.sums.reverse, P ≤ Q + σ := by
    intro hc
    have : gapOf (kkCombine a z).sortAsc ≤ σ := by
      unfold gapOf
      rw [Part.gap_le_iff]
      intro x hx y hy
      exact hc x ((push_sums_perm ha hz).mem_iff.1 hx) y ((push_sums_perm ha hz).mem_iff.1 hy)
    omega
  intro s hs
  have := lemmaB h hg.sorted ha.sorted hz.sorted hzg hb s hs
  exact Nat.le_trans this (fits_iff_maxL.1 hpure)

end Prtpy.KK43
