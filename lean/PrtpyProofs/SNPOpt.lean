/-
  PrtpyProofs.SNPOpt — optimality (C02) of sequential number partitioning (`snp`, any number of bins) and of
  recursive number partitioning (`rnp`, at most four bins), relative to two facts about the 2-way complete
  Karmarkar–Karp sub-routine that are stated here as hypotheses and proved elsewhere:

  * `Ckk2Optimal`     — the 2-way search that `snp`/`rnp` call (`ckk2`, i.e. `ckkF … 2 …`: `optimal` after fix
                        F11) returns a 2-way partition, and it is of minimum difference;
  * `CkkGenComplete`  — the 2-way generator `ckkGen … 2 … (some d)` yields every 2-way split of difference `< d`
                        (used by `rnp` with four bins only).

  The argument is the window argument of Korf / Schreiber / Moffitt: in any completion of the prior bins that
  beats the incumbent, the smallest of the `c` bins still to be formed has its sum inside the window
  `[(t − (c−1)·D)/c, t/c]` (`window_lemma`, `smallest_bin`, `out_of_window`), hence is reached by the
  inclusion/exclusion tree, whatever the moment at which the moving lower bound is read (`treeFold_reach`), resp.
  belongs to the list generated with the bound fixed at creation (`rnpRec_odd_opt`).  With two bins left, the
  2-way split of minimum difference minimises the combined spread with any fixed prior sums (`two_way_spread`).

  Main results: `snp_optimal`, `rnp_optimal` (k ≤ 4); invariants `snpRec_opt`, `rnpRec_odd_opt`, `rnpRec_four_opt`.
-/
import Prtpy
import PrtpyProofs.Part
import PrtpyProofs.Obj
import PrtpyProofs.Oracle
import PrtpyProofs.SNP
import PrtpyProofs.CKKValid
import Mathlib.Data.List.Perm.Basic

namespace Prtpy.SNPOpt
open Prtpy
open Prtpy.SNPProofs (binSum_nil binSum_cons)

variable {α : Type}

/-- Hypothesis: the 2-way complete Karmarkar–Karp search (`ckkF`, the code after fix F11) returns a partition, of
    minimum difference.  (Before F11 this was stated on `ckk` and the validity half was taken from
    `CKKValid.ckk_isPartition`; the validity of `ckkF` is proved downstream of this file, in PrtpyProofs/CKKF.lean,
    so it is part of the hypothesis now.  Discharged by `RNPF.ckk2Optimal` in PrtpyProofs/CKKFSwitch.lean.) -/
def Ckk2Optimal (v nm : α → Nat) [BEq α] : Prop :=
  ∀ (items : List α) (fuel : Nat) (b : Bins α), items ≠ [] → ckkF v nm 2 true items fuel = .ok b →
    IsPartition v items 2 b ∧
      IsOptimalValue .minDiff 2 (items.map v) (Objective.minDiff.value b.sums false)

/-- the validity half of `Ckk2Optimal` -/
theorem Ckk2Optimal.valid {v nm : α → Nat} [BEq α] (h : Ckk2Optimal v nm) : SNPProofs.CkkValid v nm :=
  fun items fuel b hne hb => (h items fuel b hne hb).1

/-! ### arithmetic: sums, spread, the window lemma -/

theorem spread_perm {l₁ l₂ : List Nat} (h : l₁.Perm l₂) : spread l₁ = spread l₂ := by
  unfold spread
  rw [Oracle.maxL_perm h, Oracle.minL_perm h]

theorem value_minDiff (sums : List Nat) : Objective.minDiff.value sums false = (spread sums : Nat) := by
  have := Obj.minL_le_maxL sums
  simp only [Objective.value, Bool.false_eq_true, if_false, spread]
  omega

theorem le_sumL_of_forall_le {ns : List Nat} {s : Nat} (h : ∀ x ∈ ns, s ≤ x) : ns.length * s ≤ sumL ns := by
  induction ns with
  | nil => simp [sumL]
  | cons x xs ih =>
    have h1 := h x List.mem_cons_self
    have h2 := ih (fun y hy => h y (List.mem_cons_of_mem _ hy))
    simp only [List.length_cons, sumL, Nat.add_mul, Nat.one_mul]
    omega

theorem sumL_le_of_forall_le {ns : List Nat} {B : Nat} (h : ∀ x ∈ ns, x ≤ B) : sumL ns ≤ ns.length * B := by
  induction ns with
  | nil => simp [sumL]
  | cons x xs ih =>
    have h1 := h x List.mem_cons_self
    have h2 := ih (fun y hy => h y (List.mem_cons_of_mem _ hy))
    simp only [List.length_cons, sumL, Nat.add_mul, Nat.one_mul]
    omega

/-- **Window lemma.**  If `s` is a smallest element of `ns` and no element exceeds `s + D`, then
    `n·s ≤ Σ ns ≤ n·s + (n−1)·D` where `n` is the number of elements. -/
theorem window_lemma {ns : List Nat} {s D : Nat} (hs : s ∈ ns) (hmin : ∀ x ∈ ns, s ≤ x)
    (hmax : ∀ x ∈ ns, x ≤ s + D) :
    ns.length * s ≤ sumL ns ∧ sumL ns ≤ ns.length * s + (ns.length - 1) * D := by
  refine ⟨le_sumL_of_forall_le hmin, ?_⟩
  obtain ⟨a, b, rfl⟩ := List.append_of_mem hs
  have ha := sumL_le_of_forall_le (ns := a) (B := s + D) (fun x hx => hmax x (by simp [hx]))
  have hb := sumL_le_of_forall_le (ns := b) (B := s + D) (fun x hx => hmax x (by simp [hx]))
  simp only [Part.sumL_append, sumL, List.length_append, List.length_cons]
  have e : a.length + (b.length + 1) - 1 = a.length + b.length := by omega
  rw [e]
  simp only [Nat.add_mul, Nat.mul_add, Nat.one_mul] at ha hb ⊢
  omega

/-- the window lemma for the sums of a completion together with fixed prior sums: the smallest new sum `s`
    satisfies `c·s ≤ t ≤ c·s + (c−1)·D` where `D` is the spread of all the sums -/
theorem window_spread {ns P : List Nat} {s : Nat} (hs : s ∈ ns) (hmin : ∀ x ∈ ns, s ≤ x) :
    ns.length * s ≤ sumL ns ∧ sumL ns ≤ ns.length * s + (ns.length - 1) * spread (ns ++ P) := by
  apply window_lemma hs hmin
  intro x hx
  have h1 : x ≤ maxL (ns ++ P) := SNPProofs.le_maxL_of_mem (List.mem_append_left _ hx)
  have h2 : minL (ns ++ P) ≤ s := SNPProofs.minL_le_of_mem (List.mem_append_left _ hs)
  unfold spread
  omega

/-- **Two-way lemma.**  For a fixed total, a smaller 2-way difference gives a smaller combined spread with any
    fixed prior sums. -/
theorem two_way_spread {a b a' b' : Nat} (P : List Nat) (ht : a + b = a' + b')
    (hd : spread [a, b] ≤ spread [a', b']) : spread ([a, b] ++ P) ≤ spread ([a', b'] ++ P) := by
  cases P with
  | nil =>
    simpa using hd
  | cons p ps =>
    have e1 : ∀ x y : Nat, minL (x :: y :: p :: ps) = min (min x y) (minL (p :: ps)) := fun x y => by
      show min x (min y (minL (p :: ps))) = _
      omega
    have e2 : ∀ x y : Nat, maxL (x :: y :: p :: ps) = max (max x y) (maxL (p :: ps)) := fun x y => by
      show max x (max y (maxL (p :: ps))) = _
      omega
    have e3 : ∀ x y : Nat, minL [x, y] = min x y := fun _ _ => rfl
    have e4 : ∀ x y : Nat, maxL [x, y] = max x y := fun x y => by
      show max x (max y 0) = _
      omega
    simp only [spread, List.cons_append, List.nil_append, e1, e2, e3, e4] at hd ⊢
    have h1 : max a b ≤ max a' b' := by omega
    have h2 : min a' b' ≤ min a b := by omega
    generalize max a b = hi at *
    generalize max a' b' = hi' at *
    generalize min a b = lo at *
    generalize min a' b' = lo' at *
    omega

example : spread ([5, 6] ++ [9, 4]) ≤ spread ([3, 8] ++ [9, 4]) := two_way_spread _ rfl (by decide)

/-- non-vacuity of the window lemma: three sums, the smallest is `4`, none exceeds `4 + 3` -/
example : 3 * 4 ≤ sumL [6, 4, 7] ∧ sumL [6, 4, 7] ≤ 3 * 4 + 2 * 3 :=
  window_lemma (ns := [6, 4, 7]) (s := 4) (D := 3) (by decide) (by decide) (by decide)

/-! ### the moving-bound tree reaches every sub-collection that matters -/

/-- If `P` is stable under `body`, holds after `body` has been run on the target `cur ++ s`, and holds in every
    state whose window excludes the target, then `P` holds at the end of the traversal. -/
theorem treeFold_reach {σ : Type} (P : σ → Prop) (v : α → Nat) (den : Nat) (ub : Int) (lbOf : σ → Int)
    (body : σ → List α → Except Err σ) (target : List α)
    (hmono : ∀ st x st', P st → body st x = .ok st' → P st')
    (hhit : ∀ st st', body st target = .ok st' → P st')
    (hprune : ∀ st, SNPProofs.inWin v den (lbOf st) ub target = false → P st) :
    ∀ (rest cur s : List α) (st st' : σ), s.Sublist rest → target = cur ++ s →
      treeFold v den ub lbOf body st cur rest = .ok st' → P st' := by
  intro rest
  induction rest with
  | nil =>
    intro cur s st st' hs ht h
    have : s = [] := by simpa using hs
    subst this
    rw [List.append_nil] at ht
    subst ht
    simp only [treeFold] at h
    split at h
    · rename_i hp
      cases h
      apply hprune
      rw [SNPProofs.inexPrune_nil] at hp
      simpa using hp
    · exact hhit st st' h
  | cons x xs ih =>
    intro cur s st st' hs ht h
    simp only [treeFold] at h
    split at h
    · rename_i hp
      cases h
      apply hprune
      rw [ht]
      exact SNPProofs.inexPrune_sound v den (lbOf st) ub cur (x :: xs) s hp hs
    · cases hL : treeFold v den ub lbOf body st (cur ++ [x]) xs with
      | error e => rw [hL] at h; cases h
      | ok s1 =>
        rw [hL] at h
        rcases List.sublist_cons_iff.1 hs with hs' | ⟨r, rfl, hr⟩
        · exact ih cur s s1 st' hs' ht h
        · have h1 : P s1 := ih (cur ++ [x]) r st s1 hr (by simpa using ht) hL
          exact SNPProofs.treeFold_inv P v den ub lbOf body cur xs
            (fun st0 _ st0' h0 _ hb => hmono st0 _ st0' h0 hb) s1 st' h1 h

/-! ### the 2-way sub-routine -/

theorem ckk2_spec {v nm : α → Nat} [BEq α] (hckk : Ckk2Optimal v nm) {items : List α} {fuel : Nat} {two : Bins α}
    (h : ckk2 v nm true items fuel = .ok two) :
    IsPartition v items 2 two ∧
      IsOptimalValue .minDiff 2 (items.map v) (Objective.minDiff.value two.sums false) := by
  unfold ckk2 at h
  split at h
  · cases h
  · rename_i hne
    exact hckk items fuel two (by simpa using hne) h

/-- a list of `k` bins holding exactly `items`, as a partition -/
theorem lists_isPartition (v : α → Nat) {items : List α} {L : List (List α)} {k : Nat} (hl : L.length = k)
    (hp : L.flatten.Perm items) : IsPartition v items k ⟨L.map (binSum v), L⟩ :=
  ⟨hp, hl, rfl⟩

/-- the sums of a partition add up to the total -/
theorem sumL_sums_of_partition {v : α → Nat} {items : List α} {k : Nat} {b : Bins α} (h : IsPartition v items k b) :
    sumL b.sums = binSum v items := by
  obtain ⟨hp, _, hc⟩ := h
  rw [hc, Part.sumL_map_binSum, Part.binSum_perm v hp]

theorem two_sums {v : α → Nat} {items : List α} {b : Bins α} (h : IsPartition v items 2 b) :
    ∃ x y, b.sums = [x, y] ∧ x + y = binSum v items := by
  have hs := sumL_sums_of_partition h
  obtain ⟨_, hl, hc⟩ := h
  have : b.sums.length = 2 := by rw [hc, List.length_map, hl]
  match hb : b.sums, this with
  | [x, y], _ =>
    refine ⟨x, y, rfl, ?_⟩
    rw [hb] at hs
    simpa [sumL] using hs

/-- what an optimal 2-way split of `Z` knows about any other split `l, l'` of `Z` -/
theorem ckk2_pair {v nm : α → Nat} [BEq α] (hckk : Ckk2Optimal v nm) {Z l l' : List α} {fuel : Nat} {two : Bins α}
    (h : ckk2 v nm true Z fuel = .ok two) (hp : (l ++ l').Perm Z) :
    ∃ a b, two.sums = [a, b] ∧ a + b = binSum v l + binSum v l' ∧
      spread [a, b] ≤ spread [binSum v l, binSum v l'] := by
  obtain ⟨hpart, hopt⟩ := ckk2_spec hckk h
  have hL : IsPartition v Z 2 ⟨[l, l'].map (binSum v), [l, l']⟩ :=
    lists_isPartition v rfl (by simpa using hp)
  have hle := Oracle.optimal_le_partition hopt hL
  rw [value_minDiff, value_minDiff] at hle
  obtain ⟨a, b, hab, hsum⟩ := two_sums hpart
  refine ⟨a, b, hab, ?_, ?_⟩
  · rw [hsum, ← Part.binSum_perm v hp, SNPProofs.binSum_append]
  · rw [hab] at hle
    exact_mod_cast hle

/-- the optimal 2-way split of the remaining items is the best completion of any fixed prior sums -/
theorem ckk2_le {v nm : α → Nat} [BEq α] (hckk : Ckk2Optimal v nm) {rem : List α} {fuel : Nat} {two : Bins α}
    (h : ckk2 v nm true rem fuel = .ok two) (P : List Nat) (L : List (List α)) (hl : L.length = 2)
    (hp : L.flatten.Perm rem) : spread (two.sums ++ P) ≤ spread (L.map (binSum v) ++ P) := by
  match L, hl with
  | [l, l'], _ =>
    obtain ⟨a, b, hab, hsum, hsp⟩ := ckk2_pair hckk (l := l) (l' := l') h (by simpa using hp)
    rw [hab]
    exact two_way_spread P hsum hsp

/-! ### the smallest new bin of a completion -/

/-- Given a completion `L` (`c + 1` bins holding exactly `rem`) of fixed prior sums `P`, its smallest bin has a
    copy `sub` among the sorted items; the other bins complete `P ++ [sum sub]` with the same overall spread;
    and `sub` satisfies the window inequalities for that spread. -/
theorem smallest_bin [BEq α] [LawfulBEq α] (v : α → Nat) {rem : List α} {L : List (List α)} {c : Nat}
    (P : List Nat) (hl : L.length = c + 1) (hp : L.flatten.Perm rem) :
    ∃ (sub : List α) (L' : List (List α)), sub.Sublist (sortDesc v rem) ∧ L'.length = c ∧
      L'.flatten.Perm (findDiff rem sub) ∧
      spread (L'.map (binSum v) ++ (P ++ [binSum v sub])) = spread (L.map (binSum v) ++ P) ∧
      (c + 1) * binSum v sub ≤ binSum v rem ∧
      binSum v rem ≤ (c + 1) * binSum v sub + c * spread (L.map (binSum v) ++ P) := by
  have hne : L.map (binSum v) ≠ [] := by
    intro e
    have := congrArg List.length e
    simp [hl] at this
  obtain ⟨lmin, hmem, hmineq⟩ := List.mem_map.1 (SNPProofs.minL_mem hne)
  have hmin : ∀ x ∈ L.map (binSum v), binSum v lmin ≤ x := by
    intro x hx
    rw [hmineq]
    exact SNPProofs.minL_le_of_mem hx
  have hwin := window_spread (P := P) (List.mem_map_of_mem (f := binSum v) hmem) hmin
  rw [Part.sumL_map_binSum, Part.binSum_perm v hp, List.length_map, hl] at hwin
  obtain ⟨A, B, rfl⟩ := List.append_of_mem hmem
  have hflat : (A ++ lmin :: B).flatten.Perm (lmin ++ (A ++ B).flatten) := by
    simp only [List.flatten_append, List.flatten_cons]
    exact (List.perm_append_comm_assoc _ _ _)
  have hsubperm : lmin.Subperm (sortDesc v rem) := by
    have h1 : lmin.Subperm (lmin ++ (A ++ B).flatten) := (List.sublist_append_left _ _).subperm
    exact h1.trans (hflat.symm.trans (hp.trans (SNPProofs.sortDesc_perm v rem).symm)).subperm
  obtain ⟨sub, hsubp, hsubl⟩ := hsubperm
  have hbs : binSum v sub = binSum v lmin := Part.binSum_perm v hsubp
  refine ⟨sub, A ++ B, hsubl, ?_, ?_, ?_, ?_, ?_⟩
  · simp only [List.length_append, List.length_cons] at hl ⊢
    omega
  · have h1 := SNPProofs.findDiff_perm hsubl (SNPProofs.sortDesc_perm v rem)
    have h2 : (sub ++ (A ++ B).flatten).Perm (sub ++ findDiff rem sub) :=
      ((hsubp.append_right _).trans (hflat.symm.trans hp)).trans h1.symm
    exact (List.perm_append_left_iff sub).1 h2
  · apply spread_perm
    rw [hbs]
    simp only [List.map_append, List.map_cons, List.append_assoc]
    refine List.Perm.append_left _ ?_
    rw [← List.append_assoc]
    exact List.perm_append_singleton _ _
  · rw [hbs]; exact hwin.1
  · rw [hbs]
    simpa using hwin.2

/-- a sub-collection that satisfies the window inequalities for the spread `D'` of some completion is outside
    the window computed from the spread `Dst` only if `Dst < D'` -/
theorem out_of_window {v : α → Nat} {c : Nat} {t : Nat} {sub : List α} {Dst D' : Nat}
    (h1 : (c + 1) * binSum v sub ≤ t) (h2 : t ≤ (c + 1) * binSum v sub + c * D')
    (hw : SNPProofs.inWin v (c + 1) ((t : Int) - (((c + 1 : Nat) : Int) - 1) * (Dst : Nat)) (t : Int) sub = false) :
    Dst < D' := by
  simp only [SNPProofs.inWin, Bool.and_eq_false_iff, decide_eq_false_iff_not] at hw
  generalize binSum v sub = s at *
  have hcast : ((c + 1 : Nat) : Int) - 1 = ((c : Nat) : Int) := by omega
  rw [hcast] at hw
  have e1 : (s : Int) * ((c + 1 : Nat) : Int) = (((c + 1) * s : Nat) : Int) := by
    rw [Nat.mul_comm]; exact (Int.natCast_mul _ _).symm
  have e2 : ((c : Nat) : Int) * (Dst : Int) = ((c * Dst : Nat) : Int) := (Int.natCast_mul _ _).symm
  rw [e1, e2] at hw
  apply Nat.lt_of_mul_lt_mul_left (a := c)
  rcases hw with hw | hw
  · omega
  · omega

/-! ### the recursion of SNP -/

/-- **Main invariant of `rec_generate_sets`.**  The returned partition is at least as good as the incumbent and
    as every completion of the prior bins by a partition of the remaining items into `n + 2` bins. -/
theorem snpRec_opt {v nm : α → Nat} [BEq α] [LawfulBEq α] (hckk : Ckk2Optimal v nm) (fuel : Nat) (n : Nat) :
    ∀ (prior best : Bins α) (rem : List α) (r : Bins α),
      snpRec v nm true fuel (n + 2) prior best rem = .ok r →
      spread r.sums ≤ spread best.sums ∧
      ∀ L : List (List α), L.length = n + 2 → L.flatten.Perm rem →
        spread r.sums ≤ spread (L.map (binSum v) ++ prior.sums) := by
  induction n with
  | zero =>
    intro prior best rem r h
    simp only [snpRec] at h
    cases h2 : ckk2 v nm true rem fuel with
    | error e => rw [h2] at h; cases h
    | ok two =>
      rw [h2] at h
      simp only at h
      have key := ckk2_le hckk h2 prior.sums
      split at h
      · rename_i hlt
        cases h
        exact ⟨Nat.le_of_lt hlt, fun L hl hp => key L hl hp⟩
      · rename_i hlt
        cases h
        exact ⟨Nat.le_refl _, fun L hl hp => Nat.le_trans (Nat.not_lt.1 hlt) (key L hl hp)⟩
  | succ n ih =>
    intro prior best rem r h
    rw [show n + 1 + 2 = n + 3 from rfl, snpRec] at h
    -- the body never makes the incumbent worse
    have hmono : ∀ (D : Nat) (st : Bins α) (x : List α) (st' : Bins α), spread st.sums ≤ D →
        snpRec v nm true fuel (n + 2) ⟨prior.sums ++ [binSum v x], prior.lists ++ [x]⟩ st (findDiff rem x)
          = .ok st' → spread st'.sums ≤ D := by
      intro D st x st' hst hb
      exact Nat.le_trans (ih _ _ _ _ hb).1 hst
    refine ⟨?_, ?_⟩
    · exact SNPProofs.treeFold_inv (fun st : Bins α => spread st.sums ≤ spread best.sums) _ _ _ _ _ []
        (sortDesc v rem) (fun st s st' hst _ hb => hmono _ st _ st' hst hb) best r (Nat.le_refl _) h
    · intro L hl hp
      obtain ⟨sub, L', hsubl, hlen, hrest, hsp, hw1, hw2⟩ :=
        smallest_bin v prior.sums (c := n + 2) hl hp
      refine treeFold_reach
        (fun st : Bins α => spread st.sums ≤ spread (L.map (binSum v) ++ prior.sums))
        v _ _ _ _ sub (fun st x st' hst hb => hmono _ st x st' hst hb) ?_ ?_
        (sortDesc v rem) [] sub best r hsubl rfl h
      · intro st st' hb
        have := (ih _ _ _ _ hb).2 L' hlen hrest
        simp only at this
        rw [hsp] at this
        exact this
      · intro st hw
        exact Nat.le_of_lt (out_of_window hw1 hw2 hw)

/-! ### from completions to `IsOptimalValue` -/

/-- an assignment is a list of `k` bins holding exactly the items, with the assignment's sums -/
theorem assignment_lists (v : α → Nat) (items : List α) {k : Nat} {asg : List Nat}
    (h : IsAssignment k items.length asg) :
    ∃ L : List (List α), L.length = k ∧ L.flatten.Perm items ∧ L.map (binSum v) = sumsOf k (items.map v) asg := by
  have hnew : (Bins.new k : Bins α).lists.length = k := by simp [Bins.new]
  obtain ⟨h1, h2, h3, h4⟩ := Oracle.replay_spec v items asg (Bins.new k) h.1
    (fun a ha => by rw [hnew]; exact h.2 a ha)
    (by simp only [Bins.new, List.map_replicate]; rfl)
  refine ⟨_, h1.trans hnew, ?_, ?_⟩
  · simpa [Bins.new] using h2
  · rw [← h3, h4]; rfl

/-- a valid partition whose spread is at most that of every list of `k` bins holding the items is optimal -/
theorem optimal_of_le {v : α → Nat} {items : List α} {k : Nat} {b : Bins α} (hvalid : IsPartition v items k b)
    (hle : ∀ L : List (List α), L.length = k → L.flatten.Perm items → spread b.sums ≤ spread (L.map (binSum v))) :
    IsOptimalValue .minDiff k (items.map v) (Objective.minDiff.value b.sums false) := by
  refine ⟨?_, ?_⟩
  · obtain ⟨asg, h1, h2⟩ := Oracle.partition_sums_assignment v items b hvalid
    exact ⟨asg, by simpa using h1, by rw [h2]⟩
  · intro asg hasg
    rw [List.length_map] at hasg
    obtain ⟨L, hl, hp, hs⟩ := assignment_lists v items hasg
    rw [value_minDiff, value_minDiff, ← hs]
    exact_mod_cast hle L hl hp

/-- KK's partition into one bin has spread zero -/
theorem spread_one_bin {v : α → Nat} {items : List α} {b : Bins α} (h : IsPartition v items 1 b) :
    spread b.sums = 0 := by
  obtain ⟨_, hl1, hc⟩ := h
  rw [hc]
  match hbl : b.lists, hl1 with
  | [l], _ => exact CKKValid.spread_singleton _

/-! ### the main theorem for SNP -/

/-- **C02 for SNP**: sequential number partitioning returns a partition of minimum difference, provided its 2-way
    sub-routine does. -/
theorem snp_optimal {v nm : α → Nat} [BEq α] [LawfulBEq α] (hckk : Ckk2Optimal v nm) {k : Nat} {items : List α}
    {fuel : Nat} {b : Bins α} (hk : 0 < k) (hne : items ≠ []) (h : snp v nm k true items fuel = .ok b) :
    IsOptimalValue .minDiff k (items.map v) (Objective.minDiff.value b.sums false) := by
  refine optimal_of_le (SNPProofs.snp_isPartition (CKKValid.kkValid v) hckk.valid hk hne h) ?_
  intro L hl hp
  unfold snp at h
  cases hb : kk v k items with
  | error e => rw [hb] at h; cases h
  | ok best =>
    rw [hb] at h
    have hbest := CKKValid.kkValid v k items best hk hne hb
    simp only at h
    split at h
    · rename_i h0
      cases h
      omega
    · rename_i hsp
      match k, hk with
      | 1, _ => exact absurd (spread_one_bin hbest) hsp
      | n + 2, _ =>
        have := (snpRec_opt hckk fuel n _ _ _ _ h).2 L hl hp
        simpa using this

/-- non-vacuity: six items, three bins; KK's first answer `[5, 5, 7]` has difference 2, the search improves it to
    `[6, 6, 5]`, so `1` is the optimal difference (given the optimality of 2-way CKK) -/
example (hckk : Ckk2Optimal (id : Nat → Nat) id) : IsOptimalValue .minDiff 3 ([5, 3, 3, 2, 2, 2].map id) 1 :=
  snp_optimal hckk (k := 3) (fuel := 100) (b := ⟨[6, 6, 5], [[2, 2, 2], [3, 3], [5]]⟩) (by decide) (by decide) rfl

/-! ## RNP (recursive number partitioning) for at most four bins -/

/-- Hypothesis: the 2-way CKK generator started with the bound `d` yields (up to the order of the items inside a
    bin and the order of the two bins) every 2-way split whose difference is below `d`. -/
def CkkGenComplete (v nm : α → Nat) [BEq α] : Prop :=
  ∀ (items : List α) (d fuel : Nat) (tops : List (Bins α)), items ≠ [] →
    ckkGen v nm 2 true items (some d) fuel = .ok tops →
    ∀ X Y : List α, (X ++ Y).Perm items → spread [binSum v X, binSum v Y] < d →
      ∃ top ∈ tops, ∃ X' Y', top.lists = [X', Y'] ∧ ((X'.Perm X ∧ Y'.Perm Y) ∨ (X'.Perm Y ∧ Y'.Perm X))

/-- `foldE` reaches every element of its list -/
theorem foldE_reach {σ β : Type} (I P : σ → Prop) (f : σ → β → Except Err σ) (target : β)
    (hI : ∀ st x st', I st → f st x = .ok st' → I st')
    (hmono : ∀ st x st', I st → P st → f st x = .ok st' → P st')
    (hhit : ∀ st st', I st → f st target = .ok st' → P st') :
    ∀ (l : List β) (st st' : σ), target ∈ l → I st → foldE f st l = .ok st' → P st' := by
  intro l
  induction l with
  | nil => intro st st' hm; cases hm
  | cons x xs ih =>
    intro st st' hm hi h
    simp only [foldE] at h
    cases hx : f st x with
    | error e => rw [hx] at h; cases h
    | ok s1 =>
      rw [hx] at h
      rcases List.mem_cons.1 hm with rfl | hm
      · have h1 : I s1 ∧ P s1 := ⟨hI _ _ _ hi hx, hhit _ _ hi hx⟩
        exact (SNPProofs.foldE_inv (fun s => I s ∧ P s) f xs
          (fun s y s' _ hs hf => ⟨hI _ _ _ hs.1 hf, hmono _ _ _ hs.1 hs.2 hf⟩) s1 st' h1 h).2
      · exact ih s1 st' hm (hI _ _ _ hi hx) h

theorem rnpRec_two_eq {v nm : α → Nat} [BEq α] {fuel rf : Nat} {prior best r : Bins α} {items : List α}
    (h : rnpRec v nm true fuel rf 2 prior best items = .ok r) : ckk2 v nm true items fuel = .ok r := by
  cases rf with
  | zero => simp only [rnpRec] at h; cases h
  | succ rf =>
    rw [rnpRec] at h
    simpa only [BEq.rfl, if_true] using h

/-! ### the odd case -/

/-- the loop body of the odd case -/
def oddStep (v nm : α → Nat) [BEq α] (fuel rf cur : Nat) (prior : Bins α) (items : List α)
    (best : Bins α) (sub : List α) : Except Err (Bins α) :=
  let prior2 : Bins α := ⟨prior.sums ++ [binSum v sub], prior.lists ++ [sub]⟩
  match rnpRec v nm true fuel rf (cur - 1) prior2 best (findDiff items sub) with
  | .error e => .error e
  | .ok nb =>
    if spread (nb.sums ++ prior2.sums) < spread best.sums then .ok (prior2.concat nb) else .ok best

theorem rnpRec_odd_eq {v nm : α → Nat} [BEq α] {fuel rf cur : Nat} {prior best : Bins α} {items : List α}
    (hodd : cur % 2 = 1) :
    rnpRec v nm true fuel (rf + 1) cur prior best items =
      foldE (oddStep v nm fuel rf cur prior items) best
        (genTree v cur (((binSum v items : Nat) : Int) - ((cur : Int) - 1) * ((spread best.sums : Nat) : Int))
          ((binSum v items : Nat) : Int) items) := by
  rw [rnpRec]
  have h2 : (cur == 2) = false := by
    cases hc : cur == 2 with
    | false => rfl
    | true => have := eq_of_beq hc; omega
  have h1 : (cur % 2 == 1) = true := by rw [hodd]; rfl
  simp only [h2, h1, Bool.false_eq_true, if_false, if_true]
  rfl

theorem oddStep_spec {v nm : α → Nat} [BEq α] {fuel rf cur : Nat} {prior : Bins α} {items : List α}
    {st st' : Bins α} {sub : List α} (h : oddStep v nm fuel rf cur prior items st sub = .ok st') :
    ∃ nb, rnpRec v nm true fuel rf (cur - 1) ⟨prior.sums ++ [binSum v sub], prior.lists ++ [sub]⟩ st
        (findDiff items sub) = .ok nb ∧
      spread st'.sums ≤ spread st.sums ∧
      spread st'.sums ≤ spread (nb.sums ++ (prior.sums ++ [binSum v sub])) := by
  unfold oddStep at h
  simp only [] at h
  cases hr : rnpRec v nm true fuel rf (cur - 1) ⟨prior.sums ++ [binSum v sub], prior.lists ++ [sub]⟩ st
      (findDiff items sub) with
  | error e => rw [hr] at h; cases h
  | ok nb =>
    rw [hr] at h
    simp only at h
    refine ⟨nb, rfl, ?_⟩
    split at h
    · rename_i hlt
      cases h
      have e : spread (Bins.concat ⟨prior.sums ++ [binSum v sub], prior.lists ++ [sub]⟩ nb).sums
          = spread (nb.sums ++ (prior.sums ++ [binSum v sub])) := spread_perm List.perm_append_comm
      rw [e]
      exact ⟨Nat.le_of_lt hlt, Nat.le_refl _⟩
    · rename_i hlt
      cases h
      exact ⟨Nat.le_refl _, Nat.not_lt.1 hlt⟩

/-- the odd case: one sub-collection inside the window fixed at creation is split off, the rest is partitioned
    recursively.  If the recursive call returns the best completion of its prior bins, so does this call. -/
theorem rnpRec_odd_opt {v nm : α → Nat} [BEq α] [LawfulBEq α] {fuel rf c : Nat} {prior best r : Bins α}
    {items : List α} (hodd : (c + 1) % 2 = 1)
    (hrec : ∀ (prior2 best' : Bins α) (rest : List α) (nb : Bins α),
      rnpRec v nm true fuel rf c prior2 best' rest = .ok nb →
        ∀ L' : List (List α), L'.length = c → L'.flatten.Perm rest →
          spread (nb.sums ++ prior2.sums) ≤ spread (L'.map (binSum v) ++ prior2.sums))
    (h : rnpRec v nm true fuel (rf + 1) (c + 1) prior best items = .ok r) :
    spread r.sums ≤ spread best.sums ∧
      ∀ L : List (List α), L.length = c + 1 → L.flatten.Perm items →
        spread r.sums ≤ spread (L.map (binSum v) ++ prior.sums) := by
  rw [rnpRec_odd_eq hodd] at h
  have hmono : ∀ D : Nat, spread best.sums ≤ D → spread r.sums ≤ D := by
    intro D hD
    exact SNPProofs.foldE_inv (fun st : Bins α => spread st.sums ≤ D) _ _
      (fun st x st' _ hst hf => by
        obtain ⟨_, _, h1, _⟩ := oddStep_spec hf
        exact Nat.le_trans h1 hst) best r hD h
  refine ⟨hmono _ (Nat.le_refl _), ?_⟩
  intro L hl hp
  rcases Nat.lt_or_ge (spread (L.map (binSum v) ++ prior.sums)) (spread best.sums) with hlt | hge
  · obtain ⟨sub, L', hsubl, hlen, hrest, hsp, hw1, hw2⟩ := smallest_bin v prior.sums hl hp
    have hmem : sub ∈ genTree v (c + 1)
        (((binSum v items : Nat) : Int) - (((c + 1 : Nat) : Int) - 1) * ((spread best.sums : Nat) : Int))
        ((binSum v items : Nat) : Int) items := by
      rw [SNPProofs.genTree_eq', List.mem_filter]
      refine ⟨SNPProofs.allSubs_sublists.2 hsubl, ?_⟩
      cases hw : SNPProofs.inWin v (c + 1)
        (((binSum v items : Nat) : Int) - (((c + 1 : Nat) : Int) - 1) * ((spread best.sums : Nat) : Int))
        ((binSum v items : Nat) : Int) sub with
      | false => exact absurd (out_of_window hw1 hw2 hw) (by omega)
      | true => exact hw
    refine foldE_reach (fun _ => True)
      (fun st : Bins α => spread st.sums ≤ spread (L.map (binSum v) ++ prior.sums)) _ sub
      (fun _ _ _ _ _ => trivial) ?_ ?_ _ best r hmem trivial h
    · intro st x st' _ hst hf
      obtain ⟨_, _, h1, _⟩ := oddStep_spec hf
      exact Nat.le_trans h1 hst
    · intro st st' _ hf
      obtain ⟨nb, hnb, _, h2⟩ := oddStep_spec hf
      have := hrec _ _ _ _ hnb L' hlen hrest
      simp only [Nat.add_sub_cancel] at hnb
      have := hrec _ _ _ _ hnb L' hlen hrest
      simp only at this
      rw [hsp] at this
      exact Nat.le_trans h2 this
  · exact hmono _ hge

/-! ### the even case for four bins -/

theorem spread_le_of_bounds {l : List Nat} {lo hi : Nat} (hne : l ≠ []) (h : ∀ x ∈ l, lo ≤ x ∧ x ≤ hi) :
    spread l ≤ hi - lo := by
  have h1 := (h _ (SNPProofs.maxL_mem hne)).2
  have h2 := (h _ (SNPProofs.minL_mem hne)).1
  unfold spread
  omega

theorem spread_pair (x y : Nat) : spread [x, y] = max x y - min x y := by
  show max x (max y 0) - min x y = _
  rw [Nat.max_zero]

/-- an optimal 2-way split of `l ++ l'` has both sums between the bounds of the sums of `l` and `l'` -/
theorem ckk2_bounds {v nm : α → Nat} [BEq α] (hckk : Ckk2Optimal v nm) {Z l l' : List α} {fuel : Nat} {two : Bins α}
    (h : ckk2 v nm true Z fuel = .ok two) (hp : (l ++ l').Perm Z) {lo hi : Nat}
    (h1 : lo ≤ binSum v l) (h2 : lo ≤ binSum v l') (h3 : binSum v l ≤ hi) (h4 : binSum v l' ≤ hi) :
    ∃ a b, two.sums = [a, b] ∧ (lo ≤ a ∧ a ≤ hi) ∧ (lo ≤ b ∧ b ≤ hi) := by
  obtain ⟨a, b, hab, hsum, hsp⟩ := ckk2_pair hckk h hp
  refine ⟨a, b, hab, ?_⟩
  rw [spread_pair, spread_pair] at hsp
  omega

theorem exists_min_bin (v : α → Nat) {L : List (List α)} (hne : L ≠ []) :
    ∃ l A B, L = A ++ l :: B ∧ ∀ x ∈ L, binSum v l ≤ binSum v x := by
  have hne' : L.map (binSum v) ≠ [] := by simpa using hne
  obtain ⟨l, hmem, heq⟩ := List.mem_map.1 (SNPProofs.minL_mem hne')
  obtain ⟨A, B, hAB⟩ := List.append_of_mem hmem
  refine ⟨l, A, B, hAB, ?_⟩
  intro x hx
  rw [heq]
  exact SNPProofs.minL_le_of_mem (List.mem_map_of_mem hx)

theorem exists_max_bin (v : α → Nat) {L : List (List α)} (hne : L ≠ []) :
    ∃ l A B, L = A ++ l :: B ∧ ∀ x ∈ L, binSum v x ≤ binSum v l := by
  have hne' : L.map (binSum v) ≠ [] := by simpa using hne
  obtain ⟨l, hmem, heq⟩ := List.mem_map.1 (SNPProofs.maxL_mem hne')
  obtain ⟨A, B, hAB⟩ := List.append_of_mem hmem
  refine ⟨l, A, B, hAB, ?_⟩
  intro x hx
  rw [heq]
  exact SNPProofs.le_maxL_of_mem (List.mem_map_of_mem hx)

/-- four bins, reordered as smallest, largest, and the two others -/
theorem four_sorted (v : α → Nat) {L : List (List α)} (hl : L.length = 4) :
    ∃ l1 l4 p q, L.Perm [l1, l4, p, q] ∧ binSum v l1 ≤ binSum v l4 ∧
      (binSum v l1 ≤ binSum v p ∧ binSum v p ≤ binSum v l4) ∧
      (binSum v l1 ≤ binSum v q ∧ binSum v q ≤ binSum v l4) := by
  obtain ⟨l1, A, B, rfl, hmin⟩ := exists_min_bin v (L := L) (by intro e; simp [e] at hl)
  have hl3 : (A ++ B).length = 3 := by
    simp only [List.length_append, List.length_cons] at hl ⊢
    omega
  obtain ⟨l4, A', B', hAB, hmax⟩ := exists_max_bin v (L := A ++ B) (by intro e; simp [e] at hl3)
  have hl2 : (A' ++ B').length = 2 := by
    rw [hAB] at hl3
    simp only [List.length_append, List.length_cons] at hl3 ⊢
    omega
  match hpq : A' ++ B', hl2 with
  | [p, q], _ =>
    have hp2 : (A ++ B).Perm [l4, p, q] := by
      rw [hAB, ← hpq]
      exact List.perm_middle
    have hp1 : (A ++ l1 :: B).Perm [l1, l4, p, q] := List.perm_middle.trans (hp2.cons l1)
    have hin : ∀ x ∈ [l4, p, q], binSum v l1 ≤ binSum v x ∧ binSum v x ≤ binSum v l4 := by
      intro x hx
      refine ⟨hmin x (hp1.mem_iff.2 (List.mem_cons_of_mem _ hx)), hmax x (hp2.mem_iff.2 hx)⟩
    exact ⟨l1, l4, p, q, hp1, (hin l4 (by simp)).1, hin p (by simp), hin q (by simp)⟩

/-- the loop body of the even case -/
def evenStep (v nm : α → Nat) [BEq α] (fuel rf half : Nat) (prior : Bins α)
    (st : Bins α × Nat) (top : Bins α) : Except Err (Bins α × Nat) :=
  let i1 := top.lists.getD 0 []
  let i2 := top.lists.getD 1 []
  match rnpRec v nm true fuel rf half prior st.1 i1 with
  | .error e => .error e
  | .ok nb1 =>
    match rnpRec v nm true fuel rf half prior st.1 i2 with
    | .error e => .error e
    | .ok nb2 =>
      let d := spread (nb1.sums ++ nb2.sums)
      if d < st.2 then .ok (nb1.concat nb2, d) else .ok st

theorem evenStep_spec {v nm : α → Nat} [BEq α] {fuel rf half : Nat} {prior : Bins α} {st st' : Bins α × Nat}
    {top : Bins α} (h : evenStep v nm fuel rf half prior st top = .ok st') :
    ∃ nb1 nb2, rnpRec v nm true fuel rf half prior st.1 (top.lists.getD 0 []) = .ok nb1 ∧
      rnpRec v nm true fuel rf half prior st.1 (top.lists.getD 1 []) = .ok nb2 ∧
      (st.2 = spread st.1.sums → st'.2 = spread st'.1.sums) ∧ st'.2 ≤ st.2 ∧
      st'.2 ≤ spread (nb1.sums ++ nb2.sums) := by
  unfold evenStep at h
  simp only [] at h
  cases h1 : rnpRec v nm true fuel rf half prior st.1 (top.lists.getD 0 []) with
  | error e => rw [h1] at h; cases h
  | ok nb1 =>
    rw [h1] at h
    simp only at h
    cases h2 : rnpRec v nm true fuel rf half prior st.1 (top.lists.getD 1 []) with
    | error e => rw [h2] at h; cases h
    | ok nb2 =>
      rw [h2] at h
      simp only at h
      refine ⟨nb1, nb2, rfl, rfl, ?_⟩
      split at h
      · rename_i hlt
        cases h
        exact ⟨fun _ => rfl, Nat.le_of_lt hlt, Nat.le_refl _⟩
      · rename_i hlt
        cases h
        exact ⟨fun hI => hI, Nat.le_refl _, Nat.not_lt.1 hlt⟩

theorem rnpRec_four_eq {v nm : α → Nat} [BEq α] {fuel rf : Nat} {prior best : Bins α} {items : List α} :
    rnpRec v nm true fuel (rf + 1) 4 prior best items =
      match (if items.isEmpty then .error .valueError
             else ckkGen v nm 2 true items (some (spread best.sums)) fuel) with
      | .error e => .error e
      | .ok tops => (foldE (evenStep v nm fuel rf 2 prior) (best, spread best.sums) tops).map (·.1) := by
  rw [rnpRec]
  simp only [show ((4 : Nat) == 2) = false from rfl, show ((4 : Nat) % 2 == 1) = false from rfl,
    show (4 : Nat) / 2 = 2 from rfl, Bool.false_eq_true, if_false]
  rfl

/-- the even case with four bins (two 2-way sub-problems): the result is at least as good as the incumbent and as
    every partition of the items into four bins -/
theorem rnpRec_four_opt {v nm : α → Nat} [BEq α] (hckk : Ckk2Optimal v nm) (hgen : CkkGenComplete v nm)
    {fuel rf : Nat} {prior best r : Bins α} {items : List α}
    (h : rnpRec v nm true fuel rf 4 prior best items = .ok r) :
    spread r.sums ≤ spread best.sums ∧
      ∀ L : List (List α), L.length = 4 → L.flatten.Perm items → spread r.sums ≤ spread (L.map (binSum v)) := by
  cases rf with
  | zero => simp only [rnpRec] at h; cases h
  | succ rf =>
    rw [rnpRec_four_eq] at h
    by_cases hemp : items.isEmpty = true
    · rw [if_pos hemp] at h; cases h
    · rw [if_neg hemp] at h
      have hne : items ≠ [] := by simpa using hemp
      cases hg : ckkGen v nm 2 true items (some (spread best.sums)) fuel with
      | error e => rw [hg] at h; cases h
      | ok tops =>
        rw [hg] at h
        simp only at h
        cases hf : foldE (evenStep v nm fuel rf 2 prior) (best, spread best.sums) tops with
        | error e => rw [hf] at h; cases h
        | ok st =>
          rw [hf] at h
          simp only [Except.map] at h
          cases h
          -- the second component of the state is the spread of the first, and never increases
          have hmono : ∀ D : Nat, spread best.sums ≤ D → st.2 = spread st.1.sums ∧ st.2 ≤ D := by
            intro D hD
            exact SNPProofs.foldE_inv (fun s : Bins α × Nat => s.2 = spread s.1.sums ∧ s.2 ≤ D) _ _
              (fun s x s' _ hs hstep => by
                obtain ⟨_, _, _, _, h3, h4, _⟩ := evenStep_spec hstep
                exact ⟨h3 hs.1, Nat.le_trans h4 hs.2⟩) (best, spread best.sums) st ⟨rfl, hD⟩ hf
          have hI := (hmono _ (Nat.le_refl _)).1
          refine ⟨hI ▸ (hmono _ (Nat.le_refl _)).2, ?_⟩
          intro L hl hp
          rw [← hI]
          rcases Nat.lt_or_ge (spread (L.map (binSum v))) (spread best.sums) with hlt | hge
          · obtain ⟨l1, l4, p, q, hperm, h14, hpb, hqb⟩ := four_sorted v hl
            -- the spread of `L` is at least the distance between its smallest and its largest sum
            have hD : binSum v l4 - binSum v l1 ≤ spread (L.map (binSum v)) := by
              have m1 : binSum v l1 ∈ L.map (binSum v) := List.mem_map_of_mem (hperm.mem_iff.2 (by simp))
              have m4 : binSum v l4 ∈ L.map (binSum v) := List.mem_map_of_mem (hperm.mem_iff.2 (by simp))
              have := SNPProofs.le_maxL_of_mem m4
              have := SNPProofs.minL_le_of_mem m1
              unfold spread
              omega
            -- the split (smallest + largest, the two others) is yielded by the generator
            have hXY : ((l1 ++ l4) ++ (p ++ q)).Perm items := by
              have := hperm.flatten.symm.trans hp
              simpa using this
            have hdiff : spread [binSum v (l1 ++ l4), binSum v (p ++ q)] < spread best.sums := by
              rw [spread_pair, SNPProofs.binSum_append, SNPProofs.binSum_append]
              omega
            obtain ⟨top, htop, X', Y', hlists, hcases⟩ := hgen items _ fuel tops hne hg _ _ hXY hdiff
            refine foldE_reach (fun s : Bins α × Nat => s.2 = spread s.1.sums)
              (fun s : Bins α × Nat => s.2 ≤ spread (L.map (binSum v))) _ top ?_ ?_ ?_ tops _ st htop rfl hf
            · intro s x s' hs hstep
              obtain ⟨_, _, _, _, h3, _, _⟩ := evenStep_spec hstep
              exact h3 hs
            · intro s x s' _ hs hstep
              obtain ⟨_, _, _, _, _, h4, _⟩ := evenStep_spec hstep
              exact Nat.le_trans h4 hs
            · intro s s' _ hstep
              obtain ⟨nb1, nb2, hn1, hn2, _, _, h5⟩ := evenStep_spec hstep
              rw [hlists] at hn1 hn2
              simp only [List.getD_cons_zero, List.getD_cons_succ] at hn1 hn2
              have hn1 := rnpRec_two_eq hn1
              have hn2 := rnpRec_two_eq hn2
              have key : ∃ a b c d, nb1.sums = [a, b] ∧ nb2.sums = [c, d] ∧
                  ∀ x ∈ [a, b, c, d], binSum v l1 ≤ x ∧ x ≤ binSum v l4 := by
                rcases hcases with ⟨hX, hY⟩ | ⟨hX, hY⟩
                · obtain ⟨a, b, hab, ha, hb⟩ := ckk2_bounds hckk hn1 hX.symm (Nat.le_refl _) h14 h14 (Nat.le_refl _)
                  obtain ⟨c, d, hcd, hc, hd⟩ := ckk2_bounds hckk hn2 hY.symm hpb.1 hqb.1 hpb.2 hqb.2
                  refine ⟨a, b, c, d, hab, hcd, ?_⟩
                  intro x hx
                  simp only [List.mem_cons, List.not_mem_nil, or_false] at hx
                  rcases hx with rfl | rfl | rfl | rfl <;> assumption
                · obtain ⟨a, b, hab, ha, hb⟩ := ckk2_bounds hckk hn1 hX.symm hpb.1 hqb.1 hpb.2 hqb.2
                  obtain ⟨c, d, hcd, hc, hd⟩ := ckk2_bounds hckk hn2 hY.symm (Nat.le_refl _) h14 h14 (Nat.le_refl _)
                  refine ⟨a, b, c, d, hab, hcd, ?_⟩
                  intro x hx
                  simp only [List.mem_cons, List.not_mem_nil, or_false] at hx
                  rcases hx with rfl | rfl | rfl | rfl <;> assumption
              obtain ⟨a, b, c, d, hab, hcd, hb⟩ := key
              rw [hab, hcd] at h5
              have := spread_le_of_bounds (l := [a, b] ++ [c, d]) (by simp) hb
              omega
          · exact Nat.le_trans (hmono _ (Nat.le_refl _)).2 hge

/-! ### the main theorem for RNP -/

/-- **C02 for RNP with at most four bins**, provided the 2-way CKK search is optimal and the 2-way CKK generator
    is complete below its bound. -/
theorem rnp_optimal {v nm : α → Nat} [BEq α] [LawfulBEq α] (hckk : Ckk2Optimal v nm) (hgen : CkkGenComplete v nm)
    {k : Nat} {items : List α} {fuel : Nat} {b : Bins α} (hk : 0 < k) (hk4 : k ≤ 4) (hne : items ≠ [])
    (h : rnp v nm k true items fuel = .ok b) :
    IsOptimalValue .minDiff k (items.map v) (Objective.minDiff.value b.sums false) := by
  refine optimal_of_le (CKKValid.rnp_isPartition_of hckk.valid hk (by omega) hne h) ?_
  intro L hl hp
  unfold rnp at h
  cases hb : kk v k items with
  | error e => rw [hb] at h; cases h
  | ok best =>
    rw [hb] at h
    have hbest := CKKValid.kkValid v k items best hk hne hb
    simp only at h
    split at h
    · rename_i h0
      cases h
      omega
    · rename_i hsp
      rw [if_neg (by omega)] at h
      obtain rfl | rfl | rfl | rfl : k = 1 ∨ k = 2 ∨ k = 3 ∨ k = 4 := by omega
      · exact absurd (spread_one_bin hbest) hsp
      · have := ckk2_le hckk (rnpRec_two_eq h) [] L hl hp
        simpa using this
      · have := (rnpRec_odd_opt (c := 2) rfl
          (fun prior2 _ _ nb hr L' hl' hp' => ckk2_le hckk (rnpRec_two_eq hr) prior2.sums L' hl' hp') h).2 L hl hp
        simpa using this
      · exact (rnpRec_four_opt hckk hgen h).2 L hl hp

/-- non-vacuity: eight items, four bins (the even case); KK's first answer has difference 2, the model returns
    sums `[5, 6, 5, 6]` -/
example (hckk : Ckk2Optimal (id : Nat → Nat) id) (hgen : CkkGenComplete (id : Nat → Nat) id) :
    IsOptimalValue .minDiff 4 ([5, 3, 3, 3, 2, 2, 2, 2].map id) 1 :=
  rnp_optimal hckk hgen (k := 4) (fuel := 1000) (b := ⟨[5, 6, 5, 6], [[5], [2, 2, 2], [2, 3], [3, 3]]⟩)
    (by decide) (by decide) (by decide) rfl

/-- non-vacuity: six items, three bins (the odd case); KK's first answer has difference 2 -/
example (hckk : Ckk2Optimal (id : Nat → Nat) id) (hgen : CkkGenComplete (id : Nat → Nat) id) :
    IsOptimalValue .minDiff 3 ([5, 3, 3, 2, 2, 2].map id) 1 :=
  rnp_optimal hckk hgen (k := 3) (fuel := 1000) (b := ⟨[5, 6, 6], [[5], [2, 2, 2], [3, 3]]⟩)
    (by decide) (by decide) (by decide) rfl

/-! ### RNP is not optimal for five bins

  For five bins the odd case splits one sub-collection off and calls the even case on the rest with four bins; that
  call returns the 4-way partition whose *own* spread is smallest (the first one found, in case of ties), not the
  one that is best in combination with the bin split off.  Concretely, for the items `[11, 9, 9, 6, 6, 4, 4, 4]`
  KK's first answer `[9, 10, 10, 11, 13]` (difference 4) is never improved although `[12, 12, 9, 11, 9]`
  (difference 3) exists: after splitting off `{9}`, both `(10, 10, 11, 13)` and `(9, 11, 12, 12)` have spread 3
  on their own, the first is found first, and with the `9` it gives difference 4 again.  (Found by exhaustive
  search over all multisets of at most 8 values ≤ 12; confirmed on the Python implementation.) -/

/-- **Counterexample**: `rnp` with five bins does not return an optimal partition. -/
theorem rnp_not_optimal_five :
    ∃ b : Bins Nat, rnp id id 5 true [11, 9, 9, 6, 6, 4, 4, 4] 1000 = .ok b ∧
      Objective.minDiff.value b.sums false = 4 ∧
      ¬ IsOptimalValue .minDiff 5 ([11, 9, 9, 6, 6, 4, 4, 4].map id) (Objective.minDiff.value b.sums false) := by
  refine ⟨⟨[9, 10, 10, 11, 13], [[9], [6, 4], [6, 4], [11], [4, 9]]⟩, rfl, by decide, ?_⟩
  intro hopt
  have h := hopt.2 [3, 2, 4, 1, 1, 0, 0, 0] ⟨rfl, by decide⟩
  revert h
  decide

/-- ... while `snp` does (as `snp_optimal` says it must): it returns sums `[12, 12, 9, 11, 9]` -/
example : (snp id id 5 true [11, 9, 9, 6, 6, 4, 4, 4] 1000).toOption.map (·.sums) = some [12, 12, 9, 11, 9] := by
  rfl

end Prtpy.SNPOpt

/-
Axiom audit (output of `#print axioms` observed with `lake env lean`):

#print axioms Prtpy.SNPOpt.snp_optimal
  'Prtpy.SNPOpt.snp_optimal' depends on axioms: [propext, Classical.choice, Quot.sound]
#print axioms Prtpy.SNPOpt.rnp_optimal
  'Prtpy.SNPOpt.rnp_optimal' depends on axioms: [propext, Classical.choice, Quot.sound]
#print axioms Prtpy.SNPOpt.rnp_not_optimal_five
  'Prtpy.SNPOpt.rnp_not_optimal_five' depends on axioms: [propext]
#print axioms Prtpy.SNPOpt.snpRec_opt
  'Prtpy.SNPOpt.snpRec_opt' depends on axioms: [propext, Classical.choice, Quot.sound]
#print axioms Prtpy.SNPOpt.rnpRec_odd_opt
  'Prtpy.SNPOpt.rnpRec_odd_opt' depends on axioms: [propext, Classical.choice, Quot.sound]
#print axioms Prtpy.SNPOpt.rnpRec_four_opt
  'Prtpy.SNPOpt.rnpRec_four_opt' depends on axioms: [propext, Classical.choice, Quot.sound]
#print axioms Prtpy.SNPOpt.treeFold_reach
  'Prtpy.SNPOpt.treeFold_reach' depends on axioms: [propext, Classical.choice, Quot.sound]
#print axioms Prtpy.SNPOpt.window_lemma
  'Prtpy.SNPOpt.window_lemma' depends on axioms: [propext, Quot.sound]
#print axioms Prtpy.SNPOpt.two_way_spread
  'Prtpy.SNPOpt.two_way_spread' depends on axioms: [propext, Quot.sound]
-/
