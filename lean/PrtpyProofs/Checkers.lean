/-
  PrtpyProofs.Checkers — the executable checkers and oracles of `Prtpy/Spec.lean` decide exactly the
  specification predicates.
-/
import Prtpy
import PrtpyProofs.Fit
open Prtpy
namespace Prtpy.Checkers

/-! ### 1. checkers -/

section Checks
variable {α : Type} [DecidableEq α]

theorem checkPartition_iff {v : α → Nat} {items : List α} {k : Nat} {b : Bins α} :
    checkPartition v items k b = true ↔ IsPartition v items k b := by
  simp only [checkPartition, IsPartition, Bool.and_eq_true, List.isPerm_iff, beq_iff_eq, and_assoc]

example : checkPartition id [1, 2, 3] 2 ⟨[3, 3], [[1, 2], [3]]⟩ = true := by decide
example : IsPartition id [1, 2, 3] 2 ⟨[3, 3], [[2, 1], [3]]⟩ :=
  checkPartition_iff.1 (by decide)

theorem checkPacking_iff {v : α → Nat} {B : Nat} {items : List α} {b : Bins α} :
    checkPacking v B items b = true ↔ IsPacking v B items b := by
  simp only [checkPacking, IsPacking, Bool.and_eq_true, List.isPerm_iff, beq_iff_eq, and_assoc,
    List.all_eq_true, decide_eq_true_eq, Bool.or_eq_true, List.isEmpty_iff, Bool.not_eq_true']
  constructor
  · rintro ⟨h1, h2, h3, h4⟩
    refine ⟨h1, h2, h3, ?_⟩
    intro hne l hl
    rcases h4 with h4 | h4
    · exact absurd h4 hne
    · have := h4 l hl
      intro h; subst h; simp at this
  · rintro ⟨h1, h2, h3, h4⟩
    refine ⟨h1, h2, h3, ?_⟩
    by_cases hne : items = []
    · exact Or.inl hne
    · right
      intro l hl
      have := h4 hne l hl
      cases l with
      | nil => exact absurd rfl this
      | cons a t => rfl

example : IsPacking id 4 [1, 2, 3] ⟨[3, 3], [[2, 1], [3]]⟩ :=
  checkPacking_iff.1 (by decide)

theorem sumL_perm {l l' : List Nat} (h : l.Perm l') : sumL l = sumL l' := by
  induction h with
  | nil => rfl
  | cons x _ ih => simp only [sumL, ih]
  | swap x y l => simp only [sumL]; omega
  | trans _ _ ih1 ih2 => exact ih1.trans ih2

omit [DecidableEq α] in
theorem binSum_perm (v : α → Nat) {l l' : List α} (h : l.Perm l') : binSum v l = binSum v l' :=
  sumL_perm (h.map v)

theorem subtractAll_some {l sub rest : List α} (h : subtractAll l sub = some rest) :
    (sub ++ rest).Perm l := by
  induction sub generalizing l with
  | nil =>
    simp only [subtractAll, Option.some.injEq] at h
    subst h; exact List.Perm.refl _
  | cons x xs ih =>
    simp only [subtractAll] at h
    split at h
    · rename_i hx
      have := ih h
      exact ((List.perm_cons x).2 this).trans (List.perm_cons_erase hx).symm
    · exact absurd h (by simp)

theorem subtractAll_of_perm {l sub rest' : List α} (h : (sub ++ rest').Perm l) :
    ∃ rest, subtractAll l sub = some rest ∧ rest.Perm rest' := by
  induction sub generalizing l with
  | nil => exact ⟨l, rfl, h.symm⟩
  | cons x xs ih =>
    have hx : x ∈ l := h.subset (List.mem_cons_self)
    have h' : (xs ++ rest').Perm (l.erase x) := by
      have := List.cons_perm_iff_perm_erase.1 h
      exact this.2
    obtain ⟨rest, h1, h2⟩ := ih h'
    exact ⟨rest, by simp only [subtractAll, hx, if_true, h1], h2⟩

theorem checkCover_iff {v : α → Nat} {B : Nat} {items : List α} {b : Bins α} :
    checkCover v B items b = true ↔ IsCover v B items b := by
  simp only [checkCover, IsCover, Bool.and_eq_true, beq_iff_eq, List.all_eq_true,
    decide_eq_true_eq, and_assoc]
  constructor
  · rintro ⟨h1, h2, h3⟩
    refine ⟨h1, h2, ?_⟩
    split at h3
    · exact absurd h3 (by simp)
    · rename_i rest hrest
      exact ⟨rest, subtractAll_some hrest, of_decide_eq_true h3⟩
  · rintro ⟨h1, h2, rest', hp, hlt⟩
    refine ⟨h1, h2, ?_⟩
    obtain ⟨rest, hs, hperm⟩ := subtractAll_of_perm hp
    rw [hs]
    simp only [decide_eq_true_eq]
    rw [binSum_perm v hperm]; exact hlt

example : IsCover id 3 [1, 2, 3, 1] ⟨[3, 3], [[2, 1], [3]]⟩ :=
  checkCover_iff.1 (by decide)

end Checks

/-! ### 2. shared helpers, then the bin-packing oracle -/

theorem snoc_induction {β : Type} {P : List β → Prop} (nil : P [])
    (snoc : ∀ l x, P l → P (l ++ [x])) : ∀ l, P l := by
  intro l
  rw [← List.reverse_reverse l]
  induction l.reverse with
  | nil => exact nil
  | cons x xs ih => rw [List.reverse_cons]; exact snoc _ _ ih

theorem perm_modify {β : Type} (f : β → β) {st st' : List β} (h : st.Perm st') :
    ∀ i, i < st.length → ∃ j, j < st'.length ∧ (st.modify i f).Perm (st'.modify j f) := by
  induction h with
  | nil => intro i hi; exact absurd hi (Nat.not_lt_zero _)
  | cons x hp ih =>
    intro i hi
    cases i with
    | zero => exact ⟨0, Nat.succ_pos _, by simp only [List.modify_zero_cons]; exact hp.cons _⟩
    | succ i =>
      obtain ⟨j, hj, hperm⟩ := ih i (Nat.lt_of_succ_lt_succ hi)
      exact ⟨j + 1, Nat.succ_lt_succ hj, by simp only [List.modify_succ_cons]; exact hperm.cons _⟩
  | swap x y l =>
    intro i hi
    match i, hi with
    | 0, _ =>
      exact ⟨1, by simp, by
        simp only [List.modify_zero_cons, List.modify_succ_cons]; exact List.Perm.swap _ _ _⟩
    | 1, _ =>
      exact ⟨0, by simp, by
        simp only [List.modify_zero_cons, List.modify_succ_cons]; exact List.Perm.swap _ _ _⟩
    | i + 2, hi =>
      exact ⟨i + 2, by simpa using hi, by
        simp only [List.modify_succ_cons]; exact List.Perm.swap _ _ _⟩
  | trans _ _ ih1 ih2 =>
    intro i hi
    obtain ⟨j, hj, h1⟩ := ih1 i hi
    obtain ⟨k, hk, h2⟩ := ih2 j hj
    exact ⟨k, hk, h1.trans h2⟩

theorem insertAsc_perm (x : Nat) (l : List Nat) : (insertAsc id x l).Perm (x :: l) := by
  induction l with
  | nil => exact List.Perm.refl _
  | cons y ys ih =>
    simp only [insertAsc]
    split
    · exact List.Perm.refl _
    · exact (ih.cons y).trans (List.Perm.swap _ _ _)

theorem sortAsc_perm (l : List Nat) : (sortAsc id l).Perm l := by
  induction l with
  | nil => exact List.Perm.refl _
  | cons x xs ih => simp only [sortAsc]; exact (insertAsc_perm x _).trans (ih.cons x)

theorem insertAsc_sorted (x : Nat) {l : List Nat} (h : l.Pairwise (· ≤ ·)) :
    (insertAsc id x l).Pairwise (· ≤ ·) := by
  induction l with
  | nil => simp [insertAsc]
  | cons y ys ih =>
    simp only [insertAsc, id]
    split
    · rename_i hxy
      refine List.pairwise_cons.2 ⟨?_, h⟩
      intro z hz
      rcases List.mem_cons.1 hz with rfl | hz
      · exact hxy
      · exact Nat.le_trans hxy ((List.pairwise_cons.1 h).1 z hz)
    · rename_i hxy
      have h' := List.pairwise_cons.1 h
      refine List.pairwise_cons.2 ⟨?_, ih h'.2⟩
      intro z hz
      rcases List.mem_cons.1 ((insertAsc_perm x ys).subset hz) with rfl | hz
      · omega
      · exact h'.1 z hz

theorem sortAsc_sorted (l : List Nat) : (sortAsc id l).Pairwise (· ≤ ·) := by
  induction l with
  | nil => exact List.Pairwise.nil
  | cons x xs ih => simp only [sortAsc]; exact insertAsc_sorted x ih

theorem sortAsc_congr {l l' : List Nat} (h : l.Perm l') : sortAsc id l = sortAsc id l' :=
  List.Perm.eq_of_pairwise (le := (· ≤ ·)) (fun _ _ _ _ h1 h2 => Nat.le_antisymm h1 h2)
    (sortAsc_sorted l) (sortAsc_sorted l')
    ((sortAsc_perm l).trans (h.trans (sortAsc_perm l').symm))

theorem sortAsc_of_sorted {l : List Nat} (h : l.Pairwise (· ≤ ·)) : sortAsc id l = l :=
  List.Perm.eq_of_pairwise (le := (· ≤ ·)) (fun _ _ _ _ h1 h2 => Nat.le_antisymm h1 h2)
    (sortAsc_sorted l) h (sortAsc_perm l)

theorem sortAsc_replicate (m c : Nat) : sortAsc id (List.replicate m c) = List.replicate m c :=
  sortAsc_of_sorted (by simp [List.pairwise_replicate])

theorem sortAsc_idem (l : List Nat) : sortAsc id (sortAsc id l) = sortAsc id l :=
  sortAsc_of_sorted (sortAsc_sorted l)

theorem mem_dedupAdj {x : List Nat} {l : List (List Nat)} : x ∈ dedupAdj l ↔ x ∈ l := by
  fun_induction dedupAdj l with
  | case1 => simp
  | case2 => simp
  | case3 a b rest hab ih =>
    have : a = b := by simpa using hab
    subst this
    rw [ih]; simp
  | case4 a b rest hab ih =>
    rw [List.mem_cons, ih]; simp

/-! ### sumsOf -/

theorem length_foldl_modify (l : List (Nat × Nat)) (s : List Nat) :
    (l.foldl (fun s (p : Nat × Nat) => s.modify p.2 (· + p.1)) s).length = s.length := by
  induction l generalizing s with
  | nil => rfl
  | cons p ps ih => simp only [List.foldl_cons, ih, List.length_modify]

theorem length_sumsOf (k : Nat) (vals asg : List Nat) : (sumsOf k vals asg).length = k := by
  simp only [sumsOf, length_foldl_modify, List.length_replicate]

theorem sumsOf_nil (k : Nat) (asg : List Nat) : sumsOf k [] asg = List.replicate k 0 := by
  simp [sumsOf]

theorem sumsOf_snoc (k : Nat) {p asg : List Nat} (x j : Nat) (h : asg.length = p.length) :
    sumsOf k (p ++ [x]) (asg ++ [j]) = (sumsOf k p asg).modify j (· + x) := by
  simp only [sumsOf, List.zip_append h.symm, List.foldl_append, List.zip_cons_cons, List.zip_nil_right,
    List.foldl_cons, List.foldl_nil]

theorem isAssignment_nil {k : Nat} {asg : List Nat} : IsAssignment k 0 asg ↔ asg = [] := by
  simp only [IsAssignment, List.length_eq_zero_iff]
  constructor
  · exact fun h => h.1
  · rintro rfl; simp

theorem isAssignment_snoc {k n : Nat} {asg : List Nat} :
    IsAssignment k (n + 1) asg ↔ ∃ asg' j, asg = asg' ++ [j] ∧ IsAssignment k n asg' ∧ j < k := by
  constructor
  · rintro ⟨hl, hb⟩
    rcases List.eq_nil_or_concat asg with rfl | ⟨asg', j, rfl⟩
    · simp at hl
    · simp only [List.concat_eq_append] at hl hb ⊢
      refine ⟨asg', j, rfl, ⟨by simpa using hl, fun a ha => hb a (by simp [ha])⟩, hb j (by simp)⟩
  · rintro ⟨asg', j, rfl, ⟨hl, hb⟩, hj⟩
    refine ⟨by simp [hl], ?_⟩
    intro a ha
    rcases List.mem_append.1 ha with ha | ha
    · exact hb a ha
    · simp at ha; omega

theorem le_of_modify_add {l : List Nat} {j x B : Nat} (h : ∀ s ∈ l.modify j (· + x), s ≤ B) :
    ∀ s ∈ l, s ≤ B := by
  intro s hs
  obtain ⟨i, hi, rfl⟩ := List.mem_iff_getElem.1 hs
  have hi' : i < (l.modify j (· + x)).length := by simpa using hi
  have := h _ (List.getElem_mem hi')
  rw [List.getElem_modify] at this
  split at this <;> omega


/-! ### bin-packing oracle -/

theorem mem_packLayer {B m value : Nat} {cur : List (List Nat)} {st : List Nat} :
    st ∈ packLayer B m value cur ↔
      (∃ st0 ∈ cur, ∃ i, i < m ∧ st = sortAsc id (st0.modify i (· + value))) ∧ ∀ s ∈ st, s ≤ B := by
  simp only [packLayer, mem_dedupAdj, List.mem_mergeSort, List.mem_filter, List.mem_flatMap,
    List.mem_map, List.mem_range, List.all_eq_true, decide_eq_true_eq]
  constructor
  · rintro ⟨⟨st0, h0, i, hi, rfl⟩, hB⟩
    exact ⟨⟨st0, h0, i, hi, rfl⟩, hB⟩
  · rintro ⟨⟨st0, h0, i, hi, rfl⟩, hB⟩
    exact ⟨⟨st0, h0, i, hi, rfl⟩, hB⟩

/-- the layer invariant -/
theorem mem_packFold (B m : Nat) (p : List Nat) (st : List Nat) :
    st ∈ p.foldl (fun cur value => packLayer B m value cur) [List.replicate m 0] ↔
      ∃ asg, IsAssignment m p.length asg ∧ (∀ s ∈ sumsOf m p asg, s ≤ B) ∧
        st = sortAsc id (sumsOf m p asg) := by
  induction p using snoc_induction generalizing st with
  | nil =>
    simp only [List.foldl_nil, List.mem_singleton, List.length_nil, isAssignment_nil]
    constructor
    · rintro rfl
      refine ⟨[], rfl, ?_, ?_⟩
      · simp [sumsOf_nil]
      · rw [sumsOf_nil, sortAsc_replicate]
    · rintro ⟨_, rfl, _, rfl⟩
      rw [sumsOf_nil, sortAsc_replicate]
  | snoc p x ih =>
    rw [List.foldl_append, List.foldl_cons, List.foldl_nil, mem_packLayer]
    simp only [List.length_append, List.length_singleton]
    constructor
    · rintro ⟨⟨st0, h0, i, hi, rfl⟩, hB⟩
      obtain ⟨asg, hasg, hle, rfl⟩ := (ih st0).1 h0
      have hperm := sortAsc_perm (sumsOf m p asg)
      obtain ⟨j, hj, hpm⟩ := perm_modify (· + x) hperm i
        (by rw [hperm.length_eq, length_sumsOf]; exact hi)
      rw [length_sumsOf] at hj
      refine ⟨asg ++ [j], isAssignment_snoc.2 ⟨asg, j, rfl, hasg, hj⟩, ?_, ?_⟩
      · rw [sumsOf_snoc m x j hasg.1]
        intro s hs
        exact hB s ((sortAsc_perm _).symm.subset (hpm.symm.subset hs))
      · rw [sumsOf_snoc m x j hasg.1]
        exact sortAsc_congr hpm
    · rintro ⟨asg, hasg, hle, rfl⟩
      obtain ⟨asg', j, rfl, hasg', hj⟩ := isAssignment_snoc.1 hasg
      rw [sumsOf_snoc m x j hasg'.1] at hle ⊢
      have hperm := (sortAsc_perm (sumsOf m p asg')).symm
      obtain ⟨i, hi, hpm⟩ := perm_modify (· + x) hperm j (by rw [length_sumsOf]; exact hj)
      rw [← hperm.length_eq, length_sumsOf] at hi
      refine ⟨⟨sortAsc id (sumsOf m p asg'), ?_, i, hi, sortAsc_congr hpm⟩, ?_⟩
      · exact (ih _).2 ⟨asg', hasg', le_of_modify_add hle, rfl⟩
      · intro s hs
        exact hle s ((sortAsc_perm _).subset hs)

theorem packableB_iff {B m : Nat} {vals : List Nat} :
    packableB B m vals = true ↔ Packable B m vals := by
  simp only [packableB, Bool.not_eq_true', Packable]
  constructor
  · intro h
    cases hl : vals.foldl (fun cur value => packLayer B m value cur) [List.replicate m 0] with
    | nil => rw [hl] at h; simp at h
    | cons st rest =>
      have : st ∈ vals.foldl (fun cur value => packLayer B m value cur) [List.replicate m 0] := by
        rw [hl]; exact List.mem_cons_self
      obtain ⟨asg, h1, h2, _⟩ := (mem_packFold B m vals st).1 this
      exact ⟨asg, h1, h2⟩
  · rintro ⟨asg, h1, h2⟩
    have := (mem_packFold B m vals _).2 ⟨asg, h1, h2, rfl⟩
    cases hl : vals.foldl (fun cur value => packLayer B m value cur) [List.replicate m 0] with
    | nil => rw [hl] at this; simp at this
    | cons st rest => rfl

example : packableB 10 2 [6, 5, 4, 3] = true :=
  packableB_iff.2 ⟨[0, 1, 1, 0], ⟨rfl, by decide⟩, by decide⟩


theorem modify_append_length {β : Type} (f : β → β) (p : List β) (a : β) (r : List β) :
    (p ++ a :: r).modify p.length f = p ++ f a :: r := by
  induction p with
  | nil => simp only [List.nil_append, List.length_nil, List.modify_zero_cons]
  | cons y ys ih => simp only [List.cons_append, List.length_cons, List.modify_succ_cons, ih]

theorem sumsOf_range (k : Nat) (p : List Nat) (h : p.length ≤ k) :
    sumsOf k p (List.range p.length) = p ++ List.replicate (k - p.length) 0 := by
  induction p using snoc_induction with
  | nil => simp [sumsOf_nil]
  | snoc p x ih =>
    simp only [List.length_append, List.length_singleton] at h ⊢
    rw [List.range_succ, sumsOf_snoc k x p.length List.length_range, ih (by omega)]
    have : k - p.length = (k - (p.length + 1)) + 1 := by omega
    rw [this, List.replicate_succ, modify_append_length]
    simp

/-- one item per bin -/
theorem packable_length {B : Nat} {vals : List Nat} (h : ∀ x ∈ vals, x ≤ B) :
    Packable B vals.length vals := by
  refine ⟨List.range vals.length, ⟨List.length_range, fun a ha => List.mem_range.1 ha⟩, ?_⟩
  rw [sumsOf_range _ _ (Nat.le_refl _)]
  simpa using h

theorem optBinsFrom_some {B : Nat} {vals : List Nat} {fuel m r : Nat}
    (h : optBinsFrom B vals fuel m = some r) :
    m ≤ r ∧ r < m + fuel ∧ packableB B r vals = true ∧
      ∀ m', m ≤ m' → m' < r → packableB B m' vals = false := by
  induction fuel generalizing m with
  | zero => simp [optBinsFrom] at h
  | succ fuel ih =>
    simp only [optBinsFrom] at h
    split at h
    · rename_i hp
      simp only [Option.some.injEq] at h
      subst h
      exact ⟨Nat.le_refl _, by omega, hp, fun m' h1 h2 => by omega⟩
    · rename_i hp
      obtain ⟨h1, h2, h3, h4⟩ := ih h
      refine ⟨by omega, by omega, h3, ?_⟩
      intro m' hm hm'
      by_cases hmm : m' = m
      · subst hmm; simpa using hp
      · exact h4 m' (by omega) hm'

theorem optBinsFrom_none {B : Nat} {vals : List Nat} {fuel m : Nat}
    (h : optBinsFrom B vals fuel m = none) :
    ∀ m', m ≤ m' → m' < m + fuel → packableB B m' vals = false := by
  induction fuel generalizing m with
  | zero => intro m' h1 h2; omega
  | succ fuel ih =>
    simp only [optBinsFrom] at h
    split at h
    · simp at h
    · rename_i hp
      intro m' hm hm'
      by_cases hmm : m' = m
      · subst hmm; simpa using hp
      · exact ih h m' (by omega) (by omega)

theorem optBins_spec {B : Nat} {vals : List Nat} (h : ∀ x ∈ vals, x ≤ B) :
    ∃ m, optBins B vals = some m ∧ Packable B m vals ∧ ∀ m', Packable B m' vals → m ≤ m' := by
  cases hopt : optBins B vals with
  | none =>
    have := optBinsFrom_none hopt vals.length (Nat.zero_le _) (by omega)
    rw [packableB_iff.2 (packable_length h)] at this
    exact absurd this (by simp)
  | some r =>
    obtain ⟨_, _, h3, h4⟩ := optBinsFrom_some hopt
    refine ⟨r, rfl, packableB_iff.1 h3, ?_⟩
    intro m' hm'
    by_cases hlt : m' < r
    · have := h4 m' (Nat.zero_le _) hlt
      rw [packableB_iff.2 hm'] at this
      exact absurd this (by simp)
    · omega

example : ∃ m, optBins 10 [6, 5, 4, 3] = some m ∧ Packable 10 m [6, 5, 4, 3] ∧
    ∀ m', Packable 10 m' [6, 5, 4, 3] → m ≤ m' := optBins_spec (by decide)

/-- every item is below the sum of some bin -/
theorem item_le_sum {k : Nat} {p asg : List Nat} (h : IsAssignment k p.length asg) :
    ∀ x ∈ p, ∃ s ∈ sumsOf k p asg, x ≤ s := by
  induction p using snoc_induction generalizing asg with
  | nil => intro x hx; simp at hx
  | snoc p y ih =>
    simp only [List.length_append, List.length_singleton] at h
    obtain ⟨asg', j, rfl, hasg', hj⟩ := isAssignment_snoc.1 h
    rw [sumsOf_snoc k y j hasg'.1]
    have hlen : ∀ i, i < k → i < ((sumsOf k p asg').modify j (· + y)).length := by
      intro i hi; simpa [length_sumsOf] using hi
    intro x hx
    rcases List.mem_append.1 hx with hx | hx
    · obtain ⟨s, hs, hxs⟩ := ih hasg' x hx
      obtain ⟨i, hi, rfl⟩ := List.mem_iff_getElem.1 hs
      rw [length_sumsOf] at hi
      refine ⟨_, List.getElem_mem (hlen i hi), ?_⟩
      rw [List.getElem_modify]
      split <;> omega
    · simp only [List.mem_singleton] at hx
      subst hx
      refine ⟨_, List.getElem_mem (hlen j hj), ?_⟩
      rw [List.getElem_modify]
      simp

theorem optBins_none_iff {B : Nat} {vals : List Nat} :
    optBins B vals = none ↔ ∃ x ∈ vals, B < x := by
  constructor
  · intro hnone
    apply Classical.byContradiction
    intro hno
    have : ∀ x ∈ vals, x ≤ B := fun x hx => Nat.le_of_not_lt fun hlt => hno ⟨x, hx, hlt⟩
    obtain ⟨m, hm, _⟩ := optBins_spec this
    rw [hnone] at hm; simp at hm
  · rintro ⟨x, hx, hBx⟩
    cases hopt : optBins B vals with
    | none => rfl
    | some r =>
      obtain ⟨_, _, h3, _⟩ := optBinsFrom_some hopt
      obtain ⟨asg, hasg, hle⟩ := packableB_iff.1 h3
      obtain ⟨s, hs, hxs⟩ := item_le_sum hasg x hx
      have := hle s hs
      omega

example : optBins 10 [6, 11, 4] = none := optBins_none_iff.2 ⟨11, by decide, by decide⟩


/-! ### 3. bin-covering oracle -/

/-- the first `m` sums, capped at `B` -/
def capS (B m : Nat) (l : List Nat) : List Nat := (l.take m).map (min B)

theorem map_modify {β γ : Type} (h : β → γ) (f : β → β) (g : γ → γ) (hfg : ∀ a, h (f a) = g (h a))
    (l : List β) (j : Nat) : (l.modify j f).map h = (l.map h).modify j g := by
  induction l generalizing j with
  | nil => simp
  | cons a t ih =>
    cases j with
    | zero => simp only [List.modify_zero_cons, List.map_cons, hfg]
    | succ j => simp only [List.modify_succ_cons, List.map_cons, ih]

theorem min_add_cap (B s x : Nat) : min B (s + x) = min B (min B s + x) := by omega

theorem capS_modify_lt (B m x : Nat) (l : List Nat) (j : Nat) :
    capS B m (l.modify j (· + x)) = (capS B m l).modify j (fun s => min B (s + x)) := by
  simp only [capS, List.take_modify]
  exact map_modify (min B) (· + x) (fun s => min B (s + x)) (fun a => min_add_cap B a x) _ j

theorem capS_modify_ge (B m x : Nat) (l : List Nat) {j : Nat} (hj : m ≤ j) :
    capS B m (l.modify j (· + x)) = capS B m l := by
  simp only [capS, List.take_modify]
  rw [List.modify_eq_self]
  simp only [List.length_take]; omega

theorem length_capS (B m : Nat) {l : List Nat} (h : l.length = m + 1) : (capS B m l).length = m := by
  simp only [capS, List.length_map, List.length_take, h]; omega

theorem mem_coverLayer {B m value : Nat} {cur : List (List Nat)} {st : List Nat} :
    st ∈ coverLayer B m value cur ↔
      ∃ st0 ∈ cur, st = st0 ∨
        ∃ i, i < m ∧ st = sortAsc id (st0.modify i (fun s => min B (s + value))) := by
  simp only [coverLayer, mem_dedupAdj, List.mem_mergeSort, List.mem_flatMap, List.mem_cons,
    List.mem_map, List.mem_range]
  constructor
  · rintro ⟨st0, h0, h | ⟨i, hi, rfl⟩⟩
    · exact ⟨st0, h0, Or.inl h⟩
    · exact ⟨st0, h0, Or.inr ⟨i, hi, rfl⟩⟩
  · rintro ⟨st0, h0, h | ⟨i, hi, rfl⟩⟩
    · exact ⟨st0, h0, Or.inl h⟩
    · exact ⟨st0, h0, Or.inr ⟨i, hi, rfl⟩⟩

/-- the layer invariant -/
theorem mem_coverFold (B m : Nat) (p : List Nat) (st : List Nat) :
    st ∈ p.foldl (fun cur value => coverLayer B m value cur) [List.replicate m 0] ↔
      ∃ asg, IsAssignment (m + 1) p.length asg ∧
        st = sortAsc id (capS B m (sumsOf (m + 1) p asg)) := by
  induction p using snoc_induction generalizing st with
  | nil =>
    have h0 : sortAsc id (capS B m (List.replicate (m + 1) 0)) = List.replicate m 0 := by
      have : capS B m (List.replicate (m + 1) 0) = List.replicate m 0 := by
        simp [capS, List.take_replicate]
      rw [this, sortAsc_replicate]
    simp only [List.foldl_nil, List.mem_singleton, List.length_nil, isAssignment_nil]
    constructor
    · rintro rfl
      exact ⟨[], rfl, by rw [sumsOf_nil, h0]⟩
    · rintro ⟨_, rfl, rfl⟩
      rw [sumsOf_nil, h0]
  | snoc p x ih =>
    rw [List.foldl_append, List.foldl_cons, List.foldl_nil, mem_coverLayer]
    simp only [List.length_append, List.length_singleton]
    constructor
    · rintro ⟨st0, h0, hst⟩
      obtain ⟨asg, hasg, rfl⟩ := (ih st0).1 h0
      rcases hst with rfl | ⟨i, hi, rfl⟩
      · refine ⟨asg ++ [m], isAssignment_snoc.2 ⟨asg, m, rfl, hasg, Nat.lt_succ_self m⟩, ?_⟩
        rw [sumsOf_snoc (m + 1) x m hasg.1, capS_modify_ge B m x _ (Nat.le_refl m)]
      · have hperm := sortAsc_perm (capS B m (sumsOf (m + 1) p asg))
        have hlen := length_capS B m (length_sumsOf (m + 1) p asg)
        obtain ⟨j, hj, hpm⟩ := perm_modify (fun s => min B (s + x)) hperm i
          (by rw [hperm.length_eq, hlen]; exact hi)
        rw [hlen] at hj
        refine ⟨asg ++ [j], isAssignment_snoc.2 ⟨asg, j, rfl, hasg, Nat.lt_succ_of_lt hj⟩, ?_⟩
        rw [sumsOf_snoc (m + 1) x j hasg.1, capS_modify_lt]
        exact sortAsc_congr hpm
    · rintro ⟨asg, hasg, rfl⟩
      obtain ⟨asg', j, rfl, hasg', hj⟩ := isAssignment_snoc.1 hasg
      rw [sumsOf_snoc (m + 1) x j hasg'.1]
      refine ⟨sortAsc id (capS B m (sumsOf (m + 1) p asg')), (ih _).2 ⟨asg', hasg', rfl⟩, ?_⟩
      by_cases hjm : j < m
      · right
        have hperm := (sortAsc_perm (capS B m (sumsOf (m + 1) p asg'))).symm
        have hlen := length_capS B m (length_sumsOf (m + 1) p asg')
        obtain ⟨i, hi, hpm⟩ := perm_modify (fun s => min B (s + x)) hperm j
          (by rw [hlen]; exact hjm)
        rw [← hperm.length_eq, hlen] at hi
        refine ⟨i, hi, ?_⟩
        rw [capS_modify_lt]
        exact sortAsc_congr hpm
      · left
        rw [capS_modify_ge B m x _ (Nat.le_of_not_lt hjm)]

/-- `coverableB` decides `Coverable` (no assumption on `B` is needed) -/
theorem coverableB_iff' {B m : Nat} {vals : List Nat} :
    coverableB B m vals = true ↔ Coverable B m vals := by
  simp only [coverableB, Coverable, List.any_eq_true, List.all_eq_true, decide_eq_true_eq]
  have key : ∀ l : List Nat, (∀ s ∈ sortAsc id (capS B m l), B ≤ s) ↔ ∀ s ∈ l.take m, B ≤ s := by
    intro l
    constructor
    · intro h s hs
      have : min B s ∈ sortAsc id (capS B m l) :=
        (sortAsc_perm _).symm.subset (List.mem_map.2 ⟨s, hs, rfl⟩)
      have := h _ this
      omega
    · intro h s hs
      obtain ⟨t, ht, rfl⟩ := List.mem_map.1 ((sortAsc_perm _).subset hs)
      have := h t ht
      omega
  constructor
  · rintro ⟨st, hst, hall⟩
    obtain ⟨asg, hasg, rfl⟩ := (mem_coverFold B m vals st).1 hst
    exact ⟨asg, hasg, (key _).1 hall⟩
  · rintro ⟨asg, hasg, hall⟩
    exact ⟨_, (mem_coverFold B m vals _).2 ⟨asg, hasg, rfl⟩, (key _).2 hall⟩

theorem coverableB_iff {B m : Nat} {vals : List Nat} (_hB : 0 < B) :
    coverableB B m vals = true ↔ Coverable B m vals := coverableB_iff'

example : coverableB 7 2 [6, 5, 4, 3, 1] = true :=
  (coverableB_iff (by decide)).2 ⟨[0, 1, 1, 0, 2], ⟨rfl, by decide⟩, by decide⟩


theorem countP_modify_le {β : Type} (q : β → Bool) (f : β → β) (l : List β) (j : Nat) :
    (l.modify j f).countP q ≤ l.countP q + 1 := by
  induction l generalizing j with
  | nil => simp
  | cons a t ih =>
    cases j with
    | zero =>
      simp only [List.modify_zero_cons, List.countP_cons]
      split <;> split <;> omega
    | succ j =>
      simp only [List.modify_succ_cons, List.countP_cons]
      have := ih j
      omega

/-- an assignment of `n` items makes at most `n` sums positive -/
theorem countP_pos_sumsOf {k : Nat} {p asg : List Nat} (h : IsAssignment k p.length asg) :
    (sumsOf k p asg).countP (fun s => decide (0 < s)) ≤ p.length := by
  induction p using snoc_induction generalizing asg with
  | nil => simp [sumsOf_nil, List.countP_replicate]
  | snoc p y ih =>
    simp only [List.length_append, List.length_singleton] at h ⊢
    obtain ⟨asg', j, rfl, hasg', hj⟩ := isAssignment_snoc.1 h
    rw [sumsOf_snoc k y j hasg'.1]
    have := countP_modify_le (fun s => decide (0 < s)) (· + y) (sumsOf k p asg') j
    have := ih hasg'
    omega

theorem coverable_le_length {B m : Nat} {vals : List Nat} (hB : 0 < B) (h : Coverable B m vals) :
    m ≤ vals.length := by
  obtain ⟨asg, hasg, hall⟩ := h
  have h1 : ((sumsOf (m + 1) vals asg).take m).countP (fun s => decide (0 < s)) =
      ((sumsOf (m + 1) vals asg).take m).length := by
    rw [List.countP_eq_length]
    intro s hs
    have := hall s hs
    simp only [decide_eq_true_eq]; omega
  have h2 : ((sumsOf (m + 1) vals asg).take m).length = m := by
    simp only [List.length_take, length_sumsOf]; omega
  have h3 := (List.take_sublist m (sumsOf (m + 1) vals asg)).countP_le
    (p := fun s => decide (0 < s))
  have h4 := countP_pos_sumsOf hasg
  omega

theorem coverable_zero (B : Nat) (vals : List Nat) : Coverable B 0 vals :=
  ⟨List.replicate vals.length 0, ⟨List.length_replicate, fun a ha => by
    rw [(List.mem_replicate.1 ha).2]; exact Nat.succ_pos _⟩, by simp⟩

/-- merging the last covered bin into the leftover bin leaves the other sums unchanged -/
theorem take_sumsOf_merge (m : Nat) {p asg : List Nat} (h : IsAssignment (m + 2) p.length asg) :
    (sumsOf (m + 1) p (asg.map (min m))).take m = (sumsOf (m + 2) p asg).take m := by
  induction p using snoc_induction generalizing asg with
  | nil => simp [sumsOf_nil, List.take_replicate]
  | snoc p y ih =>
    simp only [List.length_append, List.length_singleton] at h
    obtain ⟨asg', j, rfl, hasg', hj⟩ := isAssignment_snoc.1 h
    rw [List.map_append, List.map_cons, List.map_nil,
      sumsOf_snoc (m + 1) y (min m j) (by rw [List.length_map]; exact hasg'.1),
      sumsOf_snoc (m + 2) y j hasg'.1, List.take_modify, List.take_modify, ih hasg']
    by_cases hjm : j < m
    · rw [Nat.min_eq_right (Nat.le_of_lt hjm)]
    · have hlen : ((sumsOf (m + 2) p asg').take m).length ≤ m := by
        simp only [List.length_take]; omega
      rw [Nat.min_eq_left (Nat.le_of_not_lt hjm), List.modify_eq_self hlen,
        List.modify_eq_self (Nat.le_trans hlen (Nat.le_of_not_lt hjm))]

/-- `Coverable` is downward closed in the number of bins -/
theorem coverable_pred {B m : Nat} {vals : List Nat} (h : Coverable B (m + 1) vals) :
    Coverable B m vals := by
  obtain ⟨asg, hasg, hall⟩ := h
  refine ⟨asg.map (min m), ⟨by rw [List.length_map]; exact hasg.1, ?_⟩, ?_⟩
  · intro a ha
    obtain ⟨a', _, rfl⟩ := List.mem_map.1 ha
    omega
  · rw [take_sumsOf_merge m hasg]
    intro s hs
    apply hall s
    have : (sumsOf (m + 1 + 1) vals asg).take m = ((sumsOf (m + 1 + 1) vals asg).take (m + 1)).take m := by
      rw [List.take_take]; congr 1; omega
    rw [this] at hs
    exact (List.take_sublist _ _).subset hs

theorem coverable_mono {B m m' : Nat} {vals : List Nat} (hm : m' ≤ m) (h : Coverable B m vals) :
    Coverable B m' vals := by
  induction m with
  | zero => rw [Nat.le_zero.1 hm]; exact h
  | succ m ih =>
    by_cases hmm : m' = m + 1
    · rw [hmm]; exact h
    · exact ih (by omega) (coverable_pred h)

theorem optCoverFrom_spec (B : Nat) (vals : List Nat) (n : Nat) :
    Coverable B (optCoverFrom B vals n) vals ∧
      ∀ m, m ≤ n → Coverable B m vals → m ≤ optCoverFrom B vals n := by
  induction n with
  | zero => exact ⟨coverable_zero B vals, fun m hm _ => hm⟩
  | succ n ih =>
    simp only [optCoverFrom]
    split
    · rename_i hc
      exact ⟨coverableB_iff'.1 hc, fun m hm _ => hm⟩
    · rename_i hc
      refine ⟨ih.1, fun m hm hcov => ?_⟩
      by_cases hmn : m = n + 1
      · subst hmn
        exact absurd (coverableB_iff'.2 hcov) hc
      · exact ih.2 m (by omega) hcov

theorem length_mul_le_sumL {B : Nat} : ∀ (l : List Nat), (∀ s ∈ l, B ≤ s) → l.length * B ≤ sumL l
  | [], _ => by simp [sumL]
  | a :: l, h => by
    have h1 := h a List.mem_cons_self
    have ih := length_mul_le_sumL l (fun s hs => h s (List.mem_cons_of_mem _ hs))
    simp only [sumL, List.length_cons, Nat.add_mul]
    omega

theorem sumL_take_le : ∀ (m : Nat) (l : List Nat), sumL (l.take m) ≤ sumL l
  | 0, l => by simp [sumL]
  | _ + 1, [] => by simp [sumL]
  | m + 1, a :: l => by
    have := sumL_take_le m l
    simp only [List.take_succ_cons, sumL]
    omega

/-- covering `m` bins needs a total of at least `m * B` -/
theorem coverable_mul_le_total {B m : Nat} {vals : List Nat} (h : Coverable B m vals) : m * B ≤ sumL vals := by
  obtain ⟨asg, hasg, hall⟩ := h
  have hs := Fit.sumsOf_length_sum hasg
  have h1 := length_mul_le_sumL _ hall
  have h2 := sumL_take_le m (sumsOf (m + 1) vals asg)
  have h3 : ((sumsOf (m + 1) vals asg).take m).length = m := by
    simp only [List.length_take, hs.1]; omega
  rw [h3] at h1
  omega

theorem optCover_spec {B : Nat} {vals : List Nat} (hB : 0 < B) :
    Coverable B (optCover B vals) vals ∧ ∀ m, Coverable B m vals → m ≤ optCover B vals := by
  unfold optCover
  refine ⟨(optCoverFrom_spec B vals _).1, fun m hm => (optCoverFrom_spec B vals _).2 m ?_ hm⟩
  have h1 := coverable_le_length hB hm
  have h2 := coverable_mul_le_total hm
  have h3 : m ≤ sumL vals / B := (Nat.le_div_iff_mul_le hB).2 h2
  omega

example : Coverable 7 2 [6, 5, 4, 3, 1] ∧ 2 ≤ optCover 7 [6, 5, 4, 3, 1] :=
  have h : Coverable 7 2 [6, 5, 4, 3, 1] := ⟨[0, 1, 1, 0, 2], ⟨rfl, by decide⟩, by decide⟩
  ⟨h, (optCover_spec (by decide)).2 2 h⟩


/-! ### 4. balanced oracle -/

theorem mem_subsetFold (vals : List Nat) (cur : List (Nat × Nat)) (p : Nat × Nat) :
    p ∈ vals.foldl (fun cur x => (cur ++ cur.map fun (p : Nat × Nat) => (p.1 + 1, p.2 + x)).eraseDups) cur ↔
      ∃ q ∈ cur, ∃ sub : List Nat, sub.Sublist vals ∧ p = (q.1 + sub.length, q.2 + sumL sub) := by
  induction vals generalizing cur with
  | nil =>
    simp only [List.foldl_nil, List.sublist_nil]
    constructor
    · intro h; exact ⟨p, h, [], rfl, by simp [sumL]⟩
    · rintro ⟨q, hq, sub, rfl, rfl⟩; simpa [sumL] using hq
  | cons x xs ih =>
    rw [List.foldl_cons, ih]
    simp only [List.mem_eraseDups, List.mem_append, List.mem_map]
    constructor
    · rintro ⟨q, hq | ⟨q', hq', rfl⟩, sub, hsub, rfl⟩
      · exact ⟨q, hq, sub, List.Sublist.cons _ hsub, rfl⟩
      · refine ⟨q', hq', x :: sub, hsub.cons_cons _, ?_⟩
        simp only [List.length_cons, sumL, Prod.mk.injEq]; omega
    · rintro ⟨q, hq, sub, hsub, rfl⟩
      rcases List.sublist_cons_iff.1 hsub with h | ⟨r, rfl, h⟩
      · exact ⟨q, Or.inl hq, sub, h, rfl⟩
      · refine ⟨(q.1 + 1, q.2 + x), Or.inr ⟨q, hq, rfl⟩, r, h, ?_⟩
        simp only [List.length_cons, sumL, Prod.mk.injEq]; omega

theorem mem_subsetPairs {vals : List Nat} {p : Nat × Nat} :
    p ∈ subsetPairs vals ↔ ∃ sub : List Nat, sub.Sublist vals ∧ p = (sub.length, sumL sub) := by
  simp only [subsetPairs, mem_subsetFold, List.mem_singleton]
  constructor
  · rintro ⟨q, rfl, sub, hsub, rfl⟩; exact ⟨sub, hsub, by simp⟩
  · rintro ⟨sub, hsub, rfl⟩; exact ⟨(0, 0), rfl, sub, hsub, by simp⟩

example : (2, 9) ∈ subsetPairs [6, 5, 4, 3] :=
  mem_subsetPairs.2 ⟨[6, 3], by decide, rfl⟩

theorem foldl_min_mem (x : Nat) (xs : List Nat) : xs.foldl min x ∈ x :: xs := by
  induction xs generalizing x with
  | nil => simp
  | cons y ys ih =>
    rw [List.foldl_cons]
    have := ih (min x y)
    rcases List.mem_cons.1 this with h | h
    · rw [h]
      by_cases hxy : x ≤ y
      · rw [Nat.min_eq_left hxy]; simp
      · rw [Nat.min_eq_right (by omega)]; simp
    · exact List.mem_cons_of_mem _ (List.mem_cons_of_mem _ h)

theorem foldl_min_le (x : Nat) (xs : List Nat) : ∀ y ∈ x :: xs, xs.foldl min x ≤ y := by
  induction xs generalizing x with
  | nil => simp
  | cons z zs ih =>
    intro y hy
    rw [List.foldl_cons]
    have h0 := ih (min x z) (min x z) List.mem_cons_self
    rcases List.mem_cons.1 hy with rfl | hy
    · exact Nat.le_trans h0 (Nat.min_le_left _ _)
    · rcases List.mem_cons.1 hy with rfl | hy
      · exact Nat.le_trans h0 (Nat.min_le_right _ _)
      · exact ih (min x z) y (List.mem_cons_of_mem _ hy)

/-- `absd` of the task statement is `optBalanced.absDiffN` -/
theorem optBalanced_spec {d : Nat} {vals : List Nat} {x : Nat} :
    optBalanced d vals = some x ↔
      ((∃ sub : List Nat, sub.Sublist vals ∧
          optBalanced.absDiffN (2 * sub.length) vals.length ≤ d ∧
          optBalanced.absDiffN (2 * sumL sub) (sumL vals) = x) ∧
        ∀ sub : List Nat, sub.Sublist vals →
          optBalanced.absDiffN (2 * sub.length) vals.length ≤ d →
          x ≤ optBalanced.absDiffN (2 * sumL sub) (sumL vals)) := by
  have hmem : ∀ y, y ∈ ((subsetPairs vals).filter fun (p : Nat × Nat) =>
        decide (optBalanced.absDiffN (2 * p.1) vals.length ≤ d)).map
        (fun (p : Nat × Nat) => optBalanced.absDiffN (2 * p.2) (sumL vals)) ↔
      ∃ sub : List Nat, sub.Sublist vals ∧
        optBalanced.absDiffN (2 * sub.length) vals.length ≤ d ∧
        optBalanced.absDiffN (2 * sumL sub) (sumL vals) = y := by
    intro y
    simp only [List.mem_map, List.mem_filter, mem_subsetPairs, decide_eq_true_eq]
    constructor
    · rintro ⟨p, ⟨⟨sub, hsub, rfl⟩, hd⟩, rfl⟩
      exact ⟨sub, hsub, hd, rfl⟩
    · rintro ⟨sub, hsub, hd, rfl⟩
      exact ⟨(sub.length, sumL sub), ⟨⟨sub, hsub, rfl⟩, hd⟩, rfl⟩
  unfold optBalanced
  simp only
  generalize ((subsetPairs vals).filter fun (p : Nat × Nat) =>
        decide (optBalanced.absDiffN (2 * p.1) vals.length ≤ d)).map
        (fun (p : Nat × Nat) => optBalanced.absDiffN (2 * p.2) (sumL vals)) = ys at hmem
  cases ys with
  | nil =>
    simp only [reduceCtorEq, false_iff]
    rintro ⟨⟨sub, hsub, hd, hx⟩, _⟩
    have := (hmem x).2 ⟨sub, hsub, hd, hx⟩
    simp at this
  | cons y ys =>
    simp only [Option.some.injEq]
    constructor
    · rintro rfl
      refine ⟨(hmem _).1 (foldl_min_mem y ys), ?_⟩
      intro sub hsub hd
      exact foldl_min_le y ys _ ((hmem _).2 ⟨sub, hsub, hd, rfl⟩)
    · rintro ⟨hex, hall⟩
      have h1 : x ∈ y :: ys := (hmem x).2 hex
      have h2 : ys.foldl min y ≤ x := foldl_min_le y ys x h1
      obtain ⟨sub, hsub, hd, hs⟩ := (hmem _).1 (foldl_min_mem y ys)
      have h3 := hall sub hsub hd
      omega

/-- non-vacuity: `[6, 5, 4, 3]`, cardinality difference 0: `{6, 3}` against `{5, 4}`, difference 0 -/
example : optBalanced 0 [6, 5, 4, 3] = some 0 :=
  optBalanced_spec.2 ⟨⟨[6, 3], by decide, by decide, by decide⟩, fun _ _ _ => Nat.zero_le _⟩

end Prtpy.Checkers

/-
#print axioms Prtpy.Checkers.checkPartition_iff
#print axioms Prtpy.Checkers.checkPacking_iff
#print axioms Prtpy.Checkers.checkCover_iff
#print axioms Prtpy.Checkers.packableB_iff
#print axioms Prtpy.Checkers.optBins_spec
#print axioms Prtpy.Checkers.optBins_none_iff
#print axioms Prtpy.Checkers.coverableB_iff
#print axioms Prtpy.Checkers.optCover_spec
#print axioms Prtpy.Checkers.mem_subsetPairs
#print axioms Prtpy.Checkers.optBalanced_spec
#print axioms Prtpy.Checkers.coverable_mono

observed output (Lean 4.33.0), identical for each of the eleven:
  '<name>' depends on axioms: [propext, Classical.choice, Quot.sound]
(the shared helper `perm_modify` depends on `propext` only)
-/
