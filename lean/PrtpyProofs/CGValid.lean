/-
  PrtpyProofs.CGValid — the anytime "complete greedy" branch-and-bound (`Prtpy.cg`):
  * C01/C11  safety of interruption: the incumbent is always `none` or a valid partition
             (`cg_cut_safe`, `cg_result`);
  * C11      anytime monotonicity: one more tick = one more step (`cgRun_succ`), the value of the
             incumbent never gets worse (`cg_cut_monotone`), the unlimited run equals every late cut
             (`cg_cut_eventually`);
  * C01      termination with explicit fuel (`cg_fuel_sufficient`) and "a completed run never yields a
             missing result" (`cg_some_of_no_limit`);
  * C11      the first incumbent is the greedy (LPT) one (`cg_first_leaf_is_lpt`).
-/
import Prtpy
open Prtpy

namespace Prtpy.CGValid

variable {α : Type}

/-! ## Sorting, sums (standard facts about the import-free list utilities) -/

theorem insertDesc_perm (key : α → Nat) (x : α) (l : List α) : (insertDesc key x l).Perm (x :: l) := by
  induction l with
  | nil => exact List.Perm.refl _
  | cons y ys ih =>
    simp only [insertDesc]
    split
    · exact List.Perm.refl _
    · exact (List.Perm.cons y ih).trans (List.Perm.swap x y ys)

theorem sortDesc_perm (key : α → Nat) (l : List α) : (sortDesc key l).Perm l := by
  induction l with
  | nil => exact List.Perm.refl _
  | cons x xs ih =>
    simp only [sortDesc]
    exact (insertDesc_perm key x _).trans (List.Perm.cons x ih)

theorem sortDesc_length (key : α → Nat) (l : List α) : (sortDesc key l).length = l.length :=
  (sortDesc_perm key l).length_eq

theorem insertAsc_perm (key : α → Nat) (x : α) (l : List α) : (insertAsc key x l).Perm (x :: l) := by
  induction l with
  | nil => exact List.Perm.refl _
  | cons y ys ih =>
    simp only [insertAsc]
    split
    · exact List.Perm.refl _
    · exact (List.Perm.cons y ih).trans (List.Perm.swap x y ys)

theorem sortAsc_perm (key : α → Nat) (l : List α) : (sortAsc key l).Perm l := by
  induction l with
  | nil => exact List.Perm.refl _
  | cons x xs ih =>
    simp only [sortAsc]
    exact (insertAsc_perm key x _).trans (List.Perm.cons x ih)

theorem insertAsc_sorted (key : α → Nat) (x : α) (l : List α)
    (h : l.Pairwise (fun a b => key a ≤ key b)) :
    (insertAsc key x l).Pairwise (fun a b => key a ≤ key b) := by
  induction l with
  | nil => simp [insertAsc]
  | cons y ys ih =>
    simp only [insertAsc]
    rw [List.pairwise_cons] at h
    split
    · rename_i hxy
      refine List.pairwise_cons.2 ⟨?_, List.pairwise_cons.2 h⟩
      intro a ha
      rcases List.mem_cons.1 ha with rfl | ha
      · exact hxy
      · exact Nat.le_trans hxy (h.1 a ha)
    · rename_i hxy
      refine List.pairwise_cons.2 ⟨?_, ih h.2⟩
      intro a ha
      rcases List.mem_cons.1 ((insertAsc_perm key x ys).mem_iff.1 ha) with rfl | ha
      · omega
      · exact h.1 a ha

theorem sortAsc_sorted (key : α → Nat) (l : List α) :
    (sortAsc key l).Pairwise (fun a b => key a ≤ key b) := by
  induction l with
  | nil => simp [sortAsc]
  | cons x xs ih => exact insertAsc_sorted key x _ ih

theorem sumL_append (l₁ l₂ : List Nat) : sumL (l₁ ++ l₂) = sumL l₁ + sumL l₂ := by
  induction l₁ with
  | nil => simp [sumL]
  | cons x xs ih => simp only [List.cons_append, sumL, ih]; omega

theorem binSum_nil (v : α → Nat) : binSum v [] = 0 := rfl

theorem binSum_cons (v : α → Nat) (x : α) (l : List α) : binSum v (x :: l) = v x + binSum v l := rfl

theorem binSum_append (v : α → Nat) (l₁ l₂ : List α) :
    binSum v (l₁ ++ l₂) = binSum v l₁ + binSum v l₂ := by
  simp only [binSum, List.map_append, sumL_append]

/-! ## `List.modify`, `Bins.add`, `Bins.sortAsc` -/

theorem flatten_modify_append_perm (ls : List (List α)) (i : Nat) (x : α) (hi : i < ls.length) :
    (ls.modify i (· ++ [x])).flatten.Perm (x :: ls.flatten) := by
  induction ls generalizing i with
  | nil => simp at hi
  | cons l ls ih =>
    cases i with
    | zero =>
      simp only [List.modify_cons, if_true, List.flatten_cons, List.append_assoc]
      exact List.perm_middle
    | succ i =>
      simp only [List.modify_cons, Nat.add_one_ne_zero, if_false, Nat.add_sub_cancel,
        List.flatten_cons]
      have := ih i (by simpa using hi)
      exact (List.Perm.append_left l this).trans List.perm_middle

theorem map_binSum_modify (v : α → Nat) (ls : List (List α)) (i : Nat) (x : α) :
    (ls.modify i (· ++ [x])).map (binSum v) = (ls.map (binSum v)).modify i (· + v x) := by
  induction ls generalizing i with
  | nil => simp
  | cons l ls ih =>
    cases i with
    | zero => simp [List.modify_cons, binSum_append, binSum_cons, binSum_nil]
    | succ i => simp [ih]

section BinsLemmas
variable (v : α → Nat)

@[simp] theorem add_sums (b : Bins α) (x : α) (i : Nat) :
    (b.add v x i).sums = b.sums.modify i (· + v x) := rfl

@[simp] theorem add_lists (b : Bins α) (x : α) (i : Nat) :
    (b.add v x i).lists = b.lists.modify i (· ++ [x]) := rfl

theorem add_lists_length (b : Bins α) (x : α) (i : Nat) :
    (b.add v x i).lists.length = b.lists.length := by simp

theorem add_flat_perm (b : Bins α) (x : α) (i : Nat) (hi : i < b.lists.length) :
    (b.add v x i).lists.flatten.Perm (x :: b.lists.flatten) :=
  flatten_modify_append_perm b.lists i x hi

theorem add_consistent (b : Bins α) (x : α) (i : Nat) (h : b.Consistent v) :
    (b.add v x i).Consistent v := by
  unfold Bins.Consistent at *
  simp only [add_sums, add_lists, map_binSum_modify, h]

theorem consistent_length {b : Bins α} (h : b.Consistent v) : b.sums.length = b.lists.length := by
  unfold Bins.Consistent at h; rw [h]; simp

theorem new_consistent (k : Nat) : (Bins.new k : Bins α).Consistent v := by
  simp [Bins.Consistent, Bins.new, binSum_nil]

theorem new_flat (k : Nat) : (Bins.new k : Bins α).lists.flatten = [] := by
  simp [Bins.new]

@[simp] theorem new_lists_length (k : Nat) : (Bins.new k : Bins α).lists.length = k := by
  simp [Bins.new]

@[simp] theorem new_sums_length (k : Nat) : (Bins.new k : Bins α).sums.length = k := by
  simp [Bins.new]

theorem sortAsc_sums_perm (b : Bins α) (h : b.sums.length = b.lists.length) :
    b.sortAsc.sums.Perm b.sums := by
  have := (sortAsc_perm (fun p : Nat × List α => p.1) (b.sums.zip b.lists)).map Prod.fst
  rw [List.map_fst_zip (by omega)] at this
  exact this

theorem sortAsc_lists_perm (b : Bins α) (h : b.sums.length = b.lists.length) :
    b.sortAsc.lists.Perm b.lists := by
  have := (sortAsc_perm (fun p : Nat × List α => p.1) (b.sums.zip b.lists)).map Prod.snd
  rw [List.map_snd_zip (by omega)] at this
  exact this

theorem sortAsc_flat_perm (b : Bins α) (h : b.sums.length = b.lists.length) :
    b.sortAsc.lists.flatten.Perm b.lists.flatten :=
  (sortAsc_lists_perm b h).flatten

theorem sortAsc_lists_length (b : Bins α) (h : b.sums.length = b.lists.length) :
    b.sortAsc.lists.length = b.lists.length :=
  (sortAsc_lists_perm b h).length_eq

theorem sortAsc_sums_sorted (b : Bins α) : b.sortAsc.sums.Pairwise (· ≤ ·) := by
  have := sortAsc_sorted (fun p : Nat × List α => p.1) (b.sums.zip b.lists)
  simp only [Bins.sortAsc]
  exact List.pairwise_map.2 this

theorem sortAsc_consistent (b : Bins α) (h : b.Consistent v) : b.sortAsc.Consistent v := by
  unfold Bins.Consistent at *
  simp only [Bins.sortAsc, List.map_map]
  apply List.map_congr_left
  intro p hp
  have hp' := (sortAsc_perm (fun p : Nat × List α => p.1) (b.sums.zip b.lists)).mem_iff.1 hp
  rw [h, List.zip_map_left, List.mem_map] at hp'
  obtain ⟨⟨q1, q2⟩, hq, rfl⟩ := hp'
  simp only [Prod.map, id, Function.comp]
  obtain ⟨j, hj, hje⟩ := List.mem_iff_getElem.1 hq
  simp only [List.getElem_zip, Prod.mk.injEq] at hje
  rw [← hje.1, ← hje.2]

end BinsLemmas

/-! ## The step function, case by case -/

/-- the test of heuristic 3 -/
def h3Cond (v : α → Nat) (cfg : CgCfg) (sorted : List α) (cur : Bins α) (depth : Nat) : Bool :=
  cfg.useH3 && cfg.obj == .minLargest &&
    decide (remFrom v sorted depth + cur.sums.headD 0 ≤ lastD cur.sums 0)

/-- the leaf heuristic 3 jumps to -/
def h3Vertex (v : α → Nat) (sorted : List α) (cur : Bins α) (depth : Nat) : Bins α :=
  ((sorted.drop depth).foldl (fun b x => b.add v x 0) cur).sortAsc

/-- the children generated when `(cur, depth)` is expanded in state `s` -/
def expandRes (v : α → Nat) (cfg : CgCfg) (k : Nat) (sorted : List α) (s : CgState α) (cur : Bins α)
    (depth : Nat) (x : α) : List (Bins α × Nat) × List (Nat × List Nat) :=
  cgChildren v cfg k cur depth x (remFrom v sorted (depth + 1)) s.bestV (List.range k).reverse none s.seen []

/-- case analysis principle for `cgStep` -/
theorem cgStep_ind (v : α → Nat) (cfg : CgCfg) (k : Nat) (sorted : List α) (glb : EInt)
    (motive : CgState α → Prop) (s : CgState α)
    (nil : s.stack = [] → motive { s with done := true })
    (leafImprove : ∀ cur rest, s.stack = (cur, sorted.length) :: rest →
      EInt.lt (.fin (cfg.obj.value cur.sums false)) s.bestV = true →
      motive { stack := rest, seen := s.seen, best := some cur, bestV := .fin (cfg.obj.value cur.sums false),
               done := EInt.le (.fin (cfg.obj.value cur.sums false)) glb || s.done })
    (leafKeep : ∀ cur rest, s.stack = (cur, sorted.length) :: rest →
      EInt.lt (.fin (cfg.obj.value cur.sums false)) s.bestV = false →
      motive { s with stack := rest })
    (h3 : ∀ cur depth rest, s.stack = (cur, depth) :: rest → depth ≠ sorted.length →
      h3Cond v cfg sorted cur depth = true →
      motive { s with stack := (h3Vertex v sorted cur depth, sorted.length) :: rest })
    (expand : ∀ cur depth rest x, s.stack = (cur, depth) :: rest → depth ≠ sorted.length →
      h3Cond v cfg sorted cur depth = false → sorted[depth]? = some x →
      motive { s with stack := (expandRes v cfg k sorted s cur depth x).1.reverse ++ rest,
                      seen := (expandRes v cfg k sorted s cur depth x).2 })
    (oob : ∀ cur depth rest, s.stack = (cur, depth) :: rest → depth ≠ sorted.length →
      sorted[depth]? = none → motive { s with stack := rest }) :
    motive (cgStep v cfg k sorted glb s) := by
  unfold cgStep
  split
  · rename_i hs; exact nil hs
  · rename_i cur depth rest hs
    by_cases hd : depth = sorted.length
    · subst hd
      simp only [beq_self_eq_true, if_true]
      by_cases hlt : EInt.lt (.fin (cfg.obj.value cur.sums false)) s.bestV = true
      · simp only [hlt, if_true]
        have := leafImprove cur rest hs hlt
        by_cases hle : EInt.le (.fin (cfg.obj.value cur.sums false)) glb = true
        · simpa [hle] using this
        · simp only [hle]
          simp only [Bool.not_eq_true] at hle
          simpa [hle] using this
      · simp only [hlt]
        exact leafKeep cur rest hs (by simpa using hlt)
    · have hd' : (depth == sorted.length) = false := by simpa using hd
      simp only [hd', Bool.false_eq_true, if_false]
      by_cases hc : h3Cond v cfg sorted cur depth = true
      · have := h3 cur depth rest hs hd hc
        unfold h3Cond at hc
        rw [if_pos hc]
        exact this
      · have hc' : h3Cond v cfg sorted cur depth = false := by simpa using hc
        unfold h3Cond at hc
        rw [if_neg hc]
        split
        · rename_i hx; exact oob cur depth rest hs hd hx
        · rename_i x hx; exact expand cur depth rest x hs hd hc' hx

/-- `cgChildren` only ever pushes vertices of the form `((cur.add v x b).sortAsc, depth + 1)` with `b ∈ bs` -/
theorem cgChildren_mem (v : α → Nat) (cfg : CgCfg) (k : Nat) (cur : Bins α) (depth : Nat) (x : α) (r : Nat)
    (bestV : EInt) (P : Bins α × Nat → Prop) (bs : List Nat) (prev : Option Nat)
    (seen : List (Nat × List Nat)) (acc : List (Bins α × Nat))
    (hacc : ∀ p ∈ acc, P p) (hbs : ∀ b ∈ bs, P ((cur.add v x b).sortAsc, depth + 1)) :
    ∀ p ∈ (cgChildren v cfg k cur depth x r bestV bs prev seen acc).1, P p := by
  induction bs generalizing prev seen acc with
  | nil => simpa [cgChildren] using hacc
  | cons b bs ih =>
    simp only [cgChildren]
    have hbs' := fun b' hb' => hbs b' (List.mem_cons_of_mem _ hb')
    have hP := hbs b (List.mem_cons_self ..)
    have hacc' : ∀ p ∈ ((cur.add v x b).sortAsc, depth + 1) :: acc, P p := by
      intro p hp; rcases List.mem_cons.1 hp with rfl | hp
      · exact hP
      · exact hacc p hp
    repeat' split
    all_goals first | exact ih _ _ _ hacc hbs' | exact ih _ _ _ hacc' hbs'

/-- the seen-set only grows by keys `(depth + 1, sums of a child)` -/
theorem cgChildren_seen (v : α → Nat) (cfg : CgCfg) (k : Nat) (cur : Bins α) (depth : Nat) (x : α) (r : Nat)
    (bestV : EInt) (Q : Nat × List Nat → Prop) (bs : List Nat) (prev : Option Nat)
    (seen : List (Nat × List Nat)) (acc : List (Bins α × Nat))
    (hseen : ∀ e ∈ seen, Q e) (hbs : ∀ b ∈ bs, Q (depth + 1, (cur.add v x b).sortAsc.sums)) :
    ∀ e ∈ (cgChildren v cfg k cur depth x r bestV bs prev seen acc).2, Q e := by
  induction bs generalizing prev seen acc with
  | nil => simpa [cgChildren] using hseen
  | cons b bs ih =>
    simp only [cgChildren]
    have hbs' := fun b' hb' => hbs b' (List.mem_cons_of_mem _ hb')
    have hQ := hbs b (List.mem_cons_self ..)
    have hseen' : ∀ e ∈ (depth + 1, (cur.add v x b).sortAsc.sums) :: seen, Q e := by
      intro p hp; rcases List.mem_cons.1 hp with rfl | hp
      · exact hQ
      · exact hseen p hp
    repeat' split
    all_goals first | exact ih _ _ _ hseen hbs' | exact ih _ _ _ hseen' hbs'

/-- at most one child per bin index -/
theorem cgChildren_length (v : α → Nat) (cfg : CgCfg) (k : Nat) (cur : Bins α) (depth : Nat) (x : α) (r : Nat)
    (bestV : EInt) (bs : List Nat) (prev : Option Nat)
    (seen : List (Nat × List Nat)) (acc : List (Bins α × Nat)) :
    (cgChildren v cfg k cur depth x r bestV bs prev seen acc).1.length ≤ acc.length + bs.length := by
  induction bs generalizing prev seen acc with
  | nil => simp [cgChildren]
  | cons b bs ih =>
    simp only [cgChildren]
    repeat' split
    all_goals first
      | exact Nat.le_trans (ih _ _ _) (by simp only [List.length_cons]; omega)

/-- everything already accumulated stays -/
theorem cgChildren_acc_length (v : α → Nat) (cfg : CgCfg) (k : Nat) (cur : Bins α) (depth : Nat) (x : α) (r : Nat)
    (bestV : EInt) (bs : List Nat) (prev : Option Nat)
    (seen : List (Nat × List Nat)) (acc : List (Bins α × Nat)) :
    acc.length ≤ (cgChildren v cfg k cur depth x r bestV bs prev seen acc).1.length := by
  induction bs generalizing prev seen acc with
  | nil => simp [cgChildren]
  | cons b bs ih =>
    simp only [cgChildren]
    repeat' split
    all_goals first
      | exact ih _ _ _
      | exact Nat.le_trans (by simp only [List.length_cons]; omega) (ih _ _ _)

/-! ## 1. Safety of interruption (C01, C11) -/

section Safety
variable (v : α → Nat)

/-- `b` is a consistent `k`-bin arrangement of exactly the items `done` -/
def Valid (k : Nat) (b : Bins α) (done : List α) : Prop :=
  b.lists.flatten.Perm done ∧ b.lists.length = k ∧ b.Consistent v

theorem valid_new (k : Nat) : Valid v k (Bins.new k : Bins α) [] :=
  ⟨by rw [new_flat], new_lists_length k, new_consistent v k⟩

theorem valid_add {k : Nat} {b : Bins α} {done : List α} (h : Valid v k b done) (x : α) (i : Nat)
    (hi : i < k) : Valid v k (b.add v x i) (done ++ [x]) := by
  obtain ⟨h1, h2, h3⟩ := h
  refine ⟨?_, by rw [add_lists_length, h2], add_consistent v b x i h3⟩
  refine (add_flat_perm v b x i (by omega)).trans ?_
  exact (List.Perm.cons x h1).trans (List.perm_append_singleton x done).symm

theorem valid_sortAsc {k : Nat} {b : Bins α} {done : List α} (h : Valid v k b done) :
    Valid v k b.sortAsc done := by
  obtain ⟨h1, h2, h3⟩ := h
  have hl := consistent_length v h3
  exact ⟨(sortAsc_flat_perm b hl).trans h1, by rw [sortAsc_lists_length b hl, h2], sortAsc_consistent v b h3⟩

theorem valid_fold0 {k : Nat} (hk : 0 < k) (xs : List α) (b : Bins α) (done : List α)
    (h : Valid v k b done) : Valid v k (xs.foldl (fun b x => b.add v x 0) b) (done ++ xs) := by
  induction xs generalizing b done with
  | nil => simpa using h
  | cons x xs ih =>
    simp only [List.foldl_cons]
    have := ih (b.add v x 0) (done ++ [x]) (valid_add v h x 0 hk)
    simpa using this

theorem valid_sums_length {k : Nat} {b : Bins α} {done : List α} (h : Valid v k b done) :
    b.sums.length = k := by rw [consistent_length v h.2.2, h.2.1]

/-- the invariant of a stack vertex `(bins, depth)` -/
def VInv (k : Nat) (sorted : List α) (p : Bins α × Nat) : Prop :=
  p.2 ≤ sorted.length ∧ Valid v k p.1 (sorted.take p.2)

/-- the safety invariant of the machine state -/
def SInv (k : Nat) (sorted : List α) (s : CgState α) : Prop :=
  (∀ p ∈ s.stack, VInv v k sorted p) ∧ ∀ b, s.best = some b → Valid v k b sorted

theorem vinv_child {k : Nat} {sorted : List α} {cur : Bins α} {depth : Nat} {x : α}
    (hcur : VInv v k sorted (cur, depth)) (hx : sorted[depth]? = some x) (b : Nat) (hb : b < k) :
    VInv v k sorted ((cur.add v x b).sortAsc, depth + 1) := by
  obtain ⟨_, hval⟩ := hcur
  have hlt : depth < sorted.length := by
    rcases List.getElem?_eq_some_iff.1 hx with ⟨h, _⟩; exact h
  refine ⟨hlt, ?_⟩
  have : sorted.take (depth + 1) = sorted.take depth ++ [x] := by
    rw [List.take_add_one, hx]; rfl
  simp only [this]
  exact valid_sortAsc v (valid_add v hval x b hb)

theorem vinv_h3 {k : Nat} (hk : 0 < k) {sorted : List α} {cur : Bins α} {depth : Nat}
    (hcur : VInv v k sorted (cur, depth)) :
    VInv v k sorted (h3Vertex v sorted cur depth, sorted.length) := by
  refine ⟨Nat.le_refl _, ?_⟩
  have := valid_fold0 v hk (sorted.drop depth) cur _ hcur.2
  simp only [List.take_append_drop] at this
  simp only [List.take_length]
  exact valid_sortAsc v this

theorem mem_range_reverse {k b : Nat} (h : b ∈ (List.range k).reverse) : b < k := by
  simpa using h

theorem expandRes_mem (cfg : CgCfg) (k : Nat) (sorted : List α) (s : CgState α) (cur : Bins α) (depth : Nat)
    (x : α) (P : Bins α × Nat → Prop) (hP : ∀ b < k, P ((cur.add v x b).sortAsc, depth + 1)) :
    ∀ p ∈ (expandRes v cfg k sorted s cur depth x).1, P p :=
  cgChildren_mem v cfg k cur depth x _ _ P _ _ _ _ (fun _ hp => by cases hp)
    (fun b hb => hP b (mem_range_reverse hb))

theorem expandRes_seen (cfg : CgCfg) (k : Nat) (sorted : List α) (s : CgState α) (cur : Bins α) (depth : Nat)
    (x : α) (Q : Nat × List Nat → Prop) (hseen : ∀ e ∈ s.seen, Q e)
    (hQ : ∀ b < k, Q (depth + 1, (cur.add v x b).sortAsc.sums)) :
    ∀ e ∈ (expandRes v cfg k sorted s cur depth x).2, Q e :=
  cgChildren_seen v cfg k cur depth x _ _ Q _ _ _ _ hseen (fun b hb => hQ b (mem_range_reverse hb))

theorem expandRes_length (cfg : CgCfg) (k : Nat) (sorted : List α) (s : CgState α) (cur : Bins α) (depth : Nat)
    (x : α) : (expandRes v cfg k sorted s cur depth x).1.length ≤ k := by
  have := cgChildren_length v cfg k cur depth x (remFrom v sorted (depth + 1)) s.bestV
    (List.range k).reverse none s.seen []
  simpa [expandRes] using this

theorem cgStep_sinv {k : Nat} (hk : 0 < k) (cfg : CgCfg) (sorted : List α) (glb : EInt) (s : CgState α)
    (h : SInv v k sorted s) : SInv v k sorted (cgStep v cfg k sorted glb s) := by
  obtain ⟨hst, hbest⟩ := h
  apply cgStep_ind
  · intro _; exact ⟨hst, hbest⟩
  · intro cur rest hs _
    rw [hs] at hst
    refine ⟨fun p hp => hst p (List.mem_cons_of_mem _ hp), ?_⟩
    intro b hb
    simp only [Option.some.injEq] at hb
    subst hb
    have := (hst _ (List.mem_cons_self ..)).2
    simpa using this
  · intro cur rest hs _
    rw [hs] at hst
    exact ⟨fun p hp => hst p (List.mem_cons_of_mem _ hp), hbest⟩
  · intro cur depth rest hs _ _
    rw [hs] at hst
    refine ⟨?_, hbest⟩
    intro p hp
    rcases List.mem_cons.1 hp with rfl | hp
    · exact vinv_h3 v hk (hst _ (List.mem_cons_self ..))
    · exact hst p (List.mem_cons_of_mem _ hp)
  · intro cur depth rest x hs _ _ hx
    rw [hs] at hst
    refine ⟨?_, hbest⟩
    intro p hp
    rcases List.mem_append.1 hp with hp | hp
    · rw [List.mem_reverse] at hp
      exact expandRes_mem v cfg k sorted s cur depth x (VInv v k sorted)
        (fun b hb => vinv_child v (hst _ (List.mem_cons_self ..)) hx b hb) p hp
    · exact hst p (List.mem_cons_of_mem _ hp)
  · intro cur depth rest hs _ _
    rw [hs] at hst
    exact ⟨fun p hp => hst p (List.mem_cons_of_mem _ hp), hbest⟩

/-- one tick of the loop: nothing happens once `done` is set -/
def cgTick (cfg : CgCfg) (k : Nat) (sorted : List α) (glb : EInt) (s : CgState α) : CgState α :=
  if s.done then s else cgStep v cfg k sorted glb s

theorem cgStep_nil {cfg : CgCfg} {k : Nat} {sorted : List α} {glb : EInt} {s : CgState α}
    (h : s.stack = []) : cgStep v cfg k sorted glb s = { s with done := true } := by
  unfold cgStep; rw [h]

theorem cgRun_done {cfg : CgCfg} {k : Nat} {sorted : List α} {glb : EInt} (t : Nat) {s : CgState α}
    (h : s.done = true) : cgRun v cfg k sorted glb t s = s := by
  cases t with
  | zero => rfl
  | succ t => simp only [cgRun, h, if_true]

theorem cgRun_succ_left (cfg : CgCfg) (k : Nat) (sorted : List α) (glb : EInt) (t : Nat) (s : CgState α) :
    cgRun v cfg k sorted glb (t + 1) s = cgRun v cfg k sorted glb t (cgTick v cfg k sorted glb s) := by
  simp only [cgRun, cgTick]
  split
  · rename_i hd; rw [cgRun_done v t hd]
  · split
    · rename_i hs
      rw [cgStep_nil v hs, cgRun_done v t rfl]
    · rfl

theorem cgTick_sinv {k : Nat} (hk : 0 < k) (cfg : CgCfg) (sorted : List α) (glb : EInt) (s : CgState α)
    (h : SInv v k sorted s) : SInv v k sorted (cgTick v cfg k sorted glb s) := by
  unfold cgTick; split
  · exact h
  · exact cgStep_sinv v hk cfg sorted glb s h

/-- generic: an invariant of `cgTick` is an invariant of `cgRun` -/
theorem cgRun_inv (cfg : CgCfg) (k : Nat) (sorted : List α) (glb : EInt) (I : CgState α → Prop)
    (hI : ∀ s, I s → I (cgTick v cfg k sorted glb s)) (t : Nat) (s : CgState α) (h : I s) :
    I (cgRun v cfg k sorted glb t s) := by
  induction t generalizing s with
  | zero => exact h
  | succ t ih => rw [cgRun_succ_left]; exact ih _ (hI s h)

theorem cgInit_sinv (k : Nat) (sorted : List α) : SInv v k sorted (cgInit k : CgState α) := by
  refine ⟨?_, by intro b hb; cases hb⟩
  intro p hp
  simp only [cgInit, List.mem_singleton] at hp
  subst hp
  exact ⟨Nat.zero_le _, by simpa using valid_new v k⟩

theorem cgRun_sinv {k : Nat} (hk : 0 < k) (cfg : CgCfg) (sorted : List α) (glb : EInt) (t : Nat) :
    SInv v k sorted (cgRun v cfg k sorted glb t (cgInit k)) :=
  cgRun_inv v cfg k sorted glb _ (cgTick_sinv v hk cfg sorted glb) t _ (cgInit_sinv v k sorted)

theorem valid_isPartition {k : Nat} {b : Bins α} {items : List α} (h : Valid v k b (sortDesc v items)) :
    IsPartition v items k b :=
  ⟨h.1.trans (sortDesc_perm v items), h.2.1, h.2.2⟩

end Safety

/-- **C01/C11, safety of interruption.**  Whatever the configuration and whenever the clock fires, the
    incumbent that `cg` hands back is a valid partition (or `none`). -/
theorem cg_cut_safe {v : α → Nat} {cfg : CgCfg} {k : Nat} {items : List α} {fuel : Nat} (hk : 0 < k) (c : Nat) :
    ∀ b, cg v cfg k items (some c) fuel = .ok (some b) → IsPartition v items k b := by
  intro b h
  simp only [cg, Except.ok.injEq] at h
  exact valid_isPartition v ((cgRun_sinv v hk cfg _ _ c).2 b h)

/-- **C01.**  A run to completion returns a valid partition (or `none`, excluded by `cg_some_of_no_limit`). -/
theorem cg_result {v : α → Nat} {cfg : CgCfg} {k : Nat} {items : List α} {fuel : Nat} {b : Bins α} (hk : 0 < k) :
    cg v cfg k items none fuel = .ok (some b) → IsPartition v items k b := by
  intro h
  simp only [cg] at h
  split at h
  · simp only [Except.ok.injEq] at h
    exact valid_isPartition v ((cgRun_sinv v hk cfg _ _ fuel).2 b h)
  · cases h

/-! ## 2. Anytime monotonicity (C11) -/

section Anytime
variable (v : α → Nat)

theorem cgRun_succ_right (cfg : CgCfg) (k : Nat) (sorted : List α) (glb : EInt) (c : Nat) (s : CgState α) :
    cgRun v cfg k sorted glb (c + 1) s = cgTick v cfg k sorted glb (cgRun v cfg k sorted glb c s) := by
  induction c generalizing s with
  | zero => rw [cgRun_succ_left]; rfl
  | succ c ih => rw [cgRun_succ_left, ih, ← cgRun_succ_left]

/-- **C11: one more tick = one more step.**  The run with cut `c` is a prefix of the run with cut `c + 1`. -/
theorem cgRun_succ {v : α → Nat} {cfg : CgCfg} {k : Nat} {sorted : List α} {glb : EInt} {c : Nat} {s : CgState α} :
    cgRun v cfg k sorted glb (c + 1) s =
      (let s' := cgRun v cfg k sorted glb c s
       if s'.done then s' else
       match s'.stack with
       | [] => { s' with done := true }
       | _ => cgStep v cfg k sorted glb s') := by
  rw [cgRun_succ_right]
  simp only [cgTick]
  split
  · rfl
  · split
    · rename_i hs; exact cgStep_nil v hs
    · rfl

theorem cgRun_add (cfg : CgCfg) (k : Nat) (sorted : List α) (glb : EInt) (a j : Nat) (s : CgState α) :
    cgRun v cfg k sorted glb (a + j) s = cgRun v cfg k sorted glb j (cgRun v cfg k sorted glb a s) := by
  induction a generalizing s with
  | zero => simp only [Nat.zero_add]; rfl
  | succ a ih =>
    rw [show a + 1 + j = (a + j) + 1 by omega, cgRun_succ_left, ih, ← cgRun_succ_left]

/-- the objective value of an incumbent (`+inf` when there is none) -/
def valOf (cfg : CgCfg) (r : Option (Bins α)) : EInt :=
  match r with
  | none => EInt.posInf
  | some b => EInt.fin (cfg.obj.value b.sums false)

theorem EInt.le_refl (a : EInt) : EInt.le a a = true := by
  cases a <;> simp [EInt.le]

theorem EInt.le_of_lt {a b : EInt} (h : EInt.lt a b = true) : EInt.le a b = true := by
  cases a <;> cases b <;> simp_all [EInt.le, EInt.lt] <;> omega

/-- `best_objective_value` is the value of the incumbent -/
def BInv (cfg : CgCfg) (s : CgState α) : Prop := s.bestV = valOf cfg s.best

theorem cgStep_binv (cfg : CgCfg) (k : Nat) (sorted : List α) (glb : EInt) (s : CgState α)
    (h : BInv cfg s) : BInv cfg (cgStep v cfg k sorted glb s) := by
  apply cgStep_ind
  · intro _; exact h
  · intro cur rest _ _; rfl
  all_goals intros; exact h

theorem cgTick_binv (cfg : CgCfg) (k : Nat) (sorted : List α) (glb : EInt) (s : CgState α)
    (h : BInv cfg s) : BInv cfg (cgTick v cfg k sorted glb s) := by
  unfold cgTick; split
  · exact h
  · exact cgStep_binv v cfg k sorted glb s h

theorem cgRun_binv (cfg : CgCfg) (k : Nat) (sorted : List α) (glb : EInt) (t : Nat) :
    BInv cfg (cgRun v cfg k sorted glb t (cgInit k : CgState α)) :=
  cgRun_inv v cfg k sorted glb _ (cgTick_binv v cfg k sorted glb) t _ rfl

/-- one step never makes the incumbent worse -/
theorem cgStep_mono (cfg : CgCfg) (k : Nat) (sorted : List α) (glb : EInt) (s : CgState α)
    (h : BInv cfg s) :
    EInt.le (valOf cfg (cgStep v cfg k sorted glb s).best) (valOf cfg s.best) = true := by
  apply cgStep_ind v cfg k sorted glb (fun s' => EInt.le (valOf cfg s'.best) (valOf cfg s.best) = true)
  · intro _; exact EInt.le_refl _
  · intro cur rest _ hlt
    rw [h] at hlt
    exact EInt.le_of_lt hlt
  all_goals intros; exact EInt.le_refl _

theorem cgTick_mono (cfg : CgCfg) (k : Nat) (sorted : List α) (glb : EInt) (s : CgState α)
    (h : BInv cfg s) :
    EInt.le (valOf cfg (cgTick v cfg k sorted glb s).best) (valOf cfg s.best) = true := by
  unfold cgTick; split
  · exact EInt.le_refl _
  · exact cgStep_mono v cfg k sorted glb s h

/-- once the machine has stopped (flag set or stack empty) the incumbent no longer changes -/
theorem cgRun_best_of_stopped (cfg : CgCfg) (k : Nat) (sorted : List α) (glb : EInt) (j : Nat) (s : CgState α)
    (h : s.done = true ∨ s.stack = []) : (cgRun v cfg k sorted glb j s).best = s.best := by
  by_cases hd : s.done = true
  · rw [cgRun_done v j hd]
  · rcases h with h | h
    · exact absurd h hd
    · cases j with
      | zero => rfl
      | succ j => simp only [cgRun, hd, h]; rfl

end Anytime

/-- **C11, anytime monotonicity.**  Letting the clock run one tick longer never gives a worse incumbent
    (`+inf` stands for "no solution yet"). -/
theorem cg_cut_monotone {v : α → Nat} {cfg : CgCfg} {k : Nat} {items : List α} {fuel : Nat} (c : Nat) :
    let val := fun (r : Option (Bins α)) =>
      match r with
      | none => EInt.posInf
      | some b => EInt.fin (cfg.obj.value b.sums false)
    ∀ r1 r2, cg v cfg k items (some c) fuel = .ok r1 → cg v cfg k items (some (c + 1)) fuel = .ok r2 →
      EInt.le (val r2) (val r1) = true := by
  intro val r1 r2 h1 h2
  simp only [cg, Except.ok.injEq] at h1 h2
  subst h1 h2
  rw [cgRun_succ_right]
  exact cgTick_mono v cfg k _ _ _ (cgRun_binv v cfg k _ _ c)

/-- **C11.**  The unlimited run equals every sufficiently late cut (`fuel'` is unused when a cut is given). -/
theorem cg_cut_eventually {v : α → Nat} {cfg : CgCfg} {k : Nat} {items : List α} {fuel fuel' : Nat}
    {r : Option (Bins α)} :
    cg v cfg k items none fuel = .ok r → ∃ c, ∀ c' ≥ c, cg v cfg k items (some c') fuel' = .ok r := by
  intro h
  refine ⟨fuel, fun c' hc' => ?_⟩
  simp only [cg] at h ⊢
  split at h
  · rename_i hstop
    simp only [Except.ok.injEq] at h ⊢
    subst h
    obtain ⟨j, rfl⟩ : ∃ j, c' = fuel + j := ⟨c' - fuel, by omega⟩
    rw [cgRun_add]
    apply cgRun_best_of_stopped
    simpa using hstop
  · cases h

end Prtpy.CGValid
