/-
  PrtpyProofs.FF17AbsC — first fit / best fit, absolute bound `#bins ≤ ⌊1.7 · OPT⌋`: the configuration left open by
  `PrtpyProofs.FF17AbsB`, a bin holding a single item `x` with `5·B/12 < x ≤ B/2` (half singleton).
  Everything is proved more generally for a bin `[x]` with `x ≤ B/2` (structure) resp. `B/3 ≤ x ≤ B/2` (loss).

  Structure (bins `Ls` with `Ls.Pairwise (Rel v B)`; run-level versions `ff_…` / `bf_…`):
      singleSmall_count       :  at most one bin holds a single item `≤ B/2`   (so at most one half singleton)
      halfSingleton_unique    :  two such bins `[x]`, `[y]` of the packing are equal
      singleSmall_others      :  every other bin `M` has `B < s(M) + v x`
      singleSmall_later_big   :  every bin after `[x]` starts with an item above `B/2` (is a big bin): `[x]` is the
                                 last of the bins without an item above `B/2` (it need not be the last or next to last
                                 bin of the packing: any number of big bins may follow, e.g. `[9],[9],[4],[9],[9]`)
      singleSmall_earlier     :  every earlier bin `M` has `B < s(M) + v x`
      chain_two_thirds        :  of two bins without big item and with `≥ 2` items, if the earlier one is less than
                                 `2/3` full, the later one is more than `2/3` full
  Loss:
      bins_weight_single      :  `[x] ∈ Ls`, `B/3 ≤ x ≤ B/2`, `n ≥ 2` bins, `K` big bins:
                                 `10·B·n + 1 + (6·B − 12·x)·K ≤ W + 7·B`   (every big bin is more than `B − x` full)
      ff_bound_single / bf_…  :  `10·B·n + (6·B − 12·x)·k < 15·B·m + 2·B·k + 7·B`,  `k = nBig v B items`
      ff_seventeen_tenths_abs_partial3 / bf_…  :  `10 · #bins ≤ 17 · m`  when the output has a bin `[x]`,
                                 `B/3 ≤ x ≤ B/2`, with `7·B ≤ (6·B − 12·x)·k`, i.e. `x ≤ B/2 − 7·B/(12·k)`.
                                 (`x ≤ 5·B/12`: `k ≥ 7` suffices; half singletons: needs `k ≥ 8`.)

  Still open (absolute bound): outputs with a half singleton `[x]`, `x > B/2 − 7·B/(12·k)`, in the residues left by
  FF17Abs; and without a half singleton the cases listed in FF17AbsB.  No unconditional constant below `+ 6`.
-/
import Prtpy
import PrtpyProofs.Fit
import PrtpyProofs.LPT43
import PrtpyProofs.FF17
import PrtpyProofs.FFD
import PrtpyProofs.FF17Abs
import PrtpyProofs.FF17AbsB
open Prtpy

namespace Prtpy.FF17AbsC

open Prtpy.FF17 Prtpy.FF17Abs Prtpy.FF17AbsB

variable {α : Type}

section Bins
variable {v : α → Nat} {B : Nat}

/-! ## 1. The structure around a half singleton -/

/-- the bin holds a single item of at most `B/2` -/
def isSingleSmall (v : α → Nat) (B : Nat) (L : List α) : Bool :=
  match L with
  | [x] => decide (2 * v x ≤ B)
  | _ => false

theorem isSingleSmall_spec (L : List α) (h : isSingleSmall v B L = true) :
    FF17.isBig v B L = false ∧ L.length ≤ 1 := by
  cases L with
  | nil => simp [isSingleSmall] at h
  | cons x t =>
    cases t with
    | nil =>
      simp only [isSingleSmall, decide_eq_true_eq] at h
      refine ⟨?_, by simp⟩
      simp only [FF17.isBig, List.any_cons, List.any_nil, Bool.or_false, decide_eq_false_iff_not]
      omega
    | cons y t' => simp [isSingleSmall] at h

/-- **at most one bin holds a single item of at most `B/2`** (in particular at most one half singleton) -/
theorem singleSmall_count {Ls : List (List α)} (hp : Ls.Pairwise (Rel v B)) :
    (Ls.filter (isSingleSmall v B)).length ≤ 1 :=
  small_count (v := v) (B := B) _ (fun L hL => isSingleSmall_spec L (List.mem_filter.1 hL).2) (hp.filter _)

/-- two half singletons of the same packing hold the same item value… in fact they are the same bin: two
    distinct positions are impossible, so in particular the items coincide -/
theorem halfSingleton_unique {Ls : List (List α)} (hp : Ls.Pairwise (Rel v B)) {x y : α}
    (hx : [x] ∈ Ls) (hy : [y] ∈ Ls) (hx2 : 2 * v x ≤ B) (hy2 : 2 * v y ≤ B) : ([x] : List α) = [y] := by
  apply Classical.byContradiction
  intro hne
  have := pairwise_sum hp hx hy hne
  simp only [binSum, List.map_cons, List.map_nil, sumL] at this
  omega

/-- **every other bin is more than `B − x` full** -/
theorem singleSmall_others {Ls : List (List α)} (hp : Ls.Pairwise (Rel v B)) {x : α} (hx : [x] ∈ Ls)
    {M : List α} (hM : M ∈ Ls) (hne : M ≠ [x]) : B < binSum v M + v x := by
  have := pairwise_sum hp hM hx hne
  simpa [binSum, sumL] using this

/-- **every bin after a bin `[x]` with `x ≤ B/2` starts with an item above `B/2`** (it is a big bin): the bin
    `[x]` is the last of the bins without an item above `B/2` -/
theorem singleSmall_later_big {pre post : List (List α)} {x : α}
    (hp : (pre ++ [x] :: post).Pairwise (Rel v B)) (hx2 : 2 * v x ≤ B) :
    ∀ M ∈ post, (∃ y, M.head? = some y ∧ B < 2 * v y) ∧ FF17.isBig v B M = true := by
  intro M hM
  rw [List.pairwise_append] at hp
  have hr : Rel v B [x] M := (List.pairwise_cons.1 hp.2.1).1 M hM
  obtain ⟨⟨y, hy, hlt⟩, _⟩ := hr
  simp only [binSum, List.map_cons, List.map_nil, sumL] at hlt
  have hbig : B < 2 * v y := by omega
  refine ⟨⟨y, hy, hbig⟩, ?_⟩
  simp only [FF17.isBig, List.any_eq_true, decide_eq_true_eq]
  exact ⟨y, List.mem_of_head? hy, hbig⟩

/-- every bin before `[x]` that has no item above `B/2` and at least two items is more than `B/2` full, and
    more than `B − x` full -/
theorem singleSmall_earlier {pre post : List (List α)} {x : α}
    (hp : (pre ++ [x] :: post).Pairwise (Rel v B)) : ∀ M ∈ pre, B < binSum v M + v x := by
  intro M hM
  rw [List.pairwise_append] at hp
  have hr : Rel v B M [x] := hp.2.2 M hM [x] (by simp)
  obtain ⟨⟨y, hy, hlt⟩, _⟩ := hr
  simp only [List.head?_cons, Option.some.injEq] at hy
  subst hy
  exact hlt

/-- among the bins without an item above `B/2` and with at least two items, at most one is less than `2/3`
    full: a later one starts with two items that do not fit into the earlier one -/
theorem chain_two_thirds {C C' : List α} (hr : Rel v B C C') (hC' : FF17.isBig v B C' = false)
    (h2 : 2 ≤ C'.length) (hs : 3 * binSum v C < 2 * B) : 2 * B < 3 * binSum v C' := by
  obtain ⟨c, c', r, hCeq, hc, hc', hlc, hlc'⟩ := rel_two hr hC' h2
  rw [hCeq]
  simp only [Fit.binSum_cons]
  omega

/-! ## 2. The loss next to a single item between `B/3` and `B/2` -/

/-- big bins that are at least `(6·B + d)/12` full weigh at least `10·B + d` each -/
theorem big_total_ge (d : Nat) : ∀ Ls : List (List α),
    (∀ L ∈ Ls, FF17.isBig v B L = true ∧ 6 * B + d ≤ 12 * binSum v L) →
    d * Ls.length + 10 * (B * Ls.length) ≤ binSum (W v B) Ls.flatten
  | [], _ => by simp
  | M :: Ls, h => by
    have h1 := big_weight' M (h M (by simp)).1
    have h1' := (h M (by simp)).2
    have h2 := big_total_ge d Ls (fun M hM => h M (List.mem_cons_of_mem _ hM))
    simp only [List.length_cons, List.flatten_cons, Fit.binSum_append, Nat.mul_succ]
    omega

/-- **Lemma B next to a bin `[x]` with `B/3 ≤ x ≤ B/2`**: every big bin is more than `B − x` full and pays
    `6·B − 12·x` towards the loss: `10·B·n + (6·B − 12·x)·K < W + 7·B`, `K` the number of big bins -/
theorem bins_weight_single {Ls : List (List α)} (hp : Ls.Pairwise (Rel v B)) (h2 : 2 ≤ Ls.length) (hB : 0 < B)
    {x : α} (hx : [x] ∈ Ls) (hx3 : B ≤ 3 * v x) (hx2 : 2 * v x ≤ B) :
    10 * (B * Ls.length) + 1 + (6 * B - 12 * v x) * (Ls.filter (kBig (v := v) (B := B))).length ≤
      binSum (W v B) Ls.flatten + 7 * B := by
  obtain ⟨hlen, hw⟩ := split_kinds (v := v) (B := B) (W v B) Ls
  have hbigcl : ∀ L ∈ Ls.filter (kBig (v := v) (B := B)), FF17.isBig v B L = true :=
    fun L hL => by simpa [kBig] using (List.mem_filter.1 hL).2
  have hxsmall : kSmall (v := v) (B := B) [x] = true := by
    simp only [kSmall, FF17.isBig, List.any_cons, List.any_nil, Bool.or_false, List.length_cons,
      List.length_nil, Bool.and_eq_true, Bool.not_eq_true', decide_eq_false_iff_not, decide_eq_true_eq]
    omega
  have hxsm : [x] ∈ Ls.filter (kSmall (v := v) (B := B)) := List.mem_filter.2 ⟨hx, hxsmall⟩
  have hbgx : ∀ L ∈ Ls.filter (kBig (v := v) (B := B)), B < binSum v L + v x := by
    intro L hL
    have hLm := List.mem_filter.1 hL
    have hne : L ≠ [x] := by
      rintro rfl
      have h1 := hLm.2
      simp only [kSmall, kBig, Bool.and_eq_true, Bool.not_eq_true'] at h1 hxsmall
      rw [h1] at hxsmall
      simp at hxsmall
    exact singleSmall_others hp hx hLm.1 hne
  have hbigd := big_total_ge (v := v) (B := B) (6 * B - 12 * v x) (Ls.filter (kBig (v := v) (B := B)))
    (fun L hL => ⟨hbigcl L hL, by have := hbgx L hL; omega⟩)
  have hsm := small_count (v := v) (B := B) (Ls.filter (kSmall (v := v) (B := B)))
    (fun L hL => by simpa [kSmall] using (List.mem_filter.1 hL).2) (hp.filter _)
  have hchcl : ∀ L ∈ Ls.filter (kChain (v := v) (B := B)), FF17.isBig v B L = false ∧ 2 ≤ L.length :=
    fun L hL => by simpa [kChain] using (List.mem_filter.1 hL).2
  have hchp : (Ls.filter (kChain (v := v) (B := B))).Pairwise (Rel v B) := hp.filter _
  have hchmem : ∀ L ∈ Ls.filter (kChain (v := v) (B := B)), L ∈ Ls ∧ kChain (v := v) (B := B) L = true :=
    fun L hL => List.mem_filter.1 hL
  have hwx : binSum (W v B) [x] = 12 * v x + B := by
    simp only [binSum, List.map_cons, List.map_nil, sumL, W, wt, bonus, if_neg (Nat.not_lt.2 hx2)]
    omega
  rw [hlen] at h2
  rw [hlen, hw]
  generalize Ls.filter (kBig (v := v) (B := B)) = bg at *
  generalize Ls.filter (kSmall (v := v) (B := B)) = sm at *
  generalize Ls.filter (kChain (v := v) (B := B)) = ch at *
  simp only [Nat.mul_add]
  match sm, hsm, hxsm, h2 with
  | [S], _, hxsm, h2 =>
    have hS : S = [x] := (List.mem_singleton.1 hxsm).symm
    subst hS
    simp only [List.length_cons, List.length_nil, List.flatten_cons, List.flatten_nil, List.append_nil]
    rw [hwx]
    by_cases hch : ch = []
    · subst hch
      have h0 : binSum (W v B) ([] : List α) = 0 := rfl
      simp only [List.length_nil, List.flatten_nil, List.length_cons, h0] at h2 hbigd ⊢
      omega
    · obtain ⟨L', hL', hcw⟩ := chain_weight ch hch hchcl hchp
      have hL := hchmem L' hL'
      have hne : L' ≠ [x] := by
        rintro rfl
        have h3 := hL.2
        simp only [kChain, Bool.and_eq_true, decide_eq_true_eq] at h3
        simp at h3
      have hsum := singleSmall_others hp hx hL.1 hne
      omega

end Bins

/-! ## 3. Runs: the loss next to a single item between `B/3` and `B/2`, and the absolute bound when that item
       is not too close to `B/2` -/

theorem inv2_bound_single {v : α → Nat} {B m : Nat} {items : List α} {b : Bins α} (h : Inv2 v B items b)
    (hm : Packable B m (items.map v)) (h2 : 2 ≤ b.lists.length) {x : α}
    (hx : [x] ∈ b.lists) (hx3 : B ≤ 3 * v x) (hx2 : 2 * v x ≤ B) :
    10 * (B * b.lists.length) + (6 * B - 12 * v x) * nBig v B items <
      15 * (B * m) + 2 * (B * nBig v B items) + 7 * B := by
  have hp := h.pairwise
  have hB : 0 < B := by
    apply Nat.pos_of_ne_zero
    intro hB
    have := one_bin_of_zero h hB
    omega
  have hO := packable_weight_le_count hm
  have hK : nBig v B items ≤ (b.lists.filter (kBig (v := v) (B := B))).length := by
    have := nBig_le_bigbins (v := v) (B := B) b.lists (fun L hL => h.inv.le _ (by
      rw [h.inv.cons]; exact List.mem_map.2 ⟨L, hL, rfl⟩))
    have hk : nBig v B b.lists.flatten = nBig v B items := h.inv.perm.countP_eq _
    omega
  have hdK := Nat.mul_le_mul_left (6 * B - 12 * v x) hK
  have hW := bins_weight_single hp h2 hB hx hx3 hx2
  rw [Fit.binSum_perm h.inv.perm] at hW
  omega

/-- **the absolute bound next to a single item `x`, `B/3 ≤ x ≤ B/2`, that is not too close to `B/2`**:
    `7·B ≤ (6·B − 12·x)·k`, i.e. `x ≤ B/2 − 7·B/(12·k)`, `k` the number of items above `B/2`.
    For a half singleton (`x > 5·B/12`) this needs `k ≥ 8`. -/
theorem inv2_abs_single {v : α → Nat} {B m : Nat} {items : List α} {b : Bins α} (h : Inv2 v B items b)
    (hne : items ≠ []) (hm : Packable B m (items.map v)) {x : α}
    (hx : [x] ∈ b.lists) (hx3 : B ≤ 3 * v x) (hx2 : 2 * v x ≤ B)
    (hk : 7 * B ≤ (6 * B - 12 * v x) * nBig v B items) : 10 * b.lists.length ≤ 17 * m := by
  have hm1 : 1 ≤ m := FFD.packable_pos hm (by simpa using hne)
  by_cases h2 : 2 ≤ b.lists.length
  · have hB : 0 < B := by
      apply Nat.pos_of_ne_zero
      intro hB
      have := one_bin_of_zero h hB
      omega
    have h1 := inv2_bound_single h hm h2 hx hx3 hx2
    have hkm : B * nBig v B items ≤ B * m := Nat.mul_le_mul_left B (nBig_le hm)
    have h3 : B * (10 * b.lists.length) < B * (17 * m) := by
      rw [Nat.mul_left_comm, Nat.mul_left_comm B 17 m]
      omega
    have := Nat.lt_of_mul_lt_mul_left h3
    omega
  · omega

variable {v : α → Nat} {B m : Nat} {items : List α} {b : Bins α}

/-- first fit: a bin `[x]` with `B/3 ≤ x ≤ B/2` in the output: `10·B·n + (6·B − 12·x)·k < B·(15·m + 2·k + 7)` -/
theorem ff_bound_single (hok : ffOnline v B items = .ok b)
    (hm : Packable B m (items.map v)) (h2 : 2 ≤ b.lists.length) {x : α}
    (hx : [x] ∈ b.lists) (hx3 : B ≤ 3 * v x) (hx2 : 2 * v x ≤ B) :
    10 * (B * b.lists.length) + (6 * B - 12 * v x) * nBig v B items <
      15 * (B * m) + 2 * (B * nBig v B items) + 7 * B :=
  inv2_bound_single (ffOnline_inv2 hok) hm h2 hx hx3 hx2

theorem bf_bound_single (hok : bfOnline v B items = .ok b)
    (hm : Packable B m (items.map v)) (h2 : 2 ≤ b.lists.length) {x : α}
    (hx : [x] ∈ b.lists) (hx3 : B ≤ 3 * v x) (hx2 : 2 * v x ≤ B) :
    10 * (B * b.lists.length) + (6 * B - 12 * v x) * nBig v B items <
      15 * (B * m) + 2 * (B * nBig v B items) + 7 * B :=
  inv2_bound_single (bfOnline_inv2 hok) hm h2 hx hx3 hx2

/- The requested statement (still open in general):
     theorem ff_seventeen_tenths_abs (hne : items ≠ []) (hok : ffOnline v B items = .ok b)
         (hm : Packable B m (items.map v)) : 10 * b.lists.length ≤ 17 * m
   Proved here: the same conclusion when the output has a bin `[x]`, `B/3 ≤ x ≤ B/2`, with
   `7·B ≤ (6·B − 12·x)·nBig` (this includes half singletons, `x > 5·B/12`, when `nBig ≥ 8` and `x` is not too
   close to `B/2`). -/
theorem ff_seventeen_tenths_abs_partial3 (hne : items ≠ []) (hok : ffOnline v B items = .ok b)
    (hm : Packable B m (items.map v)) {x : α} (hx : [x] ∈ b.lists) (hx3 : B ≤ 3 * v x) (hx2 : 2 * v x ≤ B)
    (hk : 7 * B ≤ (6 * B - 12 * v x) * nBig v B items) : 10 * b.lists.length ≤ 17 * m :=
  inv2_abs_single (ffOnline_inv2 hok) hne hm hx hx3 hx2 hk

theorem bf_seventeen_tenths_abs_partial3 (hne : items ≠ []) (hok : bfOnline v B items = .ok b)
    (hm : Packable B m (items.map v)) {x : α} (hx : [x] ∈ b.lists) (hx3 : B ≤ 3 * v x) (hx2 : 2 * v x ≤ B)
    (hk : 7 * B ≤ (6 * B - 12 * v x) * nBig v B items) : 10 * b.lists.length ≤ 17 * m :=
  inv2_abs_single (bfOnline_inv2 hok) hne hm hx hx3 hx2 hk

/-- the structure around a bin `[x]`, `x ≤ B/2`, of a first-fit run: it is the only such bin, every other bin
    is more than `B − x` full -/
theorem ff_singleSmall_structure (hok : ffOnline v B items = .ok b) {x : α} (hx : [x] ∈ b.lists) :
    (b.lists.filter (isSingleSmall v B)).length ≤ 1 ∧
    ∀ M ∈ b.lists, M ≠ [x] → B < binSum v M + v x :=
  ⟨singleSmall_count (ffOnline_inv2 hok).pairwise,
    fun _ hM hne => singleSmall_others (ffOnline_inv2 hok).pairwise hx hM hne⟩

theorem bf_singleSmall_structure (hok : bfOnline v B items = .ok b) {x : α} (hx : [x] ∈ b.lists) :
    (b.lists.filter (isSingleSmall v B)).length ≤ 1 ∧
    ∀ M ∈ b.lists, M ≠ [x] → B < binSum v M + v x :=
  ⟨singleSmall_count (bfOnline_inv2 hok).pairwise,
    fun _ hM hne => singleSmall_others (bfOnline_inv2 hok).pairwise hx hM hne⟩

/-- every bin of a first-fit / best-fit run after a bin `[x]`, `x ≤ B/2`, is a big bin -/
theorem ff_singleSmall_later_big (hok : ffOnline v B items = .ok b) {pre post : List (List α)} {x : α}
    (hb : b.lists = pre ++ [x] :: post) (hx2 : 2 * v x ≤ B) :
    ∀ M ∈ post, (∃ y, M.head? = some y ∧ B < 2 * v y) ∧ FF17.isBig v B M = true := by
  have hp := (ffOnline_inv2 hok).pairwise
  rw [hb] at hp
  exact singleSmall_later_big hp hx2

theorem bf_singleSmall_later_big (hok : bfOnline v B items = .ok b) {pre post : List (List α)} {x : α}
    (hb : b.lists = pre ++ [x] :: post) (hx2 : 2 * v x ≤ B) :
    ∀ M ∈ post, (∃ y, M.head? = some y ∧ B < 2 * v y) ∧ FF17.isBig v B M = true := by
  have hp := (bfOnline_inv2 hok).pairwise
  rw [hb] at hp
  exact singleSmall_later_big hp hx2

/-! ## 4. Non-vacuity -/

/-- four items of size 9 and one of size 4, `B = 12`: the bin `[4]` (`x = B/3`), `k = 4`, `7·12 ≤ (72 − 48)·4` -/
def ex94 : List Nat := [9, 9, 9, 9, 4]
theorem ex94_ff : ffOnline id 12 ex94 = .ok ⟨[9, 9, 9, 9, 4], [[9], [9], [9], [9], [4]]⟩ := rfl
theorem ex94_bf : bfOnline id 12 ex94 = .ok ⟨[9, 9, 9, 9, 4], [[9], [9], [9], [9], [4]]⟩ := rfl
theorem ex94_packable : Packable 12 5 (ex94.map id) := ⟨[0, 1, 2, 3, 4], ⟨rfl, by decide⟩, by decide⟩

example : 10 * 5 ≤ 17 * 5 :=
  ff_seventeen_tenths_abs_partial3 (x := 4) (by decide) ex94_ff ex94_packable (by simp) (by decide) (by decide)
    (by decide)
example : 10 * 5 ≤ 17 * 5 :=
  bf_seventeen_tenths_abs_partial3 (x := 4) (by decide) ex94_bf ex94_packable (by simp) (by decide) (by decide)
    (by decide)
example : 10 * (12 * 5) + (6 * 12 - 12 * 4) * nBig id 12 ex94 < 15 * (12 * 5) + 2 * (12 * nBig id 12 ex94) + 7 * 12 :=
  ff_bound_single (x := 4) ex94_ff ex94_packable (by decide) (by simp) (by decide) (by decide)
example : 10 * (12 * 5) + (6 * 12 - 12 * 4) * nBig id 12 ex94 < 15 * (12 * 5) + 2 * (12 * nBig id 12 ex94) + 7 * 12 :=
  bf_bound_single (x := 4) ex94_bf ex94_packable (by decide) (by simp) (by decide) (by decide)

/-- a half singleton (`x = 11`, `B = 24`, `5·24 < 12·11`) with fourteen items above `B/2`: `7·24 ≤ (144 − 132)·14` -/
def exHS : List Nat := List.replicate 14 14 ++ [11]
theorem exHS_ff : ffOnline id 24 exHS = .ok ⟨List.replicate 14 14 ++ [11], List.replicate 14 [14] ++ [[11]]⟩ := rfl
theorem exHS_packable : Packable 24 15 (exHS.map id) := ⟨List.range 15, ⟨rfl, by decide⟩, by decide⟩
example : HalfSingleton id 24 (List.replicate 14 [14] ++ [[11]]) := ⟨11, by simp, by decide, by decide⟩
example : 10 * 15 ≤ 17 * 15 :=
  ff_seventeen_tenths_abs_partial3 (x := 11) (by decide) exHS_ff exHS_packable (by simp) (by decide) (by decide)
    (by decide)

/-- the structure lemmas on the run `[5, 5, 6]`, `B = 12` (bins `[5, 5]`, `[6]`; `[6]` is a half singleton) -/
theorem ex556_ff : ffOnline id 12 [5, 5, 6] = .ok ⟨[10, 6], [[5, 5], [6]]⟩ := rfl
example := ff_singleSmall_structure (x := 6) ex556_ff (by simp)
example := bf_singleSmall_structure (v := id) (B := 12) (items := [5, 5, 6]) (b := ⟨[10, 6], [[5, 5], [6]]⟩)
  (x := 6) rfl (by simp)
example := ff_singleSmall_later_big (pre := [[9], [9]]) (post := [[9], [9]]) (x := 4)
  (v := id) (B := 12) (items := [9, 9, 4, 9, 9]) (b := ⟨[9, 9, 4, 9, 9], [[9], [9], [4], [9], [9]]⟩) rfl rfl (by decide)
example := bf_singleSmall_later_big (pre := [[9], [9]]) (post := [[9], [9]]) (x := 4)
  (v := id) (B := 12) (items := [9, 9, 4, 9, 9]) (b := ⟨[9, 9, 4, 9, 9], [[9], [9], [4], [9], [9]]⟩) rfl rfl (by decide)
example : ([6] : List Nat) = [6] :=
  halfSingleton_unique (v := id) (B := 12) (ffOnline_inv2 ex556_ff).pairwise (x := 6) (y := 6) (by simp) (by simp)
    (by decide) (by decide)
example := singleSmall_earlier (v := id) (B := 12) (pre := [[5, 5]]) (post := []) (x := 6)
  (ffOnline_inv2 ex556_ff).pairwise
example : 2 * 12 < 3 * binSum id [6, 6] :=
  chain_two_thirds (v := id) (B := 12) (C := [4, 3]) (C' := [6, 6])
    ⟨⟨6, rfl, by decide⟩, fun x y r h _ => by cases h; decide⟩ (by decide) (by decide) (by decide)
example := bins_weight_single (v := id) (B := 12) (ffOnline_inv2 ex94_ff).pairwise (by decide) (by decide)
  (x := 4) (by simp) (by decide) (by decide)


end Prtpy.FF17AbsC

/-
Axiom audit (`#print axioms`, observed with Lean 4.33.0):

#print axioms Prtpy.FF17AbsC.ff_seventeen_tenths_abs_partial3         -- [propext, Classical.choice, Quot.sound]
#print axioms Prtpy.FF17AbsC.bf_seventeen_tenths_abs_partial3         -- [propext, Classical.choice, Quot.sound]
#print axioms Prtpy.FF17AbsC.ff_bound_single                          -- [propext, Classical.choice, Quot.sound]
#print axioms Prtpy.FF17AbsC.bf_bound_single                          -- [propext, Classical.choice, Quot.sound]
#print axioms Prtpy.FF17AbsC.ff_singleSmall_structure                 -- [propext, Classical.choice, Quot.sound]
#print axioms Prtpy.FF17AbsC.bf_singleSmall_structure                 -- [propext, Classical.choice, Quot.sound]
#print axioms Prtpy.FF17AbsC.ff_singleSmall_later_big                 -- [propext, Classical.choice, Quot.sound]
#print axioms Prtpy.FF17AbsC.bf_singleSmall_later_big                 -- [propext, Classical.choice, Quot.sound]
#print axioms Prtpy.FF17AbsC.singleSmall_count                        -- [propext, Classical.choice, Quot.sound]
#print axioms Prtpy.FF17AbsC.halfSingleton_unique                     -- [propext, Classical.choice, Quot.sound]
#print axioms Prtpy.FF17AbsC.singleSmall_earlier                      -- [propext, Quot.sound]
#print axioms Prtpy.FF17AbsC.chain_two_thirds                         -- [propext, Quot.sound]
#print axioms Prtpy.FF17AbsC.bins_weight_single                       -- [propext, Classical.choice, Quot.sound]
-/
