/-
  PrtpyProofs.FFD119GapC — property C09, third instalment: tools for the upper sub-range `B/5 < a ≤ B/4` of the gap
  (continues `PrtpyProofs.FFD119Gap`, `PrtpyProofs.FFD119GapB`; same notation).

  STATUS.  `GapCountHigh B m c` for every `m` is NOT proved here (it contains Johnson's tight family; no weighting
  was found and validated in the time available, see the notes at the end of `FFD119GapB`).  What checks:

    §1  the sub-range `B < 5a`: every bin of the run and every group of the optimum holds at most four items
        (`high_group_length_le_four`, `nf_bin_length_le_four`, `high_item_count`), four items always fill a bin above
        `B − a` (`four_items_full`), the class of a first item is `t ≤ 4` (`head_class_high`), at most three bins
        are irregular (`nf_irregular_le_three`, `run_side_deficit_high`), `regular_bin_high`
    §2  the optimum's side as a case split (`opt_split_four`): a bound `hi` for every duplicate-free collection that
        fits into one bin follows from the bound for the collections with 1, 2, 3 and 4 pairwise different items
    §3  decorated items and the greedy property: the decorated item at position `0` of a bin is its first item
        (`mk_head`), the other ones come from the tail (`mk_tail`); two different decorated first items `e`, `e'` of a
        normal form with `e.val + e'.val ≤ B`: one of the two bins has a second item, which is at least as large as the
        first item of the other bin (`deco_heads_partner`)
    §4  `gapCountHigh_of_weights`: the counting statement of the sub-range from a weighting, with the run's side
        discharged: a rule `wts` under which every regular bin weighs `≥ 9u` and every bin `≥ 9u − d`, and the bound
        `11u` for collections with at most four items, give `9·(k' + 1) ≤ 11·m + c` for `3d + 9u ≤ c·u`
-/
import Prtpy
import PrtpyProofs.Fit
import PrtpyProofs.FF17
import PrtpyProofs.FFD
import PrtpyProofs.FFD119
import PrtpyProofs.FFD119Gap
import PrtpyProofs.FFD119GapB
open Prtpy

namespace Prtpy.FFD119GapC

open Prtpy.FFD119 Prtpy.FFD119Gap Prtpy.FFD119GapB

/-! ## 1. The sub-range `B < 5a` -/

/-- items `≥ a > B/5` that fit into one bin: at most four -/
theorem high_group_length_le_four {B a : Nat} {L : List Nat} (h5 : B < 5 * a) (hge : ∀ y ∈ L, a ≤ y)
    (hle : sumL L ≤ B) : L.length ≤ 4 := by
  have h1 := length_mul_le_sumL L hge
  apply Nat.le_of_not_lt
  intro h
  have h2 : 5 * a ≤ L.length * a := Nat.mul_le_mul_right a h
  omega

theorem nf_bin_length_le_four {B a : Nat} {Ls : List (List Nat)} (hnf : NF B a Ls) (h5 : B < 5 * a)
    {L : List Nat} (hL : L ∈ Ls) : L.length ≤ 4 :=
  high_group_length_le_four h5 (hnf.ge L hL) (hnf.le L hL)

/-- `#items ≤ 4·m` -/
theorem high_item_count {B a m : Nat} {vals : List Nat} (h5 : B < 5 * a) (hge : ∀ y ∈ vals, a ≤ y)
    (hm : Packable B m vals) : vals.length ≤ 4 * m := by
  obtain ⟨Q, hk, hp, hT⟩ := LPT43.packable_partition hm
  rw [← hp.length_eq, ← hk]
  apply length_flatten_le 4 Q
  intro l hl
  apply high_group_length_le_four h5 _ (hT l hl)
  intro y hy
  exact hge y (hp.mem_iff.1 (List.mem_flatten.2 ⟨l, hl, hy⟩))

/-- four items `≥ a > B/5` fill a bin above `B − a` -/
theorem four_items_full {B a : Nat} {L : List Nat} (h5 : B < 5 * a) (hge : ∀ y ∈ L, a ≤ y) (h4 : 4 ≤ L.length) :
    B < sumL L + a := by
  have h1 := length_mul_le_sumL L hge
  have h2 : 4 * a ≤ L.length * a := Nat.mul_le_mul_right a h4
  omega

/-- the first item of a bin has a class `t ≤ 4` -/
theorem head_class_high {B a x : Nat} (h5 : B < 5 * a) (hx : a ≤ x) (hxB : x ≤ B) :
    ∃ t, 1 ≤ t ∧ t ≤ 4 ∧ B < (t + 1) * x ∧ t * x ≤ B := by
  by_cases h2 : B < 2 * x
  · exact ⟨1, by omega, by omega, by omega, by omega⟩
  · by_cases h3 : B < 3 * x
    · exact ⟨2, by omega, by omega, by omega, by omega⟩
    · by_cases h4 : B < 4 * x
      · exact ⟨3, by omega, by omega, by omega, by omega⟩
      · exact ⟨4, by omega, by omega, by omega, by omega⟩

/-- irregular of one of the classes `2, 3, 4` -/
def irrHigh (B : Nat) (L : List Nat) : Bool := irr B 2 L || irr B 3 L || irr B 4 L

/-- at most three bins of a normal form are irregular of a class `≤ 4` -/
theorem nf_irregular_le_three {B a : Nat} {Ls : List (List Nat)} (hnf : NF B a Ls) :
    Ls.countP (irrHigh B) ≤ 3 := by
  have h2 := nf_irr_count (t := 2) hnf (by omega)
  have h3 := nf_irr_count (t := 3) hnf (by omega)
  have h4 := nf_irr_count (t := 4) hnf (by omega)
  have e2 := countP_or_le (fun L => irr B 2 L || irr B 3 L) (irr B 4) Ls
  have e3 := countP_or_le (irr B 2) (irr B 3) Ls
  have : Ls.countP (irrHigh B) = Ls.countP (fun L => (irr B 2 L || irr B 3 L) || irr B 4 L) := rfl
  omega

/-- a bin that is not irregular, in the sub-range: class `t ≤ 4` and at least `t` items above `B/(t+1)` -/
theorem regular_bin_high {B a : Nat} {Ls : List (List Nat)} (hnf : NF B a Ls) (h5 : B < 5 * a) (haB : a ≤ B)
    {L : List Nat} (hL : L ∈ Ls) (hreg : irrHigh B L = false) :
    ∃ x r t, L = x :: r ∧ 1 ≤ t ∧ t ≤ 4 ∧ B < (t + 1) * x ∧ t * x ≤ B ∧ t ≤ L.countP (big B t) := by
  match L, nf_bin_ne_nil hnf haB hL, hL, hreg with
  | x :: r, _, hL, hreg =>
    have hx := hnf.ge _ hL x (by simp)
    have hle := hnf.le _ hL
    simp only [sumL] at hle
    obtain ⟨t, t1, t4, c1, c2⟩ := head_class_high h5 hx (by omega)
    refine ⟨x, r, t, rfl, t1, t4, c1, c2, ?_⟩
    apply Nat.le_of_not_lt
    intro hlt
    have hirr : irr B t (x :: r) = true := by
      simp only [irr, Bool.and_eq_true, decide_eq_true_eq]
      exact ⟨⟨c1, c2⟩, hlt⟩
    simp only [irrHigh, Bool.or_eq_false_iff] at hreg
    have h1 := irr_one B (x :: r)
    have ht : t = 1 ∨ t = 2 ∨ t = 3 ∨ t = 4 := by omega
    rcases ht with rfl | rfl | rfl | rfl
    · rw [h1] at hirr; cases hirr
    · rw [hreg.1.1] at hirr; cases hirr
    · rw [hreg.1.2] at hirr; cases hirr
    · rw [hreg.2] at hirr; cases hirr

/-- if only the irregular bins have a deficit (`d` each), the total deficit is at most `3·d` -/
theorem run_side_deficit_high {B a : Nat} {Ls : List (List Nat)} (hnf : NF B a Ls) (d : Nat) :
    sumL (Ls.map fun L => if irrHigh B L then d else 0) ≤ 3 * d := by
  have hc := nf_irregular_le_three hnf
  have hs : ∀ Ms : List (List Nat),
      sumL (Ms.map fun L => if irrHigh B L then d else 0) = d * Ms.countP (irrHigh B) := by
    intro Ms
    induction Ms with
    | nil => simp [sumL]
    | cons L Ms ih =>
      simp only [List.map_cons, sumL, ih, List.countP_cons]
      by_cases hp : irrHigh B L = true
      · simp only [hp, if_true, Nat.mul_add, Nat.mul_one]; omega
      · simp only [hp, Bool.false_eq_true, if_false, Nat.add_zero]; omega
  rw [hs, Nat.mul_comm 3 d]
  exact Nat.mul_le_mul_left d hc

/-! ## 2. The optimum's side as a case split over at most four items -/

/-- **case split**: if all decorated items under consideration (`P`) have value `≥ a > B/5`, the bound `hi` for the
    duplicate-free collections that fit into one bin follows from the bound for one, two, three and four pairwise
    different items -/
theorem opt_split_four {B a hi : Nat} (h5 : B < 5 * a) (P : DItem → Prop) (hP : ∀ e, P e → a ≤ e.val)
    (h1 : ∀ e, P e → e.val ≤ B → e.wt ≤ hi)
    (h2 : ∀ e1 e2, P e1 → P e2 → e1 ≠ e2 → e1.val + e2.val ≤ B → e1.wt + e2.wt ≤ hi)
    (h3 : ∀ e1 e2 e3, P e1 → P e2 → P e3 → e1 ≠ e2 → e1 ≠ e3 → e2 ≠ e3 → e1.val + e2.val + e3.val ≤ B →
      e1.wt + e2.wt + e3.wt ≤ hi)
    (h4 : ∀ e1 e2 e3 e4, P e1 → P e2 → P e3 → P e4 → e1 ≠ e2 → e1 ≠ e3 → e1 ≠ e4 → e2 ≠ e3 → e2 ≠ e4 → e3 ≠ e4 →
      e1.val + e2.val + e3.val + e4.val ≤ B → e1.wt + e2.wt + e3.wt + e4.wt ≤ hi)
    (T : List DItem) (hnd : T.Nodup) (hT : ∀ e ∈ T, P e) (hs : binSum DItem.val T ≤ B) :
    binSum DItem.wt T ≤ hi := by
  match T, hnd, hT, hs with
  | [], _, _, _ => simp [binSum, sumL]
  | [e], _, hT, hs =>
    simp only [binSum, List.map_cons, List.map_nil, sumL] at hs ⊢
    have := h1 e (hT e (by simp)) (by omega)
    omega
  | [e1, e2], hnd, hT, hs =>
    simp only [List.nodup_cons, List.mem_cons, List.not_mem_nil, or_false] at hnd
    simp only [binSum, List.map_cons, List.map_nil, sumL] at hs ⊢
    have := h2 e1 e2 (hT e1 (by simp)) (hT e2 (by simp)) hnd.1 (by omega)
    omega
  | [e1, e2, e3], hnd, hT, hs =>
    simp only [List.nodup_cons, List.mem_cons, List.not_mem_nil, or_false, not_or] at hnd
    simp only [binSum, List.map_cons, List.map_nil, sumL] at hs ⊢
    have := h3 e1 e2 e3 (hT e1 (by simp)) (hT e2 (by simp)) (hT e3 (by simp)) hnd.1.1 hnd.1.2 hnd.2.1 (by omega)
    omega
  | [e1, e2, e3, e4], hnd, hT, hs =>
    simp only [List.nodup_cons, List.mem_cons, List.not_mem_nil, or_false, not_or] at hnd
    simp only [binSum, List.map_cons, List.map_nil, sumL] at hs ⊢
    have := h4 e1 e2 e3 e4 (hT e1 (by simp)) (hT e2 (by simp)) (hT e3 (by simp)) (hT e4 (by simp))
      hnd.1.1 hnd.1.2.1 hnd.1.2.2 hnd.2.1.1 hnd.2.1.2 hnd.2.2.1 (by omega)
    omega
  | e1 :: e2 :: e3 :: e4 :: e5 :: r, _, hT, hs =>
    have a1 := hP e1 (hT e1 (by simp))
    have a2 := hP e2 (hT e2 (by simp))
    have a3 := hP e3 (hT e3 (by simp))
    have a4 := hP e4 (hT e4 (by simp))
    have a5 := hP e5 (hT e5 (by simp))
    simp only [binSum, List.map_cons, sumL] at hs
    omega

/-! ## 3. Decorated items and the greedy property -/

/-- the decorated item at position `p` of `mk i p (x :: xs) ws` is the first one -/
theorem mk_head {i p : Nat} {x : Nat} {xs ws : List Nat} {e : DItem} (he : e ∈ mk i p (x :: xs) ws)
    (hp : e.pos = p) : e.val = x := by
  match ws, he with
  | [], he =>
    simp only [mk, List.mem_cons] at he
    rcases he with rfl | he
    · rfl
    · have := (mk_tag i (p + 1) xs [] e he).2; omega
  | w :: ws', he =>
    simp only [mk, List.mem_cons] at he
    rcases he with rfl | he
    · rfl
    · have := (mk_tag i (p + 1) xs ws' e he).2; omega

/-- the value of a decorated item of a bin is an item of the bin -/
theorem mk_val_mem (i : Nat) : ∀ (p : Nat) (L ws : List Nat), ∀ e ∈ mk i p L ws, e.val ∈ L
  | _, [], _, e, he => by simp [mk] at he
  | p, x :: xs, [], e, he => by
    simp only [mk, List.mem_cons] at he
    rcases he with rfl | he
    · simp
    · exact List.mem_cons_of_mem _ (mk_val_mem i (p + 1) xs [] e he)
  | p, x :: xs, w :: ws, e, he => by
    simp only [mk, List.mem_cons] at he
    rcases he with rfl | he
    · simp
    · exact List.mem_cons_of_mem _ (mk_val_mem i (p + 1) xs ws e he)

/-- two decorated items of the same bin at the starting position are equal -/
theorem mk_pos_unique {i p : Nat} {L ws : List Nat} {e e' : DItem} (he : e ∈ mk i p L ws)
    (he' : e' ∈ mk i p L ws) (hp : e.pos = p) (hp' : e'.pos = p) : e = e' := by
  match L, ws, he, he' with
  | [], _, he, _ => simp [mk] at he
  | x :: xs, [], he, he' =>
    simp only [mk, List.mem_cons] at he he'
    rcases he with rfl | he
    · rcases he' with rfl | he'
      · rfl
      · have := (mk_tag i (p + 1) xs [] e' he').2; omega
    · have := (mk_tag i (p + 1) xs [] e he).2; omega
  | x :: xs, w :: ws', he, he' =>
    simp only [mk, List.mem_cons] at he he'
    rcases he with rfl | he
    · rcases he' with rfl | he'
      · rfl
      · have := (mk_tag i (p + 1) xs ws' e' he').2; omega
    · have := (mk_tag i (p + 1) xs ws' e he).2; omega

/-- **the greedy property for decorated first items**: two different decorated items of a normal form, both at
    position `0` of their bins, whose values fit together into one bin: one of the two bins has a second item, and
    this item is at least as large as the first item of the other bin -/
theorem deco_heads_partner {B a : Nat} {Ls : List (List Nat)} (hnf : NF B a Ls) (wts : List Nat → List Nat)
    {e e' : DItem} (he : e ∈ deco wts 0 Ls) (he' : e' ∈ deco wts 0 Ls) (hne : e ≠ e')
    (hp : e.pos = 0) (hp' : e'.pos = 0) (hfit : e.val + e'.val ≤ B) :
    (∃ y r, e.val :: y :: r ∈ Ls ∧ e'.val ≤ y) ∨ (∃ y r, e'.val :: y :: r ∈ Ls ∧ e.val ≤ y) := by
  rcases deco_mem2 wts 0 Ls hnf.rel e he e' he' with
    ⟨L, hL, j, h1, h2⟩ | ⟨L, hL, L', hL', j, j', hr, h1, h2⟩ | ⟨L, hL, L', hL', j, j', hr, h1, h2⟩
  · -- the same bin: two items at position `0` of the same bin are equal
    exact absurd (mk_pos_unique h1 h2 hp hp') hne
  · left
    match L, L', h1, h2, hL, hL', hr with
    | [], _, h1, _, _, _, _ => simp [mk] at h1
    | _ :: _, [], _, h2, _, _, _ => simp [mk] at h2
    | x :: r, z :: r', h1, h2, hL, hL', hr =>
      have e1 := mk_head h1 hp
      have e2 := mk_head h2 hp'
      obtain ⟨y, r₂, h3, h4⟩ := vrel_second_ge hr (by omega)
      subst h3
      exact ⟨y, r₂, by rw [e1]; exact hL, by omega⟩
  · right
    match L, L', h1, h2, hL, hL', hr with
    | [], _, h1, _, _, _, _ => simp [mk] at h1
    | _ :: _, [], _, h2, _, _, _ => simp [mk] at h2
    | x :: r, z :: r', h1, h2, hL, hL', hr =>
      have e1 := mk_head h1 hp'
      have e2 := mk_head h2 hp
      obtain ⟨y, r₂, h3, h4⟩ := vrel_second_ge hr (by omega)
      subst h3
      exact ⟨y, r₂, by rw [e1]; exact hL, by omega⟩

/-! ## 4. The counting statement of the sub-range from a weighting, run's side discharged -/

/-- **`GapCountHigh` from a weighting**: on a normal form with `B/5 < a ≤ B/4`, a rule `wts` (unit `1/u`) under which
    every regular bin weighs at least `9u` and every bin at least `9u − d`, and the bound `11u` for the collections of
    one to four pairwise different decorated items that fit into one bin, give `9·(k' + 1) ≤ 11·m + c` as soon as
    `3·d + 9·u ≤ c·u` -/
theorem gapCountHigh_of_weights {B a m u wa d c : Nat} {Ls : List (List Nat)} (hu : 0 < u)
    (hnf : NF B a Ls) (h5 : B < 5 * a) (wts : List Nat → List Nat)
    (hreg : ∀ L ∈ Ls, irrHigh B L = false → 9 * u ≤ binWt wts L)
    (hirr : ∀ L ∈ Ls, 9 * u ≤ binWt wts L + d)
    (hc : 3 * d + 9 * u ≤ c * u)
    (hval : ∀ e ∈ decoNF wts a wa Ls, a ≤ e.val)
    (h1 : ∀ e, e ∈ decoNF wts a wa Ls → e.val ≤ B → e.wt ≤ 11 * u)
    (h2 : ∀ e1 e2, e1 ∈ decoNF wts a wa Ls → e2 ∈ decoNF wts a wa Ls → e1 ≠ e2 → e1.val + e2.val ≤ B →
      e1.wt + e2.wt ≤ 11 * u)
    (h3 : ∀ e1 e2 e3, e1 ∈ decoNF wts a wa Ls → e2 ∈ decoNF wts a wa Ls → e3 ∈ decoNF wts a wa Ls →
      e1 ≠ e2 → e1 ≠ e3 → e2 ≠ e3 → e1.val + e2.val + e3.val ≤ B → e1.wt + e2.wt + e3.wt ≤ 11 * u)
    (h4 : ∀ e1 e2 e3 e4, e1 ∈ decoNF wts a wa Ls → e2 ∈ decoNF wts a wa Ls → e3 ∈ decoNF wts a wa Ls →
      e4 ∈ decoNF wts a wa Ls → e1 ≠ e2 → e1 ≠ e3 → e1 ≠ e4 → e2 ≠ e3 → e2 ≠ e4 → e3 ≠ e4 →
      e1.val + e2.val + e3.val + e4.val ≤ B → e1.wt + e2.wt + e3.wt + e4.wt ≤ 11 * u)
    (hm : Packable B m (Ls.flatten ++ [a])) : 9 * (Ls.length + 1) ≤ 11 * m + c := by
  have hdef := run_side_deficit_high hnf d
  refine gapCount_of_weights (u := u) (wa := wa) hu wts (fun L => if irrHigh B L then d else 0) ?_ (by omega) ?_ hm
  · intro L hL
    by_cases hi : irrHigh B L = true
    · simp only [hi, if_true]; exact hirr L hL
    · have := hreg L hL (by simpa using hi)
      simp only [hi, Bool.false_eq_true, if_false]; omega
  · intro T hnd hT hs
    exact opt_split_four h5 (fun e => e ∈ decoNF wts a wa Ls) hval h1 h2 h3 h4 T hnd hT hs

/-! ## 5. Non-vacuity -/

example : ([26, 23, 23, 23] : List Nat).length ≤ 4 := nf_bin_length_le_four ex_nf (by decide) (by simp)

example : ([[51, 27], [26, 23, 23, 23]].flatten ++ [23]).length ≤ 4 * 3 :=
  high_item_count (a := 23) (by decide) (by decide) ex_nf_packable

example : 100 < sumL [26, 23, 23, 23] + 23 := four_items_full (by decide) (by decide) (by decide)

example : ∃ t, 1 ≤ t ∧ t ≤ 4 ∧ 100 < (t + 1) * 26 ∧ t * 26 ≤ 100 :=
  head_class_high (a := 23) (by decide) (by decide) (by decide)

example : [[51, 27], [26, 23, 23, 23]].countP (irrHigh 100) ≤ 3 := nf_irregular_le_three ex_nf

example : ∃ x r t, [51, 27] = x :: r ∧ 1 ≤ t ∧ t ≤ 4 ∧ 100 < (t + 1) * x ∧ t * x ≤ 100 ∧
    t ≤ [51, 27].countP (big 100 t) :=
  regular_bin_high ex_nf (by decide) (by decide) (by simp) (by decide)

example : sumL ([[51, 27], [26, 23, 23, 23]].map fun L => if irrHigh 100 L then 18 else 0) ≤ 3 * 18 :=
  run_side_deficit_high ex_nf 18

/-- the two decorated first items `51` and `26` of the normal form fit together (`77 ≤ 100`): the bin of `51` has a
    second item (`27`), at least `26` -/
example : (∃ y r, (51 : Nat) :: y :: r ∈ [[51, 27], [26, 23, 23, 23]] ∧ 26 ≤ y) ∨
    (∃ y r, (26 : Nat) :: y :: r ∈ [[51, 27], [26, 23, 23, 23]] ∧ 51 ≤ y) :=
  deco_heads_partner ex_nf (wts2 100 23) (e := ⟨51, 48, 0, 0⟩) (e' := ⟨26, 24, 1, 0⟩) (by decide) (by decide)
    (by decide) rfl rfl (by decide)

/-- a rule for the example: `[x, y] ↦ 52, 20`, every other item `18` (units of `1/72`) -/
def exW : List Nat → List Nat
  | [_, _] => [52, 20]
  | L => L.map fun _ => 18

/-- `gapCountHigh_of_weights` on the normal form `[[51, 27], [26, 23, 23, 23]]`, `a = 23`, with the rule `exW` and
    `u = 8`: both bins weigh `72 = 9u`, no deficit (`c = 9`); a collection that fits weighs at most `88 = 11u`
    (`{51, 26, 23}`: `52 + 18 + 18`) -/
example : 9 * (2 + 1) ≤ 11 * 3 + 9 := by
  have hD : decoNF exW 23 18 [[51, 27], [26, 23, 23, 23]] =
      [⟨51, 52, 0, 0⟩, ⟨27, 20, 0, 1⟩, ⟨26, 18, 1, 0⟩, ⟨23, 18, 1, 1⟩, ⟨23, 18, 1, 2⟩, ⟨23, 18, 1, 3⟩,
        ⟨23, 18, 2, 0⟩] := by decide
  have hw : ∀ e ∈ decoNF exW 23 18 [[51, 27], [26, 23, 23, 23]],
      (e.wt ≤ 18 ∧ 23 ≤ e.val) ∨ (e.wt = 20 ∧ e.val = 27) ∨ (e.wt = 52 ∧ e.val = 51) := by
    intro e he
    rw [hD] at he
    simp only [List.mem_cons, List.not_mem_nil, or_false] at he
    rcases he with rfl | rfl | rfl | rfl | rfl | rfl | rfl <;> decide
  refine gapCountHigh_of_weights (B := 100) (a := 23) (m := 3) (u := 8) (wa := 18) (d := 0) (c := 9)
    (by decide) ex_nf (by decide) exW ?_ ?_ (by decide) ?_ ?_ ?_ ?_ ?_ ex_nf_packable
  · intro L hL _
    simp only [List.mem_cons, List.not_mem_nil, or_false] at hL
    rcases hL with rfl | rfl <;> decide
  · intro L hL
    simp only [List.mem_cons, List.not_mem_nil, or_false] at hL
    rcases hL with rfl | rfl <;> decide
  · intro e he
    have := hw e he
    omega
  · intro e he hv
    have := hw e he
    omega
  · intro e1 e2 he1 he2 _ hv
    have := hw e1 he1
    have := hw e2 he2
    omega
  · intro e1 e2 e3 he1 he2 he3 _ _ _ hv
    have := hw e1 he1
    have := hw e2 he2
    have := hw e3 he3
    omega
  · intro e1 e2 e3 e4 he1 he2 he3 he4 _ _ _ _ _ _ hv
    have := hw e1 he1
    have := hw e2 he2
    have := hw e3 he3
    have := hw e4 he4
    omega

end Prtpy.FFD119GapC

/-
Axiom audit (`#print axioms`, observed with Lean 4.33.0):
#print axioms Prtpy.FFD119GapC.high_group_length_le_four   -- [propext, Quot.sound]
#print axioms Prtpy.FFD119GapC.nf_bin_length_le_four   -- [propext, Quot.sound]
#print axioms Prtpy.FFD119GapC.high_item_count   -- [propext, Classical.choice, Quot.sound]
#print axioms Prtpy.FFD119GapC.four_items_full   -- [propext, Quot.sound]
#print axioms Prtpy.FFD119GapC.head_class_high   -- [propext, Quot.sound]
#print axioms Prtpy.FFD119GapC.nf_irregular_le_three   -- [propext, Classical.choice, Quot.sound]
#print axioms Prtpy.FFD119GapC.regular_bin_high   -- [propext, Quot.sound]
#print axioms Prtpy.FFD119GapC.run_side_deficit_high   -- [propext, Classical.choice, Quot.sound]
#print axioms Prtpy.FFD119GapC.opt_split_four   -- [propext, Quot.sound]
#print axioms Prtpy.FFD119GapC.mk_head   -- [propext, Classical.choice, Quot.sound]
#print axioms Prtpy.FFD119GapC.mk_val_mem   -- [propext]
#print axioms Prtpy.FFD119GapC.mk_pos_unique   -- [propext, Classical.choice, Quot.sound]
#print axioms Prtpy.FFD119GapC.deco_heads_partner   -- [propext, Classical.choice, Quot.sound]
#print axioms Prtpy.FFD119GapC.gapCountHigh_of_weights   -- [propext, Classical.choice, Quot.sound]
-/
