import Prtpy
import PrtpyProofs.Part
import PrtpyProofs.Cover
import PrtpyProofs.Textbook
import PrtpyProofs.Checkers
import PrtpyProofs.Cover23
import Mathlib.Tactic.Ring
open Prtpy

namespace Prtpy.Cover34

variable {α : Type}

/-! ## 1. The weight profile: a three-step staircase -/

/-- the weight profile (argument: six times the value): three steps of length `c`, starting at `0`, `p`, `2p` -/
def stair (c p z : Nat) : Nat := min z c + min (z - p) c + min (z - 2 * p) c

/-- weight of an item -/
def wt (v : α → Nat) (c p : Nat) (y : α) : Nat := stair c p (6 * v y)

section Stair
variable {c p B : Nat}

theorem stair_subadd (h1 : c ≤ p) (a b : Nat) : stair c p (a + b) ≤ stair c p a + stair c p b := by
  unfold stair; omega

theorem stair_full (h1 : c ≤ p) (h2 : c + 2 * p = 6 * B) {z : Nat} (hz : 6 * B ≤ z) :
    stair c p z = 3 * c := by
  unfold stair; omega

theorem stair_le (z : Nat) : stair c p z ≤ 3 * c := by
  unfold stair; omega

theorem stair_sumL (h1 : c ≤ p) : ∀ g : List Nat,
    stair c p (6 * sumL g) ≤ sumL (g.map fun z => stair c p (6 * z))
  | [] => by simp [sumL, stair]
  | z :: g => by
    have ih := stair_sumL h1 g
    have := stair_subadd h1 (6 * z) (6 * sumL g)
    simp only [sumL, List.map_cons, Nat.mul_add]
    omega

theorem group_weight (h1 : c ≤ p) (h2 : c + 2 * p = 6 * B) {g : List Nat} (hg : B ≤ sumL g) :
    3 * c ≤ sumL (g.map fun z => stair c p (6 * z)) := by
  have := stair_sumL h1 g
  rw [stair_full h1 h2 (by omega)] at this
  exact this

theorem groups_weight (h1 : c ≤ p) (h2 : c + 2 * p = 6 * B) (G : List (List Nat))
    (hG : ∀ g ∈ G, B ≤ sumL g) :
    G.length * (3 * c) ≤ sumL (G.flatten.map fun z => stair c p (6 * z)) := by
  induction G with
  | nil => simp
  | cons g G ih =>
    have h3 := group_weight h1 h2 (hG g List.mem_cons_self)
    have h4 := ih (fun g' hg' => hG g' (List.mem_cons_of_mem _ hg'))
    simp only [List.flatten_cons, List.map_append, Cover.sumL_append, List.length_cons, Nat.add_mul, Nat.one_mul]
    omega

end Stair

section Weights
variable {v : α → Nat} {c p B : Nat}

theorem binSum_wt_eq (items : List α) :
    binSum (wt v c p) items = sumL ((items.map v).map fun z => stair c p (6 * z)) := by
  simp only [binSum, List.map_map]
  rfl

/-- the optimum's side: a cover with `m` bins weighs at least `3c·m` -/
theorem coverableL_weight (h1 : c ≤ p) (h2 : c + 2 * p = 6 * B) {items : List α} {m : Nat}
    (h : Cover.CoverableL B m (items.map v)) : m * (3 * c) ≤ binSum (wt v c p) items := by
  obtain ⟨G, rfl, hG, rest, hp⟩ := h
  rw [binSum_wt_eq, ← Cover.sumL_perm (hp.map _), List.map_append, Cover.sumL_append]
  have := groups_weight h1 h2 G hG
  omega

/-- every item weighs at most `3c` -/
theorem wt_le (y : α) : wt v c p y ≤ 3 * c := stair_le _

/-- a small item weighs `min (6·value) c` -/
theorem wt_small (h1 : c ≤ p) (h2 : c + 2 * p = 6 * B) {z : α} (hz : 3 * v z < B) :
    wt v c p z ≤ 6 * v z ∧ wt v c p z ≤ c := by
  unfold wt stair; omega

/-- a medium item weighs `c + (6·value − p)` -/
theorem wt_medium (h1 : c ≤ p) (h2 : c + 2 * p = 6 * B) {y : α} (hy : B ≤ 3 * v y ∧ 2 * v y < B) :
    wt v c p y = c + (6 * v y - p) := by
  unfold wt stair; omega

/-- a big item at or above the threshold `2p` -/
theorem wt_big_above (h2 : c + 2 * p = 6 * B) {x : α} (hx : 2 * p ≤ 6 * v x) :
    wt v c p x + 2 * p ≤ 2 * c + 6 * v x := by
  unfold wt stair; omega

/-- a big item at or below the threshold `2p` -/
theorem wt_big_below {x : α} (hx : 6 * v x ≤ 2 * p) : wt v c p x ≤ 2 * c := by
  unfold wt stair; omega

/-- in the regime `c = p = 2B` the weight is (six times) the value, capped at `B` -/
theorem wt_cap (h2 : c + 2 * p = 6 * B) (hc : c = 2 * B) (y : α) : wt v c p y ≤ 6 * v y := by
  unfold wt stair; omega

theorem binSum_wt_small (h1 : c ≤ p) (h2 : c + 2 * p = 6 * B) : ∀ (l : List α), (∀ z ∈ l, 3 * v z < B) →
    binSum (wt v c p) l ≤ 6 * binSum v l
  | [], _ => by simp [binSum, sumL]
  | z :: l, h => by
    have := (wt_small (v := v) h1 h2 (h z List.mem_cons_self)).1
    have := binSum_wt_small h1 h2 l (fun y hy => h y (List.mem_cons_of_mem _ hy))
    simp only [Cover.binSum_cons]
    omega

theorem binSum_wt_cap (h2 : c + 2 * p = 6 * B) (hc : c = 2 * B) : ∀ (l : List α),
    binSum (wt v c p) l ≤ 6 * binSum v l
  | [] => by simp [binSum, sumL]
  | z :: l => by
    have := wt_cap (v := v) h2 hc z
    have := binSum_wt_cap h2 hc l
    simp only [Cover.binSum_cons]
    omega

end Weights

/-! ## 2. The next-fit phases -/

section NF
variable {v : α → Nat} {B : Nat}

theorem nfCover_nil (cur : List α) : Textbook.nfCover v B cur [] = [] := by
  simp [Textbook.nfCover]

theorem nfCover_cons (cur : List α) (x : α) (xs : List α) :
    Textbook.nfCover v B cur (x :: xs) =
      if B ≤ binSum v (cur ++ [x]) then (cur ++ [x]) :: Textbook.nfCover v B [] xs
      else Textbook.nfCover v B (cur ++ [x]) xs := by
  simp [Textbook.nfCover]

theorem binSum_snoc (cur : List α) (x : α) : binSum v (cur ++ [x]) = binSum v cur + v x := by
  rw [Cover.binSum_append, Cover.binSum_cons, Cover.binSum_nil]; omega

theorem nfCover_append : ∀ (l₁ l₂ cur : List α),
    Textbook.nfCover v B cur (l₁ ++ l₂) =
      Textbook.nfCover v B cur l₁ ++ Textbook.nfCover v B (Textbook.nfRest v B cur l₁) l₂
  | [], l₂, cur => by simp [nfCover_nil, Textbook.nfRest]
  | x :: l₁, l₂, cur => by
    simp only [List.cons_append, nfCover_cons, Textbook.nfRest]
    split
    · rw [nfCover_append l₁ l₂ []]; simp
    · rw [nfCover_append l₁ l₂ (cur ++ [x])]

/-- next-fit on small items: every closed bin has `3·sum < 4B`, what is left over is below `B` -/
theorem nf_small : ∀ (l cur : List α), (∀ z ∈ l, 3 * v z < B) → binSum v cur < B →
    3 * (binSum v cur + binSum v l) < 4 * (B * (Textbook.nfCover v B cur l).length) + 3 * B
  | [], cur, _, hc => by
    simp only [nfCover_nil, Cover.binSum_nil, List.length_nil]; omega
  | x :: l, cur, h, hc => by
    have hx := h x List.mem_cons_self
    have hl : ∀ z ∈ l, 3 * v z < B := fun z hz => h z (List.mem_cons_of_mem _ hz)
    rw [nfCover_cons, binSum_snoc, Cover.binSum_cons]
    split
    · have ih := nf_small l [] hl (by rw [Cover.binSum_nil]; omega)
      rw [Cover.binSum_nil] at ih
      rw [List.length_cons, Nat.mul_succ]
      generalize B * (Textbook.nfCover v B [] l).length = K at *
      omega
    · have ih := nf_small l (cur ++ [x]) hl (by rw [binSum_snoc]; omega)
      rw [binSum_snoc] at ih
      generalize B * (Textbook.nfCover v B (cur ++ [x]) l).length = K at *
      omega

/-- next-fit on big items, weighted: two big items below the threshold per bin -/
theorem nf_big {c p : Nat} : ∀ (X cur : List α), X.Pairwise (fun a b => v b ≤ v a) →
    (∀ x ∈ X, B ≤ 2 * v x) → (∀ x ∈ X, v x < B → 6 * v x ≤ 2 * p) →
    binSum (wt v c p) X ≤ 4 * (c * (Textbook.nfCover v B cur X).length) + 2 * c ∧
    ((∀ x ∈ X, v x < B) → B ≤ 2 * binSum v cur →
      binSum (wt v c p) X ≤ 4 * (c * (Textbook.nfCover v B cur X).length))
  | [], cur, _, _, _ => by simp [nfCover_nil, Cover.binSum_nil]
  | x :: xs, cur, hs, hb, hu => by
    rw [List.pairwise_cons] at hs
    obtain ⟨hx, hs'⟩ := hs
    have hb' : ∀ y ∈ xs, B ≤ 2 * v y := fun y hy => hb y (List.mem_cons_of_mem _ hy)
    have hu' : ∀ y ∈ xs, v y < B → 6 * v y ≤ 2 * p := fun y hy => hu y (List.mem_cons_of_mem _ hy)
    have hxb := hb x List.mem_cons_self
    have ih0 := nf_big (c := c) (p := p) xs [] hs' hb' hu'
    have ih1 := nf_big (c := c) (p := p) xs (cur ++ [x]) hs' hb' hu'
    have hw3 : wt v c p x ≤ 3 * c := wt_le x
    rw [nfCover_cons, binSum_snoc, Cover.binSum_cons]
    refine ⟨?_, ?_⟩
    · by_cases hhuge : B ≤ v x
      · rw [if_pos (by omega), List.length_cons, Nat.mul_succ]
        have := ih0.1
        generalize c * (Textbook.nfCover v B [] xs).length = K at *
        omega
      · have hw2 : wt v c p x ≤ 2 * c := wt_big_below (hu x List.mem_cons_self (by omega))
        have hall : ∀ y ∈ xs, v y < B := fun y hy => by have := hx y hy; omega
        split
        · rw [List.length_cons, Nat.mul_succ]
          have := ih0.1
          generalize c * (Textbook.nfCover v B [] xs).length = K at *
          omega
        · have := ih1.2 hall (by rw [binSum_snoc]; omega)
          generalize c * (Textbook.nfCover v B (cur ++ [x]) xs).length = K at *
          omega
    · intro hall hcur
      have hxB := hall x List.mem_cons_self
      have hw2 : wt v c p x ≤ 2 * c := wt_big_below (hu x List.mem_cons_self hxB)
      rw [if_pos (by omega), List.length_cons, Nat.mul_succ]
      have := ih0.1
      generalize c * (Textbook.nfCover v B [] xs).length = K at *
      omega

/-- next-fit on medium items: at most three per bin -/
theorem nf_med_count : ∀ (Y cur : List α), (∀ y ∈ Y, B ≤ 3 * v y) →
    Y.length ≤ 3 * (Textbook.nfCover v B cur Y).length + 2 ∧
    (B ≤ 3 * binSum v cur → Y.length ≤ 3 * (Textbook.nfCover v B cur Y).length + 1) ∧
    (2 * B ≤ 3 * binSum v cur → Y.length ≤ 3 * (Textbook.nfCover v B cur Y).length)
  | [], cur, _ => by simp
  | y :: ys, cur, h => by
    have hy := h y List.mem_cons_self
    have h' : ∀ z ∈ ys, B ≤ 3 * v z := fun z hz => h z (List.mem_cons_of_mem _ hz)
    have ih0 := nf_med_count ys [] h'
    have ih1 := nf_med_count ys (cur ++ [y]) h'
    rw [binSum_snoc] at ih1
    rw [nfCover_cons, binSum_snoc]
    split
    · simp only [List.length_cons]
      have := ih0.1
      refine ⟨by omega, fun _ => by omega, fun _ => by omega⟩
    · simp only [List.length_cons]
      refine ⟨?_, fun hc => ?_, fun hc => ?_⟩
      · have := ih1.2.1 (by omega); omega
      · have := ih1.2.2 (by omega); omega
      · omega

end NF

/-! ## 3. The parameters, read off the items that are left when the small items have run out -/

section Final
variable {v : α → Nat} {B : Nat}

/-- the largest big item below `B` (the first such item of a non-increasing list) -/
def bigThr (v : α → Nat) (B : Nat) : List α → Nat
  | [] => 0
  | x :: X => if v x < B then v x else bigThr v B X

/-- the second medium item -/
def medThr (v : α → Nat) : List α → Nat
  | _ :: y :: _ => v y
  | _ => 0

/-- the budget for the one medium pair that straddles the middle step: the excess of the largest medium item -/
def phiY (v : α → Nat) (p : Nat) : List α → Nat
  | [] => 0
  | y :: _ => 6 * v y - p

/-- the step threshold `2p` is met by every opening that precedes the state `(X, Y)`:
    either the regime is "capped size", or `2p/6` is at most a remaining big item, or it is at most
    `6y − 2B ≤ 2y` for a remaining medium item `y` that is not the first one -/
def Inv (v : α → Nat) (B c p : Nat) (X Y : List α) : Prop :=
  c = 2 * B ∨ (∃ x ∈ X, 2 * p ≤ 6 * v x) ∨ (∃ y ∈ Y.tail, 2 * p + 12 * B ≤ 36 * v y)

theorem bigThr_ge : ∀ (X : List α), X.Pairwise (fun a b => v b ≤ v a) →
    ∀ x ∈ X, v x < B → v x ≤ bigThr v B X
  | [], _, _, hx, _ => by simp at hx
  | a :: X, hs, x, hx, hxB => by
    rw [List.pairwise_cons] at hs
    simp only [bigThr]
    rcases List.mem_cons.1 hx with rfl | hx'
    · rw [if_pos hxB]
    · split
      · exact hs.1 x hx'
      · exact bigThr_ge X hs.2 x hx' hxB

theorem bigThr_mem : ∀ (X : List α), bigThr v B X = 0 ∨ ∃ x ∈ X, bigThr v B X = v x ∧ v x < B
  | [] => Or.inl rfl
  | a :: X => by
    simp only [bigThr]
    split
    · rename_i h; exact Or.inr ⟨a, List.mem_cons_self, rfl, h⟩
    · rcases bigThr_mem X with h | ⟨x, hx, e, hB⟩
      · exact Or.inl h
      · exact Or.inr ⟨x, List.mem_cons_of_mem _ hx, e, hB⟩

theorem medThr_ge (Y : List α) (hs : Y.Pairwise (fun a b => v b ≤ v a)) :
    ∀ y ∈ Y.tail, v y ≤ medThr v Y := by
  intro y hy
  match Y, hs, hy with
  | [_], _, hy => simp at hy
  | a :: b :: Y', hs, hy =>
    simp only [List.tail_cons] at hy
    simp only [medThr]
    rw [List.pairwise_cons, List.pairwise_cons] at hs
    rcases List.mem_cons.1 hy with rfl | hy'
    · exact Nat.le_refl _
    · exact hs.2.1 y hy'

theorem medThr_mem (Y : List α) : medThr v Y = 0 ∨ ∃ y ∈ Y.tail, medThr v Y = v y := by
  match Y with
  | [] => exact Or.inl rfl
  | [_] => exact Or.inl rfl
  | a :: b :: Y' => exact Or.inr ⟨b, by simp, rfl⟩

theorem phiY_le {c p : Nat} (h2 : c + 2 * p = 6 * B) (Y : List α) (hm : ∀ y ∈ Y, 2 * v y < B) :
    2 * phiY v p Y ≤ c := by
  cases Y with
  | nil => simp [phiY]
  | cons y Y => have := hm y List.mem_cons_self; simp only [phiY]; omega

/-- the medium items, weighted: all but the first weigh at most `4c/3` -/
theorem binSum_wt_med {c p : Nat} (h1 : c ≤ p) (h2 : c + 2 * p = 6 * B) (Y : List α)
    (hm : ∀ y ∈ Y, B ≤ 3 * v y ∧ 2 * v y < B) (hu : ∀ y ∈ Y.tail, 18 * v y ≤ p + 6 * B) :
    3 * binSum (wt v c p) Y ≤ 4 * (c * Y.length) + 3 * phiY v p Y := by
  cases Y with
  | nil => simp [Cover.binSum_nil, phiY]
  | cons y ys =>
    have hy := wt_medium (v := v) h1 h2 (hm y List.mem_cons_self)
    have htail : ∀ (l : List α), (∀ z ∈ l, B ≤ 3 * v z ∧ 2 * v z < B) → (∀ z ∈ l, 18 * v z ≤ p + 6 * B) →
        3 * binSum (wt v c p) l ≤ 4 * (c * l.length) := by
      intro l
      induction l with
      | nil => intros; simp [Cover.binSum_nil]
      | cons z l ih =>
        intro hm' hu'
        have hz := wt_medium (v := v) h1 h2 (hm' z List.mem_cons_self)
        have hz2 := hu' z List.mem_cons_self
        have := ih (fun w hw => hm' w (List.mem_cons_of_mem _ hw)) (fun w hw => hu' w (List.mem_cons_of_mem _ hw))
        rw [Cover.binSum_cons, List.length_cons, Nat.mul_succ]
        omega
    have := htail ys (fun z hz => hm z (List.mem_cons_of_mem _ hz)) (by simpa using hu)
    rw [Cover.binSum_cons, List.length_cons, Nat.mul_succ]
    simp only [phiY]
    omega

/-- **The last phase** (no small items left): parameters `c, p` for which the remaining big and medium items
    weigh at most `4c` per bin that next-fit makes of them, up to `14c/3` and the medium budget. -/
theorem finalW (hB : 0 < B) (cur X Y : List α) (hsX : X.Pairwise (fun a b => v b ≤ v a))
    (hbX : ∀ x ∈ X, B ≤ 2 * v x) (hsY : Y.Pairwise (fun a b => v b ≤ v a))
    (hmY : ∀ y ∈ Y, B ≤ 3 * v y ∧ 2 * v y < B) :
    ∃ c p, 0 < c ∧ c ≤ p ∧ c + 2 * p = 6 * B ∧ Inv v B c p X Y ∧
      3 * binSum (wt v c p) (X ++ Y) ≤
        12 * (c * (Textbook.nfCover v B cur (X ++ Y)).length) + 14 * c + 3 * phiY v p Y := by
  -- the thresholds
  have ht := bigThr_mem (v := v) (B := B) X
  have htge := bigThr_ge (v := v) (B := B) X hsX
  have hy := medThr_mem (v := v) Y
  have hyge := medThr_ge Y hsY
  have hy2 : 2 * medThr v Y < B := by
    rcases hy with h | ⟨y, hy, e⟩
    · omega
    · have := (hmY y (List.mem_of_mem_tail hy)).2; omega
  have ht2 : bigThr v B X < B := by
    rcases ht with h | ⟨x, _, e, h⟩ <;> omega
  generalize htdef : bigThr v B X = t at *
  generalize hydef : medThr v Y = y2 at *
  refine ⟨6 * B - 2 * max (2 * B) (max (3 * t) (18 * y2 - 6 * B)), max (2 * B) (max (3 * t) (18 * y2 - 6 * B)),
    by omega, by omega, by omega, ?_, ?_⟩
  · -- the invariant
    unfold Inv
    rcases ht with h | ⟨x, hx, e, _⟩
    · rcases hy with h' | ⟨y, hy, e'⟩
      · left; omega
      · by_cases hc : 18 * y2 - 6 * B ≤ 2 * B
        · left; omega
        · right; right; exact ⟨y, hy, by omega⟩
    · rcases hy with h' | ⟨y, hy, e'⟩
      · by_cases hc : 3 * t ≤ 2 * B
        · left; omega
        · right; left; exact ⟨x, hx, by omega⟩
      · by_cases hc : 3 * t ≤ 2 * B ∧ 18 * y2 - 6 * B ≤ 2 * B
        · left; omega
        · by_cases hc2 : 18 * y2 - 6 * B ≤ 3 * t
          · right; left; exact ⟨x, hx, by omega⟩
          · right; right; exact ⟨y, hy, by omega⟩
  · -- the weights
    generalize hp : max (2 * B) (max (3 * t) (18 * y2 - 6 * B)) = p
    have h1 : 6 * B - 2 * p ≤ p := by omega
    have h2 : 6 * B - 2 * p + 2 * p = 6 * B := by omega
    generalize hc : 6 * B - 2 * p = c at *
    rw [nfCover_append, List.length_append, Cover.binSum_append]
    have hX := (nf_big (c := c) (p := p) X cur hsX hbX
      (fun x hx hxB => by have := htge x hx hxB; omega)).1
    have hYc := (nf_med_count Y (Textbook.nfRest v B cur X) (fun y hy => (hmY y hy).1)).1
    have hYw := binSum_wt_med h1 h2 Y hmY (fun y hy => by have := hyge y hy; omega)
    have hmul : c * Y.length ≤ c * (3 * (Textbook.nfCover v B (Textbook.nfRest v B cur X) Y).length + 2) :=
      Nat.mul_le_mul_left _ hYc
    rw [Nat.mul_add, Nat.mul_left_comm] at hmul
    rw [Nat.mul_add]
    generalize c * (Textbook.nfCover v B cur X).length = K1 at *
    generalize c * (Textbook.nfCover v B (Textbook.nfRest v B cur X) Y).length = K2 at *
    generalize c * Y.length = K3 at *
    omega

end Final

end Prtpy.Cover34
