/-
  PrtpyProofs.Cover34 — property C10 for the three-quarters bin-covering algorithm
  (`cflz_covering.threequarters`, the "Improved Simple Heuristic" of Csirik, Frenk, Labbé, Zhang 1999):

      if `m` bins can be covered at all, then   3 * m ≤ 4 * ALG + 9     (requested: `+ 16`),
      i.e.  ALG ≥ 3/4 · OPT − 9/4.

  Proof: one weighting argument with a *three-step staircase* (the two-step profile `phi` of Cover23 with one
  more step).  For parameters `c ≤ p`, `c + 2p = 6B` let

      σ(z) = min z c + min (z ∸ p) c + min (z ∸ 2p) c
             (slope 1 on [0,c], [p,p+c], [2p,2p+c = 6B], flat in between and afterwards)

  and give the item `y` the weight `σ (6·v y)`.  `σ` is sub-additive (`stair_subadd`, by `omega`) and
  `σ z = 3c` for `z ≥ 6B`, so every collection of items whose values total `≥ B` weighs `≥ 3c`
  (`group_weight`); no case distinction on the shape of the optimum's bins is needed.  A small item weighs
  `min (6v) c`, a medium item `c + (6v ∸ p)`, a big item at most `2c` if `6v ≤ 2p` and at most
  `2c + 6v − 2p` if `6v ≥ 2p`.  For `c = p = 2B` the weight is the value capped at `B`.

  On the algorithm's side (`Textbook.threeClass`, `Textbook.threeQuarters_eq_spec`) the parameters are read off
  the state in which the small items have run out (`finalW`): with `t` the largest remaining big item below `B`
  and `y₂` the second largest remaining medium item,

      p = max (2B) (3t) (18·y₂ − 6B),   c = 6B − 2p          ("γ = min(B/3, B − t, 3(B − 2y₂))", c = 6γ).

  Then in the last phase (next-fit on big, then medium items) two big items weigh `≤ 4c`, three medium items
  (all but the largest one) weigh `≤ 4c` (`nf_big`, `nf_med_count`, `binSum_wt_med`); every opening of the main
  phase has value `≥ 2p/6` (`Inv`: the openings are non-increasing, and `2p/6` is at most the value of a later
  opening), so a bin "opening + small items", which was below `B` before its last item, weighs
  `≤ (2c + 6·opening − 2p) + 6·(others) + c < 4c` (`opening_facts`).  The single pair of medium items that
  straddles the middle step `p` is paid by the budget `phiY ≤ c/2`.  If the big and medium items run out first,
  `c = p = 2B` and every bin has (capped) sum `< 4B/3` (`nf_small`).  Altogether (`mainW`)

      3·weight(items) ≤ 12c·ALG + 26c + 3·phiY,   2·phiY ≤ c,   3c·m ≤ weight(items),

  hence `18m ≤ 24·ALG + 55`, i.e. `3m ≤ 4·ALG + 9`.

  Deliverables: (i) structure of the run: `opening_cases`, `threeClass_main_step`, `main_bin_sum`,
  `threeClass_nilZ`, `threeClass_nilXY`, `nf_small`, `nf_big`, `nf_med_count`;  (ii) `threeQuarters_no_medium`,
  (iii) `threeQuarters_no_big` (special cases of the theorem);  (iv) `threeQuarters_three_quarters`
  (as requested), `threeQuarters_three_quarters_strong` (`+ 9`, no positivity), `..._coverableL`, `..._opt`.

  Brute force (all multisets of ≤ 8 values from 1..6 for B = 6, ≤ 6 values from 1..12 for B = 12, model against
  `optCover`): the largest value of `3·OPT − 4·ALG` is `2` (e.g. B = 12, `[5, 5, 4, 4, 3, 3]`: OPT 2, ALG 1).
-/
import Prtpy
import PrtpyProofs.Part
import PrtpyProofs.Cover
import PrtpyProofs.Textbook
import PrtpyProofs.Checkers
import PrtpyProofs.Cover23
import Mathlib.Tactic.Ring
open Prtpy

namespace Prtpy.Cover34

variable {α : Type}

/-! ## 1. The weight profile: a three-step staircase -/

/-- the weight profile (argument: six times the value): three steps of length `c`, starting at `0`, `p`, `2p` -/
def stair (c p z : Nat) : Nat := min z c + min (z - p) c + min (z - 2 * p) c

/-- weight of an item -/
def wt (v : α → Nat) (c p : Nat) (y : α) : Nat := stair c p (6 * v y)

section Stair
variable {c p B : Nat}

theorem stair_subadd (h1 : c ≤ p) (a b : Nat) : stair c p (a + b) ≤ stair c p a + stair c p b := by
  unfold stair; omega

theorem stair_full (h1 : c ≤ p) (h2 : c + 2 * p = 6 * B) {z : Nat} (hz : 6 * B ≤ z) :
    stair c p z = 3 * c := by
  unfold stair; omega

theorem stair_le (z : Nat) : stair c p z ≤ 3 * c := by
  unfold stair; omega

theorem stair_sumL (h1 : c ≤ p) : ∀ g : List Nat,
    stair c p (6 * sumL g) ≤ sumL (g.map fun z => stair c p (6 * z))
  | [] => by simp [sumL, stair]
  | z :: g => by
    have ih := stair_sumL h1 g
    have := stair_subadd h1 (6 * z) (6 * sumL g)
    simp only [sumL, List.map_cons, Nat.mul_add]
    omega

theorem group_weight (h1 : c ≤ p) (h2 : c + 2 * p = 6 * B) {g : List Nat} (hg : B ≤ sumL g) :
    3 * c ≤ sumL (g.map fun z => stair c p (6 * z)) := by
  have := stair_sumL h1 g
  rw [stair_full h1 h2 (by omega)] at this
  exact this

theorem groups_weight (h1 : c ≤ p) (h2 : c + 2 * p = 6 * B) (G : List (List Nat))
    (hG : ∀ g ∈ G, B ≤ sumL g) :
    G.length * (3 * c) ≤ sumL (G.flatten.map fun z => stair c p (6 * z)) := by
  induction G with
  | nil => simp
  | cons g G ih =>
    have h3 := group_weight h1 h2 (hG g List.mem_cons_self)
    have h4 := ih (fun g' hg' => hG g' (List.mem_cons_of_mem _ hg'))
    simp only [List.flatten_cons, List.map_append, Cover.sumL_append, List.length_cons, Nat.add_mul, Nat.one_mul]
    omega

end Stair

section Weights
variable {v : α → Nat} {c p B : Nat}

theorem binSum_wt_eq (items : List α) :
    binSum (wt v c p) items = sumL ((items.map v).map fun z => stair c p (6 * z)) := by
  simp only [binSum, List.map_map]
  rfl

/-- the optimum's side: a cover with `m` bins weighs at least `3c·m` -/
theorem coverableL_weight (h1 : c ≤ p) (h2 : c + 2 * p = 6 * B) {items : List α} {m : Nat}
    (h : Cover.CoverableL B m (items.map v)) : m * (3 * c) ≤ binSum (wt v c p) items := by
  obtain ⟨G, rfl, hG, rest, hp⟩ := h
  rw [binSum_wt_eq, ← Cover.sumL_perm (hp.map _), List.map_append, Cover.sumL_append]
  have := groups_weight h1 h2 G hG
  omega

/-- every item weighs at most `3c` -/
theorem wt_le (y : α) : wt v c p y ≤ 3 * c := stair_le _

/-- a small item weighs `min (6·value) c` -/
theorem wt_small (h1 : c ≤ p) (h2 : c + 2 * p = 6 * B) {z : α} (hz : 3 * v z < B) :
    wt v c p z ≤ 6 * v z ∧ wt v c p z ≤ c := by
  unfold wt stair; omega

/-- a medium item weighs `c + (6·value − p)` -/
theorem wt_medium (h1 : c ≤ p) (h2 : c + 2 * p = 6 * B) {y : α} (hy : B ≤ 3 * v y ∧ 2 * v y < B) :
    wt v c p y = c + (6 * v y - p) := by
  unfold wt stair; omega

/-- a big item at or above the threshold `2p` -/
theorem wt_big_above (h2 : c + 2 * p = 6 * B) {x : α} (hx : 2 * p ≤ 6 * v x) :
    wt v c p x + 2 * p ≤ 2 * c + 6 * v x := by
  unfold wt stair; omega

/-- a big item at or below the threshold `2p` -/
theorem wt_big_below {x : α} (hx : 6 * v x ≤ 2 * p) : wt v c p x ≤ 2 * c := by
  unfold wt stair; omega

/-- in the regime `c = p = 2B` the weight is (six times) the value, capped at `B` -/
theorem wt_cap (h2 : c + 2 * p = 6 * B) (hc : c = 2 * B) (y : α) : wt v c p y ≤ 6 * v y := by
  unfold wt stair; omega

theorem binSum_wt_small (h1 : c ≤ p) (h2 : c + 2 * p = 6 * B) : ∀ (l : List α), (∀ z ∈ l, 3 * v z < B) →
    binSum (wt v c p) l ≤ 6 * binSum v l
  | [], _ => by simp [binSum, sumL]
  | z :: l, h => by
    have := (wt_small (v := v) h1 h2 (h z List.mem_cons_self)).1
    have := binSum_wt_small h1 h2 l (fun y hy => h y (List.mem_cons_of_mem _ hy))
    simp only [Cover.binSum_cons]
    omega

theorem binSum_wt_cap (h2 : c + 2 * p = 6 * B) (hc : c = 2 * B) : ∀ (l : List α),
    binSum (wt v c p) l ≤ 6 * binSum v l
  | [] => by simp [binSum, sumL]
  | z :: l => by
    have := wt_cap (v := v) h2 hc z
    have := binSum_wt_cap h2 hc l
    simp only [Cover.binSum_cons]
    omega

end Weights

/-! ## 2. The next-fit phases -/

section NF
variable {v : α → Nat} {B : Nat}

theorem nfCover_nil (cur : List α) : Textbook.nfCover v B cur [] = [] := by
  simp [Textbook.nfCover]

theorem nfCover_cons (cur : List α) (x : α) (xs : List α) :
    Textbook.nfCover v B cur (x :: xs) =
      if B ≤ binSum v (cur ++ [x]) then (cur ++ [x]) :: Textbook.nfCover v B [] xs
      else Textbook.nfCover v B (cur ++ [x]) xs := by
  simp [Textbook.nfCover]

theorem binSum_snoc (cur : List α) (x : α) : binSum v (cur ++ [x]) = binSum v cur + v x := by
  rw [Cover.binSum_append, Cover.binSum_cons, Cover.binSum_nil]; omega

theorem nfCover_append : ∀ (l₁ l₂ cur : List α),
    Textbook.nfCover v B cur (l₁ ++ l₂) =
      Textbook.nfCover v B cur l₁ ++ Textbook.nfCover v B (Textbook.nfRest v B cur l₁) l₂
  | [], l₂, cur => by simp [nfCover_nil, Textbook.nfRest]
  | x :: l₁, l₂, cur => by
    simp only [List.cons_append, nfCover_cons, Textbook.nfRest]
    split
    · rw [nfCover_append l₁ l₂ []]; simp
    · rw [nfCover_append l₁ l₂ (cur ++ [x])]

/-- next-fit on small items: every closed bin has `3·sum < 4B`, what is left over is below `B` -/
theorem nf_small : ∀ (l cur : List α), (∀ z ∈ l, 3 * v z < B) → binSum v cur < B →
    3 * (binSum v cur + binSum v l) < 4 * (B * (Textbook.nfCover v B cur l).length) + 3 * B
  | [], cur, _, hc => by
    simp only [nfCover_nil, Cover.binSum_nil, List.length_nil]; omega
  | x :: l, cur, h, hc => by
    have hx := h x List.mem_cons_self
    have hl : ∀ z ∈ l, 3 * v z < B := fun z hz => h z (List.mem_cons_of_mem _ hz)
    rw [nfCover_cons, binSum_snoc, Cover.binSum_cons]
    split
    · have ih := nf_small l [] hl (by rw [Cover.binSum_nil]; omega)
      rw [Cover.binSum_nil] at ih
      rw [List.length_cons, Nat.mul_succ]
      generalize B * (Textbook.nfCover v B [] l).length = K at *
      omega
    · have ih := nf_small l (cur ++ [x]) hl (by rw [binSum_snoc]; omega)
      rw [binSum_snoc] at ih
      generalize B * (Textbook.nfCover v B (cur ++ [x]) l).length = K at *
      omega

/-- next-fit on big items, weighted: two big items below the threshold per bin -/
theorem nf_big {c p : Nat} : ∀ (X cur : List α), X.Pairwise (fun a b => v b ≤ v a) →
    (∀ x ∈ X, B ≤ 2 * v x) → (∀ x ∈ X, v x < B → 6 * v x ≤ 2 * p) →
    binSum (wt v c p) X ≤ 4 * (c * (Textbook.nfCover v B cur X).length) + 2 * c ∧
    ((∀ x ∈ X, v x < B) → B ≤ 2 * binSum v cur →
      binSum (wt v c p) X ≤ 4 * (c * (Textbook.nfCover v B cur X).length))
  | [], cur, _, _, _ => by simp [nfCover_nil, Cover.binSum_nil]
  | x :: xs, cur, hs, hb, hu => by
    rw [List.pairwise_cons] at hs
    obtain ⟨hx, hs'⟩ := hs
    have hb' : ∀ y ∈ xs, B ≤ 2 * v y := fun y hy => hb y (List.mem_cons_of_mem _ hy)
    have hu' : ∀ y ∈ xs, v y < B → 6 * v y ≤ 2 * p := fun y hy => hu y (List.mem_cons_of_mem _ hy)
    have hxb := hb x List.mem_cons_self
    have ih0 := nf_big (c := c) (p := p) xs [] hs' hb' hu'
    have ih1 := nf_big (c := c) (p := p) xs (cur ++ [x]) hs' hb' hu'
    have hw3 : wt v c p x ≤ 3 * c := wt_le x
    rw [nfCover_cons, binSum_snoc, Cover.binSum_cons]
    refine ⟨?_, ?_⟩
    · by_cases hhuge : B ≤ v x
      · rw [if_pos (by omega), List.length_cons, Nat.mul_succ]
        have := ih0.1
        generalize c * (Textbook.nfCover v B [] xs).length = K at *
        omega
      · have hw2 : wt v c p x ≤ 2 * c := wt_big_below (hu x List.mem_cons_self (by omega))
        have hall : ∀ y ∈ xs, v y < B := fun y hy => by have := hx y hy; omega
        split
        · rw [List.length_cons, Nat.mul_succ]
          have := ih0.1
          generalize c * (Textbook.nfCover v B [] xs).length = K at *
          omega
        · have := ih1.2 hall (by rw [binSum_snoc]; omega)
          generalize c * (Textbook.nfCover v B (cur ++ [x]) xs).length = K at *
          omega
    · intro hall hcur
      have hxB := hall x List.mem_cons_self
      have hw2 : wt v c p x ≤ 2 * c := wt_big_below (hu x List.mem_cons_self hxB)
      rw [if_pos (by omega), List.length_cons, Nat.mul_succ]
      have := ih0.1
      generalize c * (Textbook.nfCover v B [] xs).length = K at *
      omega

/-- next-fit on medium items: at most three per bin -/
theorem nf_med_count : ∀ (Y cur : List α), (∀ y ∈ Y, B ≤ 3 * v y) →
    Y.length ≤ 3 * (Textbook.nfCover v B cur Y).length + 2 ∧
    (B ≤ 3 * binSum v cur → Y.length ≤ 3 * (Textbook.nfCover v B cur Y).length + 1) ∧
    (2 * B ≤ 3 * binSum v cur → Y.length ≤ 3 * (Textbook.nfCover v B cur Y).length)
  | [], cur, _ => by simp
  | y :: ys, cur, h => by
    have hy := h y List.mem_cons_self
    have h' : ∀ z ∈ ys, B ≤ 3 * v z := fun z hz => h z (List.mem_cons_of_mem _ hz)
    have ih0 := nf_med_count ys [] h'
    have ih1 := nf_med_count ys (cur ++ [y]) h'
    rw [binSum_snoc] at ih1
    rw [nfCover_cons, binSum_snoc]
    split
    · simp only [List.length_cons]
      have := ih0.1
      refine ⟨by omega, fun _ => by omega, fun _ => by omega⟩
    · simp only [List.length_cons]
      refine ⟨?_, fun hc => ?_, fun hc => ?_⟩
      · have := ih1.2.1 (by omega); omega
      · have := ih1.2.2 (by omega); omega
      · omega

end NF

/-! ## 3. The parameters, read off the items that are left when the small items have run out -/

section Final
variable {v : α → Nat} {B : Nat}

/-- the largest big item below `B` (the first such item of a non-increasing list) -/
def bigThr (v : α → Nat) (B : Nat) : List α → Nat
  | [] => 0
  | x :: X => if v x < B then v x else bigThr v B X

/-- the second medium item -/
def medThr (v : α → Nat) : List α → Nat
  | _ :: y :: _ => v y
  | _ => 0

/-- the budget for the one medium pair that straddles the middle step: the excess of the largest medium item -/
def phiY (v : α → Nat) (p : Nat) : List α → Nat
  | [] => 0
  | y :: _ => 6 * v y - p

theorem phiY_nil (v : α → Nat) (p : Nat) : phiY v p [] = 0 := rfl
theorem phiY_cons (v : α → Nat) (p : Nat) (y : α) (Y : List α) : phiY v p (y :: Y) = 6 * v y - p := rfl

/-- the step threshold `2p` is met by every opening that precedes the state `(X, Y)`:
    either the regime is "capped size", or `2p/6` is at most a remaining big item, or it is at most
    `6y − 2B ≤ 2y` for a remaining medium item `y` that is not the first one -/
def Inv (v : α → Nat) (B c p : Nat) (X Y : List α) : Prop :=
  c = 2 * B ∨ (∃ x ∈ X, 2 * p ≤ 6 * v x) ∨ (∃ y ∈ Y.tail, 2 * p + 12 * B ≤ 36 * v y)

theorem bigThr_ge : ∀ (X : List α), X.Pairwise (fun a b => v b ≤ v a) →
    ∀ x ∈ X, v x < B → v x ≤ bigThr v B X
  | [], _, _, hx, _ => by simp at hx
  | a :: X, hs, x, hx, hxB => by
    rw [List.pairwise_cons] at hs
    simp only [bigThr]
    rcases List.mem_cons.1 hx with rfl | hx'
    · rw [if_pos hxB]
    · split
      · exact hs.1 x hx'
      · exact bigThr_ge X hs.2 x hx' hxB

theorem bigThr_mem : ∀ (X : List α), bigThr v B X = 0 ∨ ∃ x ∈ X, bigThr v B X = v x ∧ v x < B
  | [] => Or.inl rfl
  | a :: X => by
    simp only [bigThr]
    split
    · rename_i h; exact Or.inr ⟨a, List.mem_cons_self, rfl, h⟩
    · rcases bigThr_mem X with h | ⟨x, hx, e, hB⟩
      · exact Or.inl h
      · exact Or.inr ⟨x, List.mem_cons_of_mem _ hx, e, hB⟩

theorem medThr_ge (Y : List α) (hs : Y.Pairwise (fun a b => v b ≤ v a)) :
    ∀ y ∈ Y.tail, v y ≤ medThr v Y := by
  intro y hy
  match Y, hs, hy with
  | [_], _, hy => simp at hy
  | a :: b :: Y', hs, hy =>
    simp only [List.tail_cons] at hy
    simp only [medThr]
    rw [List.pairwise_cons, List.pairwise_cons] at hs
    rcases List.mem_cons.1 hy with rfl | hy'
    · exact Nat.le_refl _
    · exact hs.2.1 y hy'

theorem medThr_mem (Y : List α) : medThr v Y = 0 ∨ ∃ y ∈ Y.tail, medThr v Y = v y := by
  match Y with
  | [] => exact Or.inl rfl
  | [_] => exact Or.inl rfl
  | a :: b :: Y' => exact Or.inr ⟨b, by simp, rfl⟩

theorem phiY_le {c p : Nat} (h2 : c + 2 * p = 6 * B) (Y : List α) (hm : ∀ y ∈ Y, 2 * v y < B) :
    2 * phiY v p Y ≤ c := by
  cases Y with
  | nil => simp [phiY]
  | cons y Y => have := hm y List.mem_cons_self; simp only [phiY]; omega

/-- the medium items, weighted: all but the first weigh at most `4c/3` -/
theorem binSum_wt_med {c p : Nat} (h1 : c ≤ p) (h2 : c + 2 * p = 6 * B) (Y : List α)
    (hm : ∀ y ∈ Y, B ≤ 3 * v y ∧ 2 * v y < B) (hu : ∀ y ∈ Y.tail, 18 * v y ≤ p + 6 * B) :
    3 * binSum (wt v c p) Y ≤ 4 * (c * Y.length) + 3 * phiY v p Y := by
  cases Y with
  | nil => simp [Cover.binSum_nil, phiY]
  | cons y ys =>
    have hy := wt_medium (v := v) h1 h2 (hm y List.mem_cons_self)
    have htail : ∀ (l : List α), (∀ z ∈ l, B ≤ 3 * v z ∧ 2 * v z < B) → (∀ z ∈ l, 18 * v z ≤ p + 6 * B) →
        3 * binSum (wt v c p) l ≤ 4 * (c * l.length) := by
      intro l
      induction l with
      | nil => intros; simp [Cover.binSum_nil]
      | cons z l ih =>
        intro hm' hu'
        have hz := wt_medium (v := v) h1 h2 (hm' z List.mem_cons_self)
        have hz2 := hu' z List.mem_cons_self
        have := ih (fun w hw => hm' w (List.mem_cons_of_mem _ hw)) (fun w hw => hu' w (List.mem_cons_of_mem _ hw))
        rw [Cover.binSum_cons, List.length_cons, Nat.mul_succ]
        omega
    have := htail ys (fun z hz => hm z (List.mem_cons_of_mem _ hz)) (by simpa using hu)
    rw [Cover.binSum_cons, List.length_cons, Nat.mul_succ]
    simp only [phiY]
    omega

/-- **The last phase** (no small items left): parameters `c, p` for which the remaining big and medium items
    weigh at most `4c` per bin that next-fit makes of them, up to `14c/3` and the medium budget. -/
theorem finalW (hB : 0 < B) (cur X Y : List α) (hsX : X.Pairwise (fun a b => v b ≤ v a))
    (hbX : ∀ x ∈ X, B ≤ 2 * v x) (hsY : Y.Pairwise (fun a b => v b ≤ v a))
    (hmY : ∀ y ∈ Y, B ≤ 3 * v y ∧ 2 * v y < B) :
    ∃ c p, 0 < c ∧ c ≤ p ∧ c + 2 * p = 6 * B ∧ Inv v B c p X Y ∧
      3 * binSum (wt v c p) (X ++ Y) ≤
        12 * (c * (Textbook.nfCover v B cur (X ++ Y)).length) + 14 * c + 3 * phiY v p Y := by
  -- the thresholds
  have ht := bigThr_mem (v := v) (B := B) X
  have htge := bigThr_ge (v := v) (B := B) X hsX
  have hy := medThr_mem (v := v) Y
  have hyge := medThr_ge Y hsY
  have hy2 : 2 * medThr v Y < B := by
    rcases hy with h | ⟨y, hy, e⟩
    · omega
    · have := (hmY y (List.mem_of_mem_tail hy)).2; omega
  have ht2 : bigThr v B X < B := by
    rcases ht with h | ⟨x, _, e, h⟩ <;> omega
  generalize htdef : bigThr v B X = t at *
  generalize hydef : medThr v Y = y2 at *
  refine ⟨6 * B - 2 * max (2 * B) (max (3 * t) (18 * y2 - 6 * B)), max (2 * B) (max (3 * t) (18 * y2 - 6 * B)),
    by omega, by omega, by omega, ?_, ?_⟩
  · -- the invariant
    unfold Inv
    rcases ht with h | ⟨x, hx, e, _⟩
    · rcases hy with h' | ⟨y, hy, e'⟩
      · left; omega
      · by_cases hc : 18 * y2 - 6 * B ≤ 2 * B
        · left; omega
        · right; right; exact ⟨y, hy, by omega⟩
    · rcases hy with h' | ⟨y, hy, e'⟩
      · by_cases hc : 3 * t ≤ 2 * B
        · left; omega
        · right; left; exact ⟨x, hx, by omega⟩
      · by_cases hc : 3 * t ≤ 2 * B ∧ 18 * y2 - 6 * B ≤ 2 * B
        · left; omega
        · by_cases hc2 : 18 * y2 - 6 * B ≤ 3 * t
          · right; left; exact ⟨x, hx, by omega⟩
          · right; right; exact ⟨y, hy, by omega⟩
  · -- the weights
    generalize hp : max (2 * B) (max (3 * t) (18 * y2 - 6 * B)) = p
    have h1 : 6 * B - 2 * p ≤ p := by omega
    have h2 : 6 * B - 2 * p + 2 * p = 6 * B := by omega
    generalize hc : 6 * B - 2 * p = c at *
    rw [nfCover_append, List.length_append, Cover.binSum_append]
    have hX := (nf_big (c := c) (p := p) X cur hsX hbX
      (fun x hx hxB => by have := htge x hx hxB; omega)).1
    have hYc := (nf_med_count Y (Textbook.nfRest v B cur X) (fun y hy => (hmY y hy).1)).1
    have hYw := binSum_wt_med h1 h2 Y hmY (fun y hy => by have := hyge y hy; omega)
    have hmul : c * Y.length ≤ c * (3 * (Textbook.nfCover v B (Textbook.nfRest v B cur X) Y).length + 2) :=
      Nat.mul_le_mul_left _ hYc
    rw [Nat.mul_add, Nat.mul_left_comm] at hmul
    rw [Nat.mul_add c]
    generalize c * (Textbook.nfCover v B cur X).length = K1 at *
    generalize c * (Textbook.nfCover v B (Textbook.nfRest v B cur X) Y).length = K2 at *
    generalize c * Y.length = K3 at *
    omega

end Final

/-! ## 4. Structure of the run: how a bin is opened, how it is filled -/

section Structure
variable {v : α → Nat} {B : Nat}

theorem threeClass_nilZ (cur X Y : List α) :
    Textbook.threeClass v B cur X Y [] = Textbook.nfCover v B cur (X ++ Y) := by
  rw [Textbook.threeClass]; simp

theorem threeClass_nilXY (cur Z : List α) (hZ : Z ≠ []) :
    Textbook.threeClass v B cur [] [] Z = Textbook.nfCover v B cur Z.reverse := by
  rw [Textbook.threeClass]; simp [hZ]

theorem threeClass_step (cur X Y Z : List α) (hZ : Z ≠ []) (h : ¬ (X = [] ∧ Y = [])) :
    Textbook.threeClass v B cur X Y Z =
      if B ≤ binSum v (Textbook.fillUp v B (cur ++ (Textbook.opening v X Y).1) Z).1 then
        (Textbook.fillUp v B (cur ++ (Textbook.opening v X Y).1) Z).1 ::
          Textbook.threeClass v B [] (Textbook.opening v X Y).2.1 (Textbook.opening v X Y).2.2
            (Textbook.fillUp v B (cur ++ (Textbook.opening v X Y).1) Z).2
      else Textbook.threeClass v B (Textbook.fillUp v B (cur ++ (Textbook.opening v X Y).1) Z).1
        (Textbook.opening v X Y).2.1 (Textbook.opening v X Y).2.2
        (Textbook.fillUp v B (cur ++ (Textbook.opening v X Y).1) Z).2 := by
  rw [Textbook.threeClass]
  simp only [if_neg hZ, dif_neg h]

/-- **How a bin is opened**: by the largest big item `x` (when the two largest medium items together do not
    exceed it), by the two largest medium items (when together they exceed the largest big item, if any),
    or by the only medium item when nothing else is left. -/
theorem opening_cases (X Y : List α) (hne : ¬ (X = [] ∧ Y = [])) (hbX : ∀ x ∈ X, B ≤ 2 * v x)
    (hmY : ∀ y ∈ Y, B ≤ 3 * v y ∧ 2 * v y < B) :
    (∃ x X', X = x :: X' ∧ binSum v (Y.take 2) ≤ v x ∧ Textbook.opening v X Y = ([x], X', Y)) ∨
    (∃ ya yb Y', Y = ya :: yb :: Y' ∧ (∀ x X', X = x :: X' → v x < v ya + v yb) ∧
      Textbook.opening v X Y = ([ya, yb], X, Y')) ∨
    (∃ ya, X = [] ∧ Y = [ya] ∧ Textbook.opening v X Y = ([ya], [], [])) := by
  cases X with
  | nil =>
    match Y, hne, hmY with
    | [], hne, _ => exact absurd ⟨rfl, rfl⟩ hne
    | [ya], _, _ => exact Or.inr (Or.inr ⟨ya, rfl, rfl, rfl⟩)
    | ya :: yb :: Y', _, _ =>
      exact Or.inr (Or.inl ⟨ya, yb, Y', rfl, fun _ _ h => by simp at h, rfl⟩)
  | cons x X' =>
    by_cases h : binSum v (Y.take 2) ≤ v x
    · exact Or.inl ⟨x, X', rfl, h, by simp [Textbook.opening, h]⟩
    · have hx := hbX x List.mem_cons_self
      match Y, h, hmY with
      | [], h, _ => simp [binSum, sumL] at h
      | [ya], h, hmY =>
        have := (hmY ya List.mem_cons_self).2
        simp [binSum, sumL] at h
        omega
      | ya :: yb :: Y', h, _ =>
        have h' : ¬ (v ya + v yb ≤ v x) := by simpa [binSum, sumL] using h
        refine Or.inr (Or.inl ⟨ya, yb, Y', rfl, ?_, by simp [Textbook.opening, binSum, sumL, h']⟩)
        intro x' X'' e
        cases e
        omega

/-- the lists that remain after an opening are again sorted lists of big / medium items, and shorter -/
theorem opening_pres (X Y : List α) (hne : ¬ (X = [] ∧ Y = [])) (hsX : X.Pairwise (fun a b => v b ≤ v a))
    (hbX : ∀ x ∈ X, B ≤ 2 * v x) (hsY : Y.Pairwise (fun a b => v b ≤ v a))
    (hmY : ∀ y ∈ Y, B ≤ 3 * v y ∧ 2 * v y < B) {O X1 Y1 : List α}
    (hO : Textbook.opening v X Y = (O, X1, Y1)) :
    X1.Pairwise (fun a b => v b ≤ v a) ∧ (∀ x ∈ X1, B ≤ 2 * v x) ∧
    Y1.Pairwise (fun a b => v b ≤ v a) ∧ (∀ y ∈ Y1, B ≤ 3 * v y ∧ 2 * v y < B) ∧
    X1.length + Y1.length < X.length + Y.length := by
  have hlen := Textbook.opening_length v X Y hne
  rw [hO] at hlen
  refine ⟨?_, ?_, ?_, ?_, hlen⟩
  all_goals
    rcases opening_cases X Y hne hbX hmY with ⟨x, X', rfl, _, e⟩ | ⟨ya, yb, Y', rfl, _, e⟩ | ⟨ya, rfl, rfl, e⟩
    all_goals
      rw [e] at hO
      simp only [Prod.mk.injEq] at hO
      obtain ⟨rfl, rfl, rfl⟩ := hO
  · exact (List.pairwise_cons.1 hsX).2
  · exact hsX
  · exact List.Pairwise.nil
  · exact fun y hy => hbX y (List.mem_cons_of_mem _ hy)
  · exact hbX
  · exact fun y hy => by simp at hy
  · exact hsY
  · exact (List.pairwise_cons.1 (List.pairwise_cons.1 hsY).2).2
  · exact List.Pairwise.nil
  · exact hmY
  · exact fun y hy => hmY y (List.mem_cons_of_mem _ (List.mem_cons_of_mem _ hy))
  · exact fun y hy => by simp at hy

theorem wt_big_thr {c p : Nat} (h2 : c + 2 * p = 6 * B) {x : α} (h : c = 2 * B ∨ 2 * p ≤ 6 * v x) :
    wt v c p x + 2 * p ≤ 2 * c + 6 * v x := by
  rcases h with h | h
  · have := wt_cap (v := v) h2 h x; omega
  · exact wt_big_above h2 h

/-- **The weight of a bin of the main phase.**  `c, p` are parameters that are good for the state after the
    opening (`Inv`).  Then they are good for the state before it, and the opening items `O` together with small
    items of total value `s` (all but the last one: `binSum v O + s < B`) and one more small item (weight `≤ c`)
    weigh at most `4c`, up to what the medium budget `phiY` pays. -/
theorem opening_facts {c p : Nat} (h1 : c ≤ p) (h2 : c + 2 * p = 6 * B) (X Y : List α)
    (hne : ¬ (X = [] ∧ Y = [])) (hsX : X.Pairwise (fun a b => v b ≤ v a))
    (hbX : ∀ x ∈ X, B ≤ 2 * v x) (hsY : Y.Pairwise (fun a b => v b ≤ v a))
    (hmY : ∀ y ∈ Y, B ≤ 3 * v y ∧ 2 * v y < B) {O X1 Y1 : List α}
    (hO : Textbook.opening v X Y = (O, X1, Y1)) (hinv : Inv v B c p X1 Y1) :
    Inv v B c p X Y ∧
    binSum (wt v c p) (X ++ Y) = binSum (wt v c p) O + binSum (wt v c p) (X1 ++ Y1) ∧
    (∀ s, binSum v O + s < B →
      3 * (binSum (wt v c p) O + 6 * s + c) + 3 * phiY v p Y1 ≤ 12 * c + 3 * phiY v p Y) ∧
    (B ≤ binSum v O → 3 * binSum (wt v c p) O + 3 * phiY v p Y1 ≤ 12 * c + 3 * phiY v p Y) := by
  rcases opening_cases X Y hne hbX hmY with ⟨x, X', rfl, hrule, e⟩ | ⟨ya, yb, Y', rfl, hrule, e⟩ |
    ⟨ya, rfl, rfl, e⟩
  all_goals
    rw [e] at hO
    simp only [Prod.mk.injEq] at hO
    obtain ⟨rfl, rfl, rfl⟩ := hO
  · -- a big item opens the bin
    rw [List.pairwise_cons] at hsX
    have hthr : c = 2 * B ∨ 2 * p ≤ 6 * v x := by
      rcases hinv with h | ⟨x0, hx0, h⟩ | ⟨y, hy, h⟩
      · exact Or.inl h
      · have := hsX.1 x0 hx0; exact Or.inr (by omega)
      · right
        match Y, hy, hsY, hmY, hrule with
        | [_], hy, _, _, _ => simp at hy
        | a :: b :: Y', hy, hsY, hmY, hrule =>
          simp only [List.tail_cons] at hy
          rw [List.pairwise_cons, List.pairwise_cons] at hsY
          have hyb : v y ≤ v b := by
            rcases List.mem_cons.1 hy with rfl | hy'
            · exact Nat.le_refl _
            · exact hsY.2.1 y hy'
          have hba := hsY.1 b (by simp)
          have hym := (hmY y (List.mem_cons_of_mem _ hy)).2
          simp [binSum, sumL] at hrule
          omega
    have hw := wt_big_thr (v := v) h2 hthr
    have hw3 : wt v c p x ≤ 3 * c := wt_le x
    refine ⟨?_, ?_, ?_, ?_⟩
    · rcases hinv with h | ⟨x0, hx0, h⟩ | h
      · exact Or.inl h
      · exact Or.inr (Or.inl ⟨x0, List.mem_cons_of_mem _ hx0, h⟩)
      · exact Or.inr (Or.inr h)
    · simp only [List.cons_append, Cover.binSum_cons, Cover.binSum_nil]; omega
    · intro s hs
      simp only [Cover.binSum_cons, Cover.binSum_nil] at hs ⊢
      omega
    · intro _
      simp only [Cover.binSum_cons, Cover.binSum_nil]
      omega
  · -- the two largest medium items open the bin
    rw [List.pairwise_cons, List.pairwise_cons] at hsY
    have hma := hmY ya List.mem_cons_self
    have hmb := hmY yb (by simp)
    have hba := hsY.1 yb (by simp)
    have hthr : 2 * p ≤ 6 * (v ya + v yb) := by
      rcases hinv with h | ⟨x0, hx0, h⟩ | ⟨y, hy, h⟩
      · omega
      · match X, hx0, hsX, hrule with
        | x :: X', hx0, hsX, hrule =>
          have := hrule x X' rfl
          rw [List.pairwise_cons] at hsX
          rcases List.mem_cons.1 hx0 with rfl | hx0'
          · omega
          · have := hsX.1 x0 hx0'; omega
      · have hy' := List.mem_of_mem_tail hy
        have := hsY.2.1 y hy'
        have := (hmY y (List.mem_cons_of_mem _ (List.mem_cons_of_mem _ hy'))).2
        omega
    have hwa := wt_medium (v := v) h1 h2 hma
    have hwb := wt_medium (v := v) h1 h2 hmb
    have hphi : phiY v p Y' ≤ 6 * v yb - p := by
      cases Y' with
      | nil => simp [phiY]
      | cons y3 Y'' =>
        have := hsY.2.1 y3 List.mem_cons_self
        simp only [phiY]; omega
    refine ⟨?_, ?_, ?_, ?_⟩
    · rcases hinv with h | h | ⟨y, hy, h⟩
      · exact Or.inl h
      · exact Or.inr (Or.inl h)
      · exact Or.inr (Or.inr ⟨y, by
          simp only [List.tail_cons]
          exact List.mem_cons_of_mem _ (List.mem_of_mem_tail hy), h⟩)
    · simp only [Cover.binSum_append, Cover.binSum_cons, Cover.binSum_nil]; omega
    · intro s hs
      simp only [Cover.binSum_cons, Cover.binSum_nil, phiY_cons] at hs ⊢
      omega
    · intro hcov
      simp only [Cover.binSum_cons, Cover.binSum_nil] at hcov
      omega
  · -- the only medium item opens the bin: nothing else is left, the regime is "capped size"
    have hc : c = 2 * B := by
      rcases hinv with h | ⟨x0, hx0, _⟩ | ⟨y, hy, _⟩
      · exact h
      · simp at hx0
      · simp at hy
    have hw := wt_cap (v := v) h2 hc ya
    have hma := hmY ya List.mem_cons_self
    refine ⟨Or.inl hc, ?_, ?_, ?_⟩
    · simp only [List.nil_append, Cover.binSum_cons, Cover.binSum_nil]
    · intro s hs
      simp only [Cover.binSum_cons, Cover.binSum_nil, phiY_cons, phiY_nil] at hs ⊢
      omega
    · intro hcov
      simp only [Cover.binSum_cons, Cover.binSum_nil] at hcov
      omega

end Structure

section Structure2
variable {v : α → Nat} {B : Nat}

/-- **One round of the main phase** (small items left, and big or medium items left).  The opening items `O`
    receive a prefix `taken` of the small items (smallest first).  Either the bin `O ++ taken` is covered: it is
    the first bin of the result, the run continues with the remaining lists, and — unless nothing was taken —
    the bin was still below `B` before its last item; or the small items have run out (`left = []`) and the
    uncovered bin is the current bin of next-fit on the remaining big, then medium items. -/
theorem threeClass_main_step (X Y Z : List α) (hZ : Z ≠ []) (hXY : ¬ (X = [] ∧ Y = [])) {O X1 Y1 : List α}
    (hO : Textbook.opening v X Y = (O, X1, Y1)) :
    ∃ taken left, Z = taken ++ left ∧
      ((B ≤ binSum v (O ++ taken) ∧
          Textbook.threeClass v B [] X Y Z = (O ++ taken) :: Textbook.threeClass v B [] X1 Y1 left ∧
          (taken = [] ∨ ∃ t last, taken = t ++ [last] ∧ binSum v (O ++ t) < B)) ∨
       (binSum v (O ++ taken) < B ∧ left = [] ∧
          Textbook.threeClass v B [] X Y Z = Textbook.nfCover v B (O ++ taken) (X1 ++ Y1))) := by
  obtain ⟨taken, left, hZeq, hfill, hshape⟩ := Cover23.fillUp_spec v B Z O
  refine ⟨taken, left, hZeq, ?_⟩
  rw [threeClass_step [] X Y Z hZ hXY]
  simp only [List.nil_append, hO, hfill]
  by_cases hcov : B ≤ binSum v (O ++ taken)
  · exact Or.inl ⟨hcov, by rw [if_pos hcov], hshape⟩
  · have hleft : left = [] := by
      have := Textbook.fillUp_uncovered v B Z O
      rw [hfill] at this
      exact this (Nat.lt_of_not_le hcov)
    subst hleft
    exact Or.inr ⟨Nat.lt_of_not_le hcov, rfl, by rw [if_neg hcov, threeClass_nilZ]⟩

/-- **The sum of a bin of the main phase**: a covered bin `O ++ taken` is a single item of value `≥ B`, or its
    sum is below `4B/3` (it was below `B` before the last, small, item). -/
theorem main_bin_sum (X Y : List α) (hXY : ¬ (X = [] ∧ Y = [])) (hbX : ∀ x ∈ X, B ≤ 2 * v x)
    (hmY : ∀ y ∈ Y, B ≤ 3 * v y ∧ 2 * v y < B) {O X1 Y1 taken : List α}
    (hO : Textbook.opening v X Y = (O, X1, Y1)) (hz : ∀ z ∈ taken, 3 * v z < B)
    (hcov : B ≤ binSum v (O ++ taken))
    (hshape : taken = [] ∨ ∃ t last, taken = t ++ [last] ∧ binSum v (O ++ t) < B) :
    (∃ x, O = [x] ∧ B ≤ v x ∧ taken = []) ∨ 3 * binSum v (O ++ taken) < 4 * B := by
  rcases hshape with rfl | ⟨t, last, rfl, hlt⟩
  · left
    rw [List.append_nil] at hcov
    rcases opening_cases X Y hXY hbX hmY with ⟨x, X', rfl, _, e⟩ | ⟨ya, yb, Y', rfl, _, e⟩ | ⟨ya, rfl, rfl, e⟩
    all_goals
      rw [e] at hO
      simp only [Prod.mk.injEq] at hO
      obtain ⟨rfl, rfl, rfl⟩ := hO
    · exact ⟨x, rfl, by simpa [Cover.binSum_cons, Cover.binSum_nil] using hcov, rfl⟩
    · have := (hmY ya List.mem_cons_self).2
      have := (hmY yb (by simp)).2
      simp only [Cover.binSum_cons, Cover.binSum_nil] at hcov
      omega
    · have := (hmY ya List.mem_cons_self).2
      simp only [Cover.binSum_cons, Cover.binSum_nil] at hcov
      omega
  · right
    have := hz last (by simp)
    rw [← List.append_assoc, binSum_snoc]
    omega

end Structure2

/-! ## 5. The algorithm's side: total weight `≤ 4c·ALG + 26c/3 + c/2` for parameters read off the run -/

section Main
variable {v : α → Nat} {B : Nat}

/-- the two ways the main phase ends: no small items (next-fit on big, then medium items), or only small items -/
theorem mainW_base (hB : 0 < B) (X Y Z : List α) (hsX : X.Pairwise (fun a b => v b ≤ v a))
    (hbX : ∀ x ∈ X, B ≤ 2 * v x) (hsY : Y.Pairwise (fun a b => v b ≤ v a))
    (hmY : ∀ y ∈ Y, B ≤ 3 * v y ∧ 2 * v y < B) (hzZ : ∀ z ∈ Z, 3 * v z < B)
    (h : Z = [] ∨ (X = [] ∧ Y = [])) :
    ∃ c p, 0 < c ∧ c ≤ p ∧ c + 2 * p = 6 * B ∧ Inv v B c p X Y ∧
      3 * binSum (wt v c p) (X ++ Y ++ Z) ≤
        12 * (c * (Textbook.threeClass v B [] X Y Z).length) + 26 * c + 3 * phiY v p Y := by
  by_cases hZ : Z = []
  · subst hZ
    obtain ⟨c, p, hc0, h1, h2, hinv, hw⟩ := finalW hB [] X Y hsX hbX hsY hmY
    refine ⟨c, p, hc0, h1, h2, hinv, ?_⟩
    rw [threeClass_nilZ, List.append_nil]
    omega
  · obtain ⟨rfl, rfl⟩ := h.resolve_left hZ
    refine ⟨2 * B, 2 * B, by omega, Nat.le_refl _, by omega, Or.inl rfl, ?_⟩
    rw [threeClass_nilXY [] Z hZ, List.nil_append, List.nil_append, phiY_nil]
    have h1 := binSum_wt_cap (v := v) (c := 2 * B) (p := 2 * B) (B := B) (by omega) rfl Z
    have h2 := nf_small (v := v) (B := B) Z.reverse [] (fun z hz => hzZ z (List.mem_reverse.1 hz))
      (by rw [Cover.binSum_nil]; exact hB)
    rw [Cover.binSum_nil, Cover.binSum_perm v (List.reverse_perm Z)] at h2
    rw [Nat.mul_assoc]
    generalize B * (Textbook.nfCover v B [] Z.reverse).length = K at *
    omega

theorem binSum_wt_snoc_small {c p : Nat} (h1 : c ≤ p) (h2 : c + 2 * p = 6 * B) (t : List α) (last : α)
    (hz : ∀ z ∈ t ++ [last], 3 * v z < B) :
    binSum (wt v c p) (t ++ [last]) ≤ 6 * binSum v t + c := by
  have ht := binSum_wt_small (v := v) h1 h2 t (fun z hz' => hz z (List.mem_append_left _ hz'))
  have hl := (wt_small (v := v) h1 h2 (hz last (by simp))).2
  rw [binSum_snoc]
  omega

/-- **The algorithm's side.**  `X` (big) and `Y` (medium) sorted by non-increasing value, `Z` small items. -/
theorem mainW (hB : 0 < B) : ∀ (n : Nat) (X Y Z : List α), X.length + Y.length ≤ n →
    X.Pairwise (fun a b => v b ≤ v a) → (∀ x ∈ X, B ≤ 2 * v x) →
    Y.Pairwise (fun a b => v b ≤ v a) → (∀ y ∈ Y, B ≤ 3 * v y ∧ 2 * v y < B) →
    (∀ z ∈ Z, 3 * v z < B) →
    ∃ c p, 0 < c ∧ c ≤ p ∧ c + 2 * p = 6 * B ∧ Inv v B c p X Y ∧
      3 * binSum (wt v c p) (X ++ Y ++ Z) ≤
        12 * (c * (Textbook.threeClass v B [] X Y Z).length) + 26 * c + 3 * phiY v p Y := by
  intro n
  induction n with
  | zero =>
    intro X Y Z hn hsX hbX hsY hmY hzZ
    have hX : X = [] := List.eq_nil_of_length_eq_zero (by omega)
    have hY : Y = [] := List.eq_nil_of_length_eq_zero (by omega)
    exact mainW_base hB X Y Z hsX hbX hsY hmY hzZ (Or.inr ⟨hX, hY⟩)
  | succ n ih =>
    intro X Y Z hn hsX hbX hsY hmY hzZ
    by_cases hZ : Z = []
    · exact mainW_base hB X Y Z hsX hbX hsY hmY hzZ (Or.inl hZ)
    by_cases hXY : X = [] ∧ Y = []
    · exact mainW_base hB X Y Z hsX hbX hsY hmY hzZ (Or.inr hXY)
    rcases hO : Textbook.opening v X Y with ⟨O, X1, Y1⟩
    obtain ⟨hsX1, hbX1, hsY1, hmY1, hlen⟩ := opening_pres X Y hXY hsX hbX hsY hmY hO
    obtain ⟨taken, left, hZeq, hfill, hshape⟩ := Cover23.fillUp_spec v B Z O
    have hztaken : ∀ z ∈ taken, 3 * v z < B := fun z hz => hzZ z (by rw [hZeq]; exact List.mem_append_left _ hz)
    have hzleft : ∀ z ∈ left, 3 * v z < B := fun z hz => hzZ z (by rw [hZeq]; exact List.mem_append_right _ hz)
    rw [threeClass_step [] X Y Z hZ hXY]
    simp only [List.nil_append, hO, hfill]
    by_cases hcov : B ≤ binSum v (O ++ taken)
    · -- the bin is covered and closed
      rw [if_pos hcov, List.length_cons]
      obtain ⟨c, p, hc0, h1, h2, hinv, hw⟩ := ih X1 Y1 left (by omega) hsX1 hbX1 hsY1 hmY1 hzleft
      obtain ⟨hinv', hsum, hF2, hF3⟩ := opening_facts h1 h2 X Y hXY hsX hbX hsY hmY hO hinv
      refine ⟨c, p, hc0, h1, h2, hinv', ?_⟩
      rw [Nat.mul_succ]
      rcases hshape with rfl | ⟨t, last, rfl, hlt⟩
      · have h3 := hF3 (by simpa using hcov)
        rw [hZeq]
        simp only [Cover.binSum_append, List.nil_append] at hsum hw ⊢
        generalize c * (Textbook.threeClass v B [] X1 Y1 left).length = K at *
        omega
      · rw [Cover.binSum_append] at hlt
        have h3 := hF2 (binSum v t) hlt
        have h4 := binSum_wt_snoc_small (v := v) h1 h2 t last hztaken
        rw [hZeq]
        simp only [Cover.binSum_append] at hsum hw h4 ⊢
        generalize c * (Textbook.threeClass v B [] X1 Y1 left).length = K at *
        omega
    · -- the small items have run out before the bin is covered
      rw [if_neg hcov]
      have hleft : left = [] := by
        have := Textbook.fillUp_uncovered v B Z O
        rw [hfill] at this
        exact this (Nat.lt_of_not_le hcov)
      subst hleft
      rw [threeClass_nilZ]
      obtain ⟨c, p, hc0, h1, h2, hinv, hw⟩ := finalW hB (O ++ taken) X1 Y1 hsX1 hbX1 hsY1 hmY1
      obtain ⟨hinv', hsum, hF2, _⟩ := opening_facts h1 h2 X Y hXY hsX hbX hsY hmY hO hinv
      refine ⟨c, p, hc0, h1, h2, hinv', ?_⟩
      have hlt : binSum v O + binSum v taken < B := by
        rw [← Cover.binSum_append]; omega
      have h3 := hF2 (binSum v taken) hlt
      have h4 := binSum_wt_small (v := v) h1 h2 taken hztaken
      rw [hZeq]
      simp only [Cover.binSum_append, List.append_nil] at hsum hw ⊢
      generalize c * (Textbook.nfCover v B (O ++ taken) (X1 ++ Y1)).length = K at *
      omega

end Main

/-! ## 6. The theorem -/

section Theorem
variable {v : α → Nat} {B m : Nat} {items : List α}

/-- the three classes partition the items -/
theorem binSum_classes (w : α → Nat) (v : α → Nat) (B : Nat) : ∀ s : List α,
    binSum w (s.filter (fun x => B ≤ 2 * v x) ++ s.filter (fun x => B ≤ 3 * v x ∧ 2 * v x < B) ++
      (s.filter (fun x => 3 * v x < B)).reverse) = binSum w s := by
  intro s
  rw [Cover.binSum_append, Cover.binSum_append, Cover.binSum_perm w (List.reverse_perm _)]
  induction s with
  | nil => simp [Cover.binSum_nil]
  | cons x s ih =>
    simp only [List.filter_cons]
    by_cases h1 : B ≤ 2 * v x
    · have h2 : ¬ (B ≤ 3 * v x ∧ 2 * v x < B) := by omega
      have h3 : ¬ (3 * v x < B) := by omega
      simp only [h1, h2, h3, decide_true, decide_false, if_true, Bool.false_eq_true, if_false,
        Cover.binSum_cons]
      omega
    · by_cases h2 : B ≤ 3 * v x ∧ 2 * v x < B
      · have h3 : ¬ (3 * v x < B) := by omega
        simp only [h1, h2, h3, decide_true, decide_false, if_true, Bool.false_eq_true, if_false,
          Cover.binSum_cons, and_self]
        omega
      · have h3 : 3 * v x < B := by omega
        simp only [h1, h2, h3, decide_true, decide_false, if_true, Bool.false_eq_true, if_false,
          Cover.binSum_cons]
        omega

/-- sharp form, against the list formulation of coverability; no positivity needed:
    `3·OPT ≤ 4·ALG + 9` -/
theorem threeQuarters_three_quarters_coverableL (hB : 0 < B) (hm : Cover.CoverableL B m (items.map v)) :
    3 * m ≤ 4 * (threeQuarters v B items).lists.length + 9 := by
  rw [Textbook.threeQuarters_eq_spec, Textbook.threeQuartersSpec]
  have hs := Part.sortDesc_sorted v items
  generalize hsdef : sortDesc v items = s at *
  obtain ⟨c, p, hc0, h1, h2, _, hw⟩ := mainW (v := v) hB _
    (s.filter (fun x => B ≤ 2 * v x)) (s.filter (fun x => B ≤ 3 * v x ∧ 2 * v x < B))
    (s.filter (fun x => 3 * v x < B)).reverse (Nat.le_refl _)
    (hs.filter _) (fun x hx => by simpa using (List.mem_filter.1 hx).2)
    (hs.filter _) (fun x hx => by simpa using (List.mem_filter.1 hx).2)
    (fun z hz => by simpa using (List.mem_filter.1 (List.mem_reverse.1 hz)).2)
  have hopt := coverableL_weight (v := v) h1 h2 hm
  have hperm : (sortDesc v items).Perm items := Cover.sortDesc_perm v items
  rw [← Cover.binSum_perm _ hperm, hsdef, ← binSum_classes (wt v c p) v B s] at hopt
  have hphi := phiY_le (v := v) h2 (s.filter (fun x => B ≤ 3 * v x ∧ 2 * v x < B))
    (fun y hy => by have := (List.mem_filter.1 hy).2; simp at this; exact this.2)
  generalize (Textbook.threeClass v B [] (s.filter (fun x => B ≤ 2 * v x))
    (s.filter (fun x => B ≤ 3 * v x ∧ 2 * v x < B)) (s.filter (fun x => 3 * v x < B)).reverse).length = A at *
  have h3 : c * (18 * m) ≤ c * (24 * A + 55) := by
    have e1 : c * (18 * m) = 6 * (m * (3 * c)) := by ring
    have e2 : c * (24 * A + 55) = 24 * (c * A) + 55 * c := by ring
    omega
  have := Nat.le_of_mul_le_mul_left h3 hc0
  omega

/-- `m` coverable → `3m ≤ 4·ALG + 9` (no positivity needed) -/
theorem threeQuarters_three_quarters_strong (hB : 0 < B) (hm : Coverable B m (items.map v)) :
    3 * m ≤ 4 * (threeQuarters v B items).lists.length + 9 :=
  threeQuarters_three_quarters_coverableL hB (Cover.coverable_coverableL hm)

/-- **C10 for the three-quarters algorithm** (as requested): `ALG ≥ 3/4·OPT − 4`, where `OPT` is any coverable
    number of bins.  (`threeQuarters_three_quarters_strong` has the additive constant `9` instead of `16`, and
    positivity of the values is not needed.) -/
theorem threeQuarters_three_quarters (hB : 0 < B) (_hpos : ∀ x ∈ items, 0 < v x)
    (hm : Coverable B m (items.map v)) : 3 * m ≤ 4 * (threeQuarters v B items).lists.length + 16 := by
  have := threeQuarters_three_quarters_strong hB hm
  omega

/-- the same against the oracle: `3·OPT ≤ 4·ALG + 9` with `OPT = optCover B values` -/
theorem threeQuarters_three_quarters_opt (hB : 0 < B) :
    3 * optCover B (items.map v) ≤ 4 * (threeQuarters v B items).lists.length + 9 :=
  threeQuarters_three_quarters_strong (v := v) (items := items) hB (Checkers.optCover_spec hB).1

/-- (ii) the bound for instances without medium items (a special case of the theorem) -/
theorem threeQuarters_no_medium (hB : 0 < B) (_hnm : ∀ x ∈ items, ¬ (B ≤ 3 * v x ∧ 2 * v x < B))
    (hm : Coverable B m (items.map v)) : 3 * m ≤ 4 * (threeQuarters v B items).lists.length + 9 :=
  threeQuarters_three_quarters_strong hB hm

/-- (iii) the bound for instances without big items (a special case of the theorem) -/
theorem threeQuarters_no_big (hB : 0 < B) (_hnb : ∀ x ∈ items, 2 * v x < B)
    (hm : Coverable B m (items.map v)) : 3 * m ≤ 4 * (threeQuarters v B items).lists.length + 9 :=
  threeQuarters_three_quarters_strong hB hm

end Theorem

/-! ## 7. Non-vacuity -/

/-- four bins of size 60 can be covered with these ten items … -/
theorem example_coverable :
    Coverable 60 4 (([43, 43, 43, 43, 22, 22, 15, 15, 2, 2] : List Nat).map id) :=
  Cover.coverableL_coverable
    ⟨[[43, 22], [43, 22], [43, 15, 2], [43, 15, 2]], rfl, by decide, [], by decide⟩

/-- … the algorithm covers three (two medium items and small items, then pairs of big items) -/
example : (threeQuarters id 60 [43, 43, 43, 43, 22, 22, 15, 15, 2, 2]).lists =
    [[22, 22, 2, 2, 15], [43, 15, 43], [43, 43]] := by decide

example : 3 * 4 ≤ 4 * (threeQuarters id 60 [43, 43, 43, 43, 22, 22, 15, 15, 2, 2]).lists.length + 16 :=
  threeQuarters_three_quarters (by decide) (by decide) example_coverable

example : 3 * 4 ≤ 4 * (threeQuarters id 60 [43, 43, 43, 43, 22, 22, 15, 15, 2, 2]).lists.length + 9 :=
  threeQuarters_three_quarters_strong (by decide) example_coverable

/-- no medium items: two bins can be covered, the algorithm covers two -/
theorem example_no_medium : Coverable 12 2 (([9, 8, 3, 3, 1] : List Nat).map id) :=
  Cover.coverableL_coverable ⟨[[9, 3], [8, 3, 1]], rfl, by decide, [], by decide⟩

example : 3 * 2 ≤ 4 * (threeQuarters id 12 [9, 8, 3, 3, 1]).lists.length + 9 :=
  threeQuarters_no_medium (by decide) (by decide) example_no_medium

/-- no big items: two bins can be covered, the algorithm covers one -/
theorem example_no_big : Coverable 12 2 (([5, 5, 4, 4, 3, 3] : List Nat).map id) :=
  Cover.coverableL_coverable ⟨[[5, 4, 3], [5, 4, 3]], rfl, by decide, [], by decide⟩

example : (threeQuarters id 12 [5, 5, 4, 4, 3, 3]).lists = [[5, 5, 3]] := by decide

example : 3 * 2 ≤ 4 * (threeQuarters id 12 [5, 5, 4, 4, 3, 3]).lists.length + 9 :=
  threeQuarters_no_big (by decide) (by decide) example_no_big

end Prtpy.Cover34

/-
#print axioms Prtpy.Cover34.threeQuarters_three_quarters
  'Prtpy.Cover34.threeQuarters_three_quarters' depends on axioms: [propext, Classical.choice, Quot.sound]
#print axioms Prtpy.Cover34.threeQuarters_three_quarters_strong
  'Prtpy.Cover34.threeQuarters_three_quarters_strong' depends on axioms: [propext, Classical.choice, Quot.sound]
#print axioms Prtpy.Cover34.threeQuarters_three_quarters_coverableL
  'Prtpy.Cover34.threeQuarters_three_quarters_coverableL' depends on axioms: [propext, Classical.choice, Quot.sound]
#print axioms Prtpy.Cover34.threeQuarters_three_quarters_opt
  'Prtpy.Cover34.threeQuarters_three_quarters_opt' depends on axioms: [propext, Classical.choice, Quot.sound]
#print axioms Prtpy.Cover34.threeQuarters_no_medium
  'Prtpy.Cover34.threeQuarters_no_medium' depends on axioms: [propext, Classical.choice, Quot.sound]
#print axioms Prtpy.Cover34.threeQuarters_no_big
  'Prtpy.Cover34.threeQuarters_no_big' depends on axioms: [propext, Classical.choice, Quot.sound]
#print axioms Prtpy.Cover34.threeClass_main_step
  'Prtpy.Cover34.threeClass_main_step' depends on axioms: [propext, Quot.sound]
#print axioms Prtpy.Cover34.main_bin_sum
  'Prtpy.Cover34.main_bin_sum' depends on axioms: [propext, Classical.choice, Quot.sound]
#print axioms Prtpy.Cover34.mainW
  'Prtpy.Cover34.mainW' depends on axioms: [propext, Classical.choice, Quot.sound]
-/
