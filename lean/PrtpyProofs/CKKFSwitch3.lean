/-
  PrtpyProofs.CKKFSwitch3 — property C01, totality part, for `snp` and `rnpF`: §5 and §6 of PrtpyProofs/Total.lean.

  Since fix F11 the 2-way search these algorithms call is `Prtpy.ckkF` (see PrtpyProofs/CKKFSwitch.lean); `ckk2_total`
  now follows from `CKKF.ckkF_fuel_sufficient`, and PrtpyProofs/CKKF.lean imports Total.lean (for `ckkFuel` and the
  potential argument), so these two sections are here, **same namespace `Prtpy.Total`, same names, same statements,
  same proofs**:

  * `snp_total`  : `snp` with fuel `ckkFuel 2 n` returns `.ok`;
  * `rnpF_total` : `rnpF` (numbins ≤ 5) with fuel `ckkFuel 2 n` returns `.ok`.
-/
import Prtpy
import PrtpyProofs.Part
import PrtpyProofs.CKK
import PrtpyProofs.CKKValid
import PrtpyProofs.CKKOpt
import PrtpyProofs.SNP
import PrtpyProofs.SNPOpt
import PrtpyProofs.RNPF
import PrtpyProofs.BCProofs
import PrtpyProofs.Total
import PrtpyProofs.CKKF
import Mathlib.Data.Nat.Factorial.Basic
open Prtpy

namespace Prtpy.Total

variable {α : Type}

/-! ## 5. SNP never fails

`findDiff items sub` can be empty only if `sub` holds all the items; the upper bound `sum(sub) ≤ total / c` of the
window excludes that as soon as the total is positive, and the total *is* positive at every level: at the top
because a zero total makes KK's answer perfect (`spread = 0`, early return), below because the remaining items
keep at least `(c - 1) / c` of a positive total.  So `ckk2` is never called on an empty list. -/

/-- totality rule for `treeFold`: `body` is only called on sub-collections inside the window -/
theorem treeFold_ok {σ : Type} (v : α → Nat) (den : Nat) (ub : Int) (lbOf : σ → Int)
    (body : σ → List α → Except Err σ) : ∀ (rest cur : List α),
    (∀ st s, s.Sublist rest → SNPProofs.inWin v den (lbOf st) ub (cur ++ s) = true →
      ∃ st', body st (cur ++ s) = .ok st') →
    ∀ st, ∃ st', treeFold v den ub lbOf body st cur rest = .ok st'
  | [], cur, hbody, st => by
    simp only [treeFold]
    split
    · exact ⟨st, rfl⟩
    · rename_i hp
      have := hbody st [] (List.Sublist.refl _) (by
        rw [List.append_nil]
        rw [SNPProofs.inexPrune_nil] at hp
        simpa using hp)
      simpa using this
  | x :: xs, cur, hbody, st => by
    simp only [treeFold]
    split
    · exact ⟨st, rfl⟩
    · obtain ⟨s1, h1⟩ := treeFold_ok v den ub lbOf body xs (cur ++ [x]) (fun st0 s hs hw => by
        have := hbody st0 (x :: s) (hs.cons_cons x) (by simpa using hw)
        simpa using this) st
      rw [h1]
      exact treeFold_ok v den ub lbOf body xs cur (fun st0 s hs hw => hbody st0 s (hs.cons x) hw) s1

theorem foldE_ok {σ β : Type} (P : σ → Prop) (f : σ → β → Except Err σ) :
    ∀ (l : List β), (∀ s x, x ∈ l → P s → ∃ s', f s x = .ok s' ∧ P s') →
      ∀ s, P s → ∃ s', foldE f s l = .ok s' ∧ P s'
  | [], _, s, hs => ⟨s, rfl, hs⟩
  | x :: xs, h, s, hs => by
    obtain ⟨s1, h1, hp1⟩ := h s x List.mem_cons_self hs
    simp only [foldE, h1]
    exact foldE_ok P f xs (fun s y hy => h s y (List.mem_cons_of_mem _ hy)) s1 hp1

theorem ckk2_total {v nm : α → Nat} [BEq α] {contents : Bool} {items : List α} {fuel n : Nat}
    (hf : ckkFuel 2 n ≤ fuel) (hne : items ≠ []) (hn : items.length ≤ n) :
    ∃ b, ckk2 v nm contents items fuel = .ok b := by
  unfold ckk2
  rw [if_neg (by simpa using hne)]
  exact CKKF.ckkF_fuel_sufficient (by decide) hne (Nat.le_trans (ckkFuel_mono 2 hn) hf)

theorem ne_nil_of_binSum_pos {v : α → Nat} {l : List α} (h : 0 < binSum v l) : l ≠ [] := by
  rintro rfl; simp at h

/-- the part of the items that stays after a sub-collection of total at most `total / c` (`c ≥ 2`) has been
    split off: no longer than the input, and of positive total -/
theorem findDiff_facts [BEq α] [LawfulBEq α] {v : α → Nat} {items sub : List α} {c : Nat} (hc : 2 ≤ c)
    (hsub : sub.Subperm items) (hw : ((binSum v sub : Nat) : Int) * (c : Nat) ≤ ((binSum v items : Nat) : Int))
    (hpos : 0 < binSum v items) :
    (findDiff items sub).length ≤ items.length ∧ binSum v sub + binSum v (findDiff items sub) = binSum v items ∧
      0 < binSum v (findDiff items sub) := by
  have hp := SNPProofs.findDiff_perm_of_subperm hsub
  have hl := hp.length_eq
  have hb := Part.binSum_perm v hp
  rw [List.length_append] at hl
  rw [SNPProofs.binSum_append] at hb
  have hw' : binSum v sub * c ≤ binSum v items := by exact_mod_cast hw
  have h2 : binSum v sub * 2 ≤ binSum v sub * c := Nat.mul_le_mul_left _ hc
  exact ⟨by omega, hb, by omega⟩

theorem inWin_ub {v : α → Nat} {den : Nat} {lb ub : Int} {s : List α} (h : SNPProofs.inWin v den lb ub s = true) :
    ((binSum v s : Nat) : Int) * (den : Nat) ≤ ub := by
  simp only [SNPProofs.inWin, Bool.and_eq_true, decide_eq_true_eq] at h
  exact h.2

theorem snpRec_total {v nm : α → Nat} [BEq α] [LawfulBEq α] (contents : Bool) {fuel n : Nat}
    (hf : ckkFuel 2 n ≤ fuel) (cur : Nat) :
    ∀ (prior best : Bins α) (items : List α), items.length ≤ n → 0 < binSum v items →
      ∃ b, snpRec v nm contents fuel cur prior best items = .ok b := by
  induction cur using Nat.strongRecOn with
  | ind c ih =>
    intro prior best items hn hpos
    match c with
    | 0 => exact ⟨best, by simp only [snpRec]⟩
    | 1 => exact ⟨best, by simp only [snpRec]⟩
    | 2 =>
      obtain ⟨two, h2⟩ := ckk2_total (v := v) (nm := nm) (contents := contents) hf (ne_nil_of_binSum_pos hpos) hn
      simp only [snpRec, h2]
      split <;> exact ⟨_, rfl⟩
    | c + 3 =>
      rw [snpRec]
      refine treeFold_ok v _ _ _ _ (sortDesc v items) [] ?_ best
      intro st s hs hw
      rw [List.nil_append] at hw ⊢
      have hsub : s.Subperm items := hs.subperm.trans (SNPProofs.sortDesc_perm v items).subperm
      obtain ⟨q1, _, q3⟩ := findDiff_facts (c := c + 3) (by omega) hsub (inWin_ub hw) hpos
      exact ih (c + 2) (by omega) _ st _ (by omega) q3

theorem maxL_le_sumL : ∀ l : List Nat, maxL l ≤ sumL l
  | [] => Nat.le_refl _
  | x :: xs => by
    have := maxL_le_sumL xs
    simp only [maxL, sumL]; omega

/-- a partition with a positive spread has a positive total -/
theorem binSum_pos_of_spread {v : α → Nat} {items : List α} {k : Nat} {b : Bins α} (h : IsPartition v items k b)
    (hs : spread b.sums ≠ 0) : 0 < binSum v items := by
  have h1 := SNPOpt.sumL_sums_of_partition h
  have h2 := maxL_le_sumL b.sums
  unfold spread at hs
  omega

/-- **C01 (totality) for SNP.**  For `0 < k` and a non-empty input, `snp` with CKK fuel `ckkFuel 2 n = 3 ^ n + 1`
    returns a result, for both managers: neither `Err.fuel` nor the `ValueError` of 2-way CKK on an empty list
    (which the model has, as the code has) is reachable.  Zero values are allowed. -/
theorem snp_total {v nm : α → Nat} [BEq α] [LawfulBEq α] {k : Nat} {contents : Bool} {items : List α} {fuel : Nat}
    (hk : 0 < k) (hne : items ≠ []) (hf : ckkFuel 2 items.length ≤ fuel) :
    ∃ b, snp v nm k contents items fuel = .ok b := by
  obtain ⟨best, hb, hbest⟩ := Part.kk_isPartition (v := v) hk hne
  simp only [snp, hb]
  split
  · exact ⟨_, rfl⟩
  · rename_i hsp
    exact snpRec_total contents hf k _ best items (Nat.le_refl _) (binSum_pos_of_spread hbest hsp)

/-- non-vacuity: six items, three bins, `3 ^ 6 + 1 = 730` -/
example : ∃ b, snp id id 3 true [5, 3, 3, 2, 2, 2] 730 = .ok b := snp_total (by decide) (by decide) (by decide)
example : ∃ b, snp id id 4 false [5, 0, 3, 0, 2, 2] 730 = .ok b := snp_total (by decide) (by decide) (by decide)

/-! ## 6. RNP (numbins ≤ 5) never fails

Besides the argument of SNP (odd levels), the even level (4 bins) splits the items with the 2-way generator and
runs 2-way CKK on both sides; a side is empty only if the difference of the split is the whole total, and the
generator only yields splits whose difference is *below* the incumbent spread.  The incumbent spread is at most the
largest item (KK's gap bound, `Part.kk_gap`), and the items that reach level 4 weigh at least that much. -/

/-- in bounded mode the generator only yields tuples whose spread is below the bound -/
theorem ckkGen_bounded_lt {v nm : α → Nat} [BEq α] {k : Nat} {items : List α} {d fuel : Nat} {ys : List (Bins α)}
    (hk : 0 < k) (h : ckkGen v nm k true items (some d) fuel = .ok ys) : ∀ y ∈ ys, spread y.sums < d := by
  have hinv := CKKValid.ckkRun_inv nm k true true false
    (fun s => CKKValid.SInv v k items s ∧ s.best = .fin (-(d : Int)) ∧ ∀ y ∈ s.yields, spread y.sums < d)
    (by
      rintro s ⟨hs, hb, hy⟩
      obtain ⟨_, hrel⟩ := CKKValid.ckkStep_cases nm k true true false s
      refine ⟨CKKValid.ckkStep_inv true false hs, ?_, ?_⟩
      · rcases hrel with ⟨h1, _, _⟩ | ⟨e, _, _, h1, _, _⟩
        · rw [h1]; exact hb
        · rw [h1]; simpa using hb
      · rcases hrel with ⟨_, h2, _⟩ | ⟨e, he, hlt, _, h2, _⟩
        · rw [h2]; exact hy
        · rw [h2]
          intro y hy'
          rcases List.mem_cons.1 hy' with rfl | hy'
          · have hd := (CKKValid.hinv_singleton (hs.stack _ he)).2
            rw [hb] at hlt
            simp only [EInt.lt, EInt.le, Bool.not_eq_true', decide_eq_false_iff_not] at hlt
            omega
          · exact hy y hy')
    fuel (ckkInit v k items (.fin (-(d : Int)))) ⟨CKKValid.ckkInit_inv hk items _, rfl, by simp [ckkInit]⟩
  simp only [ckkGen] at h
  split at h
  · cases h
  · cases h
    intro y hy
    exact hinv.2.2 y (List.mem_reverse.1 hy)

theorem le_binSum_of_mem (v : α → Nat) {l : List α} {x : α} (h : x ∈ l) : v x ≤ binSum v l := by
  induction l with
  | nil => cases h
  | cons y ys ih =>
    rw [SNPProofs.binSum_cons]
    rcases List.mem_cons.1 h with rfl | h
    · omega
    · have := ih h; omega

/-- both sides of a 2-way split whose difference is below the total are non-empty -/
theorem top_sides {v : α → Nat} {items : List α} {top : Bins α} {d : Nat} (h : IsPartition v items 2 top)
    (hlt : spread top.sums < d) (hd : d ≤ binSum v items) :
    (top.lists.getD 0 [] ≠ [] ∧ (top.lists.getD 0 []).length ≤ items.length) ∧
    (top.lists.getD 1 [] ≠ [] ∧ (top.lists.getD 1 []).length ≤ items.length) := by
  obtain ⟨tp, tl, tc⟩ := h
  match hl : top.lists, tl with
  | [a, b], _ =>
    rw [hl] at tp tc
    have hp : (a ++ b).Perm items := by simpa using tp
    have hlen := hp.length_eq
    have hsum := Part.binSum_perm v hp
    rw [List.length_append] at hlen
    rw [SNPProofs.binSum_append] at hsum
    rw [tc] at hlt
    simp only [List.map_cons, List.map_nil, SNPOpt.spread_pair] at hlt
    simp only [List.getD_cons_zero, List.getD_cons_succ]
    refine ⟨⟨?_, by omega⟩, ?_, by omega⟩
    · rintro rfl
      simp only [SNPProofs.binSum_nil] at hlt hsum
      omega
    · rintro rfl
      simp only [SNPProofs.binSum_nil] at hlt hsum
      omega

theorem genTree_mem_win {v : α → Nat} {den : Nat} {lb ub : Int} {items sub : List α}
    (h : sub ∈ genTree v den lb ub items) :
    sub.Subperm items ∧ ((binSum v sub : Nat) : Int) * (den : Nat) ≤ ub := by
  refine ⟨SNPProofs.genTree_mem_subperm h, ?_⟩
  rw [SNPProofs.genTree_eq', List.mem_filter] at h
  have := h.2
  simp only [Bool.and_eq_true, decide_eq_true_eq] at this
  exact this.2

/-! ### unfolding `rnpRecF` (either manager) -/

theorem rnpRecF_two_eq (v nm : α → Nat) [BEq α] (contents : Bool) (fuel rf : Nat) (prior best : Bins α)
    (items : List α) : rnpRecF v nm contents fuel (rf + 1) 2 prior best items = ckk2 v nm contents items fuel := by
  rw [rnpRecF]
  simp only [BEq.rfl, if_true]

/-- the loop body of the odd case -/
def oddStep (v nm : α → Nat) [BEq α] (contents : Bool) (fuel rf cur : Nat) (prior : Bins α) (items : List α)
    (best : Bins α) (sub : List α) : Except Err (Bins α) :=
  let prior2 : Bins α := ⟨prior.sums ++ [binSum v sub], prior.lists ++ [sub]⟩
  match rnpRecF v nm contents fuel rf (cur - 1) prior2 best (findDiff items sub) with
  | .error e => .error e
  | .ok nb =>
    if spread (nb.sums ++ prior2.sums) < spread best.sums then .ok (prior2.concat nb) else .ok best

theorem rnpRecF_odd_eq {v nm : α → Nat} [BEq α] {contents : Bool} {fuel rf cur : Nat} {prior best : Bins α}
    {items : List α} (hodd : cur % 2 = 1) :
    rnpRecF v nm contents fuel (rf + 1) cur prior best items =
      foldE (oddStep v nm contents fuel rf cur prior items) best
        (genTree v cur (((binSum v items : Nat) : Int) - ((cur : Int) - 1) * ((spread best.sums : Nat) : Int))
          ((binSum v items : Nat) : Int) items) := by
  rw [rnpRecF]
  have h2 : (cur == 2) = false := by
    cases hc : cur == 2 with
    | false => rfl
    | true => have := eq_of_beq hc; omega
  have h1 : (cur % 2 == 1) = true := by rw [hodd]; rfl
  simp only [h2, h1, Bool.false_eq_true, if_false, if_true]
  rfl

/-- if the recursive call succeeds, so does the iteration, and the incumbent spread does not grow -/
theorem oddStep_ok {v nm : α → Nat} [BEq α] {contents : Bool} {fuel rf cur : Nat} {prior : Bins α}
    {items : List α} {st : Bins α} {sub : List α} {nb : Bins α}
    (hr : rnpRecF v nm contents fuel rf (cur - 1) ⟨prior.sums ++ [binSum v sub], prior.lists ++ [sub]⟩ st
      (findDiff items sub) = .ok nb) :
    ∃ st', oddStep v nm contents fuel rf cur prior items st sub = .ok st' ∧ spread st'.sums ≤ spread st.sums := by
  unfold oddStep
  simp only [hr]
  split
  · rename_i hlt
    refine ⟨_, rfl, ?_⟩
    have e : spread (Bins.concat ⟨prior.sums ++ [binSum v sub], prior.lists ++ [sub]⟩ nb).sums
        = spread (nb.sums ++ (prior.sums ++ [binSum v sub])) := SNPOpt.spread_perm List.perm_append_comm
    rw [e]
    exact Nat.le_of_lt hlt
  · exact ⟨_, rfl, Nat.le_refl _⟩

/-- the loop body of the even case -/
def evenStep (v nm : α → Nat) [BEq α] (contents : Bool) (fuel rf half : Nat) (prior : Bins α)
    (st : Bins α × Nat) (top : Bins α) : Except Err (Bins α × Nat) :=
  let i1 := top.lists.getD 0 []
  let i2 := top.lists.getD 1 []
  match rnpRecF v nm contents fuel rf half prior st.1 i1 with
  | .error e => .error e
  | .ok nb1 =>
    match rnpRecF v nm contents fuel rf half prior st.1 i2 with
    | .error e => .error e
    | .ok nb2 =>
      let d := spread (nb1.sums ++ nb2.sums ++ prior.sums)
      if d < st.2 then .ok (nb1.concat nb2, d) else .ok st

theorem rnpRecF_four_eq {v nm : α → Nat} [BEq α] {contents : Bool} {fuel rf : Nat} {prior best : Bins α}
    {items : List α} :
    rnpRecF v nm contents fuel (rf + 1) 4 prior best items =
      match (if items.isEmpty then .error .valueError
             else ckkGen v nm 2 true items (some (spread best.sums)) fuel) with
      | .error e => .error e
      | .ok tops => (foldE (evenStep v nm contents fuel rf 2 prior) (best, spread best.sums) tops).map (·.1) := by
  rw [rnpRecF]
  simp only [show ((4 : Nat) == 2) = false from rfl, show ((4 : Nat) % 2 == 1) = false from rfl,
    show (4 : Nat) / 2 = 2 from rfl, Bool.false_eq_true, if_false]
  rfl

/-! ### the levels -/

section Levels
variable {v nm : α → Nat} [BEq α] [LawfulBEq α] {contents : Bool} {fuel n : Nat}

omit [LawfulBEq α] in
theorem rnpRecF_two_total (hf : ckkFuel 2 n ≤ fuel) (rf : Nat) (prior best : Bins α) {items : List α}
    (hne : items ≠ []) (hn : items.length ≤ n) :
    ∃ b, rnpRecF v nm contents fuel (rf + 1) 2 prior best items = .ok b := by
  rw [rnpRecF_two_eq]
  exact ckk2_total hf hne hn

theorem rnpRecF_three_total (hf : ckkFuel 2 n ≤ fuel) (rf : Nat) (prior best : Bins α) {items : List α}
    (hn : items.length ≤ n) (hpos : 0 < binSum v items) :
    ∃ b, rnpRecF v nm contents fuel (rf + 2) 3 prior best items = .ok b := by
  rw [rnpRecF_odd_eq (cur := 3) rfl]
  obtain ⟨b, hb, _⟩ := foldE_ok (fun _ => True) (oddStep v nm contents fuel (rf + 1) 3 prior items) _
    (fun st sub hsub _ => by
      obtain ⟨h1, h2⟩ := genTree_mem_win hsub
      obtain ⟨q1, _, q3⟩ := findDiff_facts (c := 3) (by omega) h1 h2 hpos
      obtain ⟨nb, hnb⟩ := rnpRecF_two_total (v := v) (nm := nm) (contents := contents) hf rf
        ⟨prior.sums ++ [binSum v sub], prior.lists ++ [sub]⟩ st (ne_nil_of_binSum_pos q3)
        (Nat.le_trans q1 hn)
      obtain ⟨st', h', _⟩ := oddStep_ok (cur := 3) hnb
      exact ⟨st', h', trivial⟩) best trivial
  exact ⟨b, hb⟩

omit [LawfulBEq α] in
theorem rnpRecF_four_total (hf : ckkFuel 2 n ≤ fuel) (rf : Nat) (prior best : Bins α) {items : List α}
    (hn : items.length ≤ n) (hpos : 0 < binSum v items) (hd : spread best.sums ≤ binSum v items) :
    ∃ b, rnpRecF v nm contents fuel (rf + 2) 4 prior best items = .ok b := by
  have hne := ne_nil_of_binSum_pos hpos
  rw [rnpRecF_four_eq, if_neg (by simpa using hne)]
  obtain ⟨tops, hg⟩ := ckkGen_fuel_sufficient (v := v) (nm := nm) (k := 2) (contents := true) (items := items)
    (bound := some (spread best.sums)) (by decide) (Nat.le_trans (ckkFuel_mono 2 hn) hf)
  rw [hg]
  have hvalid := CKKValid.ckkGen_yields (by decide) hg
  have hlt := ckkGen_bounded_lt (by decide) hg
  obtain ⟨st, hst, _⟩ := foldE_ok (fun _ => True) (evenStep v nm contents fuel (rf + 1) 2 prior) tops
    (fun st top htop _ => by
      obtain ⟨⟨a1, a2⟩, b1, b2⟩ := top_sides (hvalid top htop).1 (hlt top htop) hd
      obtain ⟨nb1, h1⟩ := rnpRecF_two_total (v := v) (nm := nm) (contents := contents) hf rf prior st.1 a1
        (Nat.le_trans a2 hn)
      obtain ⟨nb2, h2⟩ := rnpRecF_two_total (v := v) (nm := nm) (contents := contents) hf rf prior st.1 b1
        (Nat.le_trans b2 hn)
      unfold evenStep
      simp only [h1, h2]
      split <;> exact ⟨_, rfl, trivial⟩) (best, spread best.sums) trivial
  simp only [hst]
  exact ⟨_, rfl⟩

theorem rnpRecF_five_total (hf : ckkFuel 2 n ≤ fuel) (rf : Nat) (prior best : Bins α) {items : List α}
    (hn : items.length ≤ n) (hpos : 0 < binSum v items) {x : α} (hx : x ∈ items)
    (hsp : spread best.sums ≤ v x) :
    ∃ b, rnpRecF v nm contents fuel (rf + 3) 5 prior best items = .ok b := by
  rw [rnpRecF_odd_eq (cur := 5) rfl]
  obtain ⟨b, hb, _⟩ := foldE_ok (fun st : Bins α => spread st.sums ≤ v x)
    (oddStep v nm contents fuel (rf + 2) 5 prior items) _
    (fun st sub hsub hst => by
      obtain ⟨h1, h2⟩ := genTree_mem_win hsub
      obtain ⟨q1, q2, q3⟩ := findDiff_facts (c := 5) (by omega) h1 h2 hpos
      have hw' : binSum v sub * 5 ≤ binSum v items := by exact_mod_cast h2
      have hmem : x ∈ sub ∨ x ∈ findDiff items sub := by
        have := (SNPProofs.findDiff_perm_of_subperm h1).mem_iff.2 hx
        simpa using this
      have hbig : spread st.sums ≤ binSum v (findDiff items sub) := by
        rcases hmem with hm | hm
        · have := le_binSum_of_mem v hm; omega
        · have := le_binSum_of_mem v hm; omega
      obtain ⟨nb, hnb⟩ := rnpRecF_four_total (v := v) (nm := nm) (contents := contents) hf rf
        ⟨prior.sums ++ [binSum v sub], prior.lists ++ [sub]⟩ st (Nat.le_trans q1 hn) q3 hbig
      obtain ⟨st', h', hle⟩ := oddStep_ok (cur := 5) hnb
      exact ⟨st', h', Nat.le_trans hle hst⟩) best hsp
  exact ⟨b, hb⟩

end Levels

/-- **C01 (totality) for RNP** (`numbins ≤ 5`, the modelled range).  For a non-empty input, `rnpF` with CKK fuel
    `ckkFuel 2 n = 3 ^ n + 1` returns a result, for both managers (the recursion fuel `k + 1` of the model is
    enough, and the `ValueError` of 2-way CKK / of the 2-way generator on an empty list is not reachable). -/
theorem rnpF_total {v nm : α → Nat} [BEq α] [LawfulBEq α] {k : Nat} {contents : Bool} {items : List α} {fuel : Nat}
    (hk : 0 < k) (hk5 : k ≤ 5) (hne : items ≠ []) (hf : ckkFuel 2 items.length ≤ fuel) :
    ∃ b, rnpF v nm k contents items fuel = .ok b := by
  obtain ⟨best, hb, hbest⟩ := Part.kk_isPartition (v := v) hk hne
  have hgap : spread best.sums ≤ maxL (items.map v) := Part.kk_gap hk hne hb
  simp only [rnpF, hb]
  split
  · exact ⟨_, rfl⟩
  · rename_i hsp
    rw [if_neg (by omega)]
    have hpos := binSum_pos_of_spread hbest hsp
    have hle := Nat.le_refl items.length
    obtain rfl | rfl | rfl | rfl | rfl : k = 1 ∨ k = 2 ∨ k = 3 ∨ k = 4 ∨ k = 5 := by omega
    · exact absurd (SNPOpt.spread_one_bin hbest) hsp
    · exact rnpRecF_two_total hf 2 _ best hne hle
    · exact rnpRecF_three_total hf 2 _ best hle hpos
    · exact rnpRecF_four_total hf 3 _ best hle hpos (Nat.le_trans hgap (maxL_le_sumL _))
    · have hm : maxL (items.map v) ∈ items.map v := SNPProofs.maxL_mem (by simpa using hne)
      obtain ⟨x, hx, hvx⟩ := List.mem_map.1 hm
      exact rnpRecF_five_total hf 3 _ best hle hpos hx (by omega)

/-- non-vacuity: eight items, `3 ^ 8 + 1 = 6562` -/
example : ∃ b, rnpF id id 5 true [11, 9, 9, 6, 6, 4, 4, 4] 6562 = .ok b :=
  rnpF_total (by decide) (by decide) (by decide) (by decide)
example : ∃ b, rnpF id id 4 false [5, 3, 0, 3, 2, 2, 0, 2] 6562 = .ok b :=
  rnpF_total (by decide) (by decide) (by decide) (by decide)


end Prtpy.Total

/-
Axiom audit (output of `#print axioms` observed with `lake env lean`):

'Prtpy.Total.snp_total' depends on axioms: [propext, Classical.choice, Quot.sound]
'Prtpy.Total.rnpF_total' depends on axioms: [propext, Classical.choice, Quot.sound]
-/
