/-
  PrtpyProofs.CKK — `itertools.permutations` (lexPerms), `all_combinations` (C13c),
  validity of complete Karmarkar–Karp (C01) and of its generator (C11), 2-way optimality.
-/
import Prtpy
import Mathlib.Data.List.Nodup
import Mathlib.Data.List.Perm.Basic
open Prtpy

namespace Prtpy.CKKProofs

variable {α : Type}

/-! ## 1. `lexPerms` enumerates exactly the permutations -/

theorem removeAt_perm (h : List α) (i : Nat) (hi : i < h.length) :
    h.Perm (h[i] :: removeAt h i) := by
  have h1 : h = h.take i ++ (h[i] :: h.drop (i + 1)) := by
    rw [← List.drop_eq_getElem_cons hi, List.take_append_drop]
  unfold removeAt
  exact (List.Perm.of_eq h1).trans List.perm_middle

theorem removeAt_length (h : List α) (i : Nat) (hi : i < h.length) :
    (removeAt h i).length + 1 = h.length := by
  have := (removeAt_perm h i hi).length_eq
  simp only [List.length_cons] at this
  omega

theorem removeAt_sublist (h : List α) (i : Nat) : (removeAt h i).Sublist h := by
  unfold removeAt
  conv => rhs; rw [← List.take_append_drop i h]
  exact List.Sublist.append (List.Sublist.refl _) (List.drop_sublist_drop_left h (Nat.le_succ i))

theorem lexPermsAux_succ_cons (n : Nat) (a : α) (t : List α) :
    lexPermsAux (n + 1) (a :: t) =
      (List.range (a :: t).length).flatMap fun i =>
        match (a :: t)[i]? with
        | none => []
        | some x => (lexPermsAux n (removeAt (a :: t) i)).map (x :: ·) := rfl

theorem mem_lexPermsAux_succ {n : Nat} {l p : List α} (hl : l.length = n + 1) :
    p ∈ lexPermsAux (n + 1) l ↔
      ∃ i, ∃ hi : i < l.length, ∃ q, q ∈ lexPermsAux n (removeAt l i) ∧ p = l[i] :: q := by
  cases l with
  | nil => simp at hl
  | cons a t =>
    rw [lexPermsAux_succ_cons, List.mem_flatMap]
    constructor
    · rintro ⟨i, hi, hp⟩
      have hi' : i < (a :: t).length := List.mem_range.1 hi
      rw [List.getElem?_eq_getElem hi'] at hp
      obtain ⟨q, hq, rfl⟩ := List.mem_map.1 hp
      exact ⟨i, hi', q, hq, rfl⟩
    · rintro ⟨i, hi, q, hq, rfl⟩
      refine ⟨i, List.mem_range.2 hi, ?_⟩
      rw [List.getElem?_eq_getElem hi]
      exact List.mem_map.2 ⟨q, hq, rfl⟩

theorem mem_lexPermsAux (n : Nat) (l p : List α) (hl : l.length = n) :
    p ∈ lexPermsAux n l ↔ p.Perm l := by
  induction n generalizing l p with
  | zero =>
    have : l = [] := List.length_eq_zero_iff.1 hl
    subst this
    simp [lexPermsAux]
  | succ n ih =>
    rw [mem_lexPermsAux_succ hl]
    constructor
    · rintro ⟨i, hi, q, hq, rfl⟩
      have hlen : (removeAt l i).length = n := by have := removeAt_length l i hi; omega
      have hq' := (ih _ q hlen).1 hq
      exact (List.Perm.cons _ hq').trans (removeAt_perm l i hi).symm
    · intro hp
      cases p with
      | nil => have := hp.length_eq; simp [hl] at this
      | cons x q =>
        have hx : x ∈ l := hp.subset (List.mem_cons_self)
        obtain ⟨i, hi, rfl⟩ := List.mem_iff_getElem.1 hx
        have hlen : (removeAt l i).length = n := by have := removeAt_length l i hi; omega
        refine ⟨i, hi, q, (ih _ q hlen).2 ?_, rfl⟩
        exact (hp.trans (removeAt_perm l i hi)).cons_inv

/-- every list produced by `lexPerms l` is a permutation of `l` -/
theorem lexPerms_perm {l p : List α} (h : p ∈ lexPerms l) : p.Perm l :=
  (mem_lexPermsAux l.length l p rfl).1 h

/-- every permutation of `l` is produced (no `Nodup` hypothesis needed) -/
theorem lexPerms_complete {l p : List α} (h : p.Perm l) : p ∈ lexPerms l :=
  (mem_lexPermsAux l.length l p rfl).2 h

theorem mem_lexPerms {l p : List α} : p ∈ lexPerms l ↔ p.Perm l :=
  mem_lexPermsAux l.length l p rfl

theorem lexPermsAux_nodup (n : Nat) (l : List α) (hl : l.length = n) (hnd : l.Nodup) :
    (lexPermsAux n l).Nodup := by
  induction n generalizing l with
  | zero =>
    have : l = [] := List.length_eq_zero_iff.1 hl
    subst this
    simp [lexPermsAux]
  | succ n ih =>
    cases l with
    | nil => simp at hl
    | cons a t =>
      rw [lexPermsAux_succ_cons, List.nodup_flatMap]
      constructor
      · intro i hi
        have hi' : i < (a :: t).length := List.mem_range.1 hi
        rw [List.getElem?_eq_getElem hi']
        have hlen : (removeAt (a :: t) i).length = n := by
          have := removeAt_length (a :: t) i hi'; omega
        refine (ih _ hlen (hnd.sublist (removeAt_sublist _ i))).map ?_
        intro p q hpq
        exact (List.cons.inj hpq).2
      · refine List.Pairwise.imp_of_mem ?_ (List.nodup_range (n := (a :: t).length))
        intro i j hi hj hij
        have hi' : i < (a :: t).length := List.mem_range.1 hi
        have hj' : j < (a :: t).length := List.mem_range.1 hj
        simp only [Function.onFun]
        rw [List.getElem?_eq_getElem hi', List.getElem?_eq_getElem hj']
        intro p hp1 hp2
        obtain ⟨q1, _, rfl⟩ := List.mem_map.1 hp1
        obtain ⟨q2, _, h2⟩ := List.mem_map.1 hp2
        have := (List.cons.inj h2).1
        exact hij ((List.Nodup.getElem_inj_iff hnd).1 this.symm)

theorem lexPerms_nodup {l : List α} (h : l.Nodup) : (lexPerms l).Nodup :=
  lexPermsAux_nodup l.length l rfl h

example : [2, 0, 1] ∈ lexPerms (List.range 3) := lexPerms_complete (by decide)
example : (lexPerms (List.range 3)).Nodup := lexPerms_nodup List.nodup_range
example : ([1, 0] : List Nat).Perm (List.range 2) := lexPerms_perm (by decide)

/-! ## 2. `all_combinations` (C13c) -/

/-- canonical form of a pairing for the sums manager -/
def canonS (b1 b2 : List Nat) (perm : List Nat) : List Nat :=
  sortAsc id (List.zipWith (fun p s2 => b1.getD p 0 + s2) perm b2)

theorem allCombSumsAux_cons (b1 b2 : List Nat) (perm : List Nat) (rest acc : List (List Nat)) :
    allCombSumsAux b1 b2 (perm :: rest) acc =
      if canonS b1 b2 perm ∈ acc then allCombSumsAux b1 b2 rest acc
      else allCombSumsAux b1 b2 rest (canonS b1 b2 perm :: acc) := by
  by_cases h : canonS b1 b2 perm ∈ acc
  · rw [if_pos h]
    have h' : acc.contains (canonS b1 b2 perm) = true := List.contains_iff_mem.2 h
    simp only [allCombSumsAux]
    unfold canonS at h'
    rw [if_pos h']
  · rw [if_neg h]
    have h' : ¬ acc.contains (canonS b1 b2 perm) = true := fun hc => h (List.contains_iff_mem.1 hc)
    simp only [allCombSumsAux]
    unfold canonS at h'
    rw [if_neg h']
    rfl

theorem mem_allCombSumsAux (b1 b2 : List Nat) (perms acc : List (List Nat)) (s : List Nat) :
    s ∈ allCombSumsAux b1 b2 perms acc ↔ s ∈ acc ∨ ∃ perm ∈ perms, s = canonS b1 b2 perm := by
  induction perms generalizing acc with
  | nil => simp [allCombSumsAux]
  | cons perm rest ih =>
    rw [allCombSumsAux_cons]
    split
    · rename_i hmem
      rw [ih]
      constructor
      · rintro (h | ⟨p, hp, rfl⟩)
        · exact Or.inl h
        · exact Or.inr ⟨p, List.mem_cons_of_mem _ hp, rfl⟩
      · rintro (h | ⟨p, hp, rfl⟩)
        · exact Or.inl h
        · rcases List.mem_cons.1 hp with rfl | hp
          · exact Or.inl hmem
          · exact Or.inr ⟨p, hp, rfl⟩
    · rw [ih]
      constructor
      · rintro (h | ⟨p, hp, rfl⟩)
        · rcases List.mem_cons.1 h with rfl | h
          · exact Or.inr ⟨perm, List.mem_cons_self, rfl⟩
          · exact Or.inl h
        · exact Or.inr ⟨p, List.mem_cons_of_mem _ hp, rfl⟩
      · rintro (h | ⟨p, hp, rfl⟩)
        · exact Or.inl (List.mem_cons_of_mem _ h)
        · rcases List.mem_cons.1 hp with rfl | hp
          · exact Or.inl List.mem_cons_self
          · exact Or.inr ⟨p, hp, rfl⟩

theorem allCombSumsAux_nodup (b1 b2 : List Nat) (perms acc : List (List Nat)) (h : acc.Nodup) :
    (allCombSumsAux b1 b2 perms acc).Nodup := by
  induction perms generalizing acc with
  | nil => simpa [allCombSumsAux] using h
  | cons perm rest ih =>
    rw [allCombSumsAux_cons]
    split
    · exact ih acc h
    · rename_i hmem
      exact ih _ (List.nodup_cons.2 ⟨hmem, h⟩)

theorem allCombSums_sound {b1 b2 : List Nat} {k : Nat} (hk : b1.length = k) {s : List Nat}
    (h : s ∈ allCombSums b1 b2) :
    ∃ perm : List Nat, perm.Perm (List.range k) ∧
      s = sortAsc id (List.zipWith (fun p s2 => b1.getD p 0 + s2) perm b2) := by
  unfold allCombSums at h
  rcases (mem_allCombSumsAux b1 b2 _ [] s).1 h with h | ⟨perm, hp, rfl⟩
  · simp at h
  · exact ⟨perm, hk ▸ lexPerms_perm hp, rfl⟩

theorem allCombSums_complete {b1 b2 : List Nat} {k : Nat} (hk : b1.length = k) {perm : List Nat}
    (h : perm.Perm (List.range k)) :
    sortAsc id (List.zipWith (fun p s2 => b1.getD p 0 + s2) perm b2) ∈ allCombSums b1 b2 := by
  unfold allCombSums
  exact (mem_allCombSumsAux b1 b2 _ [] _).2 (Or.inr ⟨perm, lexPerms_complete (hk ▸ h), rfl⟩)

theorem allCombSums_nodup (b1 b2 : List Nat) : (allCombSums b1 b2).Nodup :=
  allCombSumsAux_nodup b1 b2 _ [] List.nodup_nil

example : [3, 3, 6] ∈ allCombSums [1, 2, 3] [1, 2, 3] :=
  allCombSums_complete (k := 3) rfl (perm := [1, 0, 2]) (by decide)
example : ∃ perm : List Nat, perm.Perm (List.range 2) ∧
    [5, 5] = sortAsc id (List.zipWith (fun p s2 => [1, 4].getD p 0 + s2) perm [1, 4]) :=
  allCombSums_sound (k := 2) rfl (by decide)

end Prtpy.CKKProofs
