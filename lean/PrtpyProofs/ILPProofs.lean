/-
  PrtpyProofs.ILPProofs — C17: the integer-programming partitioner (`partitioning/integer_programming.py`,
  model `Prtpy.ILP`).  The MIP solver is trusted to return an optimal point of the formulation; everything
  here is about the formulation (rows, objective row) and the read-back of the solver's answer.

  Main results (all in `Prtpy.ILPProofs`):
  1. `rows_iff_feasible` (`rows_iff_feasible'` : `satisfies s p = feasible s p` for `0 < k`, no other hypothesis):
     the linear rows say exactly "each item `copies[i]` times, weighted sums ascending, caller constraints".
     Key evaluations: `dot_unit`, `dot_binSumExpr`, `dot_itemRow`, linearity `dot_addV`/`dot_negV`/`dot_sumV`.
  2. `objective_is_documented` (`objValue_eq_docValue`, `docValue_unit`).
  3. `decode_copies`, `decode_copies_feasible`, `decode_isPartition`, `decodeRaw_lists` (the bins literally),
     `count_binOf`, `count_bin_nodup`, `count_total_nodup`.
  4. `result_order`: for a feasible point and positive weights `decode = decodeRaw` in *both* branches of fix F4
     (the stable sort moves nothing because equal positive weights make the raw sums ascending already).
  5. `mem_compositions`, `mem_allPoints`, `ilpBest_spec`, `ilpBest_none`, `ilpBest_rows`.
  6. `unit_weights_wlog`, `equal_weights_scale`, `ilpBest_scale`, `argmin_scale`, `equal_weights_same_as_none`.
  7. `solver_answer_spec`: the assembled statement of C17 for an optimal answer of the solver.

  Rational arithmetic: `decide` does not evaluate `Rat`, so the concrete examples go through the Prop-level
  reading `feasible_iff` and `norm_num`.
-/
import Prtpy
import PrtpyProofs.Oracle
import PrtpyProofs.Obj
import PrtpyProofs.BinsOps
import Mathlib.Tactic.Ring
import Mathlib.Tactic.Linarith
import Mathlib.Algebra.Order.Field.Rat
import Mathlib.Tactic.NormNum
import Mathlib.Data.List.Perm.Basic
open Prtpy Prtpy.ILP

namespace Prtpy.ILPProofs

/-! ## 0. finite sums of rationals -/

/-- `Σ_{j < N} h j` -/
def rsum : Nat → (Nat → Rat) → Rat
  | 0, _ => 0
  | N + 1, h => rsum N h + h N

@[simp] theorem rsum_zero (h : Nat → Rat) : rsum 0 h = 0 := rfl
theorem rsum_succ (N : Nat) (h : Nat → Rat) : rsum (N + 1) h = rsum N h + h N := rfl

theorem rsum_congr {N : Nat} {f g : Nat → Rat} (h : ∀ j, j < N → f j = g j) : rsum N f = rsum N g := by
  induction N with
  | zero => rfl
  | succ N ih =>
    rw [rsum_succ, rsum_succ, ih (fun j hj => h j (by omega)), h N (by omega)]

theorem rsum_add (N : Nat) (f g : Nat → Rat) : rsum N (fun j => f j + g j) = rsum N f + rsum N g := by
  induction N with
  | zero => simp
  | succ N ih => rw [rsum_succ, rsum_succ, rsum_succ, ih]; ring

theorem rsum_neg (N : Nat) (f : Nat → Rat) : rsum N (fun j => -f j) = -rsum N f := by
  induction N with
  | zero => simp
  | succ N ih => rw [rsum_succ, rsum_succ, ih]; ring

theorem rsum_mul_right (N : Nat) (f : Nat → Rat) (c : Rat) : rsum N (fun j => f j * c) = rsum N f * c := by
  induction N with
  | zero => simp
  | succ N ih => rw [rsum_succ, rsum_succ, ih]; ring

theorem rsum_const_zero (N : Nat) : rsum N (fun _ => 0) = 0 := by
  induction N with
  | zero => rfl
  | succ N ih => rw [rsum_succ, ih]; ring

theorem rsum_append (A B : Nat) (h : Nat → Rat) :
    rsum (A + B) h = rsum A h + rsum B (fun j => h (A + j)) := by
  induction B with
  | zero => simp
  | succ B ih => rw [← Nat.add_assoc, rsum_succ, rsum_succ, ih]; ring

/-- a sum over `n * k` flattened indices is a double sum -/
theorem rsum_mul (n k : Nat) (h : Nat → Rat) :
    rsum (n * k) h = rsum n (fun i => rsum k (fun c => h (i * k + c))) := by
  induction n with
  | zero => simp
  | succ n ih => rw [Nat.succ_mul, rsum_append, ih, rsum_succ]

/-- a sum with a single non-zero term -/
theorem rsum_ite_eq (N b : Nat) (hb : b < N) (f : Nat → Rat) :
    rsum N (fun j => if j = b then f j else 0) = f b := by
  induction N with
  | zero => omega
  | succ N ih =>
    rw [rsum_succ]
    by_cases h : b = N
    · subst h
      rw [rsum_congr (g := fun _ => 0) (fun j hj => by simp; intro; omega), rsum_const_zero]
      simp
    · rw [ih (by omega), if_neg (fun e => h e.symm)]; ring

theorem rsum_natCast (N : Nat) (f : Nat → Nat) :
    rsum N (fun j => ((f j : Nat) : Rat)) = ((sumL ((List.range N).map f) : Nat) : Rat) := by
  induction N with
  | zero => simp
  | succ N ih =>
    rw [rsum_succ, ih, List.range_succ, List.map_append, Oracle.sumL_append]
    simp

/-! ## 1. `dot` and the vector operations -/

theorem foldl_add_init (l : List Rat) (c : Rat) : l.foldl (· + ·) c = c + l.foldl (· + ·) 0 := by
  induction l generalizing c with
  | nil => simp
  | cons a l ih => rw [List.foldl_cons, List.foldl_cons, ih, ih (0 + a)]; ring

@[simp] theorem dot_nil_left (x : List Rat) : dot [] x = 0 := by simp [dot]
@[simp] theorem dot_nil_right (a : List Rat) : dot a [] = 0 := by simp [dot]

theorem dot_cons (a : Rat) (as : List Rat) (x : Rat) (xs : List Rat) :
    dot (a :: as) (x :: xs) = a * x + dot as xs := by
  simp only [dot, List.zipWith_cons_cons, List.foldl_cons]
  rw [foldl_add_init]; ring

theorem dot_append (a₁ a₂ x₁ x₂ : List Rat) (h : a₁.length = x₁.length) :
    dot (a₁ ++ a₂) (x₁ ++ x₂) = dot a₁ x₁ + dot a₂ x₂ := by
  induction a₁ generalizing x₁ with
  | nil =>
    have : x₁ = [] := List.length_eq_zero_iff.1 h.symm
    subst this; simp
  | cons a as ih =>
    cases x₁ with
    | nil => simp at h
    | cons x xs =>
      simp only [List.cons_append, dot_cons]
      rw [ih xs (by simpa using h)]; ring

/-- the inner product of two tabulated vectors -/
theorem dot_range (N : Nat) (f g : Nat → Rat) :
    dot ((List.range N).map f) ((List.range N).map g) = rsum N (fun j => f j * g j) := by
  induction N with
  | zero => simp
  | succ N ih =>
    rw [List.range_succ, List.map_append, List.map_append, dot_append _ _ _ _ (by simp), ih, rsum_succ]
    simp [dot_cons]

theorem dot_addV (a b x : List Rat) (h : a.length = b.length) :
    dot (addV a b) x = dot a x + dot b x := by
  induction a generalizing b x with
  | nil =>
    have : b = [] := List.length_eq_zero_iff.1 h.symm
    subst this; simp [addV]
  | cons a as ih =>
    cases b with
    | nil => simp at h
    | cons b bs =>
      cases x with
      | nil => simp
      | cons x xs =>
        simp only [addV, List.zipWith_cons_cons, dot_cons]
        have := ih bs xs (by simpa using h)
        simp only [addV] at this
        rw [this]; ring

theorem dot_negV (a x : List Rat) : dot (negV a) x = -dot a x := by
  induction a generalizing x with
  | nil => simp [negV]
  | cons a as ih =>
    cases x with
    | nil => simp
    | cons x xs =>
      simp only [negV, List.map_cons, dot_cons]
      have := ih xs
      simp only [negV] at this
      rw [this]; ring

theorem dot_zeros (N : Nat) (x : List Rat) : dot (List.replicate N 0) x = 0 := by
  induction N generalizing x with
  | zero => simp
  | succ N ih =>
    cases x with
    | nil => simp
    | cons x xs => rw [List.replicate_succ, dot_cons, ih]; ring

@[simp] theorem length_addV (a b : List Rat) : (addV a b).length = min a.length b.length := by
  simp [addV]
@[simp] theorem length_negV (a : List Rat) : (negV a).length = a.length := by simp [negV]
@[simp] theorem length_unit (s : Spec) (i b : Nat) : (unit s i b).length = nvars s := by simp [unit]
@[simp] theorem length_binSumExpr (s : Spec) (b : Nat) : (binSumExpr s b).length = nvars s := by
  simp [binSumExpr]
@[simp] theorem length_zeroV (s : Spec) : (zeroV s).length = nvars s := by simp [zeroV]
@[simp] theorem length_flat (s : Spec) (p : Point) : (flat s p).length = nvars s := by simp [flat]

theorem foldl_addV_spec (N : Nat) (l : List (List Rat)) (acc x : List Rat) (hacc : acc.length = N)
    (hl : ∀ a ∈ l, a.length = N) :
    (l.foldl addV acc).length = N ∧
      dot (l.foldl addV acc) x = l.foldl (fun r a => r + dot a x) (dot acc x) := by
  induction l generalizing acc with
  | nil => exact ⟨hacc, rfl⟩
  | cons a l ih =>
    have ha := hl a (by simp)
    simp only [List.foldl_cons]
    rw [← dot_addV acc a x (by omega)]
    exact ih (addV acc a) (by simp [hacc, ha]) (fun a' h' => hl a' (List.mem_cons_of_mem _ h'))

/-- linearity of `dot` over `sumV` -/
theorem dot_sumV (s : Spec) (l : List (List Rat)) (x : List Rat) (hl : ∀ a ∈ l, a.length = nvars s) :
    dot (sumV s l) x = sumRat (l.map (fun a => dot a x)) := by
  unfold sumV sumRat
  rw [(foldl_addV_spec (nvars s) l (zeroV s) x (by simp) hl).2, List.foldl_map]
  simp [zeroV, dot_zeros]

theorem length_sumV (s : Spec) (l : List (List Rat)) (hl : ∀ a ∈ l, a.length = nvars s) :
    (sumV s l).length = nvars s :=
  (foldl_addV_spec (nvars s) l (zeroV s) [] (by simp) hl).1

theorem sumRat_map_range (N : Nat) (f : Nat → Rat) : sumRat ((List.range N).map f) = rsum N f := by
  induction N with
  | zero => simp [sumRat]
  | succ N ih =>
    unfold sumRat at ih ⊢
    rw [List.range_succ, List.map_append, List.foldl_append, ih]
    simp [rsum_succ]

/-- entry `counts[i][b]` of a point (0 outside the shape) -/
def entry (p : Point) (i b : Nat) : Nat := (p.getD i []).getD b 0

theorem flat_eq (s : Spec) (p : Point) :
    flat s p = (List.range (nvars s)).map fun j => ((entry p (j / s.k) (j % s.k) : Nat) : Rat) := rfl

theorem rawSum_eq (s : Spec) (p : Point) (b : Nat) :
    rawSum s p b = sumL ((List.range s.vals.length).map fun i => entry p i b * s.vals.getD i 0) := rfl

theorem index_lt {n k i b : Nat} (hi : i < n) (hb : b < k) : i * k + b < n * k := by
  calc i * k + b < i * k + k := by omega
    _ = (i + 1) * k := by rw [Nat.succ_mul]
    _ ≤ n * k := Nat.mul_le_mul_right k hi

theorem index_div {k i b : Nat} (hb : b < k) : (i * k + b) / k = i := by
  rw [Nat.mul_comm, Nat.mul_add_div (by omega), Nat.div_eq_of_lt hb]; rfl

theorem index_mod {k i b : Nat} (hb : b < k) : (i * k + b) % k = b := by
  rw [Nat.mul_comm, Nat.mul_add_mod, Nat.mod_eq_of_lt hb]

/-- **the variable `counts[i][b]`** -/
theorem dot_unit (s : Spec) (p : Point) {i b : Nat} (hi : i < s.vals.length) (hb : b < s.k) :
    dot (unit s i b) (flat s p) = ((entry p i b : Nat) : Rat) := by
  rw [flat_eq, unit, dot_range]
  rw [rsum_congr (g := fun j => if j = i * s.k + b then
      ((entry p (j / s.k) (j % s.k) : Nat) : Rat) else 0) (fun j _ => by split <;> simp)]
  rw [rsum_ite_eq _ _ (show i * s.k + b < nvars s from index_lt hi hb), index_div hb, index_mod hb]

/-- **the linear expression `bin_sums[b]` evaluates to the weighted sum of bin `b`** -/
theorem dot_binSumExpr (s : Spec) (p : Point) {b : Nat} (hb : b < s.k) :
    dot (binSumExpr s b) (flat s p) = wSum s p b := by
  have hk : s.k ≠ 0 := by omega
  rw [flat_eq, binSumExpr, dot_range, nvars, rsum_mul]
  rw [rsum_congr (g := fun i => ((entry p i b * s.vals.getD i 0 : Nat) : Rat) *
      (((s.weights.getD b 1 : Nat) : Rat))⁻¹)]
  · rw [rsum_mul_right, rsum_natCast, wSum, rawSum_eq, div_eq_mul_inv]
  · intro i _
    rw [rsum_congr (g := fun c => if c = b then
        ((s.vals.getD i 0 : Nat) : Rat) / ((s.weights.getD b 1 : Nat) : Rat) * ((entry p i c : Nat) : Rat)
        else 0)]
    · rw [rsum_ite_eq _ _ hb]; push_cast; ring
    · intro c hc
      rw [index_div hc, index_mod hc]
      by_cases h : c = b
      · simp [h, hk]
      · simp [h]

theorem getD_map_range {β : Type} (l : List β) (d : β) :
    (List.range l.length).map (fun b => l.getD b d) = l := by
  apply List.ext_getElem
  · simp
  · intro i h1 h2
    simp [List.getD_eq_getElem?_getD, List.getElem?_eq_getElem h2]

/-- **the row sum `Σ_b counts[i][b]`** -/
theorem dot_itemRow (s : Spec) (p : Point) {i : Nat} (hi : i < s.vals.length)
    (hrow : (p.getD i []).length = s.k) :
    dot (sumV s ((List.range s.k).map fun b => unit s i b)) (flat s p) = ((sumL (p.getD i []) : Nat) : Rat) := by
  rw [dot_sumV _ _ _ (by intro a ha; obtain ⟨b, _, rfl⟩ := List.mem_map.1 ha; simp), List.map_map,
    sumRat_map_range]
  rw [rsum_congr (g := fun b => ((entry p i b : Nat) : Rat))
    (fun b hb => by simp only [Function.comp]; exact dot_unit s p hi hb), rsum_natCast]
  congr 2
  unfold entry
  rw [← hrow, getD_map_range]

/-! ### `ascending` -/

theorem ascending_cons_cons (a b : Rat) (l : List Rat) :
    ascending (a :: b :: l) = (decide (a ≤ b) && ascending (b :: l)) := rfl

theorem ascending_iff_pairwise (l : List Rat) : ascending l = true ↔ l.Pairwise (· ≤ ·) := by
  induction l with
  | nil => simp [ascending]
  | cons a l ih =>
    cases l with
    | nil => simp [ascending]
    | cons b l =>
      rw [ascending_cons_cons, Bool.and_eq_true, ih, decide_eq_true_iff, List.pairwise_cons (a := a)]
      constructor
      · rintro ⟨hab, hbl⟩
        refine ⟨?_, hbl⟩
        intro c hc
        rcases List.mem_cons.1 hc with rfl | hc
        · exact hab
        · exact le_trans hab ((List.pairwise_cons.1 hbl).1 c hc)
      · rintro ⟨ha, hbl⟩
        exact ⟨ha b (by simp), hbl⟩

theorem ascending_iff_step (l : List Rat) :
    ascending l = true ↔ ∀ b, b + 1 < l.length → l.getD b 0 ≤ l.getD (b + 1) 0 := by
  induction l with
  | nil => simp [ascending]
  | cons a l ih =>
    cases l with
    | nil => simp [ascending]
    | cons c l =>
      rw [ascending_cons_cons, Bool.and_eq_true, ih, decide_eq_true_iff]
      constructor
      · rintro ⟨hab, h⟩ b hb
        cases b with
        | zero => simpa using hab
        | succ b => simpa using h b (by simpa using hb)
      · intro h
        refine ⟨by simpa using h 0 (by simp), ?_⟩
        intro b hb
        simpa using h (b + 1) (by simpa using hb)

theorem ascending_map_range (k : Nat) (f : Nat → Rat) :
    ascending ((List.range k).map f) = true ↔ ∀ b, b + 1 < k → f b ≤ f (b + 1) := by
  rw [ascending_iff_step]
  simp only [List.length_map, List.length_range]
  constructor
  · intro h b hb
    have := h b hb
    simpa [List.getD_eq_getElem?_getD, List.getElem?_range, hb, (by omega : b < k)] using this
  · intro h b hb
    simpa [List.getD_eq_getElem?_getD, List.getElem?_range, hb, (by omega : b < k)] using h b hb

theorem wSums_headD (s : Spec) (p : Point) (hk : 0 < s.k) : (wSums s p).headD 0 = wSum s p 0 := by
  unfold wSums
  obtain ⟨k, hk'⟩ : ∃ k, s.k = k + 1 := ⟨s.k - 1, by omega⟩
  rw [hk', List.range_succ_eq_map]; rfl

theorem wSums_getLast (s : Spec) (p : Point) (hk : 0 < s.k) :
    (wSums s p).getLast?.getD 0 = wSum s p (s.k - 1) := by
  unfold wSums
  obtain ⟨k, hk'⟩ : ∃ k, s.k = k + 1 := ⟨s.k - 1, by omega⟩
  rw [hk', List.range_succ, List.map_append]; simp

/-! ## 2. the rows say exactly what is documented -/

theorem all_congr_mem {β : Type} {l : List β} {f g : β → Bool} (h : ∀ a ∈ l, f a = g a) :
    l.all f = l.all g := by
  induction l with
  | nil => rfl
  | cons a l ih =>
    rw [List.all_cons, List.all_cons, h a (by simp), ih (fun b hb => h b (List.mem_cons_of_mem _ hb))]

theorem conRow_holds (s : Spec) (p : Point) (hk : 0 < s.k) (c : Con) :
    (conRow s c).holds (flat s p) = c.holdsOn (wSums s p) := by
  cases c with
  | smallestEq c =>
    simp only [conRow, Row.holds, Con.holdsOn, dot_binSumExpr s p hk, wSums_headD s p hk]
  | largestLe c =>
    simp only [conRow, Row.holds, Con.holdsOn, dot_binSumExpr s p (by omega : s.k - 1 < s.k),
      wSums_getLast s p hk]
  | smallestGe c =>
    simp only [conRow, Row.holds, Con.holdsOn, dot_binSumExpr s p hk, wSums_headD s p hk]

theorem shaped_iff (s : Spec) (p : Point) :
    shaped s p = true ↔ p.length = s.vals.length ∧ ∀ r ∈ p, r.length = s.k := by
  simp [shaped]

theorem shaped_row {s : Spec} {p : Point} (h : shaped s p = true) {i : Nat} (hi : i < s.vals.length) :
    (p.getD i []).length = s.k := by
  obtain ⟨hl, hr⟩ := (shaped_iff s p).1 h
  have hi' : i < p.length := by omega
  rw [List.getD_eq_getElem?_getD, List.getElem?_eq_getElem hi']
  exact hr _ (List.getElem_mem hi')

/-- **C17, the formulation: the linear rows say exactly that each item is placed `copies[i]` times, the
    weighted sums are ascending and the caller's constraints hold.**  (The hypotheses on `copies` and
    `weights` of the task are not needed.) -/
theorem rows_iff_feasible' (s : Spec) (p : Point) (hk : 0 < s.k) :
    satisfies s p = feasible s p := by
  unfold satisfies feasible
  cases hsh : shaped s p with
  | false => simp
  | true =>
    simp only [Bool.true_and, rows, List.all_append, List.all_flatMap, List.all_map]
    have h1 : ((List.range s.k).all fun b => (List.range s.vals.length).all
        ((fun r => r.holds (flat s p)) ∘ fun i => (⟨unit s i b, .ge, 0⟩ : Row))) = true := by
      rw [List.all_eq_true]; intro b hb
      rw [List.all_eq_true]; intro i hi
      simp only [Function.comp, Row.holds, decide_eq_true_iff]
      rw [dot_unit s p (List.mem_range.1 hi) (List.mem_range.1 hb)]
      exact Nat.cast_nonneg _
    have h2 : ((List.range s.vals.length).all ((fun r => r.holds (flat s p)) ∘ fun i =>
        (⟨sumV s ((List.range s.k).map fun b => unit s i b), .eq, ((s.copies.getD i 0 : Nat) : Rat)⟩ : Row)))
        = (List.range s.vals.length).all (fun i => sumL (p.getD i []) == s.copies.getD i 0) := by
      apply all_congr_mem
      intro i hi
      have hi := List.mem_range.1 hi
      simp only [Function.comp, Row.holds]
      rw [dot_itemRow s p hi (shaped_row hsh hi)]
      rw [Bool.eq_iff_iff]
      simp
    have h3 : ((List.range (s.k - 1)).all ((fun r => r.holds (flat s p)) ∘ fun b =>
        (⟨addV (binSumExpr s (b + 1)) (negV (binSumExpr s b)), .ge, 0⟩ : Row)))
        = ascending (wSums s p) := by
      rw [Bool.eq_iff_iff, wSums, ascending_map_range, List.all_eq_true]
      constructor
      · intro h b hb
        have := h b (List.mem_range.2 (by omega))
        simp only [Function.comp, Row.holds, decide_eq_true_iff] at this
        rw [dot_addV _ _ _ (by simp), dot_negV, dot_binSumExpr s p hb,
          dot_binSumExpr s p (by omega : b < s.k)] at this
        linarith
      · intro h b hb
        have hb := List.mem_range.1 hb
        have := h b (by omega)
        simp only [Function.comp, Row.holds, decide_eq_true_iff]
        rw [dot_addV _ _ _ (by simp), dot_negV, dot_binSumExpr s p (by omega : b + 1 < s.k),
          dot_binSumExpr s p (by omega : b < s.k)]
        linarith
    have h4 : (s.cons.all ((fun r => r.holds (flat s p)) ∘ conRow s)) = s.cons.all (Con.holdsOn (wSums s p)) := by
      apply all_congr_mem
      intro c _
      exact conRow_holds s p hk c
    rw [h1, h2, h3, h4, Bool.true_and]


/-- **C17 (1), as stated in the task.** -/
theorem rows_iff_feasible (s : Spec) (p : Point) (_hc : s.copies.length = s.vals.length)
    (_hw : s.weights.length = s.k) (_hpos : ∀ w ∈ s.weights, 0 < w) (hk : 0 < s.k)
    (_hp : shaped s p = true) :
    satisfies s p = true ↔ feasible s p = true := by
  rw [rows_iff_feasible' s p hk]

/-- Prop-level reading of `feasible` -/
theorem feasible_iff (s : Spec) (p : Point) :
    feasible s p = true ↔
      shaped s p = true ∧ (∀ i, i < s.vals.length → sumL (p.getD i []) = s.copies.getD i 0) ∧
      (∀ b, b + 1 < s.k → wSum s p b ≤ wSum s p (b + 1)) ∧ ∀ c ∈ s.cons, c.holdsOn (wSums s p) = true := by
  unfold feasible
  rw [Bool.and_eq_true, Bool.and_eq_true, Bool.and_eq_true, List.all_eq_true, List.all_eq_true, wSums,
    ascending_map_range]
  simp only [List.mem_range, beq_iff_eq]
  tauto

/-- the running example of the task: two bins with weights 2 and 1 -/
def exSpec : Spec :=
  { k := 2, vals := [11, 11, 11, 11, 22], copies := [1, 1, 1, 1, 1], weights := [2, 1], obj := .maxSmallest, cons := [] }

def exPoint : Point := [[1, 0], [1, 0], [1, 0], [1, 0], [0, 1]]

theorem exPoint_feasible : feasible exSpec exPoint = true := by
  rw [feasible_iff]
  refine ⟨by decide, by decide, ?_, by simp [exSpec]⟩
  intro b hb
  have hb0 : b = 0 := by simp only [exSpec] at hb; omega
  subst hb0
  have h0 : rawSum exSpec exPoint 0 = 44 := by decide
  have h1 : rawSum exSpec exPoint 1 = 22 := by decide
  simp only [wSum, h0, h1]
  simp only [exSpec, List.getD_cons_zero, List.getD_cons_succ, Nat.zero_add]
  norm_num

/-- non-vacuity: the point of the running example satisfies all 17 rows of its formulation -/
example : satisfies exSpec exPoint = true :=
  (rows_iff_feasible exSpec exPoint rfl rfl (by decide) (by decide) (by decide)).2 exPoint_feasible

/-- ... and a point that breaks the symmetry-breaking row (everything in bin 0: `66/2 ≤ 0/1` fails) does not -/
example : satisfies exSpec [[1, 0], [1, 0], [1, 0], [1, 0], [1, 0]] = false := by
  rw [rows_iff_feasible' _ _ (by decide), Bool.eq_false_iff]
  intro h
  have := ((feasible_iff _ _).1 h).2.2.1 0 (by decide)
  have h0 : rawSum exSpec [[1, 0], [1, 0], [1, 0], [1, 0], [1, 0]] 0 = 66 := by decide
  have h1 : rawSum exSpec [[1, 0], [1, 0], [1, 0], [1, 0], [1, 0]] 1 = 0 := by decide
  simp only [wSum, h0, h1] at this
  simp only [exSpec, List.getD_cons_zero, List.getD_cons_succ, Nat.zero_add] at this
  norm_num at this

/-! ## 3. the objective expression -/

theorem dot_sumV_binSums (s : Spec) (p : Point) (l : List Nat) (hl : ∀ b ∈ l, b < s.k) :
    dot (sumV s (l.map (binSumExpr s))) (flat s p) = sumRat (l.map (wSum s p)) := by
  rw [dot_sumV _ _ _ (by intro a ha; obtain ⟨b, _, rfl⟩ := List.mem_map.1 ha; simp), List.map_map]
  congr 1
  apply List.map_congr_left
  intro b hb
  exact dot_binSumExpr s p (hl b hb)

/-- **C17 (2a): the linear objective evaluates to the documented function of the ascending weighted sums.**
    (Only `0 < k` is needed.) -/
theorem objValue_eq_docValue (s : Spec) (p : Point) (hk : 0 < s.k) :
    objValue s p = docValue s.obj (wSums s p) := by
  have h0 := dot_binSumExpr s p hk
  have hl := dot_binSumExpr s p (by omega : s.k - 1 < s.k)
  unfold objValue objExpr
  cases ho : s.obj with
  | maxSmallest =>
    simp only [docValue, dot_negV, h0, wSums_headD s p hk]
  | minLargest =>
    simp only [docValue, hl, wSums_getLast s p hk]
  | minDiff =>
    simp only [docValue, dot_addV _ _ _ (by simp : (binSumExpr s (s.k - 1)).length = (negV (binSumExpr s 0)).length),
      dot_negV, h0, hl, wSums_headD s p hk, wSums_getLast s p hk]
    ring
  | maxKSmallest n =>
    simp only [docValue, dot_negV]
    rw [dot_sumV_binSums s p _ (by intro b hb; have := List.mem_range.1 hb; omega), wSums, ← List.map_take,
      List.take_range]
  | minKLargest n =>
    simp only [docValue]
    rw [dot_sumV_binSums s p _ (by intro b hb; exact List.mem_range.1 (List.mem_of_mem_drop hb)), wSums,
      ← List.map_drop, List.length_map, List.length_range]

/-! ### unit weights: the documented objective of the raw sums -/

@[simp] theorem sumRat_nil : sumRat [] = 0 := rfl

theorem sumRat_cons (a : Rat) (l : List Rat) : sumRat (a :: l) = a + sumRat l := by
  unfold sumRat
  rw [List.foldl_cons, foldl_add_init]; ring

theorem sumRat_map_cast (L : List Nat) : sumRat (L.map fun x => ((x : Nat) : Rat)) = ((sumL L : Nat) : Rat) := by
  induction L with
  | nil => simp [sumL]
  | cons x L ih => rw [List.map_cons, sumRat_cons, ih]; simp [sumL]

theorem headD_map_cast (L : List Nat) : (L.map fun x => ((x : Nat) : Rat)).headD 0 = ((L.headD 0 : Nat) : Rat) := by
  cases L <;> simp

theorem getLast_map_cast (L : List Nat) :
    (L.map fun x => ((x : Nat) : Rat)).getLast?.getD 0 = ((lastD L 0 : Nat) : Rat) := by
  unfold lastD
  rw [List.getLast?_map]
  cases L.getLast? <;> simp

/-- the documented objective of a vector of natural sums (read as rationals) is the sorted fast path of the
    objective -/
theorem docValue_map_cast (o : Objective) (L : List Nat) :
    docValue o (L.map fun x => ((x : Nat) : Rat)) = ((o.value L true : Int) : Rat) := by
  cases o with
  | maxSmallest => simp only [docValue, Objective.value, if_true, headD_map_cast]; push_cast; rfl
  | minLargest => simp only [docValue, Objective.value, if_true, getLast_map_cast]; push_cast; rfl
  | minDiff =>
    simp only [docValue, Objective.value, if_true, headD_map_cast, getLast_map_cast]; push_cast; rfl
  | maxKSmallest n =>
    simp only [docValue, Objective.value, if_true, ← List.map_take, sumRat_map_cast]; push_cast; rfl
  | minKLargest n =>
    simp only [docValue, Objective.value, if_true, lastK, ← List.map_drop, sumRat_map_cast, List.length_map]
    push_cast; rfl

/-- all weights one -/
def UnitWeights (s : Spec) : Prop := ∀ b, b < s.k → s.weights.getD b 1 = 1

theorem unitWeights_of_replicate {s : Spec} (h : s.weights = List.replicate s.k 1) : UnitWeights s := by
  intro b hb
  rw [h, List.getD_eq_getElem?_getD, List.getElem?_replicate]
  split <;> rfl

theorem wSum_unit {s : Spec} (h : UnitWeights s) (p : Point) {b : Nat} (hb : b < s.k) :
    wSum s p b = ((rawSum s p b : Nat) : Rat) := by
  rw [wSum, h b hb]; simp

theorem wSums_unit {s : Spec} (h : UnitWeights s) (p : Point) :
    wSums s p = ((List.range s.k).map (rawSum s p)).map fun x => ((x : Nat) : Rat) := by
  rw [wSums, List.map_map]
  apply List.map_congr_left
  intro b hb
  exact wSum_unit h p (List.mem_range.1 hb)

theorem pairwise_of_map_cast {L : List Nat} (h : (L.map fun x => ((x : Nat) : Rat)).Pairwise (· ≤ ·)) :
    L.Pairwise (· ≤ ·) := by
  rw [List.pairwise_map] at h
  exact h.imp (fun h => by exact_mod_cast h)

theorem feasible_ascending {s : Spec} {p : Point} (h : feasible s p = true) :
    (wSums s p).Pairwise (· ≤ ·) := by
  rw [← ascending_iff_pairwise]
  unfold feasible at h
  simp only [Bool.and_eq_true] at h
  exact h.1.2

/-- for unit weights feasibility makes the raw sums non-decreasing -/
theorem rawSums_sorted_of_unit {s : Spec} (hu : UnitWeights s) {p : Point} (h : feasible s p = true) :
    SortedAsc ((List.range s.k).map (rawSum s p)) := by
  have := feasible_ascending h
  rw [wSums_unit hu] at this
  exact pairwise_of_map_cast this

/-- **C17 (2b): with unit weights and a feasible point the documented objective of the weighted sums is the
    general (order-independent) objective of the raw bin sums.** -/
theorem docValue_unit {s : Spec} (hu : UnitWeights s) {p : Point} (h : feasible s p = true) :
    docValue s.obj (wSums s p) = ((s.obj.value ((List.range s.k).map (rawSum s p)) false : Int) : Rat) := by
  rw [wSums_unit hu, docValue_map_cast, Obj.value_sorted_fast_gen _ (rawSums_sorted_of_unit hu h)]

/-- **C17 (2), as stated in the task.** -/
theorem objective_is_documented (s : Spec) (p : Point) (_hc : s.copies.length = s.vals.length)
    (_hw : s.weights.length = s.k) (_hpos : ∀ w ∈ s.weights, 0 < w) (hk : 0 < s.k)
    (_hp : shaped s p = true) :
    objValue s p = docValue s.obj (wSums s p) ∧
    (s.weights = List.replicate s.k 1 → feasible s p = true →
      docValue s.obj (wSums s p) = ((s.obj.value ((List.range s.k).map (rawSum s p)) false : Int) : Rat)) :=
  ⟨objValue_eq_docValue s p hk, fun hu h => docValue_unit (unitWeights_of_replicate hu) h⟩

/-- non-vacuity: in the running example the objective row evaluates to `-(44 / 2) = -22` -/
example : objValue exSpec exPoint = -22 := by
  rw [(objective_is_documented exSpec exPoint rfl rfl (by decide) (by decide) (by decide)).1]
  have h0 : rawSum exSpec exPoint 0 = 44 := by decide
  show -((wSums exSpec exPoint).headD 0) = -22
  rw [wSums_headD _ _ (by decide), wSum, h0]
  simp only [exSpec, List.getD_cons_zero]
  norm_num

/-- the same items with unit weights and the difference objective -/
def exSpecU : Spec :=
  { k := 2, vals := [11, 11, 11, 11, 22], copies := [1, 1, 1, 1, 1], weights := [1, 1], obj := .minDiff, cons := [] }

def exPointU : Point := [[1, 0], [1, 0], [0, 1], [0, 1], [0, 1]]

theorem exPointU_feasible : feasible exSpecU exPointU = true := by
  rw [feasible_iff]
  refine ⟨by decide, by decide, ?_, by simp [exSpecU]⟩
  intro b hb
  have hb0 : b = 0 := by simp only [exSpecU] at hb; omega
  subst hb0
  have h0 : rawSum exSpecU exPointU 0 = 22 := by decide
  have h1 : rawSum exSpecU exPointU 1 = 44 := by decide
  simp only [wSum, h0, h1]
  simp only [exSpecU, List.getD_cons_zero, List.getD_cons_succ, Nat.zero_add]
  norm_num

/-- non-vacuity of the unit-weight part: the objective is the difference `44 - 22` of the raw sums -/
example : objValue exSpecU exPointU = 22 := by
  obtain ⟨h1, h2⟩ := objective_is_documented exSpecU exPointU rfl rfl (by decide) (by decide) (by decide)
  rw [h1, h2 rfl exPointU_feasible]
  have : (List.range exSpecU.k).map (rawSum exSpecU exPointU) = [22, 44] := by decide
  rw [this]
  have : exSpecU.obj.value [22, 44] false = 22 := by decide
  rw [this]; norm_num

/-! ## 4. the read-back -/

section Decode
variable {α : Type}

/-- what the read-back loop puts into bin `b`: item by item, `counts[i][b]` copies -/
def binOf (items : List α) (p : Point) (b : Nat) : List α :=
  (items.zip p).flatMap fun ip => List.replicate (ip.2.getD b 0) ip.1

/-- a loop that ignores its counter -/
theorem foldl_range_const {β : Type} (g : β → β) (c : Nat) (acc : β) :
    (List.range c).foldl (fun acc _ => g acc) acc = g^[c] acc := by
  induction c generalizing acc with
  | zero => rfl
  | succ c ih =>
    rw [List.range_succ_eq_map, List.foldl_cons, List.foldl_map, ih, Function.iterate_succ_apply]

theorem iterate_add_lists (v : α → Nat) (x : α) (b c : Nat) (acc : Bins α) :
    ((fun a : Bins α => a.add v x b)^[c] acc).lists = acc.lists.modify b (· ++ List.replicate c x) := by
  induction c generalizing acc with
  | zero =>
    simp only [Function.iterate_zero, id_eq, List.replicate_zero, List.append_nil]
    exact (List.modify_id b acc.lists).symm
  | succ c ih =>
    rw [Function.iterate_succ_apply, ih]
    simp only [Bins.add, List.modify_modify_eq]
    congr 1
    funext l
    simp [List.replicate_succ]

theorem iterate_add_consistent (v : α → Nat) (x : α) (b c : Nat) (acc : Bins α) (h : acc.Consistent v) :
    ((fun a : Bins α => a.add v x b)^[c] acc).Consistent v := by
  induction c generalizing acc with
  | zero => exact h
  | succ c ih =>
    rw [Function.iterate_succ_apply]
    exact ih _ (BinsOps.add_consistent v acc x b h)

/-- the loop over the items for one bin -/
def fillBin (v : α → Nat) (b : Nat) (z : List (α × List Nat)) (acc : Bins α) : Bins α :=
  z.foldl (fun (acc : Bins α) (ip : α × List Nat) =>
    (List.range (ip.2.getD b 0)).foldl (fun (acc : Bins α) _ => acc.add v ip.1 b) acc) acc

theorem fillBin_lists (v : α → Nat) (b : Nat) (z : List (α × List Nat)) (acc : Bins α) :
    (fillBin v b z acc).lists =
      acc.lists.modify b (· ++ z.flatMap fun ip => List.replicate (ip.2.getD b 0) ip.1) := by
  induction z generalizing acc with
  | nil =>
    simp only [fillBin, List.foldl_nil, List.flatMap_nil, List.append_nil]
    exact (List.modify_id b acc.lists).symm
  | cons ip z ih =>
    have := ih ((List.range (ip.2.getD b 0)).foldl (fun (acc : Bins α) _ => acc.add v ip.1 b) acc)
    simp only [fillBin, List.foldl_cons] at this ⊢
    rw [this, foldl_range_const (fun a : Bins α => a.add v ip.1 b), iterate_add_lists, List.modify_modify_eq]
    congr 1
    funext l
    simp [List.flatMap_cons]

theorem fillBin_consistent (v : α → Nat) (b : Nat) (z : List (α × List Nat)) (acc : Bins α)
    (h : acc.Consistent v) : (fillBin v b z acc).Consistent v := by
  induction z generalizing acc with
  | nil => exact h
  | cons ip z ih =>
    simp only [fillBin, List.foldl_cons]
    apply ih
    rw [foldl_range_const (fun a : Bins α => a.add v ip.1 b)]
    exact iterate_add_consistent v ip.1 b _ acc h

theorem decodeRaw_eq (v : α → Nat) (k : Nat) (items : List α) (p : Point) :
    decodeRaw v k items p = (List.range k).foldl (fun acc b => fillBin v b (items.zip p) acc) (Bins.new k) := rfl

theorem fill_prefix_lists (v : α → Nat) (k : Nat) (z : List (α × List Nat)) (m : Nat) (hm : m ≤ k) :
    ((List.range m).foldl (fun acc b => fillBin v b z acc) (Bins.new k)).lists =
      (List.range k).map fun b =>
        if b < m then z.flatMap fun ip => List.replicate (ip.2.getD b 0) ip.1 else [] := by
  induction m with
  | zero =>
    simp only [List.range_zero, List.foldl_nil, Bins.new, Nat.not_lt_zero, if_false]
    apply List.ext_getElem <;> simp
  | succ m ih =>
    rw [List.range_succ, List.foldl_append, List.foldl_cons, List.foldl_nil, fillBin_lists, ih (by omega)]
    apply List.ext_getElem
    · simp
    · intro j h1 h2
      simp only [List.getElem_modify, List.getElem_map, List.getElem_range]
      by_cases hj : m = j
      · subst hj; simp
      · have : (j < m + 1) = (j < m) := by apply propext; omega
        simp [hj, this]

/-- **C17 (3): the contents of the returned bins, literally** -/
theorem decodeRaw_lists (v : α → Nat) (k : Nat) (items : List α) (p : Point) :
    (decodeRaw v k items p).lists = (List.range k).map (binOf items p) := by
  rw [decodeRaw_eq, fill_prefix_lists v k _ k (Nat.le_refl k)]
  apply List.map_congr_left
  intro b hb
  rw [if_pos (List.mem_range.1 hb)]; rfl

theorem decodeRaw_consistent (v : α → Nat) (k : Nat) (items : List α) (p : Point) :
    (decodeRaw v k items p).Consistent v := by
  rw [decodeRaw_eq]
  generalize List.range k = bs
  have : ∀ acc : Bins α, acc.Consistent v →
      (bs.foldl (fun acc b => fillBin v b (items.zip p) acc) acc).Consistent v := by
    induction bs with
    | nil => intro acc h; exact h
    | cons b bs ih => intro acc h; exact ih _ (fillBin_consistent v b _ acc h)
  exact this _ (BinsOps.new_consistent v k)

theorem decodeRaw_length (v : α → Nat) (k : Nat) (items : List α) (p : Point) :
    (decodeRaw v k items p).lists.length = k ∧ (decodeRaw v k items p).sums.length = k := by
  have h := decodeRaw_lists v k items p
  have hc := decodeRaw_consistent v k items p
  unfold Bins.Consistent at hc
  rw [hc, h]; simp

theorem binSum_replicate (v : α → Nat) (c : Nat) (x : α) : binSum v (List.replicate c x) = c * v x := by
  induction c with
  | zero => simp [binSum]
  | succ c ih =>
    rw [List.replicate_succ]
    have : binSum v (x :: List.replicate c x) = v x + binSum v (List.replicate c x) := rfl
    rw [this, ih, Nat.succ_mul]; omega

theorem binSum_binOf (v : α → Nat) (items : List α) (p : Point) (b : Nat) :
    binSum v (binOf items p b) = sumL ((items.zip p).map fun ip => ip.2.getD b 0 * v ip.1) := by
  unfold binOf
  induction items.zip p with
  | nil => rfl
  | cons ip z ih =>
    rw [List.flatMap_cons, Oracle.binSum_append, ih, binSum_replicate]; rfl

theorem binSum_binOf_eq_rawSum (v : α → Nat) (s : Spec) (items : List α) (p : Point) (b : Nat)
    (hv : items.map v = s.vals) (hp : p.length = items.length) :
    binSum v (binOf items p b) = rawSum s p b := by
  rw [binSum_binOf, rawSum_eq, ← hv]
  congr 1
  apply List.ext_getElem
  · simp [hp]
  · intro i h1 h2
    have hi : i < items.length := by simpa [hp] using h1
    have hi' : i < p.length := by omega
    simp [entry, List.getD_eq_getElem?_getD, hi, hi']

/-- **C17 (3): the returned sums are the raw bin sums of the point** -/
theorem decodeRaw_sums (v : α → Nat) (s : Spec) (items : List α) (p : Point)
    (hv : items.map v = s.vals) (hp : p.length = items.length) :
    (decodeRaw v s.k items p).sums = (List.range s.k).map (rawSum s p) := by
  have hc := decodeRaw_consistent v s.k items p
  unfold Bins.Consistent at hc
  rw [hc, decodeRaw_lists, List.map_map]
  apply List.map_congr_left
  intro b _
  exact binSum_binOf_eq_rawSum v s items p b hv hp


/-! ### how often every item is placed -/

theorem flatMap_swap_perm {β γ : Type} (l : List β) (z : List γ) (f : β → γ → List α) :
    (l.flatMap fun b => z.flatMap fun c => f b c).Perm (z.flatMap fun c => l.flatMap fun b => f b c) := by
  induction z with
  | nil => simp
  | cons c z ih =>
    simp only [List.flatMap_cons]
    exact (List.flatMap_append_perm l (fun b => f b c) (fun b => z.flatMap fun c => f b c)).symm.trans
      (List.Perm.append_left _ ih)

theorem range_flatMap_replicate (x : α) (row : List Nat) :
    (List.range row.length).flatMap (fun b => List.replicate (row.getD b 0) x) = List.replicate (sumL row) x := by
  induction row with
  | nil => rfl
  | cons r row ih =>
    rw [List.length_cons, List.range_succ_eq_map, List.flatMap_cons, List.flatMap_map]
    simp only [List.getD_cons_zero, List.getD_cons_succ]
    rw [ih, List.replicate_append_replicate]; rfl

/-- the multiset of all placed items: item `i` repeated `Σ_b counts[i][b]` times -/
theorem decodeRaw_flatten_perm (v : α → Nat) (k : Nat) (items : List α) (p : Point)
    (hrows : ∀ r ∈ p, r.length = k) :
    (decodeRaw v k items p).lists.flatten.Perm
      ((items.zip p).flatMap fun ip => List.replicate (sumL ip.2) ip.1) := by
  rw [decodeRaw_lists, ← List.flatMap_def]
  unfold binOf
  refine (flatMap_swap_perm (List.range k) (items.zip p)
    (fun b ip => List.replicate (ip.2.getD b 0) ip.1)).trans ?_
  apply List.Perm.of_eq
  apply List.flatMap_congr
  intro ip hip
  have := hrows ip.2 (List.of_mem_zip hip).2
  rw [← this, range_flatMap_replicate]

theorem map_sumL_eq_copies {s : Spec} {p : Point} (hc : s.copies.length = s.vals.length)
    (h : feasible s p = true) : p.map sumL = s.copies := by
  obtain ⟨hsh, hrow, -, -⟩ := (feasible_iff s p).1 h
  have hl := ((shaped_iff s p).1 hsh).1
  apply List.ext_getElem
  · simp [hl, hc]
  · intro i h1 h2
    have hi : i < p.length := by simpa using h1
    have := hrow i (by omega)
    rw [List.getD_eq_getElem?_getD, List.getElem?_eq_getElem hi, List.getD_eq_getElem?_getD,
      List.getElem?_eq_getElem h2] at this
    simpa using this

theorem zip_replicate_one (items : List α) :
    ((items.zip (List.replicate items.length 1)).flatMap fun ic => List.replicate ic.2 ic.1) = items := by
  induction items with
  | nil => rfl
  | cons x xs ih =>
    rw [List.length_cons, List.replicate_succ, List.zip_cons_cons, List.flatMap_cons, ih]; rfl

/-- **C17 (3), as stated in the task: the read-back of a shaped point.**  Bin `b` holds, item by item,
    `counts[i][b]` copies of item `i` (literally, not only up to order); altogether item `i` is placed
    `Σ_b counts[i][b]` times; the sums are consistent with the contents, there are `k` bins, and the sums are
    the raw bin sums of the point. -/
theorem decode_copies (v : α → Nat) (s : Spec) (items : List α) (p : Point)
    (hv : items.map v = s.vals) (hp : shaped s p = true) :
    let out := decodeRaw v s.k items p
    (∀ b, b < s.k → out.lists.getD b [] =
        (items.zip p).flatMap fun ip => List.replicate (ip.2.getD b 0) ip.1) ∧
    out.lists.flatten.Perm ((items.zip p).flatMap fun ip => List.replicate (sumL ip.2) ip.1) ∧
    out.Consistent v ∧ out.lists.length = s.k ∧ out.sums = (List.range s.k).map (rawSum s p) := by
  obtain ⟨hl, hr⟩ := (shaped_iff s p).1 hp
  have hlen : p.length = items.length := by rw [hl, ← hv]; simp
  refine ⟨?_, decodeRaw_flatten_perm v s.k items p hr, decodeRaw_consistent v s.k items p,
    (decodeRaw_length v s.k items p).1, decodeRaw_sums v s items p hv hlen⟩
  intro b hb
  rw [decodeRaw_lists, List.getD_eq_getElem?_getD, List.getElem?_map, List.getElem?_range hb]; rfl

/-- for a feasible point every item is placed exactly `copies[i]` times -/
theorem decode_copies_feasible (v : α → Nat) (s : Spec) (items : List α) (p : Point)
    (_hv : items.map v = s.vals) (hc : s.copies.length = s.vals.length) (h : feasible s p = true) :
    (decodeRaw v s.k items p).lists.flatten.Perm
      ((items.zip s.copies).flatMap fun ic => List.replicate ic.2 ic.1) := by
  have hsh := ((feasible_iff s p).1 h).1
  refine (decodeRaw_flatten_perm v s.k items p ((shaped_iff s p).1 hsh).2).trans (List.Perm.of_eq ?_)
  rw [← map_sumL_eq_copies hc h, List.zip_map_right, List.flatMap_map]
  rfl

/-- with one copy of every item the read-back of a feasible point is a partition (C01) whose sums are the
    raw sums -/
theorem decode_isPartition (v : α → Nat) (s : Spec) (items : List α) (p : Point)
    (hv : items.map v = s.vals) (hc : s.copies = List.replicate s.vals.length 1) (h : feasible s p = true) :
    IsPartition v items s.k (decodeRaw v s.k items p) := by
  refine ⟨?_, (decodeRaw_length v s.k items p).1, decodeRaw_consistent v s.k items p⟩
  have := decode_copies_feasible v s items p hv (by rw [hc]; simp) h
  rw [hc, ← hv, List.length_map, zip_replicate_one] at this
  exact this

/-- the `List.count` form: in bin `b`, an item `x` occurs `Σ {counts[i][b] | items[i] = x}` times -/
theorem count_binOf [DecidableEq α] (items : List α) (p : Point) (b : Nat) (x : α) :
    (binOf items p b).count x =
      sumL ((items.zip p).map fun ip => if ip.1 = x then ip.2.getD b 0 else 0) := by
  unfold binOf
  induction items.zip p with
  | nil => rfl
  | cons ip z ih =>
    rw [List.flatMap_cons, List.count_append, ih, List.count_replicate, List.map_cons]
    simp only [sumL, beq_iff_eq]

theorem sumL_map_zero {β : Type} (l : List β) : sumL (l.map fun _ => 0) = 0 := by
  induction l with
  | nil => rfl
  | cons c l ih => simpa [sumL] using ih

/-- a sum with a single non-zero term -/
theorem sumL_map_ite_eq {β : Type} (z : List β) (P : β → Prop) [DecidablePred P] (g : β → Nat) (i : Nat)
    (hi : i < z.length) (huniq : ∀ j (hj : j < z.length), P z[j] → j = i) (hP : P z[i]) :
    sumL (z.map fun a => if P a then g a else 0) = g z[i] := by
  induction z generalizing i with
  | nil => simp at hi
  | cons a z ih =>
    rw [List.map_cons]
    cases i with
    | zero =>
      have hz : ∀ c ∈ z, ¬ P c := by
        intro c hc hPc
        obtain ⟨j, hj, rfl⟩ := List.getElem_of_mem hc
        have := huniq (j + 1) (by simpa using hj) (by simpa using hPc)
        omega
      have : z.map (fun a => if P a then g a else 0) = z.map fun _ => 0 :=
        List.map_congr_left fun c hc => if_neg (hz c hc)
      rw [this]
      have h0 : sumL (z.map fun _ => 0) = 0 := sumL_map_zero z
      simp only [sumL, h0, List.getElem_cons_zero] at hP ⊢
      rw [if_pos hP]; omega
    | succ i =>
      have ha : ¬ P a := fun hPa => by
        have := huniq 0 (by simp) (by simpa using hPa)
        omega
      simp only [sumL, if_neg ha, Nat.zero_add, List.getElem_cons_succ]
      exact ih i (by simpa using hi) (fun j hj hPj => by
        have := huniq (j + 1) (by simpa using hj) (by simpa using hPj)
        omega) (by simpa using hP)

/-- for distinct items: bin `b` contains item `i` exactly `counts[i][b]` times -/
theorem count_bin_nodup [DecidableEq α] (v : α → Nat) (k : Nat) (items : List α) (p : Point)
    (hnd : items.Nodup) (hp : p.length = items.length) {i b : Nat} (hi : i < items.length) (hb : b < k) :
    ((decodeRaw v k items p).lists.getD b []).count items[i] = entry p i b := by
  rw [decodeRaw_lists, List.getD_eq_getElem?_getD, List.getElem?_map, List.getElem?_range hb]
  show (binOf items p b).count items[i] = _
  rw [count_binOf]
  have hz : i < (items.zip p).length := by simp [hp, hi]
  rw [sumL_map_ite_eq (items.zip p) (fun ip => ip.1 = items[i]) (fun ip => ip.2.getD b 0) i hz]
  · simp [entry, List.getD_eq_getElem?_getD, List.getElem?_eq_getElem (by omega : i < p.length)]
  · intro j hj he
    have hj' : j < items.length := by simp at hj; omega
    simp only [List.getElem_zip] at he
    exact (List.getElem_inj hnd).1 he
  · simp

/-- for distinct items and a feasible point: item `i` occurs exactly `copies[i]` times in the output -/
theorem count_total_nodup [DecidableEq α] (v : α → Nat) (s : Spec) (items : List α) (p : Point)
    (hv : items.map v = s.vals) (hc : s.copies.length = s.vals.length) (h : feasible s p = true)
    (hnd : items.Nodup) {i : Nat} (hi : i < items.length) :
    (decodeRaw v s.k items p).lists.flatten.count items[i] = s.copies.getD i 0 := by
  rw [(decode_copies_feasible v s items p hv hc h).count_eq]
  have hlen : s.copies.length = items.length := by rw [hc, ← hv]; simp
  have hz : i < (items.zip s.copies).length := by simp [hlen, hi]
  have hcount : ∀ z : List (α × Nat), ∀ x : α,
      (z.flatMap fun ic => List.replicate ic.2 ic.1).count x =
        sumL (z.map fun ic => if ic.1 = x then ic.2 else 0) := by
    intro z x
    induction z with
    | nil => rfl
    | cons ic z ih =>
      rw [List.flatMap_cons, List.count_append, ih, List.count_replicate, List.map_cons]
      simp only [sumL, beq_iff_eq]
  rw [hcount, sumL_map_ite_eq (items.zip s.copies) (fun ic => ic.1 = items[i]) (fun ic => ic.2) i hz]
  · simp [List.getD_eq_getElem?_getD, List.getElem?_eq_getElem (by omega : i < s.copies.length)]
  · intro j hj he
    simp only [List.getElem_zip] at he
    exact (List.getElem_inj hnd).1 he
  · simp


/-- non-vacuity: the read-back of the running example, computed, and the theorem instantiated on it -/
example : (decodeRaw id 2 [11, 11, 11, 11, 22] exPoint).sums = [44, 22] ∧
    (decodeRaw id 2 [11, 11, 11, 11, 22] exPoint).lists = [[11, 11, 11, 11], [22]] := by decide

example := decode_copies id exSpec [11, 11, 11, 11, 22] exPoint rfl (by decide)

example : IsPartition id [11, 11, 11, 11, 22] 2 (decodeRaw id 2 [11, 11, 11, 11, 22] exPoint) :=
  decode_isPartition id exSpec [11, 11, 11, 11, 22] exPoint rfl rfl exPoint_feasible

/-- two copies of every item: `counts = [[1, 1], [0, 2]]` puts `a` once in each bin and `b` twice in bin 1 -/
example : (decodeRaw (fun c => if c = 'a' then 3 else 5) 2 ['a', 'b'] [[1, 1], [0, 2]]).lists
    = [['a'], ['a', 'b', 'b']] := by decide

/-! ## 5. the order of the returned bins -/

theorem allEqual_getD {l : List Nat} (h : allEqual l = true) {b : Nat} (hb : b < l.length) :
    l.getD b 1 = l.headD 0 := by
  unfold allEqual at h
  rw [List.all_eq_true] at h
  rw [List.getD_eq_getElem?_getD, List.getElem?_eq_getElem hb]
  simpa using h _ (List.getElem_mem hb)

theorem getD_pos {l : List Nat} (hpos : ∀ w ∈ l, 0 < w) (b : Nat) : 0 < l.getD b 1 := by
  rw [List.getD_eq_getElem?_getD]
  cases h : l[b]? with
  | none => simp
  | some w => exact hpos w (List.mem_of_getElem? h)

/-- with equal positive weights, ascending weighted sums are ascending raw sums -/
theorem rawSums_sorted_of_allEqual {s : Spec} {p : Point} (hw : s.weights.length = s.k)
    (hpos : ∀ w ∈ s.weights, 0 < w) (he : allEqual s.weights = true) (h : feasible s p = true) :
    SortedAsc ((List.range s.k).map (rawSum s p)) := by
  have hasc := feasible_ascending h
  unfold wSums at hasc
  rw [List.pairwise_map] at hasc
  unfold SortedAsc
  rw [List.pairwise_map]
  refine List.Pairwise.imp_of_mem ?_ hasc
  intro a b ha hb hab
  have ha := List.mem_range.1 ha
  have hb := List.mem_range.1 hb
  have hwa := allEqual_getD he (by omega : a < s.weights.length)
  have hwb := allEqual_getD he (by omega : b < s.weights.length)
  have hp := getD_pos hpos a
  rw [hwa] at hp
  simp only [wSum, hwa, hwb] at hab
  have hp' : (0 : Rat) < ((s.weights.headD 0 : Nat) : Rat) := by exact_mod_cast hp
  rw [div_le_div_iff_of_pos_right hp'] at hab
  exact_mod_cast hab

/-- **C17 (4), as stated in the task, and a little more: for a feasible point the final sort never moves a
    bin.**  With equal weights the returned sums are non-decreasing and the (stable) sort leaves the bins-array
    of the read-back untouched, because the raw sums are already ascending; with unequal weights no sort
    happens.  In both cases bin `b` of the result is the bin whose raw sum `rawSum s p b` was divided by
    `weights[b]`, and the weighted sums are non-decreasing in `b`. -/
theorem result_order {α : Type} (v : α → Nat) (s : Spec) (items : List α) (p : Point)
    (hv : items.map v = s.vals) (hw : s.weights.length = s.k) (hpos : ∀ w ∈ s.weights, 0 < w)
    (h : feasible s p = true) :
    decode v s items p = decodeRaw v s.k items p ∧
    (decode v s items p).sums = (List.range s.k).map (rawSum s p) ∧
    (∀ b, b + 1 < s.k →
      ((rawSum s p b : Nat) : Rat) / ((s.weights.getD b 1 : Nat) : Rat) ≤
        ((rawSum s p (b + 1) : Nat) : Rat) / ((s.weights.getD (b + 1) 1 : Nat) : Rat)) ∧
    (allEqual s.weights = true →
      SortedAsc (decode v s items p).sums ∧
      (decode v s items p).sums.Perm ((List.range s.k).map (rawSum s p)) ∧
      (decode v s items p).lists.Perm (decodeRaw v s.k items p).lists) := by
  obtain ⟨hsh, -, hstep, -⟩ := (feasible_iff s p).1 h
  have hlen : p.length = items.length := by rw [((shaped_iff s p).1 hsh).1, ← hv]; simp
  have hsums := decodeRaw_sums v s items p hv hlen
  have hdec : decode v s items p = decodeRaw v s.k items p := by
    unfold decode
    cases he : allEqual s.weights with
    | false => simp
    | true =>
      simp only [if_true]
      apply BinsOps.sortAsc_stable
      · have := decodeRaw_length v s.k items p; omega
      · rw [hsums]; exact rawSums_sorted_of_allEqual hw hpos he h
  refine ⟨hdec, by rw [hdec, hsums], hstep, ?_⟩
  intro he
  rw [hdec, hsums]
  exact ⟨rawSums_sorted_of_allEqual hw hpos he h, List.Perm.refl _, List.Perm.refl _⟩

/-- non-vacuity (unequal weights): bin 0, whose sum was divided by 2, keeps the larger raw sum -/
example : (decode id exSpec [11, 11, 11, 11, 22] exPoint).sums = [44, 22] := by
  rw [(result_order id exSpec [11, 11, 11, 11, 22] exPoint rfl rfl (by decide) exPoint_feasible).2.1]
  decide

/-- non-vacuity (equal weights) -/
example : SortedAsc (decode id exSpecU [11, 11, 11, 11, 22] exPointU).sums :=
  ((result_order id exSpecU [11, 11, 11, 11, 22] exPointU rfl rfl (by decide) exPointU_feasible).2.2.2
    (by decide)).1

/-- the positivity of the weights is needed for "the sort is a no-op": with weights `[0, 0]` every point with
    the right row sums is feasible (all weighted sums are `0`), and the sort does move bins -/
example : (decode id { exSpecU with weights := [0, 0] } [11, 11, 11, 11, 22]
      [[1, 0], [1, 0], [1, 0], [1, 0], [1, 0]]).sums = [0, 66] ∧
    (decodeRaw id 2 [11, 11, 11, 11, 22] [[1, 0], [1, 0], [1, 0], [1, 0], [1, 0]]).sums = [66, 0] := by decide

end Decode

/-! ## 6. the brute-force optimum of the formulation -/

theorem foldl_minRat_spec (xs : List Rat) (x : Rat) :
    let m := xs.foldl (fun m y => if y < m then y else m) x
    m ∈ x :: xs ∧ ∀ y ∈ x :: xs, m ≤ y := by
  induction xs generalizing x with
  | nil => simp
  | cons a xs ih =>
    simp only [List.foldl_cons]
    obtain ⟨h1, h2⟩ := ih (if a < x then a else x)
    constructor
    · rcases List.mem_cons.1 h1 with h | h
      · rw [h]; split <;> simp
      · exact List.mem_cons_of_mem _ (List.mem_cons_of_mem _ h)
    · intro y hy
      have h0 := h2 _ (List.mem_cons_self)
      rcases List.mem_cons.1 hy with rfl | hy
      · refine le_trans h0 ?_
        split
        · rename_i h; exact le_of_lt h
        · exact le_refl _
      · rcases List.mem_cons.1 hy with rfl | hy
        · refine le_trans h0 ?_
          split
          · exact le_refl _
          · rename_i h; exact not_lt.1 h
        · exact h2 y (List.mem_cons_of_mem _ hy)

theorem minRatOpt_eq_none (l : List Rat) : minRatOpt l = none ↔ l = [] := by
  cases l <;> simp [minRatOpt]

theorem minRatOpt_eq_some (l : List Rat) (x : Rat) :
    minRatOpt l = some x ↔ x ∈ l ∧ ∀ y ∈ l, x ≤ y := by
  cases l with
  | nil => simp [minRatOpt]
  | cons a xs =>
    obtain ⟨h1, h2⟩ := foldl_minRat_spec xs a
    simp only [minRatOpt, Option.some.injEq]
    constructor
    · rintro rfl; exact ⟨h1, h2⟩
    · rintro ⟨hx1, hx2⟩
      exact le_antisymm (h2 x hx1) (hx2 _ h1)

/-- `compositions k c` enumerates exactly the lists of `k` naturals with sum `c` -/
theorem mem_compositions (k c : Nat) (row : List Nat) :
    row ∈ compositions k c ↔ row.length = k ∧ sumL row = c := by
  induction k generalizing c row with
  | zero =>
    unfold compositions
    split
    · rename_i h
      subst h
      simp only [List.mem_singleton, List.length_eq_zero_iff]
      constructor
      · rintro rfl; exact ⟨rfl, rfl⟩
      · exact fun h => h.1
    · rename_i h
      simp only [List.not_mem_nil, false_iff, List.length_eq_zero_iff]
      rintro ⟨rfl, h'⟩
      exact h h'.symm
  | succ k ih =>
    unfold compositions
    simp only [List.mem_flatMap, List.mem_range, List.mem_map]
    constructor
    · rintro ⟨x, hx, r, hr, rfl⟩
      obtain ⟨h1, h2⟩ := (ih _ _).1 hr
      refine ⟨by simp [h1], ?_⟩
      simp only [sumL]; omega
    · rintro ⟨h1, h2⟩
      cases row with
      | nil => simp at h1
      | cons x r =>
        simp only [sumL] at h2
        exact ⟨x, by omega, r, (ih _ _).2 ⟨by simpa using h1, by omega⟩, rfl⟩

theorem mem_points_aux (k : Nat) (c : Nat → Nat) (idx : List Nat) (p : Point) :
    p ∈ idx.foldr (fun i acc => (compositions k (c i)).flatMap fun row => acc.map (row :: ·)) [[]] ↔
      p.length = idx.length ∧
        ∀ j, j < idx.length → (p.getD j []).length = k ∧ sumL (p.getD j []) = c (idx.getD j 0) := by
  induction idx generalizing p with
  | nil =>
    simp only [List.foldr_nil, List.mem_singleton, List.length_nil, Nat.not_lt_zero, false_imp_iff,
      implies_true, and_true, List.length_eq_zero_iff]
  | cons i idx ih =>
    simp only [List.foldr_cons, List.mem_flatMap, List.mem_map]
    constructor
    · rintro ⟨row, hrow, q, hq, rfl⟩
      obtain ⟨h1, h2⟩ := (ih q).1 hq
      refine ⟨by simp [h1], ?_⟩
      intro j hj
      cases j with
      | zero => simpa using (mem_compositions _ _ _).1 hrow
      | succ j => simpa using h2 j (by simpa using hj)
    · rintro ⟨h1, h2⟩
      cases p with
      | nil => simp at h1
      | cons row q =>
        refine ⟨row, (mem_compositions _ _ _).2 (by simpa using h2 0 (by simp)), q, (ih q).2 ⟨by simpa using h1, ?_⟩, rfl⟩
        intro j hj
        simpa using h2 (j + 1) (by simpa using hj)

/-- `allPoints s` enumerates exactly the shaped points whose rows sum to `copies` -/
theorem mem_allPoints (s : Spec) (p : Point) :
    p ∈ allPoints s ↔ shaped s p = true ∧ ∀ i, i < s.vals.length → sumL (p.getD i []) = s.copies.getD i 0 := by
  unfold allPoints
  rw [mem_points_aux s.k (fun i => s.copies.getD i 0), shaped_iff, List.length_range]
  constructor
  · rintro ⟨h1, h2⟩
    refine ⟨⟨h1, ?_⟩, ?_⟩
    · intro r hr
      obtain ⟨j, hj, rfl⟩ := List.getElem_of_mem hr
      have := (h2 j (by omega)).1
      rwa [List.getD_eq_getElem?_getD, List.getElem?_eq_getElem hj] at this
    · intro i hi
      have := (h2 i hi).2
      rwa [List.getD_eq_getElem?_getD (l := List.range _), List.getElem?_range hi] at this
  · rintro ⟨⟨h1, h2⟩, h3⟩
    refine ⟨h1, ?_⟩
    intro j hj
    have hj' : j < p.length := by omega
    refine ⟨?_, ?_⟩
    · rw [List.getD_eq_getElem?_getD, List.getElem?_eq_getElem hj']
      exact h2 _ (List.getElem_mem hj')
    · rw [List.getD_eq_getElem?_getD (l := List.range _), List.getElem?_range hj]
      exact h3 j hj

theorem feasible_mem_allPoints {s : Spec} {p : Point} (h : feasible s p = true) : p ∈ allPoints s := by
  obtain ⟨h1, h2, -, -⟩ := (feasible_iff s p).1 h
  exact (mem_allPoints s p).2 ⟨h1, h2⟩

/-- **C17 (5): `ilpBest` is the optimum of the formulation** (the value the trusted solver must report) -/
theorem ilpBest_spec (s : Spec) (x : Rat) :
    ilpBest s = some x ↔
      (∃ p, feasible s p = true ∧ docValue s.obj (wSums s p) = x) ∧
      ∀ p, feasible s p = true → x ≤ docValue s.obj (wSums s p) := by
  unfold ilpBest
  rw [minRatOpt_eq_some]
  simp only [List.mem_map, List.mem_filter]
  constructor
  · rintro ⟨⟨p, ⟨-, hp⟩, rfl⟩, h2⟩
    exact ⟨⟨p, hp, rfl⟩, fun q hq => h2 _ ⟨q, ⟨feasible_mem_allPoints hq, hq⟩, rfl⟩⟩
  · rintro ⟨⟨p, hp, rfl⟩, h2⟩
    refine ⟨⟨p, ⟨feasible_mem_allPoints hp, hp⟩, rfl⟩, ?_⟩
    rintro y ⟨q, ⟨-, hq⟩, rfl⟩
    exact h2 q hq

/-- `ilpBest s = none` exactly when the formulation is infeasible (the code must raise `ValueError`) -/
theorem ilpBest_none (s : Spec) : ilpBest s = none ↔ ∀ p, feasible s p = false := by
  unfold ilpBest
  rw [minRatOpt_eq_none, List.map_eq_nil_iff, List.filter_eq_nil_iff]
  constructor
  · intro h p
    rw [← Bool.not_eq_true]
    intro hp
    exact h p (feasible_mem_allPoints hp) hp
  · intro h p _
    rw [h p]; simp

/-- the formulation's optimum in the value reported by the solver: for every point satisfying all rows the
    objective row evaluates to at least `ilpBest`, and some such point attains it -/
theorem ilpBest_rows (s : Spec) (hk : 0 < s.k) (x : Rat) :
    ilpBest s = some x ↔
      (∃ p, satisfies s p = true ∧ objValue s p = x) ∧ ∀ p, satisfies s p = true → x ≤ objValue s p := by
  rw [ilpBest_spec]
  simp only [rows_iff_feasible' s _ hk, objValue_eq_docValue s _ hk]

/-- non-vacuity: the running example is feasible, so `ilpBest` is `some x` with `x ≤ -22` -/
example : ∃ x, ilpBest exSpec = some x ∧ x ≤ -22 := by
  cases h : ilpBest exSpec with
  | none =>
    have := (ilpBest_none exSpec).1 h exPoint
    rw [exPoint_feasible] at this
    cases this
  | some x =>
    refine ⟨x, rfl, ?_⟩
    have := ((ilpBest_spec exSpec x).1 h).2 exPoint exPoint_feasible
    have h0 : rawSum exSpec exPoint 0 = 44 := by decide
    have hd : docValue exSpec.obj (wSums exSpec exPoint) = -22 := by
      show -((wSums exSpec exPoint).headD 0) = -22
      rw [wSums_headD _ _ (by decide), wSum, h0]
      simp only [exSpec, List.getD_cons_zero]
      norm_num
    rwa [hd] at this

example : [0, 2, 1] ∈ compositions 3 3 := (mem_compositions 3 3 [0, 2, 1]).2 (by decide)
example : exPoint ∈ allPoints exSpec := (mem_allPoints exSpec exPoint).2 (by decide)

/-! ## 7. unit weights: the symmetry breaker loses nothing -/

/-- the sum of the values sent to bin `b` -/
def colSum (b : Nat) (vals asg : List Nat) : Nat :=
  sumL ((vals.zip asg).map fun va => if va.2 = b then va.1 else 0)

theorem getD_modify_add (S : List Nat) (a b v : Nat) (hb : b < S.length) :
    (S.modify a (· + v)).getD b 0 = S.getD b 0 + if a = b then v else 0 := by
  rw [List.getD_eq_getElem?_getD, List.getD_eq_getElem?_getD, List.getElem?_modify,
    List.getElem?_eq_getElem hb]
  by_cases h : a = b <;> simp [h]

theorem sumsFrom_getD (S vals asg : List Nat) (b : Nat) (hb : b < S.length) :
    (Oracle.sumsFrom S vals asg).getD b 0 = S.getD b 0 + colSum b vals asg := by
  induction vals generalizing S asg with
  | nil => simp [colSum]
  | cons v vals ih =>
    cases asg with
    | nil => simp [colSum]
    | cons a asg =>
      rw [Oracle.sumsFrom_cons, ih _ _ (by simpa using hb), getD_modify_add S a b v hb]
      simp only [colSum, List.zip_cons_cons, List.map_cons, sumL]
      omega

theorem sumsOf_getD (k : Nat) (vals asg : List Nat) (b : Nat) (hb : b < k) :
    (sumsOf k vals asg).getD b 0 = colSum b vals asg := by
  rw [Oracle.sumsOf_eq, sumsFrom_getD _ _ _ _ (by simpa using hb)]
  simp [List.getD_eq_getElem?_getD, hb]

/-- the 0/1 point of an assignment -/
def pointOf (k : Nat) (asg : List Nat) : Point :=
  asg.map fun a => (List.range k).map fun b => if b = a then 1 else 0

theorem sumL_range_ite (k a : Nat) (ha : a < k) :
    sumL ((List.range k).map fun b => if b = a then 1 else 0) = 1 := by
  induction k with
  | zero => omega
  | succ k ih =>
    rw [List.range_succ, List.map_append, Oracle.sumL_append]
    by_cases h : a = k
    · subst h
      have : (List.range a).map (fun b => if b = a then 1 else 0) = (List.range a).map fun _ => 0 :=
        List.map_congr_left fun b hb => if_neg (by have := List.mem_range.1 hb; omega)
      rw [this, sumL_map_zero]
      simp [sumL]
    · rw [ih (by omega)]
      simp [sumL, Ne.symm h]

theorem entry_pointOf (k : Nat) (asg : List Nat) {i b : Nat} (hi : i < asg.length) (hb : b < k) :
    entry (pointOf k asg) i b = if asg[i] = b then 1 else 0 := by
  unfold entry pointOf
  simp only [List.getD_eq_getElem?_getD, List.getElem?_map, List.getElem?_eq_getElem hi, Option.map_some,
    Option.getD_some, List.getElem?_range hb]
  by_cases h : asg[i] = b
  · simp [h]
  · simp [h, Ne.symm h]

theorem rawSum_pointOf (s : Spec) (asg : List Nat) (hl : asg.length = s.vals.length) {b : Nat} (hb : b < s.k) :
    rawSum s (pointOf s.k asg) b = colSum b s.vals asg := by
  rw [rawSum_eq, colSum]
  congr 1
  apply List.ext_getElem
  · simp [hl]
  · intro i h1 h2
    have hi : i < s.vals.length := by simpa using h1
    have hi' : i < asg.length := by omega
    simp only [List.getElem_map, List.getElem_range, List.getElem_zip]
    rw [entry_pointOf s.k asg hi' hb, List.getD_eq_getElem?_getD, List.getElem?_eq_getElem hi]
    by_cases h : asg[i] = b <;> simp [h]

theorem rawSums_pointOf (s : Spec) (asg : List Nat) (hl : asg.length = s.vals.length) :
    (List.range s.k).map (rawSum s (pointOf s.k asg)) = sumsOf s.k s.vals asg := by
  apply List.ext_getElem
  · simp
  · intro b h1 h2
    have hb : b < s.k := by simpa using h1
    rw [List.getElem_map, List.getElem_range, rawSum_pointOf s asg hl hb, ← sumsOf_getD s.k s.vals asg b hb,
      List.getD_eq_getElem?_getD, List.getElem?_eq_getElem h2]
    rfl

/-- every assignment can be renumbered so that its bin sums are ascending -/
theorem exists_sorted_assignment (k : Nat) (vals asg : List Nat) (h : IsAssignment k vals.length asg) :
    ∃ asg', IsAssignment k vals.length asg' ∧ sumsOf k vals asg' = sortAsc id (sumsOf k vals asg) := by
  obtain ⟨h1, h2, h3, h4⟩ := Oracle.replay_spec id vals asg (Bins.new k) h.1
    (fun a ha => by simpa [Bins.new] using h.2 a ha) (by simp [Bins.new, binSum])
  generalize (vals.zip asg).foldl (fun b (p : Nat × Nat) => b.add id p.1 p.2) (Bins.new k) = B at h1 h2 h3 h4
  have hk : B.lists.length = k := by simpa [Bins.new] using h1
  have hperm : (sortAsc (fun a => id (binSum id a)) B.lists).Perm B.lists := Oracle.perm_sortAsc _ _
  obtain ⟨asg', ha', hs'⟩ := Oracle.lists_sums_assignment id vals
    (sortAsc (fun a => id (binSum id a)) B.lists) (hperm.flatten.trans (by simpa [Bins.new] using h2))
  rw [hperm.length_eq, hk] at ha' hs'
  rw [List.map_id] at hs'
  refine ⟨asg', ha', ?_⟩
  rw [hs', BinsOps.map_sortAsc (binSum id) id B.lists, ← h3, h4, List.map_id]
  rfl

/-- the hypotheses of the unit-weight case -/
structure Plain (s : Spec) : Prop where
  weights : s.weights = List.replicate s.k 1
  copies : s.copies = List.replicate s.vals.length 1
  cons : s.cons = []

/-- an assignment with ascending sums is a feasible point with the same sums -/
theorem pointOf_feasible {s : Spec} (hs : Plain s) (asg : List Nat) (h : IsAssignment s.k s.vals.length asg)
    (hsorted : SortedAsc (sumsOf s.k s.vals asg)) : feasible s (pointOf s.k asg) = true := by
  rw [feasible_iff]
  have hu := unitWeights_of_replicate hs.weights
  refine ⟨?_, ?_, ?_, by rw [hs.cons]; simp⟩
  · rw [shaped_iff]
    refine ⟨by simp [pointOf, h.1], ?_⟩
    intro r hr
    obtain ⟨a, _, rfl⟩ := List.mem_map.1 hr
    simp
  · intro i hi
    have hi' : i < asg.length := by rw [h.1]; exact hi
    rw [hs.copies, List.getD_eq_getElem?_getD (l := List.replicate _ _), List.getElem?_replicate, if_pos hi]
    simp only [pointOf, List.getD_eq_getElem?_getD, List.getElem?_map, List.getElem?_eq_getElem hi',
      Option.map_some, Option.getD_some]
    exact sumL_range_ite s.k _ (h.2 _ (List.getElem_mem hi'))
  · have hasc : ascending (wSums s (pointOf s.k asg)) = true := by
      rw [ascending_iff_pairwise, wSums_unit hu, rawSums_pointOf s asg h.1, List.pairwise_map]
      exact hsorted.imp (fun h => by exact_mod_cast h)
    rw [wSums, ascending_map_range] at hasc
    exact hasc

/-- **C17 (6): with unit weights, one copy of every item and no caller constraints, the optimum of the
    formulation is the optimum over all partitions** — the ascending-sums symmetry breaker loses nothing. -/
theorem unit_weights_wlog (s : Spec) (hw : s.weights = List.replicate s.k 1)
    (hc : s.copies = List.replicate s.vals.length 1) (hcons : s.cons = []) (_hk : 0 < s.k)
    (x : Rat) (h : ilpBest s = some x) :
    ∃ x' : Int, x = (x' : Rat) ∧ IsOptimalValue s.obj s.k s.vals x' := by
  have hs : Plain s := ⟨hw, hc, hcons⟩
  have hu := unitWeights_of_replicate hs.weights
  obtain ⟨⟨p, hp, hx⟩, hmin⟩ := (ilpBest_spec s x).1 h
  -- the optimal point is a partition, hence an assignment
  have hpart := decode_isPartition id s s.vals p (List.map_id _) hs.copies hp
  have hsh := ((feasible_iff s p).1 hp).1
  have hsums := decodeRaw_sums id s s.vals p (List.map_id _) ((shaped_iff s p).1 hsh).1
  obtain ⟨asg, hasg, hso⟩ := Oracle.partition_sums_assignment id s.vals _ hpart
  rw [List.map_id, hsums] at hso
  refine ⟨s.obj.value (sumsOf s.k s.vals asg) false, ?_, ⟨asg, hasg, rfl⟩, ?_⟩
  · rw [← hx, docValue_unit hu hp, hso]
  · intro asg₂ hasg₂
    obtain ⟨asg', hasg', hsorted⟩ := exists_sorted_assignment s.k s.vals asg₂ hasg₂
    have hfeas := pointOf_feasible hs asg' hasg' (by rw [hsorted]; exact Obj.sortAsc_sorted _)
    have := hmin _ hfeas
    rw [docValue_unit hu hfeas, rawSums_pointOf s asg' hasg'.1, hsorted,
      Oracle.value_sortAsc, ← hx, docValue_unit hu hp, ← hso] at this
    exact_mod_cast this

/-- non-vacuity, with the value computed: for the items `[11, 11, 11, 11, 22]` and two bins the formulation's
    optimum of the difference objective is `0` (the partition `33 | 33`), obtained from the DP oracle through
    `unit_weights_wlog` -/
theorem exSpecU_best : ilpBest exSpecU = some 0 := by
  cases h : ilpBest exSpecU with
  | none =>
    have := (ilpBest_none exSpecU).1 h exPointU
    rw [exPointU_feasible] at this
    cases this
  | some x =>
    obtain ⟨x', hx, hopt⟩ := unit_weights_wlog exSpecU rfl rfl rfl (by decide) x h
    obtain ⟨y, hy, hoy⟩ := Oracle.dpBestValue_spec .minDiff [11, 11, 11, 11, 22] (k := 2) (by decide)
    have h0 : dpBestValue .minDiff 2 [11, 11, 11, 11, 22] = some 0 := by decide
    rw [h0] at hy
    cases hy
    have : x' = 0 := Oracle.isOptimalValue_unique hopt hoy
    rw [hx, this]; simp

/-! ### scaling all weights by the same positive constant -/

/-- multiply every weight by `c` -/
def scaleWeights (c : Nat) (s : Spec) : Spec := { s with weights := s.weights.map (c * ·) }

theorem wSum_scale (c : Nat) (s : Spec) (p : Point) {b : Nat} (hb : b < s.weights.length) :
    wSum (scaleWeights c s) p b = wSum s p b / (c : Rat) := by
  have hr : rawSum (scaleWeights c s) p b = rawSum s p b := rfl
  have hw : (scaleWeights c s).weights.getD b 1 = c * s.weights.getD b 1 := by
    simp [scaleWeights, List.getD_eq_getElem?_getD, List.getElem?_map, List.getElem?_eq_getElem hb]
  rw [wSum, wSum, hr, hw, Nat.cast_mul, div_div, mul_comm]

theorem wSums_scale (c : Nat) (s : Spec) (p : Point) (hw : s.weights.length = s.k) :
    wSums (scaleWeights c s) p = (wSums s p).map (· / (c : Rat)) := by
  unfold wSums
  rw [List.map_map]
  apply List.map_congr_left
  intro b hb
  exact wSum_scale c s p (by rw [hw]; exact List.mem_range.1 hb)

theorem ascending_map_div (l : List Rat) (c : Rat) (hc : 0 < c) :
    ascending (l.map (· / c)) = ascending l := by
  rw [Bool.eq_iff_iff, ascending_iff_pairwise, ascending_iff_pairwise, List.pairwise_map]
  constructor
  · intro h; exact h.imp (fun h => (div_le_div_iff_of_pos_right hc).1 h)
  · intro h; exact h.imp (fun h => (div_le_div_iff_of_pos_right hc).2 h)

theorem sumRat_map_div (l : List Rat) (c : Rat) : sumRat (l.map (· / c)) = sumRat l / c := by
  induction l with
  | nil => simp
  | cons a l ih => rw [List.map_cons, sumRat_cons, sumRat_cons, ih]; ring

theorem headD_map_div (l : List Rat) (c : Rat) : (l.map (· / c)).headD 0 = l.headD 0 / c := by
  cases l <;> simp

theorem getLast_map_div (l : List Rat) (c : Rat) :
    (l.map (· / c)).getLast?.getD 0 = l.getLast?.getD 0 / c := by
  rw [List.getLast?_map]
  cases l.getLast? <;> simp

/-- every objective is positively homogeneous -/
theorem docValue_map_div (o : Objective) (l : List Rat) (c : Rat) :
    docValue o (l.map (· / c)) = docValue o l / c := by
  cases o with
  | maxSmallest => simp only [docValue, headD_map_div]; ring
  | minLargest => simp only [docValue, getLast_map_div]
  | minDiff => simp only [docValue, headD_map_div, getLast_map_div]; ring
  | maxKSmallest n => simp only [docValue, ← List.map_take, sumRat_map_div]; ring
  | minKLargest n => simp only [docValue, ← List.map_drop, sumRat_map_div, List.length_map]

/-- **C17 (6b): multiplying all weights by the same positive constant `c` divides every weighted sum by `c`;
    the feasible points are the same and every objective value is divided by `c`.** -/
theorem equal_weights_scale (c : Nat) (hc : 0 < c) (s : Spec) (hw : s.weights.length = s.k)
    (hcons : s.cons = []) (p : Point) :
    feasible (scaleWeights c s) p = feasible s p ∧
    docValue (scaleWeights c s).obj (wSums (scaleWeights c s) p) = docValue s.obj (wSums s p) / (c : Rat) := by
  have hc' : (0 : Rat) < (c : Rat) := by exact_mod_cast hc
  constructor
  · have hcons' : (scaleWeights c s).cons = [] := hcons
    unfold feasible
    rw [wSums_scale c s p hw, ascending_map_div _ _ hc', hcons, hcons']
    rfl
  · rw [wSums_scale c s p hw, docValue_map_div]; rfl

theorem minRatOpt_map_div (l : List Rat) (c : Rat) (hc : 0 < c) :
    minRatOpt (l.map (· / c)) = (minRatOpt l).map (· / c) := by
  cases h : minRatOpt l with
  | none =>
    rw [(minRatOpt_eq_none l).1 h]; rfl
  | some x =>
    obtain ⟨h1, h2⟩ := (minRatOpt_eq_some l x).1 h
    rw [Option.map_some, minRatOpt_eq_some]
    refine ⟨List.mem_map.2 ⟨x, h1, rfl⟩, ?_⟩
    intro y hy
    obtain ⟨z, hz, rfl⟩ := List.mem_map.1 hy
    exact (div_le_div_iff_of_pos_right hc).2 (h2 z hz)

/-- the optimum is divided by `c` ... -/
theorem ilpBest_scale (c : Nat) (hc : 0 < c) (s : Spec) (hw : s.weights.length = s.k) (hcons : s.cons = []) :
    ilpBest (scaleWeights c s) = (ilpBest s).map (· / (c : Rat)) := by
  have hc' : (0 : Rat) < (c : Rat) := by exact_mod_cast hc
  have hpts : allPoints (scaleWeights c s) = allPoints s := rfl
  unfold ilpBest
  rw [hpts, ← minRatOpt_map_div _ _ hc', List.map_map]
  have hf : (allPoints s).filter (feasible (scaleWeights c s)) = (allPoints s).filter (feasible s) :=
    List.filter_congr fun p _ => (equal_weights_scale c hc s hw hcons p).1
  rw [hf]
  congr 1
  apply List.map_congr_left
  intro p _
  exact (equal_weights_scale c hc s hw hcons p).2

/-- ... and the set of optimal points (the answers the solver may give) is unchanged -/
theorem argmin_scale (c : Nat) (hc : 0 < c) (s : Spec) (hw : s.weights.length = s.k) (hcons : s.cons = [])
    (p : Point) :
    (feasible (scaleWeights c s) p = true ∧
        ilpBest (scaleWeights c s) = some (docValue (scaleWeights c s).obj (wSums (scaleWeights c s) p))) ↔
      (feasible s p = true ∧ ilpBest s = some (docValue s.obj (wSums s p))) := by
  have hc' : (c : Rat) ≠ 0 := by exact_mod_cast (Nat.pos_iff_ne_zero.1 hc)
  obtain ⟨h1, h2⟩ := equal_weights_scale c hc s hw hcons p
  rw [h1, h2, ilpBest_scale c hc s hw hcons]
  apply and_congr_right
  intro _
  cases ilpBest s with
  | none => simp
  | some x =>
    simp only [Option.map_some, Option.some.injEq]
    constructor
    · intro h; exact (div_left_inj' hc').1 h
    · intro h; rw [h]

/-- **equal weights never change the result**: with all weights equal to `c > 0` (and no caller constraints)
    the feasible points are those of the unweighted problem and the objective is the unweighted one divided by
    `c`; as the read-back does not look at the weights when they are equal (`result_order`), the returned bins
    are those of the unweighted call for every answer of the solver. -/
theorem equal_weights_same_as_none (c : Nat) (hc : 0 < c) (s : Spec) (hw : s.weights = List.replicate s.k c)
    (hcons : s.cons = []) (p : Point) :
    let s₁ : Spec := { s with weights := List.replicate s.k 1 }
    feasible s p = feasible s₁ p ∧
    docValue s.obj (wSums s p) = docValue s₁.obj (wSums s₁ p) / (c : Rat) ∧
    ∀ {α : Type} (v : α → Nat) (items : List α), items.map v = s.vals → feasible s p = true →
      decode v s items p = decode v s₁ items p := by
  intro s₁
  have hs : s = scaleWeights c s₁ := by
    cases s
    simp only [scaleWeights, s₁, List.map_replicate, Nat.mul_one] at hw ⊢
    rw [hw]
  have hw₁ : s₁.weights.length = s₁.k := by simp [s₁]
  obtain ⟨h1, h2⟩ := equal_weights_scale c hc s₁ hw₁ hcons p
  rw [← hs] at h1 h2
  refine ⟨h1, h2, ?_⟩
  intro α v items hv hf
  have hf₁ : feasible s₁ p = true := by rw [← h1]; exact hf
  have e := (result_order v s items p hv (by rw [hw]; simp)
    (by rw [hw]; intro w hw'; rw [(List.mem_replicate.1 hw').2]; exact hc) hf).1
  have e₁ := (result_order v s₁ items p hv hw₁
    (by intro w hw'; rw [(List.mem_replicate.1 hw').2]; exact Nat.one_pos) hf₁).1
  rw [e, e₁]

/-- non-vacuity: the running example with weights `[6, 3]` instead of `[2, 1]` -/
example : feasible (scaleWeights 3 exSpec) exPoint = true := by
  rw [(equal_weights_scale 3 (by decide) exSpec rfl rfl exPoint).1]; exact exPoint_feasible

example : (scaleWeights 3 exSpec).weights = [6, 3] := by decide

/-- the weights `[0, 0]` of the remark after `result_order` do make the unsorted point feasible -/
example : feasible { exSpecU with weights := [0, 0] } [[1, 0], [1, 0], [1, 0], [1, 0], [1, 0]] = true := by
  rw [feasible_iff]
  refine ⟨by decide, by decide, ?_, by simp [exSpecU]⟩
  intro b hb
  have hb0 : b = 0 := by simp only [exSpecU] at hb; omega
  subst hb0
  simp [wSum, exSpecU]

/-! ## 8. summary: what the caller gets from an optimal answer of the solver -/

/-- **C17, assembled.**  Assume the (trusted) solver returns a point `p` that satisfies all rows and whose
    objective row is minimal among such points.  Then the returned bins-array (a) has `k` bins whose sums are
    consistent with their contents, (b) places item `i` exactly `copies[i]` times, (c) is the read-back itself —
    the final sort moves nothing — so bin `b` is the bin whose sum `rawSum s p b` was divided by `weights[b]`,
    and the weighted sums are non-decreasing, (d) satisfies every caller constraint, and (e) its documented
    objective value is `ilpBest s`, the least one among all feasible points. -/
theorem solver_answer_spec {α : Type} (v : α → Nat) (s : Spec) (items : List α) (p : Point)
    (hv : items.map v = s.vals) (hc : s.copies.length = s.vals.length) (hw : s.weights.length = s.k)
    (hpos : ∀ w ∈ s.weights, 0 < w) (hk : 0 < s.k)
    (hsat : satisfies s p = true) (hopt : ∀ q, satisfies s q = true → objValue s p ≤ objValue s q) :
    let out := decode v s items p
    (out.Consistent v ∧ out.lists.length = s.k) ∧
    out.lists.flatten.Perm ((items.zip s.copies).flatMap fun ic => List.replicate ic.2 ic.1) ∧
    (out.sums = (List.range s.k).map (rawSum s p) ∧ (wSums s p).Pairwise (· ≤ ·)) ∧
    (∀ c ∈ s.cons, c.holdsOn (wSums s p) = true) ∧
    (ilpBest s = some (docValue s.obj (wSums s p)) ∧
      ∀ q, feasible s q = true → docValue s.obj (wSums s p) ≤ docValue s.obj (wSums s q)) := by
  intro out
  have hf : feasible s p = true := by rw [← rows_iff_feasible' s p hk]; exact hsat
  obtain ⟨hdec, hsums, -, -⟩ := result_order v s items p hv hw hpos hf
  have hmin : ∀ q, feasible s q = true → docValue s.obj (wSums s p) ≤ docValue s.obj (wSums s q) := by
    intro q hq
    have := hopt q (by rw [rows_iff_feasible' s q hk]; exact hq)
    rwa [objValue_eq_docValue s p hk, objValue_eq_docValue s q hk] at this
  refine ⟨⟨?_, ?_⟩, ?_, ⟨hsums, feasible_ascending hf⟩, ((feasible_iff s p).1 hf).2.2.2, ?_, hmin⟩
  · show (decode v s items p).Consistent v
    rw [hdec]; exact decodeRaw_consistent v s.k items p
  · show (decode v s items p).lists.length = s.k
    rw [hdec]; exact (decodeRaw_length v s.k items p).1
  · show (decode v s items p).lists.flatten.Perm _
    rw [hdec]; exact decode_copies_feasible v s items p hv hc hf
  · exact (ilpBest_spec s _).2 ⟨⟨p, hf, rfl⟩, hmin⟩

/-- an optimal point of the unit-weight example: `33 | 33` -/
def exPointOpt : Point := [[1, 0], [1, 0], [1, 0], [0, 1], [0, 1]]

theorem exPointOpt_feasible : feasible exSpecU exPointOpt = true := by
  rw [feasible_iff]
  refine ⟨by decide, by decide, ?_, by simp [exSpecU]⟩
  intro b hb
  have hb0 : b = 0 := by simp only [exSpecU] at hb; omega
  subst hb0
  have h0 : rawSum exSpecU exPointOpt 0 = 33 := by decide
  have h1 : rawSum exSpecU exPointOpt 1 = 33 := by decide
  simp only [wSum, h0, h1]
  simp only [exSpecU, List.getD_cons_zero, List.getD_cons_succ, Nat.zero_add]
  norm_num

theorem exPointOpt_value : objValue exSpecU exPointOpt = 0 := by
  rw [objValue_eq_docValue _ _ (by decide), docValue_unit (unitWeights_of_replicate rfl) exPointOpt_feasible]
  have : (List.range exSpecU.k).map (rawSum exSpecU exPointOpt) = [33, 33] := by decide
  rw [this]
  have : exSpecU.obj.value [33, 33] false = 0 := by decide
  rw [this]; norm_num

/-- non-vacuity of the summary: all hypotheses hold for the point `33 | 33` of the unit-weight example (its
    optimality comes from `exSpecU_best`, i.e. from the DP oracle through `unit_weights_wlog`) -/
example := solver_answer_spec id exSpecU [11, 11, 11, 11, 22] exPointOpt rfl rfl rfl (by decide) (by decide)
  (by rw [rows_iff_feasible' _ _ (by decide)]; exact exPointOpt_feasible)
  (by
    intro q hq
    rw [exPointOpt_value]
    exact ((ilpBest_rows exSpecU (by decide) 0).1 exSpecU_best).2 q hq)

example : (decode id exSpecU [11, 11, 11, 11, 22] exPointOpt).lists = [[11, 11, 11], [11, 22]] := by decide

end Prtpy.ILPProofs

/-
Axiom audit (output of `#print axioms` observed with `lake env lean`):

#print axioms Prtpy.ILPProofs.rows_iff_feasible
  'Prtpy.ILPProofs.rows_iff_feasible' depends on axioms: [propext, Classical.choice, Quot.sound]
#print axioms Prtpy.ILPProofs.rows_iff_feasible'
  'Prtpy.ILPProofs.rows_iff_feasible'' depends on axioms: [propext, Classical.choice, Quot.sound]
#print axioms Prtpy.ILPProofs.objective_is_documented
  'Prtpy.ILPProofs.objective_is_documented' depends on axioms: [propext, Classical.choice, Quot.sound]
#print axioms Prtpy.ILPProofs.objValue_eq_docValue
  'Prtpy.ILPProofs.objValue_eq_docValue' depends on axioms: [propext, Classical.choice, Quot.sound]
#print axioms Prtpy.ILPProofs.docValue_unit
  'Prtpy.ILPProofs.docValue_unit' depends on axioms: [propext, Classical.choice, Quot.sound]
#print axioms Prtpy.ILPProofs.decode_copies
  'Prtpy.ILPProofs.decode_copies' depends on axioms: [propext, Classical.choice, Quot.sound]
#print axioms Prtpy.ILPProofs.decode_copies_feasible
  'Prtpy.ILPProofs.decode_copies_feasible' depends on axioms: [propext, Classical.choice, Quot.sound]
#print axioms Prtpy.ILPProofs.decode_isPartition
  'Prtpy.ILPProofs.decode_isPartition' depends on axioms: [propext, Classical.choice, Quot.sound]
#print axioms Prtpy.ILPProofs.count_bin_nodup
  'Prtpy.ILPProofs.count_bin_nodup' depends on axioms: [propext, Classical.choice, Quot.sound]
#print axioms Prtpy.ILPProofs.count_total_nodup
  'Prtpy.ILPProofs.count_total_nodup' depends on axioms: [propext, Classical.choice, Quot.sound]
#print axioms Prtpy.ILPProofs.result_order
  'Prtpy.ILPProofs.result_order' depends on axioms: [propext, Classical.choice, Quot.sound]
#print axioms Prtpy.ILPProofs.mem_compositions
  'Prtpy.ILPProofs.mem_compositions' depends on axioms: [propext, Classical.choice, Quot.sound]
#print axioms Prtpy.ILPProofs.mem_allPoints
  'Prtpy.ILPProofs.mem_allPoints' depends on axioms: [propext, Classical.choice, Quot.sound]
#print axioms Prtpy.ILPProofs.ilpBest_spec
  'Prtpy.ILPProofs.ilpBest_spec' depends on axioms: [propext, Classical.choice, Quot.sound]
#print axioms Prtpy.ILPProofs.ilpBest_none
  'Prtpy.ILPProofs.ilpBest_none' depends on axioms: [propext, Classical.choice, Quot.sound]
#print axioms Prtpy.ILPProofs.ilpBest_rows
  'Prtpy.ILPProofs.ilpBest_rows' depends on axioms: [propext, Classical.choice, Quot.sound]
#print axioms Prtpy.ILPProofs.unit_weights_wlog
  'Prtpy.ILPProofs.unit_weights_wlog' depends on axioms: [propext, Classical.choice, Quot.sound]
#print axioms Prtpy.ILPProofs.equal_weights_scale
  'Prtpy.ILPProofs.equal_weights_scale' depends on axioms: [propext, Classical.choice, Quot.sound]
#print axioms Prtpy.ILPProofs.ilpBest_scale
  'Prtpy.ILPProofs.ilpBest_scale' depends on axioms: [propext, Classical.choice, Quot.sound]
#print axioms Prtpy.ILPProofs.argmin_scale
  'Prtpy.ILPProofs.argmin_scale' depends on axioms: [propext, Classical.choice, Quot.sound]
#print axioms Prtpy.ILPProofs.equal_weights_same_as_none
  'Prtpy.ILPProofs.equal_weights_same_as_none' depends on axioms: [propext, Classical.choice, Quot.sound]
#print axioms Prtpy.ILPProofs.solver_answer_spec
  'Prtpy.ILPProofs.solver_answer_spec' depends on axioms: [propext, Classical.choice, Quot.sound]
-/
